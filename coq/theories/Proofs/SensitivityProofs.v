(* C11 proofs. *)
From Coq Require Import QArith.
From stdpp Require Import strings gmap sets fin_sets.
From CG Require Export Model.Sensitivity Base.Compose.
Open Scope string_scope.
Open Scope nat_scope.

(* ================================================================================================ *)
(* 1. utils.clog2 / utils.int_to_bin: the arithmetic behind the search                              *)

Lemma clog2_loop_spec fuel num a s :
  s = 2 ^ a → num ≤ s + fuel → (a = 0 ∨ 2 ^ (a - 1) < num) →
  let w := clog2_loop fuel num a s in num ≤ 2 ^ w ∧ (w = 0 ∨ 2 ^ (w - 1) < num).
Proof.
  revert a s. induction fuel as [|f IH]; intros a s Hs Hle Hlow; simpl.
  - split; [lia|done].
  - destruct (s <? num) eqn:E.
    + apply Nat.ltb_lt in E. apply IH.
      * subst s. rewrite Nat.pow_succ_r'. lia.
      * assert (1 ≤ s) by (subst s; clear; induction a; simpl; lia). lia.
      * right. replace (S a - 1) with a by lia. by subst.
    + apply Nat.ltb_ge in E. subst s. split; [lia|done].
Qed.
Lemma clog2_spec m w : clog2 m = Ok w → 1 ≤ m ∧ m ≤ 2 ^ w ∧ (w = 0 ∨ 2 ^ (w - 1) < m).
Proof.
  unfold clog2. destruct (m <? 1) eqn:E; [done|]. apply Nat.ltb_ge in E. intros [= <-].
  split; [done|]. apply (clog2_loop_spec m m 0 1); [done|lia|by left].
Qed.
Lemma clog2_ok m : 1 ≤ m → ∃ w, clog2 m = Ok w.
Proof. intros H. unfold clog2. destruct (m <? 1) eqn:E; [apply Nat.ltb_lt in E; lia|eauto]. Qed.

Lemma dec_app l k : dec (l ++ replicate k false) = dec l.
Proof. induction l as [|b l IH]; simpl; [induction k; simpl; lia|]. by rewrite IH. Qed.
Lemma odd_b2n n : (if Nat.odd n then 1 else 0) + 2 * (n / 2) = n.
Proof.
  pose proof (Nat.div_mod_eq n 2) as H. pose proof (Nat.mod_upper_bound n 2) as Hb.
  destruct (Nat.odd n) eqn:E.
  - apply Nat.odd_spec in E as [k ->]. replace (2 * k + 1) with (1 + k * 2) by lia.
    rewrite Nat.div_add by lia. simpl. lia.
  - assert (Nat.even n = true) as [k ->]%Nat.even_spec by (rewrite <- Nat.negb_odd, E; done).
    replace (2 * k) with (k * 2) by lia. rewrite Nat.div_mul by lia. lia.
Qed.
Lemma dec_cons b l : dec (b :: l) = (if b then 1 else 0) + 2 * dec l.
Proof. reflexivity. Qed.
Lemma dec_bits_le fuel n : n < fuel → dec (bits_le fuel n) = n.
Proof.
  revert n. induction fuel as [|f IH]; intros n Hn; [lia|]. cbn [bits_le].
  destruct (n <? 2) eqn:E.
  - apply Nat.ltb_lt in E. simpl. destruct n as [|[|]]; simpl; lia.
  - apply Nat.ltb_ge in E. rewrite dec_cons, IH.
    + apply odd_b2n.
    + assert (Hlt : n / 2 < n) by (apply Nat.div_lt; lia). revert Hlt. generalize (n / 2). intros; lia.
Qed.
Lemma dec_int_to_bin k w : dec (int_to_bin_le k w) = k.
Proof. unfold int_to_bin_le, bin_digits. rewrite dec_app. apply dec_bits_le. lia. Qed.
Lemma length_int_to_bin k w : w ≤ length (int_to_bin_le k w).
Proof. unfold int_to_bin_le. rewrite app_length, replicate_length. lia. Qed.

Lemma dec_lt l : dec l < 2 ^ length l.
Proof. induction l as [|b l IH]; simpl; [lia|]. destruct b; lia. Qed.
Lemma take_bits_dec l : take_bits (length l) (dec l) = l.
Proof.
  induction l as [|b l IH]; [done|]. cbn [length take_bits]. rewrite dec_cons.
  assert (Hd : ((if b then 1 else 0) + 2 * dec l) / 2 = dec l).
  { replace ((if b then 1 else 0) + 2 * dec l) with ((if b then 1 else 0) + dec l * 2) by lia.
    rewrite Nat.div_add by lia. destruct b; [rewrite (Nat.div_small 1 2) by lia|rewrite (Nat.div_small 0 2) by lia]; lia. }
  assert (Ho : Nat.odd ((if b then 1 else 0) + 2 * dec l) = b).
  { rewrite Nat.odd_add_mul_2. by destruct b. }
  rewrite Ho, Hd. by rewrite IH.
Qed.
Lemma dec_take_bits L c : dec (take_bits L c) = c mod 2 ^ L.
Proof.
  revert c. induction L as [|L IH]; intros c; cbn [take_bits].
  - change (2 ^ 0) with 1. by rewrite Nat.mod_1_r.
  - rewrite dec_cons, IH.
    assert (Hp : 2 ^ L ≠ 0) by (apply Nat.pow_nonzero; lia).
    rewrite Nat.pow_succ_r'.
    rewrite (Nat.mod_mul_r c 2 (2 ^ L)) by lia.
    pose proof (odd_b2n c) as Ho. pose proof (Nat.div_mod_eq c 2) as Hm.
    assert ((if Nat.odd c then 1 else 0) = c mod 2) by lia. lia.
Qed.
Lemma length_take_bits L c : length (take_bits L c) = L.
Proof. revert c. induction L; intros; simpl; auto. Qed.

(* the constraint "the low [length bits] bits of the count c are [bits]" *)
Definition matches (bits : list bool) (c : nat) : Prop := take_bits (length bits) c = bits.

(* the heart of the width argument: with w = clog2 m the un-truncated, w-padded digits of k pin the count down to k
   itself, except that k = 0 also admits the count m when m is a power of two (top bit unconstrained) *)
Lemma matches_enc m w k c : m ≤ 2 ^ w → k ≤ m → c ≤ m →
  matches (int_to_bin_le k w) c → c = k ∨ (k = 0 ∧ c = m).
Proof.
  intros Hm Hk Hc Hma. unfold matches in Hma.
  assert (Hd : c mod 2 ^ length (int_to_bin_le k w) = k).
  { rewrite <- dec_take_bits, Hma. apply dec_int_to_bin. }
  set (L := length (int_to_bin_le k w)) in *.
  assert (HL : w ≤ L) by apply length_int_to_bin.
  assert (2 ^ w ≤ 2 ^ L) by (apply Nat.pow_le_mono_r; lia).
  destruct (decide (c < 2 ^ L)) as [Hlt|Hge].
  - left. rewrite Nat.mod_small in Hd by done. done.
  - right. assert (c = 2 ^ L) as Hc2 by lia. rewrite Hc2 in Hd.
    rewrite Nat.mod_same in Hd by (apply Nat.pow_nonzero; lia). split; [done|lia].
Qed.
Lemma matches_self k w : matches (int_to_bin_le k w) k.
Proof. unfold matches. rewrite <- (dec_int_to_bin k w) at 2. apply take_bits_dec. Qed.

Lemma len_bits_le fuel n : n < fuel →
  1 ≤ length (bits_le fuel n) ∧ (n = 0 ∨ 2 ^ (length (bits_le fuel n) - 1) ≤ n).
Proof.
  revert n. induction fuel as [|f IH]; intros n Hn; [lia|]. cbn [bits_le].
  destruct (n <? 2) eqn:E.
  - apply Nat.ltb_lt in E. cbn [length]. split; [lia|]. destruct n as [|[|]]; [by left|right; simpl; lia|lia].
  - apply Nat.ltb_ge in E. cbn [length].
    assert (Hlt : n / 2 < n) by (apply Nat.div_lt; lia).
    assert (Hge : 1 ≤ n / 2) by (apply Nat.div_le_lower_bound; lia).
    assert (Hdm : 2 * (n / 2) ≤ n) by (apply Nat.mul_div_le; lia).
    destruct (IH (n / 2)) as [H1 H2]; [revert Hlt; generalize (n / 2); intros; lia|].
    split; [lia|]. right. destruct H2 as [H2|H2]; [lia|].
    replace (S (length (bits_le f (n / 2))) - 1) with (S (length (bits_le f (n / 2)) - 1)) by lia.
    rewrite Nat.pow_succ_r'. revert H2 Hdm. generalize (n / 2). intros; lia.
Qed.
(* the assumptions of the search never name a sen_out bit the transform does not have: the digits of k <= m padded to
   clog2(m) are at most clog2(m+1) many *)
Lemma width_ok m w W k : clog2 m = Ok w → clog2 (m + 1) = Ok W → k ≤ m → length (int_to_bin_le k w) ≤ W.
Proof.
  intros (Hm1 & Hmw & Hlow)%clog2_spec (_ & HmW & _)%clog2_spec Hk.
  assert (HW1 : 1 ≤ W). { destruct W; [simpl in HmW; lia|lia]. }
  assert (Hmono : ∀ a, 2 ^ a < 2 ^ W → a < W) by (intros a; apply Nat.pow_lt_mono_r_iff; lia).
  assert (HwW : w ≤ W).
  { destruct Hlow as [->|Hlow]; [lia|]. assert (w - 1 < W) by (apply Hmono; lia). lia. }
  unfold int_to_bin_le. rewrite app_length, replicate_length. unfold bin_digits.
  destruct (len_bits_le (S k) k) as [H1 H2]; [lia|].
  set (L := length (bits_le (S k) k)) in *.
  assert (L ≤ W).
  { destruct H2 as [->|H2]; [|assert (L - 1 < W) by (apply Hmono; lia); lia].
    subst L. simpl. lia. }
  lia.
Qed.

Lemma asm_link (name : nat → string) (v : val) bits :
  Forall (λ p : string * bool, v p.1 = p.2) (imap (λ i b, (name i, b)) bits) ↔ (λ i, v (name i)) <$> seq 0 (length bits) = bits.
Proof.
  revert name. induction bits as [|b bits IH]; intros name; [simpl; split; [done|constructor]|].
  rewrite imap_cons, Forall_cons. cbn [length seq fmap list_fmap].
  rewrite <- fmap_S_seq, <- list_fmap_compose.
  change (imap ((λ i b0, (name i, b0)) ∘ S) bits) with (imap (λ i b0, ((name ∘ S) i, b0)) bits).
  rewrite (IH (name ∘ S)). simpl. split.
  - intros [-> H]. f_equal. exact H.
  - intros [= H1 H2]. split; [done|]. exact H2.
Qed.

(* ================================================================================================ *)
(* 2. props.sensitivity: the descending search returns the maximum                                   *)
Definition sen_bits (v : val) (L : nat) : list bool := (λ i, v ("sen_out_" ++ pretty i)) <$> seq 0 L.

Section search.
  Variable T : circuit.                       (* the sensitivity circuit *)
  Variable m w : nat.                         (* number of startpoints, clog2 of it *)
  Variable cnt : val → nat.                   (* the count a consistent valuation stands for *)
  Variable solve : list (string * bool) → bool.
  (* sound and complete on the queries the search makes *)
  Hypothesis solve_ok : ∀ k, k ≤ m → let asm := asm_of (int_to_bin_le k w) in
    solve asm = true ↔ ∃ v, consistent T v ∧ Forall (λ p : string * bool, v p.1 = p.2) asm.
  Hypothesis Hw : clog2 m = Ok w.
  Hypothesis cnt_le : ∀ v, consistent T v → cnt v ≤ m.
  (* the transform's encoding clause, for the bit positions the search constrains (see width_ok) *)
  Hypothesis enc : ∀ v k, consistent T v → k ≤ m →
    sen_bits v (length (int_to_bin_le k w)) = take_bits (length (int_to_bin_le k w)) (cnt v).
  Hypothesis nonempty : ∃ v, consistent T v.

  Lemma solve_iff k : k ≤ m → (∀ v, consistent T v → cnt v ≤ k) →
    (solve (asm_of (int_to_bin_le k w)) = true ↔ ∃ v, consistent T v ∧ cnt v = k).
  Proof.
    intros Hk Hub. destruct (clog2_spec _ _ Hw) as (_ & Hmw & _).
    rewrite (solve_ok k Hk). split.
    - intros (v & Hv & Ha). exists v. split; [done|].
      unfold asm_of in Ha. apply asm_link in Ha. fold (sen_bits v (length (int_to_bin_le k w))) in Ha.
      rewrite enc in Ha by done.
      destruct (matches_enc m w k (cnt v) Hmw Hk (cnt_le v Hv) Ha) as [?|[-> ?]]; [done|].
      specialize (Hub v Hv). lia.
    - intros (v & Hv & <-). exists v. split; [done|].
      unfold asm_of. apply asm_link. fold (sen_bits v (length (int_to_bin_le (cnt v) w))).
      rewrite enc by done. apply matches_self.
  Qed.

  Lemma search_correct sen : sen ≤ m → (∀ v, consistent T v → cnt v ≤ sen) →
    ∃ k, search solve w sen = Ok k ∧ (∃ v, consistent T v ∧ cnt v = k) ∧ ∀ v, consistent T v → cnt v ≤ k.
  Proof.
    induction sen as [|sen IH]; intros Hle Hub.
    - cbn [search]. destruct (solve (asm_of (int_to_bin_le 0 w))) eqn:E.
      + exists 0. split; [done|]. split; [|done]. by apply (solve_iff 0 Hle Hub).
      + exfalso. destruct nonempty as [v Hv].
        assert (solve (asm_of (int_to_bin_le 0 w)) = true); [|congruence].
        apply (solve_iff 0 Hle Hub). exists v. split; [done|]. specialize (Hub v Hv). lia.
    - cbn [search]. destruct (solve (asm_of (int_to_bin_le (S sen) w))) eqn:E.
      + exists (S sen). split; [done|]. split; [|done]. by apply (solve_iff (S sen) Hle Hub).
      + apply IH; [lia|]. intros v Hv. pose proof (Hub v Hv) as Hc.
        destruct (decide (cnt v = S sen)) as [Heq|]; [|lia]. exfalso.
        assert (solve (asm_of (int_to_bin_le (S sen) w)) = true); [|congruence].
        apply (solve_iff (S sen) Hle Hub). eauto.
  Qed.

  Theorem search_max : ∃ k, search solve w m = Ok k ∧ (∃ v, consistent T v ∧ cnt v = k) ∧ ∀ v, consistent T v → cnt v ≤ k.
  Proof. apply search_correct; [done|apply cnt_le]. Qed.
End search.

(* ================================================================================================ *)
(* 3. evalc IS the consistent valuation of a closed acyclic circuit (the size-derived fuel suffices)  *)
Section compact_rank.
  Context (c : circuit) (rank : string → nat).
  Hypothesis Hcl : closed c.
  Hypothesis Hrank : ∀ n i f, c !! n = Some i → f ∈ n_fi i → rank f < rank n.
  (* position of n among the nodes sorted by rank: still strictly monotone along edges, and below size c *)
  Definition crank (n : string) : nat := size (filter (λ m, rank m < rank n) (dom c)).
  Lemma crank_mono n i f : c !! n = Some i → f ∈ n_fi i → crank f < crank n.
  Proof.
    intros Hn Hf. pose proof (Hrank n i f Hn Hf) as Hlt. unfold crank. apply subset_size.
    assert (f ∈ dom c) by (eapply Hcl; eauto).
    split.
    - intros m. rewrite !elem_of_filter. intros [? ?]. split; [lia|done].
    - intros Hsub. specialize (Hsub f). rewrite !elem_of_filter in Hsub. destruct Hsub as [? _]; [done|lia].
  Qed.
  Lemma crank_bound n : n ∈ dom c → crank n < size c.
  Proof.
    intros Hn. rewrite <- size_dom. unfold crank. apply subset_size. split.
    - intros m. rewrite elem_of_filter. tauto.
    - intros Hsub. specialize (Hsub n Hn). rewrite elem_of_filter in Hsub. lia.
  Qed.
End compact_rank.

Lemma evalc_consistent c a : closed c → acyclic c → consistent c (evalc c a).
Proof.
  intros Hcl [rank Hr]. unfold evalc.
  apply (eval_consistent c (crank c rank) (crank_mono c rank Hcl Hr) a (S (size c))); [|done].
  intros n Hn. pose proof (crank_bound c rank n Hn). lia.
Qed.
Lemma evalc_free c a n i : c !! n = Some i → is_free i = true → evalc c a n = a n.
Proof. intros Hn Hf. unfold evalc. simpl. by rewrite Hn, Hf. Qed.
(* every consistent valuation that agrees with a on the free nodes is evalc c a on the whole circuit *)
Lemma evalc_agrees c a v : closed c → acyclic c → consistent c v → agrees (free_nodes c) v a → agrees (dom c) v (evalc c a).
Proof.
  intros Hcl Hac Hv Ha. apply evalc_unique; try done. apply consistentb_spec. by apply evalc_consistent.
Qed.
Lemma eval_ext fuel c a a' : (∀ x, a x = a' x) → ∀ n, eval fuel c a n = eval fuel c a' n.
Proof.
  intros Hf. induction fuel as [|f IH]; intros n; simpl; [done|].
  destruct (c !! n) as [i|] eqn:Hn; [|done].
  destruct (is_free i) eqn:Hfr; [done|].
  assert (∀ t, gate_val t (eval f c a) (n_fi i) = gate_val t (eval f c a') (n_fi i)) as Hg.
  { intros t. apply gate_val_ext. intros x _. apply IH. }
  destruct (n_ty i); auto.
Qed.


(* ================================================================================================ *)
(* 4. per-construction lemmas: single gates                                                          *)
Lemma node_val T (v : val) name j : consistent T v → T !! name = Some j → is_free j = false →
  n_ty j ≠ C0 → n_ty j ≠ C1 → v name = gate_val (n_ty j) v (n_fi j).
Proof.
  intros Hc Hj Hf H0 H1. specialize (Hc name j Hj). unfold node_ok in Hc. rewrite Hf in Hc.
  destruct (n_ty j); done.
Qed.
Lemma gate_val_singleton t (v : val) x : gate_val t v {[x]} = xorb (g_inv t) (g_op t (v x) (g_unit t)).
Proof. unfold gate_val. by rewrite elements_singleton. Qed.
Lemma buf_val (v : val) x : gate_val Buf v {[x]} = v x.
Proof. rewrite gate_val_singleton. simpl. by destruct (v x). Qed.
Lemma not_val (v : val) x : gate_val Not v {[x]} = negb (v x).
Proof. rewrite gate_val_singleton. simpl. by destruct (v x). Qed.
(* xor-compare lemma *)
Lemma xor2_val (v : val) a b : a ≠ b → gate_val Xor v {[a; b]} = xorb (v a) (v b).
Proof.
  intros Hab.
  assert (H : gfold Xor (v <$> elements ({[a; b]} : gset string)) = gfold Xor (v <$> [a; b])).
  { apply gfold_perm, fmap_Permutation. rewrite elements_union_singleton by set_solver. by rewrite elements_singleton. }
  unfold gfold in H. unfold gate_val. rewrite H. simpl. by destruct (v a), (v b).
Qed.
Lemma or_fold l : foldr orb false l = true ↔ ∃ b, b ∈ l ∧ b = true.
Proof.
  induction l as [|x l IH]; simpl.
  - split; [done|]. intros (b & Hb & _). by apply elem_of_nil in Hb.
  - rewrite orb_true_iff, IH. split.
    + intros [->|(b & Hb & ->)]; [exists true; split; [left|done]|exists true; split; [by right|done]].
    + intros (b & [->|Hb]%elem_of_cons & Hbt); [by left|right; eauto].
Qed.
Lemma or_val (v : val) (S : gset string) : gate_val Or v S = true ↔ ∃ x, x ∈ S ∧ v x = true.
Proof.
  unfold gate_val. change (g_inv Or) with false. change (g_op Or) with orb. change (g_unit Or) with false.
  rewrite xorb_false_l, or_fold. split.
  - intros (b & (x & -> & Hx)%elem_of_list_fmap & Hb). exists x. split; [by apply elem_of_elements|done].
  - intros (x & Hx & Hv). exists true. split; [|done]. apply elem_of_list_fmap. exists x. split; [done|by apply elem_of_elements].
Qed.

(* flipped-node lemma (closed form of `disconnect fan-in; set_type not; connect y`): the node is the complement of its driver,
   everything else is constrained as before *)
Lemma flip_node_consistent (g : circuit) x y o (v : val) :
  consistent (<[x := mk_node Not o {[y]}]> g) v ↔ consistent (delete x g) v ∧ v x = negb (v y).
Proof.
  unfold consistent. split.
  - intros H. split.
    + intros n i [Hne Hn]%lookup_delete_Some. apply H. by rewrite lookup_insert_ne.
    + specialize (H x _ (lookup_insert _ _ _)). unfold node_ok, is_free in H. simpl in H.
      rewrite bool_decide_eq_false_2 in H by set_solver. rewrite H. apply not_val.
  - intros [H Hx] n i Hn. destruct (decide (n = x)) as [->|Hne].
    + rewrite lookup_insert in Hn. injection Hn as <-. unfold node_ok, is_free. simpl.
      rewrite bool_decide_eq_false_2 by set_solver. rewrite Hx. symmetry. apply not_val.
    + rewrite lookup_insert_ne in Hn by done. apply H. by apply lookup_delete_Some.
Qed.

(* ================================================================================================ *)
(* 5. a prefixed copy of a circuit inside a larger graph                                              *)
Definition copy_ok (p : string) (T : circuit) (x : string) (i : ninfo) : Prop :=
  ∃ j, T !! pre p x = Some j ∧ n_ty j = n_ty i ∧ n_fi j = set_map (pre p) (n_fi i).
Definition tie_ok (T : circuit) (name drv : string) (t : gtype) : Prop :=
  ∃ j, T !! name = Some j ∧ n_ty j = t ∧ n_fi j = {[drv]}.

Lemma tie_buf T (v : val) name drv : consistent T v → tie_ok T name drv Buf → v name = v drv.
Proof.
  intros Hc (j & Hj & Ht & Hfi). rewrite (node_val T v name j Hc Hj); rewrite ?Ht, ?Hfi; try done.
  - apply buf_val.
  - unfold is_free. rewrite Ht, Hfi. apply bool_decide_eq_false_2. set_solver.
Qed.
Lemma tie_not T (v : val) name drv : consistent T v → tie_ok T name drv Not → v name = negb (v drv).
Proof.
  intros Hc (j & Hj & Ht & Hfi). rewrite (node_val T v name j Hc Hj); rewrite ?Ht, ?Hfi; try done.
  - apply not_val.
  - unfold is_free. rewrite Ht, Hfi. apply bool_decide_eq_false_2. set_solver.
Qed.

Lemma copy_node_ok p T (v : val) x i : consistent T v → copy_ok p T x i → is_free i = false → node_ok (v ∘ pre p) x i.
Proof.
  intros Hc (j & Hj & Ht & Hfi) Hfree. specialize (Hc _ _ Hj). unfold node_ok in *.
  assert (Hfj : is_free j = false).
  { unfold is_free in *. rewrite Ht, Hfi. destruct (n_ty i); try done;
      rewrite bool_decide_eq_false in Hfree |- *; intros He; apply Hfree; by apply (set_map_empty_iff (pre p)). }
  rewrite Hfj in Hc. rewrite Hfree. rewrite Ht, Hfi in Hc.
  destruct (n_ty i); rewrite ?(gate_val_rename (pre p)) in Hc; exact Hc.
Qed.
Lemma copy_consistent p T (v : val) c :
  consistent T v → (∀ x i, c !! x = Some i → is_free i = false → copy_ok p T x i) → consistent c (v ∘ pre p).
Proof.
  intros Hc Hcp x i Hx. destruct (is_free i) eqn:Hf.
  - unfold node_ok. by rewrite Hf.
  - eapply copy_node_ok; eauto.
Qed.


(* ================================================================================================ *)
(* 6. the sensitization circuit                                                                      *)
(* all free nodes are primary inputs (lint-clean, blackbox-free, no 'x') *)
Definition inputs_only (c : circuit) : Prop := ∀ x i, c !! x = Some i → is_free i = true → n_ty i = Input.

Lemma cut_lookup_ne c n x : x ≠ n → cut c n !! x = c !! x.
Proof. intros. unfold cut. by rewrite lookup_alter_ne. Qed.
Lemma cut_lookup c n i : c !! n = Some i → cut c n !! n = Some (mk_node Input (n_out i) ∅).
Proof. intros H. unfold cut. by rewrite lookup_alter, H. Qed.
Lemma cut_dom c n : dom (cut c n) = dom c.
Proof. unfold cut. apply dom_alter_L. Qed.
Lemma cut_closed c n : closed c → closed (cut c n).
Proof.
  intros Hcl x i f Hx Hf. rewrite cut_dom. destruct (decide (x = n)) as [->|Hne].
  - unfold cut in Hx. rewrite lookup_alter in Hx. destruct (c !! n); simplify_eq/=. set_solver.
  - rewrite cut_lookup_ne in Hx by done. eapply Hcl; eauto.
Qed.
Lemma cut_acyclic c n : acyclic c → acyclic (cut c n).
Proof.
  intros [rank Hr]. exists rank. intros x i f Hx Hf. destruct (decide (x = n)) as [->|Hne].
  - unfold cut in Hx. rewrite lookup_alter in Hx. destruct (c !! n); simplify_eq/=. set_solver.
  - rewrite cut_lookup_ne in Hx by done. eapply Hr; eauto.
Qed.

Definition sat_ok (T : circuit) (E : gset string) : Prop :=
  ∃ j, T !! "sat" = Some j ∧ n_fi j = set_map (pre "dif") E ∧
       ((n_ty j = Or ∧ E ≠ ∅) ∨ (n_ty j = Buf ∧ ∃ e, E = {[e]}) ∨ (n_ty j = C0 ∧ E = ∅)).
(* T contains: copy c0 of c, copy c1 of c with c1_n := not c0_n, copy inputs tied to the shared inputs,
   dif_e = xor(c0_e, c1_e) for the compared endpoints E, sat over the dif nodes *)
Record sens_shape (c : circuit) (n : string) (E : gset string) (T : circuit) : Prop := {
  ss_c0 : ∀ x i, c !! x = Some i → is_free i = false → copy_ok "c0" T x i;
  ss_c1 : ∀ x i, c !! x = Some i → is_free i = false → x ≠ n → copy_ok "c1" T x i;
  ss_t0 : ∀ s, s ∈ inputs c → tie_ok T (pre "c0" s) s Buf;
  ss_t1 : ∀ s, s ∈ inputs c → s ≠ n → tie_ok T (pre "c1" s) s Buf;
  ss_flip : tie_ok T (pre "c1" n) (pre "c0" n) Not;
  ss_dif : ∀ e, e ∈ E → ∃ j, T !! pre "dif" e = Some j ∧ n_ty j = Xor ∧ n_fi j = {[pre "c0" e; pre "c1" e]};
  ss_sat : sat_ok T E }.

Lemma free_is_input c x : inputs_only c → x ∈ free_nodes c → x ∈ inputs c.
Proof.
  intros Hio Hx. unfold free_nodes in Hx. apply elem_of_dom in Hx as [i Hi].
  apply map_filter_lookup_Some in Hi as [Hi Hf]. apply elem_of_inputs. exists i. split; [done|]. by eapply Hio.
Qed.

Section sens.
  Context (c : circuit) (n : string) (E : gset string) (T : circuit).
  Hypothesis Hcl : closed c.
  Hypothesis Hac : acyclic c.
  Hypothesis Hio : inputs_only c.
  Hypothesis Hn : n ∈ dom c.
  Hypothesis HE : E ⊆ dom c.
  Hypothesis Hsh : sens_shape c n E T.
  Context (v : val) (Hv : consistent T v).

  (* the first copy carries the values of c under the input valuation v *)
  Lemma c0_values x : x ∈ dom c → v (pre "c0" x) = evalc c v x.
  Proof.
    intros Hx. apply (evalc_agrees c v (v ∘ pre "c0")); try done.
    - eapply copy_consistent; [done|]. apply Hsh.
    - intros s Hs. simpl. apply (tie_buf T); [done|]. apply Hsh. by apply free_is_input.
  Qed.
  (* the flipped-node lemma in context: the second copy computes c with n inverted *)
  Lemma c1_values x : x ∈ dom c → v (pre "c1" x) = inverted c n v x.
  Proof.
    intros Hx. unfold inverted.
    apply (evalc_agrees (cut c n) (setv v n (negb (evalc c v n))) (v ∘ pre "c1")).
    - by apply cut_closed.
    - by apply cut_acyclic.
    - intros y i Hy. destruct (decide (y = n)) as [->|Hne].
      + apply elem_of_dom in Hn as [i0 Hi0]. rewrite (cut_lookup _ _ _ Hi0) in Hy. injection Hy as <-. done.
      + rewrite cut_lookup_ne in Hy by done. destruct (is_free i) eqn:Hf.
        * unfold node_ok. by rewrite Hf.
        * eapply copy_node_ok; [done| |done]. by eapply (ss_c1 _ _ _ _ Hsh).
    - intros s Hs. unfold setv. simpl. destruct (decide (s = n)) as [->|Hne].
      + rewrite bool_decide_eq_true_2 by done.
        rewrite (tie_not T v _ _ Hv (ss_flip _ _ _ _ Hsh)). f_equal. by apply c0_values.
      + rewrite bool_decide_eq_false_2 by done.
        apply (tie_buf T); [done|]. apply (ss_t1 _ _ _ _ Hsh); [|done].
        unfold free_nodes in Hs. apply elem_of_dom in Hs as [i Hi]. apply map_filter_lookup_Some in Hi as [Hi Hf].
        rewrite cut_lookup_ne in Hi by done. apply elem_of_inputs. exists i. split; [done|]. by eapply Hio.
    - by rewrite cut_dom.
  Qed.
  Lemma dif_values e : e ∈ E → v (pre "dif" e) = xorb (evalc c v e) (inverted c n v e).
  Proof.
    intros He. destruct (ss_dif _ _ _ _ Hsh e He) as (j & Hj & Ht & Hfi).
    rewrite (node_val T v _ j Hv Hj); rewrite ?Ht, ?Hfi; try done.
    - rewrite xor2_val by (unfold pre; intros [=]).
      rewrite c0_values, c1_values by (by apply HE). done.
    - unfold is_free. by rewrite Ht.
  Qed.

  (* `sat` is 1 exactly when inverting n changes one of the compared endpoints *)
  Theorem sens_shape_spec : v "sat" = true ↔ sens_at c n (elements E) v.
  Proof.
    destruct (ss_sat _ _ _ _ Hsh) as (j & Hj & Hfi & Hty). unfold sens_at.
    assert (Hdif : (∃ x, x ∈ (set_map (pre "dif") E : gset string) ∧ v x = true) ↔
                   ∃ e, e ∈ elements E ∧ evalc c v e ≠ inverted c n v e).
    { split.
      - intros (x & (e & -> & He)%elem_of_map & Hx). exists e. split; [by apply elem_of_elements|].
        rewrite dif_values in Hx by done. by destruct (evalc c v e), (inverted c n v e).
      - intros (e & He%elem_of_elements & Hne). exists (pre "dif" e). split; [apply elem_of_map; eauto|].
        rewrite dif_values by done. by destruct (evalc c v e), (inverted c n v e). }
    destruct Hty as [[Ht Hne]|[[Ht [e ->]]|[Ht ->]]].
    - rewrite (node_val T v _ j Hv Hj); rewrite ?Ht, ?Hfi; try done.
      + by rewrite or_val.
      + unfold is_free. by rewrite Ht.
    - rewrite (node_val T v _ j Hv Hj); rewrite ?Ht, ?Hfi; try done.
      + rewrite <- Hdif. rewrite set_map_singleton_L, buf_val. split.
        * intros H. exists (pre "dif" e). split; [set_solver|done].
        * intros (x & ->%elem_of_singleton & H). done.
      + unfold is_free. rewrite Ht, Hfi, set_map_singleton_L. apply bool_decide_eq_false_2. set_solver.
    - pose proof (Hv _ _ Hj) as Hok. unfold node_ok, is_free in Hok. rewrite Ht in Hok. rewrite Hok.
      split; [done|]. rewrite elements_empty. intros (e & He & _). by apply elem_of_nil in He.
  Qed.
End sens.


(* ================================================================================================ *)
(* 7. the sensitivity circuit                                                                        *)
Lemma flip_other (ρ : val) s x : x ≠ s → flipv ρ s x = ρ x.
Proof. intros. unfold flipv. by rewrite bool_decide_eq_false_2. Qed.
Lemma flip_self (ρ : val) s : flipv ρ s s = negb (ρ s).
Proof. unfold flipv. by rewrite bool_decide_eq_true_2. Qed.

Lemma filter_index_length (P : string → bool) (Q : nat → bool) (sp : list string) k :
  (∀ i s, sp !! i = Some s → Q (k + i) = P s) →
  length (filter (λ i, Q i = true) (seq k (length sp))) = length (filter (λ s, P s = true) sp).
Proof.
  revert k. induction sp as [|s sp IH]; intros k H; [done|].
  cbn [length seq]. rewrite !filter_cons.
  assert (Q k = P s) as Hk by (rewrite <- (H 0 s eq_refl); f_equal; lia).
  assert (IH' : length (filter (λ i, Q i = true) (seq (S k) (length sp))) = length (filter (λ s, P s = true) sp)).
  { apply IH. intros i s' Hi. rewrite <- (H (S i) s' Hi). f_equal. lia. }
  rewrite Hk. destruct (decide (P s = true)); simpl; by rewrite IH'.
Qed.

(* the popcount sub-circuit counts (C13): the low W output bits are the binary digits of the number of inputs at 1 *)
Definition popcount_correct (PC : circuit) (m W : nat) : Prop :=
  ∀ u : val, consistent PC u →
    (λ o, u ("out_" ++ pretty o)) <$> seq 0 W =
    take_bits W (length (filter (λ i, u ("in_" ++ pretty i) = true) (seq 0 m))).

(* T contains: the shared copy orig of the cone c of n, one copy inv_<s0> per startpoint with that input inverted,
   dif_out_<s0> = xor(orig_n, inv_<s0>_n) driving pc_in_<i> in the order of sp, the popcount copy, sen_out buffers *)
Record sv_shape (c : circuit) (n : string) (sp : list string) (PC : circuit) (W : nat) (T : circuit) : Prop := {
  sv_orig : ∀ x i, c !! x = Some i → is_free i = false → copy_ok "orig" T x i;
  sv_torig : ∀ s, s ∈ inputs c → tie_ok T (pre "orig" s) s Buf;
  sv_inv : ∀ s0 x i, s0 ∈ sp → c !! x = Some i → is_free i = false → copy_ok (pre "inv" s0) T x i;
  sv_tinv : ∀ s0 s, s0 ∈ sp → s ∈ inputs c → s ≠ s0 → tie_ok T (pre (pre "inv" s0) s) s Buf;
  sv_flip : ∀ s0, s0 ∈ sp → tie_ok T (pre (pre "inv" s0) s0) s0 Not;
  sv_dif : ∀ s0, s0 ∈ sp → ∃ j, T !! pre "dif_out" s0 = Some j ∧ n_ty j = Xor ∧ n_fi j = {[pre "orig" n; pre (pre "inv" s0) n]};
  sv_pc : ∀ x i, PC !! x = Some i → is_free i = false → copy_ok "pc" T x i;
  sv_pcin : ∀ i s0, sp !! i = Some s0 → tie_ok T ("pc_in_" ++ pretty i) (pre "dif_out" s0) Buf;
  sv_out : ∀ o, o < W → tie_ok T ("sen_out_" ++ pretty o) ("pc_out_" ++ pretty o) Buf }.

Section sv.
  Context (c : circuit) (n : string) (sp : list string) (PC : circuit) (W : nat) (T : circuit).
  Hypothesis Hcl : closed c.
  Hypothesis Hac : acyclic c.
  Hypothesis Hio : inputs_only c.
  Hypothesis Hn : n ∈ dom c.
  Hypothesis Hsh : sv_shape c n sp PC W T.
  Context (v : val) (Hv : consistent T v).

  Lemma orig_values x : x ∈ dom c → v (pre "orig" x) = evalc c v x.
  Proof.
    intros Hx. apply (evalc_agrees c v (v ∘ pre "orig")); try done.
    - eapply copy_consistent; [done|]. apply Hsh.
    - intros s Hs. simpl. apply (tie_buf T); [done|]. apply Hsh. by apply free_is_input.
  Qed.
  Lemma inv_values s0 x : s0 ∈ sp → x ∈ dom c → v (pre (pre "inv" s0) x) = evalc c (flipv v s0) x.
  Proof.
    intros Hs0 Hx. apply (evalc_agrees c (flipv v s0) (v ∘ pre (pre "inv" s0))); try done.
    - eapply copy_consistent; [done|]. intros. by eapply (sv_inv _ _ _ _ _ _ Hsh).
    - intros s Hs. simpl. destruct (decide (s = s0)) as [->|Hne].
      + rewrite flip_self. apply (tie_not T); [done|]. by apply Hsh.
      + rewrite flip_other by done. apply (tie_buf T); [done|]. apply Hsh; [done| |done]. by apply free_is_input.
  Qed.
  (* dif_out_s is 1 exactly when flipping startpoint s flips n *)
  Theorem dif_out_spec s0 : s0 ∈ sp → v (pre "dif_out" s0) = flipsb c n s0 v.
  Proof.
    intros Hs0. destruct (sv_dif _ _ _ _ _ _ Hsh s0 Hs0) as (j & Hj & Ht & Hfi).
    rewrite (node_val T v _ j Hv Hj); rewrite ?Ht, ?Hfi; try done.
    - rewrite xor2_val by (unfold pre; intros [=]). rewrite orig_values, inv_values by done. done.
    - unfold is_free. by rewrite Ht.
  Qed.

  (* the sen_out bits are the binary digits of the count, given a correct popcount *)
  Hypothesis Hpc : popcount_correct PC (length sp) W.
  Theorem sen_out_spec : sen_bits v W = take_bits W (count c n sp v).
  Proof.
    assert (Hu : consistent PC (v ∘ pre "pc")) by (eapply copy_consistent; [done|]; apply Hsh).
    specialize (Hpc _ Hu). unfold sen_bits.
    transitivity ((λ o, (v ∘ pre "pc") ("out_" ++ pretty o)) <$> seq 0 W).
    - apply list_fmap_ext. intros k o Ho. apply lookup_seq in Ho as [-> Hlt]. simpl.
      apply (tie_buf T v _ _ Hv (sv_out _ _ _ _ _ _ Hsh _ Hlt)).
    - rewrite Hpc. f_equal. unfold count.
      apply (filter_index_length (λ s, flipsb c n s v) (λ i, (v ∘ pre "pc") ("in_" ++ pretty i)) sp 0).
      intros i s0 Hi. change ((v ∘ pre "pc") ("in_" ++ pretty (0 + i))) with (v ("pc_in_" ++ pretty i)).
      rewrite (tie_buf T v _ _ Hv (sv_pcin _ _ _ _ _ _ Hsh _ _ Hi)).
      apply dif_out_spec. by eapply elem_of_list_lookup_2.
  Qed.
End sv.


(* ================================================================================================ *)
(* 8. sub-circuits (tx.subcircuit / graph.subgraph on a fan-in closed node set; output marks may differ)  *)
Record sub_of (c' c : circuit) : Prop := {
  so_nodes : ∀ y i', c' !! y = Some i' → ∃ i, c !! y = Some i ∧ n_ty i' = n_ty i ∧ n_fi i' = n_fi i;
  so_closed : closed c' }.

Lemma is_free_same i i' : n_ty i' = n_ty i → n_fi i' = n_fi i → is_free i' = is_free i.
Proof. intros Ht Hf. unfold is_free. by rewrite Ht, Hf. Qed.
Lemma node_ok_same (v : val) y i i' : n_ty i' = n_ty i → n_fi i' = n_fi i → node_ok v y i → node_ok v y i'.
Proof. intros Ht Hf. unfold node_ok. rewrite (is_free_same i i' Ht Hf), Ht, Hf. done. Qed.
Lemma sub_consistent c' c v : sub_of c' c → consistent c v → consistent c' v.
Proof.
  intros Hs Hv y i' Hy. destruct (so_nodes _ _ Hs y i' Hy) as (i & Hi & Ht & Hf).
  eapply node_ok_same; eauto.
Qed.
Lemma sub_acyclic c' c : sub_of c' c → acyclic c → acyclic c'.
Proof.
  intros Hs [rank Hr]. exists rank. intros y i' f Hy Hf.
  destruct (so_nodes _ _ Hs y i' Hy) as (i & Hi & Ht & Hfi). rewrite Hfi in Hf. eauto.
Qed.
Lemma sub_inputs_only c' c : sub_of c' c → inputs_only c → inputs_only c'.
Proof.
  intros Hs Hio y i' Hy Hfree. destruct (so_nodes _ _ Hs y i' Hy) as (i & Hi & Ht & Hf).
  rewrite Ht. eapply Hio; [done|]. by rewrite <- (is_free_same i i' Ht Hf).
Qed.
Lemma sub_dom c' c : sub_of c' c → dom c' ⊆ dom c.
Proof. intros Hs y [i' Hy]%elem_of_dom. destruct (so_nodes _ _ Hs y i' Hy) as (i & Hi & _). apply elem_of_dom. by exists i. Qed.
Lemma evalc_sub c' c a x : sub_of c' c → closed c → acyclic c → x ∈ dom c' → evalc c' a x = evalc c a x.
Proof.
  intros Hs Hcl Hac Hx. symmetry.
  apply (evalc_agrees c' a (evalc c a)); [apply Hs|by eapply sub_acyclic| | |done].
  - eapply sub_consistent; [done|]. by apply evalc_consistent.
  - intros y Hy. unfold free_nodes in Hy. apply elem_of_dom in Hy as [i' Hi'].
    apply map_filter_lookup_Some in Hi' as [Hy Hfree].
    destruct (so_nodes _ _ Hs y i' Hy) as (i & Hi & Ht & Hf).
    eapply evalc_free; [done|]. by rewrite <- (is_free_same i i' Ht Hf).
Qed.
Lemma sub_cut c' c n : sub_of c' c → sub_of (cut c' n) (cut c n).
Proof.
  intros Hs. split; [|apply cut_closed, Hs].
  intros y i' Hy. destruct (decide (y = n)) as [->|Hne].
  - unfold cut in *. rewrite lookup_alter in Hy |- *.
    destruct (c' !! n) as [i0|] eqn:E; [|done]. simpl in Hy. injection Hy as <-.
    destruct (so_nodes _ _ Hs n i0 E) as (i & -> & _). simpl. eauto.
  - rewrite cut_lookup_ne in Hy |- * by done. by apply Hs.
Qed.
Lemma inverted_sub c' c n a x : sub_of c' c → closed c → acyclic c → n ∈ dom c' → x ∈ dom c' →
  inverted c' n a x = inverted c n a x.
Proof.
  intros Hs Hcl Hac Hn Hx. unfold inverted. rewrite (evalc_sub c' c a n) by done.
  apply evalc_sub; [by apply sub_cut|by apply cut_closed|by apply cut_acyclic|by rewrite cut_dom].
Qed.
Lemma sens_at_sub c' c n E a : sub_of c' c → closed c → acyclic c → n ∈ dom c' → (∀ e, e ∈ E → e ∈ dom c') →
  sens_at c' n E a ↔ sens_at c n E a.
Proof.
  intros Hs Hcl Hac Hn HE. unfold sens_at. split; intros (e & He & Hne); exists e; (split; [done|]).
  - rewrite <- (evalc_sub c' c), <- (inverted_sub c' c) by auto. done.
  - rewrite (evalc_sub c' c), (inverted_sub c' c) by auto. done.
Qed.
Lemma flipsb_sub c' c n s a : sub_of c' c → closed c → acyclic c → n ∈ dom c' → flipsb c' n s a = flipsb c n s a.
Proof. intros. unfold flipsb. by rewrite !(evalc_sub c' c). Qed.
Lemma count_sub c' c n sp a : sub_of c' c → closed c → acyclic c → n ∈ dom c' → count c' n sp a = count c n sp a.
Proof.
  intros. unfold count. f_equal. apply list_filter_iff. intros s. by rewrite (flipsb_sub c' c).
Qed.

(* the induced sub-graph on a fan-in closed node set is such a sub-circuit *)
Lemma induced_sub_of c (K : gset string) : closed c →
  (∀ y i f, c !! y = Some i → y ∈ K → f ∈ n_fi i → f ∈ K) → sub_of (induced c K) c.
Proof.
  intros Hcl HK. unfold induced. split.
  - intros y i' Hy. rewrite lookup_fmap in Hy. destruct (filter _ c !! y) as [i|] eqn:E; [|done].
    apply map_filter_lookup_Some in E as [Hc Hin]. simpl in *. injection Hy as <-. exists i. split; [done|]. split; [done|].
    simpl. apply set_eq. intros f. rewrite elem_of_intersection. split; [tauto|]. intros Hf. split; [done|]. eauto.
  - intros y i' f Hy Hf. rewrite lookup_fmap in Hy. destruct (filter _ c !! y) as [i|] eqn:E; [|done].
    apply map_filter_lookup_Some in E as [Hc Hin]. simpl in *. injection Hy as <-. simpl in Hf.
    apply elem_of_intersection in Hf as [Hf HfK]. apply elem_of_dom.
    assert (is_Some (c !! f)) as [i2 Hi2] by (apply elem_of_dom; eapply Hcl; eauto).
    exists (upd_fi (λ fi, fi ∩ K) i2). rewrite lookup_fmap. rewrite (map_filter_lookup_Some_2 _ _ _ i2); done.
Qed.


(* ================================================================================================ *)
(* 9. the definitions only look at the startpoint values; valuation-of-the-startpoints form of the specs  *)
Lemma evalc_free_ext c a a' : closed c → acyclic c → (∀ x, x ∈ free_nodes c → a x = a' x) →
  ∀ n, n ∈ dom c → evalc c a n = evalc c a' n.
Proof.
  intros Hcl Hac Hf n Hn.
  apply (evalc_agrees c a' (evalc c a)); try done; [by apply evalc_consistent|].
  intros x Hx. rewrite <- (Hf x Hx). unfold free_nodes in Hx. apply elem_of_dom in Hx as [i Hi].
  apply map_filter_lookup_Some in Hi as [Hi Hfr]. by eapply evalc_free.
Qed.
Lemma free_nodes_cut c n : n ∈ dom c → free_nodes (cut c n) = free_nodes c ∪ {[n]}.
Proof.
  intros [i0 Hi0]%elem_of_dom. apply set_eq. intros x. unfold free_nodes.
  rewrite elem_of_union, elem_of_singleton, !elem_of_dom. destruct (decide (x = n)) as [->|Hne].
  - split; [by right|]. intros _. exists (mk_node Input (n_out i0) ∅). apply map_filter_lookup_Some.
    split; [by apply cut_lookup|done].
  - split.
    + intros [i Hi]. left. exists i. apply map_filter_lookup_Some in Hi as [Hi Hf]. rewrite cut_lookup_ne in Hi by done.
      by apply map_filter_lookup_Some.
    + intros [[i Hi]|?]; [|done]. exists i. apply map_filter_lookup_Some in Hi as [Hi Hf].
      apply map_filter_lookup_Some. by rewrite cut_lookup_ne.
Qed.
Lemma sens_at_ext c n E a a' : closed c → acyclic c → n ∈ dom c → (∀ e, e ∈ E → e ∈ dom c) →
  (∀ x, x ∈ free_nodes c → a x = a' x) → sens_at c n E a ↔ sens_at c n E a'.
Proof.
  intros Hcl Hac Hn HE Hf.
  assert (Hev : ∀ x, x ∈ dom c → evalc c a x = evalc c a' x) by (by apply evalc_free_ext).
  assert (Hinv : ∀ x, x ∈ dom c → inverted c n a x = inverted c n a' x).
  { intros x Hx. unfold inverted. apply evalc_free_ext; [by apply cut_closed|by apply cut_acyclic| |by rewrite cut_dom].
    intros y Hy. rewrite free_nodes_cut in Hy by done. unfold setv. case_bool_decide; [by rewrite Hev|].
    apply Hf. set_solver. }
  unfold sens_at. split; intros (e & He & Hne); exists e; (split; [done|]).
  - rewrite <- Hev, <- Hinv by auto. done.
  - rewrite Hev, Hinv by auto. done.
Qed.

Lemma flipsb_true c n s ρ : flipsb c n s ρ = true ↔ flips c n s ρ.
Proof. unfold flipsb, flips. destruct (evalc c ρ n), (evalc c (flipv ρ s) n); simpl; split; congruence. Qed.
Lemma cut_input c s i : c !! s = Some i → n_ty i = Input → n_fi i = ∅ → cut c s = c.
Proof.
  intros Hs Ht Hf. unfold cut. apply map_eq. intros y. destruct (decide (y = s)) as [->|Hne].
  - rewrite lookup_alter, Hs. simpl. f_equal. destruct i; simpl in *; by subst.
  - by rewrite lookup_alter_ne.
Qed.
(* for a primary input s, "inverting node s changes n" is "flipping startpoint s flips n": this is why influence may use the
   sensitization circuit of (s, endpoint n) *)
Lemma sens_at_input c s n ρ i : c !! s = Some i → n_ty i = Input → n_fi i = ∅ → sens_at c s [n] ρ ↔ flips c n s ρ.
Proof.
  intros Hs Ht Hf. unfold sens_at, flips, inverted. rewrite (cut_input c s i) by done.
  assert (Hfree : is_free i = true) by (unfold is_free; by rewrite Ht).
  rewrite (evalc_free c ρ s i Hs Hfree).
  assert (He : ∀ e, evalc c (setv ρ s (negb (ρ s))) e = evalc c (flipv ρ s) e).
  { intros e. unfold evalc. apply eval_ext. intros x. unfold setv, flipv. by case_bool_decide. }
  split.
  - intros (e & ->%elem_of_list_singleton & H). by rewrite He in H.
  - intros H. exists n. split; [by apply elem_of_list_singleton|]. by rewrite He.
Qed.
(* a node that is a primary input has sensitivity 1 (props.sensitivity returns 1 without building anything) *)
Lemma sensitivity_input c n i : c !! n = Some i → n_ty i = Input → is_sensitivity c n [n] 1.
Proof.
  intros Hn Ht. assert (Hfree : is_free i = true) by (unfold is_free; by rewrite Ht).
  assert (Hc : ∀ ρ, count c n [n] ρ = 1).
  { intros ρ. unfold count. rewrite filter_cons, filter_nil. rewrite decide_True; [done|].
    apply flipsb_true. unfold flips. rewrite !(evalc_free c _ n i Hn Hfree). unfold flipv.
    rewrite bool_decide_eq_true_2 by done. by destruct (ρ n). }
  split; [exists (λ _, false); apply Hc|]. intros ρ. by rewrite Hc.
Qed.

(* ================================================================================================ *)
(* 10. props.influence / avg_sensitivity / sensitize relative to exact model counting and a sound+complete solver *)
(* exact model counting projected on the startpoints (sat.model_count blocks on the startpoints only) *)
Definition mc_exact (mc : circuit → list (string * bool) → nat) : Prop :=
  ∀ T asm (P : val → bool), closed T → acyclic T → free_nodes T = startpoints T → (∀ p, p ∈ asm → p.1 ∈ dom T) →
    (∀ ρ, P ρ = true ↔ ∃ v, consistent T v ∧ (∀ s, s ∈ startpoints T → v s = ρ s) ∧ Forall (λ p : string * bool, v p.1 = p.2) asm) →
    mc T asm = length (filter (λ ρ, P ρ = true) (all_vals (elements (startpoints T)))).
(* what the props functions need from a sensitization circuit T for node x and endpoints E of c *)
Record sens_spec (c : circuit) (x : string) (E : list string) (sp : list string) (T : circuit) : Prop := {
  sp_start : elements (startpoints T) = sp;
  sp_closed : closed T;
  sp_acyclic : acyclic T;
  sp_free : free_nodes T = startpoints T;
  sp_satnode : "sat" ∈ dom T;
  sp_sat : ∀ (ρ v : val), consistent T v → (∀ s, s ∈ sp → v s = ρ s) → (v "sat" = true ↔ sens_at c x E ρ) }.
Lemma sp_ext c x E sp T : sens_spec c x E sp T → ∀ ρ : val, ∃ v, consistent T v ∧ ∀ s, s ∈ sp → v s = ρ s.
Proof.
  intros H ρ. destruct (unique_extension T (sp_closed _ _ _ _ _ H) (sp_acyclic _ _ _ _ _ H) ρ) as (v & Hv & Hag & _).
  exists v. split; [done|]. intros s Hs. apply Hag. rewrite (sp_free _ _ _ _ _ H).
  rewrite <- (sp_start _ _ _ _ _ H) in Hs. by apply elem_of_elements in Hs.
Qed.

Theorem influence_spec mc c n sp s i T : mc_exact mc →
  c !! s = Some i → n_ty i = Input → n_fi i = ∅ → sens_spec c s [n] sp T →
  frac (mc T [("sat", true)]) (length sp) = influence_def c n sp s.
Proof.
  intros Hmc Hs Ht Hf Hsp. unfold influence_def. f_equal.
  rewrite <- (sp_start _ _ _ _ _ Hsp).
  apply (Hmc T _ (flipsb c n s) (sp_closed _ _ _ _ _ Hsp) (sp_acyclic _ _ _ _ _ Hsp) (sp_free _ _ _ _ _ Hsp)).
  { intros p ->%elem_of_list_singleton. apply (sp_satnode _ _ _ _ _ Hsp). }
  intros ρ.
  assert (Hin : ∀ y, y ∈ sp ↔ y ∈ startpoints T) by (intros y; rewrite <- (sp_start _ _ _ _ _ Hsp); apply elem_of_elements).
  rewrite flipsb_true, <- (sens_at_input c s n ρ i Hs Ht Hf). split.
  - intros Hsens. destruct (sp_ext _ _ _ _ _ Hsp ρ) as (v & Hv & Hag). exists v. split; [done|].
    split; [intros y Hy; apply Hag; by apply Hin|].
    constructor; [|done]. simpl. by apply (sp_sat _ _ _ _ _ Hsp ρ v).
  - intros (v & Hv & Hag & Hasm). apply Forall_cons in Hasm as [Hsat _]. simpl in Hsat.
    apply (sp_sat _ _ _ _ _ Hsp ρ v); [done| |done]. intros y Hy. apply Hag. by apply Hin.
Qed.

Lemma infl_fold (f : string → res Circuit) (g : Circuit → Q) l0 out :
  foldr (λ s acc, rbind acc (λ l, rbind (f s) (λ T, Ok ((s, g T) :: l)))) (Ok []) l0 = Ok out →
  Forall2 (λ s p, p.1 = s ∧ ∃ T, f s = Ok T ∧ p.2 = g T) l0 out.
Proof.
  revert out. induction l0 as [|s l0 IH]; intros out; simpl.
  - intros [= <-]. constructor.
  - destruct (foldr _ _ l0) as [l| | |] eqn:E; simpl; try done.
    destruct (f s) as [T| | |] eqn:Ef; simpl; try done. intros [= <-].
    constructor; [|by apply IH]. simpl. eauto.
Qed.
(* the model of props.influence returns, for every startpoint of the cone, the fraction of its definition *)
Theorem influence_model_spec mc C n out :
  mc_exact mc →
  (∀ s T, s ∈ cone_startpoints (c_g C) n → sensitization_transform C s (Some [n]) = Ok T →
     (∃ i, c_g C !! s = Some i ∧ n_ty i = Input ∧ n_fi i = ∅) ∧
     sens_spec (c_g C) s [n] (elements (cone_startpoints (c_g C) n)) (c_g T)) →
  influence mc C n = Ok out →
  out = (λ s, (s, influence_def (c_g C) n (elements (cone_startpoints (c_g C) n)) s)) <$> elements (cone_startpoints (c_g C) n).
Proof.
  intros Hmc Hsp. unfold influence. case_bool_decide; simpl; [|done]. intros Hf.
  apply infl_fold in Hf.
  assert (Haux : ∀ l0 out, (∀ s, s ∈ l0 → s ∈ cone_startpoints (c_g C) n) →
     Forall2 (λ s (p : string * Q), p.1 = s ∧ ∃ T, sensitization_transform C s (Some [n]) = Ok T ∧
        p.2 = frac (mc (c_g T) [("sat", true)]) (size (cone_startpoints (c_g C) n))) l0 out →
     out = (λ s, (s, influence_def (c_g C) n (elements (cone_startpoints (c_g C) n)) s)) <$> l0).
  { clear Hf out. intros l0 out Hall HF. induction HF as [|s p l0 out' [Hp1 (T & HT & Hp2)] Hrest IH]; [done|].
    simpl. f_equal.
    - destruct p as [p1 p2]. simpl in *. subst p1. f_equal. rewrite Hp2.
      destruct (Hsp s T (Hall s ltac:(left)) HT) as [(i & Hi & Ht & Hfi) Hspec].
      change (size (cone_startpoints (c_g C) n)) with (length (elements (cone_startpoints (c_g C) n))).
      eapply influence_spec; eauto.
    - apply IH. intros s' Hs'. apply Hall. by right. }
  apply Haux; [|done]. intros s. apply elem_of_elements.
Qed.

(* avg_sensitivity is the sum of the influences *)
Theorem avg_sensitivity_model_spec mc C n a :
  mc_exact mc →
  (∀ s T, s ∈ cone_startpoints (c_g C) n → sensitization_transform C s (Some [n]) = Ok T →
     (∃ i, c_g C !! s = Some i ∧ n_ty i = Input ∧ n_fi i = ∅) ∧
     sens_spec (c_g C) s [n] (elements (cone_startpoints (c_g C) n)) (c_g T)) →
  avg_sensitivity mc C n = Ok a →
  a = avg_sensitivity_def (c_g C) n (elements (cone_startpoints (c_g C) n)).
Proof.
  intros Hmc Hsp. unfold avg_sensitivity, rmap. destruct (influence mc C n) as [l| | |] eqn:E; simpl; try done.
  intros [= <-]. rewrite (influence_model_spec mc C n l Hmc Hsp E). unfold avg_sensitivity_def. f_equal.
  rewrite <- list_fmap_compose. done.
Qed.

(* props.sensitize relative to a sound and complete solver *)
Theorem sensitize_model_spec (solve : circuit → list (string * bool) → option val) C n E sp T r :
  (∀ g asm v, solve g asm = Some v → consistent g v ∧ Forall (λ p : string * bool, v p.1 = p.2) asm) →
  (∀ g asm, solve g asm = None → ¬ ∃ v, consistent g v ∧ Forall (λ p : string * bool, v p.1 = p.2) asm) →
  sensitization_transform C n None = Ok T → sens_spec (c_g C) n E sp (c_g T) →
  sensitize solve C n = Ok r →
  match r with
  | Some μ => (fst <$> μ) = elements (startpoints (c_g T)) ∧ ∃ ρ : val, Forall (λ p : string * bool, ρ p.1 = p.2) μ ∧ sens_at (c_g C) n E ρ
  | None => ∀ ρ, ¬ sens_at (c_g C) n E ρ
  end.
Proof.
  intros Hsound Hcomp HT Hsp. unfold sensitize. rewrite HT. simpl.
  destruct (solve (c_g T) [("sat", true)]) as [v|] eqn:E1; intros [= <-].
  - destruct (Hsound _ _ _ E1) as [Hv Hasm]. apply Forall_cons in Hasm as [Hsat _]. simpl in Hsat. split.
    + rewrite <- list_fmap_compose. simpl. by rewrite list_fmap_id.
    + exists v. split.
      * apply Forall_fmap. apply Forall_forall. intros x _. done.
      * by apply (sp_sat _ _ _ _ _ Hsp v v).
  - intros ρ Hsens. apply (Hcomp _ _ E1).
    destruct (sp_ext _ _ _ _ _ Hsp ρ) as (v & Hv & Hag). exists v. split; [done|].
    constructor; [|done]. simpl. by apply (sp_sat _ _ _ _ _ Hsp ρ v).
Qed.


(* ================================================================================================ *)
(* 11. from the shape of the transform circuit to the specification used by the props functions        *)
Lemma ext_of_acyclic T (sp : list string) : closed T → acyclic T → free_nodes T = list_to_set sp →
  ∀ ρ : val, ∃ v, consistent T v ∧ ∀ s, s ∈ sp → v s = ρ s.
Proof.
  intros Hcl Hac Hfree ρ. destruct (unique_extension T Hcl Hac ρ) as (v & Hv & Hag & _).
  exists v. split; [done|]. intros s Hs. apply Hag. rewrite Hfree. by apply elem_of_list_to_set.
Qed.

(* sensitization circuit: SC is the mitered sub-circuit of c (c itself when no endpoints are selected) *)
Theorem sens_spec_of_shape c SC x (E : gset string) T :
  closed c → acyclic c → inputs_only c → sub_of SC c → x ∈ dom SC → E ⊆ dom SC →
  sens_shape SC x E T → closed T → acyclic T →
  free_nodes T = startpoints T → startpoints T = inputs SC →
  sens_spec c x (elements E) (elements (startpoints T)) T.
Proof.
  intros Hcl Hac Hio Hsub Hx HE Hsh HclT HacT HfT HsT.
  assert (HclS : closed SC) by apply Hsub.
  assert (HacS : acyclic SC) by (by eapply sub_acyclic).
  assert (HioS : inputs_only SC) by (by eapply sub_inputs_only).
  split; try done.
  { destruct (ss_sat _ _ _ _ Hsh) as (j & Hj & _). apply elem_of_dom. eauto. }
  intros ρ v Hv Hag.
  rewrite (sens_shape_spec SC x E T HclS HacS HioS Hx HE Hsh v Hv).
  rewrite (sens_at_sub SC c x (elements E) v Hsub Hcl Hac Hx) by (intros e He%elem_of_elements; by apply HE).
  rewrite <- (sens_at_sub SC c x (elements E) ρ Hsub Hcl Hac Hx) by (intros e He%elem_of_elements; by apply HE).
  rewrite <- (sens_at_sub SC c x (elements E) v Hsub Hcl Hac Hx) by (intros e He%elem_of_elements; by apply HE).
  apply sens_at_ext; try done.
  - intros e He%elem_of_elements. by apply HE.
  - intros s Hs. apply Hag. apply (free_is_input SC s HioS) in Hs. apply elem_of_elements. by rewrite HsT.
Qed.

(* ================================================================================================ *)
(* 12. props.sensitivity = maximum of the count, for every graph with the shape of the sensitivity circuit *)
Lemma take_take_bits L W c : L ≤ W → take L (take_bits W c) = take_bits L c.
Proof.
  revert W c. induction L as [|L IH]; intros W c HL; [done|].
  destruct W as [|W]; [lia|]. cbn [take_bits take]. f_equal. apply IH. lia.
Qed.
Lemma take_sen_bits (v : val) L W : L ≤ W → take L (sen_bits v W) = sen_bits v L.
Proof.
  intros HL. unfold sen_bits. rewrite <- fmap_take. f_equal.
  replace W with (L + (W - L)) by lia. rewrite seq_app. apply take_app_alt. by rewrite seq_length.
Qed.
Lemma count_le c n sp ρ : count c n sp ρ ≤ length sp.
Proof. unfold count. apply filter_length. Qed.
Lemma count_ext c n sp a a' : closed c → acyclic c → n ∈ dom c → (∀ x, x ∈ free_nodes c → a x = a' x) →
  count c n sp a = count c n sp a'.
Proof.
  intros Hcl Hac Hn Hf. unfold count. f_equal. apply list_filter_iff. intros s.
  assert (H1 : evalc c a n = evalc c a' n) by (by apply evalc_free_ext).
  assert (H2 : evalc c (flipv a s) n = evalc c (flipv a' s) n).
  { apply evalc_free_ext; try done. intros y Hy. unfold flipv. case_bool_decide as Hys; [subst y; f_equal|]; by apply Hf. }
  unfold flipsb. by rewrite H1, H2.
Qed.

Theorem sensitivity_spec (solve : list (string * bool) → bool) c SUB n sp PC W w T :
  closed c → acyclic c → inputs_only c → sub_of SUB c → n ∈ dom SUB → inputs SUB = list_to_set sp →
  sv_shape SUB n sp PC W T → popcount_correct PC (length sp) W →
  closed T → acyclic T → free_nodes T = list_to_set sp →
  1 ≤ length sp → clog2 (length sp) = Ok w → clog2 (length sp + 1) = Ok W →
  (∀ k, k ≤ length sp → let asm := asm_of (int_to_bin_le k w) in
     solve asm = true ↔ ∃ v, consistent T v ∧ Forall (λ p : string * bool, v p.1 = p.2) asm) →
  ∃ k, search solve w (length sp) = Ok k ∧ is_sensitivity c n sp k.
Proof.
  intros Hcl Hac Hio Hsub Hn HiS Hsh Hpc HclT HacT HfT Hm Hw HW Hsolve.
  assert (HclS : closed SUB) by apply Hsub.
  assert (HacS : acyclic SUB) by (by eapply sub_acyclic).
  assert (HioS : inputs_only SUB) by (by eapply sub_inputs_only).
  assert (Hext := ext_of_acyclic T sp HclT HacT HfT).
  destruct (search_max T (length sp) w (count SUB n sp) solve Hsolve Hw) as (k & Hk & (v & Hv & Hcv) & Hub).
  - intros v _. apply count_le.
  - intros v k Hv Hk.
    pose proof (sen_out_spec SUB n sp PC W T HclS HacS HioS Hn Hsh v Hv Hpc) as Henc.
    pose proof (width_ok (length sp) w W k Hw HW Hk) as HL.
    rewrite <- (take_sen_bits v _ W HL), Henc. by apply take_take_bits.
  - destruct (Hext (λ _, false)) as (v & Hv & _). eauto.
  - exists k. split; [done|]. split.
    + exists v. rewrite <- (count_sub SUB c) by done. done.
    + intros ρ. destruct (Hext ρ) as (v' & Hv' & Hag). rewrite <- (count_sub SUB c) by done.
      rewrite <- (count_ext SUB n sp v' ρ); [by apply Hub|done..|].
      intros s Hs. apply Hag. apply (free_is_input SUB s HioS) in Hs. rewrite HiS in Hs. by apply elem_of_list_to_set in Hs.
Qed.


(* ================================================================================================ *)
(* 13. executable checkers for the hypotheses of the shape theorems (used on the recorded implementation outputs) *)
Lemma map_forallb {A} (f : string * A → bool) (m : gmap string A) :
  forallb f (map_to_list m) = true → ∀ k a, m !! k = Some a → f (k, a) = true.
Proof.
  intros H k a Hk. rewrite forallb_forall in H. apply H. by apply elem_of_list_In, elem_of_map_to_list.
Qed.

Definition inputs_onlyb (c : circuit) : bool :=
  forallb (λ p : string * ninfo, negb (is_free p.2) || bool_decide (n_ty p.2 = Input)) (map_to_list c).
Lemma inputs_onlyb_sound c : inputs_onlyb c = true → inputs_only c.
Proof.
  intros H x i Hx Hf. pose proof (map_forallb _ _ H x i Hx) as Hb. simpl in Hb.
  rewrite Hf in Hb. simpl in Hb. by apply bool_decide_eq_true in Hb.
Qed.

Definition sub_ofb (c' c : circuit) : bool :=
  closedb c' &&
  forallb (λ p : string * ninfo, match c !! p.1 with
                                 | Some i => bool_decide (n_ty p.2 = n_ty i) && bool_decide (n_fi p.2 = n_fi i)
                                 | None => false end) (map_to_list c').
Lemma sub_ofb_sound c' c : sub_ofb c' c = true → sub_of c' c.
Proof.
  unfold sub_ofb. intros [Hcl H]%andb_true_iff. split; [|by apply closedb_spec].
  intros y i' Hy. pose proof (map_forallb _ _ H y i' Hy) as Hb. simpl in Hb.
  destruct (c !! y) as [i|]; [|done]. apply andb_true_iff in Hb as [H1%bool_decide_eq_true H2%bool_decide_eq_true]. eauto.
Qed.

Definition copy_okb (p : string) (T : circuit) (x : string) (i : ninfo) : bool :=
  match T !! pre p x with
  | Some j => bool_decide (n_ty j = n_ty i) && bool_decide (n_fi j = set_map (pre p) (n_fi i))
  | None => false end.
Lemma copy_okb_sound p T x i : copy_okb p T x i = true → copy_ok p T x i.
Proof.
  unfold copy_okb, copy_ok. destruct (T !! pre p x) as [j|]; [|done].
  intros [H1%bool_decide_eq_true H2%bool_decide_eq_true]%andb_true_iff. eauto.
Qed.
Definition tie_okb (T : circuit) (name drv : string) (t : gtype) : bool :=
  match T !! name with
  | Some j => bool_decide (n_ty j = t) && bool_decide (n_fi j = {[drv]})
  | None => false end.
Lemma tie_okb_sound T name drv t : tie_okb T name drv t = true → tie_ok T name drv t.
Proof.
  unfold tie_okb, tie_ok. destruct (T !! name) as [j|]; [|done].
  intros [H1%bool_decide_eq_true H2%bool_decide_eq_true]%andb_true_iff. eauto.
Qed.
Definition xor2_okb (T : circuit) (name a b : string) : bool :=
  match T !! name with
  | Some j => bool_decide (n_ty j = Xor) && bool_decide (n_fi j = {[a; b]})
  | None => false end.
Lemma xor2_okb_sound T name a b : xor2_okb T name a b = true → ∃ j, T !! name = Some j ∧ n_ty j = Xor ∧ n_fi j = {[a; b]}.
Proof.
  unfold xor2_okb. destruct (T !! name) as [j|]; [|done].
  intros [H1%bool_decide_eq_true H2%bool_decide_eq_true]%andb_true_iff. eauto.
Qed.

Definition sat_okb (T : circuit) (E : gset string) : bool :=
  match T !! "sat" with
  | Some j => bool_decide (n_fi j = set_map (pre "dif") E) &&
              match n_ty j with
              | Or => negb (bool_decide (E = ∅))
              | Buf => match elements E with [e] => true | _ => false end
              | C0 => bool_decide (E = ∅)
              | _ => false end
  | None => false end.
Lemma sat_okb_sound T E : sat_okb T E = true → sat_ok T E.
Proof.
  unfold sat_okb, sat_ok. destruct (T !! "sat") as [j|]; [|done].
  intros [Hfi%bool_decide_eq_true Hty]%andb_true_iff. exists j. split; [done|]. split; [done|].
  destruct (n_ty j) eqn:Ht; try done.
  - right. left. split; [done|]. destruct (elements E) as [|e [|]] eqn:Hel; try done. exists e.
    apply set_eq. intros y. rewrite <- elem_of_elements, Hel. set_solver.
  - left. split; [done|]. apply negb_true_iff, bool_decide_eq_false in Hty. done.
  - right. right. split; [done|]. by apply bool_decide_eq_true in Hty.
Qed.

Definition sens_shapeb (c : circuit) (n : string) (E : gset string) (T : circuit) : bool :=
  forallb (λ p : string * ninfo,
     (is_free p.2 || (copy_okb "c0" T p.1 p.2 && (bool_decide (p.1 = n) || copy_okb "c1" T p.1 p.2))) &&
     (negb (bool_decide (n_ty p.2 = Input)) ||
        (tie_okb T (pre "c0" p.1) p.1 Buf && (bool_decide (p.1 = n) || tie_okb T (pre "c1" p.1) p.1 Buf)))) (map_to_list c) &&
  tie_okb T (pre "c1" n) (pre "c0" n) Not &&
  forallb (λ e, xor2_okb T (pre "dif" e) (pre "c0" e) (pre "c1" e)) (elements E) &&
  sat_okb T E.
Lemma sens_shapeb_sound c n E T : sens_shapeb c n E T = true → sens_shape c n E T.
Proof.
  unfold sens_shapeb. intros [[[Hn Hflip]%andb_true_iff Hdif]%andb_true_iff Hsat]%andb_true_iff.
  pose proof (map_forallb _ _ Hn) as Hnodes. clear Hn.
  split.
  - intros x i Hx Hf. specialize (Hnodes x i Hx). simpl in Hnodes. rewrite Hf in Hnodes. simpl in Hnodes.
    apply andb_true_iff in Hnodes as [[H0 _]%andb_true_iff _]. by apply copy_okb_sound.
  - intros x i Hx Hf Hne. specialize (Hnodes x i Hx). simpl in Hnodes. rewrite Hf in Hnodes. simpl in Hnodes.
    apply andb_true_iff in Hnodes as [[_ H1]%andb_true_iff _]. rewrite bool_decide_eq_false_2 in H1 by done.
    by apply copy_okb_sound.
  - intros s (i & Hs & Ht)%elem_of_inputs. specialize (Hnodes s i Hs). simpl in Hnodes.
    apply andb_true_iff in Hnodes as [_ H2]. rewrite Ht, bool_decide_eq_true_2 in H2 by done. simpl in H2.
    apply andb_true_iff in H2 as [H2 _]. by apply tie_okb_sound.
  - intros s (i & Hs & Ht)%elem_of_inputs Hne. specialize (Hnodes s i Hs). simpl in Hnodes.
    apply andb_true_iff in Hnodes as [_ H2]. rewrite Ht, bool_decide_eq_true_2 in H2 by done. simpl in H2.
    apply andb_true_iff in H2 as [_ H2]. rewrite bool_decide_eq_false_2 in H2 by done. by apply tie_okb_sound.
  - by apply tie_okb_sound.
  - intros e He. rewrite forallb_forall in Hdif. apply xor2_okb_sound. apply Hdif. by apply elem_of_list_In, elem_of_elements.
  - by apply sat_okb_sound.
Qed.

Definition sv_shapeb (c : circuit) (n : string) (sp : list string) (PC : circuit) (W : nat) (T : circuit) : bool :=
  forallb (λ p : string * ninfo,
     (is_free p.2 || (copy_okb "orig" T p.1 p.2 && forallb (λ s0, copy_okb (pre "inv" s0) T p.1 p.2) sp)) &&
     (negb (bool_decide (n_ty p.2 = Input)) ||
        (tie_okb T (pre "orig" p.1) p.1 Buf &&
         forallb (λ s0, bool_decide (p.1 = s0) || tie_okb T (pre (pre "inv" s0) p.1) p.1 Buf) sp))) (map_to_list c) &&
  forallb (λ s0, tie_okb T (pre (pre "inv" s0) s0) s0 Not &&
                 xor2_okb T (pre "dif_out" s0) (pre "orig" n) (pre (pre "inv" s0) n)) sp &&
  forallb (λ p : string * ninfo, is_free p.2 || copy_okb "pc" T p.1 p.2) (map_to_list PC) &&
  forallb (λ q : nat * string, tie_okb T ("pc_in_" ++ pretty q.1) (pre "dif_out" q.2) Buf) (imap (λ i s, (i, s)) sp) &&
  forallb (λ o, tie_okb T ("sen_out_" ++ pretty o) ("pc_out_" ++ pretty o) Buf) (seq 0 W).
Lemma sv_shapeb_sound c n sp PC W T : sv_shapeb c n sp PC W T = true → sv_shape c n sp PC W T.
Proof.
  unfold sv_shapeb. intros [[[[Hn Hsp]%andb_true_iff Hpc]%andb_true_iff Hin]%andb_true_iff Hout]%andb_true_iff.
  pose proof (map_forallb _ _ Hn) as Hnodes. clear Hn.
  pose proof (map_forallb _ _ Hpc) as Hpcs. clear Hpc.
  rewrite forallb_forall in Hsp. rewrite forallb_forall in Hin. rewrite forallb_forall in Hout.
  split.
  - intros x i Hx Hf. specialize (Hnodes x i Hx). simpl in Hnodes. rewrite Hf in Hnodes. simpl in Hnodes.
    apply andb_true_iff in Hnodes as [[H0 _]%andb_true_iff _]. by apply copy_okb_sound.
  - intros s (i & Hs & Ht)%elem_of_inputs. specialize (Hnodes s i Hs). simpl in Hnodes.
    apply andb_true_iff in Hnodes as [_ H2]. rewrite Ht, bool_decide_eq_true_2 in H2 by done. simpl in H2.
    apply andb_true_iff in H2 as [H2 _]. by apply tie_okb_sound.
  - intros s0 x i Hs0 Hx Hf. specialize (Hnodes x i Hx). simpl in Hnodes. rewrite Hf in Hnodes. simpl in Hnodes.
    apply andb_true_iff in Hnodes as [[_ H1]%andb_true_iff _]. rewrite forallb_forall in H1.
    apply copy_okb_sound, H1. by apply elem_of_list_In.
  - intros s0 s Hs0 (i & Hs & Ht)%elem_of_inputs Hne. specialize (Hnodes s i Hs). simpl in Hnodes.
    apply andb_true_iff in Hnodes as [_ H2]. rewrite Ht, bool_decide_eq_true_2 in H2 by done. simpl in H2.
    apply andb_true_iff in H2 as [_ H2]. rewrite forallb_forall in H2. specialize (H2 s0 ltac:(by apply elem_of_list_In)).
    rewrite bool_decide_eq_false_2 in H2 by done. by apply tie_okb_sound.
  - intros s0 Hs0. specialize (Hsp s0 ltac:(by apply elem_of_list_In)). apply andb_true_iff in Hsp as [H _]. by apply tie_okb_sound.
  - intros s0 Hs0. specialize (Hsp s0 ltac:(by apply elem_of_list_In)). apply andb_true_iff in Hsp as [_ H]. by apply xor2_okb_sound.
  - intros x i Hx Hf. specialize (Hpcs x i Hx). simpl in Hpcs. rewrite Hf in Hpcs. by apply copy_okb_sound.
  - intros i s0 Hi. apply tie_okb_sound. apply (Hin (i, s0)). apply elem_of_list_In.
    apply elem_of_lookup_imap. eauto.
  - intros o Ho. apply tie_okb_sound, Hout. apply elem_of_list_In, elem_of_seq. lia.
Qed.


(* ================================================================================================ *)
(* 14. the transform theorems relative to the ORIGINAL circuit c (SC / SUB: the sub-circuit that was copied) *)
Theorem sensitization_shape_spec c SC n (E : gset string) T :
  closed c → acyclic c → inputs_only c → sub_of SC c → n ∈ dom SC → E ⊆ dom SC → sens_shape SC n E T →
  ∀ v, consistent T v → (v "sat" = true ↔ sens_at c n (elements E) v).
Proof.
  intros Hcl Hac Hio Hsub Hn HE Hsh v Hv.
  rewrite (sens_shape_spec SC n E T (so_closed _ _ Hsub) (sub_acyclic _ _ Hsub Hac) (sub_inputs_only _ _ Hsub Hio) Hn HE Hsh v Hv).
  apply sens_at_sub; try done. intros e He%elem_of_elements. by apply HE.
Qed.
Theorem sensitivity_shape_spec c SUB n sp PC W T :
  closed c → acyclic c → inputs_only c → sub_of SUB c → n ∈ dom SUB → sv_shape SUB n sp PC W T →
  ∀ v, consistent T v →
    (∀ s, s ∈ sp → v (pre "dif_out" s) = true ↔ flips c n s v) ∧
    (popcount_correct PC (length sp) W → sen_bits v W = take_bits W (count c n sp v)).
Proof.
  intros Hcl Hac Hio Hsub Hn Hsh v Hv.
  pose proof (so_closed _ _ Hsub) as HclS. pose proof (sub_acyclic _ _ Hsub Hac) as HacS.
  pose proof (sub_inputs_only _ _ Hsub Hio) as HioS. split.
  - intros s Hs. rewrite (dif_out_spec SUB n sp PC W T HclS HacS HioS Hn Hsh v Hv s Hs).
    rewrite (flipsb_sub SUB c) by done. apply flipsb_true.
  - intros Hpc. rewrite (sen_out_spec SUB n sp PC W T HclS HacS HioS Hn Hsh v Hv Hpc). by rewrite (count_sub SUB c).
Qed.

(* ================================================================================================ *)
(* 15. brute force over the free nodes is a sound and complete solver / exact counter on closed acyclic circuits:
       the Section hypotheses about the external solver are satisfiable, and the oracle's stand-ins are correct *)
Definition asm_holds (asm : list (string * bool)) (v : val) : Prop := Forall (λ p : string * bool, v p.1 = p.2) asm.
Definition asm_holdsb (asm : list (string * bool)) (v : val) : bool := forallb (λ p : string * bool, eqb (v p.1) p.2) asm.
Lemma asm_holdsb_spec asm v : asm_holdsb asm v = true ↔ asm_holds asm v.
Proof.
  unfold asm_holdsb, asm_holds. rewrite forallb_forall, Forall_forall.
  setoid_rewrite eqb_true_iff. setoid_rewrite <- elem_of_list_In. done.
Qed.
Definition bf_solve (T : circuit) (free : list string) (asm : list (string * bool)) : bool :=
  existsb (λ ρ, asm_holdsb asm (evalc T ρ)) (all_vals free).
Lemma bf_solve_ok T free asm : closed T → acyclic T → free_nodes T = list_to_set free →
  (∀ p, p ∈ asm → p.1 ∈ dom T) →
  bf_solve T free asm = true ↔ ∃ v, consistent T v ∧ asm_holds asm v.
Proof.
  intros Hcl Hac Hfree Hasm. unfold bf_solve. rewrite existsb_exists. split.
  - intros (ρ & _ & H). exists (evalc T ρ). split; [by apply evalc_consistent|by apply asm_holdsb_spec].
  - intros (v & Hv & H). destruct (all_vals_complete free v) as (w & Hw & Hag).
    exists w. split; [by apply elem_of_list_In|]. apply asm_holdsb_spec.
    assert (Heq : agrees (dom T) v (evalc T w)).
    { apply evalc_agrees; try done. intros x Hx. rewrite Hfree in Hx. apply elem_of_list_to_set in Hx. symmetry. by apply Hag. }
    unfold asm_holds in *. rewrite Forall_forall in H |- *. intros p Hp. rewrite <- (Heq p.1) by (by apply Hasm). by apply H.
Qed.

From CG Require Import Base.Cases.


(* ... and brute-force counting is an exact model counter in the sense of mc_exact *)
Definition bf_count (T : circuit) (asm : list (string * bool)) : nat :=
  length (filter (λ ρ, asm_holdsb asm (evalc T ρ) = true) (all_vals (elements (startpoints T)))).
Theorem bf_count_exact : mc_exact bf_count.
Proof.
  intros T asm P Hcl Hac Hfree Hasm HP. unfold bf_count. f_equal. apply list_filter_iff. intros ρ.
  rewrite HP, asm_holdsb_spec. split.
  - intros H. exists (evalc T ρ). split; [by apply evalc_consistent|]. split; [|done].
    intros s Hs. rewrite <- Hfree in Hs. unfold free_nodes in Hs. apply elem_of_dom in Hs as [i Hi].
    apply map_filter_lookup_Some in Hi as [Hi Hf]. by eapply evalc_free.
  - intros (v & Hv & Hag & H).
    assert (Heq : agrees (dom T) v (evalc T ρ)).
    { apply evalc_agrees; try done. intros s Hs. apply Hag. by rewrite <- Hfree. }
    unfold asm_holds in *. rewrite Forall_forall in H |- *. intros p Hp. rewrite <- (Heq p.1) by (by apply Hasm). by apply H.
Qed.

(* ================================================================================================ *)
(* 16. the oracle's certificates: an accepted node order makes mk_g closed and acyclic; the list-level consistency
       check implies `consistent`.  With consistent_unique this makes `simulate` THE consistent valuation. *)
Definition nname (p : node) : string := p.1.1.1.
Definition ninfo_of (p : node) : ninfo := {| n_ty := p.1.1.2; n_out := p.1.2; n_fi := list_to_set p.2 |}.
Lemma mk_g_eq (l : list node) : mk_g l = list_to_map ((λ p, (nname p, ninfo_of p)) <$> l).
Proof. reflexivity. Qed.
Lemma mk_g_snoc (l : list node) (p : node) : nname p ∉ dom (mk_g l) → mk_g (l ++ [p]) = <[nname p := ninfo_of p]> (mk_g l).
Proof.
  intros Hn. rewrite !mk_g_eq, fmap_app. simpl. apply list_to_map_snoc.
  rewrite mk_g_eq, dom_list_to_map_L in Hn. by rewrite elem_of_list_to_set in Hn.
Qed.

Lemma wf_step_false (l : list node) seen : (foldl wf_step (seen, false) l).2 = false.
Proof. revert seen. induction l as [|p l IH]; intros seen; [done|]. simpl. apply IH. Qed.

Lemma wf_inv (l : list node) S : foldl wf_step (∅, true) l = (S, true) →
  S = dom (mk_g l) ∧ closed (mk_g l) ∧
  ∃ rank : string → nat, (∀ n i f, mk_g l !! n = Some i → f ∈ n_fi i → rank f < rank n) ∧ ∀ x, x ∈ dom (mk_g l) → rank x < length l.
Proof.
  revert S. induction l as [|p l IH] using rev_ind; intros S.
  - change (mk_g []) with (∅ : circuit). simpl. intros [= <-]. split; [by rewrite dom_empty_L|]. split; [intros n i f Hn; by rewrite lookup_empty in Hn|].
    exists (λ _, 0). split; [intros n i f Hn; by rewrite lookup_empty in Hn|]. intros x. rewrite dom_empty_L. set_solver.
  - rewrite foldl_app. simpl. destruct (foldl wf_step (∅, true) l) as [S0 ok0] eqn:E0. simpl.
    destruct ok0; [|simpl; intros [= _ ?]; done].
    intros [= <- Hok]. simpl in Hok.
    apply andb_true_iff in Hok as [[Hnew%negb_true_iff%bool_decide_eq_false Hfi]%andb_true_iff Hnd%bool_decide_eq_true].
    destruct (IH S0 eq_refl) as (-> & Hcl & rank & Hr & Hb).
    rewrite forallb_forall in Hfi.
    assert (Hfis : ∀ f, f ∈ p.2 → f ∈ dom (mk_g l)).
    { intros f Hf. specialize (Hfi f ltac:(by apply elem_of_list_In)). by apply bool_decide_eq_true in Hfi. }
    fold (nname p) in Hnew |- *. rewrite (mk_g_snoc l p Hnew). split; [by rewrite dom_insert_L|]. split.
    + intros n i f Hn Hf. rewrite dom_insert_L. destruct (decide (n = nname p)) as [->|Hne].
      * rewrite lookup_insert in Hn. injection Hn as <-. simpl in Hf. apply elem_of_list_to_set in Hf. set_solver.
      * rewrite lookup_insert_ne in Hn by done. apply elem_of_union_r. eapply Hcl; eauto.
    + exists (λ x, if decide (x = nname p) then length l else rank x). split.
      * intros n i f Hn Hf. destruct (decide (n = nname p)) as [->|Hne].
        -- rewrite lookup_insert in Hn. injection Hn as <-. simpl in Hf. apply elem_of_list_to_set in Hf.
           pose proof (Hfis f Hf) as Hd. rewrite decide_False by (intros ->; done). by apply Hb.
        -- rewrite lookup_insert_ne in Hn by done.
           assert (f ∈ dom (mk_g l)) as Hd by (eapply Hcl; eauto).
           rewrite decide_False by (intros ->; done). eauto.
      * intros x. rewrite dom_insert_L, app_length. simpl. intros [->%elem_of_singleton|Hx]%elem_of_union.
        -- rewrite decide_True by done. lia.
        -- rewrite decide_False by (intros ->; done). specialize (Hb x Hx). lia.
Qed.
Theorem wf_order_sound (nodes : list node) : wf_order nodes = true → closed (mk_g nodes) ∧ acyclic (mk_g nodes).
Proof.
  unfold wf_order. destruct (foldl wf_step (∅, true) nodes) as [S ok] eqn:E. simpl. intros ->.
  destruct (wf_inv nodes S E) as (_ & Hcl & rank & Hr & _). split; [done|]. by exists rank.
Qed.

Lemma lgate_gate_val t (v : val) fi : NoDup fi → lgate t v fi = gate_val t v (list_to_set fi).
Proof.
  intros Hnd. unfold lgate, gate_val. f_equal. change (gfold t (v <$> fi) = gfold t (v <$> elements (list_to_set fi : gset string))).
  apply gfold_perm, fmap_Permutation. symmetry. by apply elements_list_to_set.
Qed.
Lemma lnode_okb_sound (v : val) p : NoDup p.2 → lnode_okb v p = true → node_ok v (nname p) (ninfo_of p).
Proof.
  destruct p as [[[n t] o] fi]. simpl. intros Hnd H. unfold node_ok, is_free, ninfo_of, nname. simpl.
  assert (Hemp : ∀ x l, (list_to_set (x :: l) : gset string) ≠ ∅) by (intros x l; simpl; set_solver).
  destruct t; simpl in *; try done;
    try (rewrite <- lgate_gate_val by done; by apply eqb_prop);
    try (by apply negb_true_iff); try (by apply Is_true_true).
  all: destruct fi as [|x fi]; [by rewrite bool_decide_eq_true_2|];
       rewrite bool_decide_eq_false_2 by apply Hemp; rewrite <- lgate_gate_val by done; by apply eqb_prop.
Qed.
Lemma wf_nodup (l : list node) seen ok p : (foldl wf_step (seen, ok) l).2 = true → p ∈ l → NoDup p.2.
Proof.
  revert seen ok. induction l as [|q l IH]; intros seen ok H Hp; [by apply elem_of_nil in Hp|].
  simpl in H. destruct (wf_step (seen, ok) q) as [seen' ok'] eqn:E.
  apply elem_of_cons in Hp as [->|Hp]; [|by eapply IH].
  destruct ok'; [|by rewrite wf_step_false in H].
  unfold wf_step in E. simpl in E. injection E as _ E. apply andb_true_iff in E as [_ E]. by apply bool_decide_eq_true in E.
Qed.
Theorem lnodes_okb_sound (nodes : list node) (v : val) : wf_order nodes = true → lnodes_okb nodes v = true → consistent (mk_g nodes) v.
Proof.
  intros Hwf Hok n i Hn. rewrite mk_g_eq in Hn. apply elem_of_list_to_map_2 in Hn.
  apply elem_of_list_fmap in Hn as (p & [= -> ->] & Hp).
  unfold lnodes_okb in Hok. rewrite forallb_forall in Hok. apply lnode_okb_sound; [|apply Hok; by apply elem_of_list_In].
  by eapply wf_nodup.
Qed.
(* the certificate used by `holds`: the simulated valuation is consistent, and every consistent valuation with the same
   inputs coincides with it on the whole circuit *)
Theorem certificate_sound (nodes : list node) (free : list string) (a v w : val) :
  wf_order nodes = true → free_nodes (mk_g nodes) = list_to_set free →
  lnodes_okb nodes v = true → eq_on free v a = true →
  consistent (mk_g nodes) v ∧
  (consistent (mk_g nodes) w → (∀ s, s ∈ free → w s = a s) → agrees (dom (mk_g nodes)) w v).
Proof.
  intros Hwf Hfree Hok Heq. destruct (wf_order_sound nodes Hwf) as [Hcl [rank Hr]].
  pose proof (lnodes_okb_sound nodes v Hwf Hok) as Hv. split; [done|]. intros Hw Hag.
  apply (consistent_unique (mk_g nodes) rank Hr w v Hcl Hw Hv).
  intros s Hs. rewrite Hfree in Hs. apply elem_of_list_to_set in Hs. rewrite (Hag s Hs).
  symmetry. by apply (proj1 (eq_on_spec free v a) Heq).
Qed.


(* ================================================================================================ *)
(* 17. the three API calls of the flip step have the closed form of the flipped-node lemma             *)
Lemma disconnect_all (g : circuit) (us : list string) x i :
  g !! x = Some i → disconnect_g g us [x] = <[x := upd_fi (λ s, s ∖ list_to_set us) i]> g.
Proof.
  unfold disconnect_g. revert g i. induction us as [|u us IH]; intros g i Hx.
  - simpl. rewrite insert_id; [done|]. rewrite Hx. f_equal. destruct i; unfold upd_fi; simpl. f_equal. set_solver.
  - change (pairs (u :: us) [x]) with ((u, x) :: pairs us [x]). cbn [foldl]. simpl (del_edge g _ _).
    unfold del_edge at 2. simpl.
    rewrite (IH (alter (upd_fi (λ s, s ∖ {[u]})) x g) (upd_fi (λ s, s ∖ {[u]}) i)) by (by rewrite lookup_alter, Hx).
    apply map_eq. intros y. destruct (decide (y = x)) as [->|Hne].
    + rewrite !lookup_insert. f_equal. destruct i; unfold upd_fi; simpl. f_equal. set_solver.
    + rewrite !lookup_insert_ne by done. by rewrite lookup_alter_ne.
Qed.

Theorem flip_node_closed_form (g : circuit) n i j :
  g !! pre "c1" n = Some i → g !! pre "c0" n = Some j → n_ty j ≠ BbIn → n_ty j ≠ BbOut →
  flip_node g n = Ok (<[pre "c1" n := mk_node Not (n_out i) {[pre "c0" n]}]> g).
Proof.
  intros Hi Hj Hb1 Hb2. unfold flip_node. rewrite Hi.
  assert (Hne : pre "c0" n ≠ pre "c1" n) by (unfold pre; intros [=]).
  rewrite (disconnect_all g _ _ i Hi).
  set (i1 := upd_fi (λ s, s ∖ list_to_set (elements (fanin g (pre "c1" n)))) i).
  assert (Hfi1 : n_fi i1 = ∅).
  { unfold i1, fanin. rewrite Hi. simpl. apply set_eq. intros f. rewrite elem_of_difference, elem_of_list_to_set, elem_of_elements. set_solver. }
  unfold set_type_g. simpl (bool_decide (Not ∈ addable_types)). simpl (negb true). cbn [foldl].
  rewrite lookup_insert. cbn [lift].
  set (g2 := <[pre "c1" n := retype Not i1]> (<[pre "c1" n := i1]> g)).
  assert (H2 : g2 !! pre "c1" n = Some (retype Not i1)) by (unfold g2; by rewrite lookup_insert).
  assert (H0 : g2 !! pre "c0" n = Some j) by (unfold g2; by rewrite !lookup_insert_ne).
  unfold connect_g. simpl (bool_decide ([pre "c0" n] = [])). simpl (bool_decide ([pre "c1" n] = [])). cbn [orb].
  assert (Hd : forallb (λ x, bool_decide (x ∈ dom g2)) ([pre "c0" n] ++ [pre "c1" n]) = true).
  { simpl. rewrite !bool_decide_eq_true_2; [done|apply elem_of_dom; eauto|apply elem_of_dom; eauto]. }
  rewrite Hd. cbn [negb].
  assert (Hc : connect_check g2 [pre "c0" n] [pre "c1" n] = true).
  { unfold connect_check. simpl. unfold ty, fanin. rewrite H2, H0. simpl. change (n_fi i ∖ list_to_set (elements (fanin g (pre "c1" n)))) with (n_fi i1). rewrite Hfi1, size_empty. simpl.
    destruct (n_ty j); try done. }
  rewrite Hc. cbn [negb lift]. f_equal. simpl. unfold add_edge, g2.
  apply map_eq. intros y. destruct (decide (y = pre "c1" n)) as [->|Hy].
  - rewrite lookup_alter, !lookup_insert. simpl. f_equal. unfold upd_fi, retype, mk_node. cbn [n_ty n_out n_fi]. rewrite Hfi1.
    f_equal. set_solver.
  - rewrite lookup_alter_ne, !lookup_insert_ne by done. done.
Qed.

(* statements used verbatim by Properties/C11.v *)
Lemma flip_step (g g' : circuit) n i j (v : val) :
  g !! ("c1_" ++ n) = Some i → g !! ("c0_" ++ n) = Some j → n_ty j ≠ BbIn → n_ty j ≠ BbOut →
  flip_node g n = Ok g' →
  consistent g' v ↔ consistent (delete ("c1_" ++ n) g) v ∧ v ("c1_" ++ n) = negb (v ("c0_" ++ n)).
Proof.
  intros Hi Hj H1 H2. rewrite (flip_node_closed_form g n i j Hi Hj H1 H2). intros [= <-].
  apply flip_node_consistent.
Qed.
Lemma copies_values c n (E : gset string) T : closed c → acyclic c → inputs_only c → n ∈ dom c → sens_shape c n E T →
  ∀ v, consistent T v → ∀ x, x ∈ dom c → v ("c0_" ++ x) = evalc c v x ∧ v ("c1_" ++ x) = inverted c n v x.
Proof. intros ???? Hsh v Hv x Hx. split; [by eapply c0_values|by eapply c1_values]. Qed.
Lemma width_arg m w k c : clog2 m = Ok w → k ≤ m → c ≤ m → matches (int_to_bin_le k w) c → c = k ∨ (k = 0 ∧ c = m).
Proof. intros (_ & H & _)%clog2_spec. by apply matches_enc. Qed.
