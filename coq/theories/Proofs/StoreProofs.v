(* C19 -- soundness of the effect-summary checker with respect to the store semantics (Model/Store.v). *)
From stdpp Require Import strings gmap sets fin_sets.
From CG Require Import Types Model.Store.
Open Scope string_scope.

(* ------------------------------------------------------------------ reachability *)
Lemma hclosed_dom h l c l' : hclosed h → h !! l = Some c → l' ∈ refs c → l' ∈ dom h.
Proof. intros Hc Hl Hr. by destruct (Hc _ _ _ Hl Hr). Qed.
Lemma vcell_sub h h' l : h ⊆ h' → vcell h l → vcell h' l.
Proof. intros Hs [d Hd]. exists d. by eapply lookup_weaken. Qed.
Lemma vcell_dom h l : vcell h l → l ∈ dom h.
Proof. intros [d Hd]. by apply elem_of_dom. Qed.
Lemma elem_of_refs_dict (b : gmap string loc) l : l ∈ refs (CDict b) ↔ ∃ k, b !! k = Some l.
Proof.
  simpl. rewrite elem_of_list_fmap. split.
  - intros ([k l0] & -> & H%elem_of_map_to_list). by exists k.
  - intros [k Hk]. exists (k, l). split; [done|by apply elem_of_map_to_list].
Qed.
Lemma refs_dict_empty : refs (CDict ∅) = [].
Proof. simpl. by rewrite map_to_list_empty. Qed.

Lemma pts_sub h h' l l' : h ⊆ h' → pts h l l' → pts h' l l'.
Proof. intros Hs (c & Hc & Hr). exists c. split; [by eapply lookup_weaken|done]. Qed.
Lemma reach_sub h h' r l : h ⊆ h' → reach h r l → reach h' r l.
Proof. intros Hs. induction 1 as [|x y z Hxy _ IH]; [constructor|]. eapply rtc_l; [by eapply pts_sub|done]. Qed.
Lemma reach_dom h r l : hclosed h → r ∈ dom h → reach h r l → l ∈ dom h.
Proof.
  intros Hc Hr Hrl. induction Hrl as [|x y z (c & Hx & Hy) _ IH]; [done|].
  apply IH. by eapply hclosed_dom.
Qed.
Lemma reach_ext h h' r l : h ⊆ h' → hclosed h → r ∈ dom h → reach h' r l → reach h r l.
Proof.
  intros Hs Hc Hr Hrl. induction Hrl as [|x y z (c & Hx & Hy) _ IH]; [constructor|].
  apply elem_of_dom in Hr as [c0 Hc0].
  assert (c = c0) as -> by (pose proof (lookup_weaken _ _ _ _ Hc0 Hs); congruence).
  eapply rtc_l; [by exists c0|]. apply IH. by eapply hclosed_dom.
Qed.
Lemma reach_leaf h l c l' : h !! l = Some c → refs c = [] → reach h l l' → l' = l.
Proof.
  intros Hl Hr Hrl. destruct Hrl as [|x y z (c' & Hx & Hy) _]; [done|].
  rewrite Hl in Hx. injection Hx as <-. rewrite Hr in Hy. by apply elem_of_nil in Hy.
Qed.
Lemma reach_vcell h l l' : vcell h l → reach h l l' → l' = l.
Proof. intros [d Hd] Hr. by eapply reach_leaf. Qed.
Lemma reach_circ h l n g b l' : h !! l = Some (CCirc n g b) → reach h l l' → l' = l ∨ reach h g l' ∨ reach h b l'.
Proof.
  intros Hl Hrl. destruct Hrl as [|x y z (c' & Hx & Hy) Hr]; [by left|].
  rewrite Hl in Hx. injection Hx as <-. simpl in Hy. right.
  apply elem_of_cons in Hy as [->|Hy]; [by left|]. apply elem_of_list_singleton in Hy as ->. by right.
Qed.
(* from a registry dict one reaches the dict and BlackBox cells only *)
Lemma reach_dict h l b l' : hclosed h → h !! l = Some (CDict b) → reach h l l' → l' = l ∨ vcell h l'.
Proof.
  intros Hc Hl Hrl. destruct Hrl as [|x y z (c' & Hx & Hy) Hr]; [by left|].
  rewrite Hl in Hx. injection Hx as <-. right.
  destruct (Hc _ _ _ Hl Hy) as [_ Hv]. specialize (Hv I). by rewrite (reach_vcell _ _ _ Hv Hr).
Qed.
Lemma reach_step h l c l1 l' : h !! l = Some c → l1 ∈ refs c → reach h l1 l' → reach h l l'.
Proof. intros. eapply rtc_l; [by exists c|done]. Qed.

Lemma insert_fresh_sub (h : heap) l c : l ∉ dom h → h ⊆ <[l := c]> h.
Proof. intros. apply insert_subseteq. by apply not_elem_of_dom. Qed.
(* a new cell *)
Lemma hclosed_insert h l c : hclosed h → l ∉ dom h →
  (∀ l', l' ∈ refs c → (l' ∈ dom h ∨ l' = l) ∧ (is_dict c → vcell h l')) → hclosed (<[l := c]> h).
Proof.
  intros Hc Hl Hr l1 c1 l2 Hl1 Hl2. rewrite dom_insert_L.
  pose proof (insert_fresh_sub h l c Hl) as Hs.
  destruct (decide (l1 = l)) as [->|Hne].
  - rewrite lookup_insert in Hl1. injection Hl1 as <-. destruct (Hr _ Hl2) as [[?| ->] Hv]; (split; [set_solver|]);
      intros Hd; eapply vcell_sub; eauto.
  - rewrite lookup_insert_ne in Hl1 by done. destruct (Hc _ _ _ Hl1 Hl2) as [? Hv]. split; [set_solver|].
    intros Hd; eapply vcell_sub; eauto.
Qed.
(* overwriting a cell by one of the same sort *)
Lemma hclosed_update h l c0 c : hclosed h → h !! l = Some c0 → (vcell h l ↔ ∃ d, c = CBb d) →
  (∀ l', l' ∈ refs c → l' ∈ dom h ∧ (is_dict c → vcell h l' ∧ l' ≠ l)) → hclosed (<[l := c]> h).
Proof.
  intros Hc Hl0 Hk Hr l1 c1 l2 Hl1 Hl2. rewrite dom_insert_L.
  assert (∀ l3, vcell h l3 → vcell (<[l := c]> h) l3) as Hv3.
  { intros l3 [d Hd]. destruct (decide (l3 = l)) as [->|Hne3].
    - destruct (proj1 Hk (ex_intro _ d Hd)) as [d' ->]. exists d'. by rewrite lookup_insert.
    - exists d. by rewrite lookup_insert_ne. }
  destruct (decide (l1 = l)) as [->|Hne].
  - rewrite lookup_insert in Hl1. injection Hl1 as <-. destruct (Hr _ Hl2) as [? Hv]. split; [set_solver|].
    intros Hd. destruct (Hv Hd) as [Hv' Hne']. by apply Hv3.
  - rewrite lookup_insert_ne in Hl1 by done. destruct (Hc _ _ _ Hl1 Hl2) as [? Hv]. split; [set_solver|].
    intros Hd. by apply Hv3, Hv.
Qed.

(* ------------------------------------------------------------------ the invariant *)
(* h0: the heap when the function was called.  own: everything reachable is new or a BlackBox cell;
   ownv: the object itself is new. *)
Definition inv (own ownv : gset string) (h0 : heap) (σ : state) : Prop :=
  h0 ⊆ σ.1 ∧ hclosed σ.1 ∧ env_ok σ.1 σ.2 ∧
  (∀ x l l', x ∈ own → σ.2 !! x = Some l → reach σ.1 l l' → l' ∉ dom h0 ∨ vcell σ.1 l') ∧
  (∀ x l, x ∈ ownv → σ.2 !! x = Some l → l ∉ dom h0).

Lemma own_ext h h' l l' (P : Prop) : h ⊆ h' → hclosed h → l ∈ dom h →
  (reach h l l' → P ∨ vcell h l') → reach h' l l' → P ∨ vcell h' l'.
Proof.
  intros Hs Hc Hl H Hr. destruct (H (reach_ext _ _ _ _ Hs Hc Hl Hr)) as [?|?]; [by left|right; by eapply vcell_sub].
Qed.
Lemma inv_ext_none own ownv h0 h e h' : inv own ownv h0 (h, e) → h ⊆ h' → hclosed h' → inv own ownv h0 (h', e).
Proof.
  intros (H1 & H2 & H3 & H4 & H5) Hs Hc. split_and!; simpl in *.
  - by etrans.
  - done.
  - intros x l Hx. eapply (subseteq_dom _ _ Hs), H3, Hx.
  - intros x l l' Hx Hl. eapply own_ext; [done|done|by eapply H3|]. by eapply H4.
  - done.
Qed.
Lemma inv_ext_bind own ownv h0 h e h' d l :
  inv own ownv h0 (h, e) → h ⊆ h' → hclosed h' → l ∈ dom h' →
  (d ∈ own → ∀ l', reach h' l l' → l' ∉ dom h0 ∨ vcell h' l') → (d ∈ ownv → l ∉ dom h0) →
  inv own ownv h0 (h', <[d := l]> e).
Proof.
  intros (H1 & H2 & H3 & H4 & H5) Hs Hc Hl Hd Hdv. split_and!; simpl in *.
  - by etrans.
  - done.
  - intros x lx Hx. apply lookup_insert_Some in Hx as [[_ <-]|[_ Hx]]; [done|]. eapply (subseteq_dom _ _ Hs), H3, Hx.
  - intros x lx l' Hx Hlx. apply lookup_insert_Some in Hlx as [[<- <-]|[_ Hlx]]; [by apply Hd|].
    eapply own_ext; [done|done|by eapply H3|]. by eapply H4.
  - intros x lx Hx Hlx. apply lookup_insert_Some in Hlx as [[<- <-]|[_ Hlx]]; [by apply Hdv|]. by eapply H5.
Qed.
Lemma inv_dom0 own ownv h0 h e l : inv own ownv h0 (h, e) → l ∉ dom h → l ∉ dom h0.
Proof. intros (H1 & _) Hl Hl0. apply Hl. by eapply (subseteq_dom _ _ H1). Qed.

Lemma ino_true own x : ino own x = true ↔ x ∈ own.
Proof. unfold ino. by rewrite bool_decide_eq_true. Qed.
Lemma ino_false own x : negb (ino own x) = true → x ∉ own.
Proof. intros H%negb_true_iff Hx. apply ino_true in Hx. congruence. Qed.
Lemma forallb_elem {A} (f : A → bool) l x : forallb f l = true → x ∈ l → f x = true.
Proof.
  induction l as [|a l IH]; simpl; [by intros _ ?%elem_of_nil|].
  intros [Ha Hl]%andb_true_iff [->|Hx]%elem_of_cons; auto.
Qed.
Lemma implb_ino own d b : implb (ino own d) b = true → d ∈ own → b = true.
Proof. intros H Hd. apply ino_true in Hd. by rewrite Hd in H. Qed.

(* a mutator of a circuit / graph / registry applied through an owned local *)
Lemma reach_write h l h' r l' :
  wstep h l h' → reach h' r l' → reach h r l' ∨ reach h l l' ∨ l' ∉ dom h ∨ vcell h l'.
Proof.
  intros (W & HW & Hdom & Hcl & Hfr & Hrefs) Hr.
  revert l' Hr. apply (rtc_ind_r (λ l', reach h r l' ∨ reach h l l' ∨ l' ∉ dom h ∨ vcell h l')); [left; constructor|].
  intros y z Hxy (c & Hy & Hz) IH.
  destruct (decide (y ∈ dom h)) as [Hyd|Hyd]; [destruct (decide (y ∈ W)) as [HyW|HyW]|].
  - destruct (Hrefs _ _ _ Hy Hz (or_introl HyW)) as [?|[?|?]]; auto.
  - rewrite (Hfr _ Hyd HyW) in Hy. destruct IH as [IH|[IH|[IH|[d IH]]]]; [| |done|].
    + left. eapply rtc_r; [done|by exists c].
    + right; left. eapply rtc_r; [done|by exists c].
    + rewrite IH in Hy. injection Hy as <-. by apply elem_of_nil in Hz.
  - destruct (Hrefs _ _ _ Hy Hz (or_intror Hyd)) as [?|[?|?]]; auto.
Qed.
Lemma wstep_vcell h l h' l' : wstep h l h' → vcell h l' → vcell h' l'.
Proof.
  intros (W & HW & Hdom & Hcl & Hfr & Hrefs) Hv. pose proof Hv as [d Hd]. exists d.
  rewrite Hfr; [done|by apply vcell_dom|]. intros HlW. by destruct (HW _ HlW).
Qed.
Lemma inv_write own ownv h0 h e x l h' :
  inv own ownv h0 (h, e) → x ∈ own → e !! x = Some l → wstep h l h' → inv own ownv h0 (h', e).
Proof.
  intros Hinv Hx Hl Hw. pose proof Hinv as (H1 & H2 & H3 & H4 & H5). simpl in *.
  pose proof Hw as (W & HW & Hdom & Hcl & Hfr & Hrefs).
  split_and!; simpl.
  - apply map_subseteq_spec. intros l0 c0 Hl0.
    assert (l0 ∈ dom h0) as Hd0 by (by apply elem_of_dom).
    assert (l0 ∉ W) as HnW. { intros HlW. destruct (HW _ HlW) as [Hr Hnv]. by destruct (H4 x l l0 Hx Hl Hr). }
    rewrite Hfr; [by eapply lookup_weaken|by eapply (subseteq_dom _ _ H1)|done].
  - done.
  - intros y ly Hy. apply Hdom. by eapply H3.
  - intros y ly l' Hy Hly Hr. destruct (reach_write _ _ _ _ _ Hw Hr) as [Hq|[Hq|[Hq|Hq]]].
    + destruct (H4 y ly l' Hy Hly Hq) as [?|?]; [by left|right; by eapply wstep_vcell].
    + destruct (H4 x l l' Hx Hl Hq) as [?|?]; [by left|right; by eapply wstep_vcell].
    + left. eapply inv_dom0; eauto.
    + right. by eapply wstep_vcell.
  - done.
Qed.
(* an in-place update of a BlackBox / pin set made by the call itself *)
Lemma inv_write_val own ownv h0 h e x l v v' :
  inv own ownv h0 (h, e) → x ∈ ownv → e !! x = Some l → h !! l = Some (CBb v) → inv own ownv h0 (<[l := CBb v']> h, e).
Proof.
  intros Hinv Hx Hl Hv. pose proof Hinv as (H1 & H2 & H3 & H4 & H5). simpl in *.
  assert (l ∉ dom h0) as Hl0 by (by eapply H5).
  assert (∀ l1, vcell h l1 → vcell (<[l := CBb v']> h) l1) as Hvc.
  { intros l1 [d Hd]. destruct (decide (l1 = l)) as [->|?]; [exists v'; by rewrite lookup_insert|exists d; by rewrite lookup_insert_ne]. }
  assert (∀ r l', reach (<[l := CBb v']> h) r l' → reach h r l') as Hre.
  { intros r l' Hr. induction Hr as [|a b c (cc & Ha & Hb) _ IH]; [constructor|].
    destruct (decide (a = l)) as [->|Hne]; [rewrite lookup_insert in Ha; injection Ha as <-; by apply elem_of_nil in Hb|].
    rewrite lookup_insert_ne in Ha by done. eapply rtc_l; [by exists cc|done]. }
  split_and!; simpl.
  - apply map_subseteq_spec. intros l0 c0 Hl0'. rewrite lookup_insert_ne; [by eapply lookup_weaken|].
    intros <-. apply Hl0. by apply elem_of_dom.
  - eapply hclosed_update; [done|done| |by intros ? ?%elem_of_nil]. split; [by eexists|intros _; by exists v].
  - intros y ly Hy. rewrite dom_insert_L. pose proof (H3 _ _ Hy). set_solver.
  - intros y ly l' Hy Hly Hr. destruct (H4 y ly l' Hy Hly (Hre _ _ Hr)) as [?|?]; [by left|right; by apply Hvc].
  - done.
Qed.

(* every instruction that is not a call *)
Lemma pick_graph_spec h e g l h1 : hclosed h → env_ok h e → pick_graph h e g l h1 →
  h ⊆ h1 ∧ hclosed h1 ∧ (∃ gg, h1 !! l = Some (CGraph gg)) ∧ (l ∉ dom h ∨ ∃ x, g = Some x ∧ e !! x = Some l).
Proof.
  intros Hc He Hp. destruct Hp.
  - split_and!; [by apply insert_fresh_sub|apply hclosed_insert; [done|done|by intros ? ?%elem_of_nil]|exists ∅; by rewrite lookup_insert|by left].
  - split_and!; [by apply insert_fresh_sub|apply hclosed_insert; [done|done|by intros ? ?%elem_of_nil]|exists ∅; by rewrite lookup_insert|by left].
  - split_and!; [done|done|by eexists|right; by eexists].
Qed.
Lemma pick_dict_spec h e b l h1 : hclosed h → env_ok h e → pick_dict h e b l h1 →
  h ⊆ h1 ∧ hclosed h1 ∧ (∃ bb, h1 !! l = Some (CDict bb)) ∧ (l ∉ dom h ∨ ∃ x, b = Some x ∧ e !! x = Some l ∧ h1 = h).
Proof.
  intros Hc He Hp. destruct Hp.
  - split_and!; [by apply insert_fresh_sub|apply hclosed_insert; [done|done|rewrite refs_dict_empty; by intros ? ?%elem_of_nil]|exists ∅; by rewrite lookup_insert|by left].
  - split_and!; [by apply insert_fresh_sub|apply hclosed_insert; [done|done|rewrite refs_dict_empty; by intros ? ?%elem_of_nil]|exists ∅; by rewrite lookup_insert|by left].
  - split_and!; [done|done|by eexists|right; by eexists].
Qed.

Lemma inv_alloc_leaf own ownv h0 h e d l c :
  inv own ownv h0 (h, e) → l ∉ dom h → refs c = [] → inv own ownv h0 (<[l := c]> h, <[d := l]> e).
Proof.
  intros Hinv Hl Hc. pose proof Hinv as (H1 & H2 & H3 & H4 & H5). simpl in *.
  eapply inv_ext_bind; [done|by apply insert_fresh_sub| | | |].
  - apply hclosed_insert; [done|done|]. rewrite Hc. by intros ? ?%elem_of_nil.
  - rewrite dom_insert_L. set_solver.
  - intros _ l' Hr. apply reach_leaf with (c := c) in Hr as ->; [|by rewrite lookup_insert|done]. left. eapply inv_dom0; eauto.
  - intros _. eapply inv_dom0; eauto.
Qed.
(* a new registry dict whose entries are BlackBox cells *)
Lemma inv_alloc_dict own ownv h0 h e d l b :
  inv own ownv h0 (h, e) → l ∉ dom h → (∀ k l', b !! k = Some l' → vcell h l') → inv own ownv h0 (<[l := CDict b]> h, <[d := l]> e).
Proof.
  intros Hinv Hl Hb. pose proof Hinv as (H1 & H2 & H3 & H4 & H5). simpl in *.
  assert (hclosed (<[l := CDict b]> h)) as Hc'.
  { apply hclosed_insert; [done|done|]. intros l' [k Hk]%elem_of_refs_dict. pose proof (Hb _ _ Hk) as Hv.
    split; [left; by apply vcell_dom|done]. }
  eapply inv_ext_bind; [done|by apply insert_fresh_sub|done| | |].
  - rewrite dom_insert_L. set_solver.
  - intros _ l' Hr. eapply reach_dict in Hr as [->|?]; [left; eapply inv_dom0; eauto|by right|done|by rewrite lookup_insert].
  - intros _. eapply inv_dom0; eauto.
Qed.

Lemma prim_inv tbl own ownv h0 i σ σ' :
  prim_step i σ σ' → chk_prim tbl own ownv i = true → inv own ownv h0 σ → inv own ownv h0 σ'.
Proof.
  intros Hst Hchk Hinv. destruct Hst; simpl in Hchk.
  - by apply inv_alloc_leaf.
  - apply inv_alloc_dict; [done|done|]. intros k l' Hk. by rewrite lookup_empty in Hk.
  - (* fresh circuit *)
    pose proof Hinv as (I1 & I2 & I3 & I4 & I5). simpl in *.
    set (h1 := <[lg := CGraph g]> h). set (h2 := <[lb := CDict b]> h1).
    assert (h ⊆ h1) as Hs1 by (by apply insert_fresh_sub).
    assert (lb ∉ dom h1) by (unfold h1; rewrite dom_insert_L; set_solver).
    assert (h1 ⊆ h2) as Hs2 by (by apply insert_fresh_sub).
    assert (lc ∉ dom h2) as Hlc by (unfold h2, h1; rewrite !dom_insert_L; set_solver).
    assert (hclosed h1) as Hc1 by (apply hclosed_insert; [done|done|by intros ? ?%elem_of_nil]).
    assert (hclosed h2) as Hc2.
    { apply hclosed_insert; [done|done|]. intros l' [k Hk]%elem_of_refs_dict.
      assert (vcell h1 l') as Hv by (eapply vcell_sub; eauto). split; [left; by apply vcell_dom|done]. }
    assert (h2 ⊆ <[lc := CCirc nm lg lb]> h2) as Hs3 by (by apply insert_fresh_sub).
    assert (hclosed (<[lc := CCirc nm lg lb]> h2)) as Hc3.
    { apply hclosed_insert; [done|done|]. simpl. intros l' Hl'. split; [|done]. left. unfold h2, h1. rewrite !dom_insert_L. set_solver. }
    eapply inv_ext_bind; [done|etrans; [done|etrans; done]|done| | |].
    + rewrite dom_insert_L. set_solver.
    + intros _ l' Hr. eapply reach_circ in Hr; [|by rewrite lookup_insert].
      destruct Hr as [->|[Hr|Hr]].
      * left. eapply inv_dom0; eauto.
      * eapply reach_leaf with (c := CGraph g) in Hr as ->; [left; eapply inv_dom0; eauto| |done].
        rewrite lookup_insert_ne by done. unfold h2. rewrite lookup_insert_ne by done. unfold h1. by rewrite lookup_insert.
      * eapply reach_dict in Hr as [->|?]; [left; eapply inv_dom0; eauto|by right|done|].
        rewrite lookup_insert_ne by done. unfold h2. by rewrite lookup_insert.
    + intros Hd. by apply ino_false in Hchk.
  - by apply inv_alloc_leaf.
  - by apply inv_alloc_leaf.
  - (* dict.copy(): a new dict cell holding the same BlackBox references *)
    pose proof Hinv as (I1 & I2 & I3 & I4 & I5). simpl in *.
    apply inv_alloc_dict; [done|done|]. intros k l' Hk.
    eapply (I2 ls (CDict b) l'); [done|by apply elem_of_refs_dict; eauto|done].
  - (* get graph *)
    apply andb_true_iff in Hchk as [Hchk Hv].
    pose proof Hinv as (I1 & I2 & I3 & I4 & I5). simpl in *.
    eapply inv_ext_bind; [done|done|done| | |].
    + eapply hclosed_dom; [done|done|]. simpl. set_solver.
    + intros Hd l' Hr. apply implb_ino in Hchk; [|done]. apply ino_true in Hchk.
      eapply (I4 c lc); [done|done|]. eapply reach_step; [done| |done]. simpl. set_solver.
    + intros Hd. by apply ino_false in Hv.
  - apply andb_true_iff in Hchk as [Hchk Hv].
    pose proof Hinv as (I1 & I2 & I3 & I4 & I5). simpl in *.
    eapply inv_ext_bind; [done|done|done| | |].
    + eapply hclosed_dom; [done|done|]. simpl. set_solver.
    + intros Hd l' Hr. apply implb_ino in Hchk; [|done]. apply ino_true in Hchk.
      eapply (I4 c lc); [done|done|]. eapply reach_step; [done| |done]. simpl. set_solver.
    + intros Hd. by apply ino_false in Hv.
  - (* Circuit(graph=g, blackboxes=b) *)
    apply andb_true_iff in Hchk as [Hchk Hv].
    pose proof Hinv as (I1 & I2 & I3 & I4 & I5). simpl in *.
    destruct (pick_graph_spec _ _ _ _ _ I2 I3 H) as (Hs1 & Hc1 & (gg & Hgg) & Hg).
    assert (env_ok h1 e) as He1 by (intros x lx Hx; eapply (subseteq_dom _ _ Hs1), I3, Hx).
    destruct (pick_dict_spec _ _ _ _ _ Hc1 He1 H0) as (Hs2 & Hc2 & (bb & Hbb) & Hb).
    assert (h2 !! lg = Some (CGraph gg)) as Hgg2 by (by eapply lookup_weaken).
    assert (lg ∈ dom h2) by (by apply elem_of_dom).
    assert (lb ∈ dom h2) by (by apply elem_of_dom).
    assert (h2 ⊆ <[lc := CCirc nm lg lb]> h2) as Hs3 by (by apply insert_fresh_sub).
    eapply inv_ext_bind; [done|etrans; [done|etrans; done]| | | |].
    + apply hclosed_insert; [done|done|]. simpl. intros l' Hl'. split; [|done]. left. set_solver.
    + rewrite dom_insert_L. set_solver.
    + intros Hd l' Hr. apply implb_ino in Hchk; [|done].
      apply andb_true_iff in Hchk as [Hog Hob].
      assert (lc ≠ lg) by (intros ->; done). assert (lc ≠ lb) by (intros ->; done).
      eapply reach_circ in Hr; [|by rewrite lookup_insert].
      destruct Hr as [->|[Hr|Hr]].
      * left. intros Hl0. apply H1. eapply (subseteq_dom _ _ Hs2), (subseteq_dom _ _ Hs1), (subseteq_dom _ _ I1), Hl0.
      * eapply reach_leaf with (c := CGraph gg) in Hr as ->; [|by rewrite lookup_insert_ne|done].
        destruct Hg as [Hg|(x & -> & Hx)]; [left; eapply inv_dom0; eauto|].
        simpl in Hog. apply ino_true in Hog.
        destruct (I4 x lg lg Hog Hx) as [?|[dd Hd']]; [constructor|by left|].
        pose proof (lookup_weaken _ _ _ _ Hd' (transitivity Hs1 Hs2)). congruence.
      * eapply reach_dict in Hr; [|eapply hclosed_insert; [done|done|]; simpl; intros l0 Hl0; split; [left; set_solver|done]
                                   |by rewrite lookup_insert_ne].
        destruct Hr as [->|Hvc]; [|by right].
        destruct Hb as [Hb|(x & -> & Hx & ->)].
        -- left. intros Hl0. apply Hb. eapply (subseteq_dom _ _ Hs1), (subseteq_dom _ _ I1), Hl0.
        -- simpl in Hob. apply ino_true in Hob.
           destruct (I4 x lb lb Hob Hx) as [?|[dd Hd']]; [constructor|by left|].
           pose proof (lookup_weaken _ _ _ _ Hd' Hs1). congruence.
    + intros Hd. by apply ino_false in Hv.
  - (* alias *)
    apply andb_true_iff in Hchk as [Hchk Hv].
    pose proof Hinv as (I1 & I2 & I3 & I4 & I5). simpl in *.
    eapply inv_ext_bind; [done|done|done|by eapply I3| |].
    + intros Hd l' Hr. apply implb_ino in Hchk; [|done]. apply ino_true in Hchk. by eapply (I4 s ls).
    + intros Hd. apply implb_ino in Hv; [|done]. apply ino_true in Hv. by eapply (I5 s ls).
  - by apply inv_alloc_leaf.
  - (* foreign BlackBox *)
    apply andb_true_iff in Hchk as [Hchk Hv].
    pose proof Hinv as (I1 & I2 & I3 & I4 & I5). simpl in *.
    eapply inv_ext_bind; [done|done|done|by apply vcell_dom| |].
    + intros Hd. by apply ino_false in Hchk.
    + intros Hd. by apply ino_false in Hv.
  - apply ino_true in Hchk. by eapply inv_write_val.
  - (* from *)
    apply andb_true_iff in Hchk as [Hchk Hv].
    pose proof Hinv as (Hi1 & Hi2 & Hi3 & Hi4 & Hi5). simpl in *.
    eapply inv_ext_bind; [done..| |].
    + intros Hd l' Hr. apply implb_ino in Hchk; [|done].
      destruct (H2 _ Hr) as [?|(s & ls & Hs & Hls & Hrs)]; [left; eapply inv_dom0; eauto|].
      apply forallb_elem with (x := s) in Hchk; [|done].
      apply ino_true in Hchk. destruct (Hi4 s ls l' Hchk Hls Hrs) as [?|?]; [by left|right; by eapply vcell_sub].
    + intros Hd. by apply ino_false in Hv.
  - done.
  - apply ino_true in Hchk. by eapply inv_write.
Qed.

(* ------------------------------------------------------------------ calls *)
Lemma find_summary_Some tbl f s : find_summary tbl f = Some s → s ∈ tbl ∧ s_name s = f.
Proof.
  unfold find_summary. intros H. destruct (list_find _ tbl) as [[i s']|] eqn:E; simpl in H; [|done].
  injection H as <-. apply list_find_Some in E as (Hi & Hn & _). split; [by eapply elem_of_list_lookup_2|done].
Qed.
Lemma table_safe_elem tbl s : table_safe tbl = true → s ∈ tbl → safe_summary tbl s = true.
Proof. unfold table_safe. intros H Hs. by eapply forallb_elem. Qed.
Lemma safe_with_spec tbl own ownv s : safe_with tbl own ownv s = true →
  (∀ x, x ∈ s_params s → x ∉ own ∧ x ∉ ownv) ∧ chk_prog tbl own ownv (s_body s) = true ∧ (∀ rv, s_ret s = Some rv → rv ∈ own).
Proof.
  unfold safe_with. intros H. apply andb_true_iff in H as [H H3]. apply andb_true_iff in H as [H1 H2]. split_and!.
  - intros x Hx. eapply forallb_elem in H1; [|done]. apply andb_true_iff in H1 as [Ha Hb].
    split; by apply ino_false.
  - done.
  - intros rv Hr. rewrite Hr in H3. by apply ino_true in H3.
Qed.
Lemma bind_params_lookup ps ls x l : bind_params ps ls !! x = Some l → x ∈ ps ∧ l ∈ ls.
Proof. unfold bind_params. intros H%elem_of_list_to_map_2. split; [by eapply elem_of_zip_l|by eapply elem_of_zip_r]. Qed.
Lemma mapM_lookup_elem (e : env) args ls l : mapM (λ a, e !! a) args = Some ls → l ∈ ls → ∃ a, e !! a = Some l.
Proof.
  intros H Hl. apply mapM_Some in H. apply elem_of_list_lookup in Hl as [i Hi].
  destruct (Forall2_lookup_r _ _ _ _ _ H Hi) as (a & _ & Ha). eauto.
Qed.
Lemma inv_callee own ownv h ps ls :
  hclosed h → (∀ l, l ∈ ls → l ∈ dom h) → (∀ x, x ∈ ps → x ∉ own ∧ x ∉ ownv) → inv own ownv h (h, bind_params ps ls).
Proof.
  intros Hc Hl Hp. split_and!; simpl; [done|done| | |].
  - intros x l [_ ?]%bind_params_lookup. by apply Hl.
  - intros x l l' Hx [? _]%bind_params_lookup. by destruct (Hp x) as [? _].
  - intros x l Hx [? _]%bind_params_lookup. by destruct (Hp x) as [_ ?].
Qed.

Lemma exec_inv tbl : table_safe tbl = true →
  ∀ p σ r σ', exec tbl p σ r σ' → ∀ own ownv h0, chk_prog tbl own ownv p = true → inv own ownv h0 σ → inv own ownv h0 σ'.
Proof.
  intros Hsafe p σ r σ' Hex.
  induction Hex as [ | | i σ σ' Hst | p q σ σ1 r σ2 _ IH1 _ IH2 | p q σ σ1 _ IH1 | p q σ r σ1 _ IH | p q σ r σ1 _ IH
                   | | p σ σ1 r σ2 _ IH1 _ IH2 | p σ σ1 _ IH1
                   | d f args s h e ls h' e' e2 Hf Hm Hlen _ IH He2 | d f args s h e ls h' e' Hf Hm Hlen _ IH ];
    intros own ownv h0 Hchk Hinv; simpl in Hchk; try done.
  - by eapply prim_inv.
  - apply andb_true_iff in Hchk as [? ?]. eauto.
  - apply andb_true_iff in Hchk as [? ?]. eauto.
  - apply andb_true_iff in Hchk as [? ?]. eauto.
  - apply andb_true_iff in Hchk as [? ?]. eauto.
  - eauto.
  - eauto.
  - (* call returns *)
    destruct (find_summary_Some _ _ _ Hf) as [Hs _].
    pose proof (table_safe_elem _ _ Hsafe Hs) as Hss. unfold safe_summary in Hss.
    destruct (safe_with_spec _ _ _ _ Hss) as (Hp & Hb & Hr).
    pose proof Hinv as (H1 & H2 & H3 & H4 & H5). simpl in *.
    assert (inv (infer tbl s) (inferv s) h (h', e')) as (C1 & C2 & C3 & C4 & C5).
    { apply IH; [done|]. apply inv_callee; [done| |done].
      intros l Hl. destruct (mapM_lookup_elem _ _ _ _ Hm Hl) as [a Ha]. by eapply H3. }
    simpl in *. subst e2. rewrite Hf in Hchk. apply andb_true_iff in Hchk as [_ Hchk].
    destruct d as [dv|]; [|by eapply inv_ext_none].
    destruct (s_ret s) as [rv|] eqn:Er; [|by eapply inv_ext_none].
    destruct (e' !! rv) as [l|] eqn:El; [|by eapply inv_ext_none].
    eapply inv_ext_bind; [done|done|done|by eapply C3| |].
    + intros _ l' Hrl. destruct (C4 rv l l') as [Hn|?]; [by apply Hr|done|done| |by right].
      left. intros Hl0. apply Hn. by eapply (subseteq_dom _ _ H1).
    + intros Hd. by apply ino_false in Hchk.
  - (* call raises *)
    destruct (find_summary_Some _ _ _ Hf) as [Hs _].
    pose proof (table_safe_elem _ _ Hsafe Hs) as Hss. unfold safe_summary in Hss.
    destruct (safe_with_spec _ _ _ _ Hss) as (Hp & Hb & Hr).
    pose proof Hinv as (H1 & H2 & H3 & H4 & H5). simpl in *.
    assert (inv (infer tbl s) (inferv s) h (h', e')) as (C1 & C2 & C3 & C4 & C5).
    { apply IH; [done|]. apply inv_callee; [done| |done].
      intros l Hl. destruct (mapM_lookup_elem _ _ _ _ Hm Hl) as [a Ha]. by eapply H3. }
    by eapply inv_ext_none.
Qed.

(* ------------------------------------------------------------------ the frame theorem *)
(* A call of a listed function: parameters bound to arbitrary existing objects (aliasing between arguments allowed). *)
Definition call_of (tbl : list summary) (s : summary) (h : heap) (ls : list loc) (raised : bool) (h' : heap) (e' : env) : Prop :=
  s ∈ tbl ∧ hclosed h ∧ (∀ l, l ∈ ls → l ∈ dom h) ∧ exec tbl (s_body s) (h, bind_params (s_params s) ls) raised (h', e').

Theorem frame tbl s h ls r h' e' :
  table_safe tbl = true → call_of tbl s h ls r h' e' →
  (* whether it returns or raises: every cell that existed before the call -- every cell reachable from an argument,
     every BlackBox and pin set of its registry, every BlackBox anywhere -- is exactly as it was *)
  (∀ l c, h !! l = Some c → h' !! l = Some c) ∧
  (∀ la l, la ∈ ls → reach h' la l ↔ reach h la l) ∧
  (* on return: a cell reachable from the result either did not exist before the call or is a BlackBox cell; hence the
     result shares nothing but (unmodified) BlackBox objects with any argument *)
  (r = false → ∀ rv lr, s_ret s = Some rv → e' !! rv = Some lr →
     lr ∈ dom h' ∧ (∀ l, reach h' lr l → l ∉ dom h ∨ vcell h' l) ∧ (∀ la l, la ∈ ls → reach h' lr l → reach h' la l → vcell h' l)).
Proof.
  intros Hsafe (Hs & Hc & Hls & Hex).
  pose proof (table_safe_elem _ _ Hsafe Hs) as Hss. unfold safe_summary in Hss.
  destruct (safe_with_spec _ _ _ _ Hss) as (Hp & Hb & Hr).
  assert (inv (infer tbl s) (inferv s) h (h', e')) as (C1 & C2 & C3 & C4 & C5).
  { eapply exec_inv; [done|done|done|]. by apply inv_callee. }
  simpl in *.
  assert (∀ la l, la ∈ ls → reach h' la l ↔ reach h la l) as Hreach.
  { intros la l Hla. split; [apply reach_ext; auto|by apply reach_sub]. }
  split_and!.
  - intros l c Hl. by eapply lookup_weaken.
  - done.
  - intros _ rv lr Hrv Hlr. split_and!.
    + by eapply C3.
    + intros l Hl. eapply C4; [by apply Hr|done|done].
    + intros la l Hla Hl Hl'. apply Hreach in Hl'; [|done].
      destruct (C4 rv lr l) as [Hn|?]; [by apply Hr|done|done| |done].
      destruct Hn. eapply reach_dom; [done|by apply Hls|done].
Qed.

(* what the harness snapshots: the denoted circuit of an argument -- registry resolved down to the pin sets -- is the
   same after the call *)
Lemma resolve_sub h h' l d : h ⊆ h' → resolve h l = Some d → resolve h' l = Some d.
Proof.
  unfold resolve. intros Hs H. destruct (h !! l) as [[| |d0| |]|] eqn:E; try done.
  by rewrite (lookup_weaken _ _ _ _ E Hs).
Qed.
Lemma denote_same h h' l : (∀ l', reach h l l' → h' !! l' = h !! l') → denote h' l = denote h l.
Proof.
  intros H. unfold denote. rewrite (H l) by constructor.
  destruct (h !! l) as [[| | |n g b|]|] eqn:E; try done.
  assert (reach h l g) as Hg by (apply (reach_step h l _ g g E); [simpl; set_solver|constructor]).
  assert (reach h l b) as Hb by (apply (reach_step h l _ b b E); [simpl; set_solver|constructor]).
  rewrite (H g), (H b) by done.
  destruct (h !! g) as [[gg| | | |]|] eqn:Eg; try done.
  destruct (h !! b) as [[|bb| | |]|] eqn:Eb; try done.
  assert (∀ k lb, bb !! k = Some lb → resolve h' lb = resolve h lb) as Hres.
  { intros k lb Hk. unfold resolve. rewrite H; [done|]. eapply rtc_transitive; [exact Hb|].
    apply (reach_step h b _ lb lb Eb); [apply elem_of_refs_dict; eauto|constructor]. }
  assert (omap (resolve h') bb = omap (resolve h) bb) as ->.
  { apply map_eq. intros k. rewrite !lookup_omap. destruct (bb !! k) as [lb|] eqn:Ek; [simpl; by eapply Hres|done]. }
  destruct (decide (map_Forall _ bb)) as [Ha|Ha]; destruct (decide (map_Forall _ bb)) as [Hb'|Hb']; try done.
  - destruct Hb'. intros k lb Hk. rewrite <- (Hres _ _ Hk). by eapply Ha.
  - destruct Ha. intros k lb Hk. rewrite (Hres _ _ Hk). by eapply Hb'.
Qed.
Lemma denote_sub h h' l C : h ⊆ h' → hclosed h → l ∈ dom h → denote h l = Some C → denote h' l = Some C.
Proof.
  intros Hs Hc Hl HC. rewrite <- HC. apply denote_same. intros l' Hr.
  assert (l' ∈ dom h) as [c Hc']%elem_of_dom by (by eapply reach_dom).
  rewrite Hc'. by eapply lookup_weaken.
Qed.
Corollary argument_unchanged tbl s h ls r h' e' la C :
  table_safe tbl = true → call_of tbl s h ls r h' e' → la ∈ ls → denote h la = Some C → denote h' la = Some C.
Proof.
  intros Hsafe Hcall Hla HC. destruct (frame _ _ _ _ _ _ _ Hsafe Hcall) as (H1 & _).
  destruct Hcall as (_ & Hc & Hls & _).
  eapply denote_sub; [|done|by apply Hls|done]. apply map_subseteq_spec. exact H1.
Qed.

(* ------------------------------------------------------------------ later histories *)
(* two roots whose reachable parts meet in BlackBox cells only stay so under any Circuit-level edit of one of them,
   and the other does not see it *)
Definition separate (h : heap) (a b : loc) : Prop :=
  hclosed h ∧ a ∈ dom h ∧ b ∈ dom h ∧ ∀ l, reach h a l → reach h b l → vcell h l.
Lemma separate_sym h a b : separate h a b → separate h b a.
Proof. intros (?&?&?&H). split_and!; try done. intros l ? ?. by eapply H. Qed.
Lemma wstep_other h a b h' :
  separate h a b → wstep h a h' →
  (∀ l, reach h b l → h' !! l = h !! l) ∧ (∀ l, reach h' b l ↔ reach h b l) ∧ separate h' a b.
Proof.
  intros (Hc & Ha & Hb & Hsep) Hw. pose proof Hw as (W & HW & Hdom & Hcl & Hfr & Hrefs).
  assert (∀ l, reach h b l → h' !! l = h !! l) as Hsame.
  { intros l Hl. apply Hfr; [by eapply reach_dom|]. intros HlW. destruct (HW _ HlW) as [Hra Hnv]. apply Hnv. by apply Hsep. }
  assert (∀ l, reach h b l → reach h' b l) as Hfw.
  { apply (rtc_ind_r (λ l, reach h' b l)); [constructor|]. intros y z Hxy (c & Hy & Hz) IH.
    eapply rtc_r; [done|]. exists c. split; [|done]. rewrite Hsame; done. }
  assert (∀ l, reach h' b l → reach h b l) as Hbw.
  { apply (rtc_ind_r (λ l, reach h b l)); [constructor|]. intros y z Hxy (c & Hy & Hz) IH.
    eapply rtc_r; [done|]. exists c. split; [|done]. rewrite <- Hsame; done. }
  split_and!; [done|by split; auto|].
  split_and!; [done|by apply Hdom|by apply Hdom|].
  intros l Hla Hlb. apply Hbw in Hlb.
  destruct (reach_write _ _ _ _ _ Hw Hla) as [?|[?|[Hn|?]]].
  - eapply wstep_vcell; [done|]. by apply Hsep.
  - eapply wstep_vcell; [done|]. by apply Hsep.
  - destruct Hn. by eapply reach_dom.
  - by eapply wstep_vcell.
Qed.
Definition edits (root : loc) : heap → heap → Prop := rtc (λ h h', wstep h root h').
Lemma edits_other h a b h' :
  separate h a b → edits a h h' → (∀ l, reach h b l → h' !! l = h !! l) ∧ separate h' a b.
Proof.
  intros Hsep He. induction He as [|h1 h2 h3 Hw _ IH]; [done|].
  destruct (wstep_other _ _ _ _ Hsep Hw) as (Hsame & Hre & Hsep2).
  destruct (IH Hsep2) as (Hsame3 & Hsep3). split; [|done].
  intros l Hl. rewrite Hsame3; [by apply Hsame|by apply Hre].
Qed.

Theorem independent_histories tbl s h ls h' e' rv lr la :
  table_safe tbl = true → call_of tbl s h ls false h' e' → s_ret s = Some rv → e' !! rv = Some lr → la ∈ ls →
  (∀ h2, edits lr h' h2 → denote h2 la = denote h la) ∧
  (∀ h2, edits la h' h2 → denote h2 lr = denote h' lr).
Proof.
  intros Hsafe Hcall Hrv Hlr Hla.
  destruct (frame _ _ _ _ _ _ _ Hsafe Hcall) as (H1 & H2 & H3).
  destruct (H3 eq_refl _ _ Hrv Hlr) as (Hd & Hnew & Hdis).
  pose proof Hcall as (Hs & Hc & Hls & Hex).
  pose proof (table_safe_elem _ _ Hsafe Hs) as Hss. unfold safe_summary in Hss.
  destruct (safe_with_spec _ _ _ _ Hss) as (Hp & Hb & Hr).
  assert (inv (infer tbl s) (inferv s) h (h', e')) as (C1 & C2 & C3 & C4 & C5).
  { eapply exec_inv; [done|done|done|]. by apply inv_callee. }
  simpl in *.
  assert (separate h' lr la) as Hsep.
  { split_and!; [done|done|by eapply (subseteq_dom _ _ C1), Hls|]. intros l ? ?. by eapply Hdis. }
  split.
  - intros h2 He. destruct (edits_other _ _ _ _ Hsep He) as (Hsame & _).
    rewrite (denote_same h' h2 la Hsame). apply denote_same.
    intros l' Hl'.
    destruct (h !! l') as [c|] eqn:E; [by apply H1|].
    exfalso. apply not_elem_of_dom in E. apply E. eapply reach_dom; [done|by apply Hls|done].
  - intros h2 He. destruct (edits_other _ _ _ _ (separate_sym _ _ _ Hsep) He) as (Hsame & _).
    by apply denote_same.
Qed.

(* the concrete edits are mutator steps *)
Lemma wstep_replace h l l1 c c' :
  hclosed h → reach h l l1 → h !! l1 = Some c → ¬ vcell h l1 → (∀ d, c' ≠ CBb d) →
  (∀ l', l' ∈ refs c' → vcell h l' ∧ is_dict c') → wstep h l (<[l1 := c']> h).
Proof.
  intros Hc Hr Hl1 Hnv Hnb Hrf. assert (l1 ∈ dom h) by (by apply elem_of_dom).
  exists {[ l1 ]}. split_and!.
  - by intros l' ->%elem_of_singleton.
  - rewrite dom_insert_L. set_solver.
  - eapply hclosed_update; [done|done| |].
    + split; [done|]. intros [d ->]. by destruct (Hnb d).
    + intros l' Hl'. destruct (Hrf _ Hl') as [Hv _]. split; [by apply vcell_dom|]. intros _. split; [done|]. by intros ->.
  - intros l' _ Hn. rewrite lookup_insert_ne; [done|set_solver].
  - intros l2 c2 l3 H1 H2 Hor.
    destruct (decide (l2 = l1)) as [->|Hne].
    + rewrite lookup_insert in H1. injection H1 as <-. right; right. by destruct (Hrf _ H2).
    + exfalso. rewrite lookup_insert_ne in H1 by done. destruct Hor as [?|Hn]; [set_solver|]. apply Hn. by apply elem_of_dom.
Qed.
Lemma wstep_set_graph h l n lg lb g' :
  hclosed h → h !! l = Some (CCirc n lg lb) → (∃ g, h !! lg = Some (CGraph g)) → wstep h l (set_graph h l g').
Proof.
  intros Hc Hl [g Hg]. unfold set_graph. rewrite Hl. eapply wstep_replace; [done| |done| |done|by intros ? ?%elem_of_nil].
  - apply (reach_step h l _ lg lg Hl); [simpl; set_solver|constructor].
  - intros [d Hd]. congruence.
Qed.
Lemma wstep_set_dict h l n lg lb b' :
  hclosed h → h !! l = Some (CCirc n lg lb) → (∃ b, h !! lb = Some (CDict b)) → (∀ k l', b' !! k = Some l' → vcell h l') →
  wstep h l (set_dict h l b').
Proof.
  intros Hc Hl [b Hb] Hv. unfold set_dict. rewrite Hl. eapply wstep_replace; [done| |done| |done|].
  - apply (reach_step h l _ lb lb Hl); [simpl; set_solver|constructor].
  - intros [d Hd]. congruence.
  - intros l' [k Hk]%elem_of_refs_dict. split; [by eapply Hv|done].
Qed.
Lemma wstep_set_name h l n lg lb n' :
  hclosed h → h !! l = Some (CCirc n lg lb) → wstep h l (set_name h l n').
Proof.
  intros Hc Hl. unfold set_name. rewrite Hl. assert (l ∈ dom h) by (by apply elem_of_dom).
  exists {[ l ]}. split_and!.
  - intros l' ->%elem_of_singleton. split; [constructor|]. intros [d Hd]. congruence.
  - rewrite dom_insert_L. set_solver.
  - eapply hclosed_update; [done|done| |].
    + split; [intros [d Hd]; congruence|]. by intros [d ?].
    + simpl. intros l' Hl'. split; [|done]. eapply hclosed_dom; [done|done|done].
  - intros l' _ Hn. rewrite lookup_insert_ne; [done|set_solver].
  - intros l2 c2 l3 H1 H2 Hor.
    destruct (decide (l2 = l)) as [->|Hne].
    + rewrite lookup_insert in H1. injection H1 as <-. left. apply (reach_step h l _ l3 l3 Hl); [done|constructor].
    + exfalso. rewrite lookup_insert_ne in H1 by done. destruct Hor as [?|Hn]; [set_solver|]. apply Hn. by apply elem_of_dom.
Qed.
