(* C19 -- soundness of the effect-summary checker with respect to the store semantics (Model/Store.v). *)
From stdpp Require Import strings gmap sets fin_sets.
From CG Require Import Types Model.Store.
Open Scope string_scope.

(* ------------------------------------------------------------------ reachability *)
Lemma pts_sub h h' l l' : h ⊆ h' → pts h l l' → pts h' l l'.
Proof. intros Hs (c & Hc & Hr). exists c. split; [by eapply lookup_weaken|done]. Qed.
Lemma reach_sub h h' r l : h ⊆ h' → reach h r l → reach h' r l.
Proof. intros Hs. induction 1 as [|x y z Hxy _ IH]; [constructor|]. eapply rtc_l; [by eapply pts_sub|done]. Qed.
Lemma reach_dom h r l : hclosed h → r ∈ dom h → reach h r l → l ∈ dom h.
Proof.
  intros Hc Hr Hrl. induction Hrl as [|x y z (c & Hx & Hy) _ IH]; [done|].
  apply IH. by eapply Hc.
Qed.
Lemma reach_ext h h' r l : h ⊆ h' → hclosed h → r ∈ dom h → reach h' r l → reach h r l.
Proof.
  intros Hs Hc Hr Hrl. induction Hrl as [|x y z (c & Hx & Hy) _ IH]; [constructor|].
  apply elem_of_dom in Hr as [c0 Hc0].
  assert (c = c0) as -> by (pose proof (lookup_weaken _ _ _ _ Hc0 Hs); congruence).
  eapply rtc_l; [by exists c0|]. apply IH. by eapply Hc.
Qed.
Lemma reach_leaf h l c l' : h !! l = Some c → refs c = [] → reach h l l' → l' = l.
Proof.
  intros Hl Hr Hrl. destruct Hrl as [|x y z (c' & Hx & Hy) _]; [done|].
  rewrite Hl in Hx. injection Hx as <-. rewrite Hr in Hy. by apply elem_of_nil in Hy.
Qed.
Lemma reach_circ h l n g b l' : h !! l = Some (CCirc n g b) → reach h l l' → l' = l ∨ reach h g l' ∨ reach h b l'.
Proof.
  intros Hl Hrl. destruct Hrl as [|x y z (c' & Hx & Hy) Hr]; [by left|].
  rewrite Hl in Hx. injection Hx as <-. simpl in Hy. right.
  apply elem_of_cons in Hy as [->|Hy]; [by left|]. apply elem_of_list_singleton in Hy as ->. by right.
Qed.
Lemma reach_step h l c l1 l' : h !! l = Some c → l1 ∈ refs c → reach h l1 l' → reach h l l'.
Proof. intros. eapply rtc_l; [by exists c|done]. Qed.

Lemma insert_fresh_sub (h : heap) l c : l ∉ dom h → h ⊆ <[l := c]> h.
Proof. intros. apply insert_subseteq. by apply not_elem_of_dom. Qed.
Lemma hclosed_insert h l c : hclosed h → (∀ l', l' ∈ refs c → l' ∈ dom h ∨ l' = l) → hclosed (<[l := c]> h).
Proof.
  intros Hc Hr l1 c1 l2 Hl1 Hl2. rewrite dom_insert_L.
  destruct (decide (l1 = l)) as [->|Hne].
  - rewrite lookup_insert in Hl1. injection Hl1 as <-. destruct (Hr _ Hl2) as [?| ->]; set_solver.
  - rewrite lookup_insert_ne in Hl1 by done. pose proof (Hc _ _ _ Hl1 Hl2). set_solver.
Qed.

(* ------------------------------------------------------------------ the invariant *)
Definition inv (own : gset string) (h0 : heap) (σ : state) : Prop :=
  h0 ⊆ σ.1 ∧ hclosed σ.1 ∧ env_ok σ.1 σ.2 ∧
  ∀ x l l', x ∈ own → σ.2 !! x = Some l → reach σ.1 l l' → l' ∉ dom h0.

Lemma inv_ext_none own h0 h e h' : inv own h0 (h, e) → h ⊆ h' → hclosed h' → inv own h0 (h', e).
Proof.
  intros (H1 & H2 & H3 & H4) Hs Hc. split_and!; simpl in *.
  - by etrans.
  - done.
  - intros x l Hx. eapply (subseteq_dom _ _ Hs), H3, Hx.
  - intros x l l' Hx Hl Hr. eapply H4; [done..|]. eapply reach_ext; eauto.
Qed.
Lemma inv_ext_bind own h0 h e h' d l :
  inv own h0 (h, e) → h ⊆ h' → hclosed h' → l ∈ dom h' →
  (d ∈ own → ∀ l', reach h' l l' → l' ∉ dom h0) → inv own h0 (h', <[d := l]> e).
Proof.
  intros (H1 & H2 & H3 & H4) Hs Hc Hl Hd. split_and!; simpl in *.
  - by etrans.
  - done.
  - intros x lx Hx. apply lookup_insert_Some in Hx as [[_ <-]|[_ Hx]]; [done|]. eapply (subseteq_dom _ _ Hs), H3, Hx.
  - intros x lx l' Hx Hlx Hr. apply lookup_insert_Some in Hlx as [[<- <-]|[_ Hlx]]; [by apply Hd|].
    eapply H4; [done..|]. eapply reach_ext; eauto.
Qed.
Lemma inv_dom0 own h0 h e l : inv own h0 (h, e) → l ∉ dom h → l ∉ dom h0.
Proof. intros (H1 & _) Hl Hl0. apply Hl. by eapply (subseteq_dom _ _ H1). Qed.

Lemma ino_true own x : ino own x = true ↔ x ∈ own.
Proof. unfold ino. by rewrite bool_decide_eq_true. Qed.

Lemma forallb_elem {A} (f : A → bool) l x : forallb f l = true → x ∈ l → f x = true.
Proof.
  induction l as [|a l IH]; simpl; [by intros _ ?%elem_of_nil|].
  intros [Ha Hl]%andb_true_iff [->|Hx]%elem_of_cons; auto.
Qed.
Lemma implb_ino own d b : implb (ino own d) b = true → d ∈ own → b = true.
Proof. intros H Hd. apply ino_true in Hd. by rewrite Hd in H. Qed.

(* a mutator applied through an owned local *)
Lemma reach_write h l h' r l' :
  wstep h l h' → reach h' r l' → reach h r l' ∨ reach h l l' ∨ l' ∉ dom h.
Proof.
  intros (W & HW & Hdom & Hcl & Hfr & Hrefs) Hr.
  revert l' Hr. apply (rtc_ind_r (λ l', reach h r l' ∨ reach h l l' ∨ l' ∉ dom h)); [left; constructor|]. intros y z Hxy (c & Hy & Hz) IH.
  destruct (decide (y ∈ dom h)) as [Hyd|Hyd]; [destruct (decide (y ∈ W)) as [HyW|HyW]|].
  - destruct (Hrefs _ _ _ Hy Hz (or_introl HyW)); auto.
  - rewrite (Hfr _ Hyd HyW) in Hy. destruct IH as [IH|[IH|IH]]; [| |done].
    + left. eapply rtc_r; [done|by exists c].
    + right; left. eapply rtc_r; [done|by exists c].
  - destruct (Hrefs _ _ _ Hy Hz (or_intror Hyd)); auto.
Qed.
Lemma inv_write own h0 h e x l h' :
  inv own h0 (h, e) → x ∈ own → e !! x = Some l → wstep h l h' → inv own h0 (h', e).
Proof.
  intros Hinv Hx Hl Hw. pose proof Hinv as (H1 & H2 & H3 & H4). simpl in *.
  pose proof Hw as (W & HW & Hdom & Hcl & Hfr & Hrefs).
  split_and!; simpl.
  - apply map_subseteq_spec. intros l0 c0 Hl0.
    assert (l0 ∈ dom h0) as Hd0 by (by apply elem_of_dom).
    assert (l0 ∉ W) as HnW. { intros HlW. by eapply (H4 x l l0 Hx Hl (HW _ HlW)). }
    rewrite Hfr; [by eapply lookup_weaken|by eapply (subseteq_dom _ _ H1)|done].
  - done.
  - intros y ly Hy. apply Hdom. by eapply H3.
  - intros y ly l' Hy Hly Hr. destruct (reach_write _ _ _ _ _ Hw Hr) as [?|[?|?]].
    + by eapply (H4 y ly).
    + by eapply (H4 x l).
    + eapply inv_dom0; eauto.
Qed.

(* every instruction that is not a call *)
Lemma pick_graph_spec h e g l h1 : hclosed h → env_ok h e → pick_graph h e g l h1 →
  h ⊆ h1 ∧ hclosed h1 ∧ (∃ gg, h1 !! l = Some (CGraph gg)) ∧ (l ∉ dom h ∨ ∃ x, g = Some x ∧ e !! x = Some l).
Proof.
  intros Hc He Hp. destruct Hp.
  - split_and!; [by apply insert_fresh_sub|apply hclosed_insert; [done|by intros ? ?%elem_of_nil]|exists ∅; by rewrite lookup_insert|by left].
  - split_and!; [by apply insert_fresh_sub|apply hclosed_insert; [done|by intros ? ?%elem_of_nil]|exists ∅; by rewrite lookup_insert|by left].
  - split_and!; [done|done|by eexists|right; by eexists].
Qed.
Lemma pick_dict_spec h e b l h1 : hclosed h → env_ok h e → pick_dict h e b l h1 →
  h ⊆ h1 ∧ hclosed h1 ∧ (∃ bb, h1 !! l = Some (CDict bb)) ∧ (l ∉ dom h ∨ ∃ x, b = Some x ∧ e !! x = Some l).
Proof.
  intros Hc He Hp. destruct Hp.
  - split_and!; [by apply insert_fresh_sub|apply hclosed_insert; [done|by intros ? ?%elem_of_nil]|exists ∅; by rewrite lookup_insert|by left].
  - split_and!; [by apply insert_fresh_sub|apply hclosed_insert; [done|by intros ? ?%elem_of_nil]|exists ∅; by rewrite lookup_insert|by left].
  - split_and!; [done|done|by eexists|right; by eexists].
Qed.

Lemma inv_alloc_leaf own h0 h e d l c :
  inv own h0 (h, e) → l ∉ dom h → refs c = [] → inv own h0 (<[l := c]> h, <[d := l]> e).
Proof.
  intros Hinv Hl Hc. pose proof Hinv as (H1 & H2 & H3 & H4). simpl in *.
  eapply inv_ext_bind; [done|by apply insert_fresh_sub| | |].
  - apply hclosed_insert; [done|]. rewrite Hc. by intros ? ?%elem_of_nil.
  - rewrite dom_insert_L. set_solver.
  - intros _ l' Hr. apply reach_leaf with (c := c) in Hr as ->; [|by rewrite lookup_insert|done]. eapply inv_dom0; eauto.
Qed.

Lemma prim_inv tbl own h0 i σ σ' :
  prim_step i σ σ' → chk_prim tbl own i = true → inv own h0 σ → inv own h0 σ'.
Proof.
  intros Hst Hchk Hinv. destruct Hst; simpl in Hchk.
  - by apply inv_alloc_leaf.
  - by apply inv_alloc_leaf.
  - (* fresh circuit *)
    pose proof Hinv as (I1 & I2 & I3 & I4). simpl in *.
    set (h1 := <[lg := CGraph g]> h). set (h2 := <[lb := CDict b]> h1).
    assert (h ⊆ h1) by (by apply insert_fresh_sub).
    assert (lb ∉ dom h1) by (unfold h1; rewrite dom_insert_L; set_solver).
    assert (h1 ⊆ h2) by (by apply insert_fresh_sub).
    assert (lc ∉ dom h2) by (unfold h2, h1; rewrite !dom_insert_L; set_solver).
    assert (hclosed h1) by (apply hclosed_insert; [done|by intros ? ?%elem_of_nil]).
    assert (hclosed h2) by (apply hclosed_insert; [done|by intros ? ?%elem_of_nil]).
    eapply inv_ext_bind; [done|etrans; [done|etrans; [done|by apply insert_fresh_sub]]| | |].
    + apply hclosed_insert; [done|]. simpl. intros l' Hl'. left. unfold h2, h1. rewrite !dom_insert_L. set_solver.
    + rewrite dom_insert_L. set_solver.
    + intros _ l' Hr. eapply reach_circ in Hr; [|by rewrite lookup_insert].
      destruct Hr as [->|[Hr|Hr]].
      * eapply inv_dom0; eauto.
      * eapply reach_leaf with (c := CGraph g) in Hr as ->; [eapply inv_dom0; eauto| |done].
        rewrite lookup_insert_ne by done. unfold h2. rewrite lookup_insert_ne by done. unfold h1. by rewrite lookup_insert.
      * eapply reach_leaf with (c := CDict b) in Hr as ->; [eapply inv_dom0; eauto| |done].
        rewrite lookup_insert_ne by done. unfold h2. by rewrite lookup_insert.
  - by apply inv_alloc_leaf.
  - by apply inv_alloc_leaf.
  - by apply inv_alloc_leaf.
  - (* get graph *)
    pose proof Hinv as (I1 & I2 & I3 & I4). simpl in *.
    eapply inv_ext_bind; [done|done|done| |].
    + eapply I2; [done|]. simpl. set_solver.
    + intros Hd l' Hr. apply implb_ino in Hchk; [|done]. apply ino_true in Hchk.
      eapply (I4 c lc); [done|done|]. eapply reach_step; [done| |done]. simpl. set_solver.
  - pose proof Hinv as (I1 & I2 & I3 & I4). simpl in *.
    eapply inv_ext_bind; [done|done|done| |].
    + eapply I2; [done|]. simpl. set_solver.
    + intros Hd l' Hr. apply implb_ino in Hchk; [|done]. apply ino_true in Hchk.
      eapply (I4 c lc); [done|done|]. eapply reach_step; [done| |done]. simpl. set_solver.
  - (* Circuit(graph=g, blackboxes=b) *)
    pose proof Hinv as (I1 & I2 & I3 & I4). simpl in *.
    destruct (pick_graph_spec _ _ _ _ _ I2 I3 H) as (Hs1 & Hc1 & (gg & Hgg) & Hg).
    assert (env_ok h1 e) as He1 by (intros x lx Hx; eapply (subseteq_dom _ _ Hs1), I3, Hx).
    destruct (pick_dict_spec _ _ _ _ _ Hc1 He1 H0) as (Hs2 & Hc2 & (bb & Hbb) & Hb).
    assert (h2 !! lg = Some (CGraph gg)) as Hgg2 by (by eapply lookup_weaken).
    assert (lg ∈ dom h2) by (by apply elem_of_dom).
    assert (lb ∈ dom h2) by (by apply elem_of_dom).
    eapply inv_ext_bind; [done|etrans; [done|etrans; [done|by apply insert_fresh_sub]]| | |].
    + apply hclosed_insert; [done|]. simpl. intros l' Hl'. left. set_solver.
    + rewrite dom_insert_L. set_solver.
    + intros Hd l' Hr. apply implb_ino in Hchk; [|done].
      apply andb_true_iff in Hchk as [Hog Hob].
      assert (lc ≠ lg) by (intros ->; done). assert (lc ≠ lb) by (intros ->; done).
      eapply reach_circ in Hr; [|by rewrite lookup_insert].
      destruct Hr as [->|[Hr|Hr]].
      * intros Hl0. apply H1. eapply (subseteq_dom _ _ Hs2), (subseteq_dom _ _ Hs1), (subseteq_dom _ _ I1), Hl0.
      * eapply reach_leaf with (c := CGraph gg) in Hr as ->; [|by rewrite lookup_insert_ne|done].
        destruct Hg as [Hg|(x & -> & Hx)]; [eapply inv_dom0; eauto|].
        simpl in Hog. apply ino_true in Hog. eapply (I4 x lg); [done|done|constructor].
      * eapply reach_leaf with (c := CDict bb) in Hr as ->; [|by rewrite lookup_insert_ne|done].
        destruct Hb as [Hb|(x & -> & Hx)].
        -- intros Hl0. apply Hb. eapply (subseteq_dom _ _ Hs1), (subseteq_dom _ _ I1), Hl0.
        -- simpl in Hob. apply ino_true in Hob. eapply (I4 x lb); [done|done|constructor].
  - (* from *)
    pose proof Hinv as (Hi1 & Hi2 & Hi3 & Hi4). simpl in *.
    eapply inv_ext_bind; [done..|].
    intros Hd l' Hr. apply implb_ino in Hchk; [|done].
    destruct (H2 _ Hr) as [?|(s & ls & Hs & Hls & Hrs)]; [eapply inv_dom0; eauto|].
    apply forallb_elem with (x := s) in Hchk; [|done].
    apply ino_true in Hchk. by eapply (Hi4 s ls).
  - done.
  - apply ino_true in Hchk. by eapply inv_write.
Qed.

(* ------------------------------------------------------------------ calls *)
Lemma find_summary_Some tbl f s : find_summary tbl f = Some s → s ∈ tbl ∧ s_name s = f.
Proof.
  unfold find_summary. intros H. destruct (list_find _ tbl) as [[i s']|] eqn:E; simpl in H; [|done].
  injection H as <-. apply list_find_Some in E as (Hi & Hn & _). split; [by eapply elem_of_list_lookup_2|done].
Qed.
Lemma table_safe_elem tbl s : table_safe tbl = true → s ∈ tbl → safe_summary tbl s = true.
Proof.
  unfold table_safe. intros H Hs. by eapply forallb_elem.
Qed.
Lemma safe_with_spec tbl own s : safe_with tbl own s = true →
  (∀ x, x ∈ s_params s → x ∉ own) ∧ chk_prog tbl own (s_body s) = true ∧ (∀ rv, s_ret s = Some rv → rv ∈ own).
Proof.
  unfold safe_with. intros H. apply andb_true_iff in H as [H H3]. apply andb_true_iff in H as [H1 H2]. split_and!.
  - intros x Hx Ho. eapply forallb_elem in H1; [|done].
    apply negb_true_iff in H1. apply ino_true in Ho. congruence.
  - done.
  - intros rv Hr. rewrite Hr in H3. by apply ino_true in H3.
Qed.
Lemma bind_params_lookup ps ls x l : bind_params ps ls !! x = Some l → x ∈ ps ∧ l ∈ ls.
Proof. unfold bind_params. intros H%elem_of_list_to_map_2. split; [by eapply elem_of_zip_l|by eapply elem_of_zip_r]. Qed.
Lemma mapM_lookup_elem (e : env) args ls l : mapM (λ a, e !! a) args = Some ls → l ∈ ls → ∃ a, e !! a = Some l.
Proof.
  intros H Hl. apply mapM_Some in H. apply elem_of_list_lookup in Hl as [i Hi].
  destruct (Forall2_lookup_r _ _ _ _ _ H Hi) as (a & _ & Ha). eauto.
Qed.
Lemma inv_callee own h ps ls :
  hclosed h → (∀ l, l ∈ ls → l ∈ dom h) → (∀ x, x ∈ ps → x ∉ own) → inv own h (h, bind_params ps ls).
Proof.
  intros Hc Hl Hp. split_and!; simpl; [done|done| |].
  - intros x l [_ ?]%bind_params_lookup. by apply Hl.
  - intros x l l' Hx [? _]%bind_params_lookup. by destruct (Hp x).
Qed.

Lemma exec_inv tbl : table_safe tbl = true →
  ∀ p σ r σ', exec tbl p σ r σ' → ∀ own h0, chk_prog tbl own p = true → inv own h0 σ → inv own h0 σ'.
Proof.
  intros Hsafe p σ r σ' Hex.
  induction Hex as [ | | i σ σ' Hst | p q σ σ1 r σ2 _ IH1 _ IH2 | p q σ σ1 _ IH1 | p q σ r σ1 _ IH | p q σ r σ1 _ IH
                   | | p σ σ1 r σ2 _ IH1 _ IH2 | p σ σ1 _ IH1
                   | d f args s h e ls h' e' e2 Hf Hm Hlen _ IH He2 | d f args s h e ls h' e' Hf Hm Hlen _ IH ];
    intros own h0 Hchk Hinv; simpl in Hchk; try done.
  - by eapply prim_inv.
  - apply andb_true_iff in Hchk as [? ?]. eauto.
  - apply andb_true_iff in Hchk as [? ?]. eauto.
  - apply andb_true_iff in Hchk as [? ?]. eauto.
  - apply andb_true_iff in Hchk as [? ?]. eauto.
  - eauto.
  - eauto.
  - (* call returns *)
    destruct (find_summary_Some _ _ _ Hf) as [Hs _].
    pose proof (table_safe_elem _ _ Hsafe Hs) as Hss. unfold safe_summary in Hss.
    destruct (safe_with_spec _ _ _ Hss) as (Hp & Hb & Hr).
    pose proof Hinv as (H1 & H2 & H3 & H4). simpl in *.
    assert (inv (infer tbl s) h (h', e')) as (C1 & C2 & C3 & C4).
    { apply IH; [done|]. apply inv_callee; [done| |done].
      intros l Hl. destruct (mapM_lookup_elem _ _ _ _ Hm Hl) as [a Ha]. by eapply H3. }
    simpl in *. subst e2.
    destruct d as [dv|]; [|by eapply inv_ext_none].
    destruct (s_ret s) as [rv|] eqn:Er; [|by eapply inv_ext_none].
    destruct (e' !! rv) as [l|] eqn:El; [|by eapply inv_ext_none].
    eapply inv_ext_bind; [done|done|done|by eapply C3|].
    intros _ l' Hrl Hl0. eapply (C4 rv l l'); [by apply Hr|done|done|]. by eapply (subseteq_dom _ _ H1).
  - (* call raises *)
    destruct (find_summary_Some _ _ _ Hf) as [Hs _].
    pose proof (table_safe_elem _ _ Hsafe Hs) as Hss. unfold safe_summary in Hss.
    destruct (safe_with_spec _ _ _ Hss) as (Hp & Hb & Hr).
    pose proof Hinv as (H1 & H2 & H3 & H4). simpl in *.
    assert (inv (infer tbl s) h (h', e')) as (C1 & C2 & C3 & C4).
    { apply IH; [done|]. apply inv_callee; [done| |done].
      intros l Hl. destruct (mapM_lookup_elem _ _ _ _ Hm Hl) as [a Ha]. by eapply H3. }
    by eapply inv_ext_none.
Qed.

(* ------------------------------------------------------------------ the frame theorem *)
(* A call of a listed function: parameters bound to arbitrary existing objects (aliasing between arguments allowed). *)
Definition call_of (tbl : list summary) (s : summary) (h : heap) (ls : list loc) (raised : bool) (h' : heap) (e' : env) : Prop :=
  s ∈ tbl ∧ hclosed h ∧ (∀ l, l ∈ ls → l ∈ dom h) ∧ exec tbl (s_body s) (h, bind_params (s_params s) ls) raised (h', e').

Theorem frame tbl s h ls r h' e' :
  table_safe tbl = true → call_of tbl s h ls r h' e' →
  (* whether it returns or raises: every cell that existed before the call -- in particular every cell reachable
     from an argument -- is exactly as it was *)
  (∀ l c, h !! l = Some c → h' !! l = Some c) ∧
  (∀ la l, la ∈ ls → reach h' la l ↔ reach h la l) ∧
  (* on return: the cells reachable from the result did not exist before the call, hence are disjoint from those
     reachable from any argument *)
  (r = false → ∀ rv lr, s_ret s = Some rv → e' !! rv = Some lr →
     lr ∈ dom h' ∧ (∀ l, reach h' lr l → l ∉ dom h) ∧ (∀ la l, la ∈ ls → reach h' lr l → ¬ reach h' la l)).
Proof.
  intros Hsafe (Hs & Hc & Hls & Hex).
  pose proof (table_safe_elem _ _ Hsafe Hs) as Hss. unfold safe_summary in Hss.
  destruct (safe_with_spec _ _ _ Hss) as (Hp & Hb & Hr).
  assert (inv (infer tbl s) h (h', e')) as (C1 & C2 & C3 & C4).
  { eapply exec_inv; [done|done|done|]. by apply inv_callee. }
  simpl in *.
  assert (∀ la l, la ∈ ls → reach h' la l ↔ reach h la l) as Hreach.
  { intros la l Hla. split; [apply reach_ext; auto|by apply reach_sub]. }
  split_and!.
  - intros l c Hl. by eapply lookup_weaken.
  - done.
  - intros _ rv lr Hrv Hlr. split_and!.
    + by eapply C3.
    + intros l Hl. eapply C4; [by apply Hr|done|done].
    + intros la l Hla Hl Hl'. apply Hreach in Hl'; [|done].
      eapply (C4 rv lr l); [by apply Hr|done|done|]. eapply reach_dom; [done|by apply Hls|done].
Qed.

(* what the harness snapshots: the denoted circuit of an argument is the same after the call *)
Lemma denote_sub h h' l C : h ⊆ h' → denote h l = Some C → denote h' l = Some C.
Proof.
  unfold denote. intros Hs H.
  destruct (h !! l) as [[| |n g b|]|] eqn:E; try done.
  rewrite (lookup_weaken _ _ _ _ E Hs).
  destruct (h !! g) as [[gg| | |]|] eqn:Eg; try done. rewrite (lookup_weaken _ _ _ _ Eg Hs).
  destruct (h !! b) as [[|bb| |]|] eqn:Eb; try done. by rewrite (lookup_weaken _ _ _ _ Eb Hs).
Qed.
Corollary argument_unchanged tbl s h ls r h' e' la C :
  table_safe tbl = true → call_of tbl s h ls r h' e' → la ∈ ls → denote h la = Some C → denote h' la = Some C.
Proof.
  intros Hsafe Hcall Hla HC. destruct (frame _ _ _ _ _ _ _ Hsafe Hcall) as (H1 & _).
  eapply denote_sub; [|done]. apply map_subseteq_spec. exact H1.
Qed.

(* ------------------------------------------------------------------ later histories *)
(* two roots whose reachable parts are disjoint stay so under any edit of one of them, and the other does not see it *)
Definition separate (h : heap) (a b : loc) : Prop :=
  hclosed h ∧ a ∈ dom h ∧ b ∈ dom h ∧ ∀ l, reach h a l → ¬ reach h b l.
Lemma separate_sym h a b : separate h a b → separate h b a.
Proof. intros (?&?&?&H). split_and!; try done. intros l ? ?. by eapply H. Qed.
Lemma wstep_other h a b h' :
  separate h a b → wstep h a h' →
  (∀ l, reach h b l → h' !! l = h !! l) ∧ (∀ l, reach h' b l ↔ reach h b l) ∧ separate h' a b.
Proof.
  intros (Hc & Ha & Hb & Hsep) Hw. pose proof Hw as (W & HW & Hdom & Hcl & Hfr & Hrefs).
  assert (∀ l, reach h b l → h' !! l = h !! l) as Hsame.
  { intros l Hl. apply Hfr; [by eapply reach_dom|]. intros HlW. by eapply Hsep; [apply HW|]. }
  assert (∀ l, reach h b l → reach h' b l) as Hfw.
  { apply (rtc_ind_r (λ l, reach h' b l)); [constructor|]. intros y z Hxy (c & Hy & Hz) IH.
    eapply rtc_r; [done|]. exists c. split; [|done]. rewrite Hsame; done. }
  assert (∀ l, reach h' b l → reach h b l) as Hbw.
  { apply (rtc_ind_r (λ l, reach h b l)); [constructor|]. intros y z Hxy (c & Hy & Hz) IH.
    eapply rtc_r; [done|]. exists c. split; [|done]. rewrite <- Hsame; done. }
  split_and!; [done|by split; auto|].
  split_and!; [done|by apply Hdom|by apply Hdom|].
  intros l Hla Hlb. apply Hbw in Hlb.
  destruct (reach_write _ _ _ _ _ Hw Hla) as [?|[?|Hn]]; [by eapply Hsep..|].
  apply Hn. by eapply reach_dom.
Qed.
Definition edits (root : loc) : heap → heap → Prop := rtc (λ h h', wstep h root h').
Lemma edits_other h a b h' :
  separate h a b → edits a h h' → (∀ l, reach h b l → h' !! l = h !! l) ∧ separate h' a b.
Proof.
  intros Hsep He. induction He as [|h1 h2 h3 Hw _ IH]; [done|].
  destruct (wstep_other _ _ _ _ Hsep Hw) as (Hsame & Hre & Hsep2).
  destruct (IH Hsep2) as (Hsame3 & Hsep3). split; [|done].
  intros l Hl. rewrite Hsame3; [by apply Hsame|by apply Hre].
Qed.
Lemma denote_same h h' l : (∀ l', reach h l l' → h' !! l' = h !! l') → denote h' l = denote h l.
Proof.
  intros H. unfold denote. rewrite (H l) by constructor.
  destruct (h !! l) as [[| |n g b|]|] eqn:E; try done.
  rewrite (H g), (H b); [done|..].
  - apply (reach_step h l _ b b E); [simpl; set_solver|constructor].
  - apply (reach_step h l _ g g E); [simpl; set_solver|constructor].
Qed.

Theorem independent_histories tbl s h ls h' e' rv lr la :
  table_safe tbl = true → call_of tbl s h ls false h' e' → s_ret s = Some rv → e' !! rv = Some lr → la ∈ ls →
  (∀ h2, edits lr h' h2 → denote h2 la = denote h la) ∧
  (∀ h2, edits la h' h2 → denote h2 lr = denote h' lr).
Proof.
  intros Hsafe Hcall Hrv Hlr Hla.
  destruct (frame _ _ _ _ _ _ _ Hsafe Hcall) as (H1 & H2 & H3).
  destruct (H3 eq_refl _ _ Hrv Hlr) as (Hd & Hnew & Hdis).
  pose proof Hcall as (Hs & Hc & Hls & Hex).
  pose proof (table_safe_elem _ _ Hsafe Hs) as Hss. unfold safe_summary in Hss.
  destruct (safe_with_spec _ _ _ Hss) as (Hp & Hb & Hr).
  assert (inv (infer tbl s) h (h', e')) as (C1 & C2 & C3 & C4).
  { eapply exec_inv; [done|done|done|]. by apply inv_callee. }
  simpl in *.
  assert (separate h' lr la) as Hsep.
  { split_and!; [done|done|by eapply (subseteq_dom _ _ C1), Hls|]. intros l ? ?. by eapply Hdis. }
  split.
  - intros h2 He. destruct (edits_other _ _ _ _ Hsep He) as (Hsame & _).
    rewrite (denote_same h' h2 la Hsame). apply denote_same.
    intros l' Hl'.
    destruct (h !! l') as [c|] eqn:E; [by apply H1|].
    exfalso. apply not_elem_of_dom in E. apply E. eapply reach_dom; [done|by apply Hls|done].
  - intros h2 He. destruct (edits_other _ _ _ _ (separate_sym _ _ _ Hsep) He) as (Hsame & _).
    by apply denote_same.
Qed.

(* the concrete edits are mutator steps *)
Lemma wstep_leaf h l l1 c c' :
  hclosed h → reach h l l1 → h !! l1 = Some c → refs c' = [] → wstep h l (<[l1 := c']> h).
Proof.
  intros Hc Hr Hl1 Hrf. assert (l1 ∈ dom h) by (by apply elem_of_dom).
  exists {[ l1 ]}. split_and!.
  - by intros l' ->%elem_of_singleton.
  - rewrite dom_insert_L. set_solver.
  - apply hclosed_insert; [done|]. rewrite Hrf. by intros ? ?%elem_of_nil.
  - intros l' _ Hn. rewrite lookup_insert_ne; [done|set_solver].
  - intros l2 c2 l3 H1 H2 Hor. exfalso.
    destruct (decide (l2 = l1)) as [->|Hne].
    + rewrite lookup_insert in H1. injection H1 as <-. rewrite Hrf in H2. by apply elem_of_nil in H2.
    + rewrite lookup_insert_ne in H1 by done. destruct Hor as [?|Hn]; [set_solver|]. apply Hn. by apply elem_of_dom.
Qed.
Lemma wstep_set_graph h l n lg lb g' :
  hclosed h → h !! l = Some (CCirc n lg lb) → (∃ g, h !! lg = Some (CGraph g)) → wstep h l (set_graph h l g').
Proof.
  intros Hc Hl [g Hg]. unfold set_graph. rewrite Hl. eapply wstep_leaf; [done| |done|done].
  apply (reach_step h l _ lg lg Hl); [simpl; set_solver|constructor].
Qed.
Lemma wstep_set_dict h l n lg lb b' :
  hclosed h → h !! l = Some (CCirc n lg lb) → (∃ b, h !! lb = Some (CDict b)) → wstep h l (set_dict h l b').
Proof.
  intros Hc Hl [b Hb]. unfold set_dict. rewrite Hl. eapply wstep_leaf; [done| |done|done].
  apply (reach_step h l _ lb lb Hl); [simpl; set_solver|constructor].
Qed.
Lemma wstep_set_name h l n lg lb n' :
  hclosed h → h !! l = Some (CCirc n lg lb) → wstep h l (set_name h l n').
Proof.
  intros Hc Hl. unfold set_name. rewrite Hl. assert (l ∈ dom h) by (by apply elem_of_dom).
  exists {[ l ]}. split_and!.
  - intros l' ->%elem_of_singleton. constructor.
  - rewrite dom_insert_L. set_solver.
  - apply hclosed_insert; [done|]. simpl. intros l' Hl'. left. eapply Hc; [done|]. done.
  - intros l' _ Hn. rewrite lookup_insert_ne; [done|set_solver].
  - intros l2 c2 l3 H1 H2 Hor.
    destruct (decide (l2 = l)) as [->|Hne].
    + rewrite lookup_insert in H1. injection H1 as <-. left. apply (reach_step h l _ l3 l3 Hl); [done|constructor].
    + exfalso. rewrite lookup_insert_ne in H1 by done. destruct Hor as [?|Hn]; [set_solver|]. apply Hn. by apply elem_of_dom.
Qed.
