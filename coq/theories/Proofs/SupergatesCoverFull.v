(* C17: the cover clause for any number of outputs: the minimal-cover filter never drops the last supergate holding a gate. *)
From stdpp Require Import strings gmap sets fin_sets.
From CG Require Import Model.Supergates Gen.Gen_supergates Proofs.SupergatesProofs Proofs.SupergatesDom Proofs.SupergatesCross.
Open Scope string_scope.

Lemma max_by_gen {X} (f : X → nat) (l : list X) : l ≠ [] → ∃ d, d ∈ l ∧ ∀ e, e ∈ l → f e ≤ f d.
Proof.
  induction l as [|x l IH]; [done|]. intros _. destruct l as [|y l].
  - exists x. split; [by left|]. intros e ->%elem_of_list_singleton. done.
  - destruct IH as (d & Hd & Hmax); [done|]. destruct (decide (f d ≤ f x)).
    + exists x. split; [by left|]. intros e [->|He]%elem_of_cons; [done|]. specialize (Hmax e He). lia.
    + exists d. split; [by right|]. intros e [->|He]%elem_of_cons; [lia|by apply Hmax].
Qed.
Lemma subseteq_size_eq (X Y : gset string) : X ⊆ Y → size Y ≤ size X → X = Y.
Proof.
  intros Hsub Hsz. destruct (decide (Y ⊆ X)) as [|Hn]; [set_solver|]. exfalso.
  assert (X ⊂ Y) as Hss by (split; done). apply subset_size in Hss. lia.
Qed.

Section full.
  Context (L : circuit) (rank : string → nat).
  Hypothesis Hclosed : closed L.
  Hypothesis Hrank : ∀ n i f, L !! n = Some i → f ∈ n_fi i → rank f < rank n.
  Hypothesis Hbound : ∀ n i, L !! n = Some i → size (n_fi i) ≤ 2.
  Hypothesis Hconst : ∀ n i, L !! n = Some i → is_const (n_ty i) = true → n_fi i = ∅.
  Hypothesis Hsrc : ∀ n i, L !! n = Some i → n_ty i = Input → n_fi i = ∅.
  Hypothesis Hdriven : ∀ n i, L !! n = Some i → n_ty i ≠ Input → is_const (n_ty i) = false → n_fi i ≠ ∅.

  (* a supergate grown in the cone of an output, with the certificates of that cone *)
  Definition desc (sg : Circuit) : Prop := ∃ o r S, o ∈ dom L ∧ up_ok L o ∧ avoid_ok (cone L o) o (avoid_table (cone L o) o) ∧
    grow_ok o (sdom_table (avoid_table (cone L o) o)) (kids_of (cone L o) o (sdom_table (avoid_table (cone L o) o))) (r, S) ∧
    sg = mk_sg (cone L o) r S.

  Lemma all_desc all : all_supergates L = Ok all → ∀ sg, sg ∈ all → desc sg.
  Proof.
    unfold all_supergates. destruct (has_bb L); [done|]. destruct (mapM _ _) as [pc|] eqn:Epc; [|done].
    destruct (dedupe _ []) as [all'|] eqn:Ed; [|done]. intros [= <-] sg Hsg.
    destruct (dedupe_sub _ _ _ Ed sg Hsg) as [Hin|Hin]; [|by apply elem_of_nil in Hin].
    apply elem_of_list_join in Hin as (lc & Hs & Hlc). apply mapM_Some in Epc.
    apply elem_of_list_lookup in Hlc as [k Hk]. destruct (Forall2_lookup_r _ _ _ _ _ Epc Hk) as (o & Ho & Hco).
    assert (o ∈ dom L) as HoL.
    { apply elem_of_list_lookup_2, elem_of_elements, elem_of_outputs in Ho as (i & Hi & _). by eapply elem_of_dom_2. }
    unfold cone_supergates in Hco. case_bool_decide as Hcert; [|done]. destruct Hcert as (Hup & Hav & Hgrow & _).
    apply (inj Some) in Hco. subst lc. apply elem_of_list_fmap in Hs as ([r S] & -> & Hgs).
    rewrite Forall_forall in Hgrow. exists o, r, S. split; [done|]. split; [done|]. split; [done|]. split; [by apply Hgrow|done].
  Qed.

  Notation certs o := (o ∈ dom L ∧ up_ok L o ∧ avoid_ok (cone L o) o (avoid_table (cone L o) o)).
  Notation grown o r S := (grow_ok o (sdom_table (avoid_table (cone L o) o)) (kids_of (cone L o) o (sdom_table (avoid_table (cone L o) o))) (r, S)).

  Lemma root_dom o r S : certs o → grown o r S → r ∈ dom (cone L o).
  Proof.
    intros (HoL & Hup & Hav) Hg. eapply (grow_root_dom (cone L o) o rank); try eassumption.
    - intros x f. eapply (cone_C1 L o rank); eassumption.
    - intros P. eapply (cone_C2 L o rank); eassumption.
    - eapply (cone_C3 L o); eassumption.
  Qed.
  (* the cross-cone lemma on supergates *)
  Lemma gates_subset oA r S oB r' S' : certs oA → grown oA r S → certs oB → grown oB r' S' →
    r ∈ gates (c_g (mk_sg (cone L oB) r' S')) → gates (c_g (mk_sg (cone L oA) r S)) ⊆ gates (c_g (mk_sg (cone L oB) r' S')).
  Proof.
    intros HcA HgA HcB HgB Hr g Hg. pose proof (root_dom oA r S HcA HgA) as HrA.
    destruct HcA as (HoA & HupA & HavA). destruct HcB as (HoB & HupB & HavB).
    apply (gates_gateof L rank Hclosed Hrank Hbound Hconst Hsrc oB HoB HupB HavB r' S' HgB).
    apply (gates_gateof L rank Hclosed Hrank Hbound Hconst Hsrc oB HoB HupB HavB r' S' HgB) in Hr.
    apply (gates_gateof L rank Hclosed Hrank Hbound Hconst Hsrc oA HoA HupA HavA r S HgA) in Hg.
    assert (r ∈ dom (cone L oB)) as HrB. { destruct Hr as [_ (k & Hk & _)]. by eapply elem_of_dom_2. }
    assert (r = oA ∨ 1 < length (adj_of (kids_of (cone L oA) oA (sdom_table (avoid_table (cone L oA) oA))) r)) as Hroot.
    { destruct HgA as (_ & Hroot & _). simpl in Hroot. unfold sg_split_above in Hroot. done. }
    exact (gates_transfer L rank Hclosed Hrank Hbound oA oB HoA HoB HupA HupB HavA HavB r HrA Hroot HrB Hconst Hsrc S r' S' HgA HgB Hr _ g eq_refl Hg).
  Qed.

  Theorem supergates_cover_full sgs : supergates L = Ok sgs →
    ∀ n o, o ∈ outputs L → reach L n o → n ∉ inputs L → ∃ sg, sg ∈ sgs ∧ n ∈ gates (c_g sg).
  Proof.
    intros Hsg n o Ho Hreach Hni. unfold supergates in Hsg. destruct (minimal_supergates L) as [m| | |] eqn:Em; unfold rbind in Hsg; try done.
    destruct (kahn (Datatypes.S (length m)) L m []) as [lk|] eqn:Ek; [|done]. injection Hsg as <-.
    unfold minimal_supergates in Em. destruct (all_supergates L) as [all| | |] eqn:Eall; unfold rbind in Em; try done.
    destruct (keyed (minimal_cover all)) as [m'|] eqn:Ekd; [|done]. injection Em as <-.
    pose proof (all_desc all Eall) as Hdesc.
    destruct (all_supergates_cover L rank Hclosed Hrank Hbound Hdriven all Eall n o Ho Hreach Hni) as (sg0 & Hsg0 & Hn0).
    (* among the supergates holding n as a gate take one with the most gates *)
    set (cand := filter (λ s : Circuit, n ∈ gates (c_g s)) all).
    destruct (max_by_gen (λ s : Circuit, size (gates (c_g s))) cand) as (s & Hs & Hmax).
    { intros E. assert (sg0 ∈ cand) as Hin by (apply elem_of_list_filter; done). rewrite E in Hin. by apply elem_of_nil in Hin. }
    apply elem_of_list_filter in Hs as [Hns Hsall].
    assert (NoDup ((λ s : Circuit, dom (c_g s)) <$> all)) as Hnd.
    { unfold all_supergates in Eall. destruct (has_bb L); [done|]. destruct (mapM _ _) as [pc|]; [|done].
      destruct (dedupe _ []) as [all'|] eqn:Ed; [|done]. injection Eall as <-. eapply dedupe_nodup; [done|constructor]. }
    pose proof Hsall as [k Hk]%elem_of_list_lookup.
    assert (s ∈ minimal_cover all) as Hmin.
    { apply (minimal_cover_keep all k s Hk). intros Hsub.
      destruct (Hdesc s Hsall) as (oA & r & S & HoA & HupA & HavA & HgA & ->).
      assert (r ∈ dom (c_g (mk_sg (cone L oA) r S))) as Hrd.
      { apply (sg_dom L rank Hclosed Hrank oA HoA HupA HavA r S HgA). by destruct HgA as (? & _). }
      apply Hsub in Hrd. apply elem_of_union_list in Hrd as (X & HX & HrX). apply elem_of_list_fmap in HX as (t & -> & Ht).
      apply others_elem in Ht as (j & Hjk & Hj). pose proof (elem_of_list_lookup_2 _ _ _ Hj) as Htall.
      destruct (Hdesc t Htall) as (oB & r' & S' & HoB & HupB & HavB & HgB & ->). unfold gates_of in HrX.
      pose proof (gates_subset oA r S oB r' S' (conj HoA (conj HupA HavA)) HgA (conj HoB (conj HupB HavB)) HgB HrX) as Hsubg.
      assert (mk_sg (cone L oB) r' S' ∈ cand) as Htc by (apply elem_of_list_filter; split; [by apply Hsubg|done]).
      specialize (Hmax _ Htc). simpl in Hmax.
      pose proof (subseteq_size_eq _ _ Hsubg Hmax) as Heq.
      (* equal gate sets give equal node sets, but the de-duplicated list has no two supergates with the same node set *)
      apply Hjk. eapply (NoDup_lookup _ _ _ _ Hnd); rewrite list_lookup_fmap; [by rewrite Hj|rewrite Hk]. simpl. f_equal.
      apply set_eq. intros x.
      rewrite (dom_by_gates L rank Hclosed Hrank Hbound Hconst Hsrc oB HoB HupB HavB r' S' HgB x) by (exists n; by rewrite <- Heq).
      rewrite (dom_by_gates L rank Hclosed Hrank Hbound Hconst Hsrc oA HoA HupA HavA r S HgA x) by (by exists n).
      rewrite Heq. done. }
    pose proof (keyed_snd _ _ Ekd) as Hsnd. rewrite <- Hsnd in Hmin. apply elem_of_list_fmap in Hmin as ([o' s'] & Heq & Hm). simpl in Heq. subst s'.
    exists s. split; [|done]. apply elem_of_list_fmap. exists (o', s). split; [done|].
    eapply kahn_complete; [done|by eapply keyed_nodup|by left].
  Qed.
End full.
