(* C17: the minimal-cover filter across output cones.  A supergate s whose root is a gate of another supergate t
   (grown in another cone) has all its gates among the gates of t; hence a supergate with the most gates among those
   holding a given gate is never dropped. *)
From stdpp Require Import strings gmap sets fin_sets.
From CG Require Import Model.Supergates Gen.Gen_supergates Proofs.SupergatesProofs Proofs.SupergatesDom.
Open Scope string_scope.

Ltac hyp := first [eassumption | done].
Lemma le1 (X : gset string) x y : size X ≤ 1 → x ∈ X → y ∈ X → x = y.
Proof.
  intros Hs Hx Hy. destruct (decide (x = y)) as [|Hne]; [done|]. exfalso.
  assert ({[x]} ∪ {[y]} ⊆ X) as Hsub by set_solver. apply subseteq_size in Hsub.
  rewrite size_union, !size_singleton in Hsub by set_solver. lia.
Qed.

Lemma usucc_el co o x y : y ∈ usucc co o x ↔ y ∈ fanin co x ∨ (y ∈ fanout co x ∧ y ≠ o).
Proof. unfold usucc. rewrite elem_of_elements. set_solver. Qed.

(* ================================================================ more facts about one cone *)
Section one.
  Context (co : circuit) (o : string) (rank : string → nat).
  Hypothesis C1 : ∀ x f, x ∈ dom co → f ∈ fanin co x → f ∈ dom co ∧ rank f < rank x.
  Hypothesis C2 : ∀ P : string → Prop, P o → (∀ x f, x ∈ dom co → P x → f ∈ fanin co x → P f) → ∀ x, x ∈ dom co → P x.
  Hypothesis C3 : o ∈ dom co.
  Hypothesis Hav : avoid_ok co o (avoid_table co o).
  Let av := avoid_table co o.
  Let A (d : string) : gset string := default ∅ (av !! d).
  Let sd := sdom_table av.
  Let SD (n : string) : gset string := sdom av n.
  Let ID (n : string) : option string := idom sd n.
  Let kids := kids_of co o sd.
  Let K (p : string) : list string := adj_of kids p.

  Lemma has_fanout x : x ∈ dom co → x = o ∨ ∃ w, w ∈ dom co ∧ x ∈ fanin co w.
  Proof. revert x. apply C2; [by left|]. intros x f Hx _ Hf. right. eauto. Qed.

  Lemma member_dominated r S : grow_ok o sd kids (r, S) → ∀ k a, size (SD a) = k → a ∈ S → a ≠ r → r ∈ SD a.
  Proof.
    intros Hg. pose proof Hg as (_ & _ & _ & Hroute). simpl in Hroute.
    intros k. induction (lt_wf k) as [k _ IH]. intros a Hk Ha Har.
    assert (a ∈ dom co) as Had by (eapply grow_member_dom; hyp).
    destruct (Hroute a Ha) as [|[_ (q & HqS & Hq & _)]]; [done|].
    eapply kids_elem in Hq as (Hqd & _ & _ & Hid); try hyp.
    destruct (ID_Some co o a q Had Hid) as [Hqa _].
    destruct (decide (q = r)) as [->|Hqr]; [done|].
    assert (size (SD q) < size (SD a)) as Hlt by (eapply child_deeper; hyp).
    assert (r ∈ SD q) as Hrq by (eapply (IH (size (SD q))); try hyp; lia).
    destruct (dom_trans co o rank C1 C2 C3 Hav r q a Hrq Hqa Had) as [->|]; done.
  Qed.
  Lemma member_rank r S a : grow_ok o sd kids (r, S) → a ∈ S → rank a ≤ rank r.
  Proof.
    intros Hg Ha. destruct (decide (a = r)) as [->|Har]; [done|].
    pose proof (member_dominated r S Hg _ a eq_refl Ha Har) as Hd.
    assert (a ∈ dom co) as Had by (eapply grow_member_dom; hyp).
    assert (r ∈ dom co) as Hrd by (eapply grow_root_dom; hyp).
    destruct (decide (rank r < rank a)) as [Hlt|]; [|lia]. exfalso.
    eapply SD_elem in Hd as (_ & _ & Hn). apply Hn. eapply rank_avoid; hyp.
  Qed.

  (* every member other than the root feeds a member *)
  Lemma member_fanout_inside r S a : grow_ok o sd kids (r, S) → a ∈ S → a ≠ r → ∃ w, w ∈ S ∧ a ∈ fanin co w.
  Proof.
    intros Hg Ha Har. pose proof Hg as (Hr & _ & Hkids & Hroute). simpl in *.
    assert (a ∈ dom co) as Had by (eapply grow_member_dom; hyp).
    destruct (Hroute a Ha) as [|[_ (q & HqS & Hq & Hqr)]]; [done|].
    pose proof Hq as Hq'. eapply kids_elem in Hq' as (Hqd & _ & Hao & Hid); try hyp.
    destruct (has_fanout a Had) as [|(w & Hw & Hf)]; [done|]. exists w. split; [|done].
    destruct (decide (w = o)) as [->|Hwo].
    { assert (ID a = Some o) as Hido by (eapply root_operand_child; hyp). assert (Some q = Some o) as [= ->] by (rewrite <- Hid; exact Hido). done. }
    destruct (decide (w ∈ SD a)) as [Hd|Hnd].
    - assert (ID a = Some w) as Hidw by (eapply operand_child; hyp). assert (Some q = Some w) as [= ->] by (rewrite <- Hid; exact Hidw). done.
    - assert (ID a = ID w) as Hsib by (eapply operand_sibling; hyp).
      assert (w ∈ K q) as HwK. { eapply kids_elem; try hyp. split; [done|]. split; [done|]. split; [done|]. rewrite <- Hid. symmetry. exact Hsib. }
      destruct Hqr as [->|HK].
      + specialize (Hkids r Hr (or_introl eq_refl)). rewrite Forall_forall in Hkids. by apply Hkids.
      + unfold K in HwK. rewrite HK in HwK. apply elem_of_list_singleton in HwK. subst w. destruct (C1 a a Had Hf). lia.
  Qed.

  (* a member with two tree children that is not the root is an input: none of its operands is inside *)
  Lemma frontier_member_no_operand r S y f : grow_ok o sd kids (r, S) → y ∈ S → y ≠ r → 1 < length (K y) →
    size (fanin co y) ≤ 2 → f ∈ fanin co y → f ∉ S.
  Proof.
    intros Hg Hy Hyr Hl Hsz Hf HfS. pose proof Hg as (_ & _ & _ & Hroute). simpl in Hroute.
    assert (y ∈ dom co) as Hyd by (eapply grow_member_dom; hyp).
    assert (r ∈ dom co) as Hrd by (eapply grow_root_dom; hyp).
    assert (y ≠ o) as Hyo.
    { intros ->. destruct (Hroute o Hy) as [|[_ (q & _ & Hq & _)]]; [done|]. eapply kids_elem in Hq as (_ & _ & ? & _); hyp. }
    destruct (two_children_operands co o rank C1 C2 C3 Hav y Hyd Hyo Hsz Hl) as [_ Hall]. specialize (Hall f Hf).
    destruct (Hroute f HfS) as [->|[_ (q & _ & Hq & Hqr)]].
    - destruct (Hroute y Hy) as [|[Hdepth _]]; [done|]. unfold sd, av in Hdepth. rewrite (sd_of co o r Hrd), (sd_of co o y Hyd) in Hdepth.
      pose proof (child_deeper co o rank C1 C2 C3 Hav r y Hrd Hall). lia.
    - eapply kids_elem in Hq as (_ & _ & _ & Hidq); try hyp. assert (Some q = Some y) as [= ->] by (rewrite <- Hidq; exact Hall).
      destruct Hqr as [|HK]; [done|]. fold (K y) in HK. rewrite HK in Hl. simpl in Hl. lia.
  Qed.

  (* a node with at most one operand has at most one tree child *)
  Lemma single_operand_child y c c' : y ∈ dom co → y ≠ o → size (fanin co y) ≤ 1 →
    c ∈ dom co → c' ∈ dom co → ID c = Some y → ID c' = Some y → c = c'.
  Proof.
    intros Hy Hyo Hsz Hc Hc' Hid Hid'.
    destruct (child_needs_operand co o rank C1 C2 C3 Hav y c Hy Hyo Hc Hid) as (t1 & Ht1 & Hd1).
    destruct (C1 y t1 Hy Ht1) as [Ht1d Hr1].
    assert (t1 ≠ o) as Ht1o. { intros ->. pose proof (rank_le_o co o rank C1 C2 y Hy). lia. }
    assert (∀ c0, c0 ∈ dom co → ID c0 = Some y → c0 = t1) as Hone.
    { intros c0 Hc0 Hid0. destruct (decide (c0 = t1)) as [|Hne]; [done|]. exfalso.
      destruct (ID_Some co o c0 y Hc0 Hid0) as [Hnc HP].
      assert (t1 ∈ SD c0) as Ht1c.
      { eapply SD_elem. split; [done|]. split; [done|]. intros Hc0A.
        assert (c0 ∈ A y ∨ c0 = y) as [Hin| ->].
        { clear Hc0 Hid0 Hne Hnc HP. revert c0 Hc0A. eapply (A_least co o rank C1 C2 C3 Hav t1); try hyp.
          - left. eapply A_o; hyp.
          - intros x z Hx [HxA| ->] Hz Hzt.
            + destruct (decide (z = y)) as [|Hzy]; [by right|left]. eapply A_closed; hyp.
            + left. apply usucc_el in Hz as [Hz|[Hz _]].
              * exfalso. apply Hzt. by apply (le1 (fanin co y)).
              * apply elem_of_fanout in Hz as (i & Hi & Hni). eapply (fanout_not_dom co o rank); try hyp; [by eapply elem_of_dom_2|]. apply elem_of_fanin. eauto. }
        - eapply SD_elem in Hnc as (_ & _ & Hnc). done.
        - eapply SD_elem in Hnc as (_ & ? & _). done. }
      destruct (HP t1 Ht1c) as [->|Ht1n]; [eapply SD_elem in Hd1 as (_ & ? & _); done|].
      eapply SD_elem in Ht1n as (_ & _ & Hbad). apply Hbad. eapply fanin_not_dom; hyp. }
    rewrite (Hone c Hc Hid), (Hone c' Hc' Hid'). done.
  Qed.
End one.
