(* C17: the minimal-cover filter across output cones.  A supergate s whose root is a gate of another supergate t
   (grown in another cone) has all its gates among the gates of t; hence a supergate with the most gates among those
   holding a given gate is never dropped. *)
From stdpp Require Import strings gmap sets fin_sets.
From CG Require Import Model.Supergates Gen.Gen_supergates Proofs.SupergatesProofs Proofs.SupergatesDom.
Open Scope string_scope.

Ltac hyp := first [eassumption | done].
(* g is a gate of the supergate made from the node set S of the cone co *)
Definition gateof (co : circuit) (S : gset string) (g : string) : Prop :=
  g ∈ S ∧ ∃ k, co !! g = Some k ∧ n_ty k ≠ Input ∧ (is_const (n_ty k) = true ∨ ∃ f, f ∈ n_fi k ∧ f ∈ S).
Lemma two_in_list (l : list string) a b : NoDup l → a ∈ l → b ∈ l → a ≠ b → 1 < length l.
Proof.
  intros Hnd Ha Hb Hab. destruct l as [|x [|y l]]; simpl; [by apply elem_of_nil in Ha| |lia].
  apply elem_of_list_singleton in Ha, Hb. congruence.
Qed.
Lemma le1 (X : gset string) x y : size X ≤ 1 → x ∈ X → y ∈ X → x = y.
Proof.
  intros Hs Hx Hy. destruct (decide (x = y)) as [|Hne]; [done|]. exfalso.
  assert ({[x]} ∪ {[y]} ⊆ X) as Hsub by set_solver. apply subseteq_size in Hsub.
  rewrite size_union, !size_singleton in Hsub by set_solver. lia.
Qed.

Lemma usucc_el co o x y : y ∈ usucc co o x ↔ y ∈ fanin co x ∨ (y ∈ fanout co x ∧ y ≠ o).
Proof. unfold usucc. rewrite elem_of_elements. set_solver. Qed.

(* ================================================================ more facts about one cone *)
Section one.
  Context (co : circuit) (o : string) (rank : string → nat).
  Hypothesis C1 : ∀ x f, x ∈ dom co → f ∈ fanin co x → f ∈ dom co ∧ rank f < rank x.
  Hypothesis C2 : ∀ P : string → Prop, P o → (∀ x f, x ∈ dom co → P x → f ∈ fanin co x → P f) → ∀ x, x ∈ dom co → P x.
  Hypothesis C3 : o ∈ dom co.
  Hypothesis Hav : avoid_ok co o (avoid_table co o).
  Let av := avoid_table co o.
  Let A (d : string) : gset string := default ∅ (av !! d).
  Let sd := sdom_table av.
  Let SD (n : string) : gset string := sdom av n.
  Let ID (n : string) : option string := idom sd n.
  Let kids := kids_of co o sd.
  Let K (p : string) : list string := adj_of kids p.

  Lemma has_fanout x : x ∈ dom co → x = o ∨ ∃ w, w ∈ dom co ∧ x ∈ fanin co w.
  Proof. revert x. apply C2; [by left|]. intros x f Hx _ Hf. right. eauto. Qed.

  Lemma member_dominated r S : grow_ok o sd kids (r, S) → ∀ k a, size (SD a) = k → a ∈ S → a ≠ r → r ∈ SD a.
  Proof.
    intros Hg. pose proof Hg as (_ & _ & _ & Hroute). simpl in Hroute.
    intros k. induction (lt_wf k) as [k _ IH]. intros a Hk Ha Har.
    assert (a ∈ dom co) as Had by (eapply grow_member_dom; hyp).
    destruct (Hroute a Ha) as [|[_ (q & HqS & Hq & _)]]; [done|].
    eapply kids_elem in Hq as (Hqd & _ & _ & Hid); try hyp.
    destruct (ID_Some co o a q Had Hid) as [Hqa _].
    destruct (decide (q = r)) as [->|Hqr]; [done|].
    assert (size (SD q) < size (SD a)) as Hlt by (eapply child_deeper; hyp).
    assert (r ∈ SD q) as Hrq by (eapply (IH (size (SD q))); try hyp; lia).
    destruct (dom_trans co o rank C1 C2 C3 Hav r q a Hrq Hqa Had) as [->|]; done.
  Qed.
  Lemma member_rank r S a : grow_ok o sd kids (r, S) → a ∈ S → rank a ≤ rank r.
  Proof.
    intros Hg Ha. destruct (decide (a = r)) as [->|Har]; [done|].
    pose proof (member_dominated r S Hg _ a eq_refl Ha Har) as Hd.
    assert (a ∈ dom co) as Had by (eapply grow_member_dom; hyp).
    assert (r ∈ dom co) as Hrd by (eapply grow_root_dom; hyp).
    destruct (decide (rank r < rank a)) as [Hlt|]; [|lia]. exfalso.
    eapply SD_elem in Hd as (_ & _ & Hn). apply Hn. eapply rank_avoid; hyp.
  Qed.

  (* every member other than the root feeds a member *)
  Lemma member_fanout_inside r S a : grow_ok o sd kids (r, S) → a ∈ S → a ≠ r → ∃ w, w ∈ S ∧ a ∈ fanin co w.
  Proof.
    intros Hg Ha Har. pose proof Hg as (Hr & _ & Hkids & Hroute). simpl in *.
    assert (a ∈ dom co) as Had by (eapply grow_member_dom; hyp).
    destruct (Hroute a Ha) as [|[_ (q & HqS & Hq & Hqr)]]; [done|].
    pose proof Hq as Hq'. eapply kids_elem in Hq' as (Hqd & _ & Hao & Hid); try hyp.
    destruct (has_fanout a Had) as [|(w & Hw & Hf)]; [done|]. exists w. split; [|done].
    destruct (decide (w = o)) as [->|Hwo].
    { assert (ID a = Some o) as Hido by (eapply root_operand_child; hyp). assert (Some q = Some o) as [= ->] by (rewrite <- Hid; exact Hido). done. }
    destruct (decide (w ∈ SD a)) as [Hd|Hnd].
    - assert (ID a = Some w) as Hidw by (eapply operand_child; hyp). assert (Some q = Some w) as [= ->] by (rewrite <- Hid; exact Hidw). done.
    - assert (ID a = ID w) as Hsib by (eapply operand_sibling; hyp).
      assert (w ∈ K q) as HwK. { eapply kids_elem; try hyp. split; [done|]. split; [done|]. split; [done|]. rewrite <- Hid. symmetry. exact Hsib. }
      destruct Hqr as [->|HK].
      + specialize (Hkids r Hr (or_introl eq_refl)). rewrite Forall_forall in Hkids. by apply Hkids.
      + unfold K in HwK. rewrite HK in HwK. apply elem_of_list_singleton in HwK. subst w. destruct (C1 a a Had Hf). lia.
  Qed.

  (* a member with two tree children that is not the root is an input: none of its operands is inside *)
  Lemma frontier_member_no_operand r S y f : grow_ok o sd kids (r, S) → y ∈ S → y ≠ r → 1 < length (K y) →
    size (fanin co y) ≤ 2 → f ∈ fanin co y → f ∉ S.
  Proof.
    intros Hg Hy Hyr Hl Hsz Hf HfS. pose proof Hg as (_ & _ & _ & Hroute). simpl in Hroute.
    assert (y ∈ dom co) as Hyd by (eapply grow_member_dom; hyp).
    assert (r ∈ dom co) as Hrd by (eapply grow_root_dom; hyp).
    assert (y ≠ o) as Hyo.
    { intros ->. destruct (Hroute o Hy) as [|[_ (q & _ & Hq & _)]]; [done|]. eapply kids_elem in Hq as (_ & _ & ? & _); hyp. }
    destruct (two_children_operands co o rank C1 C2 C3 Hav y Hyd Hyo Hsz Hl) as [_ Hall]. specialize (Hall f Hf).
    destruct (Hroute f HfS) as [->|[_ (q & _ & Hq & Hqr)]].
    - destruct (Hroute y Hy) as [|[Hdepth _]]; [done|]. unfold sd, av in Hdepth. rewrite (sd_of co o r Hrd), (sd_of co o y Hyd) in Hdepth.
      pose proof (child_deeper co o rank C1 C2 C3 Hav r y Hrd Hall). lia.
    - eapply kids_elem in Hq as (_ & _ & _ & Hidq); try hyp. assert (Some q = Some y) as [= ->] by (rewrite <- Hidq; exact Hall).
      destruct Hqr as [|HK]; [done|]. fold (K y) in HK. rewrite HK in Hl. simpl in Hl. lia.
  Qed.

  (* a node with at most one operand has at most one tree child *)
  Lemma single_operand_child y c c' : y ∈ dom co → y ≠ o → size (fanin co y) ≤ 1 →
    c ∈ dom co → c' ∈ dom co → ID c = Some y → ID c' = Some y → c = c'.
  Proof.
    intros Hy Hyo Hsz Hc Hc' Hid Hid'.
    destruct (child_needs_operand co o rank C1 C2 C3 Hav y c Hy Hyo Hc Hid) as (t1 & Ht1 & Hd1).
    destruct (C1 y t1 Hy Ht1) as [Ht1d Hr1].
    assert (t1 ≠ o) as Ht1o. { intros ->. pose proof (rank_le_o co o rank C1 C2 y Hy). lia. }
    assert (∀ c0, c0 ∈ dom co → ID c0 = Some y → c0 = t1) as Hone.
    { intros c0 Hc0 Hid0. destruct (decide (c0 = t1)) as [|Hne]; [done|]. exfalso.
      destruct (ID_Some co o c0 y Hc0 Hid0) as [Hnc HP].
      assert (t1 ∈ SD c0) as Ht1c.
      { eapply SD_elem. split; [done|]. split; [done|]. intros Hc0A.
        assert (c0 ∈ A y ∨ c0 = y) as [Hin| ->].
        { clear Hc0 Hid0 Hne Hnc HP. revert c0 Hc0A. eapply (A_least co o rank C1 C2 C3 Hav t1); try hyp.
          - left. eapply A_o; hyp.
          - intros x z Hx [HxA| ->] Hz Hzt.
            + destruct (decide (z = y)) as [|Hzy]; [by right|left]. eapply A_closed; hyp.
            + left. apply usucc_el in Hz as [Hz|[Hz _]].
              * exfalso. apply Hzt. by apply (le1 (fanin co y)).
              * apply elem_of_fanout in Hz as (i & Hi & Hni). eapply (fanout_not_dom co o rank); try hyp; [by eapply elem_of_dom_2|]. apply elem_of_fanin. eauto. }
        - eapply SD_elem in Hnc as (_ & _ & Hnc). done.
        - eapply SD_elem in Hnc as (_ & ? & _). done. }
      destruct (HP t1 Ht1c) as [->|Ht1n]; [eapply SD_elem in Hd1 as (_ & ? & _); done|].
      eapply SD_elem in Ht1n as (_ & _ & Hbad). apply Hbad. eapply fanin_not_dom; hyp. }
    rewrite (Hone c Hc Hid), (Hone c' Hc' Hid'). done.
  Qed.
End one.

(* ================================================================ two cones of the same circuit *)
Section cross.
  Context (L : circuit) (rank : string → nat).
  Hypothesis Hclosed : closed L.
  Hypothesis Hrank : ∀ n i f, L !! n = Some i → f ∈ n_fi i → rank f < rank n.
  Hypothesis Hbound : ∀ n i, L !! n = Some i → size (n_fi i) ≤ 2.
  Context (oA oB : string) (HoA : oA ∈ dom L) (HoB : oB ∈ dom L).
  Hypothesis HupA : up_ok L oA.
  Hypothesis HupB : up_ok L oB.
  Let coA := cone L oA.
  Let coB := cone L oB.
  Hypothesis HavA : avoid_ok coA oA (avoid_table coA oA).
  Hypothesis HavB : avoid_ok coB oB (avoid_table coB oB).
  Let AA (d : string) : gset string := default ∅ (avoid_table coA oA !! d).
  Let AB (d : string) : gset string := default ∅ (avoid_table coB oB !! d).
  Let SDA (n : string) : gset string := sdom (avoid_table coA oA) n.
  Let SDB (n : string) : gset string := sdom (avoid_table coB oB) n.
  Let sdA := sdom_table (avoid_table coA oA).
  Let sdB := sdom_table (avoid_table coB oB).
  Let kidsA := kids_of coA oA sdA.
  Let kidsB := kids_of coB oB sdB.
  Let KA (p : string) : list string := adj_of kidsA p.
  Let KB (p : string) : list string := adj_of kidsB p.

  Let C1A : ∀ x f, x ∈ dom coA → f ∈ fanin coA x → f ∈ dom coA ∧ rank f < rank x.
  Proof. intros x f. eapply (cone_C1 L oA rank); eassumption. Qed.
  Let C2A : ∀ P : string → Prop, P oA → (∀ x f, x ∈ dom coA → P x → f ∈ fanin coA x → P f) → ∀ x, x ∈ dom coA → P x.
  Proof. intros P. eapply (cone_C2 L oA rank); eassumption. Qed.
  Let C3A : oA ∈ dom coA.
  Proof. eapply (cone_C3 L oA); eassumption. Qed.
  Let C1B : ∀ x f, x ∈ dom coB → f ∈ fanin coB x → f ∈ dom coB ∧ rank f < rank x.
  Proof. intros x f. eapply (cone_C1 L oB rank); eassumption. Qed.
  Let C2B : ∀ P : string → Prop, P oB → (∀ x f, x ∈ dom coB → P x → f ∈ fanin coB x → P f) → ∀ x, x ∈ dom coB → P x.
  Proof. intros P. eapply (cone_C2 L oB rank); eassumption. Qed.
  Let C3B : oB ∈ dom coB.
  Proof. eapply (cone_C3 L oB); eassumption. Qed.
  Let faninA z : z ∈ dom coA → fanin coA z = fanin L z.
  Proof. intros Hz. unfold coA. eapply (cone_fanin L oA); try eassumption. eapply (cone_dom L oA); eassumption. Qed.
  Let faninB z : z ∈ dom coB → fanin coB z = fanin L z.
  Proof. intros Hz. unfold coB. eapply (cone_fanin L oB); try eassumption. eapply (cone_dom L oB); eassumption. Qed.

  Let domA_L z : z ∈ dom coA → z ∈ dom L.
  Proof. intros Hz. eapply (up_sub_dom L oA); try eassumption. eapply (cone_dom L oA); eassumption. Qed.
  Let domB_L z : z ∈ dom coB → z ∈ dom L.
  Proof. intros Hz. eapply (up_sub_dom L oB); try eassumption. eapply (cone_dom L oB); eassumption. Qed.

  Lemma cone_bound o z : size (fanin (cone L o) z) ≤ 2.
  Proof.
    destruct (cone L o !! z) as [k|] eqn:Hk.
    - unfold fanin. rewrite Hk. simpl. pose proof Hk as Hk'. apply cone_lookup in Hk' as (_ & kL & HkL & _ & Hfi). rewrite Hfi.
      etrans; [apply subseteq_size; apply intersection_subseteq_l|]. by eapply Hbound.
    - assert (fanin (cone L o) z = (∅ : gset string)) as E by (unfold fanin; by rewrite Hk). rewrite E, size_empty. lia.
  Qed.

  Lemma edge_reach f x p : f ∈ fanin L x → reach L x p → reach L f p.
  Proof. intros Hf (k & l & Hp & Hl). exists (S k), (f :: l). split; [by eapply pathl_step|simpl; lia]. Qed.
  Lemma reach_rank x p : reach L x p → x = p ∨ rank x < rank p.
  Proof.
    intros (k & l & Hp & _). induction Hp as [u Hu | u w v l Hu Hp IH]; [by left|]. right.
    apply elem_of_fanin in Hu as (i & Hi & Hf). pose proof (Hrank _ _ _ Hi Hf). destruct IH as [->|]; lia.
  Qed.
  Lemma in_coneA_reach x : x ∈ dom coA → reach L x oA.
  Proof.
    revert x. apply C2A.
    - exists 0, [oA]. split; [by constructor|done].
    - intros x f Hx IH Hf. rewrite (faninA x Hx) in Hf. by eapply edge_reach.
  Qed.
  Lemma in_coneB_reach x : x ∈ dom coB → reach L x oB.
  Proof.
    revert x. apply C2B.
    - exists 0, [oB]. split; [by constructor|done].
    - intros x f Hx IH Hf. rewrite (faninB x Hx) in Hf. by eapply edge_reach.
  Qed.
  Lemma reach_in_coneB x p : p ∈ dom coB → reach L x p → x ∈ dom coB.
  Proof.
    intros Hp Hr. unfold coB. eapply (cone_dom L oB); try eassumption. destruct HupB as [_ Hcl]. eapply closed_reach; try hyp.
    eapply (cone_dom L oB); eassumption.
  Qed.
  (* what does not reach p is reachable from the output without p *)
  Lemma notreach_avoidA x p : x ∈ dom coA → p ∈ dom coA → p ≠ oA → ¬ reach L x p → x ∈ AA p.
  Proof.
    intros Hx Hp Hpo. revert x Hx. apply (C2A (λ x, ¬ reach L x p → x ∈ AA p)).
    - intros _. eapply A_o; hyp.
    - intros x f Hx IH Hf Hnr. rewrite (faninA x Hx) in Hf.
      assert (¬ reach L x p) as Hnx. { intros Hr. apply Hnr. by eapply edge_reach. }
      eapply (A_closed coA oA HavA p x f); try hyp; [by apply IH|apply usucc_el; left; by rewrite faninA|].
      intros ->. apply Hnr. destruct (C1A x p Hx) as [Hpd _]; [by rewrite faninA|]. exists 0, [p]. split; [|done]. constructor. by apply domA_L.
  Qed.

  (* ---- the root r of a supergate grown in cone A, and the nodes it dominates there ---- *)
  Context (r : string) (Hr : r ∈ dom coA).
  Hypothesis Hroot : r = oA ∨ 1 < length (KA r).
  Hypothesis HrB : r ∈ dom coB.
  Definition below (x : string) : Prop := x = r ∨ (x ∈ dom coA ∧ r ∈ SDA x).
  Global Instance below_dec x : Decision (below x). Proof. unfold below. apply _. Defined.

  Lemma no_sdom_root x : x ∈ SDA oA → False.
  Proof. intros Hx. eapply SD_elem in Hx as (Hd & Hne & Hn). apply Hn. eapply A_o; hyp. Qed.
  Lemma below_dom x : below x → x ∈ dom coA.
  Proof. intros [->|[? _]]; done. Qed.
  Lemma below_fanin x f : below x → f ∈ fanin coA x → below f.
  Proof.
    intros Hx Hf. right. destruct (C1A x f (below_dom x Hx) Hf) as [Hfd _]. split; [done|].
    destruct Hx as [->|[Hxd Hrx]].
    - destruct Hroot as [->|Hl].
      + pose proof (root_operand_child coA oA rank C1A C2A C3A HavA f Hf) as Hid. by destruct (ID_Some coA oA f oA Hfd Hid).
      + destruct (decide (r = oA)) as [->|Hro].
        * pose proof (root_operand_child coA oA rank C1A C2A C3A HavA f Hf) as Hid. by destruct (ID_Some coA oA f oA Hfd Hid).
        * eapply (frontier_dominates coA oA rank C1A C2A C3A HavA r f); try hyp.
          apply cone_bound.
    - assert (x ≠ oA) as Hxo. { intros ->. by eapply no_sdom_root. }
      eapply (adj_sub coA oA rank C1A C2A C3A HavA x f r); hyp.
  Qed.
  (* a node strictly below r has all its neighbours (in cone A) below r *)
  Lemma below_neighbour y z : below y → y ≠ r → z ∈ dom coA → y ∈ usucc coA oA z → below z.
  Proof.
    intros [->|[Hyd Hry]] Hyr Hz Hadj; [done|]. destruct (decide (below z)) as [|Hnb]; [done|]. exfalso.
    assert (z ≠ r) as Hzr. { intros ->. apply Hnb. by left. }
    destruct (decide (r = oA)) as [Hro|Hro].
    { apply Hnb. right. split; [done|]. eapply SD_elem. split; [done|]. split; [done|]. rewrite Hro.
      unfold coA. rewrite (A_root (cone L oA) oA C3A). set_solver. }
    assert (z ∈ AA r) as HzA.
    { destruct (decide (z ∈ AA r)) as [|Hn]; [done|]. exfalso. apply Hnb. right. split; [done|]. eapply SD_elem. done. }
    eapply SD_elem in Hry as (_ & _ & Hbad). apply Hbad. eapply (A_closed coA oA HavA r z y); hyp.
  Qed.
  (* dominated by r implies (not not) upstream of r *)
  Lemma below_reach x : below x → ¬ ¬ reach L x r.
  Proof.
    intros [->|[Hxd Hrx]] Hn.
    - apply Hn. exists 0, [r]. split; [|done]. constructor. by apply domA_L.
    - destruct (decide (r = oA)) as [Hro|Hro]; [apply Hn; rewrite Hro; by apply in_coneA_reach|].
      eapply SD_elem in Hrx as (_ & _ & Hbad). apply Hbad. by apply notreach_avoidA.
  Qed.
  Lemma below_coneB x : below x → x ∈ dom coB.
  Proof.
    intros Hx. destruct (decide (x ∈ dom coB)) as [|Hn]; [done|]. exfalso. apply (below_reach x Hx). intros Hre.
    apply Hn. by eapply reach_in_coneB.
  Qed.
  Lemma below_rank x : below x → x ≠ r → rank x < rank r.
  Proof.
    intros Hx Hne. destruct (decide (rank x < rank r)) as [|Hn]; [done|]. exfalso. apply (below_reach x Hx). intros Hre.
    destruct (reach_rank x r Hre); [done|lia].
  Qed.
  Lemma below_not_oB x : below x → x ≠ r → x ≠ oB.
  Proof.
    intros Hx Hne ->. pose proof (below_rank oB Hx Hne). pose proof (rank_le_o coB oB rank C1B C2B r HrB). lia.
  Qed.

  (* inside the region below r, dominance in cone B implies dominance in cone A *)
  Lemma domB_domA d x : below d → d ≠ r → below x → d ∈ SDB x → d ∈ SDA x.
  Proof.
    intros Hd Hdr Hx HdB. pose proof (below_dom d Hd) as HdA. pose proof (below_coneB d Hd) as HdBd.
    pose proof (below_not_oB d Hd Hdr) as HdoB.
    assert (d ≠ oA) as HdoA. { intros ->. destruct Hd as [|[_ Hbad]]; [done|]. by eapply no_sdom_root. }
    assert (r ∈ AB d) as HrAB. { eapply rank_avoid; try hyp. by apply below_rank. }
    eapply SD_elem in HdB as (_ & Hdx & HxB). eapply SD_elem. split; [done|]. split; [done|]. intros HxA. apply HxB.
    clear Hdx HxB. revert Hx. revert x HxA. eapply (A_least coA oA rank C1A C2A C3A HavA d (λ z, below z → z ∈ AB d)); try hyp.
    - intros [E|[_ Hbad]]; [by rewrite E|]. exfalso. by eapply no_sdom_root.
    - intros z y Hz IH Hy Hyd Hby.
      destruct (decide (y = r)) as [->|Hyr]; [done|].
      pose proof (below_neighbour y z Hby Hyr Hz Hy) as Hbz. specialize (IH Hbz).
      pose proof (below_coneB z Hbz) as HzB. pose proof (below_coneB y Hby) as HyB.
      eapply (A_closed coB oB HavB d z y); try hyp.
      apply usucc_el. apply usucc_el in Hy as [Hy|[Hy _]].
      + left. rewrite faninB by done. by rewrite faninA in Hy.
      + right. split; [|by apply below_not_oB]. apply elem_of_fanout in Hy as (i & Hi & Hzi).
        assert (z ∈ fanin coA y) as Hzf by (apply elem_of_fanin; eauto). rewrite faninA in Hzf by (by eapply elem_of_dom_2).
        rewrite <- (faninB y HyB) in Hzf. apply elem_of_fanin in Hzf as (j & Hj & Hzj). apply elem_of_fanout. eauto.
  Qed.

  (* ---- a supergate (r, S) of cone A and a supergate (r', S') of cone B ---- *)
  Hypothesis Hconst : ∀ n i, L !! n = Some i → is_const (n_ty i) = true → n_fi i = ∅.
  Hypothesis Hsrc : ∀ n i, L !! n = Some i → n_ty i = Input → n_fi i = ∅.
  Context (S : gset string) (r' : string) (S' : gset string).
  Hypothesis HgA : grow_ok oA sdA kidsA (r, S).
  Hypothesis HgB : grow_ok oB sdB kidsB (r', S').

  Lemma nodeA z : z ∈ dom coA → ∃ k kL, coA !! z = Some k ∧ L !! z = Some kL ∧ n_ty k = n_ty kL ∧ n_fi k = n_fi kL.
  Proof.
    intros Hz. pose proof Hz as [k Hk]%elem_of_dom. pose proof Hk as Hk'. apply cone_lookup in Hk' as (_ & kL & HkL & Ht & _).
    exists k, kL. split; [done|]. split; [done|]. split; [done|]. pose proof (faninA z Hz) as Hf. unfold fanin in Hf. by rewrite Hk, HkL in Hf.
  Qed.
  Lemma nodeB z : z ∈ dom coB → ∃ k kL, coB !! z = Some k ∧ L !! z = Some kL ∧ n_ty k = n_ty kL ∧ n_fi k = n_fi kL.
  Proof.
    intros Hz. pose proof Hz as [k Hk]%elem_of_dom. pose proof Hk as Hk'. apply cone_lookup in Hk' as (_ & kL & HkL & Ht & _).
    exists k, kL. split; [done|]. split; [done|]. split; [done|]. pose proof (faninB z Hz) as Hf. unfold fanin in Hf. by rewrite Hk, HkL in Hf.
  Qed.
  Lemma member_below g : g ∈ S → below g.
  Proof.
    intros Hg. destruct (decide (g = r)) as [|Hne]; [by left|right]. split; [eapply grow_member_dom; hyp|].
    eapply (member_dominated coA oA rank C1A C2A C3A HavA r S HgA _ g eq_refl); hyp.
  Qed.

  (* two tree children in cone B imply two tree children in cone A, for a member of S other than the root *)
  Lemma two_kids_transfer g : g ∈ S → g ≠ r → 1 < length (KB g) → 1 < length (KA g).
  Proof.
    intros Hg Hgr Hl. pose proof (member_below g Hg) as Hbel. pose proof (below_dom g Hbel) as HgA'.
    pose proof (below_coneB g Hbel) as HgBd. pose proof (below_not_oB g Hbel Hgr) as HgoB.
    assert (g ≠ oA) as HgoA. { intros ->. destruct Hbel as [|[_ Hbad]]; [done|]. by eapply no_sdom_root. }
    destruct (two_children_operands coB oB rank C1B C2B C3B HavB g HgBd HgoB (cone_bound oB g) Hl) as [[t0 Ht0] Hall].
    assert (∀ t, t ∈ fanin coB g → t ∈ KA g) as Hkid.
    { intros t Ht. destruct (C1B g t HgBd Ht) as [HtB _].
      pose proof (Hall t Ht) as Hid. destruct (ID_Some coB oB t g HtB Hid) as [HgSD _].
      assert (t ∈ fanin coA g) as HtA by (rewrite faninA by done; by rewrite faninB in Ht).
      pose proof (below_fanin g t Hbel HtA) as Hbt. destruct (C1A g t HgA' HtA) as [HtAd Hrk].
      pose proof (domB_domA g t Hbel Hgr Hbt HgSD) as HgSDA.
      eapply kids_elem; try hyp. split; [done|]. split; [done|]. split.
      - intros ->. pose proof (rank_le_o coA oA rank C1A C2A g HgA'). lia.
      - eapply operand_child; hyp. }
    destruct (decide (size (fanin coB g) ≤ 1)) as [Hs1|Hs2].
    - exfalso. destruct (kids_two coB oB rank C1B C2B C3B HavB g Hl) as (c & c' & Hne & Hc & Hc').
      eapply kids_elem in Hc as (_ & ? & _ & ?); try hyp. eapply kids_elem in Hc' as (_ & ? & _ & ?); try hyp.
      apply Hne. eapply (single_operand_child coB oB rank C1B C2B C3B HavB g c c'); hyp.
    - assert (∃ t1, t1 ∈ fanin coB g ∧ t1 ≠ t0) as (t1 & Ht1 & Hne).
      { assert (fanin coB g = {[t0]} ∪ fanin coB g ∖ {[t0]}) as E by (apply union_difference_L; set_solver).
        assert (0 < size (fanin coB g ∖ {[t0]})) as Hpos.
        { rewrite E, size_union, size_singleton in Hs2 by set_solver. lia. }
        apply size_pos_elem_of in Hpos as [t1 Ht1]. exists t1. set_solver. }
      eapply (two_in_list _ t0 t1); [eapply kids_nodup; hyp|by apply Hkid|by apply Hkid|done].
  Qed.

  (* if the root r is a gate of (r', S') then every gate of (r, S) is a gate of (r', S') *)
  Lemma gates_transfer : gateof coB S' r → ∀ m g, rank r - rank g = m → gateof coA S g → gateof coB S' g.
  Proof.
    intros Hroot_gate m. induction (lt_wf m) as [m _ IH]. intros g Hm [Hg (kA & HkA & HtyA & HopA)].
    destruct (decide (g = r)) as [->|Hgr]; [done|].
    assert (g ∈ dom coA) as HgAd by (by eapply elem_of_dom_2).
    (* g feeds a member w of S, which is a gate of (r, S), hence of (r', S'); so g is a member of S' *)
    destruct (member_fanout_inside coA oA rank C1A C2A C3A HavA r S g HgA Hg Hgr) as (w & Hw & Hgw).
    assert (w ∈ dom coA) as HwAd by (eapply grow_member_dom; hyp).
    destruct (nodeA w HwAd) as (kw & kwL & Hkw & HkwL & Htw & Hfw).
    assert (g ∈ n_fi kwL) as Hgfi. { unfold fanin in Hgw. rewrite Hkw in Hgw. simpl in Hgw. by rewrite Hfw in Hgw. }
    assert (n_ty kwL ≠ Input) as HwI. { intros E. rewrite (Hsrc w kwL HkwL E) in Hgfi. by apply elem_of_empty in Hgfi. }
    assert (is_const (n_ty kwL) = false) as Hwc.
    { destruct (is_const (n_ty kwL)) eqn:E; [|done]. rewrite (Hconst w kwL HkwL E) in Hgfi. by apply elem_of_empty in Hgfi. }
    assert (gateof coA S w) as HwgA.
    { split; [done|]. exists kw. split; [done|]. split; [by rewrite Htw|]. right. exists g. split; [by rewrite Hfw|done]. }
    destruct (C1A w g HwAd Hgw) as [_ Hrk]. pose proof (member_rank coA oA rank C1A C2A C3A HavA r S w HgA Hw) as Hrw.
    destruct (IH (rank r - rank w) ltac:(lia) w eq_refl HwgA) as [HwS' (kwB & HkwB & _ & HopB)].
    assert (w ∈ dom coB) as HwBd by (by eapply elem_of_dom_2).
    destruct (nodeB w HwBd) as (kwB' & kwL' & HkwB' & HkwL' & HtwB & HfwB).
    assert (kwB' = kwB) as -> by congruence. assert (kwL' = kwL) as -> by congruence.
    destruct HopB as [Hc|(f0 & Hf0 & Hf0S')]; [rewrite HtwB in Hc; congruence|].
    assert (g ∈ S') as HgS'.
    { eapply (grown_closed coB oB rank C1B C2B C3B HavB r' S' w f0 g HgB HwS' (cone_bound oB w)).
      - unfold fanin. by rewrite HkwB.
      - done.
      - unfold fanin. rewrite HkwB. simpl. by rewrite HfwB. }
    assert (g ∈ dom coB) as HgBd by (eapply grow_member_dom; hyp).
    destruct (nodeA g HgAd) as (kA' & kL & HkA' & HkL & HtA & HfA). assert (kA' = kA) as -> by congruence.
    destruct (nodeB g HgBd) as (kB & kL' & HkB & HkL' & HtB & HfB). assert (kL' = kL) as -> by congruence.
    split; [done|]. exists kB. split; [done|]. split; [congruence|].
    destruct HopA as [Hc|(f & Hf & HfS)]; [left; congruence|].
    destruct (decide (set_Exists (λ f', f' ∈ S') (n_fi kB))) as [(f' & Hf' & Hf'S)|Hnone]; [right; eauto|]. exfalso.
    assert (f ∈ fanin coB g) as HfB'. { unfold fanin. rewrite HkB. simpl. rewrite HfB, <- HfA. done. }
    assert (g ≠ r' ∧ 1 < length (KB g)) as [Hgr' HlB].
    { destruct (decide (g = r')) as [->|Hgr']; [|destruct (decide (1 < length (KB g))) as [|Hnl]; [done|]]; exfalso.
      - destruct (member_operand_inside coB oB rank C1B C2B C3B HavB r' S' r' f HgB HgS' (cone_bound oB r') HfB') as (f' & Hf' & Hf'S); [by left|].
        apply Hnone. exists f'. split; [|done]. unfold fanin in Hf'. by rewrite HkB in Hf'.
      - destruct (member_operand_inside coB oB rank C1B C2B C3B HavB r' S' g f HgB HgS' (cone_bound oB g) HfB') as (f' & Hf' & Hf'S); [by right|].
        apply Hnone. exists f'. split; [|done]. unfold fanin in Hf'. by rewrite HkB in Hf'. }
    pose proof (two_kids_transfer g Hg Hgr HlB) as HlA.
    eapply (frontier_member_no_operand coA oA rank C1A C2A C3A HavA r S g f HgA Hg Hgr HlA (cone_bound oA g)); [|done].
    unfold fanin. by rewrite HkA.
  Qed.
End cross.

(* ================================================================ one supergate: gates, members, and how the gates fix the node set *)
Section one_sg.
  Context (L : circuit) (rank : string → nat).
  Hypothesis Hclosed : closed L.
  Hypothesis Hrank : ∀ n i f, L !! n = Some i → f ∈ n_fi i → rank f < rank n.
  Hypothesis Hbound : ∀ n i, L !! n = Some i → size (n_fi i) ≤ 2.
  Hypothesis Hconst : ∀ n i, L !! n = Some i → is_const (n_ty i) = true → n_fi i = ∅.
  Hypothesis Hsrc : ∀ n i, L !! n = Some i → n_ty i = Input → n_fi i = ∅.
  Context (o : string) (HoL : o ∈ dom L).
  Hypothesis Hup : up_ok L o.
  Let co := cone L o.
  Hypothesis Hav : avoid_ok co o (avoid_table co o).
  Let sd := sdom_table (avoid_table co o).
  Let kids := kids_of co o sd.
  Context (r : string) (S : gset string).
  Hypothesis Hg : grow_ok o sd kids (r, S).
  Let sg := mk_sg co r S.

  Let C1 : ∀ x f, x ∈ dom co → f ∈ fanin co x → f ∈ dom co ∧ rank f < rank x.
  Proof. intros x f. eapply (cone_C1 L o rank); eassumption. Qed.
  Let C2 : ∀ P : string → Prop, P o → (∀ x f, x ∈ dom co → P x → f ∈ fanin co x → P f) → ∀ x, x ∈ dom co → P x.
  Proof. intros P. eapply (cone_C2 L o rank); eassumption. Qed.
  Let C3 : o ∈ dom co.
  Proof. eapply (cone_C3 L o); eassumption. Qed.
  Let fanin_co z : z ∈ dom co → fanin co z = fanin L z.
  Proof. intros Hz. unfold co. eapply (cone_fanin L o); try eassumption. eapply (cone_dom L o); eassumption. Qed.

  Lemma gates_gateof g : g ∈ gates (c_g sg) ↔ gateof co S g.
  Proof.
    split.
    - intros [Hd Hni]%elem_of_difference. pose proof (mk_sg_dom co r S g Hd) as HgS. split; [done|].
      assert (g ∈ dom co) as [k Hk]%elem_of_dom by (eapply grow_member_dom; hyp).
      destruct (mk_sg_lookup_intro co r S g k HgS Hk) as (i & Hi & Hty). exists k. split; [done|].
      assert (n_ty i ≠ Input) as HnI. { intros E. apply Hni. apply elem_of_inputs. eauto. }
      rewrite Hty in HnI. destruct (is_const (n_ty k)) eqn:Hc; [split; [done|by left]|].
      case_bool_decide as Hemp; [done|]. split; [done|]. right. apply set_choose_L in Hemp as [f Hf]. exists f. set_solver.
    - intros [HgS (k & Hk & HnI & Hop)]. destruct (mk_sg_lookup_intro co r S g k HgS Hk) as (i & Hi & Hty).
      apply elem_of_difference. split; [by eapply elem_of_dom_2|]. intros (i' & Hi' & HI)%elem_of_inputs.
      assert (i' = i) as -> by (unfold sg in Hi'; congruence). rewrite Hty in HI.
      destruct Hop as [Hc|(f & Hf & HfS)]; [by rewrite Hc in HI|].
      destruct (is_const (n_ty k)); [done|]. rewrite bool_decide_eq_false_2 in HI; [done|]. set_solver.
  Qed.
  Lemma sg_dom x : x ∈ dom (c_g sg) ↔ x ∈ S.
  Proof.
    split; [apply mk_sg_dom|]. intros HxS. assert (x ∈ dom co) as [k Hk]%elem_of_dom by (eapply grow_member_dom; hyp).
    destruct (mk_sg_lookup_intro co r S x k HxS Hk) as (i & Hi & _). by eapply elem_of_dom_2.
  Qed.
  (* a member that feeds a member: the consumer is a gate *)
  Lemma consumer_gate w x : w ∈ S → x ∈ S → x ∈ fanin co w → gateof co S w.
  Proof.
    intros Hw Hx Hf. split; [done|]. assert (w ∈ dom co) as Hwd by (eapply grow_member_dom; hyp).
    pose proof Hwd as [k Hk]%elem_of_dom. pose proof Hk as Hk'. apply cone_lookup in Hk' as (_ & kL & HkL & Ht & _).
    assert (n_fi k = n_fi kL) as Hfi. { pose proof (fanin_co w Hwd) as E. unfold fanin in E. by rewrite Hk, HkL in E. }
    assert (x ∈ n_fi k) as Hxk. { unfold fanin in Hf. by rewrite Hk in Hf. }
    exists k. split; [done|]. split.
    - rewrite Ht. intros E. rewrite Hfi, (Hsrc w kL HkL E) in Hxk. by apply elem_of_empty in Hxk.
    - right. eauto.
  Qed.
  Lemma root_gate : ∀ m g, rank r - rank g = m → gateof co S g → gateof co S r.
  Proof.
    intros m. induction (lt_wf m) as [m _ IH]. intros g Hm Hgg. destruct (decide (g = r)) as [->|Hgr]; [done|].
    destruct Hgg as [HgS _].
    destruct (member_fanout_inside co o rank C1 C2 C3 Hav r S g Hg HgS Hgr) as (w & Hw & Hgw).
    assert (w ∈ dom co) as Hwd by (eapply grow_member_dom; hyp). destruct (C1 w g Hwd Hgw) as [_ Hrk].
    pose proof (member_rank co o rank C1 C2 C3 Hav r S w Hg Hw).
    eapply (IH (rank r - rank w)); [lia|done|]. exact (consumer_gate w g Hw HgS Hgw).
  Qed.
  (* the node set is fixed by the gate set *)
  Lemma dom_by_gates x : (∃ g, g ∈ gates (c_g sg)) →
    (x ∈ dom (c_g sg) ↔ x ∈ gates (c_g sg) ∨ ∃ g, g ∈ gates (c_g sg) ∧ x ∈ fanin L g).
  Proof.
    intros [g0 Hg0]. pose proof (root_gate _ g0 eq_refl (proj1 (gates_gateof g0) Hg0)) as Hrg. split.
    - intros Hx%sg_dom. destruct (decide (x ∈ gates (c_g sg))) as [|Hng]; [by left|right].
      assert (x ≠ r) as Hxr. { intros ->. apply Hng. by apply gates_gateof. }
      destruct (member_fanout_inside co o rank C1 C2 C3 Hav r S x Hg Hx Hxr) as (w & Hw & Hxw).
      exists w. split; [apply gates_gateof; exact (consumer_gate w x Hw Hx Hxw)|]. rewrite <- fanin_co; [done|eapply grow_member_dom; hyp].
    - intros [[Hd _]%elem_of_difference|(g & Hgg & Hxg)]; [done|]. apply sg_dom.
      apply gates_gateof in Hgg as [HgS (k & Hk & _ & Hop)]. assert (g ∈ dom co) as Hgd by (by eapply elem_of_dom_2).
      rewrite <- (fanin_co g Hgd) in Hxg.
      destruct Hop as [Hc|(f & Hf & HfS)].
      + exfalso. pose proof Hk as Hk'. apply cone_lookup in Hk' as (_ & kL & HkL & Ht & _). rewrite Ht in Hc.
        rewrite (fanin_co g Hgd) in Hxg. unfold fanin in Hxg. rewrite HkL in Hxg. simpl in Hxg. rewrite (Hconst g kL HkL Hc) in Hxg.
        by apply elem_of_empty in Hxg.
      + eapply (grown_closed co o rank C1 C2 C3 Hav r S g f x Hg HgS); try hyp; [apply cone_bound; hyp|unfold fanin; by rewrite Hk].
  Qed.
End one_sg.
