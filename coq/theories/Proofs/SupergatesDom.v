(* C17: dominator theory for the search graph of one output cone, set-theoretically (least closed sets, no paths),
   and its consequence for the growth loop: a grown supergate is closed under fan-in except at its inputs. *)
From stdpp Require Import strings gmap sets fin_sets.
From CG Require Import Model.Supergates Gen.Gen_supergates.
Open Scope string_scope.

(* ================================================================ the search computes a subset of every closed set *)
Lemma dfs_least (succ : string → list string) (P : string → Prop) :
  (∀ x y, P x → y ∈ succ x → P y) →
  ∀ fuel stack seen, (∀ x, x ∈ seen → P x) → (∀ x, x ∈ stack → x ∈ seen) → ∀ z, z ∈ dfs fuel succ stack seen → P z.
Proof.
  intros Hcl fuel. induction fuel as [|k IH]; intros stack seen Hseen Hst z; simpl; [by apply Hseen|].
  destruct stack as [|x st]; [by apply Hseen|].
  apply IH.
  - intros y [Hy|Hy]%elem_of_union; [by apply Hseen|]. apply elem_of_list_to_set, elem_of_list_filter in Hy as [_ Hy].
    apply (Hcl x); [|done]. apply Hseen, Hst. by left.
  - intros y [Hy|Hy]%elem_of_app; apply elem_of_union; [right; by apply elem_of_list_to_set|left; apply Hst; by right].
Qed.

Section dom.
  Context (co : circuit) (o : string) (rank : string → nat).
  (* the cone: closed, ranked, the output in it, and every node is upstream of the output (induction principle) *)
  Hypothesis C1 : ∀ x f, x ∈ dom co → f ∈ fanin co x → f ∈ dom co ∧ rank f < rank x.
  Hypothesis C2 : ∀ P : string → Prop, P o → (∀ x f, x ∈ dom co → P x → f ∈ fanin co x → P f) → ∀ x, x ∈ dom co → P x.
  Hypothesis C3 : o ∈ dom co.
  Let av := avoid_table co o.
  Hypothesis Hav : avoid_ok co o av.
  Let A (d : string) : gset string := default ∅ (av !! d).
  Let sd := sdom_table av.
  Let SD (n : string) : gset string := sdom av n.
  Let ID (n : string) : option string := idom sd n.

  Lemma usucc_elem x y : y ∈ usucc co o x ↔ y ∈ fanin co x ∨ (y ∈ fanout co x ∧ y ≠ o).
  Proof. unfold usucc. rewrite elem_of_elements. set_solver. Qed.
  Lemma usucc_dom x y : x ∈ dom co → y ∈ usucc co o x → y ∈ dom co.
  Proof.
    intros Hx [Hy|[Hy _]]%usucc_elem; [by apply (C1 x)|]. apply elem_of_fanout in Hy as (i & Hi & _). by apply elem_of_dom.
  Qed.
  Lemma av_lookup d : d ∈ dom co → av !! d = Some (reach_avoid (adj_table co o) (size co) o d).
  Proof. intros [i Hi]%elem_of_dom. unfold av, avoid_table. by rewrite map_lookup_imap, Hi. Qed.
  Lemma adj_lookup x : adj_of (adj_table co o) x = if decide (x ∈ dom co) then usucc co o x else [].
  Proof.
    unfold adj_of, adj_table. rewrite map_lookup_imap. case_decide as Hx.
    - apply elem_of_dom in Hx as [i Hi]. by rewrite Hi.
    - apply not_elem_of_dom in Hx. by rewrite Hx.
  Qed.
  Lemma A_root : A o = ∅.
  Proof. unfold A. rewrite (av_lookup o C3). simpl. unfold reach_avoid. by rewrite bool_decide_eq_true_2. Qed.
  Lemma A_o d : d ∈ dom co → d ≠ o → o ∈ A d.
  Proof.
    intros Hd Hne. unfold A. destruct (av !! d) as [X|] eqn:E; [|by rewrite av_lookup in E]. simpl.
    destruct (Hav d X E) as [?|[? _]]; done.
  Qed.
  Lemma A_closed d x y : d ∈ dom co → d ≠ o → x ∈ A d → y ∈ usucc co o x → y ≠ d → y ∈ A d.
  Proof.
    intros Hd Hne. unfold A. destruct (av !! d) as [X|] eqn:E; [|by rewrite av_lookup in E]. simpl.
    destruct (Hav d X E) as [?|[_ Hc]]; [done|]. intros Hx Hy Hyd.
    specialize (Hc x Hx). rewrite Forall_forall in Hc. destruct (Hc y Hy); done.
  Qed.
  Lemma A_least d (P : string → Prop) : d ∈ dom co → d ≠ o → P o →
    (∀ x y, x ∈ dom co → P x → y ∈ usucc co o x → y ≠ d → P y) → ∀ z, z ∈ A d → P z.
  Proof.
    intros Hd Hne Po Hcl z. unfold A. rewrite (av_lookup d Hd). simpl. unfold reach_avoid. rewrite bool_decide_eq_false_2 by done.
    intros Hz. cut (z ∈ dom co ∧ P z); [tauto|]. revert z Hz.
    apply (dfs_least _ (λ z, z ∈ dom co ∧ P z)).
    - intros x y [Hx HP] [Hyd Hy]%elem_of_list_filter. rewrite adj_lookup in Hy. rewrite decide_True in Hy by done.
      split; [by eapply usucc_dom|by eapply Hcl].
    - intros x ->%elem_of_singleton. done.
    - intros x ->%elem_of_list_singleton. by apply elem_of_singleton.
  Qed.
  Lemma A_dom d z : d ∈ dom co → z ∈ A d → z ∈ dom co.
  Proof.
    intros Hd. destruct (decide (d = o)) as [->|Hne]; [rewrite A_root; set_solver|].
    apply (A_least d (λ z, z ∈ dom co)); try done. intros x y Hx _ Hy _. by eapply usucc_dom.
  Qed.
  Lemma SD_elem n d : d ∈ SD n ↔ d ∈ dom co ∧ d ≠ n ∧ n ∉ A d.
  Proof.
    unfold SD, sdom. rewrite elem_of_dom. split.
    - intros [X HX]. apply map_filter_lookup_Some in HX as [HX [Hne Hn]]. simpl in *.
      assert (d ∈ dom co) as Hd. { pose proof HX as HX'. unfold av, avoid_table in HX'. rewrite map_lookup_imap in HX'.
        destruct (co !! d) eqn:Ed; [by eapply elem_of_dom_2|done]. }
      split; [done|]. split; [done|]. unfold A. by rewrite HX.
    - intros (Hd & Hne & Hn). unfold A in Hn. destruct (av !! d) as [X|] eqn:E; [|by rewrite av_lookup in E].
      exists X. apply map_filter_lookup_Some. done.
  Qed.
  Lemma sd_of n : n ∈ dom co → sdom_of sd n = SD n.
  Proof.
    intros Hn. unfold sdom_of, sd, sdom_table. rewrite map_lookup_imap. destruct (av !! n) eqn:E; [done|]. by rewrite av_lookup in E.
  Qed.

  (* ---- order facts ---- *)
  Lemma rank_le_o x : x ∈ dom co → rank x ≤ rank o.
  Proof. apply (C2 (λ x, rank x ≤ rank o)); [lia|]. intros y f Hy IH Hf. destruct (C1 y f Hy Hf). lia. Qed.
  (* every node of the cone lies in every set that contains the output and is closed under the search successors *)
  Lemma reach_all (P : string → Prop) : P o → (∀ x y, x ∈ dom co → P x → y ∈ usucc co o x → P y) → ∀ x, x ∈ dom co → P x.
  Proof.
    intros Po Hcl. cut (∀ x, x ∈ dom co → x ∈ dom co ∧ P x); [intros H x Hx; by apply H|].
    apply (C2 (λ x, x ∈ dom co ∧ P x)); [done|]. intros x f Hx [_ IH] Hf. split; [by apply (C1 x)|].
    apply (Hcl x f Hx IH). apply usucc_elem. by left.
  Qed.
  (* a node of smaller rank does not dominate *)
  Lemma rank_avoid x d : x ∈ dom co → d ∈ dom co → rank d < rank x → x ∈ A d.
  Proof.
    intros Hx. revert d. pattern x. revert x Hx. apply C2.
    - intros d Hd Hr. apply A_o; [done|]. intros ->. lia.
    - intros x f Hx IH Hf d Hd Hr. destruct (C1 x f Hx Hf) as [Hfd Hrf].
      assert (d ≠ o) as Hdo. { intros ->. pose proof (rank_le_o x Hx). lia. }
      apply (A_closed d x); try done; [apply IH; [done|lia]|apply usucc_elem; by left|]. intros ->. lia.
  Qed.
  Lemma fanin_not_dom n f : n ∈ dom co → f ∈ fanin co n → n ∈ A f.
  Proof. intros Hn Hf. destruct (C1 n f Hn Hf). by apply rank_avoid. Qed.
  Lemma fanout_not_dom n w : w ∈ dom co → n ∈ fanin co w → w ∈ A n.
  Proof. intros Hw Hn. destruct (C1 w n Hw Hn). by apply rank_avoid. Qed.

  (* dominance is monotone, transitive, antisymmetric *)
  Lemma dom_mono a b : a ∈ SD b → b ∈ dom co → A a ⊆ A b.
  Proof.
    intros (Ha & Hab & Hb)%SD_elem Hbd. destruct (decide (a = o)) as [->|Hao]; [rewrite A_root; set_solver|].
    assert (b ≠ o) as Hbo. { intros ->. apply Hb. by apply A_o. }
    intros z Hz. cut (z ∈ A a ∧ z ∈ A b); [tauto|]. revert z Hz. apply A_least; try done.
    - split; by apply A_o.
    - intros x y Hx [H1 H2] Hy Hya. assert (y ∈ A a) as Hy1 by (by eapply A_closed).
      split; [done|]. eapply A_closed; try done. intros ->. done.
  Qed.
  Lemma dom_trans a b c : a ∈ SD b → b ∈ SD c → c ∈ dom co → a = c ∨ a ∈ SD c.
  Proof.
    intros Hab Hbc Hc. destruct (decide (a = c)) as [|Hne]; [by left|right].
    pose proof Hbc as (Hb & _ & Hcb)%SD_elem. pose proof (dom_mono a b Hab Hb) as Hsub.
    pose proof Hab as (Ha & _ & _)%SD_elem. apply SD_elem. split; [done|]. split; [done|]. set_solver.
  Qed.
  Lemma dom_antisym a b : a ∈ SD b → b ∈ SD a → False.
  Proof.
    intros Hab Hba. pose proof Hab as (Ha & Hne & Hb)%SD_elem. pose proof Hba as (Hbd & _ & Ha')%SD_elem.
    destruct (decide (a = o)) as [->|Hao]. { apply Ha'. by apply A_o. }
    destruct (decide (b = o)) as [->|Hbo]. { apply Hb. by apply A_o. }
    pose proof (dom_mono a b Hab Hbd) as H1. pose proof (dom_mono b a Hba Ha) as H2.
    apply Hb. apply (reach_all (λ z, z ∈ A a)); [by apply A_o| |done].
    intros x y Hx Hxa Hy. destruct (decide (y = a)) as [->|Hya]; [|by eapply A_closed].
    apply H2. eapply (A_closed b x); try done. by apply H1.
  Qed.
  Lemma SD_irrefl n : n ∉ SD n.
  Proof. intros (_ & ? & _)%SD_elem. done. Qed.
  Lemma SD_dom n d : d ∈ SD n → d ∈ dom co.
  Proof. by intros (? & _)%SD_elem. Qed.

  (* ---- adjacent nodes: the operand's strict dominators are those of the gate, possibly plus the gate ---- *)
  Lemma adj_sub n f d : n ∈ dom co → n ≠ o → f ∈ fanin co n → d ∈ SD n → d ∈ SD f.
  Proof.
    intros Hn Hno Hf (Hd & Hdn & Hnd)%SD_elem. destruct (C1 n f Hn Hf) as [Hfd Hr]. apply SD_elem. split; [done|].
    split. { intros ->. apply Hnd. by apply fanin_not_dom. }
    intros Hfa. apply Hnd. destruct (decide (d = o)) as [->|Hdo]; [rewrite A_root in Hfa; set_solver|].
    eapply (A_closed d f); try done. apply usucc_elem. right. split; [|done].
    apply elem_of_fanout. apply elem_of_dom in Hn as [i Hi]. exists i. split; [done|]. unfold fanin in Hf. by rewrite Hi in Hf.
  Qed.
  Lemma adj_sup n f d : n ∈ dom co → f ∈ fanin co n → d ∈ SD f → d ≠ n → d ∈ SD n.
  Proof.
    intros Hn Hf (Hd & Hdf & Hfd)%SD_elem Hdn. apply SD_elem. split; [done|]. split; [done|].
    intros Hna. apply Hfd. destruct (decide (d = o)) as [->|Hdo]; [rewrite A_root in Hna; set_solver|].
    eapply (A_closed d n); try done. apply usucc_elem. by left.
  Qed.
  Lemma root_fanin f : f ∈ fanin co o → SD f = {[o]}.
  Proof.
    intros Hf. destruct (C1 o f C3 Hf) as [Hfd Hr]. apply set_eq. intros d. rewrite elem_of_singleton. split.
    - intros (Hd & Hdf & Hfa)%SD_elem. destruct (decide (d = o)) as [|Hdo]; [done|]. exfalso. apply Hfa.
      eapply (A_closed d o); try done; [by apply A_o|apply usucc_elem; by left].
    - intros ->. apply SD_elem. split; [done|]. split; [intros ->; lia|]. rewrite A_root. set_solver.
  Qed.

  (* ---- immediate dominators ---- *)
  Lemma ID_Some n d : n ∈ dom co → ID n = Some d → d ∈ SD n ∧ ∀ e, e ∈ SD n → e = d ∨ e ∈ SD d.
  Proof.
    intros Hn. unfold ID, idom. rewrite (sd_of n Hn). intros ([k d'] & Hfind & Heq)%fmap_Some. simpl in Heq. subst d'.
    apply list_find_Some in Hfind as (Hk & HP & _). apply bool_decide_unpack in HP.
    assert (d ∈ SD n) as Hd by (apply elem_of_elements; by eapply elem_of_list_lookup_2). split; [done|].
    intros e He. specialize (HP e He). rewrite (sd_of d) in HP by (by eapply SD_dom). done.
  Qed.
  Lemma ID_intro n d : n ∈ dom co → d ∈ SD n → (∀ e, e ∈ SD n → e = d ∨ e ∈ SD d) → ID n = Some d.
  Proof.
    intros Hn Hd HP. unfold ID, idom. rewrite (sd_of n Hn).
    destruct (list_find _ (elements (SD n))) as [[k d']|] eqn:Hfind; simpl.
    - apply list_find_Some in Hfind as (Hk & HP' & _). apply bool_decide_unpack in HP'.
      assert (d' ∈ SD n) as Hd' by (apply elem_of_elements; by eapply elem_of_list_lookup_2).
      f_equal. destruct (HP d' Hd') as [|H1]; [done|]. specialize (HP' d Hd). rewrite (sd_of d') in HP' by (by eapply SD_dom).
      destruct HP' as [|H2]; [done|]. exfalso. by eapply dom_antisym.
    - exfalso. eapply list_find_None in Hfind. rewrite Forall_forall in Hfind. apply (Hfind d); [by apply elem_of_elements|].
      apply bool_decide_pack. intros e He. rewrite (sd_of d) by (by eapply SD_dom). by apply HP.
  Qed.
  Lemma ID_unique_parent n d d' : ID n = Some d → ID n = Some d' → d = d'.
  Proof. congruence. Qed.
  (* an operand of a gate is a tree child of the gate or a tree sibling *)
  Lemma operand_child n f : n ∈ dom co → n ≠ o → f ∈ fanin co n → n ∈ SD f → ID f = Some n.
  Proof.
    intros Hn Hno Hf Hd. destruct (C1 n f Hn Hf) as [Hfd _]. apply ID_intro; try done.
    intros e He. destruct (decide (e = n)) as [|Hen]; [by left|right]. by eapply adj_sup.
  Qed.
  Lemma operand_sibling n f : n ∈ dom co → n ≠ o → f ∈ fanin co n → n ∉ SD f → ID f = ID n.
  Proof.
    intros Hn Hno Hf Hd. destruct (C1 n f Hn Hf) as [Hfd _]. unfold ID, idom. rewrite (sd_of n Hn), (sd_of f Hfd).
    assert (SD f = SD n) as E; [|by rewrite E]. apply set_eq. intros d. split.
    - intros Hdf. eapply adj_sup; try done. intros ->. done.
    - by eapply adj_sub.
  Qed.
  Lemma root_operand_child f : f ∈ fanin co o → ID f = Some o.
  Proof.
    intros Hf. destruct (C1 o f C3 Hf) as [Hfd _]. pose proof (root_fanin f Hf) as E.
    apply ID_intro; [done|rewrite E; set_solver|]. intros e He. rewrite E in He. left. set_solver.
  Qed.
  Lemma child_deeper c p : c ∈ dom co → ID c = Some p → size (SD p) < size (SD c).
  Proof.
    intros Hc Hid. destruct (ID_Some c p Hc Hid) as [Hp _].
    assert (SD p ∪ {[p]} ⊆ SD c) as Hsub.
    { intros e [He|He]%elem_of_union; [|apply elem_of_singleton in He; by subst e].
      destruct (dom_trans e p c He Hp Hc) as [Heq|]; [|done]. subst e. exfalso. by eapply dom_antisym. }
    apply subseteq_size in Hsub. rewrite size_union in Hsub by (pose proof (SD_irrefl p); set_solver). rewrite size_singleton in Hsub. lia.
  Qed.

  (* ---- with at most two operands: a gate one of whose operands it does not dominate has at most one tree child ---- *)
  Lemma le1_eq (X : gset string) x y : size X ≤ 1 → x ∈ X → y ∈ X → x = y.
  Proof.
    intros Hs Hx Hy. destruct (decide (x = y)) as [|Hne]; [done|]. exfalso.
    assert ({[x]} ∪ {[y]} ⊆ X) as Hsub by set_solver. apply subseteq_size in Hsub.
    rewrite size_union, !size_singleton in Hsub by set_solver. lia.
  Qed.
  Lemma one_child n t c c' : n ∈ dom co → n ≠ o → size (fanin co n) ≤ 2 → t ∈ fanin co n → n ∉ SD t →
    c ∈ dom co → c' ∈ dom co → ID c = Some n → ID c' = Some n → c = c'.
  Proof.
    intros Hn Hno Hsz Ht Hnt Hc Hc' Hid Hid'.
    assert (size (fanin co n ∖ {[t]}) ≤ 1) as Hsz1.
    { assert (fanin co n = {[t]} ∪ fanin co n ∖ {[t]}) as E by (apply union_difference_L; set_solver).
      rewrite E, size_union, size_singleton in Hsz by set_solver. lia. }
    assert (t ∈ A n) as HtA.
    { destruct (C1 n t Hn Ht) as [Htd Hr]. destruct (decide (t ∈ A n)) as [|Hna]; [done|]. exfalso. apply Hnt. apply SD_elem.
      split; [done|]. split; [intros ->; lia|done]. }
    (* every tree child of n equals the dominated operand t1, if there is one; there is none otherwise *)
    assert (∀ t1, t1 ∈ fanin co n → n ∈ SD t1 → ∀ c, c ∈ dom co → ID c = Some n → c = t1) as Hone.
    { intros t1 Ht1 Hd1 c0 Hc0 Hid0. destruct (C1 n t1 Hn Ht1) as [Ht1d Hr1].
      assert (t1 ≠ o) as Ht1o. { intros ->. pose proof (rank_le_o n Hn). lia. }
      destruct (decide (c0 = t1)) as [|Hne]; [done|]. exfalso.
      destruct (ID_Some c0 n Hc0 Hid0) as [Hnc HP].
      assert (t1 ∈ SD c0) as Ht1c.
      { apply SD_elem. split; [done|]. split; [done|]. intros Hc0A.
        assert (c0 ∈ A n ∨ c0 = n) as [Hin| ->].
        { clear Hc0 Hid0 Hne Hnc HP. revert c0 Hc0A. apply A_least; try done.
          - left. by apply A_o.
          - intros x y Hx [HxA| ->] Hy Hyt.
            + destruct (decide (y = n)) as [|Hyn]; [by right|left]. by eapply A_closed.
            + left. apply usucc_elem in Hy as [Hy|[Hy _]].
              * destruct (decide (y = t)) as [->|Hyt']; [done|]. exfalso. apply Hyt.
                apply (le1_eq (fanin co n ∖ {[t]})); [done|set_solver|]. apply elem_of_difference. split; [done|].
                intros ->%elem_of_singleton. apply Hnt. done.
              * apply elem_of_fanout in Hy as (i & Hi & Hni). apply fanout_not_dom; [by apply elem_of_dom|].
                unfold fanin. by rewrite Hi. }
        - apply SD_elem in Hnc as (_ & _ & Hnc). done.
        - by apply SD_irrefl in Hnc. }
      destruct (HP t1 Ht1c) as [->|Ht1n]; [by apply SD_irrefl in Hd1|].
      apply SD_elem in Ht1n as (_ & _ & Hbad). apply Hbad. by apply fanin_not_dom. }
    destruct (decide (set_Exists (λ t1, n ∈ SD t1) (fanin co n))) as [(t1 & Ht1 & Hd1)|Hnone].
    - rewrite (Hone t1 Ht1 Hd1 c Hc Hid), (Hone t1 Ht1 Hd1 c' Hc' Hid'). done.
    - exfalso. destruct (ID_Some c n Hc Hid) as [Hnc _]. pose proof Hnc as (_ & Hnec & HcA)%SD_elem.
      assert (c ∈ A n ∨ c = n) as [?| ->]; [|done|done].
      clear Hid Hnc Hnec HcA. revert c Hc. apply reach_all.
      + left. by apply A_o.
      + intros x y Hx [HxA| ->] Hy.
        * destruct (decide (y = n)) as [|Hyn]; [by right|left]. by eapply A_closed.
        * left. apply usucc_elem in Hy as [Hy|[Hy _]].
          -- destruct (C1 n y Hn Hy) as [Hyd Hr]. destruct (decide (y ∈ A n)) as [|Hna]; [done|]. exfalso. apply Hnone.
             exists y. split; [done|]. apply SD_elem. split; [done|]. split; [intros ->; lia|done].
          -- apply elem_of_fanout in Hy as (i & Hi & Hni). apply fanout_not_dom; [by apply elem_of_dom|].
             unfold fanin. by rewrite Hi.
  Qed.

  (* ---- the children table ---- *)
  Let kids := kids_of co o sd.
  Let K (p : string) : list string := adj_of kids p.
  Lemma kids_elem p c : c ∈ K p ↔ p ∈ dom co ∧ c ∈ dom co ∧ c ≠ o ∧ ID c = Some p.
  Proof.
    unfold K, adj_of, kids, kids_of. rewrite map_lookup_imap. destruct (co !! p) as [i|] eqn:Ep; simpl.
    - rewrite elem_of_list_fmap. split.
      + intros ([c' d] & -> & [Hd Hin]%elem_of_list_filter). simpl in *. subst d.
        apply elem_of_list_omap in Hin as (n & Hn & Hq). apply fmap_Some in Hq as (d & Hid & [= <- <-]).
        apply elem_of_elements, elem_of_difference in Hn as [Hn Hno]. split; [by eapply elem_of_dom_2|]. split; [done|].
        split; [set_solver|done].
      + intros (_ & Hc & Hco & Hid). exists (c, p). split; [done|]. apply elem_of_list_filter. split; [done|].
        apply elem_of_list_omap. exists c. split; [apply elem_of_elements; set_solver|]. fold sd. unfold ID in Hid. by rewrite Hid.
    - split; [by intros ?%elem_of_nil|]. intros (Hp & _). apply not_elem_of_dom in Ep. done.
  Qed.
  Lemma omap_fst_nodup (g : string → option string) l : NoDup l → NoDup (omap (λ n, (λ d, (n, d)) <$> g n) l).*1.
  Proof.
    induction 1 as [|x l Hx Hnd IH]; simpl; [constructor|]. destruct (g x) as [d|]; simpl; [|done]. constructor; [|done].
    intros ([x' d'] & Heq & Hin)%elem_of_list_fmap. simpl in Heq. subst x'.
    apply elem_of_list_omap in Hin as (n & Hn & Hq). apply fmap_Some in Hq as (? & _ & [= -> _]). done.
  Qed.
  Lemma filter_fst_nodup (P : string * string → Prop) `{∀ q, Decision (P q)} (l : list (string * string)) :
    NoDup l.*1 → NoDup (filter P l).*1.
  Proof.
    induction l as [|q l IH]; simpl; [done|]. intros [Hq Hnd]%NoDup_cons. rewrite filter_cons. destruct (decide (P q)); simpl; [|by apply IH].
    constructor; [|by apply IH]. intros (q' & Heq & [_ Hin]%elem_of_list_filter)%elem_of_list_fmap. apply Hq. apply elem_of_list_fmap. eauto.
  Qed.
  Lemma kids_nodup p : NoDup (K p).
  Proof.
    unfold K, adj_of, kids, kids_of. rewrite map_lookup_imap. destruct (co !! p) as [i|]; simpl; [|constructor].
    apply filter_fst_nodup, omap_fst_nodup, NoDup_elements.
  Qed.
  Lemma kids_two p : 1 < length (K p) → ∃ c c', c ≠ c' ∧ c ∈ K p ∧ c' ∈ K p.
  Proof.
    pose proof (kids_nodup p) as Hnd. destruct (K p) as [|c [|c' l]]; simpl; [lia|lia|]. intros _.
    exists c, c'. apply NoDup_cons in Hnd as [Hc _]. split; [set_solver|]. split; [by left|right; by left].
  Qed.

  (* ---- the growth loop: a grown node set is closed under fan-in except at its inputs ----
     if one operand of a member lies in the set, all its operands do (at most two operands per gate) *)
  Lemma grown_closed r S n f0 f : grow_ok o sd kids (r, S) → n ∈ S → size (fanin co n) ≤ 2 →
    f0 ∈ fanin co n → f0 ∈ S → f ∈ fanin co n → f ∈ S.
  Proof.
    intros (Hr & Hroot & Hkids & Hroute) Hn Hsz Hf0 Hf0S Hf. simpl in *. fold K in Hroot, Hkids, Hroute.
    assert (∀ x, absorbs kids x ↔ length (K x) = 1) as Habs.
    { intros x. unfold absorbs, sg_split_above, sg_absorb_at. fold (K x). lia. }
    unfold sg_split_above in Hroot.
    assert (r ∈ dom co) as Hrd.
    { destruct Hroot as [->|Hl]; [done|]. destruct (kids_two r Hl) as (c & _ & _ & Hc & _). by apply kids_elem in Hc as (? & _). }
    assert (∀ x, x ∈ S → x ∈ dom co) as HSd.
    { intros x Hx. destruct (Hroute x Hx) as [->|[_ (q & _ & Hq & _)]]; [done|]. by apply kids_elem in Hq as (_ & ? & _). }
    pose proof (HSd n Hn) as Hnd.
    destruct (decide (f ∈ S)) as [|HfS]; [done|]. exfalso.
    assert (∀ x q, x ∈ S → x ∈ K q → q ∈ S → (q = r ∨ K q = [x]) ∨ True) as _ by auto.
    destruct (decide (n = o)) as [->|Hno].
    { (* the output is a member only as the root; its operands are its children *)
      assert (o = r) as <-.
      { destruct (Hroute o Hn) as [|[_ (q & _ & Hq & _)]]; [done|]. apply kids_elem in Hq as (_ & _ & ? & _). done. }
      apply HfS. specialize (Hkids o Hr (or_introl eq_refl)). rewrite Forall_forall in Hkids. apply Hkids.
      apply kids_elem. destruct (C1 o f C3 Hf) as [Hfd Hrk]. split; [done|]. split; [done|]. split; [intros ->; lia|].
      by apply root_operand_child. }
    destruct (C1 n f Hnd Hf) as [Hfd Hrk]. assert (f ≠ o) as Hfo. { intros ->. pose proof (rank_le_o n Hnd). lia. }
    destruct (decide (n ∈ SD f)) as [Hdom|Hndom].
    - (* f is a tree child of n that was not absorbed: n has at least two children, so it dominates all its operands *)
      pose proof (operand_child n f Hnd Hno Hf Hdom) as Hidf.
      assert (f ∈ K n) as HfK by (apply kids_elem; done).
      assert (n ≠ r) as Hnr. { intros ->. specialize (Hkids r Hr (or_introl eq_refl)). rewrite Forall_forall in Hkids. by apply HfS, Hkids. }
      assert (n ∈ SD f0) as Hdom0.
      { destruct (decide (n ∈ SD f0)) as [|Hnd0]; [done|]. exfalso.
        (* an operand that n does not dominate: n has at most one child, which is then absorbed *)
        assert (length (K n) = 1) as Hl1.
        { pose proof (kids_nodup n) as Hnodup. destruct (K n) as [|c [|c' l]] eqn:EK; simpl; [by apply elem_of_nil in HfK|done|]. exfalso.
          apply NoDup_cons in Hnodup as [Hc _]. apply Hc.
          assert (c ∈ K n) as Hc1 by (rewrite EK; by left). assert (c' ∈ K n) as Hc2 by (rewrite EK; right; by left).
          apply kids_elem in Hc1 as (_ & ? & _ & ?). apply kids_elem in Hc2 as (_ & ? & _ & ?).
          rewrite (one_child n f0 c c'); try done. by left. }
        apply HfS. specialize (Hkids n Hn (or_intror (proj2 (Habs n) Hl1))). rewrite Forall_forall in Hkids. by apply Hkids. }
      pose proof (operand_child n f0 Hnd Hno Hf0 Hdom0) as Hid0.
      destruct (Hroute f0 Hf0S) as [->|[_ (q & HqS & Hq & Hqr)]].
      + (* the root would hang below a member: depth contradiction *)
        destruct (Hroute n Hn) as [|[Hdepth _]]; [done|].
        rewrite (sd_of r Hrd), (sd_of n Hnd) in Hdepth. pose proof (child_deeper r n Hrd Hid0). lia.
      + apply kids_elem in Hq as (_ & _ & _ & Hidq). assert (q = n) as -> by congruence.
        destruct Hqr as [|HK]; [done|]. unfold K in HfK. rewrite HK in HfK. apply elem_of_list_singleton in HfK. subst f. done.
    - (* f is a tree sibling of n *)
      pose proof (operand_sibling n f Hnd Hno Hf Hndom) as Hsib.
      destruct (Hroute n Hn) as [->|[_ (q & HqS & Hq & Hqr)]].
      + (* n is a root other than the output: it has two children although it does not dominate f *)
        destruct Hroot as [|Hl]; [done|]. destruct (kids_two r Hl) as (c & c' & Hne & Hc & Hc').
        apply kids_elem in Hc as (_ & ? & _ & ?). apply kids_elem in Hc' as (_ & ? & _ & ?).
        apply Hne. by apply (one_child r f c c').
      + pose proof Hq as (Hqd & _ & _ & Hidn)%kids_elem.
        assert (f ∈ K q) as HfK. { apply kids_elem. split; [done|]. split; [done|]. split; [done|]. by rewrite Hsib. }
        destruct Hqr as [->|HK].
        * apply HfS. specialize (Hkids r Hr (or_introl eq_refl)). rewrite Forall_forall in Hkids. by apply Hkids.
        * unfold K in HfK. rewrite HK in HfK. apply elem_of_list_singleton in HfK. subst f. lia.
  Qed.

  (* ---- existence of the immediate dominator: the strict dominators of a node form a chain ---- *)
  Lemma SD_linear n d e : n ∈ dom co → d ∈ SD n → e ∈ SD n → d = e ∨ d ∈ SD e ∨ e ∈ SD d.
  Proof.
    intros Hn Hd He. destruct (decide (d = e)) as [|Hne]; [by left|right].
    pose proof Hd as (Hdd & Hdn & HnA)%SD_elem. pose proof He as (Hed & Hen & HnB)%SD_elem.
    destruct (decide (e ∈ A d)) as [HeA|HeA]; [|left; apply SD_elem; done].
    destruct (decide (d ∈ A e)) as [HdA|HdA]; [|right; apply SD_elem; split; [done|]; split; [congruence|done]]. exfalso.
    assert (d ≠ o) as Hdo. { intros ->. rewrite A_root in HeA. set_solver. }
    assert (e ≠ o) as Heo. { intros ->. rewrite A_root in HdA. set_solver. }
    assert (n ∈ A d ∨ n ∈ A e) as [?|?]; [|done|done]. clear Hd He Hdn Hen HnA HnB. revert n Hn. apply reach_all.
    - left. by apply A_o.
    - intros x y Hx [HxA|HxA] Hy.
      + destruct (decide (y = d)) as [->|Hyd]; [by right|left]. by eapply A_closed.
      + destruct (decide (y = e)) as [->|Hye]; [by left|right]. by eapply A_closed.
  Qed.
  Lemma max_by (f : string → nat) (l : list string) : l ≠ [] → ∃ d, d ∈ l ∧ ∀ e, e ∈ l → f e ≤ f d.
  Proof.
    induction l as [|x l IH]; [done|]. intros _. destruct l as [|y l].
    - exists x. split; [by left|]. intros e ->%elem_of_list_singleton. done.
    - destruct IH as (d & Hd & Hmax); [done|]. destruct (decide (f d ≤ f x)).
      + exists x. split; [by left|]. intros e [->|He]%elem_of_cons; [done|]. specialize (Hmax e He). lia.
      + exists d. split; [by right|]. intros e [->|He]%elem_of_cons; [lia|by apply Hmax].
  Qed.
  Lemma ID_exists n : n ∈ dom co → n ≠ o → ∃ p, ID n = Some p.
  Proof.
    intros Hn Hno.
    assert (o ∈ SD n) as Ho. { apply SD_elem. split; [done|]. split; [done|]. rewrite A_root. set_solver. }
    destruct (max_by (λ d, size (SD d)) (elements (SD n))) as (d & Hd%elem_of_elements & Hmax).
    { intros E. apply elem_of_elements in Ho. rewrite E in Ho. by apply elem_of_nil in Ho. }
    exists d. apply ID_intro; try done. intros e He.
    destruct (SD_linear n e d Hn He Hd) as [|[|Hde]]; [by left|by right|]. exfalso.
    assert (e ∈ dom co) as Hed by (by eapply SD_dom).
    assert (SD d ∪ {[d]} ⊆ SD e) as Hsub.
    { intros x [Hx|Hx]%elem_of_union; [|apply elem_of_singleton in Hx; by subst x].
      destruct (dom_trans x d e Hx Hde Hed) as [Heq|]; [|done]. subst x. exfalso. by eapply dom_antisym. }
    apply subseteq_size in Hsub. rewrite size_union in Hsub by (pose proof (SD_irrefl d); set_solver). rewrite size_singleton in Hsub.
    specialize (Hmax e (proj2 (elem_of_elements _ _) He)). simpl in Hmax. lia.
  Qed.
  (* a node with a tree child dominates one of its operands *)
  Lemma child_needs_operand n c : n ∈ dom co → n ≠ o → c ∈ dom co → ID c = Some n → ∃ t1, t1 ∈ fanin co n ∧ n ∈ SD t1.
  Proof.
    intros Hn Hno Hc Hid.
    destruct (decide (set_Exists (λ t1, n ∈ SD t1) (fanin co n))) as [(t1 & Ht1 & Hd1)|Hnone]; [eauto|]. exfalso.
    destruct (ID_Some c n Hc Hid) as [Hnc _]. pose proof Hnc as (_ & Hnec & HcA)%SD_elem.
    assert (c ∈ A n ∨ c = n) as [?| ->]; [|done|done].
    clear Hid Hnc Hnec HcA. revert c Hc. apply reach_all.
    - left. by apply A_o.
    - intros x y Hx [HxA| ->] Hy.
      + destruct (decide (y = n)) as [|Hyn]; [by right|left]. by eapply A_closed.
      + left. apply usucc_elem in Hy as [Hy|[Hy _]].
        * destruct (C1 n y Hn Hy) as [Hyd Hr]. destruct (decide (y ∈ A n)) as [|Hna]; [done|]. exfalso. apply Hnone.
          exists y. split; [done|]. apply SD_elem. split; [done|]. split; [intros ->; lia|done].
        * apply elem_of_fanout in Hy as (i & Hi & Hni). apply fanout_not_dom; [by apply elem_of_dom|].
          unfold fanin. by rewrite Hi.
  Qed.
  (* a node with two tree children (at most two operands): every operand is a tree child, and there is one *)
  Lemma two_children_operands n : n ∈ dom co → n ≠ o → size (fanin co n) ≤ 2 → 1 < length (K n) →
    (∃ t, t ∈ fanin co n) ∧ ∀ t, t ∈ fanin co n → ID t = Some n.
  Proof.
    intros Hn Hno Hsz Hl. destruct (kids_two n Hl) as (c & c' & Hne & Hc & Hc').
    apply kids_elem in Hc as (_ & Hcd & _ & Hidc). apply kids_elem in Hc' as (_ & Hcd' & _ & Hidc'). split.
    - destruct (child_needs_operand n c Hn Hno Hcd Hidc) as (t1 & ? & _). eauto.
    - intros t Ht. apply operand_child; try done. destruct (decide (n ∈ SD t)) as [|Hnd]; [done|]. exfalso.
      apply Hne. by apply (one_child n t c c').
  Qed.

  (* ---- independence: an input of a grown set that has two tree children is a strict dominator of no member ---- *)
  Lemma dom_deeper d n : n ∈ dom co → d ∈ SD n → size (SD d) < size (SD n).
  Proof.
    intros Hn Hd. assert (SD d ∪ {[d]} ⊆ SD n) as Hsub.
    { intros x [Hx|Hx]%elem_of_union; [|apply elem_of_singleton in Hx; by subst x].
      destruct (dom_trans x d n Hx Hd Hn) as [Heq|]; [|done]. subst x. exfalso. by eapply dom_antisym. }
    apply subseteq_size in Hsub. rewrite size_union in Hsub by (pose proof (SD_irrefl d); set_solver). rewrite size_singleton in Hsub. lia.
  Qed.
  Lemma grow_root_dom r S : grow_ok o sd kids (r, S) → r ∈ dom co.
  Proof.
    intros (_ & Hroot & _). simpl in Hroot. destruct Hroot as [->|Hl]; [done|]. unfold sg_split_above in Hl.
    destruct (kids_two r Hl) as (c & _ & _ & Hc & _). by apply kids_elem in Hc as (? & _).
  Qed.
  Lemma grow_member_dom r S x : grow_ok o sd kids (r, S) → x ∈ S → x ∈ dom co.
  Proof.
    intros Hg Hx. pose proof (grow_root_dom r S Hg) as Hrd. destruct Hg as (_ & _ & _ & Hroute). simpl in Hroute.
    destruct (Hroute x Hx) as [->|[_ (q & _ & Hq & _)]]; [done|]. by apply kids_elem in Hq as (_ & ? & _).
  Qed.
  Lemma strict_inside r S : grow_ok o sd kids (r, S) →
    ∀ k b, size (SD b) = k → b ∈ S → ∀ a, a ∈ S → a ≠ r → a ∈ SD b → length (K a) = 1.
  Proof.
    intros Hg. pose proof (grow_root_dom r S Hg) as Hrd. pose proof Hg as (_ & _ & _ & Hroute). simpl in Hroute.
    intros k. induction (lt_wf k) as [k _ IH]. intros b Hk Hb a Ha Har Hab.
    pose proof (grow_member_dom r S b Hg Hb) as Hbd. pose proof (grow_member_dom r S a Hg Ha) as Had.
    destruct (Hroute b Hb) as [->|[_ (q & HqS & Hq & Hqr)]].
    - exfalso. destruct (Hroute a Ha) as [|[Hdepth _]]; [done|]. rewrite (sd_of r Hrd), (sd_of a Had) in Hdepth.
      pose proof (dom_deeper a r Hrd Hab). lia.
    - pose proof Hq as (Hqd & _ & _ & Hid)%kids_elem. destruct (ID_Some b q Hbd Hid) as [_ HP].
      destruct (HP a Hab) as [->|Haq].
      + destruct Hqr as [|HK]; [done|]. unfold K. by rewrite HK.
      + pose proof (child_deeper b q Hbd Hid). eapply (IH (size (SD q))); try done. lia.
  Qed.
  (* a member that is the root, or has at most one tree child, has an operand inside (if it has operands at all) *)
  Lemma member_operand_inside r S a f : grow_ok o sd kids (r, S) → a ∈ S → size (fanin co a) ≤ 2 → f ∈ fanin co a →
    (a = r ∨ ¬ 1 < length (K a)) → ∃ f', f' ∈ fanin co a ∧ f' ∈ S.
  Proof.
    intros Hg Ha Hsz Hf Hcase. pose proof (grow_member_dom r S a Hg Ha) as Had.
    pose proof Hg as (Hr & Hroot & Hkids & Hroute). simpl in *. fold K in Hroot. unfold sg_split_above in Hroot.
    destruct (C1 a f Had Hf) as [Hfd Hrk].
    assert (∀ x, absorbs kids x ↔ length (K x) = 1) as Habs.
    { intros x. unfold absorbs, sg_split_above, sg_absorb_at. fold (K x). lia. }
    destruct (decide (a = o)) as [->|Hao].
    { assert (o = r) as <-. { destruct (Hroute o Ha) as [|[_ (q & _ & Hq & _)]]; [done|]. apply kids_elem in Hq as (_ & _ & ? & _). done. }
      exists f. split; [done|]. specialize (Hkids o Hr (or_introl eq_refl)). rewrite Forall_forall in Hkids. apply Hkids.
      apply kids_elem. split; [done|]. split; [done|]. split; [intros ->; lia|]. by apply root_operand_child. }
    assert (f ≠ o) as Hfo. { intros ->. pose proof (rank_le_o a Had). lia. }
    destruct (decide (a = r)) as [->|Har].
    { destruct Hroot as [|Hl]; [done|]. destruct (two_children_operands r Had Hao Hsz Hl) as [_ Hall].
      exists f. split; [done|]. specialize (Hkids r Hr (or_introl eq_refl)). rewrite Forall_forall in Hkids. apply Hkids.
      apply kids_elem. split; [done|]. split; [done|]. split; [done|]. by apply Hall. }
    destruct Hcase as [|Hl2]; [done|]. exists f. split; [done|].
    destruct (Hroute a Ha) as [|[_ (q & HqS & Hq & Hqr)]]; [done|].
    destruct (decide (a ∈ SD f)) as [Hdom|Hndom].
    - assert (f ∈ K a) as HfK by (apply kids_elem; split; [done|]; split; [done|]; split; [done|]; by apply operand_child).
      assert (length (K a) = 1) as Hl1. { destruct (K a) as [|? [|? ?]]; simpl in *; [by apply elem_of_nil in HfK|done|lia]. }
      specialize (Hkids a Ha (or_intror (proj2 (Habs a) Hl1))). rewrite Forall_forall in Hkids. by apply Hkids.
    - pose proof (operand_sibling a f Had Hao Hf Hndom) as Hsib. pose proof Hq as (Hqd & _ & _ & Hidn)%kids_elem.
      assert (f ∈ K q) as HfK. { apply kids_elem. split; [done|]. split; [done|]. split; [done|]. by rewrite Hsib. }
      destruct Hqr as [->|HK].
      + specialize (Hkids r Hr (or_introl eq_refl)). rewrite Forall_forall in Hkids. by apply Hkids.
      + unfold K in HfK. rewrite HK in HfK. apply elem_of_list_singleton in HfK. subst f. lia.
  Qed.
  (* a frontier input dominates everything upstream of it *)
  Lemma frontier_dominates a f : a ∈ dom co → a ≠ o → size (fanin co a) ≤ 2 → 1 < length (K a) → f ∈ fanin co a → a ∈ SD f.
  Proof.
    intros Ha Hao Hsz Hl Hf. destruct (two_children_operands a Ha Hao Hsz Hl) as [_ Hall]. destruct (C1 a f Ha Hf) as [Hfd _].
    by destruct (ID_Some f a Hfd (Hall f Hf)).
  Qed.
  (* x is "above" an input a of the grown set: it is a, or a is a frontier input that strictly dominates x *)
  Definition above (r : string) (a x : string) : Prop := x = a ∨ (a ≠ r ∧ 1 < length (K a) ∧ x ∈ dom co ∧ a ∈ SD x).
  Lemma indep_core r S a b x : grow_ok o sd kids (r, S) → a ∈ S → b ∈ S → a ≠ b → above r a x → above r b x → False.
  Proof.
    intros Hg Ha Hb Hab [->|(Har & Hla & Hx & Hax)] [Hxb|(Hbr & Hlb & _ & Hbx)].
    - done.
    - pose proof (strict_inside r S Hg _ a eq_refl Ha b Hb Hbr Hbx). lia.
    - subst x. pose proof (strict_inside r S Hg _ b eq_refl Hb a Ha Har Hax). lia.
    - destruct (SD_linear x a b Hx Hax Hbx) as [|[Hd|Hd]]; [done| |].
      + pose proof (strict_inside r S Hg _ b eq_refl Hb a Ha Har Hd). lia.
      + pose proof (strict_inside r S Hg _ a eq_refl Ha b Hb Hbr Hd). lia.
  Qed.

  (* ---- the traversal reaches every node of the cone ---- *)
  Section traversal.
    Context (gs : list (string * gset string)).
    Hypothesis Hgrow : Forall (grow_ok o sd kids) gs.
    Hypothesis Hfront : frontier_ok kids gs.
    Hypothesis Hhead : ∃ S0, (o, S0) ∈ gs.

    Lemma root_lookup r : r ∈ gs.*1 → ∃ S, (r, S) ∈ gs.
    Proof. intros ([r' S] & -> & Hin)%elem_of_list_fmap. eauto. Qed.
    Lemma covered_aux : ∀ k n, size (SD n) = k → n ∈ dom co → ∃ r S, (r, S) ∈ gs ∧ n ∈ S.
    Proof.
      intros k. induction (lt_wf k) as [k _ IH]. intros n Hk Hn.
      destruct (decide (n = o)) as [->|Hno].
      { destruct Hhead as [S0 H0]. exists o, S0. split; [done|]. rewrite Forall_forall in Hgrow. by destruct (Hgrow _ H0) as (? & _). }
      destruct (ID_exists n Hn Hno) as [p Hid]. destruct (ID_Some n p Hn Hid) as [Hp _]. pose proof (SD_dom _ _ Hp) as Hpd.
      pose proof (child_deeper n p Hn Hid) as Hdeep.
      destruct (IH (size (SD p)) ltac:(lia) p eq_refl Hpd) as (r & S & Hin & HpS).
      assert (n ∈ K p) as HnK by (apply kids_elem; done).
      pose proof Hgrow as Hg. rewrite Forall_forall in Hg. destruct (Hg _ Hin) as (_ & _ & Hkids & _). simpl in Hkids.
      destruct (decide (p = r)) as [->|Hpr].
      { exists r, S. split; [done|]. specialize (Hkids r HpS (or_introl eq_refl)). rewrite Forall_forall in Hkids. by apply Hkids. }
      destruct (decide (length (K p) = 1)) as [Hl1|Hl1].
      { exists r, S. split; [done|]. assert (absorbs kids p) as Habs by (unfold absorbs, sg_split_above, sg_absorb_at; fold (K p); lia).
        specialize (Hkids p HpS (or_intror Habs)). rewrite Forall_forall in Hkids. by apply Hkids. }
      (* p has at least two children: it is the root of its own grown set *)
      destruct Hfront as [_ Hfr]. rewrite Forall_forall in Hfr. specialize (Hfr _ Hin p HpS). simpl in Hfr.
      assert (1 < length (K p)) as Hl2. { destruct (K p) as [|? [|? ?]]; simpl in *; [by apply elem_of_nil in HnK|done|lia]. }
      destruct Hfr as [|[Hnot|Hroot]]; [done|unfold sg_split_above in Hnot; fold (K p) in Hnot; lia|].
      destruct (root_lookup p Hroot) as [S' Hin']. exists p, S'. split; [done|].
      destruct (Hg _ Hin') as (Hr' & _ & Hkids' & _). simpl in *. specialize (Hkids' p Hr' (or_introl eq_refl)).
      rewrite Forall_forall in Hkids'. by apply Hkids'.
    Qed.
    Lemma covered n : n ∈ dom co → ∃ r S, (r, S) ∈ gs ∧ n ∈ S.
    Proof. intros Hn. by eapply covered_aux. Qed.

    (* a node with an operand lies, together with an operand, in some grown set *)
    Lemma gate_covered n f : n ∈ dom co → size (fanin co n) ≤ 2 → f ∈ fanin co n →
      ∃ r S f', (r, S) ∈ gs ∧ n ∈ S ∧ f' ∈ fanin co n ∧ f' ∈ S.
    Proof.
      intros Hn Hsz Hf. pose proof Hgrow as Hg. rewrite Forall_forall in Hg.
      destruct (covered n Hn) as (r & S & Hin & HnS). destruct (Hg _ Hin) as (Hr & Hroot & Hkids & Hroute). simpl in *.
      destruct (C1 n f Hn Hf) as [Hfd Hrk].
      destruct (decide (n = o)) as [->|Hno].
      { (* the output: take the grown set rooted at it *)
        destruct Hhead as [S0 H0]. destruct (Hg _ H0) as (Hr0 & _ & Hkids0 & _). simpl in *.
        exists o, S0, f. split; [done|]. split; [done|]. split; [done|].
        specialize (Hkids0 o Hr0 (or_introl eq_refl)). rewrite Forall_forall in Hkids0. apply Hkids0.
        apply kids_elem. split; [done|]. split; [done|]. split; [intros ->; lia|]. by apply root_operand_child. }
      assert (f ≠ o) as Hfo. { intros ->. pose proof (rank_le_o n Hn). lia. }
      destruct (decide (1 < length (K n))) as [Hl2|Hl2].
      { (* two children: n is the root of its own set or of the current one; all operands are children *)
        destruct (two_children_operands n Hn Hno Hsz Hl2) as [_ Hall].
        assert (∃ S', (n, S') ∈ gs) as [S' Hin'].
        { destruct (decide (n = r)) as [->|Hnr]; [eauto|]. destruct Hfront as [_ Hfr]. rewrite Forall_forall in Hfr.
          destruct (Hfr _ Hin n HnS) as [|[Hnot|Hrt]]; [done|unfold sg_split_above in Hnot; fold (K n) in Hnot; lia|]. by apply root_lookup. }
        destruct (Hg _ Hin') as (Hr' & _ & Hkids' & _). simpl in *.
        exists n, S', f. split; [done|]. split; [done|]. split; [done|].
        specialize (Hkids' n Hr' (or_introl eq_refl)). rewrite Forall_forall in Hkids'. apply Hkids'.
        apply kids_elem. split; [done|]. split; [done|]. split; [done|]. by apply Hall. }
      exists r, S, f. split; [done|]. split; [done|]. split; [done|].
      assert (n ≠ r) as Hnr. { intros ->. destruct Hroot as [|Hl]; [done|]. unfold sg_split_above in Hl. fold (K r) in Hl. lia. }
      destruct (Hroute n HnS) as [|[_ (q & HqS & Hq & Hqr)]]; [done|].
      destruct (decide (n ∈ SD f)) as [Hdom|Hndom].
      - (* f is the single child of n, absorbed *)
        assert (f ∈ K n) as HfK by (apply kids_elem; split; [done|]; split; [done|]; split; [done|]; by apply operand_child).
        assert (length (K n) = 1) as Hl1. { destruct (K n) as [|? [|? ?]]; simpl in *; [by apply elem_of_nil in HfK|done|lia]. }
        assert (absorbs kids n) as Habs by (unfold absorbs, sg_split_above, sg_absorb_at; fold (K n); lia).
        specialize (Hkids n HnS (or_intror Habs)). rewrite Forall_forall in Hkids. by apply Hkids.
      - (* f is a sibling of n below q: q is the root *)
        pose proof (operand_sibling n f Hn Hno Hf Hndom) as Hsib.
        pose proof Hq as (Hqd & _ & _ & Hidn)%kids_elem.
        assert (f ∈ K q) as HfK. { apply kids_elem. split; [done|]. split; [done|]. split; [done|]. by rewrite Hsib. }
        destruct Hqr as [->|HK].
        + specialize (Hkids r Hr (or_introl eq_refl)). rewrite Forall_forall in Hkids. by apply Hkids.
        + unfold K in HfK. rewrite HK in HfK. apply elem_of_list_singleton in HfK. subst f. lia.
    Qed.

    (* the root of one grown set is not driven inside another one *)
    Lemma root_input_elsewhere r S r' S' f : (r, S) ∈ gs → (r', S') ∈ gs → r ≠ r' → r ∈ S' →
      size (fanin co r) ≤ 2 → f ∈ fanin co r → f ∉ S'.
    Proof.
      intros Hin Hin' Hne HrS' Hsz Hf HfS'. pose proof Hgrow as Hg. rewrite Forall_forall in Hg.
      destruct (Hg _ Hin) as (_ & Hroot & _ & _). destruct (Hg _ Hin') as (Hr' & _ & _ & Hroute'). simpl in *.
      destruct (Hroute' r HrS') as [|[Hdepth (q & _ & Hq & _)]]; [done|].
      pose proof Hq as (_ & Hrd & Hro & _)%kids_elem.
      destruct Hroot as [|Hl]; [done|]. unfold sg_split_above in Hl. fold (K r) in Hl.
      destruct (two_children_operands r Hrd Hro Hsz Hl) as [_ Hall]. specialize (Hall f Hf).
      destruct (C1 r f Hrd Hf) as [Hfd _].
      assert (r' ∈ dom co) as Hr'd.
      { destruct (decide (r' = o)) as [->|]; [done|]. destruct (Hg _ Hin') as (_ & [|Hl'] & _); [done|]. simpl in Hl'.
        unfold sg_split_above in Hl'. fold (K r') in Hl'. destruct (kids_two r' Hl') as (c & _ & _ & Hc & _). by apply kids_elem in Hc as (? & _). }
      destruct (Hroute' f HfS') as [->|[_ (q' & _ & Hq' & Hq'r)]].
      - pose proof (child_deeper r' r Hr'd Hall). rewrite (sd_of r' Hr'd), (sd_of r Hrd) in Hdepth. lia.
      - apply kids_elem in Hq' as (_ & _ & _ & Hidq). assert (q' = r) as -> by congruence.
        destruct Hq'r as [|HK]; [done|]. fold (K r) in HK. rewrite HK in Hl. simpl in Hl. lia.
    Qed.
  End traversal.
End dom.

(* ================================================================ instantiation: the cone of an output of L *)
From CG Require Import Proofs.SupergatesProofs.

Section cone_facts.
  Context (L : circuit) (o : string) (rank : string → nat).
  Hypothesis Hclosed : closed L.
  Hypothesis Hrank : ∀ n i f, L !! n = Some i → f ∈ n_fi i → rank f < rank n.
  Hypothesis HoL : o ∈ dom L.
  Hypothesis Hup : up_ok L o.
  Let up := tfi_star L o.
  Let co := cone L o.

  Lemma up_sub_dom z : z ∈ up → z ∈ dom L.
  Proof.
    unfold up, tfi_star. apply (dfs_least _ (λ z, z ∈ dom L)).
    - intros x y [i Hi]%elem_of_dom Hy%elem_of_elements. apply elem_of_fanin in Hy as (i' & Hi' & Hy). by eapply Hclosed.
    - intros x ->%elem_of_singleton. done.
    - intros x ->%elem_of_list_singleton. by apply elem_of_singleton.
  Qed.
  Lemma cone_dom z : z ∈ dom co ↔ z ∈ up.
  Proof.
    split.
    - intros [j Hj]%elem_of_dom. by apply cone_lookup in Hj as [? _].
    - intros Hz. pose proof (up_sub_dom z Hz) as [k Hk]%elem_of_dom. unfold co, cone.
      apply elem_of_dom. destruct (decide (o = z)) as [->|Hne].
      + rewrite lookup_alter, lookup_fmap. erewrite (proj2 (subgraph_lookup L _ z _)); [done|]. split; [done|]. eauto.
      + rewrite lookup_alter_ne, lookup_fmap by done. erewrite (proj2 (subgraph_lookup L _ z _)); [done|]. split; [done|]. eauto.
  Qed.
  Lemma cone_fanin z : z ∈ up → fanin co z = fanin L z.
  Proof.
    intros Hz. pose proof (proj2 (cone_dom z) Hz) as [j Hj]%elem_of_dom. pose proof Hj as Hj'.
    apply cone_lookup in Hj' as (_ & k & Hk & _ & Hfi). unfold fanin. rewrite Hj, Hk. simpl. rewrite Hfi.
    destruct Hup as [_ Hcl]. specialize (Hcl z Hz). unfold fanin in Hcl. rewrite Hk in Hcl. simpl in Hcl. fold up. set_solver.
  Qed.
  Lemma cone_ty z j : co !! z = Some j → ∃ k, L !! z = Some k ∧ n_ty j = n_ty k.
  Proof. intros Hj. apply cone_lookup in Hj as (_ & k & Hk & Ht & _). eauto. Qed.
  Lemma cone_C1 x f : x ∈ dom co → f ∈ fanin co x → f ∈ dom co ∧ rank f < rank x.
  Proof.
    intros Hx%cone_dom Hf. rewrite (cone_fanin x Hx) in Hf. pose proof Hf as (i & Hi & Hfi)%elem_of_fanin. split; [|by eapply Hrank].
    apply cone_dom. destruct Hup as [_ Hcl]. by apply (Hcl x Hx).
  Qed.
  Lemma cone_C3 : o ∈ dom co.
  Proof. apply cone_dom. by destruct Hup. Qed.
  Lemma cone_C2 (P : string → Prop) : P o → (∀ x f, x ∈ dom co → P x → f ∈ fanin co x → P f) → ∀ x, x ∈ dom co → P x.
  Proof.
    intros Po Hstep x Hx%cone_dom. cut (x ∈ dom co ∧ P x); [tauto|]. revert x Hx. unfold up, tfi_star.
    apply (dfs_least _ (λ z, z ∈ dom co ∧ P z)).
    - intros x y [Hx HP] Hy%elem_of_elements. rewrite <- (cone_fanin x) in Hy by (by apply cone_dom).
      split; [by apply (cone_C1 x)|by eapply Hstep].
    - intros x ->%elem_of_singleton. split; [apply cone_C3|done].
    - intros x ->%elem_of_list_singleton. by apply elem_of_singleton.
  Qed.
End cone_facts.

(* sharper view of modify_io: a node keeps its type unless it is a non-constant node without fan-in *)
Lemma fix_io_lookup' g n i : fix_io g !! n = Some i →
  ∃ k, g !! n = Some k ∧ n_fi i = n_fi k ∧
       n_ty i = if is_const (n_ty k) then n_ty k else if bool_decide (n_fi k = ∅) then Input else n_ty k.
Proof.
  unfold fix_io. rewrite map_lookup_imap. destruct (g !! n) as [k|] eqn:E; simpl; [|done]. intros [= <-]. exists k. done.
Qed.

Section fanin_eq.
  Context (L : circuit) (rank : string → nat).
  Hypothesis Hclosed : closed L.
  Hypothesis Hrank : ∀ n i f, L !! n = Some i → f ∈ n_fi i → rank f < rank n.
  Hypothesis Hbound : ∀ n i, L !! n = Some i → size (n_fi i) ≤ 2.
  Hypothesis Hconst : ∀ n i, L !! n = Some i → is_const (n_ty i) = true → n_fi i = ∅.

  (* every gate of a supergate grown in the cone of an output has all its operands inside *)
  Lemma cone_supergates_fanin_eq o l sg : o ∈ dom L → cone_supergates L o = Some l → sg ∈ l →
    ∀ n, n ∈ gates (c_g sg) → fanin (c_g sg) n = fanin L n.
  Proof.
    intros HoL. unfold cone_supergates. case_bool_decide as Hcert; [|done]. destruct Hcert as (Hup & Hav & Hgrow & _).
    intros Heq Hin. apply (inj Some) in Heq. subst l. apply elem_of_list_fmap in Hin as ([r S] & -> & Hgs). simpl.
    rewrite Forall_forall in Hgrow. specialize (Hgrow _ Hgs). clear Hgs.
    intros n [Hnd Hni]%elem_of_difference. apply elem_of_dom in Hnd as [i Hi].
    assert (∃ i', fix_io (subgraph (cone L o) S) !! n = Some i' ∧ n_ty i = n_ty i' ∧ n_fi i = n_fi i') as (i' & Hi' & Ht & Hf).
    { simpl in Hi. destruct (decide (r = n)) as [->|Hne].
      - rewrite lookup_alter in Hi. destruct (fix_io _ !! n) as [i'|]; simpl in Hi; [|done]. injection Hi as <-. by exists i'.
      - rewrite lookup_alter_ne in Hi by done. by exists i. }
    apply fix_io_lookup' in Hi' as (k & Hk & Hfk & Hty).
    apply subgraph_lookup in Hk as (HnS & k0 & Hk0 & ->). simpl in *.
    pose proof Hk0 as Hk0'. apply cone_lookup in Hk0' as (Hnup & kL & HkL & HtL & HfL).
    assert (fanin (cone L o) n = fanin L n) as Hfan by (eapply cone_fanin; eauto).
    assert (n_fi k0 = n_fi kL) as HfkL. { unfold fanin in Hfan. rewrite Hk0, HkL in Hfan. done. }
    unfold fanin at 1. simpl. rewrite Hi. simpl. rewrite Hf, Hfk. unfold fanin. rewrite HkL. simpl. rewrite <- HfkL.
    destruct (is_const (n_ty k0)) eqn:Hc.
    { rewrite HtL in Hc. rewrite HfkL, (Hconst n kL HkL Hc). apply intersection_empty_l_L. }
    case_bool_decide as Hemp.
    { exfalso. apply Hni. apply elem_of_inputs. exists i. split; [done|]. congruence. }
    (* some operand is inside: all are *)
    assert (∃ f0, f0 ∈ n_fi k0 ∩ S) as [f0 [Hf0 Hf0S]%elem_of_intersection] by (apply set_choose_L; done).
    assert (n_fi k0 ⊆ S) as Hsub; [|apply set_eq; intros z; rewrite elem_of_intersection; split; [tauto|intros Hz; split; [done|by apply Hsub]]].
    intros f Hfk0.
    assert (∀ x f, x ∈ dom (cone L o) → f ∈ fanin (cone L o) x → f ∈ dom (cone L o) ∧ rank f < rank x) as C1
      by (intros; eapply cone_C1; eauto).
    assert (∀ P : string → Prop, P o → (∀ x f, x ∈ dom (cone L o) → P x → f ∈ fanin (cone L o) x → P f) →
            ∀ x, x ∈ dom (cone L o) → P x) as C2 by (intros; eapply cone_C2; eauto).
    assert (o ∈ dom (cone L o)) as C3 by (eapply cone_C3; eauto).
    eapply (grown_closed (cone L o) o rank C1 C2 C3 Hav r S n f0 f Hgrow HnS).
    - unfold fanin. rewrite Hk0. simpl. rewrite HfkL. by eapply Hbound.
    - unfold fanin. by rewrite Hk0.
    - done.
    - unfold fanin. by rewrite Hk0.
  Qed.

  Theorem supergates_fanin_eq sgs : supergates L = Ok sgs →
    Forall (λ sg, ∀ n, n ∈ gates (c_g sg) → fanin (c_g sg) n = fanin L n) sgs.
  Proof.
    unfold supergates. destruct (minimal_supergates L) as [m| | |] eqn:Em; unfold rbind; try done.
    destruct (kahn (S (length m)) L m []) as [l|] eqn:Ek; [|done]. intros [= <-].
    rewrite Forall_forall. intros sg ([ok s] & -> & Hp)%elem_of_list_fmap. simpl.
    destruct (kahn_sub _ _ _ _ _ Ek _ Hp) as [Hin|Hin]; [|by apply elem_of_nil in Hin].
    destruct (minimal_supergates_from_cones _ _ Em _ Hin) as (o & l' & Ho & Hc & Hl'). simpl in Hl'.
    eapply cone_supergates_fanin_eq; try done. apply elem_of_outputs in Ho as (i & Hi & _). by eapply elem_of_dom_2.
  Qed.
End fanin_eq.

(* ================================================================ cover: one output cone, then single-output circuits *)
Lemma grow_all_head k kids o : ∃ S0 rest, grow_all (S k) kids [o] = (o, S0) :: rest.
Proof. simpl. eauto. Qed.
Lemma mk_sg_lookup_intro co r S n k : n ∈ S → co !! n = Some k →
  ∃ i, c_g (mk_sg co r S) !! n = Some i ∧
       n_ty i = if is_const (n_ty k) then n_ty k else if bool_decide (n_fi k ∩ S = ∅) then Input else n_ty k.
Proof.
  intros HS Hk. simpl.
  assert (fix_io (subgraph co S) !! n = Some {| n_ty := if is_const (n_ty k) then n_ty k else if bool_decide (n_fi k ∩ S = ∅) then Input else n_ty k;
            n_out := if bool_decide (fanout (subgraph co S) n = ∅) then true else n_out k; n_fi := n_fi k ∩ S |}) as E.
  { unfold fix_io. rewrite map_lookup_imap. erewrite (proj2 (subgraph_lookup co S n _)); [|split; [done|]; eauto]. done. }
  destruct (decide (r = n)) as [->|Hne].
  - rewrite lookup_alter, E. simpl. eauto.
  - rewrite lookup_alter_ne, E by done. eauto.
Qed.
Lemma mk_sg_dom co r S n : n ∈ dom (c_g (mk_sg co r S)) → n ∈ S.
Proof. intros [i Hi]%elem_of_dom. by apply mk_sg_lookup in Hi as [? _]. Qed.

Section cover.
  Context (L : circuit) (rank : string → nat).
  Hypothesis Hclosed : closed L.
  Hypothesis Hrank : ∀ n i f, L !! n = Some i → f ∈ n_fi i → rank f < rank n.
  Hypothesis Hbound : ∀ n i, L !! n = Some i → size (n_fi i) ≤ 2.
  Hypothesis Hconst : ∀ n i, L !! n = Some i → is_const (n_ty i) = true → n_fi i = ∅.
  Hypothesis Hdriven : ∀ n i, L !! n = Some i → n_ty i ≠ Input → is_const (n_ty i) = false → n_fi i ≠ ∅.

  Section one_cone.
    Context (o : string) (HoL : o ∈ dom L).
    Let co := cone L o.
    Let av := avoid_table co o.
    Let sd := sdom_table av.
    Let kids := kids_of co o sd.
    Let gs := grow_all (S (size co)) kids [o].
    Hypothesis Hup : up_ok L o.
    Hypothesis Hav : avoid_ok co o av.
    Hypothesis Hgrow : Forall (grow_ok o sd kids) gs.
    Hypothesis Hfront : frontier_ok kids gs.

    Let C1 : ∀ x f, x ∈ dom co → f ∈ fanin co x → f ∈ dom co ∧ rank f < rank x.
    Proof. intros; eapply cone_C1; eauto. Qed.
    Let C2 : ∀ P : string → Prop, P o → (∀ x f, x ∈ dom co → P x → f ∈ fanin co x → P f) → ∀ x, x ∈ dom co → P x.
    Proof. intros; eapply cone_C2; eauto. Qed.
    Let C3 : o ∈ dom co.
    Proof. eapply cone_C3; eauto. Qed.
    Let Hhead : ∃ S0, (o, S0) ∈ gs.
    Proof. destruct (grow_all_head (size co) kids o) as (S0 & rest & E). exists S0. unfold gs. rewrite E. by left. Qed.

    Lemma co_node n : n ∈ tfi_star L o → ∃ k kL, co !! n = Some k ∧ L !! n = Some kL ∧ n_ty k = n_ty kL ∧ n_fi k = n_fi kL.
    Proof.
      intros Hn. assert (n ∈ dom co) as [k Hk]%elem_of_dom by (unfold co; eapply cone_dom; eauto). pose proof Hk as Hk'.
      apply cone_lookup in Hk' as (_ & kL & HkL & Ht & _). exists k, kL. split; [done|]. split; [done|]. split; [done|].
      assert (fanin co n = fanin L n) as Hf by (unfold co; eapply cone_fanin; eauto). unfold fanin in Hf. by rewrite Hk, HkL in Hf.
    Qed.
    Lemma co_bound n : size (fanin co n) ≤ 2.
    Proof.
      destruct (co !! n) as [k|] eqn:Hk.
      - unfold fanin. rewrite Hk. simpl. pose proof Hk as Hk'. apply cone_lookup in Hk' as (_ & kL & HkL & _ & Hfi). rewrite Hfi.
        etrans; [apply subseteq_size; apply intersection_subseteq_l|]. by eapply Hbound.
      - assert (fanin co n = (∅ : gset string)) as E by (unfold fanin; by rewrite Hk). rewrite E, size_empty. lia.
    Qed.

    (* every non-input node of the cone is a gate of a supergate grown in this cone *)
    Lemma cone_cover n : n ∈ tfi_star L o → n ∉ inputs L → ∃ r S, (r, S) ∈ gs ∧ n ∈ gates (c_g (mk_sg co r S)).
    Proof.
      intros Hn Hni. destruct (co_node n Hn) as (k & kL & Hk & HkL & Hty & Hfi).
      assert (n ∈ dom co) as Hnd by (by eapply elem_of_dom_2).
      assert (n_ty kL ≠ Input) as HnI. { intros E. apply Hni. apply elem_of_inputs. eauto. }
      assert (∃ r S, (r, S) ∈ gs ∧ n ∈ S ∧ (is_const (n_ty k) = true ∨ n_fi k ∩ S ≠ ∅)) as (r & S & Hin & HnS & Hgate).
      { destruct (is_const (n_ty k)) eqn:Hc.
        - destruct (covered co o rank C1 C2 C3 Hav gs Hgrow Hfront Hhead n Hnd) as (r & S & Hin & HnS). exists r, S. auto.
        - assert (n_fi kL ≠ ∅) as Hne by (apply (Hdriven n kL HkL HnI); congruence).
          apply set_choose_L in Hne as [f Hf].
          destruct (gate_covered co o rank C1 C2 C3 Hav gs Hgrow Hfront Hhead n f Hnd (co_bound n)) as (r & S & f' & Hin & HnS & Hf' & Hf'S).
          { unfold fanin. rewrite Hk. simpl. by rewrite Hfi. }
          exists r, S. split; [done|]. split; [done|]. right. unfold fanin in Hf'. rewrite Hk in Hf'. simpl in Hf'.
          intros E. assert (f' ∈ n_fi k ∩ S) as Hbad by (apply elem_of_intersection; done). rewrite E in Hbad. by apply elem_of_empty in Hbad. }
      exists r, S. split; [done|]. destruct (mk_sg_lookup_intro co r S n k HnS Hk) as (i & Hi & Hti).
      apply elem_of_difference. split; [by eapply elem_of_dom_2|]. intros (i' & Hi' & HI)%elem_of_inputs.
      assert (i' = i) as -> by congruence. rewrite Hti in HI.
      destruct Hgate as [Hc|Hne].
      - rewrite Hc in HI. rewrite Hty in HI. done.
      - destruct (is_const (n_ty k)); [rewrite Hty in HI; done|]. rewrite bool_decide_eq_false_2 in HI by done. rewrite Hty in HI. done.
    Qed.

    (* the root of a grown set is not a gate of the supergate made from another grown set *)
    Lemma root_not_gate_elsewhere r S r' S' : (r, S) ∈ gs → (r', S') ∈ gs → r ≠ r' → r ∉ gates (c_g (mk_sg co r' S')).
    Proof.
      intros Hin Hin' Hne [Hd Hni]%elem_of_difference. apply Hni. pose proof (mk_sg_dom _ _ _ _ Hd) as HrS'.
      pose proof Hgrow as Hg. rewrite Forall_forall in Hg. destruct (Hg _ Hin') as (_ & _ & _ & Hroute'). simpl in Hroute'.
      destruct (Hroute' r HrS') as [|[_ (q & _ & Hq & _)]]; [done|].
      apply (kids_elem co o rank C1 C2 C3 Hav) in Hq as (_ & Hrd & Hro & _).
      assert (r ∈ tfi_star L o) as Hrup by (eapply cone_dom; eauto).
      destruct (co_node r Hrup) as (k & kL & Hk & HkL & Hty & Hfi).
      destruct (mk_sg_lookup_intro co r' S' r k HrS' Hk) as (i & Hi & Hti).
      apply elem_of_inputs. exists i. split; [done|]. rewrite Hti.
      destruct (Hg _ Hin) as (_ & [|Hl] & _); [done|]. simpl in Hl. unfold sg_split_above in Hl.
      destruct (two_children_operands co o rank C1 C2 C3 Hav r Hrd Hro (co_bound r) Hl) as [[t Ht] _].
      assert (is_const (n_ty k) = false) as Hc.
      { destruct (is_const (n_ty k)) eqn:Hc; [|done]. exfalso. rewrite Hty in Hc. pose proof (Hconst r kL HkL Hc) as E.
        unfold fanin in Ht. rewrite Hk in Ht. simpl in Ht. rewrite Hfi, E in Ht. by apply elem_of_empty in Ht. }
      rewrite Hc. rewrite bool_decide_eq_true_2; [done|]. apply elem_of_equiv_empty_L. intros f [Hf HfS']%elem_of_intersection.
      eapply (root_input_elsewhere co o rank C1 C2 C3 Hav gs Hgrow r S r' S' f); try done; [apply co_bound|].
      unfold fanin. by rewrite Hk.
    Qed.

    Lemma root_in_dom r S : (r, S) ∈ gs → r ∈ dom (c_g (mk_sg co r S)).
    Proof.
      intros Hin. pose proof Hgrow as Hg. rewrite Forall_forall in Hg. destruct (Hg _ Hin) as (HrS & Hroot & _). simpl in *.
      assert (r ∈ dom co) as [k Hk]%elem_of_dom.
      { destruct Hroot as [->|Hl]; [done|]. unfold sg_split_above in Hl.
        destruct (kids_two co o rank C1 C2 C3 Hav r Hl) as (c & _ & _ & Hc & _).
        by apply (kids_elem co o rank C1 C2 C3 Hav) in Hc as (? & _). }
      destruct (mk_sg_lookup_intro co r S r k HrS Hk) as (i & Hi & _). by eapply elem_of_dom_2.
    Qed.
  End one_cone.

  (* ---- the filters keep every supergate when there is one output ---- *)
  Lemma dedupe_complete l : ∀ acc r, dedupe l acc = Some r → (∀ s, s ∈ l → s ∈ r) ∧ (∀ s, s ∈ acc → s ∈ r).
  Proof.
    induction l as [|x l IH]; simpl; intros acc r H.
    - injection H as <-. split; [by intros ? ?%elem_of_nil|]. intros s Hs. by apply elem_of_reverse.
    - destruct (list_find _ acc) as [[i t]|] eqn:Ef.
      + case_bool_decide as Heq; [|done]. subst t. destruct (IH _ _ H) as [H1 H2]. split; [|done].
        intros s [->|Hs]%elem_of_cons; [|by apply H1]. apply H2. apply list_find_Some in Ef as (Hi & _). by eapply elem_of_list_lookup_2.
      + destruct (IH _ _ H) as [H1 H2]. split.
        * intros s [->|Hs]%elem_of_cons; [apply H2; by left|by apply H1].
        * intros s Hs. apply H2. by right.
  Qed.
  Lemma dedupe_nodup l : ∀ acc r, dedupe l acc = Some r →
    NoDup ((λ s, dom (c_g s)) <$> acc) → NoDup ((λ s, dom (c_g s)) <$> r).
  Proof.
    induction l as [|x l IH]; simpl; intros acc r H Hnd.
    - injection H as <-. rewrite fmap_reverse. by rewrite reverse_Permutation.
    - destruct (list_find _ acc) as [[i t]|] eqn:Ef.
      + case_bool_decide; [|done]. by eapply IH.
      + eapply IH; [done|]. simpl. constructor; [|done]. apply list_find_None in Ef. rewrite Forall_forall in Ef.
        intros (t & Heq & Ht)%elem_of_list_fmap. by apply (Ef t Ht).
  Qed.
  Lemma others_elem {X} (l : list X) k t : t ∈ others l k → ∃ j, j ≠ k ∧ l !! j = Some t.
  Proof.
    unfold others. intros [Ht|Ht]%elem_of_app.
    - apply elem_of_list_lookup in Ht as [j Hj]. pose proof (lookup_lt_Some _ _ _ Hj) as Hlt. rewrite take_length in Hlt.
      exists j. split; [lia|]. rewrite lookup_take in Hj by lia. done.
    - apply elem_of_list_lookup in Ht as [j Hj]. rewrite lookup_drop in Hj. exists (S k + j). split; [lia|done].
  Qed.
  Lemma minimal_cover_keep l k s : l !! k = Some s → ¬ dom (c_g s) ⊆ ⋃ (gates_of <$> others l k) → s ∈ minimal_cover l.
  Proof.
    intros Hk Hn. unfold minimal_cover. apply elem_of_list_omap. exists (k, s). split.
    - apply elem_of_lookup_imap. eauto.
    - simpl. by rewrite bool_decide_eq_false_2.
  Qed.
  Lemma filter_key_nodup {X} (P : string * X → Prop) `{∀ q, Decision (P q)} (l : list (string * X)) :
    NoDup l.*1 → NoDup (filter P l).*1.
  Proof.
    induction l as [|q l IH]; simpl; [done|]. intros [Hq Hnd]%NoDup_cons. rewrite filter_cons. destruct (decide (P q)); simpl; [|by apply IH].
    constructor; [|by apply IH]. intros (q' & Heq & [_ Hin]%elem_of_list_filter)%elem_of_list_fmap. apply Hq. apply elem_of_list_fmap. eauto.
  Qed.
  Lemma key_eq {X} (m : list (string * X)) p q : NoDup m.*1 → p ∈ m → q ∈ m → p.1 = q.1 → p = q.
  Proof.
    intros Hnd [a Ha]%elem_of_list_lookup [b Hb]%elem_of_list_lookup He.
    assert (a = b) as ->; [|congruence].
    eapply (NoDup_lookup _ _ _ _ Hnd); rewrite list_lookup_fmap; [by rewrite Ha|rewrite Hb; simpl; by rewrite He].
  Qed.
  Lemma kahn_complete fuel : ∀ left done r, kahn fuel L left done = Some r → NoDup left.*1 → ∀ p, p ∈ left ∨ p ∈ done → p ∈ r.
  Proof.
    induction fuel as [|k IH]; intros left dn r H Hnd p Hp; simpl in H; [done|].
    destruct left as [|q0 left0] eqn:El.
    { injection H as <-. destruct Hp as [Hp|Hp]; [by apply elem_of_nil in Hp|done]. }
    rewrite <- El in *. clear El q0 left0.
    set (ready := filter (λ p : string * Circuit, Is_true (forallb (λ q : string * Circuit, bool_decide (q.1 = p.1) || negb (depends L p.2 q.2)) left)) left) in *.
    destruct ready as [|rd rds] eqn:Er; [done|]. rewrite <- Er in *. clear Er rd rds.
    apply (IH _ _ _ H); [by apply filter_key_nodup|].
    destruct Hp as [Hp|Hp]; [|right; apply elem_of_app; by left].
    destruct (decide (p.1 ∈ ready.*1)) as [Hin|Hnin].
    - right. apply elem_of_app. right. apply elem_of_list_fmap in Hin as (q & Heq & Hq).
      assert (q = p) as <-; [|done]. apply (key_eq left); try done. by apply elem_of_list_filter in Hq as [_ ?].
    - left. by apply elem_of_list_filter.
  Qed.

  (* any number of outputs: before the minimal-cover filter every gate in the cone of an output lies in a supergate *)
  Theorem all_supergates_cover all : all_supergates L = Ok all →
    ∀ n o, o ∈ outputs L → reach L n o → n ∉ inputs L → ∃ sg, sg ∈ all ∧ n ∈ gates (c_g sg).
  Proof.
    unfold all_supergates. destruct (has_bb L); [done|]. destruct (mapM _ _) as [pc|] eqn:Epc; [|done].
    destruct (dedupe _ []) as [all'|] eqn:Ed; [|done]. intros [= <-] n o Ho Hreach Hni.
    apply mapM_Some in Epc. pose proof Ho as Ho'. apply elem_of_elements, elem_of_list_lookup in Ho' as [k Hk].
    destruct (Forall2_lookup_l _ _ _ _ _ Epc Hk) as (lc & Hlc & Ec).
    assert (o ∈ dom L) as HoL. { apply elem_of_outputs in Ho as (i & Hi & _). by eapply elem_of_dom_2. }
    unfold cone_supergates in Ec. case_bool_decide as Hcert; [|done]. destruct Hcert as (Hup & Hav & Hgrow & Hfront).
    assert (n ∈ tfi_star L o) as Hn by (by apply (up_ok_reach L o n Hup)).
    apply (inj Some) in Ec.
    assert (∃ r S, (r, S) ∈ grow_all (Datatypes.S (size (cone L o))) (kids_of (cone L o) o (sdom_table (avoid_table (cone L o) o))) [o]
                   ∧ n ∈ gates (c_g (mk_sg (cone L o) r S))) as (r & S & Hin & Hgate) by (eapply cone_cover; eauto).
    exists (mk_sg (cone L o) r S). split; [|done]. destruct (dedupe_complete _ _ _ Ed) as [Hall _]. apply Hall.
    apply elem_of_list_join. exists lc. split; [|by eapply elem_of_list_lookup_2]. rewrite <- Ec. apply elem_of_list_fmap. by exists (r, S).
  Qed.

  (* every gate in the cone of the single output lies in a returned supergate *)
  Theorem supergates_cover_single o sgs : outputs L = {[o]} → supergates L = Ok sgs →
    ∀ n, reach L n o → n ∉ inputs L → ∃ sg, sg ∈ sgs ∧ n ∈ gates (c_g sg).
  Proof.
    intros Hout Hsg n Hreach Hni. unfold supergates in Hsg. destruct (minimal_supergates L) as [m| | |] eqn:Em; unfold rbind in Hsg; try done.
    destruct (kahn (S (length m)) L m []) as [lk|] eqn:Ek; [|done]. injection Hsg as <-.
    unfold minimal_supergates, all_supergates in Em. destruct (has_bb L); [done|]. unfold rbind in Em. rewrite Hout, elements_singleton in Em. simpl in Em.
    destruct (cone_supergates L o) as [lc|] eqn:Ec; simpl in Em; [|done].
    destruct (dedupe (lc ++ []) []) as [all|] eqn:Ed; [|done]. destruct (keyed (minimal_cover all)) as [m'|] eqn:Ekd; [|done].
    injection Em as <-.
    assert (o ∈ dom L) as HoL. { assert (o ∈ outputs L) as Ho by (rewrite Hout; set_solver). apply elem_of_outputs in Ho as (i & Hi & _). by eapply elem_of_dom_2. }
    unfold cone_supergates in Ec. case_bool_decide as Hcert; [|done]. destruct Hcert as (Hup & Hav & Hgrow & Hfront).
    assert (n ∈ tfi_star L o) as Hn by (by apply (up_ok_reach L o n Hup)).
    apply (inj Some) in Ec. set (co := cone L o) in *. set (gs := grow_all (S (size co)) _ [o]) in *.
    assert (∃ r S, (r, S) ∈ gs ∧ n ∈ gates (c_g (mk_sg (cone L o) r S))) as (r & S & Hin & Hgate) by (eapply cone_cover; eauto). fold co in Hgate.
    set (sg := mk_sg co r S) in *.
    assert (sg ∈ lc) as Hlc. { rewrite <- Ec. apply elem_of_list_fmap. by exists (r, S). }
    destruct (dedupe_complete _ _ _ Ed) as [Hall _].
    assert (sg ∈ all) as Hsall by (apply Hall, elem_of_app; by left).
    pose proof (dedupe_nodup _ _ _ Ed (NoDup_nil_2)) as Hnd.
    apply elem_of_list_lookup in Hsall as [k Hk].
    assert (sg ∈ minimal_cover all) as Hmin.
    { apply (minimal_cover_keep all k sg Hk). intros Hsub.
      assert (r ∈ dom (c_g (mk_sg (cone L o) r S))) as Hrd by (eapply root_in_dom; eauto). fold co in Hrd. fold sg in Hrd.
      apply Hsub in Hrd. apply elem_of_union_list in Hrd as (X & HX & HrX). apply elem_of_list_fmap in HX as (t & -> & Ht).
      apply others_elem in Ht as (j & Hjk & Hj).
      assert (t ∈ lc) as Htl.
      { destruct (dedupe_sub _ _ _ Ed t (elem_of_list_lookup_2 _ _ _ Hj)) as [Ht|Ht]; [|by apply elem_of_nil in Ht].
        apply elem_of_app in Ht as [|Ht]; [done|by apply elem_of_nil in Ht]. }
      rewrite <- Ec in Htl. apply elem_of_list_fmap in Htl as ([r' S'] & -> & Hin'). simpl in *.
      destruct (decide (r = r')) as [<-|Hne].
      - assert ((r, S) = (r, S')) as E by (apply (key_eq gs); try done; by destruct Hfront). injection E as <-.
        apply Hjk. eapply (NoDup_lookup _ _ _ _ Hnd); rewrite list_lookup_fmap; [by rewrite Hj|by rewrite Hk].
      - assert (r ∉ gates (c_g (mk_sg (cone L o) r' S'))) as Hno by (eapply root_not_gate_elsewhere; eauto). by apply Hno. }
    pose proof (keyed_snd _ _ Ekd) as Hsnd. rewrite <- Hsnd in Hmin. apply elem_of_list_fmap in Hmin as ([o' s'] & Heq & Hm). simpl in Heq. subst s'.
    exists sg. split; [|done]. apply elem_of_list_fmap. exists (o', sg). split; [done|].
    eapply kahn_complete; [done|by eapply keyed_nodup|by left].
  Qed.
End cover.

(* ================================================================ independence of the inputs of a supergate *)
Section indep.
  Context (L : circuit) (rank : string → nat).
  Hypothesis Hclosed : closed L.
  Hypothesis Hrank : ∀ n i f, L !! n = Some i → f ∈ n_fi i → rank f < rank n.
  Hypothesis Hbound : ∀ n i, L !! n = Some i → size (n_fi i) ≤ 2.
  Hypothesis Hsrc : ∀ n i, L !! n = Some i → n_ty i = Input → n_fi i = ∅.

  Lemma reach_source a x : fanin L a = ∅ → reach L x a → x = a.
  Proof.
    intros He (k & l & Hp & _). induction Hp as [u Hu | u w v l Hu Hp IH]; [done|]. specialize (IH He). subst w.
    rewrite He in Hu. by apply elem_of_empty in Hu.
  Qed.

  Section one_cone.
    Context (o : string) (HoL : o ∈ dom L).
    Let co := cone L o.
    Let av := avoid_table co o.
    Let sd := sdom_table av.
    Let kids := kids_of co o sd.
    Hypothesis Hup : up_ok L o.
    Hypothesis Hav : avoid_ok co o av.

    Let C1 : ∀ x f, x ∈ dom co → f ∈ fanin co x → f ∈ dom co ∧ rank f < rank x.
    Proof. intros; eapply cone_C1; eauto. Qed.
    Let C2 : ∀ P : string → Prop, P o → (∀ x f, x ∈ dom co → P x → f ∈ fanin co x → P f) → ∀ x, x ∈ dom co → P x.
    Proof. intros; eapply cone_C2; eauto. Qed.
    Let C3 : o ∈ dom co.
    Proof. eapply cone_C3; eauto. Qed.
    Let co_fanin z : z ∈ dom co → fanin co z = fanin L z.
    Proof. intros Hz. unfold co. eapply cone_fanin; eauto. eapply cone_dom; eauto. Qed.
    Let co_bound z : size (fanin co z) ≤ 2.
    Proof.
      destruct (co !! z) as [k|] eqn:Hk.
      - unfold fanin. rewrite Hk. simpl. pose proof Hk as Hk'. apply cone_lookup in Hk' as (_ & kL & HkL & _ & Hfi). rewrite Hfi.
        etrans; [apply subseteq_size; apply intersection_subseteq_l|]. by eapply Hbound.
      - assert (fanin co z = (∅ : gset string)) as E by (unfold fanin; by rewrite Hk). rewrite E, size_empty. lia.
    Qed.

    (* everything upstream of a frontier input is strictly dominated by it *)
    Lemma reach_frontier a x : a ∈ dom co → a ≠ o → 1 < length (adj_of kids a) → reach L x a →
      x = a ∨ (x ∈ dom co ∧ a ∈ sdom av x).
    Proof.
      intros Ha Hao Hl (k & l & Hp & _). induction Hp as [u Hu | u w v l Hu Hp IH]; [by left|]. right.
      specialize (IH Ha Hao Hl).
      assert (w ∈ dom co) as Hw by (destruct IH as [->|[? _]]; done).
      rewrite <- (co_fanin w Hw) in Hu. destruct (C1 w u Hw Hu) as [Hud _]. split; [done|].
      destruct IH as [->|[_ Hvw]].
      - by apply (frontier_dominates co o rank C1 C2 C3 Hav v u Ha Hao (co_bound v) Hl).
      - assert (w ≠ o) as Hwo.
        { intros ->. eapply SD_elem in Hvw as (_ & _ & Hbad); eauto. apply Hbad. eapply A_o; eauto. }
        by apply (adj_sub co o rank C1 C2 C3 Hav w u v Hw Hwo Hu).
    Qed.

    Lemma input_above r S a x : grow_ok o sd kids (r, S) → a ∈ inputs (c_g (mk_sg co r S)) → reach L x a → above co o r a x.
    Proof.
      intros Hg (i & Hi & HI)%elem_of_inputs Hreach.
      assert (∃ i', fix_io (subgraph co S) !! a = Some i' ∧ n_ty i = n_ty i') as (i' & Hi' & Ht).
      { simpl in Hi. destruct (decide (r = a)) as [->|Hne].
        - rewrite lookup_alter in Hi. destruct (fix_io _ !! a) as [i'|]; simpl in Hi; [|done]. injection Hi as <-. by exists i'.
        - rewrite lookup_alter_ne in Hi by done. by exists i. }
      apply fix_io_lookup' in Hi' as (k & Hk & _ & Hty). apply subgraph_lookup in Hk as (HaS & k0 & Hk0 & ->). simpl in Hty.
      assert (a ∈ dom co) as Had by (by eapply elem_of_dom_2).
      pose proof Hk0 as Hk0'. apply cone_lookup in Hk0' as (_ & kL & HkL & HtL & _).
      destruct (decide (fanin L a = ∅)) as [He|Hne]; [left; by apply reach_source|].
      assert (fanin co a = n_fi k0) as Hfk by (unfold fanin; by rewrite Hk0).
      rewrite <- (co_fanin a Had), Hfk in Hne.
      rewrite HI in Ht. rewrite <- Ht in Hty.
      assert (is_const (n_ty k0) = false ∧ n_fi k0 ∩ S = ∅) as [Hc Hemp].
      { destruct (is_const (n_ty k0)) eqn:Hc; [by destruct (n_ty k0)|]. split; [done|]. case_bool_decide; [done|]. exfalso.
        apply Hne. rewrite <- Hfk, (co_fanin a Had). unfold fanin. rewrite HkL. simpl. apply (Hsrc a kL HkL). congruence. }
      apply set_choose_L in Hne as [f Hf].
      assert (a ≠ r ∧ 1 < length (adj_of kids a)) as [Har Hl].
      { destruct (decide (a = r)) as [->|Har]; [|destruct (decide (1 < length (adj_of kids a))) as [|Hnl]; [done|]]; exfalso.
        - destruct (member_operand_inside co o rank C1 C2 C3 Hav r S r f Hg HaS (co_bound r)) as (f' & Hf' & Hf'S); [by rewrite Hfk|by left|].
          rewrite Hfk in Hf'. assert (f' ∈ n_fi k0 ∩ S) as Hb by (by apply elem_of_intersection). rewrite Hemp in Hb. by apply elem_of_empty in Hb.
        - destruct (member_operand_inside co o rank C1 C2 C3 Hav r S a f Hg HaS (co_bound a)) as (f' & Hf' & Hf'S); [by rewrite Hfk|by right|].
          rewrite Hfk in Hf'. assert (f' ∈ n_fi k0 ∩ S) as Hb by (by apply elem_of_intersection). rewrite Hemp in Hb. by apply elem_of_empty in Hb. }
      assert (a ≠ o) as Hao.
      { intros ->. destruct Hg as (_ & _ & _ & Hroute). simpl in Hroute. destruct (Hroute o HaS) as [|[_ (q & _ & Hq & _)]]; [done|].
        by apply (kids_elem co o rank C1 C2 C3 Hav) in Hq as (_ & _ & ? & _). }
      destruct (reach_frontier a x Had Hao Hl Hreach) as [->|[? ?]]; [by left|right; done].
    Qed.
  End one_cone.

  Lemma cone_supergates_indep o l sg : o ∈ dom L → cone_supergates L o = Some l → sg ∈ l →
    ∀ a b x, a ∈ inputs (c_g sg) → b ∈ inputs (c_g sg) → a ≠ b → reach L x a → reach L x b → False.
  Proof.
    intros HoL. unfold cone_supergates. case_bool_decide as Hcert; [|done]. destruct Hcert as (Hup & Hav & Hgrow & _).
    intros Heq Hin. apply (inj Some) in Heq. subst l. apply elem_of_list_fmap in Hin as ([r S] & -> & Hgs). simpl.
    rewrite Forall_forall in Hgrow. specialize (Hgrow _ Hgs). clear Hgs.
    intros a b x Ha Hb Hab Hxa Hxb.
    assert (a ∈ S) as HaS. { apply elem_of_inputs in Ha as (i & Hi & _). apply (mk_sg_dom (cone L o) r S). by eapply elem_of_dom_2. }
    assert (b ∈ S) as HbS. { apply elem_of_inputs in Hb as (i & Hi & _). apply (mk_sg_dom (cone L o) r S). by eapply elem_of_dom_2. }
    assert (above (cone L o) o r a x) as Hua by (eapply input_above; eauto).
    assert (above (cone L o) o r b x) as Hub by (eapply input_above; eauto).
    assert (∀ x f, x ∈ dom (cone L o) → f ∈ fanin (cone L o) x → f ∈ dom (cone L o) ∧ rank f < rank x) as C1
      by (intros; eapply cone_C1; eauto).
    assert (∀ P : string → Prop, P o → (∀ x f, x ∈ dom (cone L o) → P x → f ∈ fanin (cone L o) x → P f) →
            ∀ x, x ∈ dom (cone L o) → P x) as C2 by (intros; eapply cone_C2; eauto).
    assert (o ∈ dom (cone L o)) as C3 by (eapply cone_C3; eauto).
    exact (indep_core (cone L o) o rank C1 C2 C3 Hav r S a b x Hgrow HaS HbS Hab Hua Hub).
  Qed.

  (* the inputs of every returned supergate have pairwise disjoint transitive fan-in in L (any number of outputs) *)
  Theorem supergates_independent sgs : supergates L = Ok sgs →
    Forall (λ sg, ∀ a b x, a ∈ inputs (c_g sg) → b ∈ inputs (c_g sg) → a ≠ b → reach L x a → reach L x b → False) sgs.
  Proof.
    unfold supergates. destruct (minimal_supergates L) as [m| | |] eqn:Em; unfold rbind; try done.
    destruct (kahn (S (length m)) L m []) as [l|] eqn:Ek; [|done]. intros [= <-].
    rewrite Forall_forall. intros sg ([ok s] & -> & Hp)%elem_of_list_fmap. simpl.
    destruct (kahn_sub _ _ _ _ _ Ek _ Hp) as [Hin|Hin]; [|by apply elem_of_nil in Hin].
    destruct (minimal_supergates_from_cones _ _ Em _ Hin) as (o & l' & Ho & Hc & Hl'). simpl in Hl'.
    eapply cone_supergates_indep; try done. apply elem_of_outputs in Ho as (i & Hi & _). by eapply elem_of_dom_2.
  Qed.
End indep.
