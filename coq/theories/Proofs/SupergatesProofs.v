(* C17 proofs: soundness of the four checkers (for every circuit and every list of supergates), and
   construction lemmas for the mirrored model (every supergate is a restriction of the limited circuit). *)
From stdpp Require Import strings gmap sets fin_sets.
From CG Require Import Model.Supergates Base.Oracle.
Open Scope string_scope.

(* ================================================================ reachability and closed sets *)
Lemma closed_pathl L S x a l : fi_closed L S → a ∈ S → pathl L x a l → x ∈ S.
Proof.
  intros Hcl Ha Hp. induction Hp as [u Hu | u w v l Hu Hp IH]; [done|].
  specialize (IH Ha). apply (Hcl w IH). done.
Qed.
Lemma closed_reach L S x a : fi_closed L S → a ∈ S → reach L x a → x ∈ S.
Proof. intros Hcl Ha (k & l & Hp & _). by eapply closed_pathl. Qed.
Lemma up_ok_reach L a x : up_ok L a → reach L x a → x ∈ up_set L a.
Proof. intros [Ha Hcl] Hr. by eapply closed_reach. Qed.

(* a rank certificate (Base/Oracle.acyclicb) excludes cycles in the sense of paths *)
Lemma acyclic_pathl c (rank : string → nat) :
  (∀ n i f, c !! n = Some i → f ∈ n_fi i → rank f < rank n) →
  ∀ u v l, pathl c u v l → rank u ≤ rank v ∧ (2 ≤ length l → rank u < rank v).
Proof.
  intros Hr u v l Hp. induction Hp as [u Hu | u w v l Hu Hp [IH1 IH2]]; simpl; [split; lia|].
  apply elem_of_fanin in Hu as (i & Hi & Hf). specialize (Hr _ _ _ Hi Hf). split; lia.
Qed.
Lemma acyclic_no_cycle c : acyclic c → ¬ has_cycle c.
Proof.
  intros [rank Hr] (u & k & l & Hp & Hl). destruct (acyclic_pathl c rank Hr _ _ _ Hp) as [_ H]. specialize (H ltac:(lia)). lia.
Qed.

(* ================================================================ checker soundness *)
Lemma check_shape_sound L sgs : check_shape L sgs = true →
  Forall (λ sg, size (outputs (c_g sg)) = 1 ∧
                ∀ n, n ∈ gates (c_g sg) → n_ty <$> c_g sg !! n = n_ty <$> L !! n ∧ fanin (c_g sg) n = fanin L n) sgs.
Proof.
  unfold check_shape. rewrite bool_decide_eq_true. intros H. eapply Forall_impl; [exact H|]. intros sg [H1 H2]. split; [done|].
  intros n Hn. exact (H2 n Hn).
Qed.

Lemma check_independent_sound L sgs : check_independent L sgs = true →
  Forall (λ sg, ∀ a b x, a ∈ inputs (c_g sg) → b ∈ inputs (c_g sg) → a ≠ b → reach L x a → reach L x b → False) sgs.
Proof.
  unfold check_independent. rewrite bool_decide_eq_true. intros H0. eapply Forall_impl; [exact H0|]. intros sg H a b x Ha Hb Hab Hxa Hxb.
  destruct (H a Ha) as [Hoka Hall]. destruct (H b Hb) as [Hokb _].
  destruct (Hall b Hb) as [->|Hdisj]; [done|].
  pose proof (up_ok_reach _ _ _ Hoka Hxa). pose proof (up_ok_reach _ _ _ Hokb Hxb). set_solver.
Qed.

Lemma check_cover_sound L sgs : check_cover L sgs = true →
  ∀ n o, o ∈ outputs L → reach L n o → n ∉ inputs L → ∃ sg, sg ∈ sgs ∧ n ∈ gates (c_g sg).
Proof.
  unfold check_cover. rewrite bool_decide_eq_true. intros H n o Ho Hr Hn.
  destruct (H o Ho) as [Hok Hsub].
  assert (n ∈ ⋃ (gates_of <$> sgs)) as Hin.
  { apply Hsub. apply elem_of_difference. split; [by apply up_ok_reach|done]. }
  apply elem_of_union_list in Hin as (X & HX & HnX).
  apply elem_of_list_fmap in HX as (sg & -> & Hsg). by exists sg.
Qed.

Lemma topo_ok_sound sgs : topo_ok sgs →
  ∀ i j sgi sgj x, sgs !! i = Some sgi → sgs !! j = Some sgj → x ∈ inputs (c_g sgi) → x ∈ gates (c_g sgj) → j < i.
Proof.
  induction sgs as [|s r IH]; simpl; [intros _ i j ? ? ? Hi; by rewrite lookup_nil in Hi|].
  intros (Hself & Hlater & Hr) i j sgi sgj x Hi Hj Hxi Hxj.
  destruct i as [|i]; simpl in Hi.
  - injection Hi as <-. destruct j as [|j]; simpl in Hj.
    + injection Hj as <-. unfold gates_of in Hself. set_solver.
    + rewrite Forall_forall in Hlater. specialize (Hlater sgj (elem_of_list_lookup_2 _ _ _ Hj)).
      unfold gates_of in Hlater. set_solver.
  - destruct j as [|j]; [lia|]. simpl in Hj. specialize (IH Hr i j sgi sgj x Hi Hj Hxi Hxj). lia.
Qed.
Lemma check_topo_sound sgs : check_topo sgs = true →
  ∀ i j sgi sgj x, sgs !! i = Some sgi → sgs !! j = Some sgj → x ∈ inputs (c_g sgi) → x ∈ gates (c_g sgj) → j < i.
Proof. unfold check_topo. rewrite bool_decide_eq_true. apply topo_ok_sound. Qed.

(* the checkers decide the property *)
Theorem check_all_sound L sgs : check_all L sgs = true → sg_spec L sgs.
Proof.
  unfold check_all. rewrite !andb_true_iff. intros [[[Hs Hi] Hc] Ht].
  split; [|split; [by apply check_cover_sound | by apply check_topo_sound]].
  pose proof (check_shape_sound _ _ Hs) as H1. pose proof (check_independent_sound _ _ Hi) as H2.
  rewrite Forall_forall in H1, H2 |- *. intros sg Hsg.
  destruct (H1 sg Hsg) as [Ha Hb]. split; [done|]. split; [done|]. exact (H2 sg Hsg).
Qed.

(* the checkers are not vacuous: they are also complete for the decidable parts that do not involve the search
   (shape and order are exact; cover and independence additionally ask the computed up-sets to be closed) *)
Lemma check_shape_complete L sgs :
  Forall (λ sg, size (outputs (c_g sg)) = 1 ∧
                ∀ n, n ∈ gates (c_g sg) → n_ty <$> c_g sg !! n = n_ty <$> L !! n ∧ fanin (c_g sg) n = fanin L n) sgs →
  check_shape L sgs = true.
Proof.
  intros H. unfold check_shape. rewrite bool_decide_eq_true. eapply Forall_impl; [exact H|]. intros sg [H1 H2].
  split; [done|]. intros n Hn. exact (H2 n Hn).
Qed.
Lemma topo_ok_complete sgs :
  (∀ i j sgi sgj x, sgs !! i = Some sgi → sgs !! j = Some sgj → x ∈ inputs (c_g sgi) → x ∈ gates (c_g sgj) → j < i) →
  topo_ok sgs.
Proof.
  induction sgs as [|s r IH]; simpl; [done|]. intros H. split; [|split].
  - apply elem_of_equiv_empty_L. intros x [Hx1 Hx2]%elem_of_intersection.
    specialize (H 0 0 s s x eq_refl eq_refl Hx1 Hx2). lia.
  - rewrite Forall_forall. intros t Ht. apply elem_of_list_lookup in Ht as [j Hj].
    apply elem_of_equiv_empty_L. intros x [Hx1 Hx2]%elem_of_intersection.
    specialize (H 0 (S j) s t x eq_refl Hj Hx1 Hx2). lia.
  - apply IH. intros i j sgi sgj x Hi Hj Hx1 Hx2. specialize (H (S i) (S j) sgi sgj x Hi Hj Hx1 Hx2). lia.
Qed.

(* ================================================================ the construction: supergates are restrictions of L *)
(* what "sub-circuit of L on a node set" means for one node record *)
Definition restricts (L : circuit) (S : gset string) (n : string) (i : ninfo) : Prop :=
  n ∈ S ∧ ∃ k, L !! n = Some k ∧ n_fi i = n_fi k ∩ S ∧ (n_ty i = n_ty k ∨ (n_ty i = Input ∧ n_fi i = ∅)).

Lemma subgraph_lookup c S n i : subgraph c S !! n = Some i ↔ n ∈ S ∧ ∃ k, c !! n = Some k ∧ i = upd_fi (λ fi, fi ∩ S) k.
Proof.
  unfold subgraph. rewrite lookup_fmap, fmap_Some. split.
  - intros (k & Hk & ->). apply map_filter_lookup_Some in Hk as [Hk HS]. eauto.
  - intros (HS & k & Hk & ->). exists k. split; [|done]. by apply map_filter_lookup_Some.
Qed.
Lemma fix_io_lookup g n i : fix_io g !! n = Some i →
  ∃ k, g !! n = Some k ∧ n_fi i = n_fi k ∧ (n_ty i = n_ty k ∨ (n_ty i = Input ∧ n_fi k = ∅)).
Proof.
  unfold fix_io. rewrite map_lookup_imap. destruct (g !! n) as [k|] eqn:E; simpl; [|done].
  intros [= <-]. exists k. split; [done|]. simpl. split; [done|].
  destruct (is_const (n_ty k)); [by left|]. case_bool_decide; [by right|by left].
Qed.
Lemma mk_sg_lookup co node S n i : c_g (mk_sg co node S) !! n = Some i → restricts co S n i.
Proof.
  simpl. intros H.
  assert (∃ i', fix_io (subgraph co S) !! n = Some i' ∧ n_ty i = n_ty i' ∧ n_fi i = n_fi i') as (i' & Hi' & Ht & Hf).
  { destruct (decide (node = n)) as [->|Hne].
    - rewrite lookup_alter in H. destruct (fix_io (subgraph co S) !! n) as [i'|]; simpl in H; [|done].
      injection H as <-. by exists i'.
    - rewrite lookup_alter_ne in H by done. by exists i. }
  apply fix_io_lookup in Hi' as (k & Hk & Hfk & Hty).
  apply subgraph_lookup in Hk as (HS & k0 & Hk0 & ->). simpl in *.
  split; [done|]. exists k0. split; [done|]. split; [congruence|].
  destruct Hty as [Hty|[Hty He]]; [left; congruence|right]. split; congruence.
Qed.
Lemma cone_lookup L o n j : cone L o !! n = Some j →
  n ∈ tfi_star L o ∧ ∃ k, L !! n = Some k ∧ n_ty j = n_ty k ∧ n_fi j = n_fi k ∩ tfi_star L o.
Proof.
  unfold cone. intros H.
  assert (∃ j', subgraph L (tfi_star L o) !! n = Some j' ∧ n_ty j = n_ty j' ∧ n_fi j = n_fi j') as (j' & Hj' & Ht & Hf).
  { destruct (decide (o = n)) as [->|Hne].
    - rewrite lookup_alter, lookup_fmap in H. destruct (subgraph L (tfi_star L n) !! n) as [j'|]; simpl in H; [|done].
      injection H as <-. by exists j'.
    - rewrite lookup_alter_ne, lookup_fmap in H by done. destruct (subgraph L (tfi_star L o) !! n) as [j'|]; simpl in H; [|done].
      injection H as <-. by exists j'. }
  apply subgraph_lookup in Hj' as (HS & k & Hk & ->). simpl in *. split; [done|]. by exists k.
Qed.

(* every supergate of a cone is a restriction of L: a gate keeps its type, its fan-in is its fan-in in L cut to the
   supergate's node set; a node turned into an input has no fan-in inside *)
Lemma cone_supergates_restrict L o l sg : cone_supergates L o = Some l → sg ∈ l →
  c_name sg = sg_name ∧ c_bbs sg = ∅ ∧ ∃ S, ∀ n i, c_g sg !! n = Some i → restricts L S n i.
Proof.
  unfold cone_supergates. case_bool_decide; [|done]. intros Heq Hin. apply (inj Some) in Heq. subst l.
  apply elem_of_list_fmap in Hin as ([node S] & -> & _). simpl. split; [done|]. split; [done|].
  exists (S ∩ tfi_star L o). intros n i Hi. apply (mk_sg_lookup _ node S) in Hi as (HS & k & Hk & Hfi & Hty).
  apply cone_lookup in Hk as (Ht & k0 & Hk0 & Htk & Hfk).
  split; [set_solver|]. exists k0. split; [done|]. split; [rewrite Hfi, Hfk; set_solver|].
  destruct Hty as [Hty|Hty]; [left; congruence|by right].
Qed.

(* the filters only select *)
Lemma dedupe_sub l : ∀ acc r, dedupe l acc = Some r → ∀ s, s ∈ r → s ∈ l ∨ s ∈ acc.
Proof.
  induction l as [|x l IH]; simpl; intros acc r H s Hs.
  - injection H as <-. right. by apply elem_of_reverse.
  - destruct (list_find _ acc) as [[? t]|].
    + case_bool_decide; [|done]. destruct (IH _ _ H s Hs); [left; by right|by right].
    + destruct (IH _ _ H s Hs) as [?|Hin]; [left; by right|].
      apply elem_of_cons in Hin as [->|?]; [left; by left|by right].
Qed.
Lemma minimal_cover_sub l s : s ∈ minimal_cover l → s ∈ l.
Proof.
  unfold minimal_cover. intros ([k t] & Hin & Hs)%elem_of_list_omap. simpl in Hs.
  case_bool_decide; [done|]. injection Hs as <-.
  apply elem_of_lookup_imap in Hin as (k' & t' & [= -> ->] & Hl). by eapply elem_of_list_lookup_2.
Qed.
Lemma keyed_snd l m : keyed l = Some m → m.*2 = l.
Proof.
  unfold keyed. intros H. apply bind_Some in H as (l' & Hl' & H). case_bool_decide as Hnd; [|done]. injection H as <-. clear Hnd.
  apply mapM_Some in Hl'. induction Hl' as [|s p l l' Hp _ IH]; [done|]. simpl. f_equal; [|done].
  apply fmap_Some in Hp as (o & _ & ->). done.
Qed.
Lemma kahn_sub L fuel : ∀ left done r, kahn fuel L left done = Some r → ∀ p, p ∈ r → p ∈ left ∨ p ∈ done.
Proof.
  induction fuel as [|k IH]; simpl; [done|]. intros left done r H p Hp. destruct left as [|q left'] eqn:El.
  - injection H as <-. by right.
  - rewrite <- El in *. clear El.
    destruct (filter _ left) as [|rd rds] eqn:Er; [done|]. rewrite <- Er in *.
    destruct (IH _ _ _ H p Hp) as [Hin|Hin].
    + left. by apply elem_of_list_filter in Hin as [_ ?].
    + apply elem_of_app in Hin as [?|Hin]; [by right|]. left. by apply elem_of_list_filter in Hin as [_ ?].
Qed.

Lemma minimal_supergates_from_cones L m : minimal_supergates L = Ok m →
  ∀ p, p ∈ m → ∃ o l, o ∈ outputs L ∧ cone_supergates L o = Some l ∧ p.2 ∈ l.
Proof.
  unfold minimal_supergates, all_supergates. destruct (has_bb L); [done|]. unfold rbind.
  destruct (mapM _ _) as [pc|] eqn:Epc; [|done].
  destruct (dedupe _ []) as [all|] eqn:Ed; [|done]. destruct (keyed _) as [m'|] eqn:Ek; [|done].
  intros [= <-] p Hp. apply keyed_snd in Ek.
  assert (p.2 ∈ minimal_cover all) as Hin by (rewrite <- Ek; by apply elem_of_list_fmap_1).
  apply minimal_cover_sub in Hin. destruct (dedupe_sub _ _ _ Ed _ Hin) as [Hc|Hc]; [|by apply elem_of_nil in Hc].
  apply elem_of_list_join in Hc as (l & Hs & Hl). apply mapM_Some in Epc.
  apply elem_of_list_lookup in Hl as [k Hk]. destruct (Forall2_lookup_r _ _ _ _ _ Epc Hk) as (o & Ho & Hco).
  exists o, l. split; [apply elem_of_elements; by eapply elem_of_list_lookup_2|done].
Qed.

(* shape, the part that follows from the construction alone *)
Theorem supergates_restrict L sgs : supergates L = Ok sgs →
  Forall (λ sg, c_bbs sg = ∅ ∧ ∃ S, ∀ n i, c_g sg !! n = Some i → restricts L S n i) sgs.
Proof.
  unfold supergates. destruct (minimal_supergates L) as [m| | |] eqn:Em; unfold rbind; try done.
  destruct (kahn (S (length m)) L m []) as [l|] eqn:Ek; [|done]. intros [= <-].
  rewrite Forall_forall. intros sg ([o s] & -> & Hp)%elem_of_list_fmap. simpl.
  destruct (kahn_sub _ _ _ _ _ Ek _ Hp) as [Hin|Hin]; [|by apply elem_of_nil in Hin].
  destruct (minimal_supergates_from_cones _ _ Em _ Hin) as (o' & l' & _ & Hc & Hl'). simpl in Hl'.
  destruct (cone_supergates_restrict _ _ _ _ Hc Hl') as (_ & Hb & HS). done.
Qed.

(* consequence in the vocabulary of the property: a gate of a returned supergate has the type it has in L and its
   fan-in inside the supergate is a subset of its fan-in in L; equality of the fan-in sets (no fan-in of a gate is
   cut off) is the dominator-tree argument that is not proved and is decided per run by check_shape *)
Corollary supergates_gate_wiring L sgs : supergates L = Ok sgs →
  Forall (λ sg, ∀ n, n ∈ gates (c_g sg) → n_ty <$> c_g sg !! n = n_ty <$> L !! n ∧ fanin (c_g sg) n ⊆ fanin L n) sgs.
Proof.
  intros H. apply supergates_restrict in H. eapply Forall_impl; [exact H|]. intros sg (_ & S & HS) n Hn.
  apply elem_of_difference in Hn as [Hd Hni]. apply elem_of_dom in Hd as [i Hi].
  destruct (HS n i Hi) as (_ & k & Hk & Hfi & Hty).
  rewrite Hi, Hk. simpl. unfold fanin. rewrite Hi, Hk. simpl. split; [|set_solver].
  destruct Hty as [->|[Hty _]]; [done|]. exfalso. apply Hni. apply elem_of_inputs. eauto.
Qed.

(* exactly one output: the model keys the minimal cover by `supergate.outputs().pop()` and has no value (BadOrder) when a
   supergate has not exactly one output, because the Python result would then depend on the iteration order of a set *)
Lemma out_of_single s o : out_of s = Some o → size (outputs (c_g s)) = 1.
Proof.
  unfold out_of. destruct (elements (outputs (c_g s))) as [|a [|b r]] eqn:E; try done. intros _.
  unfold size, set_size. simpl. by rewrite E.
Qed.
Lemma keyed_single l m : keyed l = Some m → Forall (λ s, size (outputs (c_g s)) = 1) l.
Proof.
  unfold keyed. intros H. apply bind_Some in H as (l' & Hl' & _). apply mapM_Some in Hl'.
  induction Hl' as [|s p l l' Hp _ IH]; constructor; [|done].
  apply fmap_Some in Hp as (o & Ho & _). by eapply out_of_single.
Qed.
Theorem supergates_single_output L sgs : supergates L = Ok sgs → Forall (λ sg, size (outputs (c_g sg)) = 1) sgs.
Proof.
  unfold supergates. destruct (minimal_supergates L) as [m| | |] eqn:Em; unfold rbind; try done.
  destruct (kahn (S (length m)) L m []) as [l|] eqn:Ek; [|done]. intros [= <-].
  assert (Forall (λ s, size (outputs (c_g s)) = 1) m.*2) as Hm.
  { unfold minimal_supergates, all_supergates in Em. destruct (has_bb L); [done|]. unfold rbind in Em. destruct (mapM _ _) as [pc|]; [|done].
    destruct (dedupe _ []) as [all|]; [|done]. destruct (keyed _) as [m'|] eqn:Ekd; [|done].
    injection Em as <-. rewrite (keyed_snd _ _ Ekd). by eapply keyed_single. }
  rewrite Forall_forall in Hm |- *. intros sg ([o s] & -> & Hp)%elem_of_list_fmap. simpl.
  destruct (kahn_sub _ _ _ _ _ Ek _ Hp) as [Hin|Hin]; [|by apply elem_of_nil in Hin].
  apply Hm. by apply (elem_of_list_fmap_1 snd) in Hin.
Qed.

(* ---- the order the model returns: Kahn rounds put every supergate after all supergates it depends on ---- *)
Section kahn.
  Context (L : circuit).
  Let D (p q : string * Circuit) : Prop := depends L p.2 q.2 = true.
  Definition kinv (done left : list (string * Circuit)) : Prop :=
    (∀ p q, p ∈ done → q ∈ left → ¬ D p q) ∧
    (∀ i j p q, done !! i = Some p → done !! j = Some q → D p q → j < i ∨ p.1 = q.1).

  Lemma kahn_ordered fuel : ∀ left done r, kahn fuel L left done = Some r → kinv done left →
    ∀ i j p q, r !! i = Some p → r !! j = Some q → D p q → j < i ∨ p.1 = q.1.
  Proof.
    induction fuel as [|k IH]; intros left dn r H [Ha Hb]; simpl in H; [done|].
    destruct left as [|q0 left0] eqn:El.
    { injection H as <-. exact Hb. }
    rewrite <- El in *. clear El q0 left0.
    set (ready := filter (λ p : string * Circuit, Is_true (forallb (λ q : string * Circuit, bool_decide (q.1 = p.1) || negb (depends L p.2 q.2)) left)) left) in *.
    destruct ready as [|rd rds] eqn:Er; [done|]. rewrite <- Er in *. clear Er rd rds.
    apply (IH _ _ _ H). clear H IH.
    assert (∀ p q, p ∈ ready → q ∈ left → q.1 = p.1 ∨ ¬ D p q) as HR.
    { intros p q [Hp _]%elem_of_list_filter Hq. apply Is_true_true in Hp.
      rewrite forallb_forall in Hp. specialize (Hp q). rewrite <- elem_of_list_In in Hp. specialize (Hp Hq).
      apply orb_true_iff in Hp as [Hp|Hp]; [left; by apply bool_decide_eq_true in Hp|right].
      unfold D. apply negb_true_iff in Hp. congruence. }
    split.
    - intros p q Hp [Hq1 Hq2]%elem_of_list_filter. apply elem_of_app in Hp as [Hp|Hp]; [by apply Ha|].
      destruct (HR p q Hp Hq2) as [He|Hn]; [|done]. exfalso. apply Hq1. rewrite He. by apply elem_of_list_fmap_1.
    - intros i j p q Hi Hj HD.
      apply lookup_app_Some in Hi as [Hi|[Hil Hi]]; apply lookup_app_Some in Hj as [Hj|[Hjl Hj]].
      + by eapply Hb.
      + exfalso. apply (Ha p q); [by eapply elem_of_list_lookup_2| |done].
        apply elem_of_list_lookup_2 in Hj. by apply elem_of_list_filter in Hj as [_ ?].
      + left. apply lookup_lt_Some in Hj. lia.
      + apply elem_of_list_lookup_2 in Hi, Hj. destruct (HR p q Hi) as [He|Hn]; [by apply elem_of_list_filter in Hj as [_ ?]|by right|done].
  Qed.
End kahn.

Lemma keyed_nodup l m : keyed l = Some m → NoDup m.*1.
Proof. unfold keyed. intros H. apply bind_Some in H as (l' & _ & H). case_bool_decide; [|done]. by injection H as <-. Qed.
Lemma nodup_fst_eq (m : list (string * Circuit)) p q : NoDup m.*1 → p ∈ m → q ∈ m → p.1 = q.1 → p = q.
Proof.
  intros Hnd [a Ha]%elem_of_list_lookup [b Hb]%elem_of_list_lookup He.
  assert (a = b) as ->; [|congruence].
  eapply (NoDup_lookup _ _ _ _ Hnd); rewrite list_lookup_fmap; [by rewrite Ha|rewrite Hb; simpl; by rewrite He].
Qed.
Theorem supergates_topo L sgs : supergates L = Ok sgs →
  ∀ i j sgi sgj x, sgs !! i = Some sgi → sgs !! j = Some sgj → x ∈ inputs (c_g sgi) → x ∈ gates (c_g sgj) → j < i.
Proof.
  unfold supergates. destruct (minimal_supergates L) as [m| | |] eqn:Em; unfold rbind; try done.
  destruct (kahn (S (length m)) L m []) as [l|] eqn:Ek; [|done]. intros [= <-] i j sgi sgj x Hi Hj Hxi Hxj.
  rewrite list_lookup_fmap in Hi, Hj. apply fmap_Some in Hi as (p & Hi & ->). apply fmap_Some in Hj as (q & Hj & ->).
  assert (∀ p, p ∈ l → p ∈ m) as Hsub.
  { intros p0 Hp0. destruct (kahn_sub _ _ _ _ _ Ek _ Hp0) as [?|Hn]; [done|by apply elem_of_nil in Hn]. }
  pose proof (Hsub _ (elem_of_list_lookup_2 _ _ _ Hi)) as Hpm. pose proof (Hsub _ (elem_of_list_lookup_2 _ _ _ Hj)) as Hqm.
  (* a gate of a supergate is not a primary input of L *)
  assert (x ∉ inputs L) as HxL.
  { destruct (minimal_supergates_from_cones _ _ Em _ Hqm) as (o & l' & _ & Hc & Hl').
    destruct (cone_supergates_restrict _ _ _ _ Hc Hl') as (_ & _ & S & HS).
    apply elem_of_difference in Hxj as [Hd Hni]. apply elem_of_dom in Hd as [ix Hix].
    destruct (HS x ix Hix) as (_ & k & Hk & _ & Hty). intros (k' & Hk' & Hin)%elem_of_inputs.
    apply Hni. apply elem_of_inputs. exists ix. split; [done|]. destruct Hty as [Hty|[Hty _]]; congruence. }
  assert (depends L p.2 q.2 = true) as HD.
  { unfold depends. apply negb_true_iff, bool_decide_eq_false. unfold gates_of. set_solver. }
  destruct (kahn_ordered L _ _ _ _ Ek) with (i := i) (j := j) (p := p) (q := q) as [?|He]; try done.
  { split; [intros ? ? Hn; by apply elem_of_nil in Hn|intros ? ? ? ? Hn; by rewrite lookup_nil in Hn]. }
  exfalso. assert (p = q) as -> by (eapply nodup_fst_eq; eauto; unfold minimal_supergates, all_supergates in Em;
    destruct (has_bb L); [done|]; unfold rbind in Em; destruct (mapM _ _) as [pc|]; [|done]; destruct (dedupe _ []) as [all|]; [|done]; destruct (keyed _) as [m'|] eqn:Ekd; [|done];
    injection Em as <-; by eapply keyed_nodup).
  unfold gates in Hxj. set_solver.
Qed.

