(* Soundness of the compiled sweep oracle Model/FastEval.sweepc as a decision about ALL consistent valuations of a
   closed acyclic circuit R: a verdict `true` means that every consistent valuation of R coincides on dom R with the
   valuation read off one of the enumerated value tables, and that this table passed every side check.
   Ingredients: topo_order is a permutation of the node list, index_of numbers it injectively, psubsets enumerates every
   subset of the free indices, run_prog stores the chosen bit at every free index, and consistent valuations of an
   acyclic closed circuit are determined by their free nodes (Sem.consistent_unique). *)
From stdpp Require Import strings gmap pmap sets fin_sets sorting.
From CG Require Import Base.Oracle Model.FastEval Proofs.FastEvalProofs.
Open Scope string_scope.

(* ---- 1. the order and its numbering ---- *)
Lemma topo_order_perm (R : circuit) : topo_order R ≡ₚ map_to_list R.
Proof. unfold topo_order. apply merge_sort_Permutation. Qed.

Lemma topo_order_elem (R : circuit) n i : (n, i) ∈ topo_order R ↔ R !! n = Some i.
Proof. rewrite topo_order_perm. apply elem_of_map_to_list. Qed.

Lemma topo_order_NoDup_fst (R : circuit) : NoDup (topo_order R).*1.
Proof. rewrite topo_order_perm. apply NoDup_fst_map_to_list. Qed.

Lemma topo_order_NoDup (R : circuit) : NoDup (topo_order R).
Proof. eapply NoDup_fmap_1, topo_order_NoDup_fst. Qed.

Lemma imap_fst_const {B} (g : nat → B) (ord : list (string * ninfo)) :
  (imap (λ k p, (p.1, g k)) ord).*1 = ord.*1.
Proof.
  revert g. induction ord as [|p l IH]; intros g; [done|].
  simpl. f_equal. apply (IH (g ∘ S)).
Qed.

Lemma index_of_lookup (ord : list (string * ninfo)) n k :
  NoDup ord.*1 →
  index_of ord !! n = Some k ↔ ∃ j i, ord !! j = Some (n, i) ∧ k = Pos.of_succ_nat j.
Proof.
  intros Hnd. unfold index_of. rewrite <- elem_of_list_to_map.
  - rewrite elem_of_lookup_imap. split.
    + intros (j & [n' i] & Heq & Hj). simpl in Heq. injection Heq as -> ->. eauto.
    + intros (j & i & Hj & ->). exists j, (n, i). done.
  - by rewrite imap_fst_const.
Qed.

(* every node of R has an index, namely its position in the order *)
Lemma index_of_topo_Some (R : circuit) n i :
  R !! n = Some i → ∃ j, topo_order R !! j = Some (n, i) ∧ index_of (topo_order R) !! n = Some (Pos.of_succ_nat j).
Proof.
  intros Hn. apply topo_order_elem, elem_of_list_lookup in Hn as [j Hj].
  exists j. split; [done|]. apply index_of_lookup; [apply topo_order_NoDup_fst|]. eauto.
Qed.

(* the numbering is injective on the order *)
Lemma index_of_topo_inj (R : circuit) p q :
  p ∈ topo_order R → q ∈ topo_order R →
  index_of (topo_order R) !! p.1 = index_of (topo_order R) !! q.1 → p = q.
Proof.
  intros Hp Hq Heq. destruct p as [n i], q as [m l]. simpl in Heq.
  apply topo_order_elem in Hp, Hq.
  destruct (index_of_topo_Some R n i Hp) as (j & Hj & Hjn).
  destruct (index_of_topo_Some R m l Hq) as (j' & Hj' & Hjm).
  rewrite Hjn, Hjm in Heq. injection Heq as Heq. apply SuccNat2Pos.inj in Heq. subst j'. congruence.
Qed.

(* ---- the pieces of sweepc, named ---- *)
Definition sw_ix (R : circuit) : index := λ n, index_of (topo_order R) !! n.
Definition sw_prog (R : circuit) : list cnode := compile_node (sw_ix R) id <$> topo_order R.
Definition sw_frees (R : circuit) : list positive := omap (λ c, if cn_free c then cn_ix c else None) (sw_prog R).

Lemma progR_ix_NoDup (R : circuit) : NoDup (cn_ix <$> sw_prog R).
Proof.
  unfold sw_prog. rewrite <- list_fmap_compose.
  apply NoDup_fmap_2_strong; [|apply topo_order_NoDup].
  intros p q Hp Hq Heq. by apply (index_of_topo_inj R).
Qed.

(* ---- 2. the enumeration of index subsets is complete ---- *)
Lemma psubsets_sub r t : t ∈ psubsets r → ∀ n, n ∈ t → n ∈ r.
Proof.
  revert t. induction r as [|y r IH]; simpl; intros t Ht n Hn.
  - apply elem_of_list_singleton in Ht. subst. by apply elem_of_nil in Hn.
  - apply elem_of_app in Ht as [Ht|Ht]; [right; by eapply IH|].
    apply elem_of_list_fmap in Ht as (t' & -> & Ht'). apply elem_of_cons in Hn as [->|Hn]; [left|right; by eapply IH].
Qed.
Lemma psubsets_complete l (P : positive → bool) : ∃ s', s' ∈ psubsets l ∧ ∀ n, n ∈ l → (n ∈ s' ↔ P n = true).
Proof.
  induction l as [|x r (s' & Hin & Heq)].
  - exists []. split; [by apply elem_of_list_singleton|]. intros n Hn. by apply elem_of_nil in Hn.
  - destruct (decide (x ∈ r)) as [Hxr|Hxr].
    + exists s'. split; [simpl; apply elem_of_app; by left|]. intros n Hn. apply Heq.
      apply elem_of_cons in Hn as [->|Hn]; done.
    + destruct (P x) eqn:Hx.
      * exists (x :: s'). split; [simpl; apply elem_of_app; right; by apply elem_of_list_fmap_1|].
        intros n Hn. rewrite elem_of_cons. apply elem_of_cons in Hn as [->|Hn]; [tauto|].
        rewrite (Heq n Hn). split; [intros [->|?]; done|]. by right.
      * exists s'. split; [simpl; apply elem_of_app; by left|]. intros n Hn.
        apply elem_of_cons in Hn as [->|Hn]; [|by apply Heq].
        split; [|congruence]. intros Hin'. exfalso. apply Hxr. by eapply psubsets_sub.
Qed.

(* ---- 3. a table that passes the compiled equations of R (in topological order) is a consistent valuation ---- *)
Lemma check_prog_topo_consistent (R : circuit) T (ix : index) :
  check_prog T (compile_node ix id <$> topo_order R) = true → consistent R (tab_val T ix).
Proof.
  unfold check_prog. rewrite forallb_forall. intros H n i Hn.
  apply node_okb_spec.
  assert (Hin : compile_node ix id (n, i) ∈ compile_node ix id <$> topo_order R).
  { apply elem_of_list_fmap_1. by apply topo_order_elem. }
  apply elem_of_list_In, H in Hin. rewrite cnode_ok_spec in Hin. exact Hin.
Qed.

(* ---- 4. run_prog stores the chosen bit at the index of every free equation ---- *)
Lemma run_prog_free ones prog c k :
  NoDup (cn_ix <$> prog) → c ∈ prog → cn_ix c = Some k → cn_free c = true →
  run_prog ones prog !! k = Some (bool_decide (k ∈ ones)).
Proof.
  unfold run_prog. induction prog as [|c' prog IH] using rev_ind; intros Hnd Hc Hk Hf.
  - by apply elem_of_nil in Hc.
  - rewrite foldl_app. simpl. rewrite fmap_app in Hnd. apply NoDup_app in Hnd as (Hnd & Hdisj & _).
    apply elem_of_app in Hc as [Hc|Hc].
    + assert (Hne : cn_ix c' ≠ Some k).
      { intros Heq. apply (Hdisj (Some k)).
        - rewrite <- Hk. by apply elem_of_list_fmap_1.
        - simpl. rewrite Heq. by left. }
      destruct (cn_ix c') as [k'|]; [|by apply IH].
      rewrite lookup_insert_ne by congruence. by apply IH.
    + apply elem_of_list_singleton in Hc. subst c'. rewrite Hk, Hf. by rewrite lookup_insert.
Qed.

Definition side_ok (T : Pmap bool) (sd : side) : Prop :=
  Forall (λ prog, check_prog T prog = true) (s_progs sd) ∧ eqs_ok T (s_eqs sd) = true ∧ s_pred sd (look T) = true.

Lemma sweepc_unfold R mk :
  sweepc R mk = true ↔
  ∀ ones, ones ∈ psubsets (sw_frees R) →
    check_prog (run_prog ones (sw_prog R)) (sw_prog R) = true ∧ side_ok (run_prog ones (sw_prog R)) (mk (sw_ix R)).
Proof.
  unfold sweepc. fold (sw_ix R). fold (sw_prog R). fold (sw_frees R). rewrite forallb_forall.
  unfold side_ok. split.
  - intros H ones Hin%elem_of_list_In. specialize (H ones Hin). simpl in *.
    rewrite !andb_true_iff in H. destruct H as (((H1 & H2) & H3) & H4).
    rewrite forallb_forall in H2. repeat split; try done.
    apply Forall_forall. intros prog Hp. by apply H2, elem_of_list_In.
  - intros H ones Hin%elem_of_list_In. specialize (H ones Hin). simpl in *.
    destruct H as (H1 & H2 & H3 & H4). rewrite !andb_true_iff. repeat split; try done.
    apply forallb_forall. intros prog Hp%elem_of_list_In. by eapply Forall_forall in H2.
Qed.

(* the easy direction: every enumerated table is a consistent valuation of R and passed the side checks *)
Theorem sweepc_sound_tables R mk :
  sweepc R mk = true →
  let ord := topo_order R in let idx := index_of ord in let ix : index := λ n, idx !! n in
  let progR := compile_node ix id <$> ord in
  let frees := omap (λ c, if cn_free c then cn_ix c else None) progR in
  ∀ ones, ones ∈ psubsets frees →
    let T := run_prog ones progR in
    consistent R (tab_val T ix) ∧
    Forall (λ prog, check_prog T prog = true) (s_progs (mk ix)) ∧ eqs_ok T (s_eqs (mk ix)) = true ∧ s_pred (mk ix) (look T) = true.
Proof.
  intros H ord idx ix progR frees ones Hones T.
  pose proof (proj1 (sweepc_unfold R mk) H) as H'. clear H. rename H' into H. destruct (H ones Hones) as [H1 H2].
  split; [|exact H2]. by apply check_prog_topo_consistent.
Qed.

(* the table read at the index of a free node of R is the chosen bit *)
Lemma run_prog_free_node R ones n i :
  R !! n = Some i → is_free i = true →
  ∃ j, topo_order R !! j = Some (n, i) ∧ sw_ix R n = Some (Pos.of_succ_nat j) ∧ Pos.of_succ_nat j ∈ sw_frees R ∧
       tab_val (run_prog ones (sw_prog R)) (sw_ix R) n = bool_decide (Pos.of_succ_nat j ∈ ones).
Proof.
  intros Hn Hf. destruct (index_of_topo_Some R n i Hn) as (j & Hj & Hix). exists j.
  assert (Hc : compile_node (sw_ix R) id (n, i) ∈ sw_prog R).
  { apply elem_of_list_fmap_1. by apply topo_order_elem. }
  split; [done|]. split; [done|]. split.
  - unfold sw_frees. apply elem_of_list_omap. eexists. split; [exact Hc|]. simpl. by rewrite Hf.
  - assert (Hl : run_prog ones (sw_prog R) !! Pos.of_succ_nat j = Some (bool_decide (Pos.of_succ_nat j ∈ ones))).
    { apply (run_prog_free ones (sw_prog R) (compile_node (sw_ix R) id (n, i))).
      - apply progR_ix_NoDup.
      - exact Hc.
      - exact Hix.
      - exact Hf. }
    unfold tab_val. fold (sw_ix R n) in Hix. rewrite Hix. unfold look. rewrite Hl. reflexivity.
Qed.

(* ---- main theorem ---- *)
Theorem sweepc_complete R mk v :
  closed R → acyclic R → sweepc R mk = true → consistent R v →
  let ord := topo_order R in let idx := index_of ord in let ix : index := λ n, idx !! n in
  ∃ T : Pmap bool,
    agrees (dom R) v (tab_val T ix) ∧ consistent R (tab_val T ix) ∧
    Forall (λ prog, check_prog T prog = true) (s_progs (mk ix)) ∧ eqs_ok T (s_eqs (mk ix)) = true ∧ s_pred (mk ix) (look T) = true.
Proof.
  intros Hcl [rank Hrank] Hsw Hv ord idx ix. change ix with (sw_ix R).
  pose proof (proj1 (sweepc_unfold R mk) Hsw) as Hsw'. clear Hsw. rename Hsw' into Hsw.
  set (P := λ k : positive, match topo_order R !! pred (Pos.to_nat k) with Some (n, _) => v n | None => false end).
  destruct (psubsets_complete (sw_frees R) P) as (ones & Hones & HP).
  destruct (Hsw ones Hones) as [Hchk Hside].
  set (T := run_prog ones (sw_prog R)) in *.
  assert (HT : consistent R (tab_val T (sw_ix R))) by by apply check_prog_topo_consistent.
  exists T. split; [|split; [exact HT|exact Hside]].
  eapply (consistent_unique R rank Hrank); eauto.
  intros n Hn. unfold free_nodes in Hn. apply elem_of_dom in Hn as [i Hi].
  apply map_filter_lookup_Some in Hi as [Hi Hf]. simpl in Hf.
  destruct (run_prog_free_node R ones n i Hi Hf) as (j & Hj & Hix & Hfr & Hval).
  unfold T. rewrite Hval. specialize (HP _ Hfr).
  assert (HPj : P (Pos.of_succ_nat j) = v n).
  { unfold P. rewrite SuccNat2Pos.id_succ. simpl. by rewrite Hj. }
  rewrite HPj in HP. destruct (v n).
  - symmetry. apply bool_decide_eq_true. by apply HP.
  - symmetry. apply bool_decide_eq_false. intros Hin. apply HP in Hin. done.
Qed.
