(* C10: the sequential construction of tx.ternary (model: Model/Ternary.v) always ends in the gadget structure
   tern_shape, and its result is lint-clean. *)
From stdpp Require Import strings gmap sets fin_sets.
From CG Require Import Model.Lint Model.Ternary Proofs.LintProofs Proofs.TernaryProofs Proofs.TernaryNames.
Open Scope string_scope.

Lemma gen_ttab_ok : gen_ttab = doc_ttab. Proof. reflexivity. Qed.

(* ---------- lookups of the primitive effects ---------- *)
Definition ph : ninfo := mk_node Buf false ∅.
Definition ens (o : option ninfo) (k : string) (l : list string) : option ninfo :=
  match o with Some i => Some i | None => if decide (k ∈ l) then Some ph else None end.

Lemma add_fi_lookup t v us k :
  add_fi t v us !! k = if decide (k = v) then upd_fi (λ s, list_to_set us ∪ s) <$> t !! v else t !! k.
Proof. unfold add_fi. destruct (decide (k = v)) as [->|]; [apply lookup_alter|by apply lookup_alter_ne]. Qed.
Lemma ensure_lookup t f k : ensure t f !! k = ens (t !! k) k [f].
Proof.
  unfold ensure, ens. destruct (bool_decide (f ∈ dom t)) eqn:E.
  - apply bool_decide_eq_true, elem_of_dom in E as [j Hj]. destruct (t !! k) eqn:Ek; [done|].
    destruct (decide (k ∈ [f])) as [Hk%elem_of_list_singleton|]; [congruence|done].
  - apply bool_decide_eq_false, not_elem_of_dom in E. destruct (decide (k = f)) as [->|].
    + rewrite lookup_insert, E. by rewrite decide_True by (by apply elem_of_list_singleton).
    + rewrite lookup_insert_ne by done. destruct (t !! k); [done|]. rewrite decide_False; [done|]. by intros ?%elem_of_list_singleton.
Qed.
Lemma fold_ensure_lookup l : ∀ t k, foldl ensure t l !! k = ens (t !! k) k l.
Proof.
  induction l as [|f l IH]; intros t k; simpl.
  - unfold ens. destruct (t !! k); [done|]. rewrite decide_False; [done|]. apply not_elem_of_nil.
  - rewrite IH, ensure_lookup. unfold ens. destruct (t !! k); [done|].
    destruct (decide (k ∈ [f])) as [Hk%elem_of_list_singleton|Hk].
    + subst. by rewrite decide_True by left.
    + destruct (decide (k ∈ l)).
      * by rewrite decide_True by (by right).
      * rewrite decide_False; [done|]. intros [->|?]%elem_of_cons; [|done]. apply Hk. by apply elem_of_list_singleton.
Qed.
Lemma redefine_lookup t m ty o fi k :
  redefine t m ty o fi !! k =
    if decide (k = m) then Some (mk_node ty o (list_to_set fi ∪ fanin t m)) else ens (t !! k) k fi.
Proof.
  unfold redefine. rewrite add_fi_lookup. destruct (decide (k = m)) as [->|Hk].
  - rewrite fold_ensure_lookup. unfold set_node. rewrite lookup_insert. done.
  - rewrite fold_ensure_lookup. unfold set_node. by rewrite lookup_insert_ne.
Qed.
Lemma add_fresh_name t base ty fi fo conn : (add_fresh t base ty fi fo conn).2 = uid t base.
Proof. done. Qed.
Lemma add_fresh_lookup t base ty fi fo conn k : fo ∈ dom t →
  (add_fresh t base ty fi fo conn).1 !! k =
    if decide (k = uid t base) then Some (mk_node ty false (list_to_set fi))
    else if decide (k = fo) then upd_fi (λ s, {[uid t base]} ∪ s) <$> t !! fo
    else if conn then ens (t !! k) k fi else t !! k.
Proof.
  intros Hfo. pose proof (uid_fresh t base) as Hh. set (h := uid t base) in *.
  assert (Hne : fo ≠ h) by (intros ->; done).
  apply elem_of_dom in Hfo as [jo Hjo].
  unfold add_fresh. fold h. cbn [fst]. rewrite add_fi_lookup.
  set (t2 := if conn then foldl ensure (<[h:=mk_node ty false ∅]> t) (fi ++ [fo]) else <[h:=mk_node ty false ∅]> t).
  assert (H2 : ∀ k', t2 !! k' = if decide (k' = h) then Some (mk_node ty false ∅) else if conn then ens (t !! k') k' (fi ++ [fo]) else t !! k').
  { intros k'. unfold t2. destruct conn.
    - rewrite fold_ensure_lookup. destruct (decide (k' = h)) as [->|]; [by rewrite lookup_insert|by rewrite lookup_insert_ne]. 
    - destruct (decide (k' = h)) as [->|]; [by rewrite lookup_insert|by rewrite lookup_insert_ne]. }
  destruct (decide (k = h)) as [->|Hk].
  - rewrite add_fi_lookup, decide_False by done. rewrite H2, decide_True by done. simpl. unfold upd_fi. simpl.
    by rewrite (right_id_L ∅ (∪)).
  - rewrite add_fi_lookup. destruct (decide (k = fo)) as [->|Hko].
    + rewrite H2, decide_False by done. rewrite Hjo. assert (ens (Some jo) fo (fi ++ [fo]) = Some jo) as He by done.
      destruct conn; rewrite ?He; simpl; unfold upd_fi; simpl; do 2 f_equal; set_solver.
    + rewrite H2, decide_False by done. destruct conn; [|done]. unfold ens. destruct (t !! k); [done|].
      destruct (decide (k ∈ fi)).
      * by rewrite decide_True by (apply elem_of_app; by left).
      * rewrite decide_False; [done|]. intros [?|?%elem_of_list_singleton]%elem_of_app; done.
Qed.

(* ---------- helper nodes ---------- *)
Definition helper_ok (c : circuit) (k : string) (i : ninfo) : Prop :=
  (∀ n, k ≠ mu_name c n) ∧ has_dot k = false ∧ n_out i = false ∧ n_fi i ≠ ∅ ∧
  (n_ty i = Or ∨ n_ty i = Nor ∨ n_ty i = And ∨ (n_ty i = Not ∧ size (n_fi i) = 1)).

Lemma hs_x : "_x_in_fi" ∈ helper_suffixes. Proof. unfold helper_suffixes. set_solver. Qed.
Lemma hs_0 : "_0_not_in_fi" ∈ helper_suffixes. Proof. unfold helper_suffixes. set_solver. Qed.
Lemma hs_1 : "_1_not_in_fi" ∈ helper_suffixes. Proof. unfold helper_suffixes. set_solver. Qed.
Lemma hs_is0 : "_is_0" ∈ helper_suffixes. Proof. unfold helper_suffixes. set_solver. Qed.
Lemma hs_is1 : "_is_1" ∈ helper_suffixes. Proof. unfold helper_suffixes. set_solver. Qed.
Lemma hs_notx : "_not_x" ∈ helper_suffixes. Proof. unfold helper_suffixes. set_solver. Qed.
Lemma helper_name_ok c t x s : s ∈ helper_suffixes → has_dot x = false →
  (∀ n, uid t (x ++ s) ≠ mu_name c n) ∧ has_dot (uid t (x ++ s)) = false.
Proof.
  intros Hs Hx. split.
  - intros n. unfold uid, mu_name. by apply helper_ne_comp.
  - apply uid_in_no_dot. rewrite has_dot_app, Hx. unfold helper_suffixes in Hs.
    repeat (apply elem_of_cons in Hs as [->|Hs]); [..|by apply elem_of_nil in Hs]; done.
Qed.

(* ---------- the literal loop, generically ---------- *)
Section litloop.
  Context (litstep : circuit → string → circuit) (L : circuit → string → string → Prop)
          (newok : string → ninfo → Prop) (Q : string → Prop) (z : string).
  Hypothesis L_frame : ∀ s s' h p, L s h p → (∀ k, k ∈ dom s → k ≠ z → s' !! k = s !! k) → L s' h p.
  Hypothesis step_spec : ∀ s p iz, s !! z = Some iz → Q p →
    ∃ h, h ∉ dom s ∧ litstep s p !! z = Some (upd_fi (λ S, {[h]} ∪ S) iz) ∧ L (litstep s p) h p ∧
         (∀ k, k ∈ dom s → k ≠ z → litstep s p !! k = s !! k) ∧
         (∀ k i, litstep s p !! k = Some i → k ∉ dom s → newok k i).

  Lemma lit_loop ps : ∀ s iz, s !! z = Some iz → Forall Q ps →
    let s' := foldl litstep s ps in
    (∀ k, k ∈ dom s → k ≠ z → s' !! k = s !! k) ∧
    (∃ H : gset string, s' !! z = Some (upd_fi (λ S, H ∪ S) iz) ∧
       (∀ h, h ∈ H → h ∉ dom s ∧ ∃ p, p ∈ ps ∧ L s' h p) ∧ (∀ p, p ∈ ps → ∃ h, h ∈ H ∧ L s' h p)) ∧
    (∀ k i, s' !! k = Some i → k ∉ dom s → newok k i).
  Proof.
    induction ps as [|p ps IH]; intros s iz Hz HQ; simpl.
    - split; [done|]. split; [|intros k i Hk Hd; apply not_elem_of_dom in Hd; congruence].
      exists ∅. split; [|split; [set_solver|by intros p ?%elem_of_nil]].
      rewrite Hz. f_equal. destruct iz; unfold upd_fi; simpl. f_equal. set_solver.
    - apply Forall_cons in HQ as [Hp HQ].
      destruct (step_spec s p iz Hz Hp) as (h & Hh & Hz1 & HL & Hfr & Hnew).
      set (s1 := litstep s p) in *.
      destruct (IH s1 _ Hz1 HQ) as (Hfr' & (H & Hz' & HH1 & HH2) & Hnew').
      assert (Hdom : ∀ k, k ∈ dom s → k ∈ dom s1).
      { intros k Hk. destruct (decide (k = z)) as [->|Hkz]; [apply elem_of_dom; eauto|].
        apply elem_of_dom. rewrite (Hfr k Hk Hkz). by apply elem_of_dom. }
      assert (Hzd : z ∈ dom s) by (apply elem_of_dom; eauto).
      split; [|split].
      + intros k Hk Hkz. rewrite (Hfr' k (Hdom k Hk) Hkz). by apply Hfr.
      + exists ({[h]} ∪ H). split; [|split].
        * rewrite Hz'. f_equal. destruct iz; unfold upd_fi; simpl. f_equal. set_solver.
        * intros h' [->%elem_of_singleton|Hh']%elem_of_union.
          -- split; [done|]. exists p. split; [by left|]. by eapply L_frame.
          -- destruct (HH1 h' Hh') as (Hd & q & Hq & HLq). split; [by intros ?%Hdom|]. exists q. split; [by right|done].
        * intros q [->|Hq]%elem_of_cons.
          -- exists h. split; [set_solver|]. by eapply L_frame.
          -- destruct (HH2 q Hq) as (h' & Hh' & HLq). exists h'. split; [set_solver|done].
      + intros k i Hk Hd. destruct (decide (k ∈ dom s1)) as [Hk1|Hk1].
        * apply Hnew; [|done]. rewrite <- Hk. symmetry. apply Hfr'; [done|]. by intros ->.
        * by apply Hnew'.
  Qed.
End litloop.

(* ---------- the two literal constructions ---------- *)
Section lits.
  Context (c : circuit).
  Notation μ := (mu_name c).
  Hypothesis Hnd : ∀ k, k ∈ dom c → has_dot k = false.

  Definition L0 (z : string) (s : circuit) (h p : string) : Prop := h ≠ z ∧ node_is s h Nor {[p; μ p]}.
  Definition L1 (z : string) (s : circuit) (h p : string) : Prop :=
    h ≠ z ∧ ty s h = Some And ∧ ∃ q, q ≠ z ∧ fanin s h = {[p; q]} ∧ node_is s q Not {[μ p]}.

  Lemma node_is_frame (z : string) s s' k g fi : node_is s k g fi → k ≠ z →
    (∀ k, k ∈ dom s → k ≠ z → s' !! k = s !! k) → node_is s' k g fi.
  Proof.
    intros [H1 H2] Hk Hfr. assert (k ∈ dom s) as Hd.
    { unfold ty in H1. apply elem_of_dom. destruct (s !! k); [eauto|done]. }
    unfold node_is, ty, fanin in *. by rewrite (Hfr k Hd Hk).
  Qed.
  Lemma L0_frame z s s' h p : L0 z s h p → (∀ k, k ∈ dom s → k ≠ z → s' !! k = s !! k) → L0 z s' h p.
  Proof. intros [Hh Hn] Hfr. split; [done|]. by eapply node_is_frame. Qed.
  Lemma L1_frame z s s' h p : L1 z s h p → (∀ k, k ∈ dom s → k ≠ z → s' !! k = s !! k) → L1 z s' h p.
  Proof.
    intros (Hh & Ht & q & Hq & Hf & Hn) Hfr.
    assert (Hn0 : node_is s h And {[p; q]}) by done.
    destruct (node_is_frame z s s' h And _ Hn0 Hh Hfr) as [Ht' Hf'].
    split; [done|]. split; [done|]. exists q. split; [done|]. split; [done|]. by eapply node_is_frame.
  Qed.

  Lemma lit_and_spec z s p iz : s !! z = Some iz → p ∈ dom c →
    ∃ h, h ∉ dom s ∧ lit_and doc_ttab μ z s p !! z = Some (upd_fi (λ S, {[h]} ∪ S) iz) ∧ L0 z (lit_and doc_ttab μ z s p) h p ∧
         (∀ k, k ∈ dom s → k ≠ z → lit_and doc_ttab μ z s p !! k = s !! k) ∧
         (∀ k i, lit_and doc_ttab μ z s p !! k = Some i → k ∉ dom s → helper_ok c k i).
  Proof.
    intros Hz Hp. assert (Hzd : z ∈ dom s) by (apply elem_of_dom; eauto).
    pose proof (uid_fresh s (p ++ "_is_0")) as Hh. set (h := uid s (p ++ "_is_0")) in *.
    assert (Hhz : h ≠ z) by (intros ->; done).
    assert (Hl : ∀ k, lit_and doc_ttab μ z s p !! k =
      if decide (k = h) then Some (mk_node Nor false (list_to_set [p; μ p]))
      else if decide (k = z) then upd_fi (λ S, {[h]} ∪ S) <$> s !! z else s !! k).
    { intros k. unfold lit_and. by rewrite add_fresh_lookup. }
    exists h. split; [done|]. split; [|split; [|split]].
    - rewrite Hl, decide_False, decide_True, Hz by done. done.
    - split; [done|]. unfold node_is, ty, fanin. rewrite Hl, decide_True by done. simpl. split; [done|]. set_solver.
    - intros k Hk Hkz. rewrite Hl, decide_False, decide_False; [done|done|]. by intros ->.
    - intros k i Hk Hd. rewrite Hl in Hk. destruct (decide (k = h)) as [->|].
      + injection Hk as <-. destruct (helper_name_ok c s p "_is_0" hs_is0 (Hnd p Hp)) as [H1 H2].
        split; [done|]. split; [done|]. split; [done|]. split; [simpl; set_solver|]. simpl. auto.
      + destruct (decide (k = z)) as [->|]; [done|]. apply not_elem_of_dom in Hd. congruence.
  Qed.

  Lemma lit_or_spec z s p iz : s !! z = Some iz → p ∈ dom c →
    ∃ h, h ∉ dom s ∧ lit_or doc_ttab μ z s p !! z = Some (upd_fi (λ S, {[h]} ∪ S) iz) ∧ L1 z (lit_or doc_ttab μ z s p) h p ∧
         (∀ k, k ∈ dom s → k ≠ z → lit_or doc_ttab μ z s p !! k = s !! k) ∧
         (∀ k i, lit_or doc_ttab μ z s p !! k = Some i → k ∉ dom s → helper_ok c k i).
  Proof.
    intros Hz Hp. assert (Hzd : z ∈ dom s) by (apply elem_of_dom; eauto).
    pose proof (uid_fresh s (p ++ "_is_1")) as Hh. set (h := uid s (p ++ "_is_1")) in *.
    assert (Hhz : h ≠ z) by (intros ->; done).
    set (s1 := (add_fresh s (p ++ "_is_1") And [p] z false).1).
    assert (Hl1 : ∀ k, s1 !! k =
      if decide (k = h) then Some (mk_node And false (list_to_set [p]))
      else if decide (k = z) then upd_fi (λ S, {[h]} ∪ S) <$> s !! z else s !! k).
    { intros k. unfold s1. by rewrite add_fresh_lookup. }
    assert (Hhd : h ∈ dom s1) by (apply elem_of_dom; rewrite Hl1, decide_True by done; eauto).
    assert (Hd1 : ∀ k, k ∈ dom s → k ∈ dom s1).
    { intros k Hk. apply elem_of_dom. rewrite Hl1. destruct (decide (k = h)); [eauto|].
      destruct (decide (k = z)) as [->|]; [rewrite Hz; eauto|by apply elem_of_dom]. }
    pose proof (uid_fresh s1 (p ++ "_not_x")) as Hq. set (q := uid s1 (p ++ "_not_x")) in *.
    assert (Hqh : q ≠ h) by (intros ->; done).
    assert (Hqz : q ≠ z) by (intros ->; apply Hq, Hd1, Hzd).
    assert (Hqs : q ∉ dom s) by (intros ?%Hd1; done).
    assert (Hl : ∀ k, lit_or doc_ttab μ z s p !! k =
      if decide (k = q) then Some (mk_node Not false (list_to_set [μ p]))
      else if decide (k = h) then Some (mk_node And false ({[q]} ∪ list_to_set [p]))
      else if decide (k = z) then upd_fi (λ S, {[h]} ∪ S) <$> s !! z else s !! k).
    { intros k. unfold lit_or. cbn [o_lit o_neg doc_ttab]. rewrite add_fresh_name. fold s1. fold h.
      rewrite add_fresh_lookup by done. fold q.
      destruct (decide (k = q)); [done|]. destruct (decide (k = h)) as [->|].
      - rewrite Hl1, decide_True by done. done.
      - by rewrite Hl1, decide_False by done. }
    exists h. split; [done|]. split; [|split; [|split]].
    - rewrite Hl, decide_False, decide_False, decide_True, Hz by done. done.
    - split; [done|]. split.
      + unfold ty. rewrite Hl, decide_False, decide_True by done. done.
      + exists q. split; [done|]. split.
        * unfold fanin. rewrite Hl, decide_False, decide_True by done. simpl. set_solver.
        * unfold node_is, ty, fanin. rewrite Hl, decide_True by done. simpl. split; [done|]. set_solver.
    - intros k Hk Hkz. rewrite Hl. rewrite decide_False by (by intros ->). rewrite decide_False by (by intros ->). by rewrite decide_False.
    - intros k i Hk Hd. rewrite Hl in Hk. destruct (decide (k = q)) as [->|].
      + injection Hk as <-. destruct (helper_name_ok c s1 p "_not_x" hs_notx (Hnd p Hp)) as [H1 H2].
        split; [done|]. split; [done|]. split; [done|]. split; [simpl; set_solver|]. right. right. right. split; [done|].
        assert (Hs1 : n_fi (mk_node Not false (list_to_set [μ p])) = ({[μ p]} : gset string)) by (simpl; set_solver).
        etrans; [exact (f_equal size Hs1)|apply size_singleton].
      + destruct (decide (k = h)) as [->|].
        * injection Hk as <-. destruct (helper_name_ok c s p "_is_1" hs_is1 (Hnd p Hp)) as [H1 H2].
          split; [done|]. split; [done|]. split; [done|]. split; [simpl; set_solver|]. simpl. auto.
        * destruct (decide (k = z)) as [->|]; [done|]. apply not_elem_of_dom in Hd. congruence.
  Qed.
End lits.

(* ---------- one iteration of the node loop ---------- *)
Definition new_ok (c : circuit) (k : string) (j : ninfo) : Prop :=
  (j = ph ∧ ∃ p, p ∈ dom c ∧ k = mu_name c p) ∨ helper_ok c k j.
Definition step_post (c t : circuit) (n : string) (i : ninfo) (t' : circuit) : Prop :=
  (∀ k, k ∈ dom t → k ≠ mu_name c n → t' !! k = t !! k) ∧
  comp_ok t' (mu_name c) n i ∧
  (∀ k j, t' !! k = Some j → k ∉ dom t → k ≠ mu_name c n → new_ok c k j).

Lemma set_map_list (f : string → string) (ps : list string) : (list_to_set (f <$> ps) : gset string) = set_map f (list_to_set ps : gset string).
Proof.
  apply set_eq. intros x. rewrite elem_of_list_to_set, elem_of_list_fmap, elem_of_map.
  setoid_rewrite elem_of_list_to_set. naive_solver.
Qed.
Lemma pair_set (x z : string) : ({[z]} ∪ ({[x]} ∪ ∅) : gset string) = {[x; z]}. Proof. set_solver. Qed.
Lemma ne_empty_elem (X : gset string) (y : string) : y ∈ X → X ≠ ∅. Proof. set_solver. Qed.
Lemma fanin_unset t m : t !! m = None ∨ t !! m = Some ph → fanin t m = ∅.
Proof. unfold fanin. by intros [-> | ->]. Qed.

Section ctl.
  Context (c : circuit).
  Notation μ := (mu_name c).
  Hypothesis Hnd : ∀ k, k ∈ dom c → has_dot k = false.
  Context (sc : string) (litstep : string → circuit → string → circuit)
          (L : string → circuit → string → string → Prop) (lit : circuit → string → string → Prop).
  Hypothesis Hsc : sc ∈ helper_suffixes.
  Hypothesis L_frame : ∀ z s s' h p, L z s h p → (∀ k, k ∈ dom s → k ≠ z → s' !! k = s !! k) → L z s' h p.
  Hypothesis lstep : ∀ z s p iz, s !! z = Some iz → p ∈ dom c →
    ∃ h, h ∉ dom s ∧ litstep z s p !! z = Some (upd_fi (λ S, {[h]} ∪ S) iz) ∧ L z (litstep z s p) h p ∧
         (∀ k, k ∈ dom s → k ≠ z → litstep z s p !! k = s !! k) ∧
         (∀ k i, litstep z s p !! k = Some i → k ∉ dom s → helper_ok c k i).
  Hypothesis L_lit : ∀ z s h p, L z s h p → lit s h p.

  Lemma ctl_step t n o ps (fi : gset string) :
    (t !! μ n = None ∨ t !! μ n = Some ph) → ps ≠ [] → list_to_set ps = fi → (∀ p, p ∈ ps → p ∈ dom c) → n ∈ dom c →
    let t' := ctl_branch μ litstep sc And Or Nor t n o ps in
    (∀ k, k ∈ dom t → k ≠ μ n → t' !! k = t !! k) ∧
    ctl_gadget t' μ (lit t') n fi ∧
    (∀ k j, t' !! k = Some j → k ∉ dom t → k ≠ μ n → new_ok c k j).
  Proof.
    unfold ctl_branch. intros Hm Hps Hfi Hcl Hn. remember (μ n) as m eqn:Em. set (t1 := redefine t m And o []).
    set (r2 := add_fresh t1 (n ++ "_x_in_fi") Or (μ <$> ps) m true).
    set (r3 := add_fresh r2.1 (n ++ sc) Nor [] m false). set (t' := foldl (litstep r3.2) r3.1 ps). cbv zeta.
    pose proof (fanin_unset _ _ Hm) as Hfm.
    (* t1 *)
    assert (Hl1 : ∀ k, t1 !! k = if decide (k = m) then Some (mk_node And o ∅) else t !! k).
    { intros k. unfold t1. rewrite redefine_lookup, Hfm. destruct (decide (k = m)); [do 2 f_equal; apply (left_id_L ∅ (∪))|].
      unfold ens. destruct (t !! k); [done|]. rewrite decide_False; [done|]. apply not_elem_of_nil. }
    assert (Hm1 : m ∈ dom t1) by (apply elem_of_dom; rewrite Hl1, decide_True by done; eauto).
    assert (Hd1 : ∀ k, k ∈ dom t → k ∈ dom t1).
    { intros k Hk. apply elem_of_dom. rewrite Hl1. destruct (decide (k = m)); [eauto|by apply elem_of_dom]. }
    (* x_in_fi *)
    pose proof (uid_fresh t1 (n ++ "_x_in_fi")) as Hx.
    destruct (helper_name_ok c t1 n "_x_in_fi" hs_x (Hnd n Hn)) as [Hxn Hxd].
    set (x := uid t1 (n ++ "_x_in_fi")) in *.
    assert (Hxm : x ≠ m) by (intros ->; done).
    set (t2 := r2.1).
    assert (Hl2 : ∀ k, t2 !! k =
      if decide (k = x) then Some (mk_node Or false (list_to_set (μ <$> ps)))
      else if decide (k = m) then Some (mk_node And o ({[x]} ∪ ∅))
      else ens (t !! k) k (μ <$> ps)).
    { intros k. unfold t2, r2. rewrite add_fresh_lookup by done. fold x. destruct (decide (k = x)); [done|].
      destruct (decide (k = m)) as [->|]; [by rewrite Hl1, decide_True by done|]. by rewrite Hl1, decide_False by done. }
    assert (Hm2 : m ∈ dom t2) by (apply elem_of_dom; rewrite Hl2, decide_False, decide_True by done; eauto).
    assert (Hd2 : ∀ k, k ∈ dom t1 → k ∈ dom t2).
    { intros k Hk. apply elem_of_dom. rewrite Hl2. destruct (decide (k = x)); [eauto|]. destruct (decide (k = m)); [eauto|].
      apply elem_of_dom in Hk. rewrite Hl1, decide_False in Hk by done. destruct Hk as [j ->]. simpl. eauto. }
    assert (Hx2 : x ∈ dom t2) by (apply elem_of_dom; rewrite Hl2, decide_True by done; eauto).
    clearbody x. clearbody t1.
    (* ctl node *)
    pose proof (uid_fresh t2 (n ++ sc)) as Hz.
    destruct (helper_name_ok c t2 n sc Hsc (Hnd n Hn)) as [Hzn Hzdot].
    set (z := uid t2 (n ++ sc)) in *.
    assert (Hzm : z ≠ m) by (intros ->; done). assert (Hzx : z ≠ x) by (intros ->; done).
    set (t3 := r3.1).
    assert (Hl3 : ∀ k, t3 !! k =
      if decide (k = z) then Some (mk_node Nor false ∅)
      else if decide (k = m) then Some (mk_node And o ({[z]} ∪ ({[x]} ∪ ∅))) else t2 !! k).
    { intros k. unfold t3, r3. fold t2. rewrite add_fresh_lookup by done. fold z. destruct (decide (k = z)); [done|].
      destruct (decide (k = m)) as [->|]; [|done]. by rewrite Hl2, decide_False, decide_True by done. }
    assert (Hz3 : t3 !! z = Some (mk_node Nor false ∅)) by (by rewrite Hl3, decide_True).
    assert (Hr32 : r3.2 = z) by done.
    assert (Hd3 : ∀ k, k ∈ dom t2 → k ∈ dom t3).
    { intros k Hk. apply elem_of_dom. rewrite Hl3. destruct (decide (k = z)); [eauto|]. destruct (decide (k = m)); [eauto|].
      by apply elem_of_dom. }
    (* literal loop *)
    assert (HQ : Forall (λ p, p ∈ dom c) ps) by (by apply Forall_forall).
    unfold t'. rewrite Hr32. fold t3. clear t'. set (t' := foldl (litstep z) t3 ps). clearbody z. clearbody t3. clearbody t2.
    destruct (lit_loop (litstep z) (L z) (helper_ok c) (λ p, p ∈ dom c) z (L_frame z) (lstep z) ps t3 _ Hz3 HQ)
      as (Hfr & (H & Hz' & HH1 & HH2) & Hnew). fold t' in Hfr, Hz', HH1, HH2, Hnew.
    assert (Hm' : t' !! m = Some (mk_node And o ({[z]} ∪ ({[x]} ∪ ∅)))).
    { rewrite Hfr; [|by apply Hd3|done]. by rewrite Hl3, decide_False, decide_True by done. }
    assert (Hx' : t' !! x = Some (mk_node Or false (list_to_set (μ <$> ps)))).
    { rewrite Hfr; [|by apply Hd3|done]. rewrite Hl3, decide_False, decide_False by done. by rewrite Hl2, decide_True. }
    split; [|split].
    - intros k Hk Hkm. assert (k ≠ x) by (intros ->; by apply Hx, Hd1). assert (k ≠ z) by (intros ->; by apply Hz, Hd2, Hd1).
      rewrite Hfr; [|by apply Hd3, Hd2, Hd1|done]. rewrite Hl3, decide_False, decide_False by done.
      rewrite Hl2, decide_False, decide_False by done. apply elem_of_dom in Hk as [j ->]. done.
    - unfold ctl_gadget. rewrite <- !Em. split; [unfold ty; by rewrite Hm'|].
      assert (Hfm' : fanin t' m = {[x; z]}) by (unfold fanin; rewrite Hm'; exact (pair_set x z)).
      exists x. split; [rewrite Hfm'; apply elem_of_union; left; by apply elem_of_singleton|].
      exists z. split; [rewrite Hfm'; apply elem_of_union; right; by apply elem_of_singleton|].
      split; [done|]. split; [|split; [|split]].
      + unfold node_is, ty, fanin. rewrite Hx'. simpl. split; [done|]. rewrite set_map_list. by rewrite Hfi.
      + unfold ty. by rewrite Hz'.
      + unfold fanin. rewrite Hz'. simpl. intros h Hh. assert (h ∈ H) as Hh' by (apply elem_of_union in Hh as [Hh|Hh]; [done|by apply elem_of_empty in Hh]).
        destruct (HH1 h Hh') as (_ & p & Hp & HL). exists p. split; [rewrite <- Hfi; by apply elem_of_list_to_set|by eapply L_lit].
      + intros p Hp. rewrite <- Hfi in Hp. apply elem_of_list_to_set in Hp. destruct (HH2 p Hp) as (h & Hh & HL).
        exists h. split; [|by eapply L_lit]. unfold fanin. rewrite Hz'. simpl. apply elem_of_union. by left.
    - intros k j Hk Hd Hkm. destruct (decide (k ∈ dom t3)) as [Hk3|Hk3]; [|right; by eapply Hnew].
      destruct (decide (k = z)) as [->|Hkz].
      + right. rewrite Hz' in Hk. injection Hk as <-. pose proof Hzn as H1. pose proof Hzdot as H2.
        split; [done|]. split; [done|]. split; [done|]. split; [|simpl; auto].
        simpl. destruct ps as [|p ps']; [done|]. destruct (HH2 p ltac:(by left)) as (h & Hh & _).
        apply (ne_empty_elem _ h). apply elem_of_union. by left.
      + rewrite (Hfr k Hk3 Hkz) in Hk. rewrite Hl3, decide_False, decide_False in Hk by done.
        rewrite Hl2 in Hk. destruct (decide (k = x)) as [->|Hkx].
        * right. injection Hk as <-. pose proof Hxn as H1. pose proof Hxd as H2.
          split; [done|]. split; [done|]. split; [done|]. split; [|simpl; auto].
          simpl. destruct ps as [|p ps']; [done|]. apply (ne_empty_elem _ (μ p)). apply elem_of_list_to_set. by left.
        * rewrite decide_False in Hk by done. apply not_elem_of_dom in Hd. rewrite Hd in Hk. simpl in Hk.
          destruct (decide (k ∈ μ <$> ps)) as [Hin|]; [|done]. injection Hk as <-.
          apply elem_of_list_fmap in Hin as (p & -> & Hp). left. split; [done|]. exists p. split; [by apply Hcl|done].
  Qed.
End ctl.

Definition arity_ok (i : ninfo) : Prop :=
  match n_ty i with
  | Buf | Not => ∃ p, n_fi i = {[p]}
  | And | Nand | Or | Nor | Xor | Xnor => n_fi i ≠ ∅
  | _ => True end.

Section step.
  Context (c : circuit) (fo : string → list string).
  Notation μ := (mu_name c).
  Hypothesis Hnd : ∀ k, k ∈ dom c → has_dot k = false.

  Lemma L0_lit0 z s h p : L0 c z s h p → lit0 s μ h p. Proof. by intros [_ ?]. Qed.
  Lemma L1_lit1 z s h p : L1 c z s h p → lit1 s μ h p.
  Proof. intros (_ & Ht & q & _ & Hf & Hn). split; [done|]. exists q. split; [rewrite Hf; set_solver|done]. Qed.

  Lemma simple_step t n ty o fi :
    (t !! μ n = None ∨ t !! μ n = Some ph) → (∀ p, p ∈ fi → ∃ q, q ∈ dom c ∧ p = μ q) →
    let t' := redefine t (μ n) ty o fi in
    (∀ k, k ∈ dom t → k ≠ μ n → t' !! k = t !! k) ∧
    t' !! μ n = Some (mk_node ty o (list_to_set fi)) ∧
    (∀ k j, t' !! k = Some j → k ∉ dom t → k ≠ μ n → new_ok c k j).
  Proof.
    intros Hm Hfi t'. pose proof (fanin_unset _ _ Hm) as Hfm.
    assert (Hl : ∀ k, t' !! k = if decide (k = μ n) then Some (mk_node ty o (list_to_set fi)) else ens (t !! k) k fi).
    { intros k. unfold t'. rewrite redefine_lookup, Hfm. destruct (decide _); [|done]. do 2 f_equal. set_solver. }
    split; [|split].
    - intros k Hk Hkm. rewrite Hl, decide_False by done. apply elem_of_dom in Hk as [j ->]. done.
    - by rewrite Hl, decide_True.
    - intros k j Hk Hd Hkm. rewrite Hl, decide_False in Hk by done. apply not_elem_of_dom in Hd. rewrite Hd in Hk. simpl in Hk.
      destruct (decide (k ∈ fi)) as [Hin|]; [|done]. injection Hk as <-. left. split; [done|]. destruct (Hfi k Hin) as (q & ? & ->). eauto.
  Qed.

  Lemma step_spec t n i t' : c !! n = Some i →
    (t !! μ n = None ∨ t !! μ n = Some ph) →
    list_to_set (fo n) = n_fi i → (∀ p, p ∈ n_fi i → p ∈ dom c) → arity_ok i →
    step doc_ttab c fo t n = Ok t' → step_post c t n i t'.
  Proof.
    intros Hc Hm Hfo Hcl Har Hs.
    assert (Hn : n ∈ dom c) by (apply elem_of_dom; eauto).
    assert (Hcl' : ∀ p, p ∈ fo n → p ∈ dom c) by (intros p Hp; apply Hcl; rewrite <- Hfo; by apply elem_of_list_to_set).
    assert (Hne : n_fi i ≠ ∅ → fo n ≠ []) by (intros H E; rewrite E in Hfo; simpl in Hfo; congruence).
    assert (Hmus : ∀ p, p ∈ μ <$> fo n → ∃ q, q ∈ dom c ∧ p = μ q).
    { intros p (q & -> & Hq)%elem_of_list_fmap. eauto. }
    unfold arity_ok in Har.
    assert (Hand : (n_ty i = And ∨ n_ty i = Nand) → step_post c t n i t').
    { intros Ht.
      assert (Heq : step doc_ttab c fo t n = Ok (ctl_branch μ (lit_and doc_ttab μ) "_0_not_in_fi" And Or Nor t n (n_out i) (fo n))).
      { unfold step. rewrite Hc. destruct Ht as [-> | ->]; reflexivity. }
      rewrite Heq in Hs. injection Hs as <-.
      assert (Hfi : n_fi i ≠ ∅) by (destruct Ht as [E|E]; by rewrite E in Har).
      pose proof (ctl_step c Hnd "_0_not_in_fi" (lit_and doc_ttab μ) (L0 c) (λ s, lit0 s μ)
        hs_0 (L0_frame c) (lit_and_spec c Hnd) L0_lit0
        t n (n_out i) (fo n) (n_fi i) Hm (Hne Hfi) Hfo Hcl' Hn) as H.
      unfold step_post, comp_ok. destruct Ht as [-> | ->]; exact H. }
    assert (Hor : (n_ty i = Or ∨ n_ty i = Nor) → step_post c t n i t').
    { intros Ht.
      assert (Heq : step doc_ttab c fo t n = Ok (ctl_branch μ (lit_or doc_ttab μ) "_1_not_in_fi" And Or Nor t n (n_out i) (fo n))).
      { unfold step. rewrite Hc. destruct Ht as [-> | ->]; reflexivity. }
      rewrite Heq in Hs. injection Hs as <-.
      assert (Hfi : n_fi i ≠ ∅) by (destruct Ht as [E|E]; by rewrite E in Har).
      pose proof (ctl_step c Hnd "_1_not_in_fi" (lit_or doc_ttab μ) (L1 c) (λ s, lit1 s μ)
        hs_1 (L1_frame c) (lit_or_spec c Hnd) L1_lit1
        t n (n_out i) (fo n) (n_fi i) Hm (Hne Hfi) Hfo Hcl' Hn) as H.
      unfold step_post, comp_ok. destruct Ht as [-> | ->]; exact H. }
    assert (Hbuf : (n_ty i = Buf ∨ n_ty i = Not) → step_post c t n i t').
    { intros Ht. assert (∃ p, n_fi i = {[p]}) as [p Hp] by (destruct Ht as [E|E]; by rewrite E in Har).
      destruct (fo n) as [|p' ps] eqn:Efo; [rewrite Hp in Hfo; simpl in Hfo; set_solver|].
      assert (p' = p) as -> by (assert (p' ∈ n_fi i) by (rewrite <- Hfo; set_solver); set_solver).
      assert (Heq : step doc_ttab c fo t n = Ok (redefine t (μ n) Buf (n_out i) [μ p])).
      { unfold step. rewrite Hc, Efo. destruct Ht as [-> | ->]; reflexivity. }
      rewrite Heq in Hs. injection Hs as <-.
      destruct (simple_step t n Buf (n_out i) [μ p] Hm) as (H1 & H2 & H3).
      { intros q ->%elem_of_list_singleton. exists p. split; [apply Hcl; set_solver|done]. }
      split; [done|]. split; [|done]. unfold comp_ok.
      assert (set_Exists (λ p0, n_fi i = {[p0]} ∧ node_is (redefine t (μ n) Buf (n_out i) [μ p]) (μ n) Buf {[μ p0]}) (n_fi i)).
      { exists p. split; [set_solver|]. split; [done|]. unfold node_is, ty, fanin. rewrite H2. simpl. split; [done|]. set_solver. }
      destruct Ht as [-> | ->]; done. }
    assert (Hxor : (n_ty i = Xor ∨ n_ty i = Xnor) → step_post c t n i t').
    { intros Ht. assert (Hfi : n_fi i ≠ ∅) by (destruct Ht as [E|E]; by rewrite E in Har).
      assert (Heq : step doc_ttab c fo t n = Ok (redefine t (μ n) Or (n_out i) (μ <$> fo n))).
      { unfold step. rewrite Hc. destruct Ht as [-> | ->]; reflexivity. }
      rewrite Heq in Hs. injection Hs as <-.
      destruct (simple_step t n Or (n_out i) (μ <$> fo n) Hm Hmus) as (H1 & H2 & H3).
      split; [done|]. split; [|done]. unfold comp_ok.
      assert (n_fi i ≠ ∅ ∧ node_is (redefine t (μ n) Or (n_out i) (μ <$> fo n)) (μ n) Or (set_map μ (n_fi i))).
      { split; [done|]. unfold node_is, ty, fanin. rewrite H2. simpl. split; [done|]. by rewrite set_map_list, Hfo. }
      destruct Ht as [-> | ->]; done. }
    assert (Hk : (n_ty i = C0 ∨ n_ty i = C1) → step_post c t n i t').
    { intros Ht.
      assert (Heq : step doc_ttab c fo t n = Ok (redefine t (μ n) C0 (n_out i) [])).
      { unfold step. rewrite Hc. destruct Ht as [-> | ->]; reflexivity. }
      rewrite Heq in Hs. injection Hs as <-.
      destruct (simple_step t n C0 (n_out i) [] Hm) as (H1 & H2 & H3); [by intros p ?%elem_of_nil|].
      split; [done|]. split; [|done]. unfold comp_ok.
      assert (node_is (redefine t (μ n) C0 (n_out i) []) (μ n) C0 ∅) by (unfold node_is, ty, fanin; by rewrite H2).
      destruct Ht as [-> | ->]; done. }
    assert (Hin : n_ty i = Input → step_post c t n i t').
    { intros Ht.
      assert (Heq : step doc_ttab c fo t n = Ok (redefine t (μ n) Input false [])).
      { unfold step. rewrite Hc, Ht. reflexivity. }
      rewrite Heq in Hs. injection Hs as <-.
      destruct (simple_step t n Input false [] Hm) as (H1 & H2 & H3); [by intros p ?%elem_of_nil|].
      split; [done|]. split; [|done]. unfold comp_ok. rewrite Ht. unfold node_is, ty, fanin; by rewrite H2. }
    destruct (n_ty i) eqn:Et; auto;
      exfalso; unfold step in Hs; rewrite Hc, Et in Hs;
      repeat match type of Hs with context [tin ?a ?l] => let b := eval vm_compute in (tin a l) in change (tin a l) with b in Hs end;
      discriminate Hs.
  Qed.
End step.

(* ---------- entries that are not placeholders never change any more ---------- *)
Definition solid (i : ninfo) : Prop := n_ty i ≠ Buf ∨ n_fi i ≠ ∅.
Definition ext (t t' : circuit) : Prop := ∀ k i, t !! k = Some i → solid i → t' !! k = Some i.
Lemma node_is_ext t t' k g fi : ext t t' → node_is t k g fi → g ≠ Buf ∨ fi ≠ ∅ → node_is t' k g fi.
Proof.
  intros He [H1 H2] Hs. unfold node_is, ty, fanin in *. destruct (t !! k) as [i|] eqn:E; [|done]. simpl in *.
  injection H1 as <-. subst fi. by rewrite (He k i E Hs).
Qed.
Lemma node_self t k g : ty t k = Some g → node_is t k g (fanin t k). Proof. done. Qed.
Lemma lit0_ext t t' m h p : ext t t' → lit0 t m h p → lit0 t' m h p.
Proof. intros He H. eapply node_is_ext; [done|exact H|by left]. Qed.
Lemma lit1_ext t t' m h p : ext t t' → lit1 t m h p → lit1 t' m h p.
Proof.
  intros He (Ht & q & Hq & Hf & Hn).
  destruct (node_is_ext t t' h And _ He (node_self _ _ _ Ht)) as [Ht' Hf']; [by left|].
  split; [done|]. exists q. rewrite Hf'. split; [done|]. split; [done|]. eapply node_is_ext; [done|done|by left].
Qed.
Lemma ctl_gadget_ext t t' m (lit lit' : string → string → Prop) n fi :
  (∀ h p, lit h p → lit' h p) → ext t t' → ctl_gadget t m lit n fi → ctl_gadget t' m lit' n fi.
Proof.
  intros Hl He (Hty & x & Hx & z & Hz & Hfi & Hxn & Hzt & Hall & Hex).
  destruct (node_is_ext t t' (m n) And _ He (node_self _ _ _ Hty)) as [Hty' Hfm]; [by left|].
  destruct (node_is_ext t t' z Nor _ He (node_self _ _ _ Hzt)) as [Hzt' Hfz]; [by left|].
  split; [done|]. rewrite Hfm. exists x. split; [done|]. exists z. split; [done|].
  split; [done|]. split; [eapply node_is_ext; [done|done|by left]|]. split; [done|]. rewrite Hfz. split.
  - intros h Hh. destruct (Hall h Hh) as (p & Hp & Hlit). exists p. split; [done|]. by apply Hl.
  - intros p Hp. destruct (Hex p Hp) as (h & Hh & Hlit). exists h. split; [done|]. by apply Hl.
Qed.
Lemma comp_ok_ext t t' m n i : ext t t' → comp_ok t m n i → comp_ok t' m n i.
Proof.
  intros He. unfold comp_ok. destruct (n_ty i); try done.
  - intros (p & Hp & Hfi & Hn). exists p. split; [done|]. split; [done|]. eapply node_is_ext; [done|done|right; set_solver].
  - apply ctl_gadget_ext; [|done]. intros h p. by apply lit0_ext.
  - apply ctl_gadget_ext; [|done]. intros h p. by apply lit1_ext.
  - intros [Hne Hn]. split; [done|]. eapply node_is_ext; [done|done|by left].
  - intros (p & Hp & Hfi & Hn). exists p. split; [done|]. split; [done|]. eapply node_is_ext; [done|done|right; set_solver].
  - apply ctl_gadget_ext; [|done]. intros h p. by apply lit0_ext.
  - apply ctl_gadget_ext; [|done]. intros h p. by apply lit1_ext.
  - intros [Hne Hn]. split; [done|]. eapply node_is_ext; [done|done|by left].
  - intros Hn. eapply node_is_ext; [done|done|by left].
  - intros Hn. eapply node_is_ext; [done|done|by left].
  - intros Hn. eapply node_is_ext; [done|done|by left].
Qed.

(* ---------- the invariant of the node loop ---------- *)
Section run.
  Context (c : circuit) (fo : string → list string).
  Notation μ := (mu_name c).
  Hypothesis Hnd : ∀ k, k ∈ dom c → has_dot k = false.
  Hypothesis Hnodes : ∀ n i, c !! n = Some i →
    list_to_set (fo n) = n_fi i ∧ (∀ p, p ∈ n_fi i → p ∈ dom c) ∧ arity_ok i.

  Definition Inv (t : circuit) (dn : list string) : Prop :=
    (∀ k j, c !! k = Some j → t !! k = Some j) ∧
    (∀ n i, n ∈ dn → c !! n = Some i → comp_ok t μ n i) ∧
    (∀ n, n ∈ dom c → n ∉ dn → t !! μ n = None ∨ t !! μ n = Some ph) ∧
    (∀ k j, t !! k = Some j → k ∈ dom c ∨ (∃ n, n ∈ dom c ∧ k = μ n ∧ (n ∈ dn ∨ j = ph)) ∨ helper_ok c k j).

  Lemma mu_fresh n : μ n ∉ dom c. Proof. apply uid_fresh. Qed.
  Lemma mu_inj n n' : μ n = μ n' → n = n'. Proof. apply comp_name_inj. Qed.

  Lemma inv_step t dn n t' : Inv t dn → n ∈ dom c → n ∉ dn → step doc_ttab c fo t n = Ok t' → Inv t' (n :: dn).
  Proof.
    intros (HA & HB & HC & HD) Hn Hnd' Hs. apply elem_of_dom in Hn as [i Hi].
    destruct (Hnodes n i Hi) as (Hfo & Hcl & Har).
    assert (Hm : t !! μ n = None ∨ t !! μ n = Some ph) by (apply HC; [apply elem_of_dom; eauto|done]).
    destruct (step_spec c fo Hnd t n i t' Hi Hm Hfo Hcl Har Hs) as (HF & HG & HN).
    assert (Hext : ext t t').
    { intros k j Hk Hsol. destruct (decide (k = μ n)) as [->|Hne].
      - destruct Hm as [Hm|Hm]; rewrite Hm in Hk; [done|]. injection Hk as <-. destruct Hsol as [?|?]; done.
      - rewrite HF; [done|apply elem_of_dom; eauto|done]. }
    split; [|split; [|split]].
    - intros k j Hk. rewrite HF; [by apply HA|apply elem_of_dom; eauto|].
      intros ->. apply (mu_fresh n). apply elem_of_dom. eauto.
    - intros n' i' [->|Hin]%elem_of_cons Hi'.
      + rewrite Hi in Hi'. by injection Hi' as <-.
      + eapply comp_ok_ext; eauto.
    - intros n' Hn' Hnot. apply not_elem_of_cons in Hnot as [Hne Hnot].
      assert (μ n' ≠ μ n) by (intros ?%mu_inj; done).
      destruct (HC n' Hn' Hnot) as [Hold|Hold].
      + destruct (t' !! μ n') as [j|] eqn:E; [|by left]. right.
        destruct (HN _ _ E) as [[-> _]|(Hname & _)]; [by apply not_elem_of_dom|done|done|]. by destruct (Hname n').
      + right. rewrite HF; [done|apply elem_of_dom; eauto|done].
    - intros k j Hk. destruct (decide (k = μ n)) as [->|Hne].
      + right. left. exists n. split; [apply elem_of_dom; eauto|]. split; [done|]. left. by left.
      + destruct (decide (k ∈ dom t)) as [Hd|Hd].
        * rewrite HF in Hk by done. destruct (HD k j Hk) as [?|[(n' & ? & ? & [?|?])|?]]; auto.
          -- right. left. exists n'. split; [done|]. split; [done|]. left. by right.
          -- right. left. exists n'. auto.
        * destruct (HN k j Hk Hd Hne) as [[-> (p & Hp & ->)]|?]; [|auto]. right. left. exists p. auto.
  Qed.

  Lemma inv_run todo : ∀ t dn t', Inv t dn → NoDup todo → (∀ n, n ∈ todo → n ∈ dom c ∧ n ∉ dn) →
    run doc_ttab c fo t todo = Ok t' → Inv t' (rev todo ++ dn).
  Proof.
    induction todo as [|n todo IH]; intros t dn t' HI Hnd' Hin Hr; simpl in Hr.
    - by injection Hr as <-.
    - destruct (step doc_ttab c fo t n) as [t1| | |] eqn:Es; simpl in Hr; try done.
      apply NoDup_cons in Hnd' as [Hn Hnd'].
      destruct (Hin n ltac:(by left)) as [Hnc Hndn].
      pose proof (inv_step t dn n t1 HI Hnc Hndn Es) as HI1.
      simpl. rewrite <- app_assoc. simpl. apply (IH t1 (n :: dn) t' HI1 Hnd'); [|done].
      intros n' Hn'. destruct (Hin n' ltac:(by right)) as [? ?]. split; [done|].
      intros [->|?]%elem_of_cons; done.
  Qed.

  Lemma inv_init : Inv c [].
  Proof.
    split; [done|]. split; [by intros n i ?%elem_of_nil|]. split.
    - intros n _ _. left. apply not_elem_of_dom. apply mu_fresh.
    - intros k j Hk. left. apply elem_of_dom. eauto.
  Qed.
End run.

(* ---------- what lint-cleanliness gives ---------- *)
Lemma gen_tables_ok : tables_ok gen_tables = true. Proof. vm_compute. reflexivity. Qed.
Lemma lint_facts C : lint_clean C → c_bbs C = ∅ →
  (∀ k, k ∈ dom (c_g C) → has_dot k = false) ∧ (∀ n i, c_g C !! n = Some i → arity_ok i).
Proof.
  intros Hl Hb. assert (Hnv : ¬ violates C default_flags) by (apply (lint_ok_iff gen_tables gen_tables_ok); exact Hl).
  split.
  - intros k [i Hi]%elem_of_dom. destruct (has_dot k) eqn:E; [|done]. exfalso. apply Hnv. left. exists k, i. split; [done|].
    right. left. split; [done|]. rewrite Hb, dom_empty_L. apply not_elem_of_empty.
  - intros n i Hi.
    assert (H0 : n_ty i ∈ (doc_single ++ doc_multi)%list → n_fi i ≠ ∅).
    { intros Ht E. apply Hnv. left. exists n, i. split; [done|]. do 5 right. left. done. }
    assert (H1 : n_ty i ∈ doc_single → size (n_fi i) ≤ 1).
    { intros Ht. destruct (decide (1 < size (n_fi i))) as [Hgt|]; [|lia]. exfalso. apply Hnv. left. exists n, i. split; [done|].
      do 4 right. left. done. }
    unfold arity_ok. destruct (n_ty i) eqn:Et; try done;
      try (apply H0; unfold doc_single, doc_multi; simpl; set_solver).
    + assert (size (n_fi i) = 1) as Hs.
      { assert (size (n_fi i) ≠ 0) by (intros ?%size_empty_iff%leibniz_equiv; revert H; apply H0; unfold doc_single, doc_multi; simpl; set_solver).
        assert (size (n_fi i) ≤ 1) by (apply H1; unfold doc_single; set_solver). lia. }
      apply size_1_elem_of in Hs as [p Hp]. exists p. by apply leibniz_equiv.
    + assert (size (n_fi i) = 1) as Hs.
      { assert (size (n_fi i) ≠ 0) by (intros ?%size_empty_iff%leibniz_equiv; revert H; apply H0; unfold doc_single, doc_multi; simpl; set_solver).
        assert (size (n_fi i) ≤ 1) by (apply H1; unfold doc_single; set_solver). lia. }
      apply size_1_elem_of in Hs as [p Hp]. exists p. by apply leibniz_equiv.
Qed.

(* ---------- the theorem about the model of tx.ternary itself ---------- *)
Theorem model_kleene C nodes fo R μ : lint_clean C → closed (c_g C) → ternary C nodes fo = Ok (R, μ) →
  dom μ = dom (c_g C) ∧ c_g C ⊆ c_g R ∧
  (∀ n i, c_g C !! n = Some i → comp_ok (c_g R) (mu_name (c_g C)) n i) ∧
  ∀ v, consistent (c_g R) v → kconsistent (c_g C) (kof μ v).
Proof.
  intros Hl Hcl H. unfold ternary in H. rewrite gen_ttab_ok in H.
  apply ternary_ok_inv in H as (Hb & Ho & -> & _ & _ & Hrun).
  destruct (lint_facts C Hl Hb) as [Hnd Har]. set (c := c_g C) in *.
  unfold orders_ok in Ho. apply andb_true_iff in Ho as [Ho Hfo]. apply andb_true_iff in Ho as [Hnodup Hset].
  apply bool_decide_eq_true in Hnodup, Hset.
  assert (Hin : ∀ n, n ∈ dom c → n ∈ nodes) by (intros n Hn; rewrite <- Hset in Hn; by apply elem_of_list_to_set in Hn).
  assert (Hnodes : ∀ n i, c !! n = Some i → list_to_set (fo n) = n_fi i ∧ (∀ p, p ∈ n_fi i → p ∈ dom c) ∧ arity_ok i).
  { intros n i Hi. split; [|split; [intros p Hp; eapply Hcl; eauto|by eapply Har]].
    rewrite forallb_forall in Hfo. assert (n ∈ nodes) as Hn%elem_of_list_In by (apply Hin, elem_of_dom; eauto).
    specialize (Hfo n Hn). apply andb_true_iff in Hfo as [_ Hf]. apply bool_decide_eq_true in Hf.
    rewrite Hf. unfold fanin. by rewrite Hi. }
  assert (Hall : ∀ n, n ∈ nodes → n ∈ dom c ∧ n ∉ ([] : list string)).
  { intros n Hn. split; [rewrite <- Hset; by apply elem_of_list_to_set|apply not_elem_of_nil]. }
  destruct (inv_run c fo Hnd Hnodes nodes c [] (c_g R) (inv_init c) Hnodup Hall Hrun) as (HA & HB & _ & _).
  assert (HB' : ∀ n i, c !! n = Some i → comp_ok (c_g R) (mu_name c) n i).
  { intros n i Hi. apply HB; [|done]. rewrite app_nil_r. apply elem_of_list_In. apply (proj1 (in_rev nodes n)). apply elem_of_list_In. apply Hin, elem_of_dom. eauto. }
  split; [apply dom_mapping|]. split; [by apply map_subseteq_spec|]. split; [done|].
  intros v Hv. apply (kconsistent_ext c (Kv v (mu_name c))); [done| |].
  - intros n Hn. unfold kof, Kv, mu_at. by rewrite (proj2 (lookup_mapping c n (mu_name c n)) (conj Hn eq_refl)).
  - apply (comp_sound c (c_g R) (mu_name c)); [|done]. intros n i Hi. split; [by apply HA|by apply HB'].
Qed.

(* companion at 0 => the node carries its value under every completion of the X inputs (model level) *)
Theorem model_completion C nodes fo R μ (v w : val) : lint_clean C → closed (c_g C) → ternary C nodes fo = Ok (R, μ) →
  acyclic (c_g C) → only_inputs_free (c_g C) → consistent (c_g R) v → consistent (c_g C) w →
  (∀ i, i ∈ inputs (c_g C) → v (mu_at μ i) = false → w i = v i) →
  ∀ n, n ∈ dom (c_g C) → v (mu_at μ n) = false → w n = v n.
Proof.
  intros Hl Hcl Ht Hac Hfree Hv Hw Hin n Hn Hx.
  destruct (model_kleene C nodes fo R μ Hl Hcl Ht) as (_ & _ & _ & Hk).
  pose proof (kleene_sound (c_g C) (kof μ v) w Hcl Hac Hfree (Hk v Hv) Hw) as H.
  assert (Hi : ∀ i, i ∈ inputs (c_g C) → refines1 (kof μ v i) (w i)).
  { intros i Hi. unfold kof. destruct (v (mu_at μ i)) eqn:E; [by left|]. right. by rewrite (Hin i Hi E). }
  specialize (H Hi n Hn). unfold kof in H. rewrite Hx in H. destruct H as [H|H]; [by destruct (v n)|].
  by destruct (v n), (w n).
Qed.

(* ---------- the gadget structure, with the returned mapping as companion function, and the exact input set ---------- *)
(* comp_ok only looks at the companion function on n and on the fan-in of n *)
Lemma node_is_iff T k g (fi fi' : gset string) : fi = fi' → node_is T k g fi → node_is T k g fi'.
Proof. by intros ->. Qed.
Lemma set_map_cong (m m' : string → string) (fi : gset string) : (∀ p, p ∈ fi → m p = m' p) →
  (set_map m fi : gset string) = set_map m' fi.
Proof.
  intros H. apply set_eq. intros x. rewrite !elem_of_map. split; intros (p & -> & Hp); exists p; split; auto.
  - by rewrite H.
Qed.
Lemma ctl_gadget_cong T (m m' : string → string) (lit lit' : string → string → Prop) n (fi : gset string) :
  m n = m' n → (∀ p, p ∈ fi → m p = m' p) → (∀ h p, p ∈ fi → lit h p → lit' h p) →
  ctl_gadget T m lit n fi → ctl_gadget T m' lit' n fi.
Proof.
  intros Hn Hfi Hl (Hty & x & Hx & z & Hz & Hf & Hxn & Hzt & Hall & Hex). unfold ctl_gadget. rewrite <- Hn.
  split; [done|]. exists x. split; [done|]. exists z. split; [done|]. split; [done|].
  split; [by rewrite <- (set_map_cong m m' fi Hfi)|]. split; [done|]. split.
  - intros h Hh. destruct (Hall h Hh) as (p & Hp & Hlit). exists p. split; [done|]. by apply Hl.
  - intros p Hp. destruct (Hex p Hp) as (h & Hh & Hlit). exists h. split; [done|]. by apply Hl.
Qed.
Lemma comp_ok_cong T (m m' : string → string) n i : m n = m' n → (∀ p, p ∈ n_fi i → m p = m' p) →
  comp_ok T m n i → comp_ok T m' n i.
Proof.
  intros Hn Hfi. unfold comp_ok.
  assert (H0 : ∀ h p, p ∈ n_fi i → lit0 T m h p → lit0 T m' h p).
  { intros h p Hp. unfold lit0. by rewrite (Hfi p Hp). }
  assert (H1 : ∀ h p, p ∈ n_fi i → lit1 T m h p → lit1 T m' h p).
  { intros h p Hp. unfold lit1. by rewrite (Hfi p Hp). }
  destruct (n_ty i); try done; rewrite <- ?Hn.
  - intros (p & Hp & Hf & Hnode). exists p. split; [done|]. split; [done|]. by rewrite <- (Hfi p Hp).
  - by apply ctl_gadget_cong.
  - by apply ctl_gadget_cong.
  - intros [? ?]. split; [done|]. by rewrite <- (set_map_cong m m' _ Hfi).
  - intros (p & Hp & Hf & Hnode). exists p. split; [done|]. split; [done|]. by rewrite <- (Hfi p Hp).
  - by apply ctl_gadget_cong.
  - by apply ctl_gadget_cong.
  - intros [? ?]. split; [done|]. by rewrite <- (set_map_cong m m' _ Hfi).
  - done.
  - done.
  - done.
Qed.

Lemma mu_at_mapping c n : n ∈ dom c → mu_at (mapping c) n = mu_name c n.
Proof. intros Hn. unfold mu_at. by rewrite (proj2 (lookup_mapping c n (mu_name c n)) (conj Hn eq_refl)). Qed.

Lemma comp_ok_input T m n i j : comp_ok T m n i → T !! m n = Some j → n_ty j = Input → n_ty i = Input.
Proof.
  unfold comp_ok. intros Hc Hj Hin.
  assert (Hty : ∀ g, ty T (m n) = Some g → g = Input) by (intros g; unfold ty; rewrite Hj; simpl; congruence).
  destruct (n_ty i); try done.
  - destruct Hc as (p & _ & _ & [H _]). by apply Hty in H.
  - destruct Hc as [H _]. by apply Hty in H.
  - destruct Hc as [H _]. by apply Hty in H.
  - destruct Hc as [_ [H _]]. by apply Hty in H.
  - destruct Hc as (p & _ & _ & [H _]). by apply Hty in H.
  - destruct Hc as [H _]. by apply Hty in H.
  - destruct Hc as [H _]. by apply Hty in H.
  - destruct Hc as [_ [H _]]. by apply Hty in H.
  - destruct Hc as [H _]. by apply Hty in H.
  - destruct Hc as [H _]. by apply Hty in H.
Qed.

Theorem model_shape C nodes fo R μ : lint_clean C → closed (c_g C) → ternary C nodes fo = Ok (R, μ) →
  tern_shape (c_g C) (c_g R) μ.
Proof.
  intros Hl Hcl H. unfold ternary in H. rewrite gen_ttab_ok in H.
  apply ternary_ok_inv in H as (Hb & Ho & -> & _ & _ & Hrun).
  destruct (lint_facts C Hl Hb) as [Hnd Har]. set (c := c_g C) in *.
  unfold orders_ok in Ho. apply andb_true_iff in Ho as [Ho Hfo]. apply andb_true_iff in Ho as [Hnodup Hset].
  apply bool_decide_eq_true in Hnodup, Hset.
  assert (Hin : ∀ n, n ∈ dom c → n ∈ nodes) by (intros n Hn; rewrite <- Hset in Hn; by apply elem_of_list_to_set in Hn).
  assert (Hnodes : ∀ n i, c !! n = Some i → list_to_set (fo n) = n_fi i ∧ (∀ p, p ∈ n_fi i → p ∈ dom c) ∧ arity_ok i).
  { intros n i Hi. split; [|split; [intros p Hp; eapply Hcl; eauto|by eapply Har]].
    rewrite forallb_forall in Hfo. assert (n ∈ nodes) as Hn%elem_of_list_In by (apply Hin, elem_of_dom; eauto).
    specialize (Hfo n Hn). apply andb_true_iff in Hfo as [_ Hf]. apply bool_decide_eq_true in Hf.
    rewrite Hf. unfold fanin. by rewrite Hi. }
  assert (Hall : ∀ n, n ∈ nodes → n ∈ dom c ∧ n ∉ ([] : list string)).
  { intros n Hn. split; [rewrite <- Hset; by apply elem_of_list_to_set|apply not_elem_of_nil]. }
  destruct (inv_run c fo Hnd Hnodes nodes c [] (c_g R) (inv_init c) Hnodup Hall Hrun) as (HA & HB & _ & HD).
  assert (HB' : ∀ n i, c !! n = Some i → comp_ok (c_g R) (mu_name c) n i).
  { intros n i Hi. apply HB; [|done]. rewrite app_nil_r. apply elem_of_list_In. apply (proj1 (in_rev nodes n)). apply elem_of_list_In.
    apply Hin, elem_of_dom. eauto. }
  split; [apply dom_mapping|]. split.
  - intros n i Hi. split; [by apply HA|].
    apply (comp_ok_cong (c_g R) (mu_name c) (mu_at (mapping c)) n i); [| |by apply HB'].
    + symmetry. apply mu_at_mapping, elem_of_dom. eauto.
    + intros p Hp. symmetry. apply mu_at_mapping. eapply Hcl; eauto.
  - apply set_eq. intros k. rewrite elem_of_union, elem_of_map. split.
    + intros (j & Hj & Hty)%elem_of_inputs.
      destruct (HD k j Hj) as [Hk|[(n & Hn & -> & Hor)|Hh]].
      * left. apply elem_of_dom in Hk as [i Hi]. apply elem_of_inputs. exists i. split; [done|]. rewrite (HA k i Hi) in Hj. congruence.
      * right. exists n. split; [symmetry; by apply mu_at_mapping|].
        destruct Hor as [_ | ->]; [|done]. apply elem_of_dom in Hn as [i Hi]. apply elem_of_inputs. exists i. split; [done|].
        eapply comp_ok_input; eauto.
      * destruct Hh as (_ & _ & _ & _ & [E|[E|[E|[E _]]]]); congruence.
    + intros [(i & Hi & Hty)%elem_of_inputs|(n & -> & (i & Hi & Hty)%elem_of_inputs)].
      * apply elem_of_inputs. exists i. split; [by apply HA|done].
      * rewrite mu_at_mapping by (apply elem_of_dom; eauto).
        pose proof (HB' n i Hi) as Hc. unfold comp_ok in Hc. rewrite Hty in Hc. destruct Hc as [H1 _].
        unfold ty in H1. destruct (c_g R !! mu_name c n) as [j|] eqn:E; [|done]. simpl in H1.
        apply elem_of_inputs. exists j. split; [done|congruence].
Qed.

(* ---------- the result is lint-clean ---------- *)
Lemma model_inv C nodes fo R μ : lint_clean C → closed (c_g C) → ternary C nodes fo = Ok (R, μ) →
  c_bbs C = ∅ ∧ c_bbs R = ∅ ∧ μ = mapping (c_g C) ∧
  (∀ k j, c_g C !! k = Some j → c_g R !! k = Some j) ∧
  (∀ n i, c_g C !! n = Some i → comp_ok (c_g R) (mu_name (c_g C)) n i ∧ arity_ok i ∧ has_dot n = false) ∧
  (∀ k j, c_g R !! k = Some j → k ∈ dom (c_g C) ∨ (∃ n, n ∈ dom (c_g C) ∧ k = mu_name (c_g C) n) ∨ helper_ok (c_g C) k j).
Proof.
  intros Hl Hcl H. unfold ternary in H. rewrite gen_ttab_ok in H.
  apply ternary_ok_inv in H as (Hb & Ho & -> & HbR & _ & Hrun).
  destruct (lint_facts C Hl Hb) as [Hnd Har]. set (c := c_g C) in *.
  unfold orders_ok in Ho. apply andb_true_iff in Ho as [Ho Hfo]. apply andb_true_iff in Ho as [Hnodup Hset].
  apply bool_decide_eq_true in Hnodup, Hset.
  assert (Hin : ∀ n, n ∈ dom c → n ∈ nodes) by (intros n Hn; rewrite <- Hset in Hn; by apply elem_of_list_to_set in Hn).
  assert (Hnodes : ∀ n i, c !! n = Some i → list_to_set (fo n) = n_fi i ∧ (∀ p, p ∈ n_fi i → p ∈ dom c) ∧ arity_ok i).
  { intros n i Hi. split; [|split; [intros p Hp; eapply Hcl; eauto|by eapply Har]].
    rewrite forallb_forall in Hfo. assert (n ∈ nodes) as Hn%elem_of_list_In by (apply Hin, elem_of_dom; eauto).
    specialize (Hfo n Hn). apply andb_true_iff in Hfo as [_ Hf]. apply bool_decide_eq_true in Hf.
    rewrite Hf. unfold fanin. by rewrite Hi. }
  assert (Hall : ∀ n, n ∈ nodes → n ∈ dom c ∧ n ∉ ([] : list string)).
  { intros n Hn. split; [rewrite <- Hset; by apply elem_of_list_to_set|apply not_elem_of_nil]. }
  destruct (inv_run c fo Hnd Hnodes nodes c [] (c_g R) (inv_init c) Hnodup Hall Hrun) as (HA & HB & _ & HD).
  split; [done|]. split; [by rewrite HbR|]. split; [done|]. split; [done|]. split.
  - intros n i Hi. split; [|split; [by eapply Har|apply Hnd, elem_of_dom; eauto]].
    apply HB; [|done]. rewrite app_nil_r. apply elem_of_list_In. apply (proj1 (in_rev nodes n)). apply elem_of_list_In.
    apply Hin, elem_of_dom. eauto.
  - intros k j Hj. destruct (HD k j Hj) as [?|[(n & ? & ? & _)|?]]; eauto.
Qed.

(* what lint asks of one node (default flags), when the node is not a blackbox output *)
Definition entry_ok (k : string) (i : ninfo) : Prop :=
  n_ty i ∈ doc_supported ∧ has_dot k = false ∧ (n_ty i ∈ doc_no_fanin → n_fi i = ∅) ∧ n_ty i ≠ BbOut ∧
  (n_ty i ∈ doc_single → size (n_fi i) ≤ 1) ∧ (n_ty i ∈ (doc_single ++ doc_multi)%list → n_fi i ≠ ∅).
Lemma entry_ok_multi k i : has_dot k = false → n_ty i = And ∨ n_ty i = Or ∨ n_ty i = Nor → n_fi i ≠ ∅ → entry_ok k i.
Proof.
  intros Hd Ht Hf. unfold entry_ok, doc_supported, doc_no_fanin, doc_single, doc_multi.
  destruct Ht as [-> | [-> | ->]]; (split; [set_solver|]); (split; [done|]); (split; [set_solver|]); (split; [done|]); (split; [set_solver|done]).
Qed.
Lemma entry_ok_single k i : has_dot k = false → n_ty i = Buf ∨ n_ty i = Not → size (n_fi i) = 1 → entry_ok k i.
Proof.
  intros Hd Ht Hf. unfold entry_ok, doc_supported, doc_no_fanin, doc_single, doc_multi.
  assert (n_fi i ≠ ∅) by (intros E; rewrite E, size_empty in Hf; done).
  destruct Ht as [-> | ->]; (split; [set_solver|]); (split; [done|]); (split; [set_solver|]); (split; [done|]); (split; [intros _; lia|done]).
Qed.
Lemma entry_ok_zero k i : has_dot k = false → n_ty i = C0 ∨ n_ty i = Input → n_fi i = ∅ → entry_ok k i.
Proof.
  intros Hd Ht Hf. unfold entry_ok, doc_supported, doc_no_fanin, doc_single, doc_multi.
  destruct Ht as [-> | ->]; (split; [set_solver|]); (split; [done|]); (split; [done|]); (split; [done|]); (split; [set_solver|set_solver]).
Qed.
Lemma entry_ok_not_violates C k i : c_bbs C = ∅ → entry_ok k i → ¬ node_violates C default_flags k i.
Proof.
  intros Hb (H1 & H2 & H3 & H4 & H5 & H6) [H|[[H _]|[[H H']|[[H _]|[[H H']|[(_ & H & H')|[[H _]|[H _]]]]]]]].
  - done.
  - congruence.
  - by apply H3 in H.
  - done.
  - apply H5 in H. lia.
  - by apply H6 in H.
  - discriminate H.
  - discriminate H.
Qed.

Theorem model_lint C nodes fo R μ : lint_clean C → closed (c_g C) → ternary C nodes fo = Ok (R, μ) → lint_clean R.
Proof.
  intros Hl Hcl H. destruct (model_inv C nodes fo R μ Hl Hcl H) as (Hb & HbR & _ & HA & HB & HD).
  assert (Hnv : ¬ violates C default_flags) by (apply (lint_ok_iff gen_tables gen_tables_ok); exact Hl).
  apply (lint_ok_iff gen_tables gen_tables_ok). intros [(k & j & Hj & Hv)|(inst & d & Hd & _)]; [|by rewrite HbR in Hd].
  destruct (HD k j Hj) as [Hk|[(n & Hn & ->)|Hh]].
  - (* a node of c: the same entry, so the same verdict as in C *)
    apply elem_of_dom in Hk as [i Hi]. rewrite (HA k i Hi) in Hj. injection Hj as <-.
    destruct (HB k i Hi) as (Hc & _ & Hdot).
    assert (Hbb : n_ty i ≠ BbOut) by (intros E; unfold comp_ok in Hc; by rewrite E in Hc).
    apply Hnv. left. exists k, i. split; [done|].
    destruct Hv as [Hv|[[Hv _]|[Hv|[[Hv _]|[Hv|[Hv|[Hv|[Hv _]]]]]]]].
    + by left.
    + congruence.
    + right. right. by left.
    + done.
    + do 4 right. by left.
    + do 5 right. by left.
    + do 6 right. by left.
    + discriminate Hv.
  - (* a companion *)
    apply elem_of_dom in Hn as [i Hi]. destruct (HB n i Hi) as (Hc & Har & Hdot).
    set (c := c_g C) in *. set (m := mu_name c) in *.
    assert (Hd : has_dot (m n) = false) by (apply uid_in_no_dot; by rewrite has_dot_app, Hdot).
    assert (Hty : ty (c_g R) (m n) = Some (n_ty j)) by (unfold ty; by rewrite Hj).
    assert (Hfa : fanin (c_g R) (m n) = n_fi j) by (unfold fanin; by rewrite Hj).
    refine (entry_ok_not_violates R _ j HbR _ Hv).
    assert (Hctl : ∀ lit, ctl_gadget (c_g R) m lit n (n_fi i) → entry_ok (m n) j).
    { intros lit (H1 & x & Hx & _). rewrite Hty in H1. rewrite Hfa in Hx. apply entry_ok_multi; [done|left; congruence|set_solver]. }
    assert (Hsingle : set_Exists (λ p, n_fi i = {[p]} ∧ node_is (c_g R) (m n) Buf {[m p]}) (n_fi i) → entry_ok (m n) j).
    { intros (p & _ & _ & [H1 H2]). rewrite Hty in H1. rewrite Hfa in H2. apply entry_ok_single; [done|left; congruence|].
      rewrite H2. apply size_singleton. }
    assert (Hpar : n_fi i ≠ ∅ ∧ node_is (c_g R) (m n) Or (set_map m (n_fi i)) → entry_ok (m n) j).
    { intros [Hne [H1 H2]]. rewrite Hty in H1. rewrite Hfa in H2. apply entry_ok_multi; [done|right; left; congruence|].
      rewrite H2. apply set_choose_L in Hne as [p Hp]. apply (ne_empty_elem _ (m p)). apply elem_of_map. eauto. }
    assert (Hzero : ∀ g, g = C0 ∨ g = Input → node_is (c_g R) (m n) g ∅ → entry_ok (m n) j).
    { intros g Hg [H1 H2]. rewrite Hty in H1. rewrite Hfa in H2. apply entry_ok_zero; [done| |done].
      destruct Hg as [-> | ->]; [left|right]; congruence. }
    unfold comp_ok in Hc. destruct (n_ty i); try done; eauto.
  - (* a helper *)
    destruct Hh as (_ & Hdot & _ & Hne & Ht).
    refine (entry_ok_not_violates R _ j HbR _ Hv).
    destruct Ht as [E|[E|[E|[E Hs]]]].
    + apply entry_ok_multi; auto.
    + apply entry_ok_multi; auto.
    + apply entry_ok_multi; auto.
    + apply entry_ok_single; auto.
Qed.
