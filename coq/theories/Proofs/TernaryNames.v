(* C10: facts about the names made by tx.ternary: uid returns a fresh name of the form base or base_<digits>;
   companion names (<n>_X, <n>_X_<k>) determine n and never equal a helper name (<x>_x_in_fi, <x>_0_not_in_fi,
   <x>_1_not_in_fi, <x>_is_0, <x>_is_1, <x>_not_x, with or without a _<k> suffix); uid adds no dot. *)
From Coq Require Import Ascii.
From stdpp Require Import strings gmap sets fin_sets pretty.
From CG Require Import Model.Lint Model.Ternary.
Open Scope string_scope.

(* ---------- uid is fresh (pigeonhole; same argument as Proofs/ApiProofs.v, copied to keep the files independent) ---------- *)
Lemma uid_loop_fresh fuel used n i (S0 : gset string) :
  S0 ⊆ used → (∀ s, s ∈ S0 → ∃ j, (j < i)%N ∧ s = n ++ "_" ++ pretty j) → size (used ∖ S0) < fuel →
  uid_loop fuel used n i ∉ used.
Proof.
  revert i S0. induction fuel as [|f IH]; intros i S0 HT Hj Hs; [lia|]. simpl.
  destruct (bool_decide (n ++ "_" ++ pretty i ∈ used)) eqn:E; [|by apply bool_decide_eq_false in E].
  apply bool_decide_eq_true in E.
  set (cand := n ++ "_" ++ pretty i) in *.
  assert (HcT : cand ∉ S0).
  { intros Hin. destruct (Hj _ Hin) as (j & Hlt & Heq). unfold cand in Heq.
    apply (inj (String.append n)), (inj (String.append "_")), (inj pretty) in Heq. lia. }
  set (i' := if (i <? 10)%N then (i + 1)%N else (i * 7)%N).
  assert (Hi' : (i < i')%N) by (unfold i'; destruct (N.ltb_spec i 10); lia).
  apply (IH i' (S0 ∪ {[cand]})).
  - set_solver.
  - intros s [Hs'|Hs']%elem_of_union.
    + destruct (Hj _ Hs') as (j & ? & ?). exists j. split; [lia|done].
    + apply elem_of_singleton in Hs' as ->. exists i. done.
  - assert (Heq : used ∖ S0 = {[cand]} ∪ used ∖ (S0 ∪ {[cand]})).
    { apply set_eq. intros x. destruct (decide (x = cand)); set_solver. }
    rewrite Heq, size_union in Hs by set_solver. rewrite size_singleton in Hs. lia.
Qed.
Lemma uid_in_fresh used n : uid_in used n ∉ used.
Proof.
  unfold uid_in. destruct (bool_decide (n ∈ used)) eqn:E; [|by apply bool_decide_eq_false in E].
  apply (uid_loop_fresh _ _ _ _ ∅); [set_solver|set_solver|]. rewrite difference_empty_L. lia.
Qed.
Lemma uid_fresh c n : uid c n ∉ dom c.
Proof. apply uid_in_fresh. Qed.

(* ---------- the form of a uid name ---------- *)
Definition sfx (base : string) (j : N) : string := base ++ "_" ++ pretty j.
Lemma uid_loop_form fuel used n i : ∃ j, uid_loop fuel used n i = sfx n j.
Proof.
  revert i. induction fuel as [|f IH]; intros i; simpl; [by exists i|].
  destruct (bool_decide _); [apply IH|by exists i].
Qed.
Lemma uid_in_form used n : uid_in used n = n ∨ ∃ j, uid_in used n = sfx n j.
Proof. unfold uid_in. destruct (bool_decide _); [right; apply uid_loop_form|by left]. Qed.

(* ---------- strings as character lists ---------- *)
Definition chars (s : string) : list ascii := list_ascii_of_string s.
Lemma chars_app a b : chars (a ++ b) = (chars a ++ chars b)%list.
Proof. unfold chars. induction a as [|x a IH]; simpl; [done|]. f_equal. exact IH. Qed.
Lemma chars_inj a b : chars a = chars b → a = b.
Proof. unfold chars. intros H. by rewrite <- (string_of_list_ascii_of_string a), H, string_of_list_ascii_of_string. Qed.

Lemma sapp_cons x (a b : string) : String x a ++ b = String x (a ++ b). Proof. reflexivity. Qed.
Lemma sapp_assoc (a b c : string) : (a ++ b) ++ c = a ++ (b ++ c).
Proof. induction a as [|x a IH]; [done|]. rewrite !sapp_cons. by rewrite IH. Qed.
Definition is_digit (a : ascii) : bool := bool_decide (a ∈ ["0"; "1"; "2"; "3"; "4"; "5"; "6"; "7"; "8"; "9"]%char).
Definition digits (s : string) : Prop := Forall (λ a, is_digit a = true) (chars s).
Lemma pretty_N_char_digit x : is_digit (pretty_N_char x) = true.
Proof. unfold pretty_N_char. by repeat case_match. Qed.
Lemma pretty_N_go_digits x s : ∃ d, pretty_N_go x s = d ++ s ∧ digits d.
Proof.
  revert s. induction (N.lt_wf_0 x) as [x _ IH]; intros s.
  assert (x = 0 ∨ 0 < x)%N as [->|?] by lia.
  - exists "". rewrite pretty_N_go_0. split; [done|constructor].
  - rewrite pretty_N_go_step by done.
    destruct (IH (x `div` 10)%N (N.div_lt x 10 ltac:(done) ltac:(done)) (String (pretty_N_char (x `mod` 10)) s)) as (d & -> & Hd).
    exists (d ++ String (pretty_N_char (x `mod` 10)) ""). split.
    + by rewrite sapp_assoc.
    + unfold digits in *. rewrite chars_app. apply Forall_app. split; [done|].
      simpl. constructor; [apply pretty_N_char_digit|constructor].
Qed.
Lemma pretty_digits (j : N) : digits (pretty j).
Proof.
  unfold pretty, pretty_N. destruct (decide (j = 0%N)).
  - repeat constructor.
  - destruct (pretty_N_go_digits j "") as (d & -> & Hd). unfold digits. rewrite chars_app, app_nil_r. done.
Qed.

(* signature of a name: its reversed characters after removing the trailing digits *)
Fixpoint strip (l : list ascii) : list ascii :=
  match l with a :: r => if is_digit a then strip r else l | [] => [] end.
Definition sig (s : string) : list ascii := strip (rev (chars s)).
Lemma strip_digits d l : Forall (λ a, is_digit a = true) d → strip (d ++ l) = strip l.
Proof. induction 1 as [|a d Ha _ IH]; simpl; [done|]. by rewrite Ha. Qed.
Lemma sig_sfx base j : sig (sfx base j) = "_"%char :: rev (chars base).
Proof.
  unfold sig, sfx. rewrite !chars_app, !rev_app_distr.
  rewrite <- app_assoc, strip_digits; [done|]. apply Forall_rev, pretty_digits.
Qed.
(* a name whose last character is not a digit *)
Lemma sig_nodigit x (a : ascii) : is_digit a = false → sig (x ++ String a "") = a :: rev (chars x).
Proof. intros Ha. unfold sig. rewrite chars_app, rev_app_distr. simpl. by rewrite Ha. Qed.

(* ---------- companion names ---------- *)
Lemma sig_comp_plain n : sig (n ++ "_X") = "X"%char :: "_"%char :: rev (chars n).
Proof.
  change "_X" with ("_" ++ String "X" ""). rewrite <- sapp_assoc, sig_nodigit by done.
  by rewrite chars_app, rev_app_distr.
Qed.
Lemma sig_comp_sfx n j : sig (sfx (n ++ "_X") j) = "_"%char :: "X"%char :: "_"%char :: rev (chars n).
Proof. rewrite sig_sfx. change "_X" with ("_" ++ String "X" ""). by rewrite !chars_app, !rev_app_distr. Qed.

Lemma rev_chars_inj a b : rev (chars a) = rev (chars b) → a = b.
Proof. intros H. apply chars_inj. by rewrite <- (rev_involutive (chars a)), H, rev_involutive. Qed.

Lemma comp_name_inj U U' n n' : uid_in U (n ++ "_X") = uid_in U' (n' ++ "_X") → n = n'.
Proof.
  intros H. apply (f_equal sig) in H.
  destruct (uid_in_form U (n ++ "_X")) as [E|[j E]], (uid_in_form U' (n' ++ "_X")) as [E'|[j' E']];
    rewrite E, E' in H; rewrite ?sig_comp_plain, ?sig_comp_sfx in H; try discriminate; apply rev_chars_inj; congruence.
Qed.

(* ---------- helper names ---------- *)
Definition helper_suffixes : list string := ["_x_in_fi"; "_0_not_in_fi"; "_1_not_in_fi"; "_is_0"; "_is_1"; "_not_x"].
(* first two characters of the signature of a helper name: never "X_" (plain companion) nor "_X" (suffixed companion) *)
Lemma helper_sig x s U : s ∈ helper_suffixes →
  ∃ a b r, sig (uid_in U (x ++ s)) = a :: b :: r ∧ (a, b) ≠ ("X"%char, "_"%char) ∧ (a, b) ≠ ("_"%char, "X"%char).
Proof.
  intros Hs. unfold helper_suffixes in Hs.
  assert (Hplain : ∃ a b r, sig (x ++ s) = a :: b :: r ∧ (a, b) ≠ ("X"%char, "_"%char) ∧ (a, b) ≠ ("_"%char, "X"%char)).
  { unfold sig. rewrite chars_app, rev_app_distr.
    repeat (apply elem_of_cons in Hs as [->|Hs]); [..|by apply elem_of_nil in Hs]; simpl; eauto 10. }
  assert (Hsfx : ∀ j, ∃ a b r, sig (sfx (x ++ s) j) = a :: b :: r ∧ (a, b) ≠ ("X"%char, "_"%char) ∧ (a, b) ≠ ("_"%char, "X"%char)).
  { intros j. rewrite sig_sfx, chars_app, rev_app_distr.
    repeat (apply elem_of_cons in Hs as [->|Hs]); [..|by apply elem_of_nil in Hs]; simpl; eauto 10. }
  destruct (uid_in_form U (x ++ s)) as [->|[j ->]]; auto.
Qed.
Lemma helper_ne_comp x s U U' n : s ∈ helper_suffixes → uid_in U (x ++ s) ≠ uid_in U' (n ++ "_X").
Proof.
  intros Hs H. apply (f_equal sig) in H.
  destruct (helper_sig x s U Hs) as (a & b & r & Hr & H1 & H2). rewrite Hr in H.
  destruct (uid_in_form U' (n ++ "_X")) as [E|[j E]]; rewrite E in H; rewrite ?sig_comp_plain, ?sig_comp_sfx in H; congruence.
Qed.

(* ---------- dots ---------- *)
(* has_dot is the one of Model/Lint.v *)
Lemma has_dot_app a b : has_dot (a ++ b) = has_dot a || has_dot b.
Proof. induction a as [|x a IH]; [done|]. rewrite sapp_cons. simpl. destruct (Ascii.eqb x "."); [done|apply IH]. Qed.
Lemma digits_no_dot s : digits s → has_dot s = false.
Proof.
  unfold digits, chars. induction s as [|a s IH]; simpl; [done|]. intros H. apply Forall_cons in H as [Ha Hs].
  destruct (Ascii.eqb_spec a "."); [subst; done|]. by apply IH.
Qed.
Lemma uid_in_no_dot U b : has_dot b = false → has_dot (uid_in U b) = false.
Proof.
  intros Hb. destruct (uid_in_form U b) as [->|[j ->]]; [done|].
  unfold sfx. rewrite !has_dot_app, Hb, (digits_no_dot _ (pretty_digits j)). done.
Qed.
