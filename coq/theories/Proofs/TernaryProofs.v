(* C10: the ternary encoding computes Kleene three-valued simulation. *)
From stdpp Require Import strings gmap sets fin_sets.
From CG Require Import Model.Ternary.
Open Scope string_scope.

(* ---------- the documented table (docstring / property text): companion and helper gate types ---------- *)
Definition doc_ttab : ttab := {|
  l_and := [And; Nand]; l_or := [Or; Nor]; l_buf := [Buf; Not]; l_par := [Xor; Xnor]; l_const := [C0; C1]; l_input := [Input];
  a_comp := And; a_xin := Or; a_ctl := Nor; a_lit := Nor;
  o_comp := And; o_xin := Or; o_ctl := Nor; o_lit := And; o_neg := Not;
  b_comp := Buf; p_comp := Or; k_comp := C0; i_comp := Input |}.
Global Instance ttab_eq_dec : EqDecision ttab. Proof. solve_decision. Defined.

(* ---------- the gadget structure of a ternary circuit T over c with companion map m, name-agnostic ---------- *)
Definition node_is (T : circuit) (k : string) (g : gtype) (fi : gset string) : Prop := ty T k = Some g ∧ fanin T k = fi.
Global Instance node_is_dec T k g fi : Decision (node_is T k g fi). Proof. unfold node_is. apply _. Defined.

Section gadgets.
  Context (T : circuit) (m : string → string).
  (* companion = AND(x_in_fi, ctl); x_in_fi = OR of the fan-in companions; ctl = NOR of one literal node per fan-in *)
  Definition ctl_gadget (lit : string → string → Prop) (n : string) (fi : gset string) : Prop :=
    ty T (m n) = Some And ∧
    set_Exists (λ xn, set_Exists (λ zn,
        fanin T (m n) = {[xn; zn]} ∧ node_is T xn Or (set_map m fi) ∧ ty T zn = Some Nor ∧
        set_Forall (λ h, set_Exists (λ p, lit h p) fi) (fanin T zn) ∧
        set_Forall (λ p, set_Exists (λ h, lit h p) (fanin T zn)) fi) (fanin T (m n))) (fanin T (m n)).
  (* "p is definitely 0" = NOR(p, m p);  "p is definitely 1" = AND(p, NOT(m p)) *)
  Definition lit0 (h p : string) : Prop := node_is T h Nor {[p; m p]}.
  Definition lit1 (h p : string) : Prop :=
    ty T h = Some And ∧ set_Exists (λ q, fanin T h = {[p; q]} ∧ node_is T q Not {[m p]}) (fanin T h).
  Definition comp_ok (n : string) (i : ninfo) : Prop :=
    match n_ty i with
    | And | Nand => ctl_gadget lit0 n (n_fi i)
    | Or | Nor => ctl_gadget lit1 n (n_fi i)
    | Buf | Not => set_Exists (λ p, n_fi i = {[p]} ∧ node_is T (m n) Buf {[m p]}) (n_fi i)
    | Xor | Xnor => n_fi i ≠ ∅ ∧ node_is T (m n) Or (set_map m (n_fi i))
    | C0 | C1 => node_is T (m n) C0 ∅
    | Input => node_is T (m n) Input ∅
    | _ => False end.
  Global Instance lit0_dec h p : Decision (lit0 h p). Proof. unfold lit0. apply _. Defined.
  Global Instance lit1_dec h p : Decision (lit1 h p). Proof. unfold lit1. apply _. Defined.
  Global Instance ctl_gadget_dec lit `{∀ h p, Decision (lit h p)} n fi : Decision (ctl_gadget lit n fi).
  Proof. unfold ctl_gadget. apply _. Defined.
  Global Instance comp_ok_dec n i : Decision (comp_ok n i).
  Proof. unfold comp_ok. destruct (n_ty i); apply _. Defined.
End gadgets.

(* c is contained in T unchanged, every node has its companion gadget, companions are exactly one per node,
   and the only inputs of T are those of c and their companions *)
Definition tern_shape (c T : circuit) (μ : gmap string string) : Prop :=
  dom μ = dom c ∧
  map_Forall (λ n i, T !! n = Some i ∧ comp_ok T (mu_at μ) n i) c ∧
  inputs T = inputs c ∪ set_map (mu_at μ) (inputs c).
Global Instance tern_shape_dec c T μ : Decision (tern_shape c T μ). Proof. unfold tern_shape. apply _. Defined.
Definition shapeb (c T : circuit) (μ : gmap string string) : bool := bool_decide (tern_shape c T μ).
