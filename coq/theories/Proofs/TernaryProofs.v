(* C10: the ternary encoding computes Kleene three-valued simulation. *)
From stdpp Require Import strings gmap sets fin_sets.
From CG Require Import Model.Ternary.
Open Scope string_scope.

(* ---------- the documented table (docstring / property text): companion and helper gate types ---------- *)
Definition doc_ttab : ttab := {|
  l_and := [And; Nand]; l_or := [Or; Nor]; l_buf := [Buf; Not]; l_par := [Xor; Xnor]; l_const := [C0; C1]; l_input := [Input];
  a_comp := And; a_xin := Or; a_ctl := Nor; a_lit := Nor;
  o_comp := And; o_xin := Or; o_ctl := Nor; o_lit := And; o_neg := Not;
  b_comp := Buf; p_comp := Or; k_comp := C0; i_comp := Input |}.
Global Instance ttab_eq_dec : EqDecision ttab. Proof. solve_decision. Defined.

(* ---------- the gadget structure of a ternary circuit T over c with companion map m, name-agnostic ---------- *)
Definition node_is (T : circuit) (k : string) (g : gtype) (fi : gset string) : Prop := ty T k = Some g ∧ fanin T k = fi.
Global Instance node_is_dec T k g fi : Decision (node_is T k g fi). Proof. unfold node_is. apply _. Defined.

Section gadgets.
  Context (T : circuit) (m : string → string).
  (* companion = AND(x_in_fi, ctl); x_in_fi = OR of the fan-in companions; ctl = NOR of one literal node per fan-in *)
  Definition ctl_gadget (lit : string → string → Prop) (n : string) (fi : gset string) : Prop :=
    ty T (m n) = Some And ∧
    set_Exists (λ xn, set_Exists (λ zn,
        fanin T (m n) = {[xn; zn]} ∧ node_is T xn Or (set_map m fi) ∧ ty T zn = Some Nor ∧
        set_Forall (λ h, set_Exists (λ p, lit h p) fi) (fanin T zn) ∧
        set_Forall (λ p, set_Exists (λ h, lit h p) (fanin T zn)) fi) (fanin T (m n))) (fanin T (m n)).
  (* "p is definitely 0" = NOR(p, m p);  "p is definitely 1" = AND(p, NOT(m p)) *)
  Definition lit0 (h p : string) : Prop := node_is T h Nor {[p; m p]}.
  Definition lit1 (h p : string) : Prop :=
    ty T h = Some And ∧ set_Exists (λ q, fanin T h = {[p; q]} ∧ node_is T q Not {[m p]}) (fanin T h).
  Definition comp_ok (n : string) (i : ninfo) : Prop :=
    match n_ty i with
    | And | Nand => ctl_gadget lit0 n (n_fi i)
    | Or | Nor => ctl_gadget lit1 n (n_fi i)
    | Buf | Not => set_Exists (λ p, n_fi i = {[p]} ∧ node_is T (m n) Buf {[m p]}) (n_fi i)
    | Xor | Xnor => n_fi i ≠ ∅ ∧ node_is T (m n) Or (set_map m (n_fi i))
    | C0 | C1 => node_is T (m n) C0 ∅
    | Input => node_is T (m n) Input ∅
    | _ => False end.
  Global Instance lit0_dec h p : Decision (lit0 h p). Proof. unfold lit0. apply _. Defined.
  Global Instance lit1_dec h p : Decision (lit1 h p). Proof. unfold lit1. apply _. Defined.
  Global Instance ctl_gadget_dec lit `{∀ h p, Decision (lit h p)} n fi : Decision (ctl_gadget lit n fi).
  Proof. unfold ctl_gadget. apply _. Defined.
  Global Instance comp_ok_dec n i : Decision (comp_ok n i).
  Proof. unfold comp_ok. destruct (n_ty i); apply _. Defined.
End gadgets.

(* c is contained in T unchanged, every node has its companion gadget, companions are exactly one per node,
   and the only inputs of T are those of c and their companions *)
Definition tern_shape (c T : circuit) (μ : gmap string string) : Prop :=
  dom μ = dom c ∧
  map_Forall (λ n i, T !! n = Some i ∧ comp_ok T (mu_at μ) n i) c ∧
  inputs T = inputs c ∪ set_map (mu_at μ) (inputs c).
Global Instance tern_shape_dec c T μ : Decision (tern_shape c T μ). Proof. unfold tern_shape. apply _. Defined.
Definition shapeb (c T : circuit) (μ : gmap string string) : bool := bool_decide (tern_shape c T μ).

(* ================= boolean gates over fan-in sets (all arities) ================= *)
Lemma elem_fmap_elements {A} (f : string → A) (s : gset string) (a : A) : a ∈ f <$> elements s ↔ ∃ p, p ∈ s ∧ f p = a.
Proof. rewrite elem_of_list_fmap. setoid_rewrite elem_of_elements. naive_solver. Qed.
Lemma fold_andb_false (l : list bool) : foldr andb true l = false ↔ false ∈ l.
Proof.
  induction l as [|[] l IH]; simpl.
  - split; [done|]. by intros ?%elem_of_nil.
  - rewrite IH, elem_of_cons. naive_solver.
  - rewrite elem_of_cons. naive_solver.
Qed.
Lemma fold_orb_true (l : list bool) : foldr orb false l = true ↔ true ∈ l.
Proof.
  induction l as [|[] l IH]; simpl.
  - split; [done|]. by intros ?%elem_of_nil.
  - rewrite elem_of_cons. naive_solver.
  - rewrite IH, elem_of_cons. naive_solver.
Qed.
Lemma gv_and_false (v : val) (s : gset string) : foldr andb true (v <$> elements s) = false ↔ ∃ p, p ∈ s ∧ v p = false.
Proof. by rewrite fold_andb_false, elem_fmap_elements. Qed.
Lemma gv_or_true (v : val) (s : gset string) : foldr orb false (v <$> elements s) = true ↔ ∃ p, p ∈ s ∧ v p = true.
Proof. by rewrite fold_orb_true, elem_fmap_elements. Qed.
Lemma gv_And (v : val) (s : gset string) : gate_val And v s = true ↔ ∀ p, p ∈ s → v p = true.
Proof.
  unfold gate_val; simpl. destruct (foldr andb true _) eqn:E.
  - split; [|done]. intros _ p Hp. destruct (v p) eqn:Ep; [done|].
    assert (foldr andb true (v <$> elements s) = false) by (apply gv_and_false; eauto). congruence.
  - apply gv_and_false in E as (p & Hp & Ep). split; [done|]. intros H. rewrite H in Ep; done.
Qed.
Lemma gv_Or (v : val) (s : gset string) : gate_val Or v s = true ↔ ∃ p, p ∈ s ∧ v p = true.
Proof. unfold gate_val; simpl. apply gv_or_true. Qed.
Lemma gv_Nor (v : val) (s : gset string) : gate_val Nor v s = true ↔ ∀ p, p ∈ s → v p = false.
Proof.
  unfold gate_val; simpl. rewrite negb_true_iff. destruct (foldr orb false _) eqn:E.
  - apply gv_or_true in E as (p & Hp & Ep). split; [done|]. intros H. rewrite H in Ep; done.
  - split; [|done]. intros _ p Hp. destruct (v p) eqn:Ep; [|done].
    assert (foldr orb false (v <$> elements s) = true) by (apply gv_or_true; eauto). congruence.
Qed.
Lemma gv_And2 (v : val) (a b : string) : gate_val And v {[a; b]} = v a && v b.
Proof. apply eq_true_iff_eq. rewrite gv_And, andb_true_iff. set_solver. Qed.
Lemma gv_Nor2 (v : val) (a b : string) : gate_val Nor v {[a; b]} = negb (v a || v b).
Proof. apply eq_true_iff_eq. rewrite gv_Nor, negb_true_iff, orb_false_iff. set_solver. Qed.
Lemma gv_single t (v : val) (p : string) : gate_val t v {[p]} = xorb (g_inv t) (g_op t (v p) (g_unit t)).
Proof. unfold gate_val. by rewrite elements_singleton. Qed.

(* ================= Kleene folds (all arities) ================= *)
Section kfold.
  Context (x b : string → bool).
  Definition K3 (p : string) : tern := if x p then TX else B (b p).
  Lemma kand_fold l : foldr kand T1 (K3 <$> l) =
    if existsb (λ p, negb (x p) && negb (b p)) l then T0 else if existsb x l then TX else T1.
  Proof.
    induction l as [|a l IH]; [done|]. simpl. rewrite IH. unfold K3.
    destruct (x a), (b a), (existsb _ l), (existsb x l); reflexivity.
  Qed.
  Lemma kor_fold l : foldr kor T0 (K3 <$> l) =
    if existsb (λ p, negb (x p) && b p) l then T1 else if existsb x l then TX else T0.
  Proof.
    induction l as [|a l IH]; [done|]. simpl. rewrite IH. unfold K3.
    destruct (x a), (b a), (existsb _ l), (existsb x l); reflexivity.
  Qed.
  Lemma kxor_fold l : foldr kxor T0 (K3 <$> l) = if existsb x l then TX else B (foldr xorb false (b <$> l)).
  Proof.
    induction l as [|a l IH]; [done|]. simpl. rewrite IH. unfold K3.
    destruct (x a), (b a), (existsb x l), (foldr xorb false _); reflexivity.
  Qed.
End kfold.
Lemma existsb_elements (f : string → bool) (s : gset string) : existsb f (elements s) = true ↔ ∃ p, p ∈ s ∧ f p = true.
Proof. rewrite existsb_exists. setoid_rewrite <- elem_of_list_In. setoid_rewrite elem_of_elements. done. Qed.
Lemma existsb_elements_false (f : string → bool) (s : gset string) : existsb f (elements s) = false ↔ ∀ p, p ∈ s → f p = false.
Proof.
  destruct (existsb f (elements s)) eqn:E.
  - apply existsb_elements in E as (p & Hp & Ep). split; [done|]. intros H. rewrite H in Ep; done.
  - split; [|done]. intros _ p Hp. destruct (f p) eqn:Ep; [|done].
    assert (existsb f (elements s) = true) by (apply existsb_elements; eauto). congruence.
Qed.
Lemma B_negb b : B (negb b) = knot (B b). Proof. by destruct b. Qed.

(* ================= one lemma per gate family ================= *)
Section family.
  Context (v : val) (m : string → string).
  Definition Kv (n : string) : tern := if v (m n) then TX else B (v n).
  Lemma Kv_K3 l : Kv <$> l = K3 (λ p, v (m p)) v <$> l. Proof. done. Qed.

  (* and / nand: X iff some fan-in is X and none is a definite 0 *)
  Lemma and_family t n (fi : gset string) : t = And ∨ t = Nand →
    v n = gate_val t v fi →
    (v (m n) = true ↔ (∃ p, p ∈ fi ∧ v (m p) = true) ∧ ∀ p, p ∈ fi → v (m p) = false → v p = true) →
    Kv n = kgate t (Kv <$> elements fi).
  Proof.
    intros Ht Hn Hx.
    assert (Hand : gate_val And v fi = true ↔ ∀ p, p ∈ fi → v p = true) by apply gv_And.
    assert (Hcore : (if v (m n) then TX else B (gate_val And v fi)) = foldr kand T1 (Kv <$> elements fi)).
    { rewrite Kv_K3, kand_fold.
      destruct (existsb (λ p, negb (v (m p)) && negb (v p)) (elements fi)) eqn:E0.
      - apply existsb_elements in E0 as (p & Hp & [E1 E2]%andb_true_iff). apply negb_true_iff in E1, E2.
        destruct (v (m n)) eqn:Em.
        + destruct Hx as [Hx _]. destruct (Hx eq_refl) as [_ H]. rewrite (H p Hp E1) in E2. done.
        + destruct (gate_val And v fi) eqn:Eg; [|done]. rewrite (proj1 Hand eq_refl p Hp) in E2. done.
      - assert (H0 : ∀ p, p ∈ fi → v (m p) = false → v p = true).
        { intros p Hp Hxp. pose proof (proj1 (existsb_elements_false _ _) E0 p Hp) as H. simpl in H.
          rewrite Hxp in H. simpl in H. by apply negb_false_iff in H. }
        destruct (existsb (λ p, v (m p)) (elements fi)) eqn:EX.
        + apply existsb_elements in EX. rewrite (proj2 Hx); [done|]. split; done.
        + pose proof (proj1 (existsb_elements_false _ _) EX) as HX.
          destruct (v (m n)) eqn:Em.
          * destruct Hx as [Hx _]. destruct (Hx eq_refl) as [(p & Hp & Ep) _]. rewrite (HX p Hp) in Ep. done.
          * rewrite (proj2 Hand); [done|]. intros p Hp. apply H0; auto. }
    unfold Kv at 1. destruct Ht as [-> | ->]; unfold kgate; simpl; rewrite <- Hcore, Hn.
    - done.
    - unfold gate_val at 1. simpl. fold (gate_val And v fi) . destruct (v (m n)); [done|].
      change (foldr andb true (v <$> elements fi)) with (xorb false (foldr andb true (v <$> elements fi))).
      fold (gate_val And v fi). apply B_negb.
  Qed.
End family.
