(* C10: the ternary encoding computes Kleene three-valued simulation. *)
From stdpp Require Import strings gmap sets fin_sets.
From CG Require Import Model.Ternary.
Open Scope string_scope.

(* ---------- the documented table (docstring / property text): companion and helper gate types ---------- *)
Definition doc_ttab : ttab := {|
  l_and := [And; Nand]; l_or := [Or; Nor]; l_buf := [Buf; Not]; l_par := [Xor; Xnor]; l_const := [C0; C1]; l_input := [Input];
  a_comp := And; a_xin := Or; a_ctl := Nor; a_lit := Nor;
  o_comp := And; o_xin := Or; o_ctl := Nor; o_lit := And; o_neg := Not;
  b_comp := Buf; p_comp := Or; k_comp := C0; i_comp := Input |}.
Global Instance ttab_eq_dec : EqDecision ttab. Proof. solve_decision. Defined.

(* ---------- the gadget structure of a ternary circuit T over c with companion map m, name-agnostic ---------- *)
Definition node_is (T : circuit) (k : string) (g : gtype) (fi : gset string) : Prop := ty T k = Some g ∧ fanin T k = fi.
Global Instance node_is_dec T k g fi : Decision (node_is T k g fi). Proof. unfold node_is. apply _. Defined.

Section gadgets.
  Context (T : circuit) (m : string → string).
  (* companion = AND(x_in_fi, ctl); x_in_fi = OR of the fan-in companions; ctl = NOR of one literal node per fan-in *)
  Definition ctl_gadget (lit : string → string → Prop) (n : string) (fi : gset string) : Prop :=
    ty T (m n) = Some And ∧
    set_Exists (λ xn, set_Exists (λ zn,
        fanin T (m n) = {[xn; zn]} ∧ node_is T xn Or (set_map m fi) ∧ ty T zn = Some Nor ∧
        set_Forall (λ h, set_Exists (λ p, lit h p) fi) (fanin T zn) ∧
        set_Forall (λ p, set_Exists (λ h, lit h p) (fanin T zn)) fi) (fanin T (m n))) (fanin T (m n)).
  (* "p is definitely 0" = NOR(p, m p);  "p is definitely 1" = AND(p, NOT(m p)) *)
  Definition lit0 (h p : string) : Prop := node_is T h Nor {[p; m p]}.
  Definition lit1 (h p : string) : Prop :=
    ty T h = Some And ∧ set_Exists (λ q, fanin T h = {[p; q]} ∧ node_is T q Not {[m p]}) (fanin T h).
  Definition comp_ok (n : string) (i : ninfo) : Prop :=
    match n_ty i with
    | And | Nand => ctl_gadget lit0 n (n_fi i)
    | Or | Nor => ctl_gadget lit1 n (n_fi i)
    | Buf | Not => set_Exists (λ p, n_fi i = {[p]} ∧ node_is T (m n) Buf {[m p]}) (n_fi i)
    | Xor | Xnor => n_fi i ≠ ∅ ∧ node_is T (m n) Or (set_map m (n_fi i))
    | C0 | C1 => node_is T (m n) C0 ∅
    | Input => node_is T (m n) Input ∅
    | _ => False end.
  Global Instance lit0_dec h p : Decision (lit0 h p). Proof. unfold lit0. apply _. Defined.
  Global Instance lit1_dec h p : Decision (lit1 h p). Proof. unfold lit1. apply _. Defined.
  Global Instance ctl_gadget_dec lit `{∀ h p, Decision (lit h p)} n fi : Decision (ctl_gadget lit n fi).
  Proof. unfold ctl_gadget. apply _. Defined.
  Global Instance comp_ok_dec n i : Decision (comp_ok n i).
  Proof. unfold comp_ok. destruct (n_ty i); apply _. Defined.
End gadgets.

(* c is contained in T unchanged, every node has its companion gadget, companions are exactly one per node,
   and the only inputs of T are those of c and their companions *)
Definition tern_shape (c T : circuit) (μ : gmap string string) : Prop :=
  dom μ = dom c ∧
  map_Forall (λ n i, T !! n = Some i ∧ comp_ok T (mu_at μ) n i) c ∧
  inputs T = inputs c ∪ set_map (mu_at μ) (inputs c).
Global Instance tern_shape_dec c T μ : Decision (tern_shape c T μ). Proof. unfold tern_shape. apply _. Defined.
Definition shapeb (c T : circuit) (μ : gmap string string) : bool := bool_decide (tern_shape c T μ).

(* ================= boolean gates over fan-in sets (all arities) ================= *)
Lemma elem_fmap_elements {A} (f : string → A) (s : gset string) (a : A) : a ∈ f <$> elements s ↔ ∃ p, p ∈ s ∧ f p = a.
Proof. rewrite elem_of_list_fmap. setoid_rewrite elem_of_elements. naive_solver. Qed.
Lemma fold_andb_false (l : list bool) : foldr andb true l = false ↔ false ∈ l.
Proof.
  induction l as [|[] l IH]; simpl.
  - split; [done|]. by intros ?%elem_of_nil.
  - rewrite IH, elem_of_cons. naive_solver.
  - rewrite elem_of_cons. naive_solver.
Qed.
Lemma fold_orb_true (l : list bool) : foldr orb false l = true ↔ true ∈ l.
Proof.
  induction l as [|[] l IH]; simpl.
  - split; [done|]. by intros ?%elem_of_nil.
  - rewrite elem_of_cons. naive_solver.
  - rewrite IH, elem_of_cons. naive_solver.
Qed.
Lemma gv_and_false (v : val) (s : gset string) : foldr andb true (v <$> elements s) = false ↔ ∃ p, p ∈ s ∧ v p = false.
Proof. by rewrite fold_andb_false, elem_fmap_elements. Qed.
Lemma gv_or_true (v : val) (s : gset string) : foldr orb false (v <$> elements s) = true ↔ ∃ p, p ∈ s ∧ v p = true.
Proof. by rewrite fold_orb_true, elem_fmap_elements. Qed.
Lemma gate_val_unfold t (v : val) (s : gset string) :
  gate_val t v s = (if g_inv t then negb else id) (foldr (g_op t) (g_unit t) (v <$> elements s)).
Proof. unfold gate_val. destruct (g_inv t); simpl; by destruct (foldr _ _ _). Qed.
Lemma gv_And (v : val) (s : gset string) : gate_val And v s = true ↔ ∀ p, p ∈ s → v p = true.
Proof.
  rewrite gate_val_unfold; simpl. destruct (foldr andb true _) eqn:E.
  - split; [|done]. intros _ p Hp. destruct (v p) eqn:Ep; [done|].
    assert (foldr andb true (v <$> elements s) = false) by (apply gv_and_false; eauto). congruence.
  - apply gv_and_false in E as (p & Hp & Ep). split; [done|]. intros H. rewrite H in Ep; done.
Qed.
Lemma gv_Or (v : val) (s : gset string) : gate_val Or v s = true ↔ ∃ p, p ∈ s ∧ v p = true.
Proof. rewrite gate_val_unfold; simpl. apply gv_or_true. Qed.
Lemma gv_Nor (v : val) (s : gset string) : gate_val Nor v s = true ↔ ∀ p, p ∈ s → v p = false.
Proof.
  rewrite gate_val_unfold; simpl. rewrite negb_true_iff. destruct (foldr orb false _) eqn:E.
  - apply gv_or_true in E as (p & Hp & Ep). split; [done|]. intros H. rewrite H in Ep; done.
  - split; [|done]. intros _ p Hp. destruct (v p) eqn:Ep; [|done].
    assert (foldr orb false (v <$> elements s) = true) by (apply gv_or_true; eauto). congruence.
Qed.
Lemma gv_And2 (v : val) (a b : string) : gate_val And v {[a; b]} = v a && v b.
Proof. apply eq_true_iff_eq. rewrite gv_And, andb_true_iff. set_solver. Qed.
Lemma gv_Nor2 (v : val) (a b : string) : gate_val Nor v {[a; b]} = negb (v a || v b).
Proof. apply eq_true_iff_eq. rewrite gv_Nor, negb_true_iff, orb_false_iff. set_solver. Qed.
Lemma gv_single t (v : val) (p : string) : gate_val t v {[p]} = xorb (g_inv t) (g_op t (v p) (g_unit t)).
Proof. unfold gate_val. by rewrite elements_singleton. Qed.
Lemma gate_val_inv_or t (v : val) (s : gset string) : g_op t = orb → g_unit t = false → gate_val t v s = xorb (g_inv t) (gate_val Or v s).
Proof. intros H1 H2. rewrite (gate_val_unfold Or). unfold gate_val. rewrite H1, H2. done. Qed.
Lemma gate_val_inv t (v : val) (s : gset string) : g_op t = andb → g_unit t = true → gate_val t v s = xorb (g_inv t) (gate_val And v s).
Proof. intros H1 H2. rewrite (gate_val_unfold And). unfold gate_val. rewrite H1, H2. done. Qed.

(* ================= Kleene folds (all arities) ================= *)
Section kfold.
  Context (x b : string → bool).
  Definition K3 (p : string) : tern := if x p then TX else B (b p).
  Lemma kand_fold l : foldr kand T1 (K3 <$> l) =
    if existsb (λ p, negb (x p) && negb (b p)) l then T0 else if existsb x l then TX else T1.
  Proof.
    induction l as [|a l IH]; [done|]. rewrite ?fmap_cons. cbn [foldr existsb]. rewrite IH. unfold K3.
    destruct (x a), (b a), (existsb _ l), (existsb x l); reflexivity.
  Qed.
  Lemma kor_fold l : foldr kor T0 (K3 <$> l) =
    if existsb (λ p, negb (x p) && b p) l then T1 else if existsb x l then TX else T0.
  Proof.
    induction l as [|a l IH]; [done|]. rewrite ?fmap_cons. cbn [foldr existsb]. rewrite IH. unfold K3.
    destruct (x a), (b a), (existsb _ l), (existsb x l); reflexivity.
  Qed.
  Lemma kxor_fold l : foldr kxor T0 (K3 <$> l) = if existsb x l then TX else B (foldr xorb false (b <$> l)).
  Proof.
    induction l as [|a l IH]; [done|]. rewrite ?fmap_cons. cbn [foldr existsb]. rewrite IH. unfold K3.
    destruct (x a), (b a), (existsb x l), (foldr xorb false _); reflexivity.
  Qed.
End kfold.
Lemma existsb_elements (f : string → bool) (s : gset string) : existsb f (elements s) = true ↔ ∃ p, p ∈ s ∧ f p = true.
Proof. rewrite existsb_exists. setoid_rewrite <- elem_of_list_In. setoid_rewrite elem_of_elements. done. Qed.
Lemma existsb_elements_false (f : string → bool) (s : gset string) : existsb f (elements s) = false ↔ ∀ p, p ∈ s → f p = false.
Proof.
  destruct (existsb f (elements s)) eqn:E.
  - apply existsb_elements in E as (p & Hp & Ep). split; [done|]. intros H. rewrite H in Ep; done.
  - split; [|done]. intros _ p Hp. destruct (f p) eqn:Ep; [|done].
    assert (existsb f (elements s) = true) by (apply existsb_elements; eauto). congruence.
Qed.
Lemma B_negb b : B (negb b) = knot (B b). Proof. by destruct b. Qed.

(* ================= one lemma per gate family ================= *)
Section family.
  Context (v : val) (m : string → string).
  Definition Kv (n : string) : tern := if v (m n) then TX else B (v n).
  Lemma Kv_K3 (l : list string) : Kv <$> l = K3 (λ p, v (m p)) v <$> l. Proof. done. Qed.

  (* and / nand: X iff some fan-in is X and none is a definite 0 *)
  Lemma and_family t n (fi : gset string) : t = And ∨ t = Nand →
    v n = gate_val t v fi →
    (v (m n) = true ↔ (∃ p, p ∈ fi ∧ v (m p) = true) ∧ ∀ p, p ∈ fi → v (m p) = false → v p = true) →
    Kv n = kgate t (Kv <$> elements fi).
  Proof.
    intros Ht Hn Hx.
    assert (Hand : gate_val And v fi = true ↔ ∀ p, p ∈ fi → v p = true) by apply gv_And.
    assert (Hcore : (if v (m n) then TX else B (gate_val And v fi)) = foldr kand T1 (Kv <$> elements fi)).
    { rewrite Kv_K3, kand_fold.
      destruct (existsb (λ p, negb (v (m p)) && negb (v p)) (elements fi)) eqn:E0.
      - apply existsb_elements in E0 as (p & Hp & [E1 E2]%andb_true_iff). apply negb_true_iff in E1, E2.
        destruct (v (m n)) eqn:Em.
        + destruct Hx as [Hx _]. destruct (Hx eq_refl) as [_ H]. rewrite (H p Hp E1) in E2. done.
        + destruct (gate_val And v fi) eqn:Eg; [|done]. rewrite (proj1 Hand eq_refl p Hp) in E2. done.
      - assert (H0 : ∀ p, p ∈ fi → v (m p) = false → v p = true).
        { intros p Hp Hxp. pose proof (proj1 (existsb_elements_false _ _) E0 p Hp) as H. simpl in H.
          rewrite Hxp in H. simpl in H. by apply negb_false_iff in H. }
        destruct (existsb (λ p, v (m p)) (elements fi)) eqn:EX.
        + apply existsb_elements in EX. rewrite (proj2 Hx); [done|]. split; done.
        + pose proof (proj1 (existsb_elements_false _ _) EX) as HX.
          destruct (v (m n)) eqn:Em.
          * destruct Hx as [Hx _]. destruct (Hx eq_refl) as [(p & Hp & Ep) _]. rewrite (HX p Hp) in Ep. done.
          * rewrite (proj2 Hand); [done|]. intros p Hp. apply H0; auto. }
    unfold Kv at 1. rewrite Hn. destruct Ht as [-> | ->]; unfold kgate; cbn [g_inv k_op g_unit B]; rewrite <- Hcore.
    - done.
    - rewrite (gate_val_inv Nand) by done. simpl. destruct (v (m n)); [done|]. apply B_negb.
  Qed.

  (* or / nor: X iff some fan-in is X and none is a definite 1 *)
  Lemma or_family t n (fi : gset string) : t = Or ∨ t = Nor →
    v n = gate_val t v fi →
    (v (m n) = true ↔ (∃ p, p ∈ fi ∧ v (m p) = true) ∧ ∀ p, p ∈ fi → v (m p) = false → v p = false) →
    Kv n = kgate t (Kv <$> elements fi).
  Proof.
    intros Ht Hn Hx.
    assert (Hor : gate_val Or v fi = true ↔ ∃ p, p ∈ fi ∧ v p = true) by apply gv_Or.
    assert (Hcore : (if v (m n) then TX else B (gate_val Or v fi)) = foldr kor T0 (Kv <$> elements fi)).
    { rewrite Kv_K3, kor_fold.
      destruct (existsb (λ p, negb (v (m p)) && v p) (elements fi)) eqn:E1.
      - apply existsb_elements in E1 as (p & Hp & [E1 E2]%andb_true_iff). apply negb_true_iff in E1.
        destruct (v (m n)) eqn:Em.
        + destruct Hx as [Hx _]. destruct (Hx eq_refl) as [_ H]. rewrite (H p Hp E1) in E2. done.
        + rewrite (proj2 Hor); [done|]. eauto.
      - assert (H0 : ∀ p, p ∈ fi → v (m p) = false → v p = false).
        { intros p Hp Hxp. pose proof (proj1 (existsb_elements_false _ _) E1 p Hp) as H. simpl in H.
          rewrite Hxp in H. by simpl in H. }
        destruct (existsb (λ p, v (m p)) (elements fi)) eqn:EX.
        + apply existsb_elements in EX. rewrite (proj2 Hx); [done|]. split; done.
        + pose proof (proj1 (existsb_elements_false _ _) EX) as HX.
          destruct (v (m n)) eqn:Em.
          * destruct Hx as [Hx _]. destruct (Hx eq_refl) as [(p & Hp & Ep) _]. rewrite (HX p Hp) in Ep. done.
          * destruct (gate_val Or v fi) eqn:Eg; [|done]. destruct (proj1 Hor eq_refl) as (p & Hp & Ep).
            rewrite (H0 p Hp (HX p Hp)) in Ep. done. }
    unfold Kv at 1. rewrite Hn. destruct Ht as [-> | ->]; unfold kgate; cbn [g_inv k_op g_unit B]; rewrite <- Hcore.
    - done.
    - rewrite (gate_val_inv_or Nor) by done. simpl. destruct (v (m n)); [done|]. apply B_negb.
  Qed.

  (* xor / xnor: X iff some fan-in is X *)
  Lemma xor_family t n (fi : gset string) : t = Xor ∨ t = Xnor →
    v n = gate_val t v fi →
    (v (m n) = true ↔ ∃ p, p ∈ fi ∧ v (m p) = true) →
    Kv n = kgate t (Kv <$> elements fi).
  Proof.
    intros Ht Hn Hx.
    assert (Hcore : (if v (m n) then TX else B (gate_val Xor v fi)) = foldr kxor T0 (Kv <$> elements fi)).
    { rewrite Kv_K3, kxor_fold. rewrite (gate_val_unfold Xor). simpl.
      destruct (existsb (λ p, v (m p)) (elements fi)) eqn:EX.
      - apply existsb_elements in EX. by rewrite (proj2 Hx).
      - pose proof (proj1 (existsb_elements_false _ _) EX) as HX.
        destruct (v (m n)) eqn:Em; [|done]. destruct (proj1 Hx eq_refl) as (p & Hp & Ep). rewrite (HX p Hp) in Ep. done. }
    unfold Kv at 1. rewrite Hn. destruct Ht as [-> | ->]; unfold kgate; cbn [g_inv k_op g_unit B]; rewrite <- Hcore.
    - done.
    - rewrite (gate_val_unfold Xnor), (gate_val_unfold Xor). simpl. destruct (v (m n)); [done|]. apply B_negb.
  Qed.

  (* buf / not: the companion follows the companion of the operand *)
  Lemma buf_family t n p : t = Buf ∨ t = Not →
    v n = gate_val t v {[p]} → v (m n) = v (m p) →
    Kv n = kgate t (Kv <$> elements ({[p]} : gset string)).
  Proof.
    intros Ht Hn Hx. rewrite elements_singleton. unfold Kv, kgate. simpl. rewrite Hn, Hx, gv_single.
    destruct Ht as [-> | ->]; simpl; destruct (v (m p)), (v p); reflexivity.
  Qed.
End family.

(* ================= the gadgets compute the companion conditions ================= *)
Section gadget_sem.
  Context (T : circuit) (m : string → string) (v : val).
  Hypothesis Hv : consistent T v.

  Lemma node_lookup k g s : ty T k = Some g → fanin T k = s → ∃ i, T !! k = Some i ∧ n_ty i = g ∧ n_fi i = s.
  Proof.
    unfold ty, fanin. destruct (T !! k) as [i|]; simpl; [|done]. intros [= <-] <-. eauto.
  Qed.
  Lemma sem_gate k g s : ty T k = Some g → fanin T k = s → g = And ∨ g = Or ∨ g = Nor → v k = gate_val g v s.
  Proof.
    intros H1 H2 Hg. destruct (node_lookup _ _ _ H1 H2) as (i & Hi & Ht & Hs). specialize (Hv k i Hi).
    unfold node_ok, is_free in Hv. rewrite Ht, Hs in Hv. by destruct Hg as [-> | [-> | ->]].
  Qed.
  Lemma sem_single k g p : node_is T k g {[p]} → g = Buf ∨ g = Not → v k = gate_val g v {[p]}.
  Proof.
    intros [H1 H2] Hg. destruct (node_lookup _ _ _ H1 H2) as (i & Hi & Ht & Hs). specialize (Hv k i Hi).
    unfold node_ok, is_free in Hv. rewrite Ht, Hs in Hv.
    assert (bool_decide (({[p]} : gset string) = ∅) = false) as Hne by (apply bool_decide_eq_false; set_solver).
    destruct Hg as [-> | ->]; by rewrite Hne in Hv.
  Qed.
  Lemma sem_c0 k : node_is T k C0 ∅ → v k = false.
  Proof.
    intros [H1 H2]. destruct (node_lookup _ _ _ H1 H2) as (i & Hi & Ht & Hs). specialize (Hv k i Hi).
    unfold node_ok, is_free in Hv. by rewrite Ht in Hv.
  Qed.

  Lemma lit0_sem h p : lit0 T m h p → v h = negb (v p || v (m p)).
  Proof. intros [H1 H2]. rewrite (sem_gate h Nor _ H1 H2) by auto. apply gv_Nor2. Qed.
  Lemma lit1_sem h p : lit1 T m h p → v h = v p && negb (v (m p)).
  Proof.
    intros (H1 & q & Hq & H2 & Hn). rewrite (sem_gate h And _ H1 H2) by auto. rewrite gv_And2.
    rewrite (sem_single q Not _ Hn) by auto. rewrite gv_single. simpl. by destruct (v (m p)).
  Qed.

  Lemma ctl_sem (lit : string → string → Prop) (L : string → bool) n (fi : gset string) :
    (∀ h p, lit h p → v h = L p) → ctl_gadget T m lit n fi →
    (v (m n) = true ↔ (∃ p, p ∈ fi ∧ v (m p) = true) ∧ ∀ p, p ∈ fi → L p = false).
  Proof.
    intros HL (Hty & xn & _ & zn & _ & Hfi & [Hx1 Hx2] & Hz & Hall & Hex).
    rewrite (sem_gate (m n) And _ Hty Hfi) by auto. rewrite gv_And2, andb_true_iff.
    rewrite (sem_gate xn Or _ Hx1 Hx2) by auto. rewrite gv_Or.
    rewrite (sem_gate zn Nor _ Hz eq_refl) by auto. rewrite gv_Nor.
    split; intros [H1 H2]; split.
    - destruct H1 as (q & Hq & Eq). apply elem_of_map in Hq as (p & -> & Hp). eauto.
    - intros p Hp. destruct (Hex p Hp) as (h & Hh & Hlit). rewrite <- (HL _ _ Hlit). by apply H2.
    - destruct H1 as (p & Hp & Ep). exists (m p). split; [|done]. apply elem_of_map. eauto.
    - intros h Hh. destruct (Hall h Hh) as (p & Hp & Hlit). rewrite (HL _ _ Hlit). by apply H2.
  Qed.
End gadget_sem.

(* ================= whole-circuit theorem over the gadget structure ================= *)
Theorem comp_sound c T (m : string → string) : (∀ n i, c !! n = Some i → T !! n = Some i ∧ comp_ok T m n i) →
  ∀ v, consistent T v → kconsistent c (Kv v m).
Proof.
  intros Hall v Hv n i Hn.
  destruct (Hall n i Hn) as [HT Hc]. pose proof (Hv n i HT) as Hok.
  unfold knode_ok. unfold node_ok, is_free in Hok. unfold comp_ok in Hc.
  destruct (n_ty i) eqn:Et; try done.
  - (* buf *) destruct Hc as (p & Hp & Hfi & Hm). rewrite Hfi in *.
    assert (bool_decide (({[p]} : gset string) = ∅) = false) as Hne by (apply bool_decide_eq_false; set_solver).
    rewrite Hne in Hok. apply buf_family; auto.
    rewrite (sem_single T m v Hv (m n) Buf _ Hm) by auto. rewrite gv_single. simpl. by destruct (v (m p)).
  - (* and *) apply and_family; auto.
    rewrite (ctl_sem T m v Hv _ (λ p, negb (v p || v (m p))) n (n_fi i) (lit0_sem T m v Hv) Hc).
    split; intros [H1 H2]; (split; [done|]); intros p Hp; specialize (H2 p Hp); destruct (v p), (v (m p)); naive_solver.
  - (* or *) apply or_family; auto.
    rewrite (ctl_sem T m v Hv _ (λ p, v p && negb (v (m p))) n (n_fi i) (lit1_sem T m v Hv) Hc).
    split; intros [H1 H2]; (split; [done|]); intros p Hp; specialize (H2 p Hp); destruct (v p), (v (m p)); naive_solver.
  - (* xor *) destruct Hc as [Hne [H1 H2]]. apply xor_family; auto.
    rewrite (sem_gate T v Hv (m n) Or _ H1 H2) by auto. rewrite gv_Or. split.
    + intros (q & Hq & Eq). apply elem_of_map in Hq as (p & -> & Hp). eauto.
    + intros (p & Hp & Ep). exists (m p). split; [|done]. apply elem_of_map. eauto.
  - (* not *) destruct Hc as (p & Hp & Hfi & Hm). rewrite Hfi in *.
    assert (bool_decide (({[p]} : gset string) = ∅) = false) as Hne by (apply bool_decide_eq_false; set_solver).
    rewrite Hne in Hok. apply buf_family; auto.
    rewrite (sem_single T m v Hv (m n) Buf _ Hm) by auto. rewrite gv_single. simpl. by destruct (v (m p)).
  - (* nand *) apply and_family; auto.
    rewrite (ctl_sem T m v Hv _ (λ p, negb (v p || v (m p))) n (n_fi i) (lit0_sem T m v Hv) Hc).
    split; intros [H1 H2]; (split; [done|]); intros p Hp; specialize (H2 p Hp); destruct (v p), (v (m p)); naive_solver.
  - (* nor *) apply or_family; auto.
    rewrite (ctl_sem T m v Hv _ (λ p, v p && negb (v (m p))) n (n_fi i) (lit1_sem T m v Hv) Hc).
    split; intros [H1 H2]; (split; [done|]); intros p Hp; specialize (H2 p Hp); destruct (v p), (v (m p)); naive_solver.
  - (* xnor *) destruct Hc as [Hne [H1 H2]]. apply xor_family; auto.
    rewrite (sem_gate T v Hv (m n) Or _ H1 H2) by auto. rewrite gv_Or. split.
    + intros (q & Hq & Eq). apply elem_of_map in Hq as (p & -> & Hp). eauto.
    + intros (p & Hp & Ep). exists (m p). split; [|done]. apply elem_of_map. eauto.
  - (* 0 *) unfold Kv. rewrite (sem_c0 T v Hv _ Hc), Hok. done.
  - (* 1 *) unfold Kv. rewrite (sem_c0 T v Hv _ Hc), Hok. done.
Qed.
Theorem tern_shape_sound c T μ : tern_shape c T μ → ∀ v, consistent T v → kconsistent c (kof μ v).
Proof. intros (Hdom & Hall & _) v Hv. exact (comp_sound c T (mu_at μ) Hall v Hv). Qed.
Lemma kconsistent_ext c (k k' : kval) : closed c → (∀ n, n ∈ dom c → k n = k' n) → kconsistent c k → kconsistent c k'.
Proof.
  intros Hcl He Hk n i Hn. specialize (Hk n i Hn). unfold knode_ok in *.
  assert (Hn' : k n = k' n) by (apply He, elem_of_dom; eauto).
  assert (Hl : k <$> elements (n_fi i) = k' <$> elements (n_fi i)).
  { apply list_fmap_ext. intros ? p Hp%elem_of_list_lookup_2%elem_of_elements. apply He. eapply Hcl; eauto. }
  rewrite <- Hn', <- Hl. done.
Qed.

(* ================= Kleene evaluation is sound for every completion of the X values ================= *)
Definition refines1 (k : tern) (b : bool) : Prop := k = TX ∨ k = B b.
Lemma kop_refines t a b x y : refines1 a x → refines1 b y → refines1 (k_op t a b) (g_op t x y).
Proof. unfold refines1. intros [-> | ->] [-> | ->]; destruct t, x, y; simpl; auto. Qed.
Lemma knot_refines a x : refines1 a x → refines1 (knot a) (negb x).
Proof. unfold refines1. intros [-> | ->]; destruct x; simpl; auto. Qed.
Lemma kgate_refines t (k : kval) (w : val) (l : list string) : (∀ p, p ∈ l → refines1 (k p) (w p)) →
  refines1 (kgate t (k <$> l)) (xorb (g_inv t) (foldr (g_op t) (g_unit t) (w <$> l))).
Proof.
  intros H. assert (Hf : refines1 (foldr (k_op t) (B (g_unit t)) (k <$> l)) (foldr (g_op t) (g_unit t) (w <$> l))).
  { induction l as [|a l IH]; [by right|]. rewrite !fmap_cons. cbn [foldr]. apply kop_refines.
    - apply H. by left.
    - apply IH. intros p Hp. apply H. by right. }
  unfold kgate. destruct (g_inv t); simpl.
  - by apply knot_refines.
  - by destruct (foldr (g_op t) _ _).
Qed.

(* the only free nodes are primary inputs (true of lint-clean blackbox-free circuits without x) *)
Definition only_inputs_free (c : circuit) : Prop := map_Forall (λ _ i, is_free i = true → n_ty i = Input) c.

Theorem kleene_sound c (k : kval) (w : val) : closed c → acyclic c → only_inputs_free c →
  kconsistent c k → consistent c w →
  (∀ n, n ∈ inputs c → refines1 (k n) (w n)) →
  ∀ n, n ∈ dom c → refines1 (k n) (w n).
Proof.
  intros Hcl [rank Hrank] Hfree Hk Hw Hin.
  assert (∀ r n, rank n = r → n ∈ dom c → refines1 (k n) (w n)) as Haux; [|by intros n; eapply Haux].
  intros r. induction (lt_wf r) as [r _ IH]. intros n <- Hd.
  apply elem_of_dom in Hd as [i Hn].
  pose proof (Hk n i Hn) as H1. pose proof (Hw n i Hn) as H2. unfold knode_ok in H1. unfold node_ok in H2.
  destruct (is_free i) eqn:Hf.
  - apply Hin. apply elem_of_inputs. exists i. split; [done|]. by eapply Hfree.
  - assert (Hg : ∀ t, refines1 (kgate t (k <$> elements (n_fi i))) (gate_val t w (n_fi i))).
    { intros t. apply kgate_refines. intros p Hp%elem_of_elements.
      eapply (IH (rank p)); [eapply Hrank; eauto|done|]. eapply Hcl; eauto. }
    unfold is_free in Hf.
    destruct (n_ty i); try done; try (rewrite H1, H2; apply Hg); rewrite H1, H2; by right.
Qed.

(* corollary: where the companion is 0 the node carries its value under every completion of the X inputs *)
Theorem tern_shape_completion c T μ (v w : val) : tern_shape c T μ → closed c → acyclic c → only_inputs_free c →
  consistent T v → consistent c w →
  (∀ i, i ∈ inputs c → v (mu_at μ i) = false → w i = v i) →
  ∀ n, n ∈ dom c → v (mu_at μ n) = false → w n = v n.
Proof.
  intros Hs Hcl Hac Hfree Hv Hw Hin n Hn Hx.
  pose proof (kleene_sound c (kof μ v) w Hcl Hac Hfree (tern_shape_sound c T μ Hs v Hv) Hw) as H.
  assert (Hi : ∀ i, i ∈ inputs c → refines1 (kof μ v i) (w i)).
  { intros i Hi. unfold kof. destruct (v (mu_at μ i)) eqn:E; [by left|]. right. by rewrite (Hin i Hi E). }
  specialize (H Hi n Hn). unfold kof in H. rewrite Hx in H. destruct H as [H|H]; [by destruct (v n)|].
  by destruct (v n), (w n).
Qed.

(* structural facts carried by the gadget structure *)
Lemma tern_shape_sub c T μ : tern_shape c T μ → c ⊆ T.
Proof.
  intros (_ & Hall & _). apply map_subseteq_spec. intros n i Hn. by destruct (Hall n i Hn).
Qed.
Lemma shapeb_spec c T μ : shapeb c T μ = true ↔ tern_shape c T μ.
Proof. apply bool_decide_eq_true. Qed.

(* executable Kleene evaluation is THE Kleene-consistent valuation when its certificate holds *)
Lemma knode_okb_spec k n i : knode_okb k n i = true ↔ knode_ok k n i.
Proof. unfold knode_okb, knode_ok. destruct (n_ty i); rewrite ?bool_decide_eq_true; done. Qed.
Lemma kconsistentb_spec c k : kconsistentb c k = true ↔ kconsistent c k.
Proof.
  unfold kconsistentb, kconsistent. rewrite forallb_forall. split.
  - intros H n i Hn. apply knode_okb_spec. apply (H (n, i)). by apply elem_of_list_In, elem_of_map_to_list.
  - intros H [n i] Hin. apply knode_okb_spec, H. by apply elem_of_map_to_list, elem_of_list_In.
Qed.
Theorem kconsistent_unique c (k k' : kval) : closed c → acyclic c → kconsistent c k → kconsistent c k' →
  (∀ n, n ∈ inputs c → k n = k' n) → (∀ n i, c !! n = Some i → n_ty i ≠ BbOut) → ∀ n, n ∈ dom c → k n = k' n.
Proof.
  intros Hcl [rank Hrank] Hk Hk' Hin Hbb.
  assert (∀ r n, rank n = r → n ∈ dom c → k n = k' n) as Haux; [|by intros n; eapply Haux].
  intros r. induction (lt_wf r) as [r _ IH]. intros n <- Hd.
  apply elem_of_dom in Hd as [i Hn].
  pose proof (Hk n i Hn) as H1. pose proof (Hk' n i Hn) as H2. unfold knode_ok in *.
  assert (Hg : ∀ t, kgate t (k <$> elements (n_fi i)) = kgate t (k' <$> elements (n_fi i))).
  { intros t. f_equal. apply list_fmap_ext. intros ? p Hp%elem_of_list_lookup_2%elem_of_elements.
    eapply (IH (rank p)); [eapply Hrank; eauto|done|]. eapply Hcl; eauto. }
  pose proof (Hbb n i Hn) as Hb.
  destruct (n_ty i) eqn:Et; try done; try (rewrite H1, H2; apply Hg); try congruence.
  apply Hin. apply elem_of_inputs. eauto.
Qed.

(* ================= what is proved about the model itself ================= *)
Lemma lookup_mapping c n m : mapping c !! n = Some m ↔ n ∈ dom c ∧ m = mu_name c n.
Proof.
  unfold mapping. rewrite lookup_set_to_map; [|naive_solver]. split.
  - intros (y & Hy & [= -> ->]). done.
  - intros [Hn ->]. eauto.
Qed.
Lemma dom_mapping c : dom (mapping c) = dom c.
Proof.
  apply set_eq. intros n. rewrite elem_of_dom. split.
  - intros [m Hm%lookup_mapping]. tauto.
  - intros Hn. exists (mu_name c n). by apply lookup_mapping.
Qed.
Lemma ternary_ok_inv T C nodes fo R μ : ternary_with T C nodes fo = Ok (R, μ) →
  c_bbs C = ∅ ∧ orders_ok (c_g C) nodes fo = true ∧ μ = mapping (c_g C) ∧ c_bbs R = c_bbs C ∧ c_name R = c_name C
  ∧ run T (c_g C) fo (c_g C) nodes = Ok (c_g R).
Proof.
  unfold ternary_with. destruct (bool_decide (c_bbs C = ∅)) eqn:Eb; [|done]. apply bool_decide_eq_true in Eb.
  destruct (orders_ok _ _ _) eqn:Eo; [|done]. simpl.
  destruct (run _ _ _ _ _) as [t| | |]; simpl; try done. intros [= <- <-]. done.
Qed.
