(* C09 link: whenever the API-level model `unroll C n sio prefix` returns, the circuit and io map it returns ARE the
   closed forms `unroll_closed` / `unroll_iomap`; whenever `sequential_unroll` returns, its circuit is the closed-form
   unrolling of the stripped circuit up to output marks and step-0 constants (`weaker`). *)
From stdpp Require Import strings gmap sets fin_sets pretty.
From CG Require Import Proofs.UnrollSteps Proofs.ComposeProofs.
From CG Require Import Base.Compose Base.Oracle Model.Compose6 Model.Unroll Model.Lint Proofs.AcyclicUnrollProofs Proofs.UnrollProofs Proofs.LintProofs Proofs.UnrollLint.
Open Scope string_scope.

Definition inputs_undriven (c : circuit) : Prop := ∀ m info, c !! m = Some info → n_ty info = Input → n_fi info = ∅.

Lemma uid_id c x : x ∉ dom c → uid c x = x.
Proof. intros H. unfold uid, uid_in. by rewrite bool_decide_eq_false_2. Qed.
Lemma state_src_None sio v : state_src sio v = None ↔ v ∉ sio.*2.
Proof.
  unfold state_src. destruct (list_find _ sio) as [[i kv]|] eqn:E; simpl.
  - split; [done|]. intros H. exfalso. apply H. apply list_find_Some in E as (Hi & <- & _).
    apply elem_of_list_fmap. exists kv. split; [done|]. by eapply elem_of_list_lookup_2.
  - split; [|done]. intros _ (kv & -> & Hkv)%elem_of_list_fmap.
    apply list_find_None in E. rewrite Forall_forall in E. exact (E kv Hkv eq_refl).
Qed.
Lemma state_src_Some sio k v : NoDup sio.*2 → (k, v) ∈ sio → state_src sio v = Some k.
Proof.
  intros Hnd Hin. unfold state_src. destruct (list_find _ sio) as [[i kv]|] eqn:E; simpl.
  - apply list_find_Some in E as (Hi & Hv & _). f_equal.
    apply elem_of_list_lookup_1 in Hin as [i' Hi'].
    assert (sio.*2 !! i = Some v) by (rewrite list_lookup_fmap, Hi; simpl; by rewrite Hv).
    assert (sio.*2 !! i' = Some v) by (rewrite list_lookup_fmap, Hi'; done).
    assert (i = i') by (eapply NoDup_lookup; eauto). subst i'. rewrite Hi in Hi'. injection Hi' as ->. done.
  - apply list_find_None in E. rewrite Forall_forall in E. exfalso. exact (E (k, v) Hin eq_refl).
Qed.

(* ---------- the per-iteration io nodes ---------- *)
Lemma add_ios_fail c sio prefix itr l g e m : foldl (add_ios c sio prefix itr) (g, Fail e, m) l = (g, Fail e, m).
Proof. induction l; simpl; done. Qed.
Lemma add_ios_fold_done c sio prefix itr (l : list string) : ∀ g m g' m',
  NoDup l → (∀ io, io ∈ l → io_name io prefix itr ∉ dom c) →
  foldl (add_ios c sio prefix itr) (g, Done, m) l = (g', Done, m') →
  (∀ io, io ∈ l → g' !! io_name io prefix itr = Some (mk_node (io_type c sio io) (is_output c io) ∅) ∧ io_name io prefix itr ∉ dom g) ∧
  (∀ x, (∀ io, io ∈ l → x ≠ io_name io prefix itr) → g' !! x = g !! x) ∧
  (∀ a b, a ∈ l → b ∈ l → io_name a prefix itr = io_name b prefix itr → a = b) ∧
  (∀ io, m' !! io = if decide (io ∈ l) then Some (default [] (m !! io) ++ [io_name io prefix itr])%list else m !! io).
Proof.
  induction l as [|a l IH] using rev_ind; intros g m g' m' Hnd Huid H.
  - simpl in H. injection H as <- <-. split; [set_solver|]. split; [done|]. split; [set_solver|].
    intros io. rewrite decide_False; [done|set_solver].
  - rewrite foldl_app in H. simpl in H. apply NoDup_app in Hnd as (Hnd & Hal & _).
    destruct (foldl (add_ios c sio prefix itr) (g, Done, m) l) as [[g1 o1] m1] eqn:E1.
    destruct o1 as [|e]; [|done].
    destruct (IH g m g1 m1 Hnd) as (I1 & I2 & I3 & I4); [intros; apply Huid; set_solver|done|]. clear IH.
    assert (HanL : a ∉ l) by (intros Hin; apply (Hal a Hin); set_solver).
    unfold add_ios in H. rewrite uid_id in H by (apply Huid; set_solver).
    destruct (add_g g1 _ _ [] [] _) as [[g2 o2] n2] eqn:E2. destruct o2 as [|e]; [|done]. injection H as <- <-.
    apply add_g_done_fanin in E2 as (Hd & Ha & Hoth).
    assert (Hnew : ∀ b, b ∈ l → io_name b prefix itr ≠ io_name a prefix itr).
    { intros b Hb E. apply Hd. rewrite <- E. apply elem_of_dom. destruct (I1 b Hb) as [-> _]. eauto. }
    split; [|split; [|split]].
    + intros io [Hio| ->%elem_of_list_singleton]%elem_of_app.
      * rewrite Hoth by by apply Hnew. by apply I1.
      * split; [done|]. intros Hin. apply Hd. apply elem_of_dom. rewrite I2; [by apply elem_of_dom|].
        intros b Hb E. by apply (Hnew b Hb).
    + intros x Hx. rewrite Hoth by (apply Hx; set_solver). apply I2. intros; apply Hx; set_solver.
    + intros x y [Hx| ->%elem_of_list_singleton]%elem_of_app [Hy| ->%elem_of_list_singleton]%elem_of_app E; [by apply I3| | |done].
      * exfalso. by apply (Hnew x Hx).
      * exfalso. by apply (Hnew y Hy).
    + intros io. destruct (decide (io = a)) as [->|Hne].
      * rewrite lookup_insert, decide_True by set_solver. rewrite I4, decide_False by done. done.
      * rewrite lookup_insert_ne by done. rewrite I4.
        destruct (decide (io ∈ l)); [rewrite decide_True by set_solver|rewrite decide_False by set_solver]; done.
Qed.

(* ---------- one unrolling iteration ---------- *)
Section iteration.
  Context (C : Circuit) (n : nat) (sio : list (string * string)) (prefix : string) (ios : list string).
  Let c := c_g C.
  Context (Hbbs : c_bbs C = ∅).
  Context (Hios : ∀ io, io ∈ ios ↔ io ∈ io_of c) (Hiosnd : NoDup ios).
  Context (Hfreshc : ∀ t io, t < n → io ∈ io_of c → io_name io prefix t ∉ dom c).
  Context (Hin0 : ∀ m info, c !! m = Some info → n_ty info = Input → n_fi info = ∅).
  Context (Hvals : ∀ kv, kv ∈ sio → kv.2 ∈ inputs c) (Hsnd : NoDup sio.*2).

  Record unroll_inv (j : nat) (U : Circuit) (m : iomap) : Prop := {
    ui_name : c_name U = "circuit";
    ui_bbs : c_bbs U = ∅;
    ui_io : ∀ t io, t < j → io ∈ io_of c → c_g U !! io_name io prefix t = Some (io_node c sio prefix t io);
    ui_copy : ∀ t x info, t < j → c !! x = Some info → c_g U !! pre (inst_name t) x = Some (ucopy_info prefix t x info);
    ui_dom : ∀ x, x ∈ dom (c_g U) → ∃ t, t < j ∧ ((∃ io, io ∈ io_of c ∧ x = io_name io prefix t) ∨ (∃ y, y ∈ dom c ∧ x = pre (inst_name t) y));
    ui_map : ∀ io, m !! io = if decide (io ∈ io_of c) then Some ((λ t, io_name io prefix t) <$> seq 0 j) else None }.

  Lemma io_of_dom io : io ∈ io_of c → io ∈ dom c.
  Proof. unfold io_of. intros [(i & Hi & _)%elem_of_inputs|(i & Hi & _)%elem_of_outputs]%elem_of_union; apply elem_of_dom; eauto. Qed.
  Lemma inputs_io_of io : io ∈ inputs c → io ∈ io_of c.
  Proof. unfold io_of. set_solver. Qed.

  Lemma iter_facts j U m g1 m1 U2 : j < n → unroll_inv j U m →
    foldl (add_ios (c_g C) sio prefix j) (c_g U, Done, m) ios = (g1, Done, m1) →
    add_subcircuit (with_g U g1) C (inst_name j) ((λ i, (i, [io_name i prefix j])) <$> ios) = (U2, Done) →
    (∀ io, io ∈ ios → g1 !! io_name io prefix j = Some (mk_node (io_type c sio io) (is_output c io) ∅) ∧ io_name io prefix j ∉ dom (c_g U)) ∧
    (∀ a b, a ∈ ios → b ∈ ios → io_name a prefix j = io_name b prefix j → a = b) ∧
    (∀ io, m1 !! io = if decide (io ∈ ios) then Some (default [] (m !! io) ++ [io_name io prefix j])%list else m !! io) ∧
    (∀ y, y ∈ dom c → pre (inst_name j) y ∉ dom g1) ∧
    c_name U2 = c_name U ∧ c_bbs U2 = kmap (pre (inst_name j)) (c_bbs C) ∪ c_bbs U ∧
    (∀ io, io ∈ ios → io_name io prefix j ∈ dom g1) ∧
    (∀ x, x ∈ dom (c_g U) → c_g U2 !! x = c_g U !! x) ∧
    (∀ io, io ∈ io_of c → c_g U2 !! io_name io prefix j =
              Some (mk_node (io_type c sio io) (is_output c io) (if decide (io ∈ inputs c) then ∅ else {[pre (inst_name j) io]}))) ∧
    (∀ y info, c !! y = Some info → c_g U2 !! pre (inst_name j) y = Some (ucopy_info prefix j y info)) ∧
    (∀ x, x ∈ dom (c_g U2) → x ∈ dom (c_g U) ∨ (∃ io, io ∈ io_of c ∧ x = io_name io prefix j) ∨ (∃ y, y ∈ dom c ∧ x = pre (inst_name j) y)).
  Proof.
    intros Hjn [Hnm Hb Hio Hcopy Hdom Hmap] E1 E2.
    apply add_ios_fold_done in E1 as (N1 & N2 & Ninj & Nm); [|done|intros io Hio'; apply Hfreshc; [done|by apply Hios]].
    fold c in N1, N2, Ninj, Nm.
    apply add_subcircuit_inv in E2 as (_ & Hfresh & _ & Hname & Hbb2 & Hfold). simpl in Hfresh, Hname, Hbb2, Hfold.
    fold c in Hfresh, Hfold.
    set (nm := inst_name j) in *.
    assert (Hnew_g1 : ∀ io, io ∈ ios → io_name io prefix j ∈ dom g1) by (intros io Hio'; apply elem_of_dom; destruct (N1 io Hio') as [-> _]; eauto).
    assert (Hdis : ∀ a b, a ∈ ios → b ∈ ios → io_name a prefix j ≠ pre nm b).
    { intros a b Ha Hb' E. apply (Hfresh b); [by apply io_of_dom, Hios|]. rewrite <- E. by apply Hnew_g1. }
    set (S0 := g1 ∪ rename (pre nm) (strip_io c)) in *.
    pose proof Hfold as Hfold0. apply (conn_fold_mixed_done C nm ios (λ i, io_name i prefix j)) in Hfold as (K1 & K2 & K3); [|exact Ninj|exact Hdis]. cbv beta in K1, K2, K3. fold c in K1, K2, K3.
    set (g2 := c_g U2) in *.
    assert (HS_old : ∀ x, x ∈ dom g1 → S0 !! x = g1 !! x).
    { intros x [i Hi]%elem_of_dom. unfold S0. rewrite Hi. by apply lookup_union_Some_l. }
    assert (HS_new : ∀ y, y ∈ dom c → S0 !! pre nm y = ren_info (pre nm) <$> (strip_info <$> c !! y)).
    { intros y Hy. unfold S0. rewrite lookup_union_r by (apply not_elem_of_dom; by apply Hfresh).
      rewrite lookup_rename by apply _. unfold strip_io. by rewrite lookup_fmap. }
    assert (Hold_g1 : ∀ x, x ∈ dom (c_g U) → g1 !! x = c_g U !! x ∧ x ∈ dom g1).
    { intros x Hx. assert (g1 !! x = c_g U !! x) as E.
      { apply N2. intros io Hio' ->. by apply (proj2 (N1 io Hio')). }
      split; [done|]. apply elem_of_dom. rewrite E. by apply elem_of_dom. }
    (* after the connections *)
    assert (G_old : ∀ x, x ∈ dom (c_g U) → g2 !! x = c_g U !! x).
    { intros x Hx. destruct (Hold_g1 x Hx) as [E Hx1]. rewrite K3.
      - by rewrite HS_old.
      - intros a Ha _ ->. apply (Hfresh a); [by apply io_of_dom, Hios|done].
      - intros a Ha _ ->. by apply (proj2 (N1 a Ha)). }
    assert (G_io : ∀ io, io ∈ io_of c → g2 !! io_name io prefix j =
              Some (mk_node (io_type c sio io) (is_output c io) (if decide (io ∈ inputs c) then ∅ else {[pre nm io]}))).
    { intros io Hio'. assert (Hi : io ∈ ios) by by apply Hios. destruct (N1 io Hi) as [Hn1 _].
      destruct (decide (io ∈ inputs c)) as [Hinp|Hinp].
      - rewrite K3; [by rewrite HS_old by by apply Hnew_g1| |].
        + intros a Ha _. by apply Hdis.
        + intros a Ha Hna E. apply Ninj in E; [by subst|done..].
      - rewrite (K2 io Hi Hinp), HS_old, Hn1 by by apply Hnew_g1. simpl. f_equal. unfold upd_fi, mk_node. simpl. f_equal. set_solver. }
    assert (G_copy : ∀ y info, c !! y = Some info → g2 !! pre nm y = Some (ucopy_info prefix j y info)).
    { intros y info Hy. assert (Hyd : y ∈ dom c) by (apply elem_of_dom; eauto).
      assert (HSy : S0 !! pre nm y = Some (ren_info (pre nm) (strip_info info))) by (rewrite HS_new by done; by rewrite Hy).
      unfold ucopy_info. case_bool_decide as Hty.
      - assert (Hyi : y ∈ inputs c) by (apply elem_of_inputs; eauto).
        rewrite (K1 y) by (try apply Hios, inputs_io_of; done). rewrite HSy. simpl. f_equal.
        unfold upd_fi, ren_info, strip_info, mk_node. simpl. rewrite Hty, bool_decide_eq_true_2 by done.
        rewrite (Hin0 y info Hy Hty), set_map_empty. f_equal. set_solver.
      - rewrite K3.
        + rewrite HSy. f_equal. unfold ren_info, strip_info, mk_node. simpl. by rewrite bool_decide_eq_false_2.
        + intros a Ha Hai E. apply (inj (pre nm)) in E. subst a.
          apply elem_of_inputs in Hai as (i' & Hi' & Hty'). rewrite Hy in Hi'. by simplify_eq.
        + intros a Ha _ E. apply (Hfresh y Hyd). rewrite E. by apply Hnew_g1. }
    assert (G_dom : ∀ x, x ∈ dom g2 → x ∈ dom (c_g U) ∨ (∃ io, io ∈ io_of c ∧ x = io_name io prefix j) ∨ (∃ y, y ∈ dom c ∧ x = pre nm y)).
    { intros x Hx.
      assert (dom g2 = dom S0) as Hd.
      { pose proof (conn_fold_dom C nm ((λ n0, (n0, [io_name n0 prefix j])) <$> ios) (S0, Done)) as Hd. by rewrite Hfold0 in Hd. }
      rewrite Hd in Hx. unfold S0 in Hx. rewrite dom_union, dom_rename in Hx by apply _.
      apply elem_of_union in Hx as [Hx|(y & -> & Hy)%elem_of_map].
      - destruct (decide (Exists (λ io, x = io_name io prefix j) ios)) as [(io & Hio' & ->)%Exists_exists|Hno].
        + right; left. exists io. split; [by apply Hios|done].
        + left. apply elem_of_dom. rewrite <- N2; [by apply elem_of_dom|]. intros io Hio' ->. apply Hno, Exists_exists. eauto.
      - right; right. exists y. split; [|done]. unfold strip_io in Hy. by rewrite dom_fmap in Hy. }
    done.
  Qed.

  Lemma unroll_iter_inv j U m U' m' : j < n → unroll_inv j U m →
    unroll_iter C sio prefix ios (U, Done, m) j = (U', Done, m') → unroll_inv (S j) U' m'.
  Proof.
    intros Hjn Hinv. pose proof Hinv as [Hnm Hb Hio Hcopy Hdom Hmap]. unfold unroll_iter.
    destruct (foldl (add_ios (c_g C) sio prefix j) (c_g U, Done, m) ios) as [[g1 o1] m1] eqn:E1.
    destruct o1 as [|e]; [|done].
    destruct (add_subcircuit (with_g U g1) C (inst_name j) _) as [U2 o2] eqn:E2. destruct o2 as [|e]; [|done].
    destruct (iter_facts j U m g1 m1 U2 Hjn Hinv E1 E2) as (N1 & Ninj & Nm & Hfresh & Hname & Hbb2 & Hnew_g1 & G_old & G_io & G_copy & G_dom).
    set (nm := inst_name j) in *. set (g2 := c_g U2) in *.
    (* the state step: its targets are the step-j nodes of the state inputs *)
    assert (Hfin : ∀ g3, (∀ x, (∀ kv, kv ∈ sio → x ≠ io_name kv.2 prefix j) → g3 !! x = g2 !! x) →
                   (∀ kv, kv ∈ sio → g3 !! io_name kv.2 prefix j = Some (io_node c sio prefix j kv.2)) →
                   (∀ x, x ∈ dom g3 → x ∈ dom g2) →
                   unroll_inv (S j) (with_g U2 g3) m1).
    { intros g3 Hoth Htg Hd3.
      assert (Htgt_new : ∀ kv, kv ∈ sio → io_name kv.2 prefix j ∈ dom g1 ∧ kv.2 ∈ ios).
      { intros kv Hkv. assert (kv.2 ∈ ios) by (apply Hios, inputs_io_of, Hvals; done). split; [by apply Hnew_g1|done]. }
      assert (Hnt_old : ∀ x, x ∈ dom (c_g U) → ∀ kv, kv ∈ sio → x ≠ io_name kv.2 prefix j).
      { intros x Hx kv Hkv ->. destruct (Htgt_new kv Hkv) as [_ Hi]. by apply (proj2 (N1 _ Hi)). }
      split; cbn [c_name c_bbs c_g with_g].
      - by rewrite Hname.
      - rewrite Hbb2, Hbbs, Hb. rewrite kmap_empty. apply (left_id_L ∅ (∪)).
      - intros t io Ht Hio'. destruct (decide (t = j)) as [->|Hne].
        + destruct (decide (io ∈ sio.*2)) as [(kv & -> & Hkv)%elem_of_list_fmap|Hns]; [by apply Htg|].
          rewrite Hoth.
          * rewrite (G_io io Hio'). f_equal. unfold io_node, io_type. rewrite (bool_decide_eq_false_2 _ Hns).
            apply state_src_None in Hns. rewrite Hns.
            destruct (decide (io ∈ inputs c)); [rewrite !bool_decide_eq_true_2 by done|rewrite !bool_decide_eq_false_2 by done]; done.
          * intros kv Hkv E. destruct (Htgt_new kv Hkv) as [_ Hi]. apply Ninj in E; [|by apply Hios|done].
            apply Hns. apply elem_of_list_fmap. eauto.
        + assert (t < j) as Htj by lia.
          assert (io_name io prefix t ∈ dom (c_g U)) by (apply elem_of_dom; rewrite (Hio t io Htj Hio'); eauto).
          rewrite Hoth by by apply Hnt_old. rewrite G_old by done. by apply Hio.
      - intros t y info Ht Hy. destruct (decide (t = j)) as [->|Hne].
        + rewrite Hoth; [by apply G_copy|]. intros kv Hkv E. destruct (Htgt_new kv Hkv) as [Hd1 _].
          apply (Hfresh y); [apply elem_of_dom; eauto|]. unfold nm. rewrite E. exact Hd1.
        + assert (t < j) as Htj by lia.
          assert (pre (inst_name t) y ∈ dom (c_g U)) by (apply elem_of_dom; rewrite (Hcopy t y info Htj Hy); eauto).
          rewrite Hoth by by apply Hnt_old. rewrite G_old by done. by apply Hcopy.
      - intros x Hx. apply Hd3, G_dom in Hx as [Hx|[(io & Hio' & ->)|(y & Hy & ->)]].
        + apply Hdom in Hx as (t & Ht & Hx). exists t. split; [lia|done].
        + exists j. split; [lia|]. left. eauto.
        + exists j. split; [lia|]. right. eauto.
      - intros io. rewrite Nm, Hmap. destruct (decide (io ∈ io_of c)) as [Hio'|Hio'].
        + rewrite decide_True by by apply Hios. f_equal. rewrite seq_S, fmap_app. reflexivity.
        + rewrite decide_False; [done|]. by intros ?%Hios. }
    (* node of a state input after the connections: an undriven buffer *)
    assert (G_state : ∀ kv, kv ∈ sio → g2 !! io_name kv.2 prefix j = Some (mk_node Buf (is_output c kv.2) ∅)).
    { intros kv Hkv. pose proof (Hvals kv Hkv) as Hv. rewrite (G_io _ (inputs_io_of _ Hv)), decide_True by done.
      f_equal. unfold io_type. rewrite bool_decide_eq_true_2; [done|]. apply elem_of_list_fmap. eauto. }
    assert (Hsrc : ∀ kv, kv ∈ sio → state_src sio kv.2 = Some kv.1).
    { intros [k v] Hkv. by apply state_src_Some. }
    destruct j as [|j'].
    - destruct (set_type_g g2 _ Input) as [g3 o3] eqn:E3. intros [= <- -> <-].
      apply set_type_done in E3 as [E3 _]. apply Hfin.
      + intros x Hx. rewrite E3, decide_False; [done|]. intros (kv & -> & Hkv)%elem_of_list_fmap. by apply (Hx kv).
      + intros kv Hkv. rewrite E3, decide_True by (apply elem_of_list_fmap; eauto). rewrite (G_state kv Hkv). simpl.
        f_equal. unfold io_node. rewrite bool_decide_eq_true_2 by by apply Hvals. by rewrite (Hsrc kv Hkv).
      + intros x [i Hx]%elem_of_dom. rewrite E3 in Hx. apply elem_of_dom. destruct (decide _); [|eauto].
        destruct (g2 !! x); [eauto|done].
    - destruct (foldl _ (g2, Done) sio) as [g3 o3] eqn:E3. intros [= <- -> <-].
      apply (connect_fold_done (λ kv : string * string, io_name kv.1 prefix j') (λ kv : string * string, io_name kv.2 prefix (S j'))) in E3 as (E3a & E3b & E3c).
      2: { intros [k1 v1] [k2 v2] H1 H2 E. simpl in E. apply Ninj in E; [|apply Hios, inputs_io_of, (Hvals _ H1)|apply Hios, inputs_io_of, (Hvals _ H2)].
           simpl in E. subst v2. pose proof (state_src_Some sio k1 v1 Hsnd H1). pose proof (state_src_Some sio k2 v1 Hsnd H2). congruence. }
      apply Hfin.
      + intros x Hx. apply E3b. intros kv Hkv. by apply Hx.
      + intros kv Hkv. rewrite (E3a kv Hkv).  rewrite (G_state kv Hkv). simpl.
        f_equal. unfold io_node. rewrite bool_decide_eq_true_2 by by apply Hvals. rewrite (Hsrc kv Hkv).
        unfold upd_fi, mk_node. simpl. f_equal. set_solver.
      + intros x Hx. by rewrite <- E3c.
  Qed.
End iteration.

Lemma unroll_iter_fail C sio prefix ios l U e m : foldl (unroll_iter C sio prefix ios) (U, Fail e, m) l = (U, Fail e, m).
Proof. induction l; simpl; done. Qed.

Lemma unroll_fold C n sio prefix ios
    (Hbbs : c_bbs C = ∅) (Hios : ∀ io, io ∈ ios ↔ io ∈ io_of (c_g C)) (Hiosnd : NoDup ios)
    (Hfreshc : ∀ t io, t < n → io ∈ io_of (c_g C) → io_name io prefix t ∉ dom (c_g C))
    (Hin0 : ∀ m info, c_g C !! m = Some info → n_ty info = Input → n_fi info = ∅)
    (Hvals : ∀ kv, kv ∈ sio → kv.2 ∈ inputs (c_g C)) (Hsnd : NoDup sio.*2) len : ∀ a U m U' m',
  a + len ≤ n → unroll_inv C sio prefix a U m →
  foldl (unroll_iter C sio prefix ios) (U, Done, m) (seq a len) = (U', Done, m') →
  unroll_inv C sio prefix (a + len) U' m'.
Proof.
  induction len as [|len IH]; intros a U m U' m' Hle Hinv H.
  - simpl in H. injection H as <- <-. by rewrite Nat.add_0_r.
  - change (seq a (S len)) with (a :: seq (S a) len) in H. cbn [foldl] in H.
    destruct (unroll_iter C sio prefix ios (U, Done, m) a) as [[U1 o1] m1] eqn:E.
    destruct o1 as [|e]; [|by rewrite unroll_iter_fail in H].
    replace (a + S len) with (S a + len) by lia. eapply IH; [lia| |exact H].
    eapply (unroll_iter_inv C n sio prefix ios); eauto. lia.
Qed.

Lemma unroll_iomap_full c n prefix io :
  unroll_iomap c n prefix !! io = if decide (io ∈ io_of c) then Some ((λ t, io_name io prefix t) <$> seq 0 n) else None.
Proof.
  unfold unroll_iomap. destruct (decide (io ∈ io_of c)) as [Hio|Hio].
  - apply elem_of_list_to_map.
    + rewrite <- list_fmap_compose. simpl. rewrite list_fmap_id. apply NoDup_elements.
    + apply elem_of_list_fmap. exists io. split; [done|]. by apply elem_of_elements.
  - apply not_elem_of_list_to_map. rewrite <- list_fmap_compose. simpl. rewrite list_fmap_id. by rewrite elem_of_elements.
Qed.

Theorem unroll_closed_form C n sio prefix U m :
  inputs_undriven (c_g C) → (∀ kv, kv ∈ sio → kv.2 ∈ inputs (c_g C)) → NoDup sio.*2 →
  unroll_names_ok (c_g C) n sio prefix →
  unroll C n sio prefix = Ok (U, m) →
  U = {| c_name := "circuit"; c_g := unroll_closed (c_g C) n sio prefix; c_bbs := ∅ |} ∧ m = unroll_iomap (c_g C) n prefix.
Proof.
  intros Hin0 Hvals Hsnd [Hnd Hnew]. unfold unroll.
  destruct (negb (bool_decide (c_bbs C = ∅))) eqn:Hb; [done|]. apply negb_false_iff, bool_decide_eq_true in Hb.
  destruct (n <? 1)%nat; [done|]. destruct (negb (forallb _ sio)); [done|].
  set (c := c_g C) in *. set (ios := elements (io_of c)).
  assert (Hios : ∀ io, io ∈ ios ↔ io ∈ io_of c) by (intros; apply elem_of_elements).
  destruct (foldl _ _ (seq 0 n)) as [[U1 o1] m1] eqn:E. destruct o1 as [|e]; [|done]. intros [= <- <-].
  assert (Hfreshc : ∀ t io, t < n → io ∈ io_of c → io_name io prefix t ∉ dom c).
  { intros t io Ht Hio. apply Hnew. apply elem_of_list_fmap. eexists. split; [|by apply (in_io_node c n sio prefix t io)]. done. }
  apply (unroll_fold C n sio prefix ios Hb Hios (NoDup_elements _) Hfreshc Hin0 Hvals Hsnd n 0) in E; [|lia|].
  2: { split; cbn [c_name c_bbs c_g]; try done; try (intros; lia).
       intros io. rewrite lookup_gset_to_gmap. fold c. case_decide; [by rewrite option_guard_True|by rewrite option_guard_False]. }
  destruct E as [Hnm Hbb Hio Hcopy Hdom Hmap]. simpl in *. split.
  - destruct U1 as [nm g bb]. simpl in *. subst nm bb. f_equal.
    apply map_eq. intros x. unfold unroll_closed.
    destruct (decide (x ∈ (unroll_nodes c n sio prefix).*1)) as [Hk|Hk].
    + apply elem_of_list_fmap in Hk as ([x' j] & -> & Hj). simpl.
      assert (Hu : (list_to_map (unroll_nodes c n sio prefix) : circuit) !! x' = Some j) by by apply elem_of_list_to_map.
      rewrite Hu. apply in_unroll_nodes_inv in Hj as (t & Ht & [(io & Hio' & -> & ->)|(y & info & Hy & -> & ->)]).
      * by apply Hio.
      * by apply Hcopy.
    + assert (Hu : (list_to_map (unroll_nodes c n sio prefix) : circuit) !! x = None) by by apply not_elem_of_list_to_map.
      rewrite Hu. destruct (g !! x) as [j|] eqn:Hg; [|done]. exfalso. apply Hk.
      assert (x ∈ dom g) as Hd by (apply elem_of_dom; eauto).
      apply Hdom in Hd as (t & Ht & [(io & Hio' & ->)|(y & [info Hy]%elem_of_dom & ->)]).
      * apply elem_of_list_fmap. eexists. split; [|by apply (in_io_node c n sio prefix t io)]. done.
      * apply elem_of_list_fmap. eexists. split; [|by apply (in_copy_node c n sio prefix t y info)]. done.
  - apply map_eq. intros io. by rewrite Hmap, unroll_iomap_full.
Qed.

(* ---------- the property theorem, restated about the model ---------- *)
Lemma gen_tables_ok9 : tables_ok gen_tables = true.
Proof. vm_compute. reflexivity. Qed.
Lemma lint_clean_inputs_undriven9 C : lint_clean C → inputs_undriven (c_g C).
Proof.
  intros Hl m info Hm Hty. destruct (decide (n_fi info = ∅)) as [|Hne]; [done|]. exfalso.
  apply (lint_ok_iff gen_tables gen_tables_ok9) in Hl. apply Hl. left. exists m, info. split; [done|].
  right. right. left. split; [|done]. rewrite Hty. unfold doc_no_fanin. set_solver.
Qed.

Theorem unroll_spec C n sio prefix U m :
  lint_clean C → closed (c_g C) → acyclic (c_g C) → free_are_inputs (c_g C) →
  sio_ok (c_g C) sio → unroll_names_ok (c_g C) n sio prefix →
  unroll C n sio prefix = Ok (U, m) →
  c_bbs U = ∅ ∧ dom m = io_of (c_g C) ∧
  (∀ x, x ∈ inputs (c_g U) ↔ ∃ t io, t < n ∧ io ∈ inputs (c_g C) ∧ x = io_name io prefix t ∧ (state_src sio io = None ∨ t = 0)) ∧
  ∀ w, consistent (c_g U) w →
    let st := λ v, w (io_name v prefix 0) in
    let ins := λ t i, w (io_name i prefix t) in
    ∀ o t, o ∈ io_of (c_g C) → t < n →
      m !! o ≫= (.!! t) = Some (io_name o prefix t) ∧ w (io_name o prefix t) = run (c_g C) sio t st ins o.
Proof.
  intros Hl Hcl Hac Hfr (Hs1 & Hs2 & Hs3) Hnm Hok.
  assert (Hvals : ∀ kv, kv ∈ sio → kv.2 ∈ inputs (c_g C)).
  { intros kv Hkv. rewrite Forall_forall in Hs1. by apply Hs1. }
  destruct (unroll_closed_form C n sio prefix U m (lint_clean_inputs_undriven9 C Hl) Hvals Hs3 Hnm Hok) as [-> ->]. simpl.
  split; [done|]. split; [apply unroll_iomap_dom|]. split; [intros x; apply unroll_closed_inputs, Hnm|].
  intros w Hw. cbv zeta. intros o t Ho Ht. split; [by apply unroll_iomap_lookup|].
  apply (unroll_closed_simulates (c_g C) n sio prefix w); try done; [apply Hnm|].
  rewrite Forall_forall in Hs1 |- *. intros kv Hkv. destruct (Hs1 kv Hkv) as [H1 H2]. split; [|done]. unfold io_of. set_solver.
Qed.

(* ---------- sequential_unroll: output marking and initial values on top of unroll ---------- *)
Definition tf (i : ninfo) : gtype * gset string := (n_ty i, n_fi i).
Lemma so_fold_tf (m : iomap) (key : string → string) afo (l : list string) : ∀ g g',
  foldl (λ st b, match st with
                 | (g, Done) => match m !! key b with Some l => set_output_g g l afo | None => (g, Fail KeyError) end
                 | _ => st end) (g, Done) l = (g', Done) →
  ∀ x, tf <$> g' !! x = tf <$> g !! x.
Proof.
  induction l as [|b l IH] using rev_ind; intros g g' H x.
  - simpl in H. by injection H as <-.
  - rewrite foldl_app in H. simpl in H.
    destruct (foldl _ (g, Done) l) as [g1 o1] eqn:E1. destruct o1 as [|e]; [|done].
    destruct (m !! key b) as [lst|]; [|done]. apply set_output_done in H as [H _].
    rewrite H, <- (IH g g1 E1 x). destruct (decide _); [|done]. by destruct (g1 !! x).
Qed.
Lemma st_fold_tf (ts : list (string * gtype)) : ∀ g g',
  foldl (λ st xt, match st with (g, Done) => set_type_g g [xt.1] xt.2 | _ => st end) (g, Done) ts = (g', Done) →
  ∀ x, n_fi <$> g' !! x = n_fi <$> g !! x ∧ (x ∉ ts.*1 → n_ty <$> g' !! x = n_ty <$> g !! x).
Proof.
  induction ts as [|b l IH] using rev_ind; intros g g' H x.
  - simpl in H. by injection H as <-.
  - rewrite foldl_app in H. simpl in H.
    destruct (foldl _ (g, Done) l) as [g1 o1] eqn:E1. destruct o1 as [|e]; [|done].
    apply set_type_done in H as [H _]. destruct (IH g g1 E1 x) as [I1 I2]. rewrite H. split.
    + rewrite <- I1. destruct (decide _); [|done]. by destruct (g1 !! x).
    + intros Hx. rewrite fmap_app in Hx. rewrite decide_False by set_solver. apply I2. set_solver.
Qed.
Lemma targets_spec {A} (m : iomap) (key : A → string) (val : A → gtype) (L : list A) : ∀ ts,
  foldr (λ a acc, rbind (lookup0 m (key a)) (λ x, rmap (cons (x, val a)) acc)) (Ok []) L = Ok ts →
  ∀ x, x ∈ ts.*1 → ∃ a, a ∈ L ∧ lookup0 m (key a) = Ok x.
Proof.
  induction L as [|a L IH]; intros ts H x Hx; simpl in H.
  - injection H as <-. set_solver.
  - destruct (lookup0 m (key a)) as [y| | |] eqn:E; simpl in H; try done.
    destruct (foldr _ (Ok []) L) as [ts'| | |] eqn:E'; simpl in H; try done. injection H as <-.
    simpl in Hx. apply elem_of_cons in Hx as [->|Hx]; [exists a; split; [by left|done]|].
    destruct (IH ts' eq_refl x Hx) as (a' & Ha' & Hl). exists a'. split; [by right|done].
Qed.
Lemma lookup0_iomap c n prefix k x : lookup0 (unroll_iomap c n prefix) k = Ok x → k ∈ io_of c ∧ x = io_name k prefix 0.
Proof.
  unfold lookup0. rewrite unroll_iomap_full. case_decide; [|done]. destruct n as [|n]; simpl; [done|]. intros [= <-]. done.
Qed.

Definition iv_ok (C : Circuit) (iv : init_vals) : Prop :=
  match iv with IvDict l => ∀ kt, kt ∈ l → kt.1 ∈ dom (c_bbs C) | _ => True end.

Lemma seq_stripped_sio C d q ign ru CS sio : seq_stripped C d q ign ru = Ok (CS, sio) →
  sio = (λ b, (pre b d, pre b q)) <$> elements (dom (c_bbs C)).
Proof.
  unfold seq_stripped. destruct (strip_blackboxes C ign) as [CS0| | |]; simpl; try done.
  destruct (map_to_list (c_bbs C)) as [|[b0 bb] rest]; [done|].
  destruct (negb (forallb _ _)); [done|]. destruct (negb (bool_decide (d ∈ bb_in bb))); [done|].
  destruct (negb (bool_decide (q ∈ bb_out bb))); [done|]. intros [= _ <-]. done.
Qed.

Theorem seq_closed_form C n d q ign afo iv ru prefix U m CS sio :
  seq_stripped C d q ign ru = Ok (CS, sio) →
  inputs_undriven (c_g CS) → (∀ kv, kv ∈ sio → kv.2 ∈ inputs (c_g CS)) → NoDup sio.*2 →
  unroll_names_ok (c_g CS) n sio prefix → iv_ok C iv →
  sequential_unroll C n d q ign afo iv ru prefix = Ok (U, m) →
  weaker (unroll_closed (c_g CS) n sio prefix) (c_g U) ∧ m = unroll_iomap (c_g CS) n prefix.
Proof.
  intros Hstrip Hin0 Hvals Hsnd Hnm Hiv. pose proof (seq_stripped_sio _ _ _ _ _ _ _ Hstrip) as Hsio.
  unfold sequential_unroll. rewrite Hstrip. simpl.
  destruct (unroll CS n sio prefix) as [[U0 m0]| | |] eqn:Eu; simpl; try done.
  apply unroll_closed_form in Eu as [-> ->]; try done. simpl.
  set (cs := c_g CS) in *. set (G := unroll_closed cs n sio prefix). set (M := unroll_iomap cs n prefix).
  set (insts := elements (dom (c_bbs C))) in *.
  destruct (foldl _ (G, Done) insts) as [g4 o4] eqn:E4. destruct o4 as [|e]; [|done].
  pose proof (so_fold_tf M (λ b, pre b d) afo insts G g4 E4) as H4.
  destruct (match iv with IvNone => _ | IvAll t => _ | IvDict l => _ end) as [ts| | |] eqn:Et; simpl; try done.
  destruct (foldl _ (g4, Done) ts) as [g5 o5] eqn:E5. destruct o5 as [|e]; [|done]. intros [= <- <-].
  split; [|done]. simpl.
  pose proof (st_fold_tf ts g4 g5 E5) as H5.
  (* the retyped nodes are step-0 nodes of state inputs *)
  assert (Hts : ∀ x, x ∈ ts.*1 → ∃ v, v ∈ sio.*2 ∧ x = io_name v prefix 0).
  { intros x Hx. destruct iv as [|t|l].
    - injection Et as <-. set_solver.
    - destruct (targets_spec M (λ b, pre b q) (λ _, t) insts ts Et x Hx) as (b & Hb & Hl).
      apply lookup0_iomap in Hl as [_ ->]. exists (pre b q). split; [|done].
      rewrite Hsio, <- list_fmap_compose. apply elem_of_list_fmap. eauto.
    - destruct (targets_spec M (λ kt : string * gtype, pre kt.1 q) (λ kt, kt.2) l ts Et x Hx) as (kt & Hkt & Hl).
      apply lookup0_iomap in Hl as [_ ->]. exists (pre kt.1 q). split; [|done].
      rewrite Hsio, <- list_fmap_compose. apply elem_of_list_fmap. exists kt.1. split; [done|].
      apply elem_of_elements. by apply Hiv. }
  intros x j Hx. destruct (H5 x) as [H5a H5b]. specialize (H4 x). rewrite Hx in H4. simpl in H4.
  destruct (g4 !! x) as [j4|] eqn:E4x; [|done]. simpl in H4, H5a, H5b. injection H4 as Hty4 Hfi4.
  destruct (g5 !! x) as [j5|] eqn:E5x; [|done]. simpl in H5a, H5b. injection H5a as Hfi5.
  exists j5. split; [done|]. split; [congruence|].
  destruct (decide (x ∈ ts.*1)) as [Hin|Hnin].
  - right. destruct (Hts x Hin) as (v & Hv & ->).
    apply elem_of_list_fmap in Hv as (kv & -> & Hkv). pose proof (Hvals kv Hkv) as Hvi.
    destruct n as [|n']; [unfold G, unroll_closed, unroll_nodes in Hx; simpl in Hx; by rewrite lookup_empty in Hx|].
    assert ((io_name kv.2 prefix 0, io_node cs sio prefix 0 kv.2) ∈ unroll_nodes cs (S n') sio prefix) as Hnode.
    { apply in_io_node; [lia|]. unfold io_of. set_solver. }
    apply (elem_of_list_to_map (M := gmap string)) in Hnode; [|apply Hnm]. unfold G, unroll_closed in Hx.
    rewrite Hnode in Hx. injection Hx as <-. unfold io_node. rewrite bool_decide_eq_true_2 by done.
    by destruct (state_src sio kv.2).
  - left. specialize (H5b Hnin). injection H5b as Hty5. congruence.
Qed.

(* the stripped circuit is simulated cycle by cycle by whatever sequential_unroll returns *)
Theorem seq_spec C n d q ign afo iv ru prefix U m CS sio :
  seq_stripped C d q ign ru = Ok (CS, sio) →
  lint_clean CS → closed (c_g CS) → acyclic (c_g CS) → free_are_inputs (c_g CS) →
  sio_ok (c_g CS) sio → unroll_names_ok (c_g CS) n sio prefix → iv_ok C iv →
  sequential_unroll C n d q ign afo iv ru prefix = Ok (U, m) →
  dom m = io_of (c_g CS) ∧
  ∀ w, consistent (c_g U) w →
    let st := λ v, w (io_name v prefix 0) in
    let ins := λ t i, w (io_name i prefix t) in
    ∀ o t, o ∈ io_of (c_g CS) → t < n →
      m !! o ≫= (.!! t) = Some (io_name o prefix t) ∧ w (io_name o prefix t) = run (c_g CS) sio t st ins o.
Proof.
  intros Hstrip Hl Hcl Hac Hfr (Hs1 & Hs2 & Hs3) Hnm Hiv Hok.
  assert (Hvals : ∀ kv, kv ∈ sio → kv.2 ∈ inputs (c_g CS)).
  { intros kv Hkv. rewrite Forall_forall in Hs1. by apply Hs1. }
  destruct (seq_closed_form C n d q ign afo iv ru prefix U m CS sio Hstrip (lint_clean_inputs_undriven9 CS Hl) Hvals Hs3 Hnm Hiv Hok) as [Hwk ->].
  split; [apply unroll_iomap_dom|]. intros w Hw. cbv zeta. intros o t Ho Ht. split; [by apply unroll_iomap_lookup|].
  apply (seq_result_simulates (c_g CS) n sio prefix (c_g U) w); try done; [apply Hnm|].
  rewrite Forall_forall in Hs1 |- *. intros kv Hkv. destruct (Hs1 kv Hkv) as [H1 H2]. split; [|done]. unfold io_of. set_solver.
Qed.

(* ---------- the result of unroll is lint-clean ---------- *)
Lemma has_dot_pnat t : has_dot (pnat t) = false.
Proof. apply has_dot_pretty_N. Qed.
Lemma has_dot_io_name io prefix t : has_dot (io_name io prefix t) = has_dot io || has_dot prefix.
Proof. unfold io_name. rewrite !has_dot_app, has_dot_pnat. simpl. by rewrite !orb_false_r. Qed.
Lemma has_dot_inst_name t : has_dot (inst_name t) = false.
Proof. unfold inst_name. rewrite has_dot_app, has_dot_pnat. done. Qed.

Theorem unroll_closed_lint_clean C n sio prefix nm :
  lint_clean C → c_bbs C = ∅ → startpoints (c_g C) = inputs (c_g C) → has_dot prefix = false →
  NoDup (unroll_nodes (c_g C) n sio prefix).*1 →
  lint_clean {| c_name := nm; c_g := unroll_closed (c_g C) n sio prefix; c_bbs := ∅ |}.
Proof.
  intros Hl Hb Hsp Hpre Hnd.
  assert (gen_ok : tables_ok gen_tables = true) by (vm_compute; reflexivity).
  set (c := c_g C) in *.
  assert (Hnode : ∀ m info, c !! m = Some info → has_dot m = false ∧ wf_node info).
  { intros m info Hm. apply (lint_clean_node C m info Hl Hb Hm). intros Hbo.
    assert (m ∈ startpoints c) as Hs. { apply elem_of_of_type. exists info. split; [done|]. cbv beta. rewrite Hbo. reflexivity. }
    rewrite Hsp in Hs. apply elem_of_inputs in Hs as (i & Hi & Hty). fold c in Hi. rewrite Hm in Hi. injection Hi as <-. congruence. }
  assert (Hdotd : ∀ m, m ∈ dom c → has_dot m = false).
  { intros m [info Hm]%elem_of_dom. by apply (Hnode m info). }
  assert (Hio_dom : ∀ io, io ∈ io_of c → io ∈ dom c).
  { unfold io_of. intros io [(i & Hi & _)%elem_of_inputs|(i & Hi & _)%elem_of_outputs]%elem_of_union; apply elem_of_dom; eauto. }
  apply (lint_ok_iff gen_tables gen_ok). intros [(x & j & Hx & V)|(inst & d & Hd & _)]; [|simpl in Hd; by rewrite lookup_empty in Hd].
  simpl in Hx. unfold unroll_closed in Hx. apply elem_of_list_to_map in Hx; [|done]. revert V. apply wf_node_ok.
  - apply in_unroll_nodes_inv in Hx as (t & Ht & [(io & Hio & -> & ->)|(m & info & Hm & -> & ->)]).
    + rewrite has_dot_io_name, Hpre, (Hdotd io) by by apply Hio_dom. done.
    + rewrite has_dot_pre, has_dot_inst_name. simpl. by apply (Hnode m info).
  - apply in_unroll_nodes_inv in Hx as (t & Ht & [(io & Hio & -> & ->)|(m & info & Hm & -> & ->)]).
    + unfold io_node. case_bool_decide; [|apply wf_node_buf1].
      destruct (state_src sio io) as [k|]; [destruct t|]; try apply wf_node_input. apply wf_node_buf1.
    + unfold ucopy_info. case_bool_decide; [apply wf_node_buf1|]. apply wf_node_map. by apply (Hnode m info).
Qed.
