(* Lint-cleanliness of the closed forms of acyclic_unroll / unroll (shared helper lemmas): a node-local sufficient
   condition for "no lint rule fires", its preservation by renaming, and dot-freeness of the generated names. *)
From Coq Require Import Ascii.
From stdpp Require Import strings gmap sets fin_sets pretty.
From CG Require Import Base.Api Model.Lint Proofs.LintProofs.
Open Scope string_scope.

(* ---------- dots in generated names ---------- *)
Lemma has_dot_app a b : has_dot (a ++ b) = has_dot a || has_dot b.
Proof. induction a as [|ch a IH]; simpl; [done|]. destruct (Ascii.eqb ch "."); [done|exact IH]. Qed.
Lemma pretty_N_char_not_dot x : Ascii.eqb (pretty_N_char x) "." = false.
Proof. unfold pretty_N_char. repeat case_match; reflexivity. Qed.
Lemma has_dot_pretty_N_go x : ∀ s, has_dot (pretty_N_go x s) = has_dot s.
Proof.
  induction (N.lt_wf_0 x) as [x _ IH]; intros s.
  assert (x = 0 ∨ 0 < x)%N as [->|Hx] by lia.
  - by rewrite pretty_N_go_0.
  - rewrite pretty_N_go_step by done. rewrite IH by (by apply N.div_lt). simpl. by rewrite pretty_N_char_not_dot.
Qed.
Lemma has_dot_pretty_N (x : N) : has_dot (pretty x) = false.
Proof. unfold pretty, pretty_N. case_decide; [done|]. by rewrite has_dot_pretty_N_go. Qed.
Lemma has_dot_pre p x : has_dot (pre p x) = has_dot p || has_dot x.
Proof. unfold pre. rewrite !has_dot_app. simpl. done. Qed.

(* ---------- a node-local sufficient condition ---------- *)
Definition wf_node (j : ninfo) : Prop :=
  n_ty j ∈ doc_supported ∧ n_ty j ≠ BbOut ∧
  (n_ty j ∈ doc_no_fanin → n_fi j = ∅) ∧
  (n_ty j ∈ doc_single → ∀ a b, a ∈ n_fi j → b ∈ n_fi j → a = b) ∧
  (n_ty j ∈ (doc_single ++ doc_multi)%list → n_fi j ≠ ∅).

Lemma size_gt1 (s : gset string) : 1 < size s → ∃ a b, a ∈ s ∧ b ∈ s ∧ a ≠ b.
Proof.
  intros H. destruct (size_pos_elem_of s) as [a Ha]; [lia|]. exists a.
  destruct (size_pos_elem_of (s ∖ {[a]})) as [b Hb]; [rewrite size_difference by set_solver; rewrite size_singleton; lia|].
  exists b. set_solver.
Qed.
Lemma wf_node_ok (C : Circuit) x j : has_dot x = false → wf_node j → ¬ node_violates C default_flags x j.
Proof.
  intros Hdot (H1 & H2 & H3 & H4 & H5) [V|[V|[V|[V|[V|[V|[V|V]]]]]]].
  - done.
  - destruct V as [V _]. congruence.
  - destruct V as [V1 V2]. by apply V2, H3.
  - by destruct V.
  - destruct V as [V1 V2]. apply size_gt1 in V2 as (a & b & Ha & Hb & Hne). apply Hne. by apply H4.
  - destruct V as (_ & V1 & V2). by apply H5.
  - destruct V as [V _]. done.
  - destruct V as [V _]. done.
Qed.
(* what lint-cleanliness of a blackbox-free circuit without bb_output nodes gives for each node *)
Lemma lint_clean_node C x j : lint_clean C → c_bbs C = ∅ → c_g C !! x = Some j → n_ty j ≠ BbOut →
  has_dot x = false ∧ wf_node j.
Proof.
  intros Hl Hb Hx Hbo.
  assert (gen_ok : tables_ok gen_tables = true) by (vm_compute; reflexivity).
  apply (lint_ok_iff gen_tables gen_ok) in Hl.
  assert (Hnv : ¬ node_violates C default_flags x j) by (intros V; apply Hl; left; eauto).
  split.
  - destruct (has_dot x) eqn:E; [|done]. exfalso. apply Hnv. right. left. split; [done|]. rewrite Hb. set_solver.
  - split; [|split; [done|split; [|split]]].
    + destruct (decide (n_ty j ∈ doc_supported)); [done|]. exfalso. apply Hnv. by left.
    + intros Ht. destruct (decide (n_fi j = ∅)); [done|]. exfalso. apply Hnv. right. right. left. done.
    + intros Ht a b Ha Hb'. destruct (decide (a = b)); [done|]. exfalso. apply Hnv. do 4 right. left. split; [done|].
      assert (size ({[a; b]} : gset string) ≤ size (n_fi j)) by (apply subseteq_size; set_solver).
      rewrite size_union, !size_singleton in H by set_solver. lia.
    + intros Ht He. apply Hnv. do 5 right. left. done.
Qed.

Lemma wf_node_input o : wf_node (mk_node Input o ∅).
Proof.
  unfold wf_node, doc_supported, doc_no_fanin, doc_single, doc_multi. simpl.
  split; [set_solver|]. split; [done|]. split; [done|]. split; [set_solver|]. intros H. exfalso. set_solver.
Qed.
Lemma wf_node_buf1 o y : wf_node (mk_node Buf o {[y]}).
Proof.
  unfold wf_node, doc_supported, doc_no_fanin, doc_single, doc_multi. simpl.
  split; [set_solver|]. split; [done|]. split; [intros H; exfalso; set_solver|]. split; [set_solver|]. set_solver.
Qed.
Lemma wf_node_map (ρ : string → string) j o : wf_node j → wf_node (mk_node (n_ty j) o (set_map ρ (n_fi j))).
Proof.
  intros (H1 & H2 & H3 & H4 & H5). unfold wf_node. simpl. split; [done|]. split; [done|]. split; [|split].
  - intros Ht. rewrite (H3 Ht). apply set_map_empty.
  - intros Ht a b (a' & -> & Ha)%elem_of_map (b' & -> & Hb)%elem_of_map. f_equal. by apply H4.
  - intros Ht He. apply (H5 Ht). apply set_eq. intros z. split; [|set_solver]. intros Hz.
    assert (ρ z ∈ (set_map ρ (n_fi j) : gset string)) as Hin by (apply elem_of_map; eauto). rewrite He in Hin. set_solver.
Qed.
