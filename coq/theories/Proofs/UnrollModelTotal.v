(* C09 totality: inside the guards every step of the API-level model `unroll` is accepted, so it returns. *)
From stdpp Require Import strings gmap sets fin_sets pretty.
From CG Require Import Proofs.UnrollSteps Proofs.ComposeProofs Proofs.UnrollTotal Proofs.UnrollLint.
From CG Require Import Base.Compose Base.Oracle Model.Compose6 Model.Unroll Model.Lint Proofs.AcyclicUnrollProofs Proofs.UnrollProofs Proofs.LintProofs Proofs.UnrollLink.
Open Scope string_scope.

Definition valid_names (c : circuit) : Prop := ∀ n, n ∈ dom c → n ≠ "" ∧ starts_digit n = false.
Definition plain (c : circuit) : Prop := ∀ n i, c !! n = Some i → plain_ty (n_ty i).

Lemma io_type_supported c sio io : io_type c sio io ∈ Gen_types.supported_types.
Proof. unfold io_type, Gen_types.supported_types. repeat case_bool_decide; simpl; set_solver. Qed.
Lemma io_type_plain c sio io : plain_ty (io_type c sio io).
Proof. unfold io_type, plain_ty. repeat case_bool_decide; simpl; done. Qed.
Lemma io_name_valid io prefix t : io ≠ "" → starts_digit io = false → io_name io prefix t ≠ "" ∧ starts_digit (io_name io prefix t) = false.
Proof. intros Hne Hd. unfold io_name. split; [destruct io; done|]. by rewrite starts_digit_app. Qed.

(* ---------- the per-iteration io nodes ---------- *)
Lemma add_ios_total c sio prefix itr (l : list string) : ∀ g m,
  NoDup l → (∀ io, io ∈ l → io_name io prefix itr ∉ dom c) → (∀ io, io ∈ l → io_name io prefix itr ∉ dom g) →
  (∀ a b, a ∈ l → b ∈ l → io_name a prefix itr = io_name b prefix itr → a = b) →
  (∀ io, io ∈ l → io ≠ "" ∧ starts_digit io = false) →
  ∃ g' m', foldl (add_ios c sio prefix itr) (g, Done, m) l = (g', Done, m').
Proof.
  induction l as [|a l IH]; intros g m Hnd Huid Hfresh Hinj Hval; simpl; [eauto|].
  apply NoDup_cons in Hnd as [Hal Hnd]. rewrite uid_id by (apply Huid; by left).
  destruct (Hval a) as [Hne Hdig]; [by left|]. destruct (io_name_valid a prefix itr Hne Hdig) as [Hv1 Hv2].
  rewrite (add_g_succeeds g (io_name a prefix itr) (io_type c sio a) [] [] (is_output c a) (<[io_name a prefix itr := mk_node (io_type c sio a) (is_output c a) ∅]> g)
             (<[io_name a prefix itr := mk_node (io_type c sio a) (is_output c a) ∅]> g)); try done; try apply io_type_supported; try apply connect_nil_r; [|apply Hfresh; by left].
  apply IH; [done|intros; apply Huid; by right| |intros; apply Hinj; set_solver|intros; apply Hval; by right].
  intros io Hio. rewrite dom_insert. intros [E%elem_of_singleton|Hin]%elem_of_union.
  - apply Hinj in E; [by subst|by right|by left].
  - by apply (Hfresh io); [right|].
Qed.

(* ---------- the mixed connection fold ---------- *)
Lemma conn_fold_mixed_total SC name (tgt : string → string) (l : list string) : ∀ g,
  NoDup l → (∀ a b, a ∈ l → b ∈ l → tgt a = tgt b → a = b) → (∀ a b, a ∈ l → b ∈ l → tgt a ≠ pre name b) →
  (∀ a, a ∈ l → a ∈ inputs (c_g SC) → plain_at g (tgt a) ∧ ∃ i, g !! pre name a = Some i ∧ drivable i) →
  (∀ a, a ∈ l → a ∉ inputs (c_g SC) → plain_at g (pre name a) ∧ ∃ i, g !! tgt a = Some i ∧ drivable i) →
  ∃ g', foldl (conn_step SC name) (g, Done) ((λ n, (n, [tgt n])) <$> l) = (g', Done).
Proof.
  induction l as [|a l IH]; intros g Hnd Hinj Hdis Hin Hout; simpl; [eauto|].
  apply NoDup_cons in Hnd as [Hal Hnd].
  assert (Hrest : ∀ g1 us v, connect_g g us [v] = (g1, Done) → (v = pre name a ∨ v = tgt a) →
            ∃ g', foldl (conn_step SC name) (g1, Done) ((λ n, (n, [tgt n])) <$> l) = (g', Done)).
  { intros g1 us v H1 Hv. apply IH; [done|intros; apply Hinj; set_solver|intros; apply Hdis; set_solver| |].
    - intros b Hb Hbi. destruct (Hin b) as [Hp (i & Hi & Hd)]; [by right|done|]. split; [by eapply plain_at_connect|].
      rewrite (connect_done_other _ _ _ _ _ H1); [eauto|]. intros E%elem_of_list_singleton.
      destruct Hv as [-> | ->]; [apply (inj (pre name)) in E; by subst|symmetry in E; apply Hdis in E; [done|by left|by right]].
    - intros b Hb Hbi. destruct (Hout b) as [Hp (i & Hi & Hd)]; [by right|done|]. split; [by eapply plain_at_connect|].
      rewrite (connect_done_other _ _ _ _ _ H1); [eauto|]. intros E%elem_of_list_singleton.
      destruct Hv as [-> | ->]; [apply Hdis in E; [done|by right|by left]|apply Hinj in E; [by subst|by right|by left]]. }
  case_bool_decide as Hai.
  - destruct (Hin a) as [Hp (i & Hi & Hd1 & Hd2)]; [by left|done|].
    destruct (connect_one_done g (tgt a) (pre name a)) as [g1 H1]; [by apply plain_at_dom|done|eauto|].
    rewrite H1. eapply Hrest; eauto.
  - destruct (Hout a) as [Hp (i & Hi & Hd1 & Hd2)]; [by left|done|].
    destruct (connect_one_done g (pre name a) (tgt a)) as [g1 H1]; [by apply plain_at_dom|done|eauto|].
    rewrite H1. eapply Hrest; eauto.
Qed.

(* ---------- one iteration is accepted ---------- *)
Section iteration_total.
  Context (C : Circuit) (n : nat) (sio : list (string * string)) (prefix : string) (ios : list string).
  Let c := c_g C.
  Context (Hbbs : c_bbs C = ∅).
  Context (Hios : ∀ io, io ∈ ios ↔ io ∈ io_of c) (Hiosnd : NoDup ios).
  Context (Hfreshc : ∀ t io, t < n → io ∈ io_of c → io_name io prefix t ∉ dom c).
  Context (Hin0 : ∀ m info, c !! m = Some info → n_ty info = Input → n_fi info = ∅).
  Context (Hvals : ∀ kv, kv ∈ sio → kv.2 ∈ inputs c) (Hsnd : NoDup sio.*2) (Hkeys : ∀ kv, kv ∈ sio → kv.1 ∈ io_of c).
  Context (Hplain : plain c) (Hvalid : valid_names c).
  Context (HS_io : ∀ t t' io io', t ≠ t' → t < n → t' < n → io ∈ io_of c → io' ∈ io_of c → io_name io prefix t ≠ io_name io' prefix t').
  Context (HS_ioc : ∀ t t' io y, t < n → t' < n → io ∈ io_of c → y ∈ dom c → io_name io prefix t ≠ pre (inst_name t') y).
  Context (HS_cc : ∀ t t' y y', t ≠ t' → t < n → t' < n → y ∈ dom c → y' ∈ dom c → pre (inst_name t) y ≠ pre (inst_name t') y').
  Context (HS_inj : ∀ t io io', t < n → io ∈ io_of c → io' ∈ io_of c → io_name io prefix t = io_name io' prefix t → io = io').

  Lemma io_of_dom' io : io ∈ io_of c → io ∈ dom c.
  Proof. unfold io_of. intros [(i & Hi & _)%elem_of_inputs|(i & Hi & _)%elem_of_outputs]%elem_of_union; apply elem_of_dom; eauto. Qed.

  Lemma unroll_iter_total j U m : j < n → unroll_inv C sio prefix j U m →
    ∃ U' m', unroll_iter C sio prefix ios (U, Done, m) j = (U', Done, m').
  Proof.
    intros Hjn Hinv. pose proof Hinv as [Hnm Hb Hio Hcopy Hdom Hmap]. unfold unroll_iter.
    (* 1. the io nodes *)
    destruct (add_ios_total (c_g C) sio prefix j ios (c_g U) m) as (g1 & m1 & E1); [done| | | | |].
    { intros io Hio'%Hios. by apply Hfreshc. }
    { intros io Hio'%Hios Hin. apply Hdom in Hin as (t & Ht & [(io' & Hio'' & E)|(y & Hy & E)]).
      - apply (HS_io j t io io'); try done; lia.
      - apply (HS_ioc j t io y); try done; lia. }
    { intros a b Ha%Hios Hb'%Hios. by apply HS_inj. }
    { intros io Hio'%Hios. by apply Hvalid, io_of_dom'. }
    rewrite E1.
    pose proof E1 as (N1 & N2 & _ & _)%add_ios_fold_done; [|done|intros io Hio'%Hios; by apply Hfreshc]. fold c in N1, N2.
    set (nm := inst_name j).
    assert (Hfresh : ∀ y, y ∈ dom c → pre nm y ∉ dom g1).
    { intros y Hy Hin. apply elem_of_dom in Hin. rewrite N2 in Hin.
      - apply elem_of_dom, Hdom in Hin as (t & Ht & [(io' & Hio'' & E)|(y' & Hy' & E)]).
        + symmetry in E. apply (HS_ioc t j io' y) in E; try done; lia.
        + apply (HS_cc j t y y') in E; try done; lia.
      - intros io Hio'%Hios E. symmetry in E. by apply (HS_ioc j j io y) in E. }
    set (S0 := g1 ∪ rename (pre nm) (strip_io c)).
    assert (HS_old : ∀ x, x ∈ dom g1 → S0 !! x = g1 !! x).
    { intros x [i Hi]%elem_of_dom. unfold S0. rewrite Hi. by apply lookup_union_Some_l. }
    assert (HS_new : ∀ y, y ∈ dom c → S0 !! pre nm y = ren_info (pre nm) <$> (strip_info <$> c !! y)).
    { intros y Hy. unfold S0. rewrite lookup_union_r by (apply not_elem_of_dom; by apply Hfresh).
      rewrite lookup_rename by apply _. unfold strip_io. by rewrite lookup_fmap. }
    assert (Hnew_g1 : ∀ io, io ∈ ios → io_name io prefix j ∈ dom g1) by (intros io Hio'; apply elem_of_dom; destruct (N1 io Hio') as [-> _]; eauto).
    (* 2. the subcircuit *)
    destruct (conn_fold_mixed_total C nm (λ i, io_name i prefix j) ios S0) as [g2 Hfold]; [done| | | | |].
    { intros a b Ha%Hios Hb'%Hios. by apply HS_inj. }
    { intros a b Ha%Hios Hb'%Hios. apply HS_ioc; try done. by apply io_of_dom'. }
    { intros a Ha Hai. fold c in Hai. split.
      - exists (io_type c sio a). split; [|apply io_type_plain]. unfold ty. rewrite HS_old by by apply Hnew_g1. by destruct (N1 a Ha) as [-> _].
      - pose proof Hai as (info & Hi & Hty)%elem_of_inputs.
        rewrite HS_new by (apply elem_of_dom; eauto). rewrite Hi. simpl. eexists. split; [done|].
        unfold drivable. simpl. rewrite Hty, bool_decide_eq_true_2 by done. split; [unfold doc_no_fanin; set_solver|].
        intros _. rewrite (Hin0 a info Hi Hty). apply set_map_empty. }
    { intros a Ha Hai. fold c in Hai. pose proof (io_of_dom' a (proj1 (Hios a) Ha)) as [info Hi]%elem_of_dom.
      assert (Hty : n_ty info ≠ Input) by (intros Hty; apply Hai, elem_of_inputs; eauto). split.
      - exists (n_ty info). split; [|by apply (Hplain a info)]. unfold ty. rewrite HS_new by (apply elem_of_dom; eauto). rewrite Hi. simpl.
        by rewrite bool_decide_eq_false_2.
      - rewrite HS_old by by apply Hnew_g1. destruct (N1 a Ha) as [-> _]. eexists. split; [done|]. unfold drivable. simpl.
        unfold io_type. rewrite (bool_decide_eq_false_2 (a ∈ sio.*2)), (bool_decide_eq_false_2 (a ∈ inputs c)) by (try done; intros (kv & -> & Hkv)%elem_of_list_fmap; by apply Hai, Hvals).
        split; [unfold doc_no_fanin; set_solver|done]. }
    destruct (add_subcircuit_total (with_g U g1) C nm ((λ i, (i, [io_name i prefix j])) <$> ios) g2) as [U2 E2]; [done|exact Hfresh| |exact Hfold|].
    { intros kv (io & -> & Hio'%Hios)%elem_of_list_fmap. simpl. unfold io_of in Hio'. fold c. set_solver. }
    fold nm. rewrite E2.
    destruct (iter_facts C n sio prefix ios Hbbs Hios Hiosnd Hfreshc Hin0 Hvals Hsnd j U m g1 m1 U2 Hjn Hinv E1 E2) as (_ & _ & _ & _ & _ & _ & _ & G_old & G_io & _ & _).
    fold c in G_old, G_io.
    (* 3. the state step *)
    destruct j as [|j'].
    - destruct (set_type_total (c_g U2) ((λ kv : string * string, io_name kv.2 prefix 0) <$> sio) Input) as [g3 E3]; [unfold addable_types; set_solver| |rewrite E3; eauto].
      intros x (kv & -> & Hkv)%elem_of_list_fmap. apply elem_of_dom. rewrite G_io by (unfold io_of; pose proof (Hvals kv Hkv); set_solver). eauto.
    - destruct (connect_fold_total (λ kv : string * string, io_name kv.1 prefix j') (λ kv : string * string, io_name kv.2 prefix (S j')) sio (c_g U2)) as [g3 E3]; [| | | |rewrite E3; eauto].
      + eapply NoDup_fmap_1. exact Hsnd.
      + intros [k1 v1] [k2 v2] H1 H2 E. simpl in E. apply HS_inj in E; [|done|unfold io_of; pose proof (Hvals _ H1); set_solver|unfold io_of; pose proof (Hvals _ H2); set_solver].
        simpl in E. subst v2. pose proof (state_src_Some sio k1 v1 Hsnd H1). pose proof (state_src_Some sio k2 v1 Hsnd H2). congruence.
      + intros kv Hkv. pose proof (Hkeys kv Hkv) as Hk.
        assert (io_name kv.1 prefix j' ∈ dom (c_g U)) as Hd by (apply elem_of_dom; rewrite (Hio j' kv.1) by (lia || done); eauto).
        unfold plain_at, ty. rewrite G_old by done. rewrite (Hio j' kv.1) by (lia || done). simpl.
        unfold io_node. case_bool_decide; [|eexists; split; [done|done]].
        destruct (state_src sio kv.1); [destruct j'|]; eexists; (split; [done|done]).
      + intros kv Hkv. pose proof (Hvals kv Hkv) as Hv. rewrite G_io, decide_True by (try done; unfold io_of; set_solver).
        eexists. split; [done|]. unfold drivable. simpl. unfold io_type. rewrite bool_decide_eq_true_2 by (apply elem_of_list_fmap; eauto).
        split; [unfold doc_no_fanin; set_solver|done].
  Qed.
End iteration_total.

(* ---------- separation of the generated names ---------- *)
Lemma NoDup_bind_blk {A} (f : A → list string) (l : list A) a : NoDup (l ≫= f) → a ∈ l → NoDup (f a).
Proof.
  induction l as [|y l IH]; intros Hnd Ha; [by apply elem_of_nil in Ha|].
  rewrite bind_cons in Hnd. apply NoDup_app in Hnd as (H1 & _ & H2). apply elem_of_cons in Ha as [->|Ha]; auto.
Qed.
Lemma NoDup_fmap_inj_on {A} (f : A → string) (l : list A) a b : NoDup (f <$> l) → a ∈ l → b ∈ l → f a = f b → a = b.
Proof.
  induction l as [|y l IH]; intros Hnd Ha Hb E; [by apply elem_of_nil in Ha|].
  rewrite fmap_cons in Hnd. apply NoDup_cons in Hnd as [Hy Hnd].
  apply elem_of_cons in Ha as [->|Ha], Hb as [->|Hb]; auto.
  - exfalso. apply Hy. rewrite E. by apply elem_of_list_fmap_1.
  - exfalso. apply Hy. rewrite <- E. by apply elem_of_list_fmap_1.
Qed.

Section keys9.
  Context (c : circuit) (n : nat) (sio : list (string * string)) (prefix : string).
  Let blk (t : nat) : list string :=
    (((λ io, io_name io prefix t) <$> elements (io_of c)) ++ ((λ p : string * ninfo, pre (inst_name t) p.1) <$> map_to_list c))%list.
  Lemma keys_struct9 : (unroll_nodes c n sio prefix).*1 = seq 0 n ≫= blk.
  Proof.
    unfold unroll_nodes. induction (seq 0 n) as [|t l IH]; [done|]. rewrite !bind_cons, fmap_app, IH. f_equal.
    unfold blk. by rewrite fmap_app, <- !list_fmap_compose.
  Qed.
  Lemma in_blk_io t io : io ∈ io_of c → io_name io prefix t ∈ blk t.
  Proof. intros H. unfold blk. apply elem_of_app. left. apply elem_of_list_fmap. exists io. split; [done|by apply elem_of_elements]. Qed.
  Lemma in_blk_copy t y : y ∈ dom c → pre (inst_name t) y ∈ blk t.
  Proof. intros [i Hi]%elem_of_dom. unfold blk. apply elem_of_app. right. apply elem_of_list_fmap. exists (y, i). split; [done|by apply elem_of_map_to_list]. Qed.

  Context (Hnd : NoDup (unroll_nodes c n sio prefix).*1).
  Lemma sep_blocks t t' x : t ≠ t' → t < n → t' < n → x ∈ blk t → x ∈ blk t' → False.
  Proof.
    intros Hne Ht Ht' H1 H2. rewrite keys_struct9 in Hnd.
    apply (NoDup_bind_sep blk (seq 0 n) Hnd t t' t t' x Hne); [apply lookup_seq_lt; lia|apply lookup_seq_lt; lia|done|done].
  Qed.
  Lemma blk_nodup t : t < n → NoDup (blk t).
  Proof. intros Ht. rewrite keys_struct9 in Hnd. apply (NoDup_bind_blk blk (seq 0 n) t Hnd). apply elem_of_seq. lia. Qed.
  Lemma sep_io t t' io io' : t ≠ t' → t < n → t' < n → io ∈ io_of c → io' ∈ io_of c → io_name io prefix t ≠ io_name io' prefix t'.
  Proof. intros Hne Ht Ht' H1 H2 E. apply (sep_blocks t t' (io_name io prefix t)); try done; [by apply in_blk_io|rewrite E; by apply in_blk_io]. Qed.
  Lemma sep_ioc t t' io y : t < n → t' < n → io ∈ io_of c → y ∈ dom c → io_name io prefix t ≠ pre (inst_name t') y.
  Proof.
    intros Ht Ht' H1 H2 E. destruct (decide (t = t')) as [<-|Hne].
    - pose proof (blk_nodup t Ht) as Hb. unfold blk in Hb. apply NoDup_app in Hb as (_ & Hdis & _).
      apply (Hdis (io_name io prefix t)).
      + apply elem_of_list_fmap. exists io. split; [done|by apply elem_of_elements].
      + rewrite E. apply elem_of_dom in H2 as [i Hi]. apply elem_of_list_fmap. exists (y, i). split; [done|by apply elem_of_map_to_list].
    - apply (sep_blocks t t' (io_name io prefix t)); try done; [by apply in_blk_io|rewrite E; by apply in_blk_copy].
  Qed.
  Lemma sep_cc t t' y y' : t ≠ t' → t < n → t' < n → y ∈ dom c → y' ∈ dom c → pre (inst_name t) y ≠ pre (inst_name t') y'.
  Proof. intros Hne Ht Ht' H1 H2 E. apply (sep_blocks t t' (pre (inst_name t) y)); try done; [by apply in_blk_copy|rewrite E; by apply in_blk_copy]. Qed.
  Lemma io_name_inj_on t io io' : t < n → io ∈ io_of c → io' ∈ io_of c → io_name io prefix t = io_name io' prefix t → io = io'.
  Proof.
    intros Ht H1 H2 E. pose proof (blk_nodup t Ht) as Hb. unfold blk in Hb. apply NoDup_app in Hb as (Hb & _ & _).
    apply (NoDup_fmap_inj_on (λ io, io_name io prefix t) (elements (io_of c))); try done; by apply elem_of_elements.
  Qed.
End keys9.

(* ---------- the model returns ---------- *)
Theorem unroll_total C n sio prefix :
  lint_clean C → c_bbs C = ∅ → plain (c_g C) → valid_names (c_g C) → 1 ≤ n →
  sio_ok (c_g C) sio → unroll_names_ok (c_g C) n sio prefix →
  ∃ U m, unroll C n sio prefix = Ok (U, m).
Proof.
  intros Hl Hb Hplain Hvalid Hn (Hs1 & Hs2 & Hs3) [Hnd Hnew].
  set (c := c_g C) in *. rewrite Forall_forall in Hs1.
  assert (Hvals : ∀ kv, kv ∈ sio → kv.2 ∈ inputs c) by (intros kv Hkv; by apply Hs1).
  assert (Hkeys : ∀ kv, kv ∈ sio → kv.1 ∈ io_of c) by (intros kv Hkv; destruct (Hs1 kv Hkv); unfold io_of; set_solver).
  pose proof (lint_clean_inputs_undriven9 C Hl) as Hin0. fold c in Hin0.
  unfold unroll. fold c. rewrite (bool_decide_eq_true_2 _ Hb). cbn [negb].
  assert ((n <? 1)%nat = false) as -> by (destruct n; [lia|done]).
  assert (forallb (λ kv : string * string, bool_decide (kv.1 ∈ io_of c) && bool_decide (kv.2 ∈ io_of c)) sio = true) as ->.
  { apply forallb_forall. intros kv Hkv%elem_of_list_In. apply andb_true_iff. split; apply bool_decide_eq_true; [by apply Hkeys|].
    pose proof (Hvals kv Hkv). unfold io_of. set_solver. }
  cbn [negb]. set (ios := elements (io_of c)).
  assert (Hios : ∀ io, io ∈ ios ↔ io ∈ io_of c) by (intros; apply elem_of_elements).
  assert (Hfreshc : ∀ t io, t < n → io ∈ io_of c → io_name io prefix t ∉ dom c).
  { intros t io Ht Hio. apply Hnew. apply elem_of_list_fmap. eexists. split; [|by apply (in_io_node c n sio prefix t io)]. done. }
  assert (Hfold : ∀ len a U m, a + len ≤ n → unroll_inv C sio prefix a U m →
            ∃ U' m', foldl (unroll_iter C sio prefix ios) (U, Done, m) (seq a len) = (U', Done, m')).
  { induction len as [|len IH]; intros a U m Hle Hinv; [simpl; eauto|].
    change (seq a (S len)) with (a :: seq (S a) len). cbn [foldl].
    destruct (unroll_iter_total C n sio prefix ios Hb Hios (NoDup_elements _) Hfreshc Hin0 Hvals Hs3 Hkeys Hplain Hvalid
                (sep_io c n sio prefix Hnd) (sep_ioc c n sio prefix Hnd) (sep_cc c n sio prefix Hnd) (io_name_inj_on c n sio prefix Hnd) a U m) as (U1 & m1 & E); [lia|done|].
    rewrite E. apply IH; [lia|]. apply (unroll_iter_inv C n sio prefix ios Hb Hios (NoDup_elements _) Hfreshc Hin0 Hvals Hs3 a U m U1 m1); [lia|done|done]. }
  destruct (Hfold n 0 {| c_name := "circuit"; c_g := ∅; c_bbs := ∅ |} (gset_to_gmap [] (io_of c))) as (U & m & E); [lia| |rewrite E; eauto].
  split; cbn [c_name c_bbs c_g]; try done; try (intros; lia).
  intros io. rewrite lookup_gset_to_gmap. fold c. case_decide; [by rewrite option_guard_True|by rewrite option_guard_False].
Qed.

(* ---------- end to end ---------- *)
Theorem unroll_correct C n sio prefix :
  lint_clean C → c_bbs C = ∅ → closed (c_g C) → acyclic (c_g C) → plain (c_g C) → valid_names (c_g C) → free_are_inputs (c_g C) →
  1 ≤ n → has_dot prefix = false → sio_ok (c_g C) sio → unroll_names_ok (c_g C) n sio prefix →
  ∃ U m, unroll C n sio prefix = Ok (U, m) ∧
    c_bbs U = ∅ ∧ lint_clean U ∧ dom m = io_of (c_g C) ∧
    (∀ x, x ∈ inputs (c_g U) ↔ ∃ t io, t < n ∧ io ∈ inputs (c_g C) ∧ x = io_name io prefix t ∧ (state_src sio io = None ∨ t = 0)) ∧
    ∀ w, consistent (c_g U) w →
      let st := λ v, w (io_name v prefix 0) in
      let ins := λ t i, w (io_name i prefix t) in
      ∀ o t, o ∈ io_of (c_g C) → t < n →
        m !! o ≫= (.!! t) = Some (io_name o prefix t) ∧ w (io_name o prefix t) = run (c_g C) sio t st ins o.
Proof.
  intros Hl Hb Hcl Hac Hplain Hvalid Hfr Hn Hp Hsio Hnm.
  destruct (unroll_total C n sio prefix Hl Hb Hplain Hvalid Hn Hsio Hnm) as (U & m & HU). exists U, m. split; [done|].
  destruct (unroll_spec C n sio prefix U m Hl Hcl Hac Hfr Hsio Hnm HU) as (H1 & H2 & H3 & H4).
  split; [done|]. split; [|done].
  assert (Hsp : startpoints (c_g C) = inputs (c_g C)).
  { apply set_eq. intros x. unfold startpoints. rewrite elem_of_of_type, elem_of_inputs. split.
    - intros (i & Hi & Ht). exists i. split; [done|]. destruct (Hplain x i Hi) as (_ & Hbo & _).
      unfold is_ty in Ht. apply orb_true_iff in Ht as [Ht%bool_decide_eq_true|Ht%bool_decide_eq_true]; [done|by symmetry in Ht].
    - intros (i & Hi & Ht). exists i. split; [done|]. rewrite Ht. reflexivity. }
  destruct Hsio as (Hs1 & Hs2 & Hs3).
  destruct (unroll_closed_form C n sio prefix U m (lint_clean_inputs_undriven9 C Hl)) as [-> _]; try done.
  - intros kv Hkv. rewrite Forall_forall in Hs1. by apply Hs1.
  - apply unroll_closed_lint_clean; try done. apply Hnm.
Qed.

(* ---------- sequential_unroll returns (given that the stripping does) ---------- *)
Lemma so_fold_total (m : iomap) (key : string → string) afo (l : list string) : ∀ g,
  (∀ b, b ∈ l → ∃ lst, m !! key b = Some lst ∧ ∀ x, x ∈ lst → x ∈ dom g) →
  ∃ g', foldl (λ st b, match st with
                       | (g, Done) => match m !! key b with Some l => set_output_g g l afo | None => (g, Fail KeyError) end
                       | _ => st end) (g, Done) l = (g', Done) ∧ dom g' = dom g.
Proof.
  induction l as [|b l IH]; intros g H; simpl; [eauto|].
  destruct (H b) as (lst & Hm & Hd); [by left|]. rewrite Hm.
  destruct (set_output_total g lst afo Hd) as [g1 E1]. rewrite E1.
  assert (Hdom : dom g1 = dom g).
  { pose proof (set_output_done _ _ _ _ E1) as [Hl _]. apply set_eq. intros x. rewrite !elem_of_dom, Hl. destruct (decide _); [|done]. by rewrite fmap_is_Some. }
  destruct (IH g1) as (g' & E & Hd'); [|exists g'; split; [done|congruence]].
  intros b' Hb'. destruct (H b') as (lst' & Hm' & Hd''); [by right|]. exists lst'. split; [done|]. intros x Hx. rewrite Hdom. by apply Hd''.
Qed.
Lemma st_fold_total (ts : list (string * gtype)) : ∀ g,
  (∀ xt, xt ∈ ts → xt.1 ∈ dom g ∧ xt.2 ∈ addable_types) →
  ∃ g', foldl (λ st xt, match st with (g, Done) => set_type_g g [xt.1] xt.2 | _ => st end) (g, Done) ts = (g', Done).
Proof.
  induction ts as [|xt ts IH]; intros g H; simpl; [eauto|].
  destruct (H xt) as [Hd Ht]; [by left|].
  destruct (set_type_total g [xt.1] xt.2 Ht) as [g1 E1]; [by intros x ->%elem_of_list_singleton|]. rewrite E1.
  apply IH. intros xt' Hxt'. destruct (H xt') as [Hd' Ht']; [by right|]. split; [|done].
  pose proof (set_type_done _ _ _ _ E1) as [Hl _]. apply elem_of_dom. rewrite Hl. apply elem_of_dom in Hd' as [i Hi]. rewrite Hi. destruct (decide _); simpl; eauto.
Qed.
Lemma targets_total {A} (m : iomap) (key : A → string) (val : A → gtype) (L : list A) :
  (∀ a, a ∈ L → ∃ x, lookup0 m (key a) = Ok x) →
  ∃ ts, foldr (λ a acc, rbind (lookup0 m (key a)) (λ x, rmap (cons (x, val a)) acc)) (Ok []) L = Ok ts ∧
        ∀ xt, xt ∈ ts → ∃ a, a ∈ L ∧ lookup0 m (key a) = Ok xt.1 ∧ xt.2 = val a.
Proof.
  induction L as [|a L IH]; intros H; simpl; [exists []; split; [done|set_solver]|].
  destruct (H a) as [x Hx]; [by left|]. destruct IH as (ts & E & Hts); [intros; apply H; by right|].
  rewrite Hx, E. simpl. exists ((x, val a) :: ts). split; [done|].
  intros xt [->|Hin]%elem_of_cons; [exists a; split; [by left|done]|].
  destruct (Hts xt Hin) as (a' & Ha' & ?). exists a'. split; [by right|done].
Qed.

Definition iv_addable (iv : init_vals) : Prop :=
  match iv with IvNone => True | IvAll t => t ∈ addable_types | IvDict l => ∀ kt, kt ∈ l → kt.2 ∈ addable_types end.

Theorem seq_total C n d q ign afo iv ru prefix CS sio :
  seq_stripped C d q ign ru = Ok (CS, sio) →
  lint_clean CS → c_bbs CS = ∅ → plain (c_g CS) → valid_names (c_g CS) → 1 ≤ n →
  sio_ok (c_g CS) sio → unroll_names_ok (c_g CS) n sio prefix → iv_ok C iv → iv_addable iv →
  ∃ U m, sequential_unroll C n d q ign afo iv ru prefix = Ok (U, m).
Proof.
  intros Hstrip Hl Hb Hplain Hvalid Hn Hsio Hnm Hiv Hadd.
  pose proof (seq_stripped_sio _ _ _ _ _ _ _ Hstrip) as Esio.
  destruct (unroll_total CS n sio prefix Hl Hb Hplain Hvalid Hn Hsio Hnm) as (U0 & m0 & HU).
  destruct Hsio as (Hs1 & Hs2 & Hs3). rewrite Forall_forall in Hs1.
  destruct (unroll_closed_form CS n sio prefix U0 m0 (lint_clean_inputs_undriven9 CS Hl)) as [-> ->]; try done; [intros kv Hkv; by apply Hs1|].
  unfold sequential_unroll. rewrite Hstrip. simpl. rewrite HU. simpl.
  set (cs := c_g CS) in *. set (G := unroll_closed cs n sio prefix). set (M := unroll_iomap cs n prefix).
  set (insts := elements (dom (c_bbs C))) in *.
  assert (Hio_d : ∀ b, b ∈ insts → pre b d ∈ io_of cs ∧ pre b q ∈ io_of cs).
  { intros b Hb'. assert ((pre b d, pre b q) ∈ sio) as Hin by (rewrite Esio; apply elem_of_list_fmap; eauto).
    destruct (Hs1 _ Hin) as [H1 H2]. unfold io_of. simpl in *. set_solver. }
  assert (Hkeydom : ∀ io t, io ∈ io_of cs → t < n → io_name io prefix t ∈ dom G).
  { intros io t Hio Ht. apply elem_of_dom. exists (io_node cs sio prefix t io). unfold G, unroll_closed.
    apply elem_of_list_to_map; [apply Hnm|]. by apply in_io_node. }
  destruct (so_fold_total M (λ b, pre b d) afo insts G) as (g4 & E4 & Hd4).
  { intros b Hb'. destruct (Hio_d b Hb') as [Hd' _]. eexists. split; [unfold M; rewrite unroll_iomap_full, decide_True by done; done|].
    intros x (t & -> & Ht%elem_of_seq)%elem_of_list_fmap. apply Hkeydom; [done|lia]. }
  rewrite E4.
  assert (Hl0 : ∀ k, k ∈ io_of cs → lookup0 M k = Ok (io_name k prefix 0)).
  { intros k Hk. unfold lookup0, M. rewrite unroll_iomap_full, decide_True by done. destruct n as [|n']; [lia|]. done. }
  assert (Hts : ∃ ts, (match iv with
            | IvNone => Ok []
            | IvAll t => foldr (λ b acc, rbind (lookup0 M (pre b q)) (λ x, rmap (cons (x, t)) acc)) (Ok []) insts
            | IvDict l => foldr (λ kt acc, rbind (lookup0 M (pre kt.1 q)) (λ x, rmap (cons (x, kt.2)) acc)) (Ok []) l
            end) = Ok ts ∧ ∀ xt, xt ∈ ts → xt.1 ∈ dom g4 ∧ xt.2 ∈ addable_types).
  { destruct iv as [|t|l].
    - exists []. split; [done|set_solver].
    - destruct (targets_total M (λ b, pre b q) (λ _, t) insts) as (ts & E & Hts); [intros b Hb'; eexists; apply Hl0, Hio_d; done|].
      exists ts. split; [done|]. intros xt Hxt. destruct (Hts xt Hxt) as (b & Hb' & Hlk & ->). split; [|done].
      rewrite (Hl0 _ (proj2 (Hio_d b Hb'))) in Hlk. injection Hlk as <-. rewrite Hd4. apply Hkeydom; [by apply Hio_d|lia].
    - assert (Hkt : ∀ kt, kt ∈ l → kt.1 ∈ insts) by (intros kt Hkt; apply elem_of_elements; by apply Hiv).
      destruct (targets_total M (λ kt : string * gtype, pre kt.1 q) (λ kt, kt.2) l) as (ts & E & Hts); [intros kt Hkt'; eexists; apply Hl0, Hio_d, Hkt; done|].
      exists ts. split; [done|]. intros xt Hxt. destruct (Hts xt Hxt) as (kt & Hkt' & Hlk & ->). split; [|by apply Hadd].
      rewrite (Hl0 _ (proj2 (Hio_d _ (Hkt kt Hkt')))) in Hlk. injection Hlk as <-. rewrite Hd4. apply Hkeydom; [by apply Hio_d, Hkt|lia]. }
  destruct Hts as (ts & Ets & Hts). rewrite Ets. simpl.
  destruct (st_fold_total ts g4 Hts) as [g5 E5]. rewrite E5. eauto.
Qed.

Theorem seq_correct C n d q ign afo iv ru prefix CS sio :
  seq_stripped C d q ign ru = Ok (CS, sio) →
  lint_clean CS → c_bbs CS = ∅ → closed (c_g CS) → acyclic (c_g CS) → plain (c_g CS) → valid_names (c_g CS) → free_are_inputs (c_g CS) →
  1 ≤ n → sio_ok (c_g CS) sio → unroll_names_ok (c_g CS) n sio prefix → iv_ok C iv → iv_addable iv →
  ∃ U m, sequential_unroll C n d q ign afo iv ru prefix = Ok (U, m) ∧ dom m = io_of (c_g CS) ∧
    ∀ w, consistent (c_g U) w →
      let st := λ v, w (io_name v prefix 0) in
      let ins := λ t i, w (io_name i prefix t) in
      ∀ o t, o ∈ io_of (c_g CS) → t < n →
        m !! o ≫= (.!! t) = Some (io_name o prefix t) ∧ w (io_name o prefix t) = run (c_g CS) sio t st ins o.
Proof.
  intros Hstrip Hl Hb Hcl Hac Hplain Hvalid Hfr Hn Hsio Hnm Hiv Hadd.
  destruct (seq_total C n d q ign afo iv ru prefix CS sio Hstrip Hl Hb Hplain Hvalid Hn Hsio Hnm Hiv Hadd) as (U & m & HU).
  exists U, m. split; [done|]. by apply (seq_spec C n d q ign afo iv ru prefix U m CS sio).
Qed.
