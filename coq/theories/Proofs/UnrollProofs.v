(* C09 proofs: the closed form of tx.unroll simulates the sequential machine (every copy is a consistent
   valuation of c whose inputs are the per-step io nodes; state inputs of step t+1 carry the state outputs of
   step t), the evalc-based `run` is the unique run, structure of the closed form. *)
From stdpp Require Import strings gmap sets fin_sets pretty.
From CG Require Import Base.Compose Base.Oracle Model.Unroll Proofs.AcyclicUnrollProofs.
Open Scope string_scope.

(* ---------- 1. evalc is adequate on every closed acyclic circuit: a rank bounded by the size exists ---------- *)
Lemma acyclic_bounded_rank c : closed c → acyclic c →
  ∃ r : string → nat, (∀ n i f, c !! n = Some i → f ∈ n_fi i → r f < r n) ∧ ∀ n, r n ≤ size c.
Proof.
  intros Hcl [rank Hr].
  assert (Hirr : ∀ x, ¬ tc (λ a b, a ∈ fanin c b) x x).
  { assert (∀ x y, tc (λ a b, a ∈ fanin c b) x y → rank x < rank y) as Hlt.
    { induction 1 as [a b (i & Hi & Hf)%elem_of_fanin|a b d (i & Hi & Hf)%elem_of_fanin _ IH].
      - eapply Hr; eauto.
      - pose proof (Hr _ _ _ Hi Hf). lia. }
    intros x Hx%Hlt. lia. }
  set (dsz := λ x, size ({[x]} ∪ AcyclicUnroll.desc c x)).
  exists (λ x, size c - dsz x). split; [|intros; lia].
  intros n i u Hn Hu.
  assert (Hun : n ∈ fanout c u) by (apply elem_of_fanout; eauto).
  assert (Hnd : n ∈ dom c) by (apply elem_of_dom; eauto).
  assert (Hud : u ∈ dom c) by (eapply Hcl; eauto).
  pose proof (desc_edge c u n Hun) as Hsub.
  assert (Hb : ∀ x, x ∈ dom c → dsz x ≤ size c).
  { intros x Hx. unfold dsz. rewrite <- (size_dom c). apply subseteq_size.
    pose proof (desc_sub_dom c x). set_solver. }
  assert (dsz n < dsz u); [|pose proof (Hb u Hud); pose proof (Hb n Hnd); lia].
  unfold dsz. apply subset_size. split; [set_solver|].
  intros Hback. assert (u ∈ AcyclicUnroll.desc c u) as Huu.
  { assert (u ∈ {[n]} ∪ AcyclicUnroll.desc c n) as Hin by set_solver. set_solver. }
  apply desc_sound in Huu. by apply Hirr in Huu.
Qed.
Lemma evalc_consistent c a : closed c → acyclic c → consistent c (evalc c a).
Proof.
  intros Hcl Hac. destruct (acyclic_bounded_rank c Hcl Hac) as (r & Hr & Hb).
  unfold evalc. apply (eval_consistent c r Hr a (S (size c))); [|done]. intros n _. specialize (Hb n). lia.
Qed.
Lemma evalc_free c a n : n ∈ free_nodes c → evalc c a n = a n.
Proof.
  unfold free_nodes. intros [i Hi]%elem_of_dom. apply map_filter_lookup_Some in Hi as [Hi Hf].
  unfold evalc. by eapply eval_free.
Qed.

(* ---------- 2. runs of the sequential machine: existence (run) and uniqueness ---------- *)
Section runs.
  Context (c : circuit) (sio : list (string * string)).
  Context (Hcl : closed c) (Hac : acyclic c) (Hfree : free_are_inputs c).
  Context (Hkeys : ∀ kv, kv ∈ sio → kv.1 ∈ dom c).

  Lemma state_src_key v k : state_src sio v = Some k → k ∈ dom c.
  Proof.
    unfold state_src. destruct (list_find _ sio) as [[j kv]|] eqn:E; simpl; [|done]. intros [= <-].
    apply list_find_Some in E as (Hj & _ & _). apply Hkeys. by eapply elem_of_list_lookup_2.
  Qed.

  Lemma run_is_run st ins t : is_run c sio st ins t (run c sio t st ins).
  Proof.
    induction t as [|t IH]; simpl.
    - split; [by apply evalc_consistent|]. intros i Hi. apply evalc_free. by rewrite Hfree.
    - split; [by apply evalc_consistent|]. eexists. split; [exact IH|].
      intros i Hi. apply evalc_free. by rewrite Hfree.
  Qed.

  Lemma is_run_unique st ins t x y : is_run c sio st ins t x → is_run c sio st ins t y → agrees (dom c) x y.
  Proof.
    destruct Hac as [rank Hr]. revert x y. induction t as [|t IH]; simpl; intros x y [Hx Hxa] [Hy Hya].
    - eapply (consistent_unique c rank Hr); eauto. rewrite Hfree. intros i Hi. by rewrite Hxa, Hya.
    - destruct Hxa as (x' & Hx' & Hxa), Hya as (y' & Hy' & Hya).
      eapply (consistent_unique c rank Hr); eauto. rewrite Hfree. intros i Hi. rewrite Hxa, Hya by done.
      unfold step_in. destruct (state_src sio i) as [k|] eqn:E; [|done].
      eapply IH; eauto. by eapply state_src_key.
  Qed.
End runs.

(* ---------- 3. the closed form of unroll ---------- *)
Section closed_form.
  Context (c : circuit) (n : nat) (sio : list (string * string)) (prefix : string).

  Lemma in_io_node t io : t < n → io ∈ io_of c →
    (io_name io prefix t, io_node c sio prefix t io) ∈ unroll_nodes c n sio prefix.
  Proof.
    intros Ht Hio. unfold unroll_nodes. apply elem_of_list_bind. exists t. split; [|apply elem_of_seq; lia].
    apply elem_of_app. left. apply elem_of_list_fmap. exists io. split; [done|]. by apply elem_of_elements.
  Qed.
  Lemma in_copy_node t m info : t < n → c !! m = Some info →
    (pre (inst_name t) m, ucopy_info prefix t m info) ∈ unroll_nodes c n sio prefix.
  Proof.
    intros Ht Hm. unfold unroll_nodes. apply elem_of_list_bind. exists t. split; [|apply elem_of_seq; lia].
    apply elem_of_app. right. apply elem_of_list_fmap. exists (m, info). split; [done|]. by apply elem_of_map_to_list.
  Qed.

  Context (Hnd : NoDup (unroll_nodes c n sio prefix).*1) (Hfree : free_are_inputs c).
  Context (Hsio : Forall (λ kv, kv.1 ∈ io_of c ∧ kv.2 ∈ inputs c) sio).
  Context (w : val) (Hw : consistent (unroll_closed c n sio prefix) w).

  Let copy (t : nat) : val := λ m, w (pre (inst_name t) m).
  Let ionode (t : nat) : val := λ io, w (io_name io prefix t).

  Lemma uw_ok x j : (x, j) ∈ unroll_nodes c n sio prefix → node_ok w x j.
  Proof. by apply consistent_list_to_map. Qed.

  (* every copy is a consistent valuation of c *)
  Lemma copy_consistent t : t < n → consistent c (copy t).
  Proof.
    intros Ht m info Hm. pose proof (uw_ok _ _ (in_copy_node t m info Ht Hm)) as Hok.
    unfold node_ok. destruct (is_free info) eqn:Hf; [done|].
    assert (Hty : n_ty info ≠ Input) by (intros E; unfold is_free in Hf; by rewrite E in Hf).
    unfold ucopy_info in Hok. rewrite bool_decide_eq_false_2 in Hok by done.
    unfold node_ok in Hok.
    assert (Hfr : is_free (mk_node (n_ty info) false (set_map (pre (inst_name t)) (n_fi info))) = false).
    { unfold is_free in *. simpl. destruct (n_ty info); try done.
      all: rewrite bool_decide_eq_false in Hf; apply bool_decide_eq_false; by rewrite set_map_empty_iff'. }
    rewrite Hfr in Hok. simpl in Hok.
    assert (Hg : ∀ ty, gate_val ty w (set_map (pre (inst_name t)) (n_fi info)) = gate_val ty (copy t) (n_fi info)).
    { intros ty. rewrite gate_val_rename. all: try apply _. apply gate_val_ext. intros x _. reflexivity. }
    unfold copy at 1. destruct (n_ty info); rewrite ?Hg in Hok; exact Hok.
  Qed.
  (* the copy reads its inputs from the per-step io nodes ... *)
  Lemma copy_input t i : t < n → i ∈ inputs c → copy t i = ionode t i.
  Proof.
    intros Ht (info & Hi & Hty)%elem_of_inputs.
    pose proof (uw_ok _ _ (in_copy_node t i info Ht Hi)) as Hok.
    unfold ucopy_info in Hok. rewrite bool_decide_eq_true_2 in Hok by done. by apply node_ok_buf1 in Hok.
  Qed.
  (* ... and every io node shows the value of its node in the copy *)
  Lemma ionode_copy t io : t < n → io ∈ io_of c → ionode t io = copy t io.
  Proof.
    intros Ht Hio. destruct (decide (io ∈ inputs c)) as [Hi|Hi]; [by rewrite copy_input|].
    pose proof (uw_ok _ _ (in_io_node t io Ht Hio)) as Hok.
    unfold io_node in Hok. rewrite bool_decide_eq_false_2 in Hok by done. by apply node_ok_buf1 in Hok.
  Qed.
  Lemma state_src_in v k : state_src sio v = Some k → k ∈ io_of c ∧ v ∈ inputs c.
  Proof.
    unfold state_src. destruct (list_find _ sio) as [[j kv]|] eqn:E; simpl; [|done]. intros [= <-].
    apply list_find_Some in E as (Hj & <- & _). rewrite Forall_forall in Hsio. apply Hsio. by eapply elem_of_list_lookup_2.
  Qed.
  (* the state input of step t+1 is driven by the paired state output of step t *)
  Lemma state_link t v k : S t < n → state_src sio v = Some k → ionode (S t) v = copy t k.
  Proof.
    intros Ht Hs. destruct (state_src_in v k Hs) as [Hk Hv].
    assert (Hvio : v ∈ io_of c) by (unfold io_of; set_solver).
    pose proof (uw_ok _ _ (in_io_node (S t) v Ht Hvio)) as Hok.
    unfold io_node in Hok. rewrite bool_decide_eq_true_2, Hs in Hok by done. apply node_ok_buf1 in Hok.
    unfold ionode at 1. rewrite Hok. apply (ionode_copy t k); [lia|done].
  Qed.

  (* the copies form a run of the sequential machine whose initial state and inputs are read off the unrolled circuit *)
  Theorem unroll_closed_is_run t : t < n →
    is_run c sio (λ v, ionode 0 v) (λ t i, ionode t i) t (copy t).
  Proof.
    induction t as [|t IH]; intros Ht; simpl.
    - split; [by apply copy_consistent|]. intros i Hi. rewrite copy_input by done.
      unfold step_in. by destruct (state_src sio i).
    - split; [by apply copy_consistent|]. exists (copy t). split; [apply IH; lia|].
      intros i Hi. rewrite copy_input by done. unfold step_in.
      destruct (state_src sio i) as [k|] eqn:E; [|done]. by apply state_link.
  Qed.
End closed_form.

(* ---------- 4. the statement of DESIGN.md (C09_unroll) on the closed form ---------- *)
Theorem unroll_closed_simulates c n sio prefix w :
  closed c → acyclic c → free_are_inputs c →
  NoDup (unroll_nodes c n sio prefix).*1 →
  Forall (λ kv, kv.1 ∈ io_of c ∧ kv.2 ∈ inputs c) sio →
  consistent (unroll_closed c n sio prefix) w →
  let st := λ v, w (io_name v prefix 0) in
  let ins := λ t i, w (io_name i prefix t) in
  ∀ o t, o ∈ io_of c → t < n → w (io_name o prefix t) = run c sio t st ins o.
Proof.
  intros Hcl Hac Hfree Hnd Hsio Hw st ins o t Ho Ht.
  assert (Hkeys : ∀ kv, kv ∈ sio → kv.1 ∈ dom c).
  { intros kv Hkv. rewrite Forall_forall in Hsio. destruct (Hsio kv Hkv) as [Hk _].
    unfold io_of in Hk. apply elem_of_union in Hk as [(i & Hi & _)%elem_of_inputs|(i & Hi & _)%elem_of_outputs]; apply elem_of_dom; eauto. }
  rewrite (ionode_copy c n sio prefix Hnd w Hw t o Ht Ho).
  assert (Hag : agrees (dom c) (λ m, w (pre (inst_name t) m)) (run c sio t st ins)).
  { eapply (is_run_unique c sio Hcl Hac Hfree Hkeys st ins t).
    - by apply (unroll_closed_is_run c n sio prefix Hnd Hfree Hsio w Hw).
    - by apply run_is_run. }
  apply Hag. unfold io_of in Ho. apply elem_of_union in Ho as [(i & Hi & _)%elem_of_inputs|(i & Hi & _)%elem_of_outputs]; apply elem_of_dom; eauto.
Qed.

(* ---------- 5. structure: free inputs and the io map ---------- *)
Section structure.
  Context (c : circuit) (n : nat) (sio : list (string * string)) (prefix : string).

  Lemma in_unroll_nodes_inv x j : (x, j) ∈ unroll_nodes c n sio prefix →
    ∃ t, t < n ∧ ((∃ io, io ∈ io_of c ∧ x = io_name io prefix t ∧ j = io_node c sio prefix t io) ∨
                  (∃ m info, c !! m = Some info ∧ x = pre (inst_name t) m ∧ j = ucopy_info prefix t m info)).
  Proof.
    unfold unroll_nodes. intros (t & H & Ht%elem_of_seq)%elem_of_list_bind. exists t. split; [lia|].
    apply elem_of_app in H as [H|H].
    - left. apply elem_of_list_fmap in H as (io & [= -> ->] & Hio%elem_of_elements). eauto.
    - right. apply elem_of_list_fmap in H as ([m info] & [= -> ->] & Hm%elem_of_map_to_list). eauto.
  Qed.

  Context (Hnd : NoDup (unroll_nodes c n sio prefix).*1).

  (* free inputs are exactly the step-0 state inputs and the per-step copies of the other inputs *)
  Theorem unroll_closed_inputs x :
    x ∈ inputs (unroll_closed c n sio prefix) ↔
    ∃ t io, t < n ∧ io ∈ inputs c ∧ x = io_name io prefix t ∧ (state_src sio io = None ∨ t = 0).
  Proof.
    rewrite elem_of_inputs. split.
    - intros (j & Hj & Hty). unfold unroll_closed in Hj. apply elem_of_list_to_map in Hj; [|done].
      apply in_unroll_nodes_inv in Hj as (t & Ht & [(io & Hio & -> & ->)|(m & info & Hm & -> & ->)]).
      + exists t, io. unfold io_node in Hty. case_bool_decide as Hin; [|done].
        split; [done|]. split; [done|]. split; [done|].
        destruct (state_src sio io) as [k|]; [|by left]. destruct t; [by right|done].
      + unfold ucopy_info in Hty. by case_bool_decide.
    - intros (t & io & Ht & Hio & -> & Hst).
      exists (io_node c sio prefix t io). split.
      + unfold unroll_closed. apply elem_of_list_to_map; [done|]. apply in_io_node; [done|]. unfold io_of. set_solver.
      + unfold io_node. rewrite bool_decide_eq_true_2 by done. destruct Hst as [->| ->]; [done|]. by destruct (state_src sio io).
  Qed.

  Theorem unroll_iomap_lookup io t : io ∈ io_of c → t < n →
    unroll_iomap c n prefix !! io ≫= (.!! t) = Some (io_name io prefix t).
  Proof.
    intros Hio Ht. unfold unroll_iomap.
    assert (list_to_map ((λ io, (io, (λ t, io_name io prefix t) <$> seq 0 n)) <$> elements (io_of c)) !! io
            = Some ((λ t, io_name io prefix t) <$> seq 0 n)) as ->.
    { apply elem_of_list_to_map.
      - rewrite <- list_fmap_compose. simpl. rewrite list_fmap_id. apply NoDup_elements.
      - apply elem_of_list_fmap. exists io. split; [done|]. by apply elem_of_elements. }
    simpl. rewrite list_lookup_fmap, lookup_seq_lt by done. done.
  Qed.
  Theorem unroll_iomap_dom : dom (unroll_iomap c n prefix) = io_of c.
  Proof.
    unfold unroll_iomap. rewrite dom_list_to_map_L, <- list_fmap_compose. simpl. rewrite list_fmap_id. apply list_to_set_elements_L.
  Qed.
End structure.

Lemma unroll_names_okb_spec c n sio prefix : unroll_names_okb c n sio prefix = true → unroll_names_ok c n sio prefix.
Proof.
  unfold unroll_names_okb, unroll_names_ok. intros [H1%bool_decide_eq_true H2]%andb_true_iff. split; [done|].
  intros x Hx. rewrite forallb_forall in H2. specialize (H2 x). rewrite <- elem_of_list_In in H2.
  specialize (H2 Hx). by apply negb_true_iff, bool_decide_eq_false in H2.
Qed.

(* ---------- 6. sequential_unroll: output marks and step-0 constants only restrict the plain unrolling ---------- *)
Lemma weakerb_spec U U' : weakerb U U' = true → weaker U U'.
Proof.
  unfold weakerb, weaker. rewrite forallb_forall. intros H x j Hx.
  specialize (H (x, j)). rewrite <- elem_of_list_In, elem_of_map_to_list in H. specialize (H Hx). simpl in H.
  destruct (U' !! x) as [j'|]; [|done]. exists j'. split; [done|].
  apply andb_true_iff in H as [H1%bool_decide_eq_true H2]. split; [done|].
  apply orb_true_iff in H2 as [H2%bool_decide_eq_true|H2%bool_decide_eq_true]; auto.
Qed.
Lemma weaker_consistent U U' w : weaker U U' → consistent U' w → consistent U w.
Proof.
  intros Hwk Hc x j Hx. destruct (Hwk x j Hx) as (j' & Hx' & Hfi & Hty).
  pose proof (Hc x j' Hx') as Hok. unfold node_ok in *. destruct Hty as [Hty|Hty].
  - unfold is_free in *. rewrite Hty, Hfi in Hok. exact Hok.
  - unfold is_free. by rewrite Hty.
Qed.
(* every consistent valuation of such a result simulates the stripped circuit cs cycle by cycle *)
Theorem seq_result_simulates cs n sio prefix U' w :
  closed cs → acyclic cs → free_are_inputs cs →
  NoDup (unroll_nodes cs n sio prefix).*1 →
  Forall (λ kv, kv.1 ∈ io_of cs ∧ kv.2 ∈ inputs cs) sio →
  weaker (unroll_closed cs n sio prefix) U' → consistent U' w →
  let st := λ v, w (io_name v prefix 0) in
  let ins := λ t i, w (io_name i prefix t) in
  ∀ o t, o ∈ io_of cs → t < n → w (io_name o prefix t) = run cs sio t st ins o.
Proof.
  intros Hcl Hac Hfr Hnd Hsio Hwk Hw. apply unroll_closed_simulates; try done. by eapply weaker_consistent.
Qed.
