(* Step lemmas shared by the C18 / C09 link proofs (API-level model = closed form): what a SUCCESSFUL call of
   add_g / connect_g / set_type_g / set_output_g / disconnect_g / the connection fold of add_subcircuit leaves
   in the graph, as lookup equations.  Built on Proofs/ComposeProofs.v (C04/C06) and Proofs/ApiProofs.v (C07). *)
From stdpp Require Import strings gmap sets fin_sets pretty.
From CG Require Import Proofs.ApiProofs.
From CG Require Import Base.Api Base.Sem Model.Compose6 Proofs.ComposeProofs.
Open Scope string_scope.

(* ---------- folds of "stop at the first exception" steps ---------- *)
Section lfold.
  Context {A X : Type} (F : A → X → A * outcome).
  Definition lstep (st : A * outcome) (x : X) : A * outcome := match st with (g, Done) => F g x | _ => st end.
  Lemma lfold_fail l g e : foldl lstep (g, Fail e) l = (g, Fail e).
  Proof. induction l as [|x l IH]; simpl; done. Qed.
  Lemma lfold_cons_done x l g g' : foldl lstep (g, Done) (x :: l) = (g', Done) →
    ∃ g1, F g x = (g1, Done) ∧ foldl lstep (g1, Done) l = (g', Done).
  Proof.
    simpl. destruct (F g x) as [g1 [|e]] eqn:E; [eauto|]. by rewrite lfold_fail.
  Qed.
  Lemma lfold_snoc_done x l g g' : foldl lstep (g, Done) (l ++ [x]) = (g', Done) →
    ∃ g1, foldl lstep (g, Done) l = (g1, Done) ∧ F g1 x = (g', Done).
  Proof.
    rewrite foldl_app. simpl. destruct (foldl lstep (g, Done) l) as [g1 [|e]]; simpl; [eauto|done].
  Qed.
End lfold.

(* ---------- connect ---------- *)
Lemma connect_done_lookup c us vs c' m : connect_g c us vs = (c', Done) →
  c' !! m = upd_fi (λ s, s ∪ (if decide (m ∈ vs) then list_to_set us else ∅)) <$> c !! m.
Proof. intros H. pose proof (connect_g_lookup c us vs m) as L. rewrite H in L. by apply L. Qed.
Lemma connect_done_dom c us vs c' : connect_g c us vs = (c', Done) → dom c' = dom c.
Proof. intros H. pose proof (connect_g_dom c us vs) as L. by rewrite H in L. Qed.
Lemma upd_fi_id (i : ninfo) (f : gset string → gset string) : f (n_fi i) = n_fi i → upd_fi f i = i.
Proof. destruct i as [t o fi]. unfold upd_fi. simpl. by intros ->. Qed.
Lemma connect_done_other c us vs c' m : connect_g c us vs = (c', Done) → m ∉ vs → c' !! m = c !! m.
Proof.
  intros H Hm. rewrite (connect_done_lookup _ _ _ _ m H), decide_False by done.
  destruct (c !! m) as [i|]; simpl; [|done]. f_equal. apply upd_fi_id. set_solver.
Qed.
Lemma connect_nil_l c vs : connect_g c [] vs = (c, Done).
Proof. done. Qed.
Lemma connect_nil_r c us : connect_g c us [] = (c, Done).
Proof. unfold connect_g. by rewrite (bool_decide_eq_true_2 ([] = [])), orb_true_r. Qed.

(* ---------- add (no uid, no redefinition, no implicit nodes) ---------- *)
Lemma add_g_done c n t fi fo out g n' :
  add_g c n t fi fo {| af_out := out; af_conn := false; af_redef := false; af_uid := false |} = (g, Done, n') →
  n' = n ∧ n ∉ dom c ∧ ∃ c2, connect_g (<[n := mk_node t out ∅]> c) [n] fo = (c2, Done) ∧ connect_g c2 fi [n] = (g, Done).
Proof.
  unfold add_g. cbn [af_uid af_redef af_conn af_out]. rewrite andb_true_r. simpl negb at 1. rewrite andb_true_l.
  destruct (bool_decide (n ∈ dom c)) eqn:Hd; [done|]. apply bool_decide_eq_false in Hd.
  destruct (negb (bool_decide (t ∈ supported_types))); [done|].
  destruct ((1 <? length fi)%nat && bool_decide (t ∈ add_single_fanin)); [done|].
  destruct (negb (bool_decide (fi = [])) && bool_decide (t ∈ add_no_fanin)); [done|].
  destruct (bool_decide (n = "")); [done|]. destruct (starts_digit n); [done|].
  assert (Hfi : fanin c n = ∅). { unfold fanin. apply not_elem_of_dom in Hd. by rewrite Hd. }
  rewrite Hfi.
  destruct (connect_g (<[n:=mk_node t out ∅]> c) [n] fo) as [c2 o] eqn:E1.
  destruct o as [|e]; [|done].
  destruct (connect_g c2 fi [n]) as [c3 o3] eqn:E2.
  destruct o3 as [|e]; [|destruct e; done].
  intros [= <- <-]. eauto 6.
Qed.
(* a new driven node: `add(n, t, fanin=fi)` *)
Lemma add_g_done_fanin c n t fi out g n' :
  add_g c n t fi [] {| af_out := out; af_conn := false; af_redef := false; af_uid := false |} = (g, Done, n') →
  n ∉ dom c ∧ g !! n = Some (mk_node t out (list_to_set fi)) ∧ ∀ m, m ≠ n → g !! m = c !! m.
Proof.
  intros H. apply add_g_done in H as (_ & Hd & c2 & H1 & H2). rewrite connect_nil_r in H1. injection H1 as <-.
  split; [done|]. split.
  - rewrite (connect_done_lookup _ _ _ _ n H2), lookup_insert, decide_True by set_solver. simpl.
    unfold upd_fi, mk_node. simpl. do 2 f_equal. set_solver.
  - intros m Hm. rewrite (connect_done_other _ _ _ _ m H2) by set_solver. by rewrite lookup_insert_ne.
Qed.
(* a new node driving existing loads: `add(n, t, fanout=fo)` *)
Lemma add_g_done_fanout c n t fo out g n' :
  add_g c n t [] fo {| af_out := out; af_conn := false; af_redef := false; af_uid := false |} = (g, Done, n') →
  n ∉ fo →
  n ∉ dom c ∧ g !! n = Some (mk_node t out ∅) ∧
  ∀ m, m ≠ n → g !! m = upd_fi (λ s, s ∪ (if decide (m ∈ fo) then {[n]} else ∅)) <$> c !! m.
Proof.
  intros H Hnfo. apply add_g_done in H as (_ & Hd & c2 & H1 & H2). rewrite connect_nil_l in H2. injection H2 as <-.
  split; [done|]. split.
  - rewrite (connect_done_other _ _ _ _ n H1) by done. by rewrite lookup_insert.
  - intros m Hm. rewrite (connect_done_lookup _ _ _ _ m H1), lookup_insert_ne by done.
    destruct (c !! m) as [i|]; simpl; [|done]. f_equal. unfold upd_fi. f_equal.
    destruct (decide (m ∈ fo)); set_solver.
Qed.

(* ---------- set_type / set_output ---------- *)
Lemma retype_retype t i : retype t (retype t i) = retype t i. Proof. done. Qed.
Lemma set_out_set_out b i : set_out b (set_out b i) = set_out b i. Proof. done. Qed.
Section attr_fold.
  Context (h : ninfo → ninfo) (Hh : ∀ i, h (h i) = h i).
  Definition attr_step (st : circuit * outcome) (n : string) : circuit * outcome :=
    match st with
    | (c', Done) => match c' !! n with Some i => (<[n := h i]> c', Done) | None => (c', Fail KeyError) end
    | _ => st end.
  Lemma attr_fold_fail l g e : foldl attr_step (g, Fail e) l = (g, Fail e).
  Proof. induction l; simpl; done. Qed.
  Lemma attr_fold_done ns : ∀ c c', foldl attr_step (c, Done) ns = (c', Done) →
    (∀ x, c' !! x = if decide (x ∈ ns) then h <$> c !! x else c !! x) ∧ (∀ x, x ∈ ns → x ∈ dom c).
  Proof.
    induction ns as [|n ns IH]; intros c c' H; simpl in H.
    - injection H as <-. split; [|set_solver]. intros x. rewrite decide_False; [done|set_solver].
    - destruct (c !! n) as [i|] eqn:Hn; [|by rewrite attr_fold_fail in H].
      destruct (IH _ _ H) as [IH1 IH2]. split.
      + intros x. rewrite IH1. destruct (decide (x = n)) as [->|Hne].
        * rewrite lookup_insert, Hn. rewrite (decide_True (P := n ∈ n :: ns)) by set_solver.
          destruct (decide (n ∈ ns)); simpl; by rewrite ?Hh.
        * rewrite lookup_insert_ne by done.
          destruct (decide (x ∈ ns)); [rewrite decide_True by set_solver|rewrite decide_False by set_solver]; done.
      + intros x [->|Hx]%elem_of_cons; [apply elem_of_dom; eauto|].
        specialize (IH2 x Hx). rewrite dom_insert in IH2. apply elem_of_union in IH2 as [->%elem_of_singleton|]; [apply elem_of_dom; eauto|done].
  Qed.
End attr_fold.
Lemma set_type_done c ns t c' : set_type_g c ns t = (c', Done) →
  (∀ x, c' !! x = if decide (x ∈ ns) then retype t <$> c !! x else c !! x) ∧ (∀ x, x ∈ ns → x ∈ dom c).
Proof.
  unfold set_type_g. destruct (negb (bool_decide (t ∈ addable_types))); [done|].
  apply (attr_fold_done (retype t) (retype_retype t)).
Qed.
Lemma set_output_done c ns b c' : set_output_g c ns b = (c', Done) →
  (∀ x, c' !! x = if decide (x ∈ ns) then set_out b <$> c !! x else c !! x) ∧ (∀ x, x ∈ ns → x ∈ dom c).
Proof. apply (attr_fold_done (set_out b) (set_out_set_out b)). Qed.

(* ---------- disconnect one driver from a list of loads ---------- *)
Lemma disconnect_one_lookup c f fo m :
  disconnect_g c [f] fo !! m = if decide (m ∈ fo) then upd_fi (λ s, s ∖ {[f]}) <$> c !! m else c !! m.
Proof.
  unfold disconnect_g. rewrite pairs_singleton_l. rewrite foldl_fmap. simpl. apply del_edges_from_lookup.
Qed.

(* ---------- the connection fold of add_subcircuit when every connection is `input io <- [io']` ---------- *)
Lemma conn_fold_inputs_done SC name (l : list string) (tgt : string → string) : ∀ g g',
  (∀ n, n ∈ l → n ∈ inputs (c_g SC)) →
  foldl (conn_step SC name) (g, Done) ((λ n, (n, [tgt n])) <$> l) = (g', Done) →
  (∀ n, n ∈ l → g' !! pre name n = upd_fi (λ s, s ∪ {[tgt n]}) <$> g !! pre name n) ∧
  (∀ x, (∀ n, n ∈ l → x ≠ pre name n) → g' !! x = g !! x).
Proof.
  induction l as [|a l IH] using rev_ind; intros g g' Hin H.
  - simpl in H. injection H as <-. split; [set_solver|done].
  - rewrite fmap_app, foldl_app in H. simpl in H.
    destruct (foldl (conn_step SC name) (g, Done) ((λ n, (n, [tgt n])) <$> l)) as [g1 o1] eqn:E1.
    destruct o1 as [|e]; [|simpl in H; done]. simpl in H.
    rewrite bool_decide_eq_true_2 in H by (apply Hin; set_solver).
    destruct (IH g g1) as [IH1 IH2]; [intros n Hn; apply Hin; set_solver|done|].
    split.
    + intros n Hn. rewrite (connect_done_lookup _ _ _ _ _ H).
      destruct (decide (n = a)) as [->|Hne].
      * rewrite decide_True by set_solver. destruct (decide (a ∈ l)) as [Hal|Hal].
        -- rewrite IH1 by done. destruct (g !! pre name a) as [i|]; simpl; [|done]. f_equal. unfold upd_fi. simpl. f_equal. set_solver.
        -- rewrite IH2; [|intros n' Hn' E; apply (inj (pre name)) in E; by subst].
           destruct (g !! pre name a) as [i|]; simpl; [|done]. f_equal. unfold upd_fi. simpl. f_equal. set_solver.
      * rewrite decide_False; [|intros E%elem_of_list_singleton; apply (inj (pre name)) in E; done].
        assert (n ∈ l) by set_solver. rewrite IH1 by done.
        destruct (g !! pre name n) as [i|]; simpl; [|done]. f_equal. unfold upd_fi. simpl. f_equal. set_solver.
    + intros x Hx. rewrite (connect_done_other _ _ _ _ x H).
      * apply IH2. intros n Hn. apply Hx. set_solver.
      * intros E%elem_of_list_singleton. apply (Hx a); [set_solver|done].
Qed.

(* ---------- a fold of single connections src x -> tgt x (targets pairwise distinct) ---------- *)
Lemma connect_fold_done `{EqDecision X} (src tgt : X → string) (l : list X) : ∀ g g',
  (∀ a b, a ∈ l → b ∈ l → tgt a = tgt b → a = b) →
  foldl (λ st x, match st with (g, Done) => connect_g g [src x] [tgt x] | _ => st end) (g, Done) l = (g', Done) →
  (∀ a, a ∈ l → g' !! tgt a = upd_fi (λ s, s ∪ {[src a]}) <$> g !! tgt a) ∧
  (∀ x, (∀ a, a ∈ l → x ≠ tgt a) → g' !! x = g !! x) ∧ dom g' = dom g.
Proof.
  induction l as [|b l IH] using rev_ind; intros g g' Hinj H.
  - simpl in H. injection H as <-. split; [set_solver|done].
  - rewrite foldl_app in H. simpl in H.
    destruct (foldl _ (g, Done) l) as [g1 o1] eqn:E1. destruct o1 as [|e]; [|done].
    destruct (IH g g1) as (IH1 & IH2 & IH3); [intros a a' Ha Ha'; apply Hinj; set_solver|done|].
    split; [|split].
    + intros a Ha. rewrite (connect_done_lookup _ _ _ _ _ H). destruct (decide (a = b)) as [->|Hne].
      * rewrite decide_True by set_solver. destruct (decide (b ∈ l)) as [Hbl|Hbl].
        -- rewrite IH1 by done. destruct (g !! tgt b) as [i|]; simpl; [|done]. f_equal. unfold upd_fi. simpl. f_equal. set_solver.
        -- rewrite IH2; [|intros a' Ha' E; apply Hinj in E; [by subst|set_solver..]].
           destruct (g !! tgt b) as [i|]; simpl; [|done]. f_equal. unfold upd_fi. simpl. f_equal. set_solver.
      * assert (a ∈ l) by set_solver.
        rewrite decide_False; [|intros E%elem_of_list_singleton; apply Hinj in E; [done|set_solver..]].
        rewrite IH1 by done. destruct (g !! tgt a) as [i|]; simpl; [|done]. f_equal. unfold upd_fi. simpl. f_equal. set_solver.
    + intros x Hx. rewrite (connect_done_other _ _ _ _ x H).
      * apply IH2. intros a Ha. apply Hx. set_solver.
      * intros E%elem_of_list_singleton. apply (Hx b); [set_solver|done].
    + rewrite (connect_done_dom _ _ _ _ H). done.
Qed.

(* ---------- the connection fold of add_subcircuit for a map {io: tgt io}: child inputs are driven by tgt io,
   child outputs drive tgt io ---------- *)
Lemma conn_fold_mixed_done SC name (l : list string) (tgt : string → string) : ∀ g g',
  (∀ a b, a ∈ l → b ∈ l → tgt a = tgt b → a = b) →
  (∀ a b, a ∈ l → b ∈ l → tgt a ≠ pre name b) →
  foldl (conn_step SC name) (g, Done) ((λ n, (n, [tgt n])) <$> l) = (g', Done) →
  (∀ a, a ∈ l → a ∈ inputs (c_g SC) → g' !! pre name a = upd_fi (λ s, s ∪ {[tgt a]}) <$> g !! pre name a) ∧
  (∀ a, a ∈ l → a ∉ inputs (c_g SC) → g' !! tgt a = upd_fi (λ s, s ∪ {[pre name a]}) <$> g !! tgt a) ∧
  (∀ x, (∀ a, a ∈ l → a ∈ inputs (c_g SC) → x ≠ pre name a) → (∀ a, a ∈ l → a ∉ inputs (c_g SC) → x ≠ tgt a) → g' !! x = g !! x).
Proof.
  induction l as [|b l IH] using rev_ind; intros g g' Hinj Hdis H.
  - simpl in H. injection H as <-. split; [set_solver|]. split; [set_solver|done].
  - rewrite fmap_app, foldl_app in H. simpl in H.
    destruct (foldl (conn_step SC name) (g, Done) ((λ n, (n, [tgt n])) <$> l)) as [g1 o1] eqn:E1.
    destruct o1 as [|e]; [|simpl in H; done]. simpl in H.
    destruct (IH g g1) as (IH1 & IH2 & IH3); [intros a a' Ha Ha'; apply Hinj; set_solver|intros a a' Ha Ha'; apply Hdis; set_solver|done|].
    clear IH.
    assert (Hbl : b ∈ (l ++ [b])%list) by set_solver.
    (* the lookup of an arbitrary node after the last connection *)
    assert (Hlast : ∀ x, g' !! x = upd_fi (λ s, s ∪ (if bool_decide (b ∈ inputs (c_g SC))
                                                      then (if decide (x = pre name b) then {[tgt b]} else ∅)
                                                      else (if decide (x = tgt b) then {[pre name b]} else ∅))) <$> g1 !! x).
    { intros x. case_bool_decide.
      - rewrite (connect_done_lookup _ _ _ _ x H). destruct (g1 !! x) as [i|]; simpl; [|done]. f_equal. unfold upd_fi. f_equal.
        destruct (decide (x = pre name b)) as [->|]; [rewrite decide_True by set_solver|rewrite decide_False by set_solver]; set_solver.
      - rewrite (connect_done_lookup _ _ _ _ x H). destruct (g1 !! x) as [i|]; simpl; [|done]. f_equal. unfold upd_fi. f_equal.
        destruct (decide (x = tgt b)) as [->|]; [rewrite decide_True by set_solver|rewrite decide_False by set_solver]; set_solver. }
    assert (Hid : ∀ x, g1 !! x = upd_fi (λ s, s ∪ ∅) <$> g1 !! x).
    { intros x. destruct (g1 !! x) as [i|]; simpl; [|done]. f_equal. symmetry. apply upd_fi_id. set_solver. }
    split; [|split].
    + intros a Ha Hai. rewrite Hlast. destruct (decide (a = b)) as [->|Hne].
      * rewrite bool_decide_eq_true_2, decide_True by done. destruct (decide (b ∈ l)) as [Hb|Hb].
        -- rewrite IH1 by done. destruct (g !! pre name b) as [i|]; simpl; [|done]. f_equal. unfold upd_fi. simpl. f_equal. set_solver.
        -- rewrite IH3; [done| |].
           ++ intros a' Ha' _ E. apply (inj (pre name)) in E. by subst.
           ++ intros a' Ha' _ E. symmetry in E. apply Hdis in E; [done|set_solver..].
      * assert (Hal : a ∈ l) by set_solver.
        assert (pre name a ≠ pre name b) by (intros E%(inj (pre name)); done).
        assert (pre name a ≠ tgt b) by (intros E; symmetry in E; apply Hdis in E; [done|set_solver..]).
        case_bool_decide; rewrite decide_False by done; rewrite <- Hid; by apply IH1.
    + intros a Ha Hai. rewrite Hlast. destruct (decide (a = b)) as [->|Hne].
      * rewrite bool_decide_eq_false_2, decide_True by done. destruct (decide (b ∈ l)) as [Hb|Hb].
        -- rewrite IH2 by done. destruct (g !! tgt b) as [i|]; simpl; [|done]. f_equal. unfold upd_fi. simpl. f_equal. set_solver.
        -- rewrite IH3; [done| |].
           ++ intros a' Ha' _ E. apply Hdis in E; [done|set_solver..].
           ++ intros a' Ha' _ E. apply Hinj in E; [by subst|set_solver..].
      * assert (Hal : a ∈ l) by set_solver.
        assert (tgt a ≠ tgt b) by (intros E; apply Hinj in E; [done|set_solver..]).
        assert (tgt a ≠ pre name b) by (apply Hdis; set_solver).
        case_bool_decide; rewrite decide_False by done; rewrite <- Hid; by apply IH2.
    + intros x Hx1 Hx2. rewrite Hlast.
      assert (g1 !! x = g !! x) as <-.
      { apply IH3; [intros a Ha; apply Hx1; set_solver|intros a Ha; apply Hx2; set_solver]. }
      case_bool_decide as Hbi; [rewrite decide_False by (apply Hx1; done)|rewrite decide_False by (apply Hx2; done)]; by rewrite <- Hid.
Qed.
