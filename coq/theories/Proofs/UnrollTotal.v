(* Success conditions of the API steps (progress lemmas): when a connect / add / attribute fold / add_subcircuit call is
   accepted.  The type lists are the regenerated Gen_types tables, used by computation (a changed table breaks these proofs). *)
From stdpp Require Import strings gmap sets fin_sets pretty.
From CG Require Import Proofs.UnrollSteps Proofs.ComposeProofs Proofs.LintProofs Proofs.UnrollLint.
From CG Require Import Base.Api Base.Sem Base.Compose Model.Compose6.
Open Scope string_scope.

(* node types that may drive and be driven like ordinary gates *)
Definition plain_ty (t : gtype) : Prop := t ≠ BbIn ∧ t ≠ BbOut ∧ t ≠ Unsup ∧ t ≠ NoTy.
Lemma plain_src t : plain_ty t → is_in (Some t) conn_no_fanout = false ∧ is_in (Some t) conn_bbout = false.
Proof. intros (H1 & H2 & _). destruct t; try done. Qed.
Lemma no_fanin_spec t : t ∉ doc_no_fanin → is_in (Some t) conn_no_fanin = false.
Proof. intros H. destruct t; try reflexivity; exfalso; apply H; unfold doc_no_fanin; set_solver. Qed.
Lemma single_spec t : is_in (Some t) conn_single_fanin = true → t ∈ doc_single.
Proof. destruct t; try done; intros _; unfold doc_single; set_solver. Qed.

(* one source, several targets *)
Lemma connect_targets_done c u vs :
  u ∈ dom c → (∃ t, ty c u = Some t ∧ plain_ty t) →
  (∀ v, v ∈ vs → ∃ i, c !! v = Some i ∧ n_ty i ∉ doc_no_fanin ∧ (n_ty i ∈ doc_single → n_fi i = ∅)) →
  ∃ c', connect_g c [u] vs = (c', Done).
Proof.
  intros Hu (t & Ht & Hp) Hvs. unfold connect_g.
  destruct (bool_decide ([u] = []) || bool_decide (vs = [])); [eauto|].
  assert (forallb (λ n, bool_decide (n ∈ dom c)) ([u] ++ vs) = true) as ->.
  { apply forallb_forall. intros x Hx%elem_of_list_In. apply bool_decide_eq_true.
    apply elem_of_app in Hx as [->%elem_of_list_singleton|Hx]; [done|]. destruct (Hvs x Hx) as (i & Hi & _). apply elem_of_dom. eauto. }
  simpl negb at 1. cbv iota.
  assert (connect_check c [u] vs = true) as ->; [|simpl; eauto].
  unfold connect_check. apply andb_true_iff. split; apply negb_true_iff.
  - apply not_true_iff_false. intros (v & Hv%elem_of_list_In & Hb)%existsb_exists.
    destruct (Hvs v Hv) as (i & Hi & Hnf & Hs).
    assert (ty c v = Some (n_ty i)) as Ety by (unfold ty; by rewrite Hi).
    assert (fanin c v = n_fi i) as Efi by (unfold fanin; by rewrite Hi).
    rewrite Ety, Efi, (no_fanin_spec _ Hnf) in Hb. rewrite orb_false_l in Hb. apply andb_true_iff in Hb as [Hb1 Hb2].
    rewrite (Hs (single_spec _ Hb1)) in Hb2. done.
  - simpl. rewrite Ht. destruct (plain_src t Hp) as [-> ->]. done.
Qed.
Lemma connect_one_done c u v :
  u ∈ dom c → (∃ t, ty c u = Some t ∧ plain_ty t) →
  (∃ i, c !! v = Some i ∧ n_ty i ∉ doc_no_fanin ∧ (n_ty i ∈ doc_single → n_fi i = ∅)) →
  ∃ c', connect_g c [u] [v] = (c', Done).
Proof. intros Hu Ht Hv. apply connect_targets_done; [done..|]. by intros v' ->%elem_of_list_singleton. Qed.

(* add, given that its two connects are accepted *)
Lemma add_g_succeeds c n t fi fo out c2 g :
  n ∉ dom c → t ∈ supported_types →
  ((1 <? length fi)%nat && bool_decide (t ∈ add_single_fanin) = false) →
  (negb (bool_decide (fi = [])) && bool_decide (t ∈ add_no_fanin) = false) →
  n ≠ "" → starts_digit n = false →
  connect_g (<[n := mk_node t out ∅]> c) [n] fo = (c2, Done) → connect_g c2 fi [n] = (g, Done) →
  add_g c n t fi fo {| af_out := out; af_conn := false; af_redef := false; af_uid := false |} = (g, Done, n).
Proof.
  intros Hd Ht Ha1 Ha2 Hne Hdig H1 H2. unfold add_g. cbn [af_uid af_redef af_conn af_out].
  rewrite (bool_decide_eq_false_2 _ Hd). simpl negb. rewrite andb_false_r. cbn [andb].
  rewrite (bool_decide_eq_true_2 _ Ht). cbn [negb]. rewrite Ha1, Ha2.
  rewrite (bool_decide_eq_false_2 _ Hne), Hdig.
  assert (Hfi : fanin c n = ∅). { unfold fanin. apply not_elem_of_dom in Hd. by rewrite Hd. }
  rewrite Hfi, H1, H2. done.
Qed.
Lemma starts_digit_app a b : a ≠ "" → starts_digit (a ++ b) = starts_digit a.
Proof. destruct a; [done|]. done. Qed.

(* attribute folds succeed on existing nodes *)
Lemma attr_fold_total (h : ninfo → ninfo) ns : ∀ c, (∀ x, x ∈ ns → x ∈ dom c) → ∃ c', foldl (attr_step h) (c, Done) ns = (c', Done).
Proof.
  induction ns as [|n ns IH]; intros c H; simpl; [eauto|].
  destruct (c !! n) as [i|] eqn:Hn.
  - apply IH. intros x Hx. rewrite dom_insert. apply elem_of_union. right. apply H. by right.
  - exfalso. apply not_elem_of_dom in Hn. apply Hn, H. by left.
Qed.
Lemma set_output_total c ns b : (∀ x, x ∈ ns → x ∈ dom c) → ∃ c', set_output_g c ns b = (c', Done).
Proof. apply (attr_fold_total (set_out b)). Qed.
Lemma set_type_total c ns t : t ∈ addable_types → (∀ x, x ∈ ns → x ∈ dom c) → ∃ c', set_type_g c ns t = (c', Done).
Proof. intros Ht H. unfold set_type_g. rewrite (bool_decide_eq_true_2 _ Ht). simpl. by apply (attr_fold_total (retype t)). Qed.

(* keys of a bind are separated by the index *)
Lemma NoDup_bind_sep {A} (f : A → list string) (l : list A) :
  NoDup (l ≫= f) → ∀ i j a b x, i ≠ j → l !! i = Some a → l !! j = Some b → x ∈ f a → x ∈ f b → False.
Proof.
  induction l as [|y l IH]; intros Hnd i j a b x Hij Hi Hj Ha Hb; [done|].
  rewrite bind_cons in Hnd. apply NoDup_app in Hnd as (_ & Hdis & Hrest).
  destruct i as [|i], j as [|j]; simpl in *; simplify_eq.
  - apply (Hdis x Ha). apply elem_of_list_bind. exists b. split; [done|]. by eapply elem_of_list_lookup_2.
  - apply (Hdis x Hb). apply elem_of_list_bind. exists a. split; [done|]. by eapply elem_of_list_lookup_2.
  - eapply (IH Hrest i j); eauto.
Qed.

(* ---------- folds of connections succeed ---------- *)
Definition drivable (i : ninfo) : Prop := n_ty i ∉ doc_no_fanin ∧ (n_ty i ∈ doc_single → n_fi i = ∅).
Definition plain_at (g : circuit) (u : string) : Prop := ∃ t, ty g u = Some t ∧ plain_ty t.

Lemma plain_at_connect g us vs g' u : connect_g g us vs = (g', Done) → plain_at g u → plain_at g' u.
Proof.
  intros H (t & Ht & Hp). exists t. split; [|done]. unfold ty in *. rewrite (connect_done_lookup _ _ _ _ u H).
  destruct (g !! u) as [i|]; simpl in *; [done|done].
Qed.
Lemma plain_at_dom g u : plain_at g u → u ∈ dom g.
Proof. intros (t & Ht & _). unfold ty in Ht. apply elem_of_dom. destruct (g !! u); [eauto|done]. Qed.

Lemma connect_fold_total `{EqDecision X} (src tgt : X → string) (l : list X) : ∀ g,
  NoDup l → (∀ a b, a ∈ l → b ∈ l → tgt a = tgt b → a = b) →
  (∀ a, a ∈ l → plain_at g (src a)) →
  (∀ a, a ∈ l → ∃ i, g !! tgt a = Some i ∧ drivable i) →
  ∃ g', foldl (λ st x, match st with (g, Done) => connect_g g [src x] [tgt x] | _ => st end) (g, Done) l = (g', Done).
Proof.
  induction l as [|a l IH]; intros g Hnd Hinj Hsrc Htgt; simpl; [eauto|].
  apply NoDup_cons in Hnd as [Hal Hnd].
  destruct (connect_one_done g (src a) (tgt a)) as [g1 H1].
  { apply plain_at_dom, Hsrc. by left. }
  { apply Hsrc. by left. }
  { destruct (Htgt a) as (i & Hi & Hd1 & Hd2); [by left|]. eauto. }
  rewrite H1. apply IH; [done|intros; apply Hinj; set_solver| |].
  - intros b Hb. eapply plain_at_connect; [exact H1|]. apply Hsrc. by right.
  - intros b Hb. rewrite (connect_done_other _ _ _ _ _ H1); [apply Htgt; by right|].
    intros E%elem_of_list_singleton. apply Hinj in E; [subst; done|by right|by left].
Qed.

Lemma conn_fold_inputs_total SC name (tgt : string → string) (l : list string) : ∀ g,
  NoDup l → (∀ n, n ∈ l → n ∈ inputs (c_g SC)) →
  (∀ n, n ∈ l → plain_at g (tgt n)) →
  (∀ n, n ∈ l → ∃ i, g !! pre name n = Some i ∧ drivable i) →
  ∃ g', foldl (conn_step SC name) (g, Done) ((λ n, (n, [tgt n])) <$> l) = (g', Done).
Proof.
  induction l as [|a l IH]; intros g Hnd Hin Hsrc Htgt; simpl; [eauto|].
  apply NoDup_cons in Hnd as [Hal Hnd].
  rewrite bool_decide_eq_true_2 by (apply Hin; by left).
  destruct (connect_one_done g (tgt a) (pre name a)) as [g1 H1].
  { apply plain_at_dom, Hsrc. by left. }
  { apply Hsrc. by left. }
  { destruct (Htgt a) as (i & Hi & Hd1 & Hd2); [by left|]. eauto. }
  rewrite H1. apply IH; [done|intros; apply Hin; by right| |].
  - intros b Hb. eapply plain_at_connect; [exact H1|]. apply Hsrc. by right.
  - intros b Hb. rewrite (connect_done_other _ _ _ _ _ H1); [apply Htgt; by right|].
    intros E%elem_of_list_singleton. apply (inj (pre name)) in E. by subst.
Qed.

(* add_subcircuit is accepted when the child has no blackboxes, its names are new and the connection fold succeeds *)
Lemma add_subcircuit_total P SC name conns g' :
  c_bbs SC = ∅ → (∀ n, n ∈ dom (c_g SC) → pre name n ∉ dom (c_g P)) →
  (∀ kv, kv ∈ conns → kv.1 ∈ inputs (c_g SC) ∨ kv.1 ∈ outputs (c_g SC)) →
  foldl (conn_step SC name) (c_g P ∪ rename (pre name) (strip_io (c_g SC)), Done) conns = (g', Done) →
  ∃ P', add_subcircuit P SC name conns = (P', Done).
Proof.
  intros Hbb Hfresh Hconns Hfold. rewrite add_subcircuit_unfold.
  rewrite Hbb, dom_empty_L, elements_empty. simpl existsb at 1. cbv iota.
  assert (existsb (λ n, bool_decide (pre name n ∈ dom (c_g P))) (elements (dom (c_g SC))) = false) as ->.
  { apply not_true_iff_false. intros (n & Hn%elem_of_list_In%elem_of_elements & Hb%bool_decide_eq_true)%existsb_exists. by apply (Hfresh n). }
  assert (existsb (λ kv : string * list string, negb (bool_decide (kv.1 ∈ inputs (c_g SC))) && negb (bool_decide (kv.1 ∈ outputs (c_g SC)))) conns = false) as ->.
  { apply not_true_iff_false. intros (kv & Hkv%elem_of_list_In & Hb)%existsb_exists.
    apply andb_true_iff in Hb as [H1%negb_true_iff%bool_decide_eq_false H2%negb_true_iff%bool_decide_eq_false].
    destruct (Hconns kv Hkv); done. }
  pose proof (spliced_graph P SC name Hfresh) as Hg. cbv zeta in Hg. cbv zeta. rewrite Hg, Hfold. simpl. eauto.
Qed.
