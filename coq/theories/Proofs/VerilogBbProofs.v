(* Proofs for C02, fourth part: blackbox instances in the item fold (add_blackbox only adds pin nodes and turns the nets on
   output pins into buffers of free pins: the same valuation refines); read_denotes, soundness half, for whole modules. *)
From CG Require Import Verilog.ExprParse.
From stdpp Require Import strings gmap sets fin_sets pretty.
From CG Require Import Types Sem Fold Api Verilog.Ast Verilog.Read Verilog.Write Proofs.VerilogProofs Run.Run_C02 Proofs.VerilogReadProofs Proofs.VerilogDenoteProofs.
From CG Require Proofs.ComposeProofs Proofs.BlackboxProofs Model.Compose6.
Open Scope string_scope.


(* ------------------------------------------------------------------ edges added by connect *)
Lemma elem_of_pairs us vs (u v : string) : (u, v) ∈ pairs us vs ↔ u ∈ us ∧ v ∈ vs.
Proof.
  unfold pairs. rewrite elem_of_list_bind. split.
  - intros (u' & Hin & Hu). apply elem_of_list_bind in Hin as (v' & Hin & Hv). apply elem_of_list_singleton in Hin. injection Hin as -> ->. done.
  - intros [Hu Hv]. exists u. split; [|done]. apply elem_of_list_bind. exists v. split; [by apply elem_of_list_singleton|done].
Qed.
Lemma add_edges_rel l : ∀ (c : circuit) x i', add_edges c l !! x = Some i' →
  ∃ i, c !! x = Some i ∧ n_ty i' = n_ty i ∧ n_out i' = n_out i ∧ ∀ f, f ∈ n_fi i' ↔ f ∈ n_fi i ∨ (f, x) ∈ l.
Proof.
  induction l as [|p l IH]; intros c x i' H.
  - exists i'. simpl in H. split; [done|]. split; [done|]. split; [done|]. intros f. split; [auto|]. intros [?|Hin]; [done|by apply elem_of_nil in Hin].
  - rewrite add_edges_cons in H. apply IH in H as (i1 & H1 & Et & Eo & Hf). unfold add_edge in H1. destruct p as [u w]. simpl in H1.
    destruct (decide (x = w)) as [->|Hne].
    + rewrite lookup_alter in H1. destruct (c !! w) as [i|] eqn:E; [|discriminate]. simpl in H1. injection H1 as <-. exists i. simpl in *.
      split; [done|]. split; [done|]. split; [done|]. intros f. rewrite Hf. simpl. rewrite elem_of_union, elem_of_singleton, elem_of_cons.
      split; [intros [[->|?]|?]; auto|intros [?|[[= ->]|?]]; auto].
    + rewrite lookup_alter_ne in H1 by done. exists i1. split; [done|]. split; [done|]. split; [done|]. intros f. rewrite Hf.
      rewrite elem_of_cons. split; [intros [?|?]; auto|intros [?|[[= _ ?]|?]]; auto; done].
Qed.
Lemma connect_g_rel c us vs c' : connect_g c us vs = (c', Done) → ∀ x i', c' !! x = Some i' →
  ∃ i, c !! x = Some i ∧ n_ty i' = n_ty i ∧ n_out i' = n_out i ∧ ∀ f, f ∈ n_fi i' ↔ f ∈ n_fi i ∨ (f ∈ us ∧ x ∈ vs ∧ f ∈ dom c).
Proof.
  unfold connect_g. intros H x i' Hx. destruct (bool_decide (us = []) || bool_decide (vs = [])) eqn:E.
  - injection H as <-. exists i'. split; [done|]. split; [done|]. split; [done|]. intros f. split; [auto|]. intros [?|(Hu & Hv & _)]; [done|].
    apply orb_true_iff in E as [E|E]; apply bool_decide_eq_true in E; subst; by apply elem_of_nil in Hu || by apply elem_of_nil in Hv.
  - destruct (forallb _ (us ++ vs)) eqn:Ef; simpl in H; [|discriminate]. destruct (negb (connect_check _ _ _)); [discriminate|]. injection H as <-.
    rewrite forallb_forall in Ef.
    fold (add_edges c (pairs us vs)) in Hx. apply add_edges_rel in Hx as (i & Hi & Et & Eo & Hf). exists i. split; [done|]. split; [done|]. split; [done|].
    intros f. rewrite Hf, elem_of_pairs. split; [|tauto]. intros [?|[Hu Hv]]; [by left|right]. split; [done|]. split; [done|].
    specialize (Ef f). rewrite bool_decide_eq_true in Ef. apply Ef. apply elem_of_list_In. set_solver.
Qed.

(* the connection fold of add_blackbox: types and marks kept, fan-in grows only at the pins and at nets on output pins, by nodes *)
Lemma bconn_fold_rel d inst conns : ∀ g g', foldl (BlackboxProofs.bconn_step d inst) (g, Done) conns = (g', Done) →
  ∀ x i', g' !! x = Some i' → ∃ i, g !! x = Some i ∧ n_ty i' = n_ty i ∧ n_out i' = n_out i ∧ n_fi i ⊆ n_fi i' ∧
    ∀ f, f ∈ n_fi i' → f ∈ n_fi i ∨ (f ∈ dom g ∧ ((∃ p, p ∈ bb_in d ∧ x = pin inst p) ∨ ∃ kv, kv ∈ conns ∧ kv.1 ∉ bb_in d ∧ x ∈ kv.2)).
Proof.
  induction conns as [|kv conns IH]; intros g g' H x i' Hx.
  - simpl in H. injection H as <-. exists i'. split; [done|]. split; [done|]. split; [done|]. split; [done|]. auto.
  - change (foldl (BlackboxProofs.bconn_step d inst) (BlackboxProofs.bconn_step d inst (g, Done) kv) conns = (g', Done)) in H.
    destruct (BlackboxProofs.bconn_step d inst (g, Done) kv) as [g1 o1] eqn:Hs. destruct o1 as [|e]; [|by rewrite BlackboxProofs.bconn_fold_fail in H].
    destruct (IH _ _ H x i' Hx) as (i1 & H1 & Et & Eo & Hsub & Hf).
    assert (Hdom : dom g1 = dom g).
    { pose proof (BlackboxProofs.bconn_step_shape d inst (g, Done) kv) as Hsh. rewrite Hs in Hsh. simpl in Hsh. by apply ComposeProofs.same_shape_dom. }
    unfold BlackboxProofs.bconn_step in Hs. case_bool_decide as Hin.
    + destruct (connect_g_rel _ _ _ _ Hs x i1 H1) as (i & Hi & Et' & Eo' & Hf'). exists i. split; [done|]. split; [congruence|]. split; [congruence|].
      split; [intros f Hfi; apply Hsub, Hf'; by left|].
      intros f Hfi. destruct (Hf f Hfi) as [Hfi1|(Hd & Hor)].
      * apply Hf' in Hfi1 as [?|(Hu & Hv & Hd)]; [by left|right]. split; [done|]. left. apply elem_of_list_singleton in Hv. eauto.
      * right. split; [by rewrite <- Hdom|]. destruct Hor as [?|(kv' & Hk & Hk1 & Hk2)]; [by left|right]. exists kv'. split; [by right|done].
    + case_bool_decide as Hout; [|discriminate].
      destruct (connect_g_rel _ _ _ _ Hs x i1 H1) as (i & Hi & Et' & Eo' & Hf'). exists i. split; [done|]. split; [congruence|]. split; [congruence|].
      split; [intros f Hfi; apply Hsub, Hf'; by left|].
      intros f Hfi. destruct (Hf f Hfi) as [Hfi1|(Hd & Hor)].
      * apply Hf' in Hfi1 as [?|(Hu & Hv & Hd)]; [by left|right]. split; [done|]. right. exists kv. split; [by left|done].
      * right. split; [by rewrite <- Hdom|]. destruct Hor as [?|(kv' & Hk & Hk1 & Hk2)]; [by left|right]. exists kv'. split; [by right|done].
Qed.

(* dict: keys stay distinct, a present pair is found *)
Lemma dict_set_keys d key v : (dict_set d key v).*1 = if bool_decide (key ∈ d.*1) then d.*1 else (d.*1 ++ [key])%list.
Proof.
  induction d as [|[k' v'] d IH].
  - rewrite bool_decide_eq_false_2 by apply not_elem_of_nil. done.
  - cbn [dict_set]. destruct (decide (k' = key)) as [->|E].
    + rewrite bool_decide_eq_true_2 by done. rewrite !fmap_cons. cbn [fst]. rewrite bool_decide_eq_true_2; [done|by left].
    + rewrite bool_decide_eq_false_2 by done. rewrite !fmap_cons. cbn [fst]. rewrite IH. destruct (decide (key ∈ d.*1)) as [Hin|Hout].
      * rewrite !bool_decide_eq_true_2; [done|by right|done].
      * rewrite !bool_decide_eq_false_2; [done| |done]. intros [?|?]%elem_of_cons; congruence.
Qed.
Lemma dict_set_nodup d key v : NoDup d.*1 → NoDup (dict_set d key v).*1.
Proof.
  intros H. rewrite dict_set_keys. case_bool_decide; [done|]. apply NoDup_app. split; [done|]. split; [|apply NoDup_singleton].
  intros x Hx ->%elem_of_list_singleton. done.
Qed.
Lemma dict_get_nodup d key v : NoDup d.*1 → (key, v) ∈ d → dict_get d key = Some v.
Proof.
  unfold dict_get. induction d as [|[k' v'] d IH]; intros Hnd Hin; [by apply elem_of_nil in Hin|].
  rewrite fmap_cons in Hnd. apply NoDup_cons in Hnd as [Hk Hnd]. simpl. case_decide as E; simpl in E.
  - subst. simpl. apply elem_of_cons in Hin as [[= ->]|Hin]; [done|]. exfalso. apply Hk. apply elem_of_list_fmap. exists (key, v). done.
  - apply elem_of_cons in Hin as [[= -> ->]|Hin]; [done|]. specialize (IH Hnd Hin).
    destruct (list_find (λ p : string * string, p.1 = key) d) as [[j [a b]]|]; simpl in *; [done|discriminate].
Qed.


Section bbstep.
  Context (k : rctx).
  Hypothesis Htr : ties k ## k_rsv k.

  (* bb_instance, first loop: the nets on output pins become (undriven) buffers *)
  Lemma outs_fold conns l : ∀ g g1 ge,
    rfold (λ g (o : string), match dict_get conns o with
                              | Some net => r ← add_node (k_rsv k) g net Buf [] false; Ok r.1
                              | None => Ok g end) g l = Ok g1 →
    (∀ o net, o ∈ l → dict_get conns o = Some net → net ∈ k_rsv k ∧ undef_ok g net) →
    gst k (g, ge) →
    gst k (g1, ge) ∧ (∀ v, consistent g1 v → consistent g v) ∧
    (∀ z, z ∈ dom g → z ∉ k_rsv k → g1 !! z = g !! z) ∧
    (∀ m, undef_ok g m → undef_ok g1 m) ∧
    (∀ z, g !! z = Some (mk_node Buf false ∅) → g1 !! z = Some (mk_node Buf false ∅)) ∧
    (∀ o net, o ∈ l → dict_get conns o = Some net → g1 !! net = Some (mk_node Buf false ∅)).
  Proof.
    induction l as [|o l IH]; intros g g1 ge H Hn G; simpl in H.
    - injection H as <-. split; [done|]. split; [done|]. split; [done|]. split; [done|]. split; [done|]. intros o net Ho. by apply elem_of_nil in Ho.
    - apply rbind_ok in H as (g' & Ha & Hb).
      destruct (dict_get conns o) as [net|] eqn:Eg.
      + apply mbind_ok in Ha as ([g'' nm] & Ha & E). injection E as <-. simpl in *.
        destruct (Hn o net) as [Hr Hu]; [by left|done|].
        pose proof (add_node_shape k g net Buf [] g'' nm Ha) as (Hl & Hx & _).
        assert (Hf0 : fanin g net = ∅). { unfold fanin. destruct (g !! net) as [j|] eqn:Ej; [|done]. simpl. by destruct (Hu j Ej). }
        assert (Hl' : g'' !! net = Some (mk_node Buf false ∅)). { rewrite Hl, Hf0. do 2 f_equal. set_solver. }
        assert (Hund : ∀ m, undef_ok g m → undef_ok g'' m).
        { intros m Hm. destruct (decide (m = net)) as [->|Hne]; [|by eapply add_node_undef]. intros i Hi. rewrite Hl' in Hi. by injection Hi as <-. }
        assert (Hbuf : ∀ z, g !! z = Some (mk_node Buf false ∅) → g'' !! z = Some (mk_node Buf false ∅)).
        { intros z Hz. destruct (decide (z = net)) as [->|Hne]; [done|]. rewrite <- Hz. eapply add_node_keeps; [exact Ha|done|]. apply elem_of_dom; eauto. }
        destruct (IH g'' g1 ge Hb) as (G1 & C1 & K1 & U1 & B1 & O1).
        { intros o' net' Ho' Hg'. destruct (Hn o' net') as [? ?]; [by right|done|]. split; [done|]. by apply Hund. }
        { eapply add_node_gst; eauto. }
        split; [done|]. split; [intros v Hv; eapply add_node_consistent; eauto|]. split; [|split; [|split]].
        * intros z Hz Hzr. assert (Hzn : z ≠ net) by (intros ->; done).
          assert (Hk : g'' !! z = g !! z) by (eapply add_node_keeps; [exact Ha|done|done]).
          rewrite K1; [done| |done]. apply elem_of_dom in Hz as [j Hj]. apply elem_of_dom. exists j. by rewrite Hk.
        * auto.
        * auto.
        * intros o' net' [->|Ho']%elem_of_cons Hg'; [|by apply (O1 o')]. rewrite Eg in Hg'. injection Hg' as <-. by apply B1.
      + injection Ha as <-. destruct (IH g g1 ge Hb) as (G1 & C1 & K1 & U1 & B1 & O1); [intros o' net' ? ?; apply (Hn o' net'); [by right|done]|done|].
        split; [done|]. split; [done|]. split; [done|]. split; [done|]. split; [done|]. intros o' net' [->|Ho']%elem_of_cons Hg'; [congruence|by apply (O1 o')].
  Qed.

  (* second loop: nets that are no nodes yet become undriven buffers *)
  Lemma ph2_fold (l : list (string * string)) : ∀ g g2,
    rfold (λ g (kv : string * string), if bool_decide (kv.2 ∈ dom g) then Ok g else
             match add_g g kv.2 Buf [] [] af_default with (g', Done, _) => Ok g' | (_, Fail e, _) => Raise e end) g l = Ok g2 →
    g ⊆ g2 ∧ (∀ x i, g2 !! x = Some i → g !! x = None → i = mk_node Buf false ∅).
  Proof.
    induction l as [|kv l IH]; intros g g2 H; simpl in H.
    - injection H as <-. split; [done|]. intros x i Hx Hn. congruence.
    - apply rbind_ok in H as (g' & Ha & Hb). destruct (IH _ _ Hb) as [S2 N2]. case_bool_decide as Hd.
      + injection Ha as <-. done.
      + destruct (add_g g kv.2 Buf [] [] af_default) as [[g'' o] nm] eqn:Eg. destruct o; [|discriminate]. injection Ha as <-.
        apply BlackboxProofs.add_pin_done in Eg as (_ & Hnd & ->).
        assert (Hs : g ⊆ <[kv.2 := mk_node Buf false ∅]> g) by (apply insert_subseteq; by apply not_elem_of_dom).
        split; [by etrans|]. intros x i Hx Hn. destruct (decide (x = kv.2)) as [->|Hne].
        * assert (g2 !! kv.2 = Some (mk_node Buf false ∅)) by (eapply lookup_weaken; [|exact S2]; by rewrite lookup_insert). congruence.
        * apply (N2 x); [done|]. by rewrite lookup_insert_ne.
  Qed.

  Lemma bb_instance_step (NN : gset string) d gb ic gb' ge (Q : string → Prop) conns :
    bb_instance k d gb ic = Ok gb' → ic.2 = CNamed conns → NoDup conns.*1 →
    gst k (gb.1, ge) →
    (∀ kv, kv ∈ conns → kv.1 ∈ bb_out d → kv.1 ∉ bb_in d ∧ kv.2 ∈ k_rsv k ∧ undef_ok gb.1 kv.2 ∧ Q kv.2) →
    (∀ p, p ∈ bb_in d ∪ bb_out d → pin ic.1 p ∉ NN) →
    gst k (gb'.1, ge) ∧ (∀ v, consistent gb'.1 v → consistent gb.1 v) ∧
    (∀ z i, gb.1 !! z = Some i → z ∉ k_rsv k → ∃ i', gb'.1 !! z = Some i' ∧ n_ty i' = n_ty i) ∧
    (∀ n, n ∈ NN → ¬ Q n → undef_ok gb.1 n → undef_ok gb'.1 n).
  Proof.
    unfold bb_instance. intros H E Hnd G Hout Hpin. rewrite E in H.
    apply mbind_ok in H as (g1 & H1 & H). apply mbind_ok in H as (g2 & H2 & H).
    destruct (add_blackbox _ _ _ _ _ _) as [C' o] eqn:Eb. destruct o; [|discriminate]. injection H as <-. simpl.
    destruct (outs_fold conns _ _ _ ge H1) as (G1 & C1 & K1 & U1 & B1 & O1); [|done|].
    { intros o net Ho Hg. apply dict_get_elem in Hg. apply elem_of_elements in Ho. destruct (Hout (o, net) Hg Ho) as (_ & ? & ? & _). done. }
    destruct (ph2_fold _ _ _ H2) as [S2 N2].
    destruct G1 as (Hcl1 & Hti1 & Htg & Hgr).
    assert (Hcl2 : closed g2).
    { intros x i f Hx Hf. destruct (g1 !! x) as [j|] eqn:Ej.
      - pose proof (lookup_weaken _ _ _ _ Ej S2). assert (j = i) as -> by congruence.
        eapply (subseteq_dom g1 g2 S2). by eapply Hcl1.
      - rewrite (N2 x i Hx Ej) in Hf. simpl in Hf. by apply elem_of_empty in Hf. }
    pose proof Eb as Eb0. apply BlackboxProofs.add_blackbox_inv in Eb0 as (_ & _ & _ & g1p & io & Hp & Hc). simpl in Hp.
    destruct (BlackboxProofs.mkpins_done _ _ _ _ _ _ Hp) as (_ & _ & Hl).
    pose proof (BlackboxProofs.bconn_fold_shape d ic.1 ((λ kv : string * string, (kv.1, [kv.2])) <$> conns) (g1p, Done)) as Hsh. rewrite Hc in Hsh. simpl in Hsh.
    pose proof (ComposeProofs.same_shape_dom _ _ Hsh) as Hdom.
    pose proof (bconn_fold_rel _ _ _ _ _ Hc) as Hrel.
    destruct (BlackboxProofs.add_blackbox_wf _ _ _ _ _ _ _ Eb) as (_ & _ & Hkeys).
    assert (Hd2 : ∀ x, x ∈ dom g2 → x ∈ dom (c_g C')).
    { intros x [i Hi]%elem_of_dom. rewrite Hdom. apply elem_of_dom. exists i. apply Hl. by left. }
    (* an output connection of the compiled list *)
    assert (Hoc : ∀ kv' : string * list string, kv' ∈ (λ kv : string * string, (kv.1, [kv.2])) <$> conns → kv'.1 ∉ bb_in d →
                  ∃ kv, kv ∈ conns ∧ kv' = (kv.1, [kv.2]) ∧ kv.1 ∈ bb_out d).
    { intros kv' Hin Hni. pose proof (Hkeys kv' Hin) as Hor. apply elem_of_list_fmap in Hin as (kv & -> & Hkv). exists kv. split; [done|]. split; [done|].
      simpl in *. by destruct Hor. }
    split; [|split; [|split]].
    - unfold gst. cbn [fst snd]. split; [|split; [|done]].
      + intros x i' f Hx Hf. destruct (Hrel x i' Hx) as (i & Hi & _ & _ & _ & Hfi). destruct (Hfi f Hf) as [Hfo|[Hd _]]; [|by rewrite Hdom].
        apply Hl in Hi as [Hi|[(p & _ & _ & ->)|(p & _ & _ & ->)]]; [|by apply elem_of_empty in Hfo|by apply elem_of_empty in Hfo].
        apply Hd2. by eapply Hcl2.
      + intros x Hx. apply Hd2. eapply (subseteq_dom g1 g2 S2). by apply Hti1.
    - intros v Hv. apply C1. eapply consistent_mono; [exact S2|].
      eapply (BlackboxProofs.add_blackbox_sem _ _ _ _ _ _ _ Eb) in Hv; [by destruct Hv|apply list_to_set_elements_L|apply list_to_set_elements_L|].
      intros kv' net Hin Hni Hnet. destruct (Hoc kv' Hin Hni) as (kv & Hkv & -> & Hko). simpl in Hnet. apply elem_of_list_singleton in Hnet as ->.
      exists (mk_node Buf false ∅). split; [|split; [by left|done]]. simpl. eapply lookup_weaken; [|exact S2].
      eapply (O1 kv.1); [by apply elem_of_elements|]. apply dict_get_nodup; [done|]. by destruct kv.
    - intros z i Hz Hzr. assert (H1z : g1 !! z = Some i) by (rewrite K1; [done|apply elem_of_dom; eauto|done]).
      pose proof (lookup_weaken _ _ _ _ H1z S2) as H2z. assert (Hpz : g1p !! z = Some i) by (apply Hl; by left).
      assert (Hdz : z ∈ dom (c_g C')) by (rewrite Hdom; apply elem_of_dom; eauto). apply elem_of_dom in Hdz as [i' Hi'].
      exists i'. split; [done|]. destruct (Hrel z i' Hi') as (j & Hj & Et & _). congruence.
    - intros n Hn HQ Hu i' Hi'. destruct (Hrel n i' Hi') as (i & Hi & Et & _ & _ & Hfi).
      assert (H2n : g2 !! n = Some i).
      { apply Hl in Hi as [Hi|[(p & Hp' & -> & _)|(p & Hp' & -> & _)]]; [done| |]; exfalso; apply (Hpin p); try done; apply elem_of_elements in Hp'; set_solver. }
      assert (Hu2 : n_fi i = ∅ ∧ is_free i = true).
      { destruct (g1 !! n) as [j|] eqn:Ej.
        - pose proof (lookup_weaken _ _ _ _ Ej S2). assert (j = i) as -> by congruence. by apply (U1 n Hu).
        - by rewrite (N2 n i H2n Ej). }
      destruct Hu2 as [Hf0 Hfree].
      assert (Hf' : n_fi i' = ∅).
      { apply set_eq. intros f. split; [|set_solver]. intros Hf. exfalso. destruct (Hfi f Hf) as [Hfo|(_ & [(p & Hpi & ->)|(kv' & Hin & Hni & Hx)])].
        - rewrite Hf0 in Hfo. by apply elem_of_empty in Hfo.
        - apply (Hpin p); [set_solver|done].
        - destruct (Hoc kv' Hin Hni) as (kv & Hkv & -> & Hko). simpl in Hx. apply elem_of_list_singleton in Hx as ->.
          destruct (Hout kv Hkv Hko) as (_ & _ & _ & Hq). done. }
      split; [done|]. unfold is_free in *. rewrite Et, Hf'. rewrite Hf0 in Hfree. done.
  Qed.
End bbstep.


(* ------------------------------------------------------------------ blackbox statements in the item fold *)
(* nets on the output pins of one instance *)
Definition bb_defs (d : bbdef) (ic : string * conns) : list string :=
  match ic.2 with
  | Named ps => ps ≫= (λ pc : string * option cond,
                   if bool_decide (pc.1 ∈ bb_out d) then match pc.2 with Some e => match as_id e with Some w => [w] | None => [] end | None => [] end
                   else [])
  | _ => [] end.
Lemma inst_defs_bb bbs mn d ic : prim_of_name mn = None → find_def bbs mn = Some d → inst_defs bbs mn ic = bb_defs d ic.
Proof. unfold inst_defs, bb_defs. intros -> ->. by destruct (ic.2). Qed.
Lemma insts_defs_bb bbs mn d insts : prim_of_name mn = None → find_def bbs mn = Some d → insts ≫= inst_defs bbs mn = insts ≫= bb_defs d.
Proof. intros Hp Hd. induction insts as [|ic insts IH]; [done|]. cbn. by rewrite IH, (inst_defs_bb bbs mn d ic Hp Hd). Qed.
(* a blackbox adds no equation; in the invariant the nets it drives are recorded with the trivial equation w = w *)
Definition dummy (w : string) : string * driver := (w, DAssign (cid w)).
Lemma dummy_fst l : (dummy <$> l).*1 = l.
Proof. induction l as [|a l IH]; [done|]. rewrite !fmap_cons. by rewrite IH. Qed.
Definition xitem_drivers (bbs : list bbdef) (it : item) : list (string * driver) :=
  match it with
  | IInst mn insts => match prim_of_name mn with Some _ => item_drivers it | None => dummy <$> (insts ≫= inst_defs bbs mn) end
  | _ => item_drivers it end.
Definition xdrivers (bbs : list bbdef) (m : vmodule) : list (string * driver) := m_items m ≫= xitem_drivers bbs.

Section bbfold.
  Context (k : rctx) (NN DD : gset string).
  Hypothesis Htr : ties k ## k_rsv k.
  Hypothesis HNN : NN ⊆ k_rsv k.

  (* frames of the compile phase of any instance statement *)
  Lemma conns_frame (F : cstate → cstate → Prop) : (∀ s, F s s) → (∀ a b c, F a b → F b c → F a c) →
    (∀ e st st' r, c_cond k st e = Ok (st', r) → F st st') →
    ∀ c st st' cc, c_conns k st c = Ok (st', cc) → F st st'.
  Proof.
    intros Fr Ft Fc [ps|ps] st st' cc H; unfold c_conns in H; apply mbind_ok in H as ([st1 rs] & H1 & E); injection E as <- _; simpl.
    - clear cc. revert st st1 rs H1. induction ps as [|e ps IH]; intros st st1 rs H; simpl in H; [injection H as <- _; apply Fr|].
      apply rbind_ok in H as ([s1 r1] & H1 & H). apply rbind_ok in H as ([s2 r2] & H2 & H). simpl in *. injection H as <- _.
      eapply Ft; [by eapply Fc|by eapply IH].
    - clear cc. revert st st1 rs H1. induction ps as [|p ps IH]; intros st st1 rs H; simpl in H; [injection H as <- _; apply Fr|].
      apply rbind_ok in H as ([s1 r1] & H1 & H). apply rbind_ok in H as ([s2 r2] & H2 & H). simpl in *. injection H as <- _.
      eapply Ft; [|by eapply IH]. destruct (p.2) as [e|]; [|injection H1 as <- _; apply Fr].
      apply mbind_ok in H1 as ([s3 r3] & H3 & E). injection E as <- _. by eapply Fc.
  Qed.
  Lemma insts_frame (F : cstate → cstate → Prop) : (∀ s, F s s) → (∀ a b c, F a b → F b c → F a c) →
    (∀ e st st' r, c_cond k st e = Ok (st', r) → F st st') →
    ∀ insts st st' cl, rmapS (inst_step k) st insts = Ok (st', cl) → F st st'.
  Proof.
    intros Fr Ft Fc. induction insts as [|ic insts IH]; intros st st' cl H; simpl in H; [injection H as <- _; apply Fr|].
    apply rbind_ok in H as ([st1 c1] & H1 & H). apply rbind_ok in H as ([st2 c2] & H2 & H). simpl in *. injection H as <- _.
    unfold inst_step in H1. apply mbind_ok in H1 as ([st1' cc] & H1 & E1). injection E1 as <- _.
    eapply Ft; [by eapply (conns_frame F Fr Ft Fc)|by eapply IH].
  Qed.

  (* what the guard says about one blackbox instance *)
  Definition bb_guard (d : bbdef) (ic : string * conns) : Prop :=
    ∃ ps, ic.2 = Named ps ∧
      (∀ pc : string * option cond, pc ∈ ps →
         (pc.1 ∈ bb_in d ∧ pc.1 ∉ bb_out d) ∨
         (pc.1 ∈ bb_out d ∧ pc.1 ∉ bb_in d ∧ (pc.2 = None ∨ ∃ w, pc.2 = Some (cid w) ∧ w ∈ NN))) ∧
      (∀ p, p ∈ bb_in d ∪ bb_out d → pin ic.1 p ∉ NN).
  Definition cbb_good (d : bbdef) (ic : string * conns) (cc : string * cconns) : Prop :=
    cc.1 = ic.1 ∧ ∃ conns, cc.2 = CNamed conns ∧ NoDup conns.*1 ∧
      ∀ kv : string * string, kv ∈ conns → kv.1 ∈ bb_out d → kv.1 ∉ bb_in d ∧ kv.2 ∈ NN ∧ kv.2 ∈ bb_defs d ic.
  Lemma as_id_cid' w : as_id (cid w) = Some w. Proof. done. Qed.
  Lemma bb_defs_NN d ic w : bb_guard d ic → w ∈ bb_defs d ic → w ∈ NN.
  Proof.
    intros (ps & E & Hg & _). unfold bb_defs. rewrite E. intros (pc & Hw & Hpc)%elem_of_list_bind.
    case_bool_decide as Ho; [|by apply elem_of_nil in Hw]. destruct (Hg pc Hpc) as [[_ ?]|(_ & _ & [En|(w' & Ew & Hw')])]; [done| |].
    - rewrite En in Hw. by apply elem_of_nil in Hw.
    - rewrite Ew in Hw. simpl in Hw. apply elem_of_list_singleton in Hw as ->. done.
  Qed.
  Lemma named_outs d ic ps0 ps : ∀ st st' os, rmapS (named_step k) st ps = Ok (st', os) → ic.2 = Named ps0 → ps ⊆ ps0 → bb_guard d ic →
    Forall (λ o : option (string * string), ∀ kv, o = Some kv → kv.1 ∈ bb_out d → kv.1 ∉ bb_in d ∧ kv.2 ∈ NN ∧ kv.2 ∈ bb_defs d ic) os.
  Proof.
    induction ps as [|p ps IH]; intros st st' os H E Hsub Hg; simpl in H; [injection H as _ <-; constructor|].
    apply rbind_ok in H as ([st1 o1] & H1 & H). apply rbind_ok in H as ([st2 o2] & H2 & H). simpl in *. injection H as _ <-.
    constructor; [|eapply IH; eauto; set_solver].
    pose proof Hg as (ps' & E' & Hg' & _). rewrite E in E'. injection E' as <-.
    unfold named_step in H1. destruct p as [pn [e|]]; simpl in H1; [|injection H1 as _ <-; intros kv [=]].
    apply mbind_ok in H1 as ([st3 r] & H3 & H4). injection H4 as _ <-. intros kv [= <-] Hout. simpl in *.
    destruct (Hg' (pn, Some e)) as [[_ ?]|(_ & Hni & [?|(w & Ew & Hw)])]; [set_solver|done|done|]. simpl in Ew. injection Ew as ->.
    change (c_cond k st (cid w)) with (Ok (st, w) : res (cstate * string)) in H3. injection H3 as _ <-.
    split; [done|]. split; [done|]. unfold bb_defs. rewrite E. apply elem_of_list_bind. exists (pn, Some (cid w)). split; [|set_solver].
    simpl. rewrite bool_decide_eq_true_2 by done. by left.
  Qed.
  Lemma dict_fold_Q (Q : string * string → Prop) os : ∀ d0, NoDup d0.*1 → (∀ kv, kv ∈ d0 → Q kv) →
    Forall (λ o : option (string * string), ∀ kv, o = Some kv → Q kv) os →
    let r := foldl (λ dd (o : option (string * string)), match o with Some kv => dict_set dd kv.1 kv.2 | None => dd end) d0 os in
    NoDup r.*1 ∧ ∀ kv, kv ∈ r → Q kv.
  Proof.
    induction os as [|o os IH]; intros d0 Hnd H0 HF; simpl; [done|]. inversion HF as [|? ? Ho HF']; subst. apply IH; [| |done].
    - destruct o as [[key v]|]; [|done]. by apply dict_set_nodup.
    - destruct o as [[key v]|]; [|done]. intros kv [Hin| ->]%elem_of_dict_set; [by apply H0|]. by apply (Ho (key, v)).
  Qed.
  Lemma inst_step_bbgood d st ic st' cc : inst_step k st ic = Ok (st', cc) → bb_guard d ic → cbb_good d ic cc.
  Proof.
    unfold inst_step. intros H Hg. pose proof Hg as (ps & E & _). apply mbind_ok in H as ([st1 c1] & H1 & H2). injection H2 as _ <-.
    rewrite E in H1. unfold c_conns in H1. fold (named_step k) in H1. apply mbind_ok in H1 as ([st2 os] & H1 & H2). injection H2 as _ <-.
    split; [done|]. eexists. split; [done|]. simpl.
    pose proof (named_outs d ic ps ps _ _ _ H1 E ltac:(done) Hg) as HF.
    apply (dict_fold_Q (λ kv, kv.1 ∈ bb_out d → kv.1 ∉ bb_in d ∧ kv.2 ∈ NN ∧ kv.2 ∈ bb_defs d ic) os []); [constructor|intros kv Hin; by apply elem_of_nil in Hin|].
    eapply Forall_impl; [exact HF|]. intros o Ho kv Hkv. by apply Ho.
  Qed.
  Lemma insts_bbgood d insts : ∀ st st' cl, rmapS (inst_step k) st insts = Ok (st', cl) → Forall (bb_guard d) insts →
    Forall2 (cbb_good d) insts cl.
  Proof.
    induction insts as [|ic insts IH]; intros st st' cl H HF; simpl in H; [injection H as _ <-; constructor|].
    inversion HF as [|? ? Hg HF']; subst.
    apply rbind_ok in H as ([st1 c1] & H1 & H). apply rbind_ok in H as ([st2 c2] & H2 & H). simpl in *. injection H as _ <-.
    constructor; [by eapply inst_step_bbgood|by eapply IH].
  Qed.

  Lemma rinv_add_dummies ws : ∀ P g ge, rinv k NN P g ge → (∀ w, w ∈ ws → w ∈ NN) → rinv k NN (P ++ (dummy <$> ws)) g ge.
  Proof.
    induction ws as [|w ws IH]; intros P g ge Hi Hw; [by rewrite app_nil_r|]. rewrite fmap_cons.
    replace (P ++ dummy w :: (dummy <$> ws))%list with ((P ++ [dummy w]) ++ (dummy <$> ws))%list by (by rewrite <- app_assoc).
    apply IH; [|intros; apply Hw; by right]. apply rinv_add; [done| |done].
    assert (w ∈ NN) by (apply Hw; by left). split; [done|]. split; [by apply HNN|]. simpl. intros s Hs. apply HNN. set_solver.
  Qed.

  Lemma bbs_rinv d cl : ∀ insts gb gb' ge P, rfold (bb_instance k d) gb cl = Ok gb' → rinv k NN P gb.1 ge →
    Forall2 (cbb_good d) insts cl → Forall (bb_guard d) insts → NoDup (P.*1 ++ (insts ≫= bb_defs d)) →
    rinv k NN (P ++ (dummy <$> (insts ≫= bb_defs d))) gb'.1 ge.
  Proof.
    induction cl as [|cc cl IH]; intros insts gb gb' ge P H Hi HF HG Hnd; simpl in H.
    - injection H as <-. inversion HF; subst. simpl. by rewrite app_nil_r.
    - inversion HF as [|ic ? insts' ? (Enm & conns & Ec & Hcn & Hkv) HF']; subst.
      inversion HG as [|? ? Hg HG']; subst. apply rbind_ok in H as (gb1 & H1 & H2).
      cbn [mbind list_bind] in Hnd |- *. fold (mbind (M:=list) (bb_defs d)) in Hnd |- *.
      pose proof Hi as [G T X U Eq N].
      assert (Hdn : ∀ w, w ∈ bb_defs d ic → w ∈ NN) by (intros w; by apply bb_defs_NN).
      pose proof (rinv_add_dummies (bb_defs d ic) P gb.1 ge Hi Hdn) as Hi0.
      destruct (bb_instance_step k Htr NN d gb cc gb1 ge (λ w, w ∈ bb_defs d ic) conns H1 Ec Hcn G) as (G1 & C1 & K1 & U1).
      { intros kv Hin Hout. destruct (Hkv kv Hin Hout) as (Hni & Hnn & Hdf). split; [done|]. split; [by apply HNN|]. split; [|done].
        apply U; [done|]. apply NoDup_app in Hnd as (_ & Hd & _). intros Hp. apply (Hd _ Hp). apply elem_of_app. by left. }
      { destruct Hg as (_ & _ & _ & Hpin). by rewrite Enm. }
      assert (Hkeep : ∀ z, z ∈ ties k → ∀ i, gb.1 !! z = Some i → ∃ i', gb1.1 !! z = Some i' ∧ n_ty i' = n_ty i).
      { intros z Hz i Hzi. apply (K1 z i Hzi). intros Hr. by apply (Htr z). }
      assert (Hi1 : rinv k NN (P ++ (dummy <$> bb_defs d ic)) gb1.1 ge).
      { eapply rinv_refine; [exact Hi0|by apply refines_same|done| | |].
        - destruct T as [(i0 & L0 & T0) (i1 & L1 & T1)].
          destruct (Hkeep (k_t0 k) ltac:(unfold ties; set_solver) i0 L0) as (j0 & M0 & S0).
          destruct (Hkeep (k_t1 k) ltac:(unfold ties; set_solver) i1 L1) as (j1 & M1 & S1).
          split; [exists j0|exists j1]; split; congruence.
        - destruct X as (ix & Lx & Tx). destruct (Hkeep (k_tx k) ltac:(unfold ties; set_solver) ix Lx) as (jx & Mx & Sx). exists jx. split; congruence.
        - intros n Hn Hp Hu. apply U1; [done| |done]. intros Hq. apply Hp. rewrite fmap_app, dummy_fst. apply elem_of_app. by right. }
      specialize (IH insts' gb1 gb' ge _ H2 Hi1 HF' HG'). rewrite fmap_app, app_assoc. apply IH.
      rewrite fmap_app, dummy_fst, <- app_assoc. done.
  Qed.

  Lemma c_item_rinv_bb st mn insts st' P d : prim_of_name mn = None → find_def (k_bbs k) mn = Some d →
    c_item k st (IInst mn insts) = Ok st' → rinv k NN P (r_g st) (r_ge st) → Forall (bb_guard d) insts →
    NoDup (P.*1 ++ (insts ≫= bb_defs d)) → rinv k NN (P ++ (dummy <$> (insts ≫= bb_defs d))) (r_g st') (r_ge st').
  Proof.
    intros Ep Ed H Hi HG Hnd. simpl in H. rewrite Ep in H. unfold find_bb in H. rewrite Ed in H. fold (inst_step k) in H.
    apply mbind_ok in H as ([stc cl] & H1 & H). cbn [fst snd] in H. apply mbind_ok in H as (x & H2 & H). injection H as <-. simpl.
    pose proof Hi as [G T X U Eq N].
    destruct (insts_frame (frg k) (frg_refl k) (frg_trans k) (frg_cond k) _ _ _ _ H1) as [Ss Gc]. specialize (Gc G). simpl in Ss.
    pose proof (insts_frame (fr2 k) (fr2_refl k) (fr2_trans k) (fr2_cond k) _ _ _ _ H1) as F2.
    assert (Hic : rinv k NN P stc.1 stc.2).
    { eapply rinv_refine; [exact Hi|by apply refines_sub|by destruct stc|by eapply ties_mono| |].
      { destruct X as (i & Hx & Hc). exists i. split; [|done]. by eapply lookup_weaken. }
      intros n Hn Hp Hu. eapply (fr2_undef k (r_g st, r_ge st) stc); [done|by apply HNN|done]. }
    eapply (bbs_rinv d cl insts (stc.1, r_bbs st) x stc.2 P); [exact H2|exact Hic|by eapply insts_bbgood|done|done].
  Qed.

  Definition item_den_ok2 (it : item) : Prop :=
    match it with
    | IInst mn insts => match prim_of_name mn with
                        | Some _ => item_den_ok k NN DD it
                        | None => ∃ d, find_def (k_bbs k) mn = Some d ∧ Forall (bb_guard d) insts end
    | _ => item_den_ok k NN DD it end.
  Lemma xitem_drivers_eq it : (∀ mn insts, it = IInst mn insts → is_Some (prim_of_name mn)) → xitem_drivers (k_bbs k) it = item_drivers it.
  Proof. destruct it as [| | |mn insts|]; try done. intros H. destruct (H mn insts eq_refl) as [t Et]. simpl. by rewrite Et. Qed.

  Lemma c_item_rinv2 st it st' P : c_item k st it = Ok st' → rinv k NN P (r_g st) (r_ge st) → item_den_ok2 it →
    NoDup (P.*1 ++ (xitem_drivers (k_bbs k) it).*1) → (list_to_set P.*1 : gset string) ⊆ DD →
    rinv k NN (P ++ xitem_drivers (k_bbs k) it) (r_g st') (r_ge st').
  Proof.
    intros H Hi Hok Hnd HDD.
    assert (Hplain : (∀ mn insts, it = IInst mn insts → is_Some (prim_of_name mn)) → item_den_ok k NN DD it →
                     rinv k NN (P ++ xitem_drivers (k_bbs k) it) (r_g st') (r_ge st')).
    { intros Hp Hok'. rewrite xitem_drivers_eq in Hnd |- * by done. by eapply c_item_rinv. }
    destruct it as [ns|ns|ns|mn insts|l]; try (apply Hplain; [intros ? ? [=]|exact Hok]).
    simpl in Hok. destruct (prim_of_name mn) as [t|] eqn:Ep.
    - apply Hplain; [|simpl; rewrite Ep; exact Hok]. intros ? ? [= <- <-]. eauto.
    - destruct Hok as (d & Ed & HG). simpl in Hnd |- *. rewrite Ep in Hnd |- *. rewrite dummy_fst in Hnd.
      rewrite (insts_defs_bb (k_bbs k) mn d insts Ep Ed) in Hnd |- *. by eapply c_item_rinv_bb.
  Qed.

  Lemma items_rinv2 items : ∀ st st' P, rfold (c_item k) st items = Ok st' → rinv k NN P (r_g st) (r_ge st) →
    Forall item_den_ok2 items → NoDup (P.*1 ++ (items ≫= xitem_drivers (k_bbs k)).*1) →
    (list_to_set (P.*1 ++ (items ≫= xitem_drivers (k_bbs k)).*1) : gset string) ⊆ DD →
    rinv k NN (P ++ (items ≫= xitem_drivers (k_bbs k))) (r_g st') (r_ge st').
  Proof.
    induction items as [|it items IH]; intros st st' P H Hi HF Hnd HDD; simpl in H.
    - injection H as <-. simpl. by rewrite app_nil_r.
    - inversion HF as [|? ? Hok HF']; subst. apply rbind_ok in H as (st1 & H1 & H2).
      cbn [mbind list_bind] in Hnd, HDD |- *. fold (mbind (M:=list) (xitem_drivers (k_bbs k))) in Hnd, HDD |- *.
      rewrite fmap_app in Hnd, HDD. rewrite app_assoc in Hnd.
      assert (Hi1 : rinv k NN (P ++ xitem_drivers (k_bbs k) it) (r_g st1) (r_ge st1)).
      { eapply c_item_rinv2; [exact H1|exact Hi|exact Hok| |].
        - by apply NoDup_app in Hnd as (? & _ & _).
        - set_solver. }
      specialize (IH st1 st' _ H2 Hi1 HF'). rewrite <- app_assoc in IH. apply IH.
      + rewrite fmap_app. done.
      + rewrite fmap_app. set_solver.
  Qed.
End bbfold.


(* ------------------------------------------------------------------ read_denotes, soundness, whole modules *)
Lemma item_drivers_sub bbs it nd : nd ∈ item_drivers it → nd ∈ xitem_drivers bbs it.
Proof.
  destruct it as [| | |mn insts|]; try done. simpl. destruct (prim_of_name mn) eqn:Ep; [done|].
  intros (ic & Hin & _)%elem_of_list_bind. unfold inst_drivers in Hin. rewrite Ep in Hin. by apply elem_of_nil in Hin.
Qed.
Lemma drivers_sub bbs m nd : nd ∈ drivers m → nd ∈ xdrivers bbs m.
Proof. unfold drivers, xdrivers. intros (it & Hin & Hit)%elem_of_list_bind. apply elem_of_list_bind. exists it. split; [by apply item_drivers_sub|done]. Qed.

Theorem read_sound_items2 rsv bbs m C (NN : gset string) : NN ⊆ rsv →
  Forall (item_den_ok2 (init_ctx rsv bbs).1 NN (list_to_set (xdrivers bbs m).*1)) (m_items m) → NoDup (xdrivers bbs m).*1 →
  read rsv bbs m = Ok C → ∀ w, consistent (c_g C) w → sat_module m w (w (k_tx (init_ctx rsv bbs).1)).
Proof.
  intros HNN Hok Hnd H w Hw. unfold read in H. pose proof (init_rinv rsv bbs) as Hk. cbv zeta in Hk.
  destruct (init_ctx rsv bbs) as [k g0]. simpl in Hk, Hok |- *. destruct Hk as (Er & Eb & Htr & N01 & N0x & N1x & Hi0). subst rsv. subst bbs.
  specialize (Hi0 NN HNN).
  apply mbind_ok in H as (st & Hf & Hfin).
  eapply (items_rinv2 k NN _ Htr HNN (m_items m) _ st []) in Hf; [|exact Hi0|exact Hok|exact Hnd|done].
  simpl in Hf. fold (xdrivers (k_bbs k) m) in Hf. destruct Hf as [G T X U E N].
  unfold finish in Hfin. repeat (case_bool_decide; simpl in Hfin; try discriminate).
  destruct (set_output_g (r_g st) (elements (r_outs st)) true) as [g' o] eqn:Es. destruct o; [|discriminate].
  injection Hfin as <-. simpl in Hw. fold (drop_tie g' (k_t0 k)) in Hw. fold (drop_tie (drop_tie g' (k_t0 k)) (k_t1 k)) in Hw.
  fold (drop_tie (drop_tie (drop_tie g' (k_t0 k)) (k_t1 k)) (k_tx k)) in Hw.
  pose proof (set_output_spec _ _ _ Es) as [_ Hl].
  assert (Hty : ∀ z i, r_g st !! z = Some i → ∃ i', g' !! z = Some i' ∧ n_ty i' = n_ty i).
  { intros z i Hz. rewrite Hl, Hz. simpl. case_bool_decide; eauto. }
  destruct T as [(i0 & L0 & T0) (i1 & L1 & T1)]. destruct X as (ix & Lx & Tx).
  destruct (Hty _ _ L0) as (j0 & M0 & S0). destruct (Hty _ _ L1) as (j1 & M1 & S1). destruct (Hty _ _ Lx) as (jx & Mx & Sx).
  destruct (drop_lookup g' (k_t0 k) (k_t1 k) j1 (not_eq_sym N01) M1) as (j1' & M1' & S1').
  destruct (drop_lookup g' (k_t0 k) (k_tx k) jx (not_eq_sym N0x) Mx) as (jx' & Mx' & Sx').
  destruct (drop_lookup _ (k_t1 k) (k_tx k) jx' (not_eq_sym N1x) Mx') as (jx'' & Mx'' & Sx'').
  assert (Hnr : ∀ z, z ∈ ties k → z ∉ k_rsv k) by (intros z Hz Hr; by apply (Htr z)).
  assert (Href : refines_rsv k (r_g st) (drop_tie (drop_tie (drop_tie g' (k_t0 k)) (k_t1 k)) (k_tx k))).
  { eapply refines_trans; [apply refines_same; intros v; by eapply set_output_consistent|].
    eapply refines_trans; [eapply (drop_refines k g' (k_t0 k) j0 M0)|].
    - rewrite S0, T0. set_solver.
    - apply Hnr. unfold ties. set_solver.
    - intros E'. done.
    - eapply refines_trans; [eapply (drop_refines k _ (k_t1 k) j1' M1')|].
      + rewrite S1', S1, T1. set_solver.
      + apply Hnr. unfold ties. set_solver.
      + intros E'. done.
      + eapply (drop_refines k _ (k_tx k) jx'' Mx'').
        * rewrite Sx'', Sx', Sx, Tx. set_solver.
        * apply Hnr. unfold ties. set_solver.
        * intros _. by rewrite Sx'', Sx', Sx. }
  destruct (Href w Hw) as (v1 & C1 & A1 & X1).
  intros n d Hin. apply (drivers_sub (k_bbs k)) in Hin. rewrite Forall_forall in N. destruct (N _ Hin) as (_ & Hn & Hd). simpl in *.
  rewrite <- (A1 n Hn), <- X1. rewrite (E n d Hin v1 C1). apply sem_driver_ext. intros s Hs. apply A1, Hd. by apply elem_of_list_to_set.
Qed.

(* ---- from the boolean guard of the oracle ---- *)
Lemma prim_of_name_gate mn t : prim_of_name mn = Some t → t ∈ gate_types.
Proof. unfold prim_of_name, gate_types. repeat case_bool_decide; intros Hq; inversion Hq; set_solver. Qed.
Lemma bind_fst {A} (f : A → list (string * driver)) (l : list A) : (l ≫= f).*1 = l ≫= (λ x, (f x).*1).
Proof. induction l as [|x l IH]; [done|]. cbn. by rewrite fmap_app, IH. Qed.
Lemma inst_drivers_defs bbs mn t ic : prim_of_name mn = Some t → (inst_drivers mn ic).*1 = inst_defs bbs mn ic.
Proof.
  intros E. unfold inst_drivers, inst_defs. rewrite E. destruct ic as [nm [[|o ins]|ps]]; simpl; try done. by destruct (as_id o).
Qed.
Lemma xitem_drivers_defs bbs it : (xitem_drivers bbs it).*1 = item_defs bbs it.
Proof.
  destruct it as [ns|ns|ns|mn insts|l]; simpl; try done.
  - destruct (prim_of_name mn) as [t|] eqn:Et; [|apply dummy_fst]. simpl. rewrite bind_fst. induction insts as [|ic insts IH]; [done|]. cbn.
    by rewrite IH, (inst_drivers_defs bbs mn t ic Et).
  - induction l as [|a l IH]; [done|]. rewrite !fmap_cons. f_equal. exact IH.
Qed.
Lemma xdrivers_defs bbs m : (xdrivers bbs m).*1 = module_defs bbs m.
Proof.
  unfold xdrivers, module_defs. rewrite bind_fst. generalize (m_items m). intros items.
  induction items as [|it items IH]; [done|]. cbn. rewrite IH. f_equal. apply xitem_drivers_defs.
Qed.
Lemma conns_nets_ids c s : s ∈ conns_nets c → s ∈ conns_ids c.
Proof.
  destruct c as [ps|ps]; simpl; [done|]. intros (p & Hs & Hp)%elem_of_list_bind. apply elem_of_list_bind. exists p. split; [|done]. by right.
Qed.
Lemma module_nets_ids m s : s ∈ module_nets m → s ∈ module_ids m.
Proof.
  unfold module_nets, module_ids. intros [Hp|Hi]%elem_of_app; right; apply elem_of_app; [by left|right].
  apply elem_of_list_bind in Hi as (it & Hs & Hit). apply elem_of_list_bind. exists it. split; [|done].
  destruct it as [ns|ns|ns|mn insts|l]; simpl in *; try done. right.
  apply elem_of_list_bind in Hs as (ic & Hs & Hic). apply elem_of_list_bind. exists ic. split; [|done]. right. by apply conns_nets_ids.
Qed.

Lemma in_subset_den2 rsv bbs m : in_subset bbs m = true → (list_to_set (module_ids m) : gset string) ⊆ rsv →
  (list_to_set (module_nets m) : gset string) ⊆ rsv ∧
  Forall (item_den_ok2 (init_ctx rsv bbs).1 (list_to_set (module_nets m)) (list_to_set (xdrivers bbs m).*1)) (m_items m) ∧ NoDup (xdrivers bbs m).*1.
Proof.
  intros Hs Hids. pose proof (xdrivers_defs bbs m) as Edd.
  unfold in_subset in Hs. rewrite !andb_true_iff in Hs. destruct Hs as ((((((Hsh & _) & Hnd) & Hdef) & _) & Hpins) & _).
  apply bool_decide_eq_true in Hnd. rewrite forallb_forall in Hsh. rewrite forallb_forall in Hdef. rewrite forallb_forall in Hpins.
  split; [|split; [|by rewrite Edd]].
  { intros s Hs. apply Hids. apply elem_of_list_to_set. apply module_nets_ids. by apply elem_of_list_to_set in Hs. }
  assert (Hitem : ∀ it s, it ∈ m_items m → s ∈ item_ids it → s ∈ rsv).
  { intros it s Hit Hs'. apply Hids. rewrite elem_of_list_to_set. unfold module_ids. right. apply elem_of_app. right.
    apply elem_of_list_bind. eauto. }
  assert (Hnet : ∀ it s, it ∈ m_items m → s ∈ item_nets it → s ∈ (list_to_set (module_nets m) : gset string)).
  { intros it s Hit Hs'. rewrite elem_of_list_to_set. unfold module_nets. apply elem_of_app. right. apply elem_of_list_bind. eauto. }
  apply Forall_forall. intros it Hit. pose proof (Hsh it (proj1 (elem_of_list_In _ _) Hit)) as Hs'.
  destruct it as [ns|ns|ns|mn insts|l]; simpl; try done.
  - intros n Hn. split; [by apply (Hnet (IInput ns) n Hit)|]. split; [by apply (Hitem (IInput ns) n Hit)|]. rewrite Edd. intros Hin. apply elem_of_list_to_set in Hin.
    apply elem_of_list_In in Hin. specialize (Hdef _ Hin). apply bool_decide_eq_true in Hdef. apply Hdef.
    unfold sset. rewrite elem_of_list_to_set. unfold decl_inputs. apply elem_of_list_bind. exists (IInput ns). done.
  - apply andb_true_iff in Hs' as [Hs' Hne]. rewrite forallb_forall in Hs'. destruct (prim_of_name mn) as [t|] eqn:Et.
    + simpl. exists t. split; [done|]. split; [by eapply prim_of_name_gate|].
      apply Forall_forall. intros ic Hic.
      specialize (Hs' ic (proj1 (elem_of_list_In _ _) Hic)). unfold inst_ok in Hs'. rewrite Et in Hs'.
      destruct ic as [iname [[|o ins]|ps]]; simpl in Hs'; try discriminate. apply andb_true_iff in Hs' as [Ho Har].
      apply bool_decide_eq_true in Ho as [n En]. pose proof (as_id_cid _ _ En) as ->.
      assert (Hsub : ∀ s, s ∈ (cid n :: ins) ≫= ids_cond → s ∈ rsv).
      { intros s Hs''. apply (Hitem (IInst mn insts) s Hit). simpl. right. apply elem_of_list_bind. exists (iname, Positional (cid n :: ins)).
        split; [|done]. simpl. by right. }
      exists n, ins. split; [done|]. split; [|split].
      * split; [|split]; simpl.
        -- apply (Hnet (IInst mn insts) n Hit). simpl. apply elem_of_list_bind. exists (iname, Positional (cid n :: ins)). split; [|done]. simpl. cbn. by left.
        -- apply Hsub. cbn. by left.
        -- intros s Hs''. apply elem_of_list_to_set in Hs''. apply Hsub. cbn. by right.
      * destruct (bool_decide (t = Buf) || bool_decide (t = Not)); [|by apply negb_true_iff, bool_decide_eq_false in Har].
        apply bool_decide_eq_true in Har. intros ->. done.
      * intros Hbn. destruct (bool_decide (t = Buf) || bool_decide (t = Not)) eqn:Eb; [by apply bool_decide_eq_true in Har|].
        apply orb_false_iff in Eb as [E1 E2]. apply bool_decide_eq_false in E1, E2. by destruct Hbn.
    + assert (Hex : ∃ d, find_def bbs mn = Some d).
      { destruct insts as [|ic0 insts0]; [by apply negb_true_iff, bool_decide_eq_false in Hne|].
        specialize (Hs' ic0 ltac:(by left)). unfold inst_ok in Hs'. rewrite Et in Hs'. destruct (find_def bbs mn); [eauto|discriminate]. }
      destruct Hex as [d Ed]. exists d. split; [done|]. apply Forall_forall. intros ic Hic.
      specialize (Hs' ic (proj1 (elem_of_list_In _ _) Hic)). unfold inst_ok in Hs'. rewrite Et, Ed in Hs'.
      destruct ic as [iname [pp|ps]]; simpl in Hs'; try discriminate. apply andb_true_iff in Hs' as [_ Hps]. rewrite forallb_forall in Hps.
      exists ps. split; [done|]. split.
      * intros pc Hpc. specialize (Hps pc (proj1 (elem_of_list_In _ _) Hpc)). apply orb_true_iff in Hps as [Hb|Hb].
        -- left. apply andb_true_iff in Hb as [Hb1 Hb2]. apply bool_decide_eq_true in Hb1. apply negb_true_iff, bool_decide_eq_false in Hb2. done.
        -- right. apply andb_true_iff in Hb as [Hb Hb3]. apply andb_true_iff in Hb as [Hb1 Hb2].
           apply bool_decide_eq_true in Hb1. apply negb_true_iff, bool_decide_eq_false in Hb2. split; [done|]. split; [done|].
           destruct pc as [pn [e|]]; [|by left]. right. simpl in *. apply bool_decide_eq_true in Hb3 as [w Ew]. exists w.
           split; [by rewrite (as_id_cid _ _ Ew)|]. apply (Hnet (IInst mn insts) w Hit). simpl. apply elem_of_list_bind. exists (iname, Named ps).
           split; [|done]. simpl. apply elem_of_list_bind. exists (pn, Some e). split; [|done]. simpl. rewrite (as_id_cid _ _ Ew). cbn. by left.
      * intros p Hp. simpl.
        assert (Hbi : (iname, d, ps) ∈ bb_insts bbs m).
        { unfold bb_insts. apply elem_of_list_bind. exists (IInst mn insts). split; [|done]. rewrite Et, Ed.
          apply elem_of_list_bind. exists (iname, Named ps). split; [|done]. simpl. by left. }
        specialize (Hpins _ (proj1 (elem_of_list_In _ _) Hbi)). rewrite forallb_forall in Hpins. simpl in Hpins.
        specialize (Hpins p). rewrite negb_true_iff, bool_decide_eq_false in Hpins. apply Hpins. apply elem_of_list_In. by apply elem_of_elements.
  - apply Forall_forall. intros [lv e] Hin. split; [|split]; simpl.
    + apply (Hnet (IAssign l) lv Hit). simpl. apply elem_of_list_bind. exists (lv, e). split; [by left|done].
    + apply (Hitem (IAssign l) lv Hit). simpl. apply elem_of_list_bind. exists (lv, e). split; [by left|done].
    + intros s Hs''. apply elem_of_list_to_set in Hs''. apply (Hitem (IAssign l) s Hit). simpl. apply elem_of_list_bind. exists (lv, e). split; [by right|done].
Qed.

(* every consistent valuation of the circuit read from a module of the subset (blackbox instances included) satisfies the
   module: each assignment and each primitive instance holds, with all 1'bx read as the value of the node tie_x *)
Theorem read_denotes_sound rsv bbs m C : in_subset bbs m = true → (list_to_set (module_ids m) : gset string) ⊆ rsv →
  read rsv bbs m = Ok C → ∀ w, consistent (c_g C) w → ∃ x, sat_module m w x.
Proof.
  intros Hs Hids H w Hw. destruct (in_subset_den2 rsv bbs m Hs Hids) as (HNN & Hok & Hnd).
  eexists. by eapply (read_sound_items2 rsv bbs m C _ HNN).
Qed.
