(* Proofs for C02, fifth part: the converse of read_denotes_sound.  Every reader step extends valuations (the synthetic nodes
   take the values of their sub-expressions, pins the values of the nets they are attached to); dual invariant `cinv` over the
   item fold: every model of the equations processed so far is realised by a consistent valuation of the graph. *)
From CG Require Import Verilog.ExprParse.
From stdpp Require Import strings gmap sets fin_sets pretty.
From CG Require Import Types Sem Fold Api Verilog.Ast Verilog.Read Verilog.Write Proofs.VerilogProofs Run.Run_C02 Proofs.VerilogReadProofs Proofs.VerilogDenoteProofs Proofs.VerilogBbProofs.
From CG Require Proofs.ComposeProofs Proofs.BlackboxProofs Model.Compose6.
Open Scope string_scope.


(* ------------------------------------------------------------------ the converse: valuations extend along the reader's steps *)
(* every consistent valuation of st extends to one of st' that is unchanged on the old nodes and on the reserved names *)
Definition ext (k : rctx) (st st' : cstate) : Prop :=
  st.1 ⊆ st'.1 ∧ ∀ w, consistent st.1 w → ∃ w', consistent st'.1 w' ∧ ∀ s, s ∈ dom st.1 ∨ s ∈ k_rsv k → w' s = w s.
Lemma ext_refl k st : ext k st st.
Proof. split; [done|]. intros w Hw. exists w. done. Qed.
Lemma ext_trans k a b c : ext k a b → ext k b c → ext k a c.
Proof.
  intros [S1 E1] [S2 E2]. split; [by etrans|]. intros w Hw. destruct (E1 w Hw) as (w1 & C1 & A1). destruct (E2 w1 C1) as (w2 & C2 & A2).
  exists w2. split; [done|]. intros s Hs. rewrite A2, A1; [done|done|]. destruct Hs as [Hd|?]; [left|by right]. by apply (subseteq_dom _ _ S1).
Qed.
Lemma node_ok_gate v n t (s : gset string) : t ∈ gate_types → s ≠ ∅ → node_ok v n (mk_node t false s) ↔ v n = gate_val t v s.
Proof.
  intros Ht Hs. unfold node_ok, is_free. simpl. unfold gate_types in Ht. rewrite !elem_of_cons, elem_of_nil in Ht.
  destruct Ht as [->|[->|[->|[->|[->|[->|[->|[->|[]]]]]]]]]; simpl; try done; by rewrite bool_decide_eq_false_2.
Qed.
Lemma gate_ext k su prefix t items fi rem st' r : gst k su → gate k su prefix t items fi rem = Ok (st', r) → t ∈ gate_types5 → fi ≠ [] →
  (∀ o, o ∈ fi → o ∈ k_rsv k ∨ o ∈ dom su.1) → ext k su st'.
Proof.
  intros (Hcl & _) H Ht Hfi Hops. apply gate_spec in H as (Hs & Hl & Hnd & Hnr & Hnew & Hge); [|done]. split; [done|].
  assert (Hrfi : r ∉ fi). { intros Hin. destruct (Hops r Hin); done. }
  intros w Hw. set (w' := λ s, if bool_decide (s = r) then gate_val t w (list_to_set fi) else w s).
  assert (Hw' : ∀ s, s ≠ r → w' s = w s) by (intros s Hsr; unfold w'; by rewrite bool_decide_eq_false_2).
  exists w'. split.
  - intros x i Hx. assert (Hd : x ∈ dom st'.1) by (apply elem_of_dom; eauto). destruct (Hnew x Hd) as [Hd'|[->|[_ Hb]]].
    + apply elem_of_dom in Hd' as [j Hj]. pose proof (lookup_weaken _ _ _ _ Hj Hs). assert (j = i) as -> by congruence.
      assert (Hxr : x ≠ r) by (intros ->; apply Hnd; apply elem_of_dom; eauto).
      eapply (node_ok_ext w w' x x); [by rewrite Hw'| |by apply Hw]. intros f Hf. rewrite Hw'; [done|]. intros ->. apply Hnd. by eapply Hcl.
    + rewrite Hl in Hx. injection Hx as <-. apply node_ok_gate.
      * unfold gate_types5 in Ht. unfold gate_types. set_solver.
      * destruct fi; [done|set_solver].
      * unfold w' at 1. rewrite bool_decide_eq_true_2 by done. apply gate_val_ext. intros f Hf. symmetry. apply Hw'. intros ->. by apply elem_of_list_to_set in Hf.
    + rewrite Hb in Hx. injection Hx as <-. done.
  - intros s Hs'. apply Hw'. intros ->. destruct Hs'; done.
Qed.

Section extend.
  Context (k : rctx).
  Definition eq_ {T} (cf : rctx → cstate → T → res (cstate * string)) (idf : T → list string) (e : T) : Prop :=
    ∀ st st' r, cf k st e = Ok (st', r) → gst k st → (list_to_set (idf e) : gset string) ⊆ k_rsv k → ext k st st'.
  Lemma ext_all : (∀ p, eq_ c_prim ids_prim p) ∧ (∀ u, eq_ c_unary ids_unary u) ∧ (∀ a, eq_ c_and ids_and a) ∧
                  (∀ x, eq_ c_xor ids_xor x) ∧ (∀ o, eq_ c_or ids_or o).
  Proof.
    destruct (frg_levels k) as (Fp & Fu & Fa & Fx & Fo). destruct (result_all k) as (Rp & Ru & Ra & Rx & Ro).
    apply expr_mutind; unfold eq_.
    - intros s st st' r H G Hid. simpl in H. injection H as <- <-. apply ext_refl.
    - intros c st st' r H G Hid. simpl in H. injection H as <- <-. apply ext_refl.
    - intros o IH st st' r H G Hid. simpl in H. by eapply IH.
    - intros p IH st st' r H G Hid. simpl in H. by eapply IH.
    - intros p IH st st' r H G Hid. simpl in H. apply rbind_ok in H as ([st1 r1] & H1 & H2). simpl in H2.
      destruct (Fp p _ _ _ H1) as [S1 G1]. eapply ext_trans; [by eapply IH|].
      eapply gate_ext; [by apply G1|exact H2|set_solver|done|].
      intros o ->%elem_of_list_singleton. eapply (resq_dom k st st1 st1); [done|]. eapply Rp; [exact H1|exact G|exact Hid].
    - intros u IH st st' r H G Hid. simpl in H. by eapply IH.
    - intros a IHa u IHu st st' r H G Hid. simpl in H, Hid.
      apply rbind_ok in H as ([st1 r1] & H1 & H). simpl in H. apply rbind_ok in H as ([st2 r2] & H2 & H). simpl in H.
      destruct (Fa a _ _ _ H1) as [S1 G1]. destruct (Fu u _ _ _ H2) as [S2 G2]. cbn [fst snd] in *.
      eapply ext_trans; [eapply IHa; [exact H1|exact G|set_solver]|]. eapply ext_trans; [eapply IHu; [exact H2|by apply G1|set_solver]|].
      eapply gate_ext; [by apply G2, G1|exact H|set_solver|done|].
      intros o [->|[->|[]%elem_of_nil]%elem_of_cons]%elem_of_cons.
      + eapply (resq_dom k st st1 st2); [exact S2|]. eapply Ra; [exact H1|exact G|set_solver].
      + eapply (resq_dom k st1 st2 st2); [done|]. eapply Ru; [exact H2|by apply G1|set_solver].
    - intros a IH st st' r H G Hid. simpl in H. by eapply IH.
    - intros x IHx a IHa st st' r H G Hid. simpl in H, Hid.
      apply rbind_ok in H as ([st1 r1] & H1 & H). simpl in H. apply rbind_ok in H as ([st2 r2] & H2 & H). simpl in H.
      destruct (Fx x _ _ _ H1) as [S1 G1]. destruct (Fa a _ _ _ H2) as [S2 G2]. cbn [fst snd] in *.
      eapply ext_trans; [eapply IHx; [exact H1|exact G|set_solver]|].
      case_bool_decide.
      + injection H as <- <-. eapply IHa; [exact H2|by apply G1|set_solver].
      + eapply ext_trans; [eapply IHa; [exact H2|by apply G1|set_solver]|].
        eapply gate_ext; [by apply G2, G1|exact H|set_solver|done|].
        intros o [->|[->|[]%elem_of_nil]%elem_of_cons]%elem_of_cons.
        * eapply (resq_dom k st st1 st2); [exact S2|]. eapply Rx; [exact H1|exact G|set_solver].
        * eapply (resq_dom k st1 st2 st2); [done|]. eapply Ra; [exact H2|by apply G1|set_solver].
    - intros x IHx a IHa st st' r H G Hid. simpl in H, Hid.
      apply rbind_ok in H as ([st1 r1] & H1 & H). simpl in H. apply rbind_ok in H as ([st2 r2] & H2 & H). simpl in H.
      destruct (Fx x _ _ _ H1) as [S1 G1]. destruct (Fa a _ _ _ H2) as [S2 G2]. cbn [fst snd] in *.
      eapply ext_trans; [eapply IHx; [exact H1|exact G|set_solver]|].
      case_bool_decide.
      + injection H as <- <-. eapply IHa; [exact H2|by apply G1|set_solver].
      + eapply ext_trans; [eapply IHa; [exact H2|by apply G1|set_solver]|].
        eapply gate_ext; [by apply G2, G1|exact H|set_solver|done|].
        intros o [->|[->|[]%elem_of_nil]%elem_of_cons]%elem_of_cons.
        * eapply (resq_dom k st st1 st2); [exact S2|]. eapply Rx; [exact H1|exact G|set_solver].
        * eapply (resq_dom k st1 st2 st2); [done|]. eapply Ra; [exact H2|by apply G1|set_solver].
    - intros x IH st st' r H G Hid. simpl in H. by eapply IH.
    - intros o IHo x IHx st st' r H G Hid. simpl in H, Hid.
      apply rbind_ok in H as ([st1 r1] & H1 & H). simpl in H. apply rbind_ok in H as ([st2 r2] & H2 & H). simpl in H.
      destruct (Fo o _ _ _ H1) as [S1 G1]. destruct (Fx x _ _ _ H2) as [S2 G2]. cbn [fst snd] in *.
      eapply ext_trans; [eapply IHo; [exact H1|exact G|set_solver]|]. eapply ext_trans; [eapply IHx; [exact H2|by apply G1|set_solver]|].
      eapply gate_ext; [by apply G2, G1|exact H|set_solver|done|].
      intros o' [->|[->|[]%elem_of_nil]%elem_of_cons]%elem_of_cons.
      + eapply (resq_dom k st st1 st2); [exact S2|]. eapply Ro; [exact H1|exact G|set_solver].
      + eapply (resq_dom k st1 st2 st2); [done|]. eapply Rx; [exact H2|by apply G1|set_solver].
  Qed.
  Theorem ext_cond e st st' r : c_cond k st e = Ok (st', r) → gst k st → (list_to_set (ids_cond e) : gset string) ⊆ k_rsv k → ext k st st'.
  Proof.
    destruct ext_all as (_ & _ & _ & _ & Eo). destruct (result_all k) as (_ & _ & _ & _ & Ro). destruct (frg_levels k) as (_ & _ & _ & _ & Fo).
    destruct e as [o|s a b]; intros H G Hid.
    - simpl in H. by eapply Eo.
    - unfold c_cond in H. simpl in Hid.
      apply mbind_ok in H as ([st1 r1] & H1 & H). apply mbind_ok in H as ([st2 r2] & H2 & H).
      apply mbind_ok in H as ([st3 r3] & H3 & H). cbn [fst snd] in H.
      apply mbind_ok in H as ([gn n] & Hn & H). apply mbind_ok in H as ([ga0 a0] & Ha0 & H).
      apply mbind_ok in H as ([ga1 a1] & Ha1 & H). cbn [fst snd] in *.
      destruct (Fo s _ _ _ H1) as [S1 G1]. destruct (Fo a _ _ _ H2) as [S2 G2]. destruct (Fo b _ _ _ H3) as [S3 G3].
      edestruct (frg_gate k) as [Sn Gn]; [| |exact Hn|]; [set_solver|done|].
      edestruct (frg_gate k) as [Sa0 Ga0]; [| |exact Ha0|]; [set_solver|done|].
      edestruct (frg_gate k) as [Sa1 Ga1]; [| |exact Ha1|]; [set_solver|done|]. cbn [fst snd] in *.
      assert (R1 : r1 ∈ k_rsv k ∨ r1 ∈ dom st3.1).
      { eapply (resq_dom k st st1 st3); [by etrans|]. eapply Ro; [exact H1|exact G|set_solver]. }
      assert (R2 : r2 ∈ k_rsv k ∨ r2 ∈ dom st3.1).
      { eapply (resq_dom k st1 st2 st3); [done|]. eapply Ro; [exact H2|by apply G1|set_solver]. }
      assert (R3 : r3 ∈ k_rsv k ∨ r3 ∈ dom st3.1).
      { eapply (resq_dom k st2 st3 st3); [done|]. eapply Ro; [exact H3|by apply G2, G1|set_solver]. }
      assert (Hup : ∀ (g g' : circuit) x, g ⊆ g' → x ∈ k_rsv k ∨ x ∈ dom g → x ∈ k_rsv k ∨ x ∈ dom g').
      { intros g g' x Hs [?|Hd]; [by left|right]. by apply (subseteq_dom _ _ Hs). }
      eapply ext_trans; [eapply Eo; [exact H1|exact G|set_solver]|].
      eapply ext_trans; [eapply Eo; [exact H2|by apply G1|set_solver]|].
      eapply ext_trans; [eapply Eo; [exact H3|by apply G2, G1|set_solver]|].
      eapply ext_trans; [eapply gate_ext; [by apply G3, G2, G1|exact Hn|set_solver|done|]|].
      { intros o ->%elem_of_list_singleton. done. }
      eapply ext_trans; [eapply gate_ext; [by apply Gn, G3, G2, G1|exact Ha0|set_solver|done|]|].
      { intros o [->|[->|[]%elem_of_nil]%elem_of_cons]%elem_of_cons; [right; by eapply gate_res_dom|by eapply Hup]. }
      eapply ext_trans; [eapply gate_ext; [by apply Ga0, Gn, G3, G2, G1|exact Ha1|set_solver|done|]|].
      { intros o [->|[->|[]%elem_of_nil]%elem_of_cons]%elem_of_cons; (eapply Hup; [exact Sa0|]; eapply Hup; [exact Sn|done]). }
      eapply gate_ext; [by apply Ga1, Ga0, Gn, G3, G2, G1|exact H|set_solver|done|].
      intros o [->|[->|[]%elem_of_nil]%elem_of_cons]%elem_of_cons; right.
      + apply (subseteq_dom _ _ Sa1). by eapply gate_res_dom.
      + by eapply gate_res_dom.
  Qed.
End extend.


(* add_node on a name without driver: a consistent valuation that satisfies the new node stays consistent *)
Lemma add_node_conv k g n t fi g' nm w : add_node (k_rsv k) g n t fi false = Ok (g', nm) → undef_ok g n → consistent g w →
  node_ok w n (mk_node t false (list_to_set fi)) → consistent g' w.
Proof.
  intros H Hu Hw Hn. pose proof (add_node_shape k g n t fi g' nm H) as (Hl & Hx & _).
  assert (Hf0 : fanin g n = ∅). { unfold fanin. destruct (g !! n) as [j|] eqn:Ej; [|done]. simpl. by destruct (Hu j Ej). }
  intros x i Hi. destruct (decide (x = n)) as [->|Hne].
  - rewrite Hl, Hf0 in Hi. injection Hi as <-. replace (∅ ∪ list_to_set fi : gset string) with (list_to_set fi : gset string) by set_solver. done.
  - destruct (Hx x Hne) as [E|(_ & _ & E)]; [apply Hw; by rewrite <- E|]. rewrite E in Hi. injection Hi as <-. done.
Qed.

Lemma c_assign_conv k st lv e st' : ties k ## k_rsv k → c_assign k st (lv, e) = Ok st' → gst k st → ties_ok k st.1 →
  (list_to_set (ids_cond e) : gset string) ⊆ k_rsv k → lv ∈ k_rsv k → undef_ok st.1 lv →
  ∀ w, consistent st.1 w → w lv = sem_cond w (w (k_tx k)) e →
  ∃ w', consistent st'.1 w' ∧ ∀ s, s ∈ dom st.1 ∨ s ∈ k_rsv k → w' s = w s.
Proof.
  intros Htr H G Ht Hid Hlv Hu w Hw Heq.
  assert (Hlvt : lv ∉ [k_t0 k; k_t1 k; k_tx k]).
  { intros Hin. apply (Htr lv); [|done]. unfold ties. set_solver. }
  unfold c_assign in H; simpl in H; apply mbind_ok in H as ([st1 r] & H1 & H2); simpl in H2.
  destruct (frg_cond _ _ _ _ _ H1) as [Hs G1]; specialize (G1 G); pose proof (fr2_cond _ _ _ _ _ H1) as F2.
  pose proof (fr2_undef _ _ _ lv F2 Hlv Hu) as Hu1.
  destruct (ext_cond k e st st1 r H1 G Hid) as [_ Hext]. destruct (Hext w Hw) as (w1 & C1 & A1).
  destruct (compile_cond_ok e k st st1 r H1) as [_ Hval].
  assert (Htx : k_tx k ∈ dom st.1). { destruct G as (_ & Hti & _). apply Hti. unfold ties. set_solver. }
  assert (Hr : w1 r = w1 lv).
  { rewrite (Hval w1 Ht C1). rewrite (A1 lv) by (by right). rewrite Heq. rewrite (A1 (k_tx k)) by (by left).
    apply sem_cond_ext. intros s Hs'. apply A1. right. apply Hid. by apply elem_of_list_to_set. }
  exists w1. split; [|done].
  unfold assignment in H2; rewrite bool_decide_eq_false_2 in H2 by done. case_bool_decide as Hrg.
  - injection H2 as <-; simpl.
    destruct (result_cond _ _ _ _ _ H1 G Hid) as [_ HB]; destruct (HB Hrg) as (Hrn & t & fi & Hl & Htt & Hfi & Hrfi & Hnofo).
    assert (Hrr : r ∉ k_rsv k) by (destruct G1 as (_ & _ & _ & Hd); intros ?; by apply (Hd r)).
    assert (Hne : r ≠ lv) by (intros ->; done).
    assert (Hfl : fanin st1.1 lv = ∅) by (unfold fanin; destruct (st1.1 !! lv) as [i|] eqn:E; [simpl; by destruct (Hu1 i E)|done]).
    destruct (relabel_shape st1.1 r lv t fi Hl Hne Hrfi Hnofo Hfl) as (Slv & Sr & Sx).
    intros x i Hi. destruct (decide (x = lv)) as [->|Hxl].
    + rewrite Slv in Hi. injection Hi as <-. pose proof (C1 r _ Hl) as Hn. by eapply (node_ok_ext w1 w1 r lv).
    + destruct (decide (x = r)) as [->|Hxr]; [congruence|]. rewrite Sx in Hi by done. by apply C1.
  - apply mbind_ok in H2 as ([g' nm] & Ha & E); injection E as <-; simpl.
    eapply add_node_conv; [exact Ha|done|done|]. apply node_ok_gate; [unfold gate_types; set_solver|set_solver|]. rewrite gv1. simpl. rewrite <- Hr. by destruct (w1 r).
Qed.

Lemma prim_sel_type' k t rs : t ∈ gate_types → (prim_sel k t rs).1 ∈ gate_types.
Proof.
  intros Ht. unfold prim_sel. destruct (bool_decide (t = Xor) || bool_decide (t = Xnor)); [|done].
  destruct (parity_ops rs); [|done]. unfold gate_types. rewrite !elem_of_cons. tauto.
Qed.
Lemma prim_instance_conv k t g nm n rs g' : prim_instance k t g (nm, CPos (n :: rs)) = Ok g' → t ∈ gate_types → rs ≠ [] →
  (t = Buf ∨ t = Not → length rs = 1) → undef_ok g n → ties_ok k g →
  ∀ w, consistent g w → w n = prim_sem t (w <$> rs) → consistent g' w.
Proof.
  intros H Ht Hrs Hlen Hu Hti w Hw Heq. rewrite prim_instance_sel in H.
  apply mbind_ok in H as ([g1x nm'] & Ha & E). injection E as E. simpl in E. subst g1x.
  destruct (prim_sel_value k t rs w Ht Hrs Hlen) as [Hne Hval]; [by eapply tie0_val|by eapply tie1_val|].
  eapply add_node_conv; [exact Ha|done|done|]. apply node_ok_gate; [by apply prim_sel_type'| |by rewrite Hval].
  destruct (prim_sel k t rs).2; [done|set_solver].
Qed.

Section bbconv.
  Context (k : rctx).
  Hypothesis Htr : ties k ## k_rsv k.

  Lemma outs_fold_conv conns w l : ∀ g g1,
    rfold (λ g (o : string), match dict_get conns o with
                              | Some net => r ← add_node (k_rsv k) g net Buf [] false; Ok r.1
                              | None => Ok g end) g l = Ok g1 →
    (∀ o net, o ∈ l → dict_get conns o = Some net → undef_ok g net) → consistent g w → consistent g1 w.
  Proof.
    induction l as [|o l IH]; intros g g1 H Hn Hw; simpl in H; [by injection H as <-|].
    apply rbind_ok in H as (g' & Ha & Hb). destruct (dict_get conns o) as [net|] eqn:Eg.
    - apply mbind_ok in Ha as ([g'' nm] & Ha & E). injection E as <-. simpl in *.
      pose proof (Hn o net ltac:(by left) Eg) as Hu.
      pose proof (add_node_shape k g net Buf [] g'' nm Ha) as (Hl & Hx & _).
      assert (Hf0 : fanin g net = ∅). { unfold fanin. destruct (g !! net) as [j|] eqn:Ej; [|done]. simpl. by destruct (Hu j Ej). }
      assert (Hl' : g'' !! net = Some (mk_node Buf false ∅)). { rewrite Hl, Hf0. do 2 f_equal. set_solver. }
      eapply (IH g'' g1 Hb).
      + intros o' net' Ho' Hg'. destruct (decide (net' = net)) as [->|Hne]; [|eapply add_node_undef; [exact Ha|done|]; by apply (Hn o' net'); [right|]].
        intros i Hi. rewrite Hl' in Hi. by injection Hi as <-.
      + eapply add_node_conv; [exact Ha|done|done|done].
    - injection Ha as <-. eapply IH; [exact Hb| |done]. intros o' net' ? ?. apply (Hn o' net'); [by right|done].
  Qed.
  Lemma ph2_dom (l : list (string * string)) : ∀ g g2,
    rfold (λ g (kv : string * string), if bool_decide (kv.2 ∈ dom g) then Ok g else
             match add_g g kv.2 Buf [] [] af_default with (g', Done, _) => Ok g' | (_, Fail e, _) => Raise e end) g l = Ok g2 →
    ∀ kv, kv ∈ l → kv.2 ∈ dom g2.
  Proof.
    induction l as [|kv l IH]; intros g g2 H kv' Hin; simpl in H; [by apply elem_of_nil in Hin|].
    apply rbind_ok in H as (g' & Ha & Hb). destruct (ph2_fold _ _ _ Hb) as [S2 _].
    apply elem_of_cons in Hin as [->|Hin]; [|by eapply IH]. apply (subseteq_dom _ _ S2). case_bool_decide as Hd.
    - by injection Ha as <-.
    - destruct (add_g g kv.2 Buf [] [] af_default) as [[g'' o] nm] eqn:Eg. destruct o; [|discriminate]. injection Ha as <-.
      apply BlackboxProofs.add_pin_done in Eg as (_ & _ & ->). rewrite dom_insert. set_solver.
  Qed.
  Lemma pin_inj inst p q : pin inst p = pin inst q → p = q.
  Proof. unfold pin. intros H. apply (inj (String.append inst)) in H. by apply (inj (String.append ".")) in H. Qed.

  Lemma bb_instance_conv (NN : gset string) d gb ic gb' ge conns :
    bb_instance k d gb ic = Ok gb' → ic.2 = CNamed conns → NoDup conns.*1 → gst k (gb.1, ge) →
    (∀ kv, kv ∈ conns → kv.1 ∈ bb_out d → kv.1 ∉ bb_in d ∧ kv.2 ∈ k_rsv k ∧ undef_ok gb.1 kv.2) →
    (∀ p, p ∈ bb_in d ∪ bb_out d → pin ic.1 p ∉ NN) →
    ∀ w, consistent gb.1 w → ∃ w', consistent gb'.1 w' ∧ ∀ s, s ∈ NN ∨ s ∈ dom gb.1 → w' s = w s.
  Proof.
    unfold bb_instance. intros H E Hnd G Hout Hpin w Hw. rewrite E in H.
    apply mbind_ok in H as (g1 & H1 & H). apply mbind_ok in H as (g2 & H2 & H).
    destruct (add_blackbox _ _ _ _ _ _) as [C' o] eqn:Eb. destruct o; [|discriminate]. injection H as <-. simpl.
    destruct (outs_fold k Htr conns _ _ _ ge H1) as (G1 & _ & _ & _ & _ & O1); [|done|].
    { intros o net Ho Hg. apply dict_get_elem in Hg. apply elem_of_elements in Ho. destruct (Hout (o, net) Hg Ho) as (_ & ? & ?). done. }
    assert (C1 : consistent g1 w).
    { eapply outs_fold_conv; [exact H1| |done]. intros o net Ho Hg. apply dict_get_elem in Hg. apply elem_of_elements in Ho.
      by destruct (Hout (o, net) Hg Ho) as (_ & _ & ?). }
    destruct (ph2_fold _ _ _ H2) as [S2 N2]. pose proof (ph2_dom _ _ _ H2) as D2.
    destruct G1 as (Hcl1 & Hti1 & Htg & Hgr).
    assert (Hcl2 : closed g2).
    { intros x i f Hx Hf. destruct (g1 !! x) as [j|] eqn:Ej.
      - pose proof (lookup_weaken _ _ _ _ Ej S2). assert (j = i) as -> by congruence.
        eapply (subseteq_dom g1 g2 S2). by eapply Hcl1.
      - rewrite (N2 x i Hx Ej) in Hf. simpl in Hf. by apply elem_of_empty in Hf. }
    assert (C2 : consistent g2 w).
    { intros x i Hx. destruct (g1 !! x) as [j|] eqn:Ej.
      - pose proof (lookup_weaken _ _ _ _ Ej S2). assert (j = i) as -> by congruence. by apply C1.
      - by rewrite (N2 x i Hx Ej). }
    destruct (BlackboxProofs.add_blackbox_wf _ _ _ _ _ _ _ Eb) as (_ & Hfresh & Hkeys). simpl in Hfresh.
    assert (Hkp : ∀ kv : string * string, kv ∈ conns → kv.1 ∈ bb_in d ∪ bb_out d).
    { intros kv Hkv. specialize (Hkeys (kv.1, [kv.2])). simpl in Hkeys. apply elem_of_union. apply Hkeys.
      apply elem_of_list_fmap. exists kv. done. }
    assert (Hpd : ∀ kv : string * string, kv ∈ conns → pin ic.1 kv.1 ∉ dom g2).
    { intros kv Hkv. apply Hfresh. specialize (Hkp kv Hkv). apply elem_of_union in Hkp as [?|?]; apply elem_of_app; [left|right]; by apply elem_of_elements. }
    set (w' := λ s, match list_find (λ kv : string * string, s = pin ic.1 kv.1) conns with Some (_, kv) => w kv.2 | None => w s end).
    assert (Wn : ∀ s, (∀ kv : string * string, kv ∈ conns → s ≠ pin ic.1 kv.1) → w' s = w s).
    { intros s Hs. unfold w'. destruct (list_find _ conns) as [[j kv]|] eqn:Ef; [|done].
      apply list_find_Some in Ef as (Hj & Heq & _). exfalso. apply (Hs kv); [by eapply elem_of_list_lookup_2|done]. }
    assert (Wp : ∀ kv : string * string, kv ∈ conns → w' (pin ic.1 kv.1) = w kv.2).
    { intros kv Hkv. unfold w'. destruct (list_find _ conns) as [[j kv0]|] eqn:Ef.
      - apply list_find_Some in Ef as (Hj & Heq & _). apply pin_inj in Heq. apply elem_of_list_lookup_2 in Hj.
        assert (dict_get conns kv.1 = Some kv.2) as Hg1 by (apply dict_get_nodup; [done|by destruct kv]).
        assert (dict_get conns kv.1 = Some kv0.2) as Hg2 by (apply dict_get_nodup; [done|]; rewrite Heq; by destruct kv0). congruence.
      - apply list_find_None in Ef. rewrite Forall_forall in Ef. exfalso. by apply (Ef kv Hkv). }
    assert (Wd : ∀ s, s ∈ dom g2 → w' s = w s).
    { intros s Hs. apply Wn. intros kv Hkv ->. by apply (Hpd kv Hkv). }
    exists w'. split.
    - eapply (BlackboxProofs.add_blackbox_sem _ _ _ _ _ _ _ Eb); [apply list_to_set_elements_L|apply list_to_set_elements_L| |].
      + intros kv' net Hin Hni Hnet. pose proof (Hkeys kv' Hin) as Hor. apply elem_of_list_fmap in Hin as (kv & -> & Hkv). simpl in *.
        apply elem_of_list_singleton in Hnet as ->. destruct Hor as [?|Hko]; [done|].
        exists (mk_node Buf false ∅). split; [|split; [by left|done]]. eapply lookup_weaken; [|exact S2].
        eapply (O1 kv.1); [by apply elem_of_elements|]. apply dict_get_nodup; [done|]. by destruct kv.
      + split.
        * simpl. intros x i Hx. eapply (node_ok_ext w w' x x); [|intros f Hf|by apply C2].
          -- symmetry. apply Wd. apply elem_of_dom; eauto.
          -- symmetry. apply Wd. by eapply Hcl2.
        * apply Forall_fmap, Forall_forall. intros kv Hkv net. simpl. intros ->%elem_of_list_singleton.
          assert (Hq : w' (pin ic.1 kv.1) = w' kv.2) by (rewrite (Wp kv Hkv); symmetry; apply Wd; by apply D2).
          split; intros _; [done|by symmetry].
    - intros s [Hs|Hs].
      + apply Wn. intros kv Hkv ->. by apply (Hpin kv.1 (Hkp kv Hkv)).
      + apply Wd. apply (subseteq_dom _ _ S2). destruct (outs_fold k Htr conns _ _ _ ge H1) as ((_ & _) & _ & _ & _ & _ & _); [|done|].
        { intros o net Ho Hg. apply dict_get_elem in Hg. apply elem_of_elements in Ho. destruct (Hout (o, net) Hg Ho) as (_ & ? & ?). done. }
        (* dom gb.1 ⊆ dom g1: nodes are never removed *)
        clear -H1 Hs. revert H1 Hs. generalize (gb.1). generalize (elements (bb_out d)). intros l. induction l as [|o l IH]; intros g H Hs; simpl in H; [by injection H as <-|].
        apply rbind_ok in H as (g' & Ha & Hb). eapply IH; [exact Hb|]. destruct (dict_get conns o) as [net|]; [|by injection Ha as <-].
        apply mbind_ok in Ha as ([g'' nm] & Ha & E). injection E as <-. simpl.
        pose proof (add_node_shape k g net Buf [] g'' nm Ha) as (Hl & Hx & _). destruct (decide (s = net)) as [->|Hne]; [apply elem_of_dom; eauto|].
        apply elem_of_dom in Hs as [j Hj]. destruct (Hx s Hne) as [E|(E & _)]; [|congruence]. apply elem_of_dom. exists j. by rewrite E.
  Qed.
End bbconv.


(* expressions of a connection list *)
Definition conds_of (c : conns) : list cond :=
  match c with Positional ps => ps | Named ps => omap snd ps end.

Section conv.
  Context (k : rctx) (NN DD : gset string).
  Hypothesis Htr : ties k ## k_rsv k.
  Hypothesis HNN : NN ⊆ k_rsv k.

  Definition drv_ok2 (nd : string * driver) : Prop := nd.1 ∈ NN ∧ (list_to_set (dep_ids nd.2) : gset string) ⊆ NN.
  Lemma drv_ok2_ok nd : drv_ok2 nd → drv_ok k NN nd.
  Proof. intros [? ?]. split; [done|]. split; [by apply HNN|]. by etrans. Qed.
  Definition sat_list (P : list (string * driver)) (v : val) (x : bool) : Prop := ∀ n d, (n, d) ∈ P → v n = sem_driver v x d.
  (* dual invariant: every model of the equations processed so far is realised by a consistent valuation of the graph *)
  Definition cinv (P : list (string * driver)) (g : circuit) : Prop :=
    ∀ v x, sat_list P v x → ∃ w, consistent g w ∧ (∀ s, s ∈ NN → w s = v s) ∧ w (k_tx k) = x.
  Definition extN (g g' : circuit) (w : val) : Prop :=
    ∃ w', consistent g' w' ∧ (∀ s, s ∈ NN → w' s = w s) ∧ w' (k_tx k) = w (k_tx k).
  Lemma cinv_step P g g' n d : cinv P g → drv_ok2 (n, d) →
    (∀ w, consistent g w → w n = sem_driver w (w (k_tx k)) d → extN g g' w) → cinv (P ++ [(n, d)]) g'.
  Proof.
    intros Hc [Hn Hd] Hstep v x Hsat. destruct (Hc v x) as (w & C & A & X); [intros n' d' Hin; apply Hsat; set_solver|].
    destruct (Hstep w C) as (w' & C' & A' & X').
    { rewrite (A n Hn), X. rewrite (Hsat n d) by set_solver. apply sem_driver_ext. intros s Hs. symmetry. apply A. apply Hd. by apply elem_of_list_to_set. }
    exists w'. split; [done|]. split; [intros s Hs; by rewrite A', A|congruence].
  Qed.
  Lemma cinv_ext P g g' : cinv P g → (∀ w, consistent g w → extN g g' w) → cinv P g'.
  Proof.
    intros Hc Hstep v x Hsat. destruct (Hc v x Hsat) as (w & C & A & X). destruct (Hstep w C) as (w' & C' & A' & X').
    exists w'. split; [done|]. split; [intros s Hs; by rewrite A', A|congruence].
  Qed.
  Lemma cinv_add_dummies ws P g : cinv P g → cinv (P ++ (dummy <$> ws)) g.
  Proof. intros Hc v x Hsat. apply Hc. intros n d Hin. apply Hsat. set_solver. Qed.
  Lemma txdom g ge : gst k (g, ge) → k_tx k ∈ dom g.
  Proof. intros (_ & Hti & _). apply Hti. unfold ties. set_solver. Qed.

  Lemma assigns_cinv l : ∀ st st' P, rfold (c_assign k) st l = Ok st' → rinv k NN P st.1 st.2 → cinv P st.1 →
    Forall (λ a : string * cond, drv_ok2 (a.1, DAssign a.2)) l → NoDup (P.*1 ++ l.*1) →
    cinv (P ++ ((λ a : string * cond, (a.1, DAssign a.2)) <$> l)) st'.1.
  Proof.
    induction l as [|[lv e] l IH]; intros st st' P H Hi Hc Hok Hnd; simpl in H.
    - injection H as <-. simpl. by rewrite app_nil_r.
    - apply rbind_ok in H as (st1 & H1 & H2). inversion Hok as [|? ? Hd2 Hok']; subst. simpl in *.
      pose proof (drv_ok2_ok _ Hd2) as (HlvN & Hlv & Hide). simpl in *.
      pose proof Hi as [G T X U E N].
      assert (Hnp : lv ∉ P.*1). { apply NoDup_app in Hnd as (_ & Hd & _). intros Hin. apply (Hd lv Hin). by left. }
      assert (Gst : gst k st) by (by destruct st).
      assert (Hnd1 : NoDup (P.*1 ++ [lv])).
      { apply NoDup_app in Hnd as (N1 & N2 & N3). apply NoDup_app. split; [done|]. split; [|apply NoDup_singleton].
        intros y Hy ->%elem_of_list_singleton. done. }
      assert (Hi1 : rinv k NN (P ++ [(lv, DAssign e)]) st1.1 st1.2).
      { apply (assigns_rinv k NN Htr HNN [(lv, e)] st st1 P); [simpl; by rewrite H1|done|by constructor|done]. }
      assert (Hc1 : cinv (P ++ [(lv, DAssign e)]) st1.1).
      { eapply cinv_step; [exact Hc|exact Hd2|]. intros w Hw Heq.
        destruct (c_assign_conv k st lv e st1 Htr H1 Gst T Hide Hlv (U lv HlvN Hnp) w Hw Heq) as (w' & C' & A').
        exists w'. split; [done|]. split; [intros s Hs; apply A'; right; by apply HNN|]. apply A'. left. destruct st. by eapply txdom. }
      specialize (IH st1 st' _ H2 Hi1 Hc1 Hok'). rewrite <- app_assoc in IH. apply IH.
      rewrite fmap_app. simpl. rewrite <- app_assoc. simpl.
      apply NoDup_app in Hnd as (N1 & N2 & N3). apply NoDup_cons in N3 as [N3 N4].
      apply NoDup_app. split; [done|]. split.
      + intros y Hy [->|Hin]%elem_of_cons; [done|]. apply (N2 y Hy). by right.
      + by constructor.
  Qed.

  Lemma inputs_cinv ns : ∀ g g' ge P, rfold (λ g n, r ← add_node (k_rsv k) g n Input [] false; Ok r.1) g ns = Ok g' →
    rinv k NN P g ge → cinv P g → (∀ n, n ∈ ns → n ∈ NN ∧ n ∈ k_rsv k ∧ n ∉ P.*1) → cinv P g'.
  Proof.
    induction ns as [|n ns IH]; intros g g' ge P H Hi Hc Hns; simpl in H; [by injection H as <-|].
    apply rbind_ok in H as (g1 & H1 & H2). pose proof H1 as H1'. apply mbind_ok in H1 as ([g1' nm] & H1 & E). injection E as <-. simpl in *.
    destruct (Hns n) as (HnN & Hn & Hnp); [by left|]. pose proof Hi as [G T X U Eq N].
    eapply (IH g1' g' ge P H2); [| |intros; apply Hns; by right].
    - apply (inputs_rinv k NN Htr HNN [n] g g1' ge P); [simpl; by rewrite H1'|done|].
      intros n' ->%elem_of_list_singleton. done.
    - eapply cinv_ext; [exact Hc|]. intros w Hw. exists w. split; [|done]. eapply add_node_conv; [exact H1|by apply U|done|done].
  Qed.

  Definition prim_guard2 (t : gtype) (ic : string * conns) : Prop :=
    ∃ n ins, ic.2 = Positional (cid n :: ins) ∧ drv_ok2 (n, DPrim t ins) ∧ ins ≠ [] ∧ (t = Buf ∨ t = Not → length ins = 1).
  Lemma prim_guard2_ok t ic : prim_guard2 t ic → prim_guard k NN t ic.
  Proof. intros (n & ins & E & Hd & Hne & Hl). exists n, ins. split; [done|]. split; [by apply drv_ok2_ok|done]. Qed.

  Lemma prims_cinv t cl : ∀ insts g g' ge P, rfold (prim_instance k t) g cl = Ok g' → rinv k NN P g ge → cinv P g →
    Forall2 (cgood k g) insts cl → t ∈ gate_types → Forall (prim_guard2 t) insts →
    NoDup (P.*1 ++ (insts ≫= prim_drv t).*1) → cinv (P ++ (insts ≫= prim_drv t)) g'.
  Proof.
    induction cl as [|cc cl IH]; intros insts g g' ge P H Hi Hc HF Ht HG Hnd; simpl in H.
    - injection H as <-. inversion HF; subst. simpl. by rewrite app_nil_r.
    - inversion HF as [|ic ? insts' ? Hcg HF']; subst. pose proof Hcg as (n & ins & rs & E1 & E2 & Fo).
      inversion HG as [|? ? Hg2 HG']; subst. pose proof Hg2 as (n' & ins' & E1' & Hdrv & Hne & Har).
      rewrite E1 in E1'. injection E1' as <- <-.
      apply rbind_ok in H as (g1 & H1 & H2). destruct cc as [nm cc2]. simpl in E2. subst cc2.
      assert (Hdr : prim_drv t ic = [(n, DPrim t ins)]). { unfold prim_drv. by rewrite E1. }
      cbn [mbind list_bind] in Hnd |- *. fold (mbind (M:=list) (prim_drv t)) in Hnd |- *. rewrite Hdr in Hnd |- *.
      pose proof Hi as [G T X U Eq N]. pose proof (drv_ok2_ok _ Hdrv) as (HnN & Hn & Hids). simpl in *.
      assert (Hnp : n ∉ P.*1). { apply NoDup_app in Hnd as (_ & Hd & _). intros Hin. apply (Hd n Hin). simpl. by left. }
      pose proof (U n HnN Hnp) as Hun.
      assert (Hrs : rs ≠ []). { intros ->. inversion Fo; subst. done. }
      assert (Hcons : ∀ v, consistent g1 v → consistent g v).
      { intros v. rewrite prim_instance_sel in H1. apply mbind_ok in H1 as ([g1x nm'] & Ha & E). injection E as E. simpl in E. subst g1x.
        by eapply add_node_consistent. }
      assert (Hnd1 : NoDup (P.*1 ++ [n])).
      { apply NoDup_app in Hnd as (N1 & N2 & N3). apply NoDup_app. split; [done|]. split; [|apply NoDup_singleton].
        intros y Hy ->%elem_of_list_singleton. done. }
      assert (Hi1 : rinv k NN (P ++ [(n, DPrim t ins)]) g1 ge).
      { pose proof (prims_rinv k NN Htr HNN t [(nm, CPos (n :: rs))] [ic] g g1 ge P) as Hp. simpl in Hp. rewrite Hdr in Hp.
        apply Hp; [by rewrite H1|done|by constructor|done|constructor; [by apply prim_guard2_ok|constructor]|done]. }
      assert (Hc1 : cinv (P ++ [(n, DPrim t ins)]) g1).
      { eapply cinv_step; [exact Hc|exact Hdrv|]. intros w Hw Heq. exists w. split; [|done].
        eapply prim_instance_conv; [exact H1|done|done| |done|done|done|].
        - intros Hb. rewrite <- (Forall2_length _ _ _ Fo). by apply Har.
        - rewrite Heq. simpl. f_equal. symmetry. by apply (fmap_opsem k g). }
      specialize (IH insts' g1 g' ge _ H2 Hi1 Hc1 (cgood_mono _ _ _ _ _ Hcons HF') Ht HG').
      rewrite <- app_assoc in IH. apply IH. rewrite fmap_app. rewrite <- app_assoc. done.
  Qed.

  (* the compile phase of an instance statement extends every valuation *)
  Definition gext (st st' : cstate) : Prop := gst k st → gst k st' ∧ ext k st st'.
  Lemma gext_refl st : gext st st. Proof. intros G. split; [done|apply ext_refl]. Qed.
  Lemma gext_trans a b c : gext a b → gext b c → gext a c.
  Proof. intros H1 H2 G. destruct (H1 G) as [G1 E1]. destruct (H2 G1) as [G2 E2]. split; [done|by eapply ext_trans]. Qed.
  Lemma gext_cond e st st' r : (list_to_set (ids_cond e) : gset string) ⊆ k_rsv k → c_cond k st e = Ok (st', r) → gext st st'.
  Proof. intros Hid H G. split; [by apply (frg_cond _ _ _ _ _ H)|by eapply ext_cond]. Qed.
  Definition cids_ok (c : conns) : Prop := Forall (λ e, (list_to_set (ids_cond e) : gset string) ⊆ k_rsv k) (conds_of c).
  Lemma conns_gext c st st' cc : cids_ok c → c_conns k st c = Ok (st', cc) → gext st st'.
  Proof.
    unfold cids_ok. destruct c as [ps|ps]; intros Hok H; unfold c_conns in H; apply mbind_ok in H as ([st1 rs] & H1 & E); injection E as <- _; simpl in *.
    - clear cc. revert st st1 rs H1. induction ps as [|e ps IH]; intros st st1 rs H; simpl in H; [injection H as <- _; apply gext_refl|].
      inversion Hok as [|? ? He Hok']; subst.
      apply rbind_ok in H as ([s1 r1] & H1 & H). apply rbind_ok in H as ([s2 r2] & H2 & H). simpl in *. injection H as <- _.
      eapply gext_trans; [by eapply gext_cond|by eapply IH].
    - clear cc. revert st st1 rs H1. induction ps as [|p ps IH]; intros st st1 rs H; simpl in H; [injection H as <- _; apply gext_refl|].
      apply rbind_ok in H as ([s1 r1] & H1 & H). apply rbind_ok in H as ([s2 r2] & H2 & H). simpl in *. injection H as <- _.
      destruct p as [pn [e|]]; simpl in *.
      + inversion Hok as [|? ? He Hok']; subst. apply mbind_ok in H1 as ([s3 r3] & H3 & E). injection E as <- _.
        eapply gext_trans; [by eapply gext_cond|by eapply IH].
      + injection H1 as <- _. by eapply IH.
  Qed.
  Lemma insts_gext insts : ∀ st st' cl, Forall (λ ic : string * conns, cids_ok ic.2) insts → rmapS (inst_step k) st insts = Ok (st', cl) → gext st st'.
  Proof.
    induction insts as [|ic insts IH]; intros st st' cl HF H; simpl in H; [injection H as <- _; apply gext_refl|].
    inversion HF as [|? ? Hc HF']; subst.
    apply rbind_ok in H as ([st1 c1] & H1 & H). apply rbind_ok in H as ([st2 c2] & H2 & H). simpl in *. injection H as <- _.
    unfold inst_step in H1. apply mbind_ok in H1 as ([st1' cc] & H1 & E1). injection E1 as <- _.
    eapply gext_trans; [by eapply conns_gext|by eapply IH].
  Qed.
  Lemma compile_cinv insts st stc cl P : rmapS (inst_step k) st insts = Ok (stc, cl) → gst k st →
    Forall (λ ic : string * conns, cids_ok ic.2) insts → cinv P st.1 → cinv P stc.1.
  Proof.
    intros H G HF Hc. destruct (insts_gext insts st stc cl HF H G) as [_ [_ He]]. eapply cinv_ext; [exact Hc|].
    intros w Hw. destruct (He w Hw) as (w' & C' & A'). exists w'. split; [done|]. split; [intros s Hs; apply A'; right; by apply HNN|].
    apply A'. left. destruct st. by eapply txdom.
  Qed.

  Lemma bbs_cinv d cl : ∀ insts gb gb' ge P, rfold (bb_instance k d) gb cl = Ok gb' → rinv k NN P gb.1 ge → cinv P gb.1 →
    Forall2 (cbb_good NN d) insts cl → Forall (bb_guard NN d) insts → NoDup (P.*1 ++ (insts ≫= bb_defs d)) →
    cinv (P ++ (dummy <$> (insts ≫= bb_defs d))) gb'.1.
  Proof.
    induction cl as [|cc cl IH]; intros insts gb gb' ge P H Hi Hc HF HG Hnd; simpl in H.
    - injection H as <-. inversion HF; subst. simpl. by rewrite app_nil_r.
    - inversion HF as [|ic ? insts' ? Hgood HF']; subst. pose proof Hgood as (Enm & conns & Ec & Hcn & Hkv).
      inversion HG as [|? ? Hg HG']; subst. apply rbind_ok in H as (gb1 & H1 & H2).
      cbn [mbind list_bind] in Hnd |- *. fold (mbind (M:=list) (bb_defs d)) in Hnd |- *.
      pose proof Hi as [G T X U Eq N].
      assert (Hnd1 : NoDup (P.*1 ++ bb_defs d ic)).
      { rewrite app_assoc in Hnd. by apply NoDup_app in Hnd as (? & _ & _). }
      assert (Hi1 : rinv k NN (P ++ (dummy <$> bb_defs d ic)) gb1.1 ge).
      { pose proof (bbs_rinv k NN Htr HNN d [cc] [ic] gb gb1 ge P) as Hp. simpl in Hp. rewrite app_nil_r in Hp.
        apply Hp; [by rewrite H1|done|by constructor|by constructor|done]. }
      assert (Hc1 : cinv (P ++ (dummy <$> bb_defs d ic)) gb1.1).
      { apply cinv_add_dummies. eapply cinv_ext; [exact Hc|]. intros w Hw.
        destruct (bb_instance_conv k Htr NN d gb cc gb1 ge conns H1 Ec Hcn G) with (w := w) as (w' & C' & A'); [| |done|].
        { intros kv Hin Hout. destruct (Hkv kv Hin Hout) as (Hni & Hnn & Hdf). split; [done|]. split; [by apply HNN|].
          apply U; [done|]. apply NoDup_app in Hnd as (_ & Hd & _). intros Hp. apply (Hd _ Hp). apply elem_of_app. by left. }
        { destruct Hg as (_ & _ & _ & Hpin). by rewrite Enm. }
        exists w'. split; [done|]. split; [intros s Hs; apply A'; by left|]. apply A'. right. by eapply txdom. }
      specialize (IH insts' gb1 gb' ge _ H2 Hi1 Hc1 HF' HG'). rewrite fmap_app, app_assoc. apply IH.
      rewrite fmap_app, dummy_fst, <- app_assoc. done.
  Qed.

  (* guard of the converse: the identifiers of every statement are nets of the module *)
  Definition item_conv_ok (it : item) : Prop :=
    match it with
    | IAssign l => Forall (λ a : string * cond, drv_ok2 (a.1, DAssign a.2)) l
    | IInst mn insts =>
        Forall (λ ic : string * conns, cids_ok ic.2) insts ∧
        match prim_of_name mn with Some t => Forall (prim_guard2 t) insts | None => True end
    | _ => True end.

  Lemma c_item_cinv st it st' P : c_item k st it = Ok st' → rinv k NN P (r_g st) (r_ge st) → cinv P (r_g st) →
    item_den_ok2 k NN DD it → item_conv_ok it →
    NoDup (P.*1 ++ (xitem_drivers (k_bbs k) it).*1) → (list_to_set P.*1 : gset string) ⊆ DD →
    cinv (P ++ xitem_drivers (k_bbs k) it) (r_g st').
  Proof.
    destruct it as [ns|ns|ns|mn insts|l]; simpl; intros H Hi Hc Hok Hcv Hnd HDD.
    - apply mbind_ok in H as (g & H1 & H). injection H as <-. simpl. rewrite app_nil_r.
      eapply inputs_cinv; [exact H1|exact Hi|exact Hc|]. intros n Hn. destruct (Hok n Hn) as (? & ? & Hd). split; [done|]. split; [done|].
      intros Hin. apply Hd, HDD. by apply elem_of_list_to_set.
    - injection H as <-. by rewrite app_nil_r.
    - injection H as <-. by rewrite app_nil_r.
    - destruct Hcv as [Hci Hcv]. fold (inst_step k) in H. apply mbind_ok in H as ([stc cl] & H1 & H). cbn [fst snd] in H.
      pose proof Hi as [G T X U Eq N].
      destruct (insts_frame k (frg k) (frg_refl k) (frg_trans k) (frg_cond k) _ _ _ _ H1) as [Ss Gc]. specialize (Gc G). simpl in Ss.
      pose proof (insts_frame k (fr2 k) (fr2_refl k) (fr2_trans k) (fr2_cond k) _ _ _ _ H1) as F2.
      assert (Hic : rinv k NN P stc.1 stc.2).
      { eapply rinv_refine; [exact Hi|by apply refines_sub|by destruct stc|by eapply ties_mono| |].
        { destruct X as (i & Hx & Hc'). exists i. split; [|done]. by eapply lookup_weaken. }
        intros n Hn Hp Hu. eapply (fr2_undef k (r_g st, r_ge st) stc); [done|by apply HNN|done]. }
      assert (Hcc : cinv P stc.1) by (by eapply (compile_cinv insts (r_g st, r_ge st) stc cl P)).
      destruct (prim_of_name mn) as [t|] eqn:Ep.
      + apply mbind_ok in H as (g & H2 & H). injection H as <-. simpl.
        destruct Hok as (t' & Et & Ht & HG). injection Et as <-.
        assert (Hpos : Forall (λ ic : string * conns, ∃ n ins, ic.2 = Positional (cid n :: ins)) insts).
        { eapply Forall_impl; [exact HG|]. intros ic (n & ins & E & _). eauto. }
        destruct (insts_compile_prim k insts _ _ _ H1 T Hpos) as [_ Fc]. simpl in *.
        assert (Hd : insts ≫= inst_drivers mn = insts ≫= prim_drv t).
        { clear -Ep. induction insts as [|ic insts IH]; [done|]. cbn. rewrite IH. by rewrite (prim_drv_eq mn t ic Ep). }
        rewrite Hd in Hnd |- *. eapply (prims_cinv t cl insts stc.1 g stc.2 P); done.
      + destruct Hok as (d & Ed & HG). unfold find_bb in H. rewrite Ed in H.
        apply mbind_ok in H as (x & H2 & H). injection H as <-. simpl. rewrite dummy_fst in Hnd.
        rewrite (insts_defs_bb (k_bbs k) mn d insts Ep Ed) in Hnd |- *.
        eapply (bbs_cinv d cl insts (stc.1, r_bbs st) x stc.2 P); [exact H2|exact Hic|exact Hcc|by eapply insts_bbgood|done|done].
    - apply mbind_ok in H as (r & H1 & H). injection H as <-. simpl.
      assert (Hl1 : ((λ p : string * cond, (p.1, DAssign p.2)) <$> l).*1 = l.*1).
      { clear. induction l as [|a l IH]; [done|]. rewrite !fmap_cons. f_equal. exact IH. }
      rewrite Hl1 in Hnd. eapply (assigns_cinv l (r_g st, r_ge st) r P); [exact H1|exact Hi|exact Hc|exact Hcv|exact Hnd].
  Qed.

  Lemma items_cinv items : ∀ st st' P, rfold (c_item k) st items = Ok st' → rinv k NN P (r_g st) (r_ge st) → cinv P (r_g st) →
    Forall (item_den_ok2 k NN DD) items → Forall item_conv_ok items → NoDup (P.*1 ++ (items ≫= xitem_drivers (k_bbs k)).*1) →
    (list_to_set (P.*1 ++ (items ≫= xitem_drivers (k_bbs k)).*1) : gset string) ⊆ DD →
    cinv (P ++ (items ≫= xitem_drivers (k_bbs k))) (r_g st').
  Proof.
    induction items as [|it items IH]; intros st st' P H Hi Hc HF HV Hnd HDD; simpl in H.
    - injection H as <-. simpl. by rewrite app_nil_r.
    - inversion HF as [|? ? Hok HF']; subst. inversion HV as [|? ? Hcv HV']; subst. apply rbind_ok in H as (st1 & H1 & H2).
      cbn [mbind list_bind] in Hnd, HDD |- *. fold (mbind (M:=list) (xitem_drivers (k_bbs k))) in Hnd, HDD |- *.
      rewrite fmap_app in Hnd, HDD. rewrite app_assoc in Hnd.
      assert (Hnd1 : NoDup (P.*1 ++ (xitem_drivers (k_bbs k) it).*1)) by (by apply NoDup_app in Hnd as (? & _ & _)).
      assert (HDD1 : (list_to_set P.*1 : gset string) ⊆ DD) by set_solver.
      assert (Hi1 : rinv k NN (P ++ xitem_drivers (k_bbs k) it) (r_g st1) (r_ge st1)) by (by eapply c_item_rinv2).
      assert (Hc1 : cinv (P ++ xitem_drivers (k_bbs k) it) (r_g st1)) by (by eapply c_item_cinv).
      specialize (IH st1 st' _ H2 Hi1 Hc1 HF' HV'). rewrite <- app_assoc in IH. apply IH.
      + rewrite fmap_app. done.
      + rewrite fmap_app. set_solver.
  Qed.
End conv.


(* ------------------------------------------------------------------ module(): marks and unused constants, converse direction *)
Lemma set_output_consistent_conv g l g' v : set_output_g g l true = (g', Done) → consistent g v → consistent g' v.
Proof.
  intros H Hv. apply set_output_spec in H as [_ Hl]. intros x i Hi. rewrite Hl in Hi. destruct (g !! x) as [j|] eqn:Ej; [|discriminate].
  simpl in Hi. injection Hi as <-. case_bool_decide; [apply node_ok_set_out|]; by apply Hv.
Qed.
Lemma drop_consistent_conv (g : circuit) t v : consistent g v → consistent (drop_tie g t) v.
Proof.
  intros Hv. unfold drop_tie. case_bool_decide as Hfo; [|done].
  assert (Hno : ∀ x j, g !! x = Some j → t ∉ n_fi j).
  { intros x j Hj Hin. assert (x ∈ fanout g t) by (apply elem_of_fanout; eauto). set_solver. }
  intros x i Hi. destruct (decide (x = t)) as [->|Hx].
  - pose proof (remove_attr g t t) as Ha. rewrite bool_decide_eq_true_2 in Ha by done. rewrite Hi in Ha. discriminate.
  - rewrite remove_lookup in Hi by done. destruct (g !! x) as [j|] eqn:Ej; [|discriminate]. simpl in Hi. injection Hi as <-.
    rewrite upd_fi_id; [by apply Hv|]. specialize (Hno x j Ej). set_solver.
Qed.

Lemma init_cinv rsv bbs (NN : gset string) : NN ⊆ rsv → cinv (init_ctx rsv bbs).1 NN [] (init_ctx rsv bbs).2.
Proof.
  intros HNN v x _. pose proof (init_rinv rsv bbs) as Hk. cbv zeta in Hk. destruct Hk as (Er & _ & Htr & N01 & N0x & N1x & _).
  revert Er Htr N01 N0x N1x. unfold init_ctx. cbv zeta. simpl.
  set (t0 := uid_in rsv "tie_0"). set (g0 := ({[t0 := mk_node C0 false ∅]} : circuit)).
  set (t1 := uid_in (dom g0 ∪ rsv) "tie_1"). set (g1 := <[t1 := mk_node C1 false ∅]> g0).
  set (tx := uid_in (dom g1 ∪ rsv) "tie_x"). intros _ Htr N01 N0x N1x.
  exists (λ s, if bool_decide (s = t0) then false else if bool_decide (s = t1) then true else if bool_decide (s = tx) then x else v s).
  split; [|split].
  - intros n i Hn. apply lookup_insert_Some in Hn as [[<- <-]|[_ Hn]]; [done|].
    unfold g1 in Hn. apply lookup_insert_Some in Hn as [[<- <-]|[_ Hn]].
    { unfold node_ok. simpl. rewrite bool_decide_eq_false_2 by done. by rewrite bool_decide_eq_true_2. }
    unfold g0 in Hn. apply lookup_singleton_Some in Hn as [<- <-]. unfold node_ok. simpl. by rewrite bool_decide_eq_true_2.
  - intros s Hs. assert (Hsr : s ∈ rsv) by (by apply HNN).
    rewrite !bool_decide_eq_false_2; [done| | |]; intros ->; (eapply Htr; [|exact Hsr]); unfold ties; simpl; set_solver.
  - rewrite !bool_decide_eq_false_2 by done. by rewrite bool_decide_eq_true_2.
Qed.

Lemma xitem_drivers_cases bbs it nd : nd ∈ xitem_drivers bbs it → nd ∈ item_drivers it ∨ ∃ w, nd = dummy w.
Proof.
  destruct it as [| | |mn insts|]; try (by left). simpl. destruct (prim_of_name mn); [by left|].
  intros (w & -> & _)%elem_of_list_fmap. right. eauto.
Qed.

Theorem read_conv_items rsv bbs m C (NN : gset string) : NN ⊆ rsv →
  Forall (item_den_ok2 (init_ctx rsv bbs).1 NN (list_to_set (xdrivers bbs m).*1)) (m_items m) →
  Forall (item_conv_ok (init_ctx rsv bbs).1 NN) (m_items m) → NoDup (xdrivers bbs m).*1 →
  read rsv bbs m = Ok C → ∀ v x, sat_module m v x → ∃ w, consistent (c_g C) w ∧ ∀ s, s ∈ NN → w s = v s.
Proof.
  intros HNN Hok Hcv Hnd H v x Hsat. unfold read in H. pose proof (init_rinv rsv bbs) as Hk. cbv zeta in Hk.
  pose proof (init_cinv rsv bbs NN HNN) as Hc0.
  destruct (init_ctx rsv bbs) as [k g0]. simpl in Hk, Hok, Hcv, Hc0 |- *. destruct Hk as (Er & Eb & Htr & N01 & N0x & N1x & Hi0). subst rsv. subst bbs.
  specialize (Hi0 NN HNN).
  apply mbind_ok in H as (st & Hf & Hfin).
  eapply (items_cinv k NN _ Htr HNN (m_items m) _ st []) in Hf; [|exact Hi0|exact Hc0|exact Hok|exact Hcv|exact Hnd|done].
  simpl in Hf. fold (xdrivers (k_bbs k) m) in Hf.
  destruct (Hf v x) as (w & Cw & Aw & _).
  { intros n d Hin. apply elem_of_list_bind in Hin as (it & Hin & Hit). apply xitem_drivers_cases in Hin as [Hin|(w' & Ew)]; [|unfold dummy in Ew; injection Ew as -> ->; done].
    apply Hsat. apply elem_of_list_bind. eauto. }
  exists w. split; [|done].
  unfold finish in Hfin. repeat (case_bool_decide; simpl in Hfin; try discriminate).
  destruct (set_output_g (r_g st) (elements (r_outs st)) true) as [g' o] eqn:Es. destruct o; [|discriminate].
  injection Hfin as <-. simpl. fold (drop_tie g' (k_t0 k)). fold (drop_tie (drop_tie g' (k_t0 k)) (k_t1 k)).
  fold (drop_tie (drop_tie (drop_tie g' (k_t0 k)) (k_t1 k)) (k_tx k)).
  do 3 apply drop_consistent_conv. by eapply set_output_consistent_conv.
Qed.

(* ---- the guard of the converse from the boolean guard of the oracle ---- *)
Lemma in_subset_conv rsv bbs m : in_subset bbs m = true → (list_to_set (module_ids m) : gset string) ⊆ rsv →
  Forall (item_conv_ok (init_ctx rsv bbs).1 (list_to_set (module_nets m))) (m_items m).
Proof.
  intros Hs Hids. unfold in_subset in Hs. rewrite !andb_true_iff in Hs. destruct Hs as ((((((Hsh & _) & _) & _) & _) & _) & _).
  rewrite forallb_forall in Hsh.
  assert (Hitem : ∀ it s, it ∈ m_items m → s ∈ item_ids it → s ∈ rsv).
  { intros it s Hit Hs'. apply Hids. rewrite elem_of_list_to_set. unfold module_ids. right. apply elem_of_app. right.
    apply elem_of_list_bind. eauto. }
  assert (Hnet : ∀ it s, it ∈ m_items m → s ∈ item_nets it → s ∈ (list_to_set (module_nets m) : gset string)).
  { intros it s Hit Hs'. rewrite elem_of_list_to_set. unfold module_nets. apply elem_of_app. right. apply elem_of_list_bind. eauto. }
  apply Forall_forall. intros it Hit. pose proof (Hsh it (proj1 (elem_of_list_In _ _) Hit)) as Hs'.
  destruct it as [ns|ns|ns|mn insts|l]; simpl; try done.
  - split.
    + apply Forall_forall. intros ic Hic. unfold cids_ok. apply Forall_forall. intros e He s Hs''. apply elem_of_list_to_set in Hs''.
      apply (Hitem (IInst mn insts) s Hit). simpl. right. apply elem_of_list_bind. exists ic. split; [|done]. right.
      destruct ic as [iname [ps|ps]]; simpl in *.
      * apply elem_of_list_bind. eauto.
      * apply elem_of_list_omap in He as (p & Hp & Hp2). apply elem_of_list_bind. exists p. split; [|done]. right. by rewrite Hp2.
    + destruct (prim_of_name mn) as [t|] eqn:Et; [|done]. apply andb_true_iff in Hs' as [Hs' _]. rewrite forallb_forall in Hs'.
      apply Forall_forall. intros ic Hic.
      specialize (Hs' ic (proj1 (elem_of_list_In _ _) Hic)). unfold inst_ok in Hs'. rewrite Et in Hs'.
      destruct ic as [iname [[|o ins]|ps]]; simpl in Hs'; try discriminate. apply andb_true_iff in Hs' as [Ho Har].
      apply bool_decide_eq_true in Ho as [n En]. pose proof (as_id_cid _ _ En) as ->.
      assert (Hsub : ∀ s, s ∈ (cid n :: ins) ≫= ids_cond → s ∈ (list_to_set (module_nets m) : gset string)).
      { intros s Hs''. apply (Hnet (IInst mn insts) s Hit). simpl. apply elem_of_list_bind. exists (iname, Positional (cid n :: ins)). done. }
      exists n, ins. split; [done|]. split; [|split].
      * split; simpl.
        -- apply Hsub. cbn. by left.
        -- intros s Hs''. apply elem_of_list_to_set in Hs''. apply Hsub. cbn. by right.
      * destruct (bool_decide (t = Buf) || bool_decide (t = Not)); [|by apply negb_true_iff, bool_decide_eq_false in Har].
        apply bool_decide_eq_true in Har. intros ->. done.
      * intros Hbn. destruct (bool_decide (t = Buf) || bool_decide (t = Not)) eqn:Eb; [by apply bool_decide_eq_true in Har|].
        apply orb_false_iff in Eb as [E1 E2]. apply bool_decide_eq_false in E1, E2. by destruct Hbn.
  - apply Forall_forall. intros [lv e] Hin. split; simpl.
    + apply (Hnet (IAssign l) lv Hit). simpl. apply elem_of_list_bind. exists (lv, e). split; [by left|done].
    + intros s Hs''. apply elem_of_list_to_set in Hs''. apply (Hnet (IAssign l) s Hit). simpl. apply elem_of_list_bind. exists (lv, e). split; [by right|done].
Qed.
Lemma used_nets_nets m s : s ∈ used_nets m → s ∈ module_nets m.
Proof.
  unfold used_nets, module_nets. intros (it & Hs & Hit)%elem_of_list_bind. apply elem_of_app. right. apply elem_of_list_bind. exists it. split; [|done].
  destruct it; try done. by apply elem_of_nil in Hs. by apply elem_of_nil in Hs.
Qed.

(* the converse of read_denotes_sound: every model of the module (a valuation of the nets and a value of the unknown that
   satisfy all assignments and primitive instances) is the restriction of a consistent valuation of the circuit that was read *)
Theorem read_denotes_conv rsv bbs m C : in_subset bbs m = true → (list_to_set (module_ids m) : gset string) ⊆ rsv →
  read rsv bbs m = Ok C → ∀ v x, sat_module m v x → ∃ w, consistent (c_g C) w ∧ ∀ n, n ∈ used_nets m → w n = v n.
Proof.
  intros Hs Hids H v x Hsat. destruct (in_subset_den2 rsv bbs m Hs Hids) as (HNN & Hok & Hnd).
  pose proof (in_subset_conv rsv bbs m Hs Hids) as Hcv.
  destruct (read_conv_items rsv bbs m C _ HNN Hok Hcv Hnd H v x Hsat) as (w & Cw & Aw).
  exists w. split; [done|]. intros n Hn. apply Aw. apply elem_of_list_to_set. by apply used_nets_nets.
Qed.

Lemma read_name rsv bbs m C : read rsv bbs m = Ok C → c_name C = m_name m.
Proof.
  unfold read. destruct (init_ctx rsv bbs) as [k g0]. intros H. apply mbind_ok in H as (st & _ & Hfin).
  unfold finish in Hfin. repeat (case_bool_decide; simpl in Hfin; try discriminate).
  destruct (set_output_g (r_g st) (elements (r_outs st)) true) as [g' o]. destruct o; [|discriminate]. by injection Hfin as <-.
Qed.
(* read_denotes: on the declared nets, the consistent valuations of the circuit are exactly the models of the module *)
Theorem read_denotes rsv bbs m C : in_subset bbs m = true → (list_to_set (module_ids m) : gset string) ⊆ rsv → read rsv bbs m = Ok C →
  c_name C = m_name m ∧ inputs (c_g C) = list_to_set (decl_inputs m) ∧ outputs (c_g C) = list_to_set (decl_outputs m) ∧
  (∀ w, consistent (c_g C) w → ∃ x, sat_module m w x) ∧
  (∀ v x, sat_module m v x → ∃ w, consistent (c_g C) w ∧ ∀ n, n ∈ used_nets m → w n = v n).
Proof.
  intros Hs Hids H. split; [by eapply read_name|]. destruct (read_io rsv bbs m C Hs Hids H) as [Hi Ho]. split; [done|]. split; [done|].
  split; [by eapply read_denotes_sound|by eapply read_denotes_conv].
Qed.
