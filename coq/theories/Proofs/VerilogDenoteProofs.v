(* Proofs for C02, third part: per-step lemmas and the item fold for read_denotes. *)
From CG Require Import Verilog.ExprParse.
From stdpp Require Import strings gmap sets fin_sets pretty.
From CG Require Import Types Sem Fold Api Verilog.Ast Verilog.Read Verilog.Write Proofs.VerilogProofs Run.Run_C02 Proofs.VerilogReadProofs.
Open Scope string_scope.

(* ------------------------------------------------------------------ values of gates over operand lists *)
Definition xfold (v : string → bool) (l : list string) : bool := foldr xorb false (v <$> l).
Lemma xfold_split v x l : NoDup l → xfold v l = xorb (if bool_decide (x ∈ l) then v x else false) (xfold v (filter (λ y, y ≠ x) l)).
Proof.
  unfold xfold. induction 1 as [|y l Hy Hnd IH]; [done|]. rewrite fmap_cons. cbn [foldr]. destruct (decide (y = x)) as [->|Hne].
  - rewrite bool_decide_eq_true_2 by (by left). rewrite filter_cons_False by (intros ?; done).
    rewrite (filter_all (λ y, y ≠ x) l); [done|]. apply Forall_forall. intros z Hz ->. done.
  - rewrite filter_cons_True by done. rewrite fmap_cons. cbn [foldr]. rewrite IH.
    assert (bool_decide (x ∈ y :: l) = bool_decide (x ∈ l)) as ->.
    { apply bool_decide_ext. rewrite elem_of_cons. naive_solver. }
    generalize (if bool_decide (x ∈ l) then v x else false). intros a0. generalize (foldr xorb false (v <$> filter (λ y0, y0 ≠ x) l)). intros b0.
    destruct (v y), a0, b0; done.
Qed.
Lemma dedup_first_elem l x : x ∈ dedup_first l ↔ x ∈ l.
Proof.
  induction l as [|y l IH]; [done|]. simpl. rewrite !elem_of_cons, elem_of_list_filter, IH.
  destruct (decide (x = y)); naive_solver.
Qed.
Lemma dedup_first_nodup l : NoDup (dedup_first l).
Proof.
  induction l as [|y l IH]; simpl; [constructor|]. constructor; [|by apply NoDup_filter].
  rewrite elem_of_list_filter. naive_solver.
Qed.
Lemma count_cons_eq r x : count_occ_s (x :: r) x = S (count_occ_s r x).
Proof. unfold count_occ_s. by rewrite filter_cons_True. Qed.
Lemma count_cons_ne r x y : y ≠ x → count_occ_s (x :: r) y = count_occ_s r y.
Proof. intros H. unfold count_occ_s. rewrite filter_cons_False; [done|]. intros ->. done. Qed.
Lemma count_filter_ne l x y : y ≠ x → count_occ_s (filter (λ z, z ≠ x) l) y = count_occ_s l y.
Proof.
  intros H. induction l as [|z l IH]; [done|]. destruct (decide (z = x)) as [->|Hz].
  - rewrite filter_cons_False by (intros ?; done). by rewrite count_cons_ne.
  - rewrite filter_cons_True by done. destruct (decide (z = y)) as [->|Hzy].
    + by rewrite !count_cons_eq, IH.
    + by rewrite !count_cons_ne, IH.
Qed.
Lemma xfold_remove v x l :
  xfold v l = xorb (if Nat.odd (count_occ_s l x) then v x else false) (xfold v (filter (λ z, z ≠ x) l)).
Proof.
  unfold xfold. induction l as [|z l IH]; [done|]. rewrite fmap_cons. cbn [foldr]. destruct (decide (z = x)) as [->|Hz].
  - rewrite filter_cons_False by (intros ?; done). rewrite count_cons_eq, Nat.odd_succ, <- Nat.negb_odd. rewrite IH.
    generalize (foldr xorb false (v <$> filter (λ z, z ≠ x) l)). intros b0. destruct (Nat.odd _), (v x), b0; done.
  - rewrite filter_cons_True by done. rewrite fmap_cons. cbn [foldr]. rewrite count_cons_ne by done. rewrite IH.
    generalize (foldr xorb false (v <$> filter (λ z0, z0 ≠ x) l)). intros b0. destruct (Nat.odd _), (v x), (v z), b0; done.
Qed.
Lemma filter_ext_in {A} (P Q : A → Prop) `{∀ x, Decision (P x)} `{∀ x, Decision (Q x)} (l : list A) :
  (∀ x, x ∈ l → P x ↔ Q x) → filter P l = filter Q l.
Proof.
  induction l as [|x l IH]; intros Hx; [done|]. rewrite !filter_cons. rewrite IH by (intros; apply Hx; by right).
  destruct (decide (P x)) as [Hp|Hp], (decide (Q x)) as [Hq|Hq]; try done; exfalso; specialize (Hx x ltac:(by left)); tauto.
Qed.
Lemma parity_xfold_gen v d : NoDup d → ∀ l, (∀ x, x ∈ d ↔ x ∈ l) →
  xfold v (filter (λ f, Nat.odd (count_occ_s l f) = true) d) = xfold v l.
Proof.
  induction 1 as [|x d Hx Hnd IH]; intros l Hel.
  - destruct l as [|y l]; [done|]. exfalso. specialize (Hel y). rewrite elem_of_nil in Hel. apply Hel. by left.
  - rewrite (xfold_remove v x l). rewrite <- (IH (filter (λ z, z ≠ x) l)).
    + rewrite filter_cons. rewrite (filter_ext_in _ (λ f, Nat.odd (count_occ_s (filter (λ z, z ≠ x) l) f) = true) d).
      * destruct (decide (Nat.odd (count_occ_s l x) = true)) as [Ho|Ho].
        -- rewrite Ho. unfold xfold. rewrite fmap_cons. done.
        -- apply not_true_is_false in Ho. rewrite Ho.
           generalize (xfold v (filter (λ f : string, Nat.odd (count_occ_s (filter (λ z : string, z ≠ x) l) f) = true) d)).
           intros b0. by destruct b0.
      * intros y Hy. rewrite count_filter_ne; [done|]. intros ->. done.
    + intros y. rewrite elem_of_list_filter. split.
      * intros Hy. split; [intros ->; done|]. apply Hel. by right.
      * intros [Hne Hy]. apply Hel in Hy. apply elem_of_cons in Hy as [?|?]; done.
Qed.
(* equal operands of a parity gate cancel in pairs: the operands that survive have the same parity sum *)
Lemma parity_xfold v l : xfold v (parity_ops l) = xfold v l.
Proof. unfold parity_ops. apply parity_xfold_gen; [apply dedup_first_nodup|apply dedup_first_elem]. Qed.
Lemma parity_ops_nodup l : NoDup (parity_ops l).
Proof. unfold parity_ops. apply NoDup_filter, dedup_first_nodup. Qed.

Definition idem (t : gtype) : Prop := t = And ∨ t = Nand ∨ t = Or ∨ t = Nor.
Lemma g_op_idem t a : idem t → g_op t a a = a.
Proof. intros [->|[->|[->| ->]]]; by destruct a. Qed.
Lemma gfold_set_cons t v x (s : gset string) : idem t →
  gfold t (v <$> elements ({[x]} ∪ s)) = g_op t (v x) (gfold t (v <$> elements s)).
Proof.
  intros Hi. destruct (decide (x ∈ s)) as [Hin|Hout].
  - replace ({[x]} ∪ s) with s by set_solver. rewrite (gfold_split t v s x Hin). by rewrite g_op_assoc, g_op_idem.
  - rewrite (gfold_split t v ({[x]} ∪ s) x) by set_solver. replace (({[x]} ∪ s) ∖ {[x]}) with s by set_solver. done.
Qed.
Lemma gfold_list_idem t v l : idem t → gfold t (v <$> elements (list_to_set l : gset string)) = gfold t (v <$> l).
Proof.
  intros Hi. induction l as [|x l IH]; simpl; [by rewrite elements_empty|]. rewrite gfold_set_cons by done. by rewrite IH.
Qed.
Lemma gfold_list_nodup t v l : NoDup l → gfold t (v <$> elements (list_to_set l : gset string)) = gfold t (v <$> l).
Proof. intros H. apply gfold_perm, fmap_Permutation. by apply elements_list_to_set. Qed.
Lemma gfold_and l : gfold And l = forallb id l.
Proof. induction l as [|a l IH]; [done|]. unfold gfold in *. simpl in *. by rewrite IH. Qed.
Lemma gfold_or l : gfold Or l = existsb id l.
Proof. induction l as [|a l IH]; [done|]. unfold gfold in *. simpl in *. by rewrite IH. Qed.

(* the node type and operand list that module_instantiation chooses for a primitive *)
Definition prim_sel (k : rctx) (t : gtype) (rs : list string) : gtype * list string :=
  if bool_decide (t = Xor) || bool_decide (t = Xnor) then
    match parity_ops rs with
    | [] => (Buf, [if bool_decide (t = Xor) then k_t0 k else k_t1 k])
    | fi => (t, fi) end
  else (t, rs).
Lemma xorb_false_l b : xorb false b = b. Proof. by destruct b. Qed.
Lemma parity_val (iv : bool) rs v f fi : parity_ops rs = f :: fi →
  gate_val (if iv then Xnor else Xor) v (list_to_set (f :: fi)) = xorb iv (xfold v rs).
Proof.
  intros Ep. rewrite <- (parity_xfold v rs). pose proof (parity_ops_nodup rs) as Hnd. rewrite Ep in *. unfold gate_val.
  change (foldr (g_op (if iv then Xnor else Xor)) (g_unit (if iv then Xnor else Xor)) (v <$> elements (list_to_set (f :: fi))))
    with (gfold (if iv then Xnor else Xor) (v <$> elements (list_to_set (f :: fi) : gset string))).
  rewrite gfold_list_nodup by done. destruct iv; done.
Qed.
Lemma prim_sel_value k t rs v : t ∈ gate_types → rs ≠ [] → (t = Buf ∨ t = Not → length rs = 1) →
  v (k_t0 k) = false → v (k_t1 k) = true →
  (prim_sel k t rs).2 ≠ [] ∧ gate_val (prim_sel k t rs).1 v (list_to_set (prim_sel k t rs).2) = prim_sem t (v <$> rs).
Proof.
  intros Ht Hne Hlen H0 H1. unfold gate_types in Ht. rewrite !elem_of_cons, elem_of_nil in Ht. unfold prim_sel.
  destruct Ht as [->|[->|[->|[->|[->|[->|[->|[->|[]]]]]]]]];
    repeat (first [rewrite bool_decide_eq_true_2 by done | rewrite bool_decide_eq_false_2 by done]); cbn [orb fst snd].
  - (* Xor *) destruct (parity_ops rs) as [|f fi] eqn:Ep; cbn [fst snd].
    + split; [done|]. rewrite gv1, H0. unfold prim_sem. fold (xfold v rs). rewrite <- (parity_xfold v rs), Ep. done.
    + split; [done|]. rewrite (parity_val false rs v f fi Ep). apply xorb_false_l.
  - (* Xnor *) destruct (parity_ops rs) as [|f fi] eqn:Ep; cbn [fst snd].
    + split; [done|]. rewrite gv1, H1. unfold prim_sem. fold (xfold v rs). rewrite <- (parity_xfold v rs), Ep. done.
    + split; [done|]. rewrite (parity_val true rs v f fi Ep). unfold prim_sem, xfold. by destruct (foldr xorb false (v <$> rs)).
  - (* Buf *) destruct rs as [|r [|]]; try (specialize (Hlen ltac:(auto)); discriminate). split; [done|]. rewrite gv1. simpl. by destruct (v r).
  - (* Not *) destruct rs as [|r [|]]; try (specialize (Hlen ltac:(auto)); discriminate). split; [done|]. rewrite gv1. simpl. by destruct (v r).
  - (* Nor *) split; [done|]. unfold gate_val. change (foldr (g_op Nor) (g_unit Nor)) with (gfold Or). rewrite gfold_list_idem by (unfold idem; auto). by rewrite gfold_or.
  - (* Or *) split; [done|]. unfold gate_val. change (foldr (g_op Or) (g_unit Or)) with (gfold Or). rewrite gfold_list_idem by (unfold idem; auto). rewrite gfold_or. apply xorb_false_l.
  - (* And *) split; [done|]. unfold gate_val. change (foldr (g_op And) (g_unit And)) with (gfold And). rewrite gfold_list_idem by (unfold idem; auto). rewrite gfold_and. apply xorb_false_l.
  - (* Nand *) split; [done|]. unfold gate_val. change (foldr (g_op Nand) (g_unit Nand)) with (gfold And). rewrite gfold_list_idem by (unfold idem; auto). by rewrite gfold_and.
Qed.

(* ------------------------------------------------------------------ steps of the reader refine on the reserved names *)
Definition refines_rsv (k : rctx) (g g' : circuit) : Prop :=
  ∀ v, consistent g' v → ∃ v1, consistent g v1 ∧ (∀ s, s ∈ k_rsv k → v1 s = v s) ∧ v1 (k_tx k) = v (k_tx k).
Lemma refines_refl k g : refines_rsv k g g.
Proof. intros v Hv. exists v. done. Qed.
Lemma refines_trans k a b c : refines_rsv k a b → refines_rsv k b c → refines_rsv k a c.
Proof.
  intros H1 H2 v Hv. destruct (H2 v Hv) as (v1 & C1 & A1 & T1). destruct (H1 v1 C1) as (v2 & C2 & A2 & T2).
  exists v2. split; [done|]. split; [intros s Hs; rewrite A2, A1; done|congruence].
Qed.
Lemma refines_same k (g g' : circuit) : (∀ v, consistent g' v → consistent g v) → refines_rsv k g g'.
Proof. intros H v Hv. exists v. auto. Qed.
Lemma refines_sub k (g g' : circuit) : g ⊆ g' → refines_rsv k g g'.
Proof. intros Hs. apply refines_same. intros v. by apply consistent_mono. Qed.

(* a net without driver so far: absent, or a free node without fan-in (placeholder buffer, input) *)
Definition undef_ok (g : circuit) (n : string) : Prop := ∀ i, g !! n = Some i → n_fi i = ∅ ∧ is_free i = true.

Section define.
  Context (k : rctx).
  Hypothesis Htr : ties k ## k_rsv k.
  (* add_node on a reserved name that has no driver yet *)
  Lemma add_node_shape g n t fi g' nm : add_node (k_rsv k) g n t fi false = Ok (g', nm) →
    g' !! n = Some (mk_node t false (fanin g n ∪ list_to_set fi)) ∧
    (∀ x, x ≠ n → g' !! x = g !! x ∨ (g !! x = None ∧ x ∈ fi ∧ g' !! x = Some (mk_node Buf false ∅))) ∧
    (∀ x, x ∈ fi → x ∈ dom g').
  Proof.
    unfold add_node, lift. intros H. destruct (add_g g n t fi [] rd_flags) as [[g2 o] nm2] eqn:Ha. destruct o; [|discriminate].
    injection H as <- <-. pose proof (add_g_fi_dom _ _ _ _ _ _ _ Ha eq_refl) as Hd. apply add_g_gen in Ha as (_ & Hl & Hx); [|done].
    split; [done|]. split; [|done]. intros x Hx'. destruct (Hx x Hx') as [?|(? & ? & _ & ?)]; auto.
  Qed.
  Lemma add_node_consistent g n t fi g' nm v : add_node (k_rsv k) g n t fi false = Ok (g', nm) → undef_ok g n →
    consistent g' v → consistent g v.
  Proof.
    intros H Hu Hv. apply add_node_shape in H as (_ & Hx & _). intros x i Hi. destruct (decide (x = n)) as [->|Hne].
    - unfold node_ok. destruct (Hu i Hi) as [_ ->]. done.
    - destruct (Hx x Hne) as [E|(E & _)]; [|congruence]. apply Hv. by rewrite E.
  Qed.
  Lemma add_node_undef g n t fi g' nm m : add_node (k_rsv k) g n t fi false = Ok (g', nm) → m ≠ n → undef_ok g m → undef_ok g' m.
  Proof.
    intros H Hne Hu i Hi. apply add_node_shape in H as (_ & Hx & _). destruct (Hx m Hne) as [E|(_ & _ & E)].
    - apply Hu. by rewrite <- E.
    - rewrite E in Hi. injection Hi as <-. done.
  Qed.
  Lemma add_node_gst g ge n t fi g' nm : add_node (k_rsv k) g n t fi false = Ok (g', nm) → n ∈ k_rsv k →
    gst k (g, ge) → gst k (g', ge).
  Proof.
    intros H Hn (Hcl & Hti & Htg & Hgr). apply add_node_shape in H as (Hl & Hx & Hfd). simpl in *.
    assert (Hdom : ∀ x, x ∈ dom g → x ∈ dom g').
    { intros x Hd. destruct (decide (x = n)) as [->|Hne]; [apply elem_of_dom; eauto|].
      apply elem_of_dom in Hd as [j Hj]. destruct (Hx x Hne) as [E|(E & _)]; [|congruence]. apply elem_of_dom. exists j. by rewrite E. }
    unfold gst. simpl. split; [|split; [|done]].
    - intros x i f Hi Hf. destruct (decide (x = n)) as [Heq|Hne]; [subst x|].
      + rewrite Hl in Hi. injection Hi as <-. simpl in Hf. apply elem_of_union in Hf as [Hf|Hf].
        * apply Hdom. apply elem_of_fanin in Hf as (j & Hj & Hfj). by eapply Hcl.
        * apply Hfd. by apply elem_of_list_to_set in Hf.
      + destruct (Hx x Hne) as [E|(_ & _ & E)].
        * rewrite E in Hi. apply Hdom. by eapply Hcl.
        * rewrite E in Hi. injection Hi as <-. simpl in Hf. set_solver.
    - intros x Hxt. apply Hdom. by apply Hti.
  Qed.
  Lemma add_node_ties g n t fi g' nm : add_node (k_rsv k) g n t fi false = Ok (g', nm) → n ∈ k_rsv k → ties_ok k g → ties_ok k g'.
  Proof.
    intros H Hn [(i & H0 & T0) (j & H1 & T1)]. apply add_node_shape in H as (_ & Hx & _).
    assert (k_t0 k ≠ n) by (intros <-; apply (Htr (k_t0 k)); [unfold ties; set_solver|done]).
    assert (k_t1 k ≠ n) by (intros <-; apply (Htr (k_t1 k)); [unfold ties; set_solver|done]).
    split; [exists i|exists j]; (split; [|done]).
    - destruct (Hx (k_t0 k)) as [E|(E & _)]; [done| |congruence]. by rewrite E.
    - destruct (Hx (k_t1 k)) as [E|(E & _)]; [done| |congruence]. by rewrite E.
  Qed.
End define.

(* ---- expressions ---- *)
Lemma fr2_refl k st : fr2 k st st.
Proof. split; [done|]. intros x i Hx Hn. congruence. Qed.
Lemma fr2_trans k a b c : fr2 k a b → fr2 k b c → fr2 k a c.
Proof.
  intros [A1 A2] [B1 B2]. split; [by etrans|]. intros x i Hx Hn. destruct (b.1 !! x) as [j|] eqn:Eb.
  - pose proof (lookup_weaken _ _ _ _ Eb B1). assert (j = i) as -> by congruence. eauto.
  - eauto.
Qed.
Lemma fr2_gate k s prefix t items fi rem s' r' : t ∈ [Not; And; Or; Xor; Xnor] → fi ≠ [] →
  gate k s prefix t items fi rem = Ok (s', r') → fr2 k s s'.
Proof.
  intros Ht Hfi H. apply gate_spec in H as (Hs & Hl & Hnd & Hnr & Hnew & Hge); [|done]. split; [done|].
  intros x i Hx Hn. assert (Hd : x ∈ dom s'.1) by (apply elem_of_dom; eauto). destruct (Hnew x Hd) as [Hd'|[->|[_ Hb]]].
  - apply elem_of_dom in Hd' as [? ?]. congruence.
  - by left.
  - right. congruence.
Qed.
Lemma fr2_list k l st st' rs : rmapS (c_cond k) st l = Ok (st', rs) → fr2 k st st'.
Proof. apply (frame_list k (fr2 k) (fr2_refl k) (fr2_trans k) (fr2_gate k)). Qed.
Lemma frg_list k l st st' rs : rmapS (c_cond k) st l = Ok (st', rs) → frg k st st'.
Proof. apply (frame_list k (frg k) (frg_refl k) (frg_trans k) (frg_gate k)). Qed.
Lemma fr2_undef k st st' m : fr2 k st st' → m ∈ k_rsv k → undef_ok st.1 m → undef_ok st'.1 m.
Proof.
  intros [Hs Hnew] Hm Hu i Hi. destruct (st.1 !! m) as [j|] eqn:Ej.
  - pose proof (lookup_weaken _ _ _ _ Ej Hs). assert (j = i) as -> by congruence. by apply Hu.
  - destruct (Hnew m i Hi Ej) as [?| ->]; done.
Qed.

(* ---- the relabel step ---- *)
Lemma relabel_shape (g : circuit) r lv t fi : g !! r = Some (mk_node t false (list_to_set fi)) → r ≠ lv → r ∉ fi →
  (∀ x i, g !! x = Some i → r ∉ n_fi i) → fanin g lv = ∅ →
  relabel_g g r lv !! lv = Some (mk_node t false (list_to_set fi)) ∧ relabel_g g r lv !! r = None ∧
  ∀ x, x ≠ lv → x ≠ r → relabel_g g r lv !! x = g !! x.
Proof.
  intros Hl Hne Hrfi Hnofo Hfl.
  assert (Hsub : ∀ i, r ∉ n_fi i → upd_fi (λ s : gset string, if bool_decide (r ∈ s) then {[lv]} ∪ s ∖ {[r]} else s) i = i).
  { intros i Hi. apply upd_fi_id. by rewrite bool_decide_eq_false_2. }
  unfold relabel_g. rewrite Hl. rewrite bool_decide_eq_false_2 by done. split; [|split].
  - rewrite lookup_insert. f_equal. unfold mk_node. simpl. f_equal.
    rewrite bool_decide_eq_false_2 by (by rewrite elem_of_list_to_set).
    assert (fanin (upd_fi (λ s : gset string, if bool_decide (r ∈ s) then {[lv]} ∪ s ∖ {[r]} else s) <$> delete r g) lv = ∅) as ->; [|set_solver].
    unfold fanin. rewrite lookup_fmap, lookup_delete_ne by done. unfold fanin in Hfl. destruct (g !! lv) as [i|] eqn:E; [|done]. simpl in *.
    rewrite Hfl. by rewrite bool_decide_eq_false_2 by set_solver.
  - rewrite lookup_insert_ne by done. by rewrite lookup_fmap, lookup_delete.
  - intros x H1 H2. rewrite lookup_insert_ne by done. rewrite lookup_fmap, lookup_delete_ne by done.
    destruct (g !! x) as [i|] eqn:E; [|done]. simpl. f_equal. apply Hsub. by eapply Hnofo.
Qed.

Definition txok (k : rctx) (g : circuit) : Prop := ∃ i, g !! k_tx k = Some i ∧ n_ty i = CX.
Lemma add_node_keeps k g n t fi g' nm z : add_node (k_rsv k) g n t fi false = Ok (g', nm) → z ≠ n → z ∈ dom g → g' !! z = g !! z.
Proof.
  intros H Hz Hd. apply add_node_shape in H as (_ & Hx & _). destruct (Hx z Hz) as [E|(E & _)]; [done|].
  apply elem_of_dom in Hd as [? ?]. congruence.
Qed.

(* ---- one assignment: everything the fold needs ---- *)
Lemma c_assign_step k st lv e st' : ties k ## k_rsv k →
  c_assign k st (lv, e) = Ok st' → gst k st → ties_ok k st.1 → (list_to_set (ids_cond e) : gset string) ⊆ k_rsv k →
  lv ∈ k_rsv k → undef_ok st.1 lv →
  gst k st' ∧ ties_ok k st'.1 ∧ (∀ m, m ∈ k_rsv k → m ≠ lv → undef_ok st.1 m → undef_ok st'.1 m) ∧
  refines_rsv k st.1 st'.1 ∧ (∀ v, consistent st'.1 v → v lv = sem_cond v (v (k_tx k)) e).
Proof.
  intros Htr H G Ht Hid Hlv Hu.
  assert (Hlvt : lv ∉ [k_t0 k; k_t1 k; k_tx k]).
  { intros Hin. apply (Htr lv); [|done]. unfold ties. set_solver. }
  split; [|split; [|split; [|split]]].
  4: { intros v Hv. by eapply (assign_refines k st lv e st'). }
  4: { by eapply (assign_correct k st lv e st'). }
  all: unfold c_assign in H; simpl in H; apply mbind_ok in H as ([st1 r] & H1 & H2); simpl in H2.
  all: destruct (frg_cond _ _ _ _ _ H1) as [Hs G1]; specialize (G1 G); pose proof (fr2_cond _ _ _ _ _ H1) as F2.
  all: pose proof (fr2_undef _ _ _ lv F2 Hlv Hu) as Hu1.
  all: unfold assignment in H2; rewrite bool_decide_eq_false_2 in H2 by done.
  all: case_bool_decide as Hr.
  (* relabel cases first, then buffer cases, for each of the three goals *)
  all: try (injection H2 as <-; simpl;
            destruct (result_cond _ _ _ _ _ H1 G Hid) as [_ HB]; destruct (HB Hr) as (Hrn & t & fi & Hl & Htt & Hfi & Hrfi & Hnofo);
            assert (Hrr : r ∉ k_rsv k) by (destruct G1 as (_ & _ & _ & Hd); intros ?; by apply (Hd r));
            assert (Hne : r ≠ lv) by (intros ->; done);
            assert (Hfl : fanin st1.1 lv = ∅) by (unfold fanin; destruct (st1.1 !! lv) as [i|] eqn:E; [simpl; by destruct (Hu1 i E)|done]);
            destruct (relabel_shape st1.1 r lv t fi Hl Hne Hrfi Hnofo Hfl) as (Slv & Sr & Sx)).
  all: try (apply mbind_ok in H2 as ([g' nm] & Ha & E); injection E as <-; simpl).
  - (* gst, relabel *)
    destruct G1 as (Hcl & Hti & Htg & Hgr). unfold gst. simpl.
    assert (Hdom : ∀ f, f ∈ dom st1.1 → f ≠ r → f ∈ dom (relabel_g st1.1 r lv)).
    { intros f Hf Hfr. destruct (decide (f = lv)) as [->|Hfl']; [apply elem_of_dom; eauto|].
      apply elem_of_dom in Hf as [j Hj]. apply elem_of_dom. rewrite (Sx f Hfl' Hfr). eauto. }
    split; [|split; [|split]].
    + intros x i f Hi Hf. destruct (decide (x = lv)) as [Heq|Hxl]; [subst x|].
      * rewrite Slv in Hi. injection Hi as <-. simpl in Hf. apply elem_of_list_to_set in Hf.
        apply Hdom; [|intros ->; done]. eapply (Hcl r); [exact Hl|]. simpl. by apply elem_of_list_to_set.
      * destruct (decide (x = r)) as [Heq|Hxr]; [subst x; congruence|]. rewrite Sx in Hi by done.
        apply Hdom; [by eapply Hcl|]. intros ->. by eapply Hnofo.
    + intros x Hx. apply Hdom; [by apply Hti|]. intros ->. by apply (Htg r).
    + set_solver.
    + set_solver.
  - (* gst, buffer *) eapply add_node_gst; [exact Ha|done|]. by destruct st1.
  - (* ties_ok, relabel *)
    destruct (ties_mono _ _ _ Hs Ht) as [(i & H0 & T0) (j & H1' & T1)].
    destruct G1 as (_ & _ & Htg & _).
    split; [exists i|exists j]; (split; [|done]); rewrite Sx; try done.
    + intros <-. apply (Htr (k_t0 k)); [unfold ties; set_solver|done].
    + intros <-. apply (Htg (k_t0 k)); [unfold ties; set_solver|done].
    + intros <-. apply (Htr (k_t1 k)); [unfold ties; set_solver|done].
    + intros <-. apply (Htg (k_t1 k)); [unfold ties; set_solver|done].
  - (* ties_ok, buffer *) eapply add_node_ties; [done|exact Ha|done|]. by eapply ties_mono.
  - (* undef, relabel *) intros m Hm Hml Hum. pose proof (fr2_undef _ _ _ m F2 Hm Hum) as Hum1. intros i Hi.
    rewrite Sx in Hi; [by apply Hum1|done|]. intros ->. done.
  - (* undef, buffer *) intros m Hm Hml Hum. eapply add_node_undef; [exact Ha|done|]. by eapply fr2_undef.
Qed.

(* an assignment leaves the constant nodes alone *)
Lemma c_assign_keeps k st lv e st' z : ties k ## k_rsv k →
  c_assign k st (lv, e) = Ok st' → gst k st → (list_to_set (ids_cond e) : gset string) ⊆ k_rsv k →
  lv ∈ k_rsv k → undef_ok st.1 lv → z ∈ ties k → st'.1 !! z = st.1 !! z.
Proof.
  intros Htr H G Hid Hlv Hu Hz.
  assert (Hlvt : lv ∉ [k_t0 k; k_t1 k; k_tx k]).
  { intros Hin. apply (Htr lv); [|done]. unfold ties. set_solver. }
  assert (Hzl : z ≠ lv) by (intros ->; by apply (Htr lv)).
  unfold c_assign in H; simpl in H; apply mbind_ok in H as ([st1 r] & H1 & H2); simpl in H2.
  destruct (frg_cond _ _ _ _ _ H1) as [Hs G1]; specialize (G1 G); pose proof (fr2_cond _ _ _ _ _ H1) as F2.
  pose proof (fr2_undef _ _ _ lv F2 Hlv Hu) as Hu1.
  assert (Hz1 : st1.1 !! z = st.1 !! z).
  { destruct G as (_ & Hti & _). specialize (Hti z Hz). apply elem_of_dom in Hti as [j Hj]. rewrite Hj. by eapply lookup_weaken. }
  assert (Hzd : z ∈ dom st1.1). { destruct G1 as (_ & Hti & _). by apply Hti. }
  unfold assignment in H2; rewrite bool_decide_eq_false_2 in H2 by done.
  case_bool_decide as Hr.
  - injection H2 as <-; simpl.
    destruct (result_cond _ _ _ _ _ H1 G Hid) as [_ HB]; destruct (HB Hr) as (Hrn & t & fi & Hl & Htt & Hfi & Hrfi & Hnofo).
    assert (Hrr : r ∉ k_rsv k) by (destruct G1 as (_ & _ & _ & Hd); intros ?; by apply (Hd r)).
    assert (Hne : r ≠ lv) by (intros ->; done).
    assert (Hfl : fanin st1.1 lv = ∅) by (unfold fanin; destruct (st1.1 !! lv) as [i|] eqn:E; [simpl; by destruct (Hu1 i E)|done]).
    destruct (relabel_shape st1.1 r lv t fi Hl Hne Hrfi Hnofo Hfl) as (Slv & Sr & Sx).
    rewrite Sx; [done|done|]. intros ->. destruct G1 as (_ & _ & Htg & _). by apply (Htg r).
  - apply mbind_ok in H2 as ([g' nm] & Ha & E); injection E as <-; simpl.
    rewrite <- Hz1. by eapply add_node_keeps.
Qed.

(* ------------------------------------------------------------------ the invariant of the item fold *)
Lemma sem_driver_ext v v' x d : (∀ s, s ∈ dep_ids d → v s = v' s) → sem_driver v x d = sem_driver v' x d.
Proof.
  destruct d as [e|t ins]; simpl; intros H; [by apply sem_cond_ext|]. f_equal.
  induction ins as [|e ins IH]; [done|]. simpl in *. f_equal.
  - apply sem_cond_ext. intros s Hs. apply H. set_solver.
  - apply IH. intros s Hs. apply H. set_solver.
Qed.
(* NN: the net names of the module (a subset of the reserved names; pin names of blackbox instances are outside) *)
Definition drv_ok (k : rctx) (NN : gset string) (nd : string * driver) : Prop :=
  nd.1 ∈ NN ∧ nd.1 ∈ k_rsv k ∧ (list_to_set (dep_ids nd.2) : gset string) ⊆ k_rsv k.
(* P: the drivers processed so far *)
Record rinv (k : rctx) (NN : gset string) (P : list (string * driver)) (g : circuit) (ge : gset string) : Prop := mk_rinv {
  ri_gst : gst k (g, ge);
  ri_ties : ties_ok k g;
  ri_tx : txok k g;
  ri_undef : ∀ n, n ∈ NN → n ∉ P.*1 → undef_ok g n;
  ri_eq : ∀ n d, (n, d) ∈ P → ∀ v, consistent g v → v n = sem_driver v (v (k_tx k)) d;
  ri_names : Forall (drv_ok k NN) P }.

Lemma rinv_refine k NN P g ge g' ge' : rinv k NN P g ge → refines_rsv k g g' → gst k (g', ge') → ties_ok k g' → txok k g' →
  (∀ n, n ∈ NN → n ∉ P.*1 → undef_ok g n → undef_ok g' n) → rinv k NN P g' ge'.
Proof.
  intros [G T X U E N] Hr G' T' X' U'. split; try done.
  - intros n Hn Hp. apply U'; auto.
  - intros n d Hnd v Hv. destruct (Hr v Hv) as (v1 & C1 & A1 & X1). rewrite Forall_forall in N. destruct (N _ Hnd) as (_ & Hn & Hd). simpl in *.
    rewrite <- (A1 n Hn), <- X1. rewrite (E n d Hnd v1 C1). apply sem_driver_ext. intros s Hs. apply A1, Hd. by apply elem_of_list_to_set.
Qed.
Lemma rinv_add k NN P g ge n d : rinv k NN P g ge → drv_ok k NN (n, d) →
  (∀ v, consistent g v → v n = sem_driver v (v (k_tx k)) d) → rinv k NN (P ++ [(n, d)]) g ge.
Proof.
  intros [G T X U E N] Hd He. split; try done.
  - intros m Hm Hp. apply U; [done|]. rewrite fmap_app in Hp. set_solver.
  - intros m d' [Hin|Hin]%elem_of_app; [by apply E|]. apply elem_of_list_singleton in Hin. injection Hin as -> ->. done.
  - apply Forall_app. split; [done|]. by constructor.
Qed.

Lemma rinv_step k NN P g ge g' ge' n d : rinv k NN P g ge → refines_rsv k g g' → gst k (g', ge') → ties_ok k g' → txok k g' → drv_ok k NN (n, d) →
  (∀ v, consistent g' v → v n = sem_driver v (v (k_tx k)) d) →
  (∀ m, m ∈ NN → m ∉ P.*1 → m ≠ n → undef_ok g m → undef_ok g' m) → rinv k NN (P ++ [(n, d)]) g' ge'.
Proof.
  intros [G T X U E N] Hr G' T' X' Hd He U'. split; try done.
  - intros m Hm Hp. rewrite fmap_app in Hp. apply U'; [done|set_solver|set_solver|]. apply U; [done|set_solver].
  - intros m d' [Hin|Hin]%elem_of_app.
    + intros v Hv. destruct (Hr v Hv) as (v1 & C1 & A1 & X1). rewrite Forall_forall in N. destruct (N _ Hin) as (_ & Hn & Hdd). simpl in *.
      rewrite <- (A1 m Hn), <- X1. rewrite (E m d' Hin v1 C1). apply sem_driver_ext. intros s Hs. apply A1, Hdd. by apply elem_of_list_to_set.
    + apply elem_of_list_singleton in Hin. injection Hin as -> ->. done.
  - apply Forall_app. split; [done|]. by constructor.
Qed.

Section fold.
  Context (k : rctx) (NN : gset string).
  Hypothesis Htr : ties k ## k_rsv k.
  Hypothesis HNN : NN ⊆ k_rsv k.

  Lemma assigns_rinv l : ∀ st st' P, rfold (c_assign k) st l = Ok st' → rinv k NN P st.1 st.2 →
    Forall (λ a : string * cond, drv_ok k NN (a.1, DAssign a.2)) l → NoDup (P.*1 ++ l.*1) →
    rinv k NN (P ++ ((λ a : string * cond, (a.1, DAssign a.2)) <$> l)) st'.1 st'.2.
  Proof.
    induction l as [|[lv e] l IH]; intros st st' P H Hi Hok Hnd; simpl in H.
    - injection H as <-. simpl. by rewrite app_nil_r.
    - apply rbind_ok in H as (st1 & H1 & H2). inversion Hok as [|? ? (HlvN & Hlv & Hide) Hok']; subst. simpl in *.
      pose proof Hi as [G T X U E N].
      assert (Hnp : lv ∉ P.*1). { apply NoDup_app in Hnd as (_ & Hd & _). intros Hin. apply (Hd lv Hin). by left. }
      assert (Gst : gst k st) by (by destruct st).
      destruct (c_assign_step k st lv e st1 Htr H1 Gst T Hide Hlv (U lv HlvN Hnp)) as (G1 & T1 & U1 & R1 & E1).
      assert (X1 : txok k st1.1).
      { destruct X as (i & Hx & Hc). exists i. split; [|done]. rewrite <- Hx.
        eapply (c_assign_keeps k st lv e st1); try done; [by apply U|unfold ties; set_solver]. }
      assert (Hi1 : rinv k NN (P ++ [(lv, DAssign e)]) st1.1 st1.2).
      { eapply rinv_step; [exact Hi|exact R1|by destruct st1|done|exact X1|done|exact E1|]. intros m Hm Hp Hne Hu. apply U1; [by apply HNN|done|done]. }
      specialize (IH st1 st' _ H2 Hi1 Hok'). rewrite <- app_assoc in IH. apply IH.
      rewrite fmap_app. simpl. rewrite <- app_assoc. simpl.
      apply NoDup_app in Hnd as (N1 & N2 & N3). apply NoDup_cons in N3 as [N3 N4].
      apply NoDup_app. split; [done|]. split.
      + intros x Hx [->|Hin]%elem_of_cons; [done|]. apply (N2 x Hx). by right.
      + by constructor.
  Qed.

  Lemma inputs_rinv ns : ∀ g g' ge P, rfold (λ g n, r ← add_node (k_rsv k) g n Input [] false; Ok r.1) g ns = Ok g' →
    rinv k NN P g ge → (∀ n, n ∈ ns → n ∈ NN ∧ n ∈ k_rsv k ∧ n ∉ P.*1) → rinv k NN P g' ge.
  Proof.
    induction ns as [|n ns IH]; intros g g' ge P H Hi Hns; simpl in H; [by injection H as <-|].
    apply rbind_ok in H as (g1 & H1 & H2). apply mbind_ok in H1 as ([g1' nm] & H1 & E). injection E as <-. simpl in *.
    destruct (Hns n) as (HnN & Hn & Hnp); [by left|]. pose proof Hi as [G T X U Eq N].
    eapply IH; [exact H2| |intros; apply Hns; by right].
    eapply rinv_refine; [exact Hi| | | | |].
    - apply refines_same. intros v. eapply add_node_consistent; [exact H1|]. by apply U.
    - by eapply add_node_gst.
    - by eapply add_node_ties.
    - destruct X as (i & Hx & Hc). exists i. split; [|done]. rewrite <- Hx. eapply add_node_keeps; [exact H1| |].
      + intros <-. apply (Htr (k_tx k)); [unfold ties; set_solver|done].
      + apply elem_of_dom. eauto.
    - intros m Hm Hp Hu. destruct (decide (m = n)) as [->|Hne].
      + apply add_node_shape in H1 as (Hl & _). intros i Hi'. rewrite Hl in Hi'. injection Hi' as <-. simpl. split; [|done].
        assert (fanin g n = ∅) as ->; [|set_solver]. unfold fanin. destruct (g !! n) as [j|] eqn:Ej; [|done]. simpl. by destruct (Hu j Ej).
      + by eapply add_node_undef.
  Qed.

  (* ---- primitive instances ---- *)
  Definition opsem (g : circuit) (e : cond) (r : string) : Prop := ∀ v, consistent g v → v r = sem_cond v (v (k_tx k)) e.
  Lemma opsem_mono (g g' : circuit) l rs : (∀ v, consistent g' v → consistent g v) → Forall2 (opsem g) l rs → Forall2 (opsem g') l rs.
  Proof. intros Hc H. eapply Forall2_impl; [exact H|]. intros e r Ho v Hv. apply Ho. by apply Hc. Qed.
  Lemma compile_list l : ∀ st st' rs, rmapS (c_cond k) st l = Ok (st', rs) → ties_ok k st.1 →
    st.1 ⊆ st'.1 ∧ Forall2 (opsem st'.1) l rs.
  Proof.
    induction l as [|e l IH]; intros st st' rs H Ht; simpl in H.
    - injection H as <- <-. split; [done|constructor].
    - apply rbind_ok in H as ([st1 r1] & H1 & H). apply rbind_ok in H as ([st2 rs2] & H2 & H). simpl in *. injection H as <- <-.
      destruct (compile_cond_ok e k st st1 r1 H1) as [S1 V1]. destruct (IH _ _ _ H2 (ties_mono _ _ _ S1 Ht)) as [S2 F2].
      split; [by etrans|]. constructor; [|done]. intros v Hv. apply V1; [done|]. by eapply consistent_mono.
  Qed.
  Definition cgood (g : circuit) (ic : string * conns) (cc : string * cconns) : Prop :=
    ∃ n ins rs, ic.2 = Positional (cid n :: ins) ∧ cc.2 = CPos (n :: rs) ∧ Forall2 (opsem g) ins rs.
  Lemma cgood_mono (g g' : circuit) l cl : (∀ v, consistent g' v → consistent g v) → Forall2 (cgood g) l cl → Forall2 (cgood g') l cl.
  Proof.
    intros Hc H. eapply Forall2_impl; [exact H|]. intros ic cc (n & ins & rs & E1 & E2 & F). exists n, ins, rs. split; [done|]. split; [done|].
    by eapply opsem_mono.
  Qed.
  Lemma insts_compile_prim insts : ∀ st st' cl, rmapS (inst_step k) st insts = Ok (st', cl) → ties_ok k st.1 →
    Forall (λ ic : string * conns, ∃ n ins, ic.2 = Positional (cid n :: ins)) insts →
    st.1 ⊆ st'.1 ∧ Forall2 (cgood st'.1) insts cl.
  Proof.
    induction insts as [|ic insts IH]; intros st st' cl H Ht HF; simpl in H.
    - injection H as <- <-. split; [done|constructor].
    - inversion HF as [|? ? (n & ins & E) HF']; subst.
      apply rbind_ok in H as ([st1 c1] & H1 & H). apply rbind_ok in H as ([st2 c2] & H2 & H). simpl in *. injection H as <- <-.
      unfold inst_step in H1. apply mbind_ok in H1 as ([st1' cc] & H1 & E1). injection E1 as <- <-.
      rewrite E in H1. unfold c_conns in H1. apply mbind_ok in H1 as ([st1'' rs] & H1 & E1). injection E1 as <- <-.
      destruct (compile_list _ _ _ _ H1 Ht) as [S1 F1]. simpl in *.
      change (rmapS (c_cond k) st (cid n :: ins)) with
        (rbind (c_cond k st (cid n)) (λ x, rbind (rmapS (c_cond k) x.1 ins) (λ y, Ok (y.1, x.2 :: y.2)))) in H1.
      change (c_cond k st (cid n)) with (Ok (st, n) : res (cstate * string)) in H1. simpl in H1.
      apply rbind_ok in H1 as ([st3 rs3] & H3 & H4). injection H4 as <- <-.
      destruct (IH _ _ _ H2 (ties_mono _ _ _ S1 Ht) HF') as [S2 F2]. split; [by etrans|]. constructor; [|done].
      exists n, ins, rs3. split; [done|]. split; [done|]. inversion F1 as [|? ? ? ? _ F1']; subst.
      eapply opsem_mono; [|exact F1']. intros v. by apply consistent_mono.
  Qed.

  Lemma prim_instance_sel t g nm n rs : prim_instance k t g (nm, CPos (n :: rs)) =
    (r ← add_node (k_rsv k) g n (prim_sel k t rs).1 (prim_sel k t rs).2 false; Ok r.1).
  Proof.
    unfold prim_instance, prim_sel. simpl. destruct (bool_decide (t = Xor) || bool_decide (t = Xnor)); [|done].
    by destruct (parity_ops rs).
  Qed.
  Lemma node_val8 (c : circuit) v n t (s : gset string) : consistent c v → c !! n = Some (mk_node t false s) → s ≠ ∅ →
    t ∈ gate_types → v n = gate_val t v s.
  Proof.
    intros Hc Hn Hs Ht. specialize (Hc n _ Hn). unfold node_ok, is_free in Hc. simpl in Hc.
    unfold gate_types in Ht. rewrite !elem_of_cons, elem_of_nil in Ht.
    destruct Ht as [->|[->|[->|[->|[->|[->|[->|[->|[]]]]]]]]]; simpl in Hc; try done; by rewrite bool_decide_eq_false_2 in Hc.
  Qed.
  Lemma prim_sel_type t rs : t ∈ gate_types → (prim_sel k t rs).1 ∈ gate_types.
  Proof.
    intros Ht. unfold prim_sel. destruct (bool_decide (t = Xor) || bool_decide (t = Xnor)); [|done].
    destruct (parity_ops rs); [|done]. unfold gate_types. set_solver.
  Qed.
  Lemma prim_sel_ne t rs : rs ≠ [] → (prim_sel k t rs).2 ≠ [].
  Proof.
    intros Hne. unfold prim_sel. destruct (bool_decide (t = Xor) || bool_decide (t = Xnor)); [|done]. by destruct (parity_ops rs).
  Qed.
  Lemma fmap_opsem g ins rs v : Forall2 (opsem g) ins rs → consistent g v → v <$> rs = sem_cond v (v (k_tx k)) <$> ins.
  Proof. induction 1 as [|e r ins rs Ho _ IH]; intros Hv; [done|]. rewrite !fmap_cons. by rewrite (Ho v Hv), IH. Qed.

  (* what the guard says about one instance of primitive t *)
  Definition prim_guard (t : gtype) (ic : string * conns) : Prop :=
    ∃ n ins, ic.2 = Positional (cid n :: ins) ∧ drv_ok k NN (n, DPrim t ins) ∧ ins ≠ [] ∧ (t = Buf ∨ t = Not → length ins = 1).
  Definition prim_drv (t : gtype) (ic : string * conns) : list (string * driver) :=
    match ic.2 with Positional (o :: ins) => match as_id o with Some n => [(n, DPrim t ins)] | None => [] end | _ => [] end.

  Lemma prims_rinv t cl : ∀ insts g g' ge P, rfold (prim_instance k t) g cl = Ok g' → rinv k NN P g ge →
    Forall2 (cgood g) insts cl → t ∈ gate_types → Forall (prim_guard t) insts →
    NoDup (P.*1 ++ (insts ≫= prim_drv t).*1) → rinv k NN (P ++ (insts ≫= prim_drv t)) g' ge.
  Proof.
    induction cl as [|cc cl IH]; intros insts g g' ge P H Hi HF Ht HG Hnd; simpl in H.
    - injection H as <-. inversion HF; subst. simpl. by rewrite app_nil_r.
    - inversion HF as [|ic ? insts' ? (n & ins & rs & E1 & E2 & Fo) HF']; subst.
      inversion HG as [|? ? (n' & ins' & E1' & Hdrv & Hne & Har) HG']; subst.
      rewrite E1 in E1'. injection E1' as <- <-.
      apply rbind_ok in H as (g1 & H1 & H2). destruct cc as [nm cc2]. simpl in E2. subst cc2. rewrite prim_instance_sel in H1.
      apply mbind_ok in H1 as ([g1x nm'] & Ha & E). injection E as E. simpl in E. subst g1x. simpl in *.
      assert (Hdr : prim_drv t ic = [(n, DPrim t ins)]). { unfold prim_drv. by rewrite E1. }
      cbn [mbind list_bind] in Hnd |- *. fold (mbind (M:=list) (prim_drv t)) in Hnd |- *. rewrite Hdr in Hnd |- *.
      pose proof Hi as [G T X U Eq N]. destruct Hdrv as (HnN & Hn & Hids).
      assert (Hnp : n ∉ P.*1). { apply NoDup_app in Hnd as (_ & Hd & _). intros Hin. apply (Hd n Hin). simpl. by left. }
      pose proof (U n HnN Hnp) as Hun.
      assert (Hcons : ∀ v, consistent g1 v → consistent g v) by (intros v; by eapply add_node_consistent).
      assert (Hrs : rs ≠ []). { intros ->. inversion Fo; subst. done. }
      pose proof (prim_sel_ne t rs Hrs) as Hfi.
      assert (X1 : txok k g1).
      { destruct X as (i & Hx & Hc). exists i. split; [|done]. rewrite <- Hx. eapply add_node_keeps; [exact Ha| |].
        - intros <-. apply (Htr (k_tx k)); [unfold ties; set_solver|done].
        - apply elem_of_dom. eauto. }
      assert (Hi1 : rinv k NN (P ++ [(n, DPrim t ins)]) g1 ge).
      { eapply rinv_step; [exact Hi|by apply refines_same|by eapply add_node_gst|by eapply add_node_ties|exact X1|by split| |].
        - intros v Hv. pose proof Ha as Hsh. apply add_node_shape in Hsh as (Hl & _).
          assert (fanin g n = ∅) as Hf0. { unfold fanin. destruct (g !! n) as [j|] eqn:Ej; [|done]. simpl. by destruct (Hun j Ej). }
          rewrite Hf0 in Hl.
          assert (Ht1 : ties_ok k g1) by (by eapply add_node_ties).
          destruct (prim_sel_value k t rs v) as [_ Hval]; [done|done| |by eapply tie0_val|by eapply tie1_val|].
          { intros Hb. rewrite <- (Forall2_length _ _ _ Fo). by apply Har. }
          rewrite (node_val8 g1 v n _ _ Hv Hl); [| |by apply prim_sel_type].
          + replace (∅ ∪ list_to_set (prim_sel k t rs).2 : gset string) with (list_to_set (prim_sel k t rs).2 : gset string) by set_solver.
            rewrite Hval. simpl. f_equal. apply (fmap_opsem g); [done|by apply Hcons].
          + destruct (prim_sel k t rs).2; [done|set_solver].
        - intros m Hm Hp Hne' Hu. by eapply add_node_undef. }
      specialize (IH insts' g1 g' ge _ H2 Hi1 (cgood_mono _ _ _ _ Hcons HF') Ht HG').
      rewrite <- app_assoc in IH. apply IH. rewrite fmap_app. rewrite <- app_assoc. done.
  Qed.
End fold.

(* ------------------------------------------------------------------ the item fold, blackbox-free modules *)
Section items.
  Context (k : rctx) (NN DD : gset string).
  Hypothesis Htr : ties k ## k_rsv k.
  Hypothesis HNN : NN ⊆ k_rsv k.

  (* frames of the compile phase of an instance statement with positional connections *)
  Lemma insts_frame_pos (F : cstate → cstate → Prop) : (∀ s, F s s) → (∀ a b c, F a b → F b c → F a c) →
    (∀ l st st' rs, rmapS (c_cond k) st l = Ok (st', rs) → F st st') →
    ∀ insts st st' cl, rmapS (inst_step k) st insts = Ok (st', cl) →
    Forall (λ ic : string * conns, ∃ ps, ic.2 = Positional ps) insts → F st st'.
  Proof.
    intros Fr Ft Fl. induction insts as [|ic insts IH]; intros st st' cl H HF; simpl in H.
    - injection H as <- <-. apply Fr.
    - inversion HF as [|? ? (ps & E) HF']; subst.
      apply rbind_ok in H as ([st1 c1] & H1 & H). apply rbind_ok in H as ([st2 c2] & H2 & H). simpl in *. injection H as <- <-.
      unfold inst_step in H1. apply mbind_ok in H1 as ([st1' cc] & H1 & E1). injection E1 as <- <-.
      rewrite E in H1. unfold c_conns in H1. apply mbind_ok in H1 as ([st1'' rs] & H1 & E1). injection E1 as <- <-.
      eapply Ft; [by eapply Fl|by eapply IH].
  Qed.

  Definition item_den_ok (it : item) : Prop :=
    match it with
    | IInput ns => ∀ n, n ∈ ns → n ∈ NN ∧ n ∈ k_rsv k ∧ n ∉ DD
    | IAssign l => Forall (λ a : string * cond, drv_ok k NN (a.1, DAssign a.2)) l
    | IInst mn insts => ∃ t, prim_of_name mn = Some t ∧ t ∈ gate_types ∧ Forall (prim_guard k NN t) insts
    | _ => True end.
  Lemma prim_drv_eq mn t ic : prim_of_name mn = Some t → inst_drivers mn ic = prim_drv t ic.
  Proof. intros E. unfold inst_drivers, prim_drv. rewrite E. done. Qed.

  Lemma c_item_rinv st it st' P : c_item k st it = Ok st' → rinv k NN P (r_g st) (r_ge st) → item_den_ok it →
    NoDup (P.*1 ++ (item_drivers it).*1) → (list_to_set P.*1 : gset string) ⊆ DD →
    rinv k NN (P ++ item_drivers it) (r_g st') (r_ge st').
  Proof.
    destruct it as [ns|ns|ns|mn insts|l]; simpl; intros H Hi Hok Hnd HDD.
    - apply mbind_ok in H as (g & H1 & H). injection H as <-. simpl. rewrite app_nil_r.
      eapply inputs_rinv; [done|done|exact H1|exact Hi|]. intros n Hn. destruct (Hok n Hn) as (? & ? & Hd). split; [done|]. split; [done|]. intros Hin. apply Hd, HDD. by apply elem_of_list_to_set.
    - injection H as <-. by rewrite app_nil_r.
    - injection H as <-. by rewrite app_nil_r.
    - destruct Hok as (t & Ep & Ht & HG). rewrite Ep in H. fold (inst_step k) in H.
      apply mbind_ok in H as ([stc cl] & H1 & H). cbn [fst snd] in H. apply mbind_ok in H as (g & H2 & H). injection H as <-. simpl.
      assert (Hpos : Forall (λ ic : string * conns, ∃ n ins, ic.2 = Positional (cid n :: ins)) insts).
      { eapply Forall_impl; [exact HG|]. intros ic (n & ins & E & _). eauto. }
      assert (Hpos' : Forall (λ ic : string * conns, ∃ ps, ic.2 = Positional ps) insts).
      { eapply Forall_impl; [exact Hpos|]. intros ic (n & ins & E). eauto. }
      pose proof Hi as [G T X U Eq N].
      destruct (insts_compile_prim k insts _ _ _ H1 T Hpos) as [Ss Fc]. simpl in *.
      destruct (insts_frame_pos (frg k) (frg_refl k) (frg_trans k) (frg_list k) _ _ _ _ H1 Hpos') as [_ Gc]. specialize (Gc G).
      pose proof (insts_frame_pos (fr2 k) (fr2_refl k) (fr2_trans k) (fr2_list k) _ _ _ _ H1 Hpos') as F2.
      assert (Hic : rinv k NN P stc.1 stc.2).
      { eapply rinv_refine; [exact Hi|by apply refines_sub|by destruct stc|by eapply ties_mono| |].
        { destruct X as (i & Hx & Hc). exists i. split; [|done]. by eapply lookup_weaken. }
        intros n Hn Hp Hu. eapply (fr2_undef k (r_g st, r_ge st) stc); [done|by apply HNN|done]. }
      assert (Hd : insts ≫= inst_drivers mn = insts ≫= prim_drv t).
      { clear -Ep. induction insts as [|ic insts IH]; [done|]. cbn. rewrite IH. by rewrite (prim_drv_eq mn t ic Ep). }
      rewrite Hd in Hnd |- *. eapply (prims_rinv k NN Htr HNN t cl insts stc.1 g stc.2 P); done.
    - apply mbind_ok in H as (r & H1 & H). injection H as <-. simpl.
      assert (Hl1 : ((λ p : string * cond, (p.1, DAssign p.2)) <$> l).*1 = l.*1).
      { clear. induction l as [|a l IH]; [done|]. rewrite !fmap_cons. f_equal. exact IH. }
      rewrite Hl1 in Hnd. eapply (assigns_rinv k NN Htr HNN l (r_g st, r_ge st) r P); [exact H1|exact Hi|exact Hok|exact Hnd].
  Qed.

End items.

(* ------------------------------------------------------------------ module(): marks and unused constants do not change the function *)
Lemma node_ok_set_out v x b i : node_ok v x (set_out b i) ↔ node_ok v x i.
Proof. by destruct i. Qed.
Lemma set_output_consistent g l g' v : set_output_g g l true = (g', Done) → consistent g' v → consistent g v.
Proof.
  intros H Hv. apply set_output_spec in H as [_ Hl]. intros x i Hi. pose proof (Hv x) as Hx. rewrite Hl, Hi in Hx. simpl in Hx.
  specialize (Hx _ eq_refl). case_bool_decide; [by apply (node_ok_set_out v x true)|done].
Qed.
Lemma remove_lookup (g : circuit) t x : x ≠ t → remove_g g [t] !! x = upd_fi (λ fi, fi ∖ list_to_set [t]) <$> g !! x.
Proof.
  intros Hx. unfold remove_g. rewrite lookup_fmap. destruct (g !! x) as [i|] eqn:E.
  - rewrite (map_filter_lookup_Some_2 _ _ _ i); [done|done|]. simpl. set_solver.
  - rewrite map_filter_lookup_None_2; [done|by left].
Qed.
Lemma drop_lookup (g : circuit) t x i : x ≠ t → g !! x = Some i → ∃ i', drop_tie g t !! x = Some i' ∧ n_ty i' = n_ty i.
Proof.
  intros Hx Hi. unfold drop_tie. case_bool_decide; [|eauto]. rewrite remove_lookup, Hi by done. simpl. eauto.
Qed.
Definition const_val (i : ninfo) (d : bool) : bool := match n_ty i with C0 => false | C1 => true | _ => d end.
Lemma drop_consistent (g : circuit) t i v : g !! t = Some i → n_ty i ∈ [C0; C1; CX] → consistent (drop_tie g t) v →
  consistent g (λ x, if bool_decide (x = t) then const_val i (v t) else v x).
Proof.
  intros Hi Hty Hv. set (v1 := λ x, if bool_decide (x = t) then const_val i (v t) else v x).
  assert (Hv1 : ∀ x, x ≠ t → v1 x = v x) by (intros x Hx; unfold v1; by rewrite bool_decide_eq_false_2).
  assert (Hfree : is_free i = false ∨ n_ty i = CX).
  { rewrite !elem_of_cons, elem_of_nil in Hty. destruct Hty as [E|[E|[E|[]]]]; [left|left|right]; unfold is_free; rewrite E; done. }
  unfold drop_tie in Hv. case_bool_decide as Hfo.
  - (* removed: nothing reads t *)
    assert (Hno : ∀ x j, g !! x = Some j → t ∉ n_fi j).
    { intros x j Hj Hin. assert (x ∈ fanout g t) by (apply elem_of_fanout; eauto). set_solver. }
    intros x j Hj. destruct (decide (x = t)) as [->|Hx].
    + assert (j = i) as -> by congruence. unfold node_ok, v1. rewrite bool_decide_eq_true_2 by done. unfold const_val.
      rewrite !elem_of_cons, elem_of_nil in Hty. unfold is_free. destruct Hty as [E|[E|[E|[]]]]; rewrite E; done.
    + pose proof (Hv x) as Hx'. rewrite remove_lookup, Hj in Hx' by done.
      specialize (Hx' (upd_fi (λ fi : gset string, fi ∖ list_to_set [t]) j) eq_refl).
      assert (Hid : upd_fi (λ fi : gset string, fi ∖ list_to_set [t]) j = j).
      { apply upd_fi_id. specialize (Hno x j Hj). set_solver. }
      rewrite Hid in Hx'. eapply (node_ok_ext v v1 x x); [by rewrite Hv1| |by apply Hx'].
      intros f Hf. rewrite Hv1; [done|]. intros ->. by eapply Hno.
  - (* kept: v already gives t its constant *)
    assert (Heq : ∀ x, v1 x = v x).
    { intros x. destruct (decide (x = t)) as [->|Hx]; [|by apply Hv1]. unfold v1. rewrite bool_decide_eq_true_2 by done.
      pose proof (Hv t i Hi) as Hn. unfold node_ok, const_val in *. rewrite !elem_of_cons, elem_of_nil in Hty. unfold is_free in Hn.
      destruct Hty as [E|[E|[E|[]]]]; rewrite E in *; done. }
    intros x j Hj. eapply (node_ok_ext v v1 x x); [by rewrite Heq|intros; by rewrite Heq|by apply Hv].
Qed.
Lemma drop_refines k (g : circuit) t i : g !! t = Some i → n_ty i ∈ [C0; C1; CX] → t ∉ k_rsv k → (t = k_tx k → n_ty i = CX) →
  refines_rsv k g (drop_tie g t).
Proof.
  intros Hi Hty Hr Hx v Hv. eexists. split; [by eapply drop_consistent|]. split.
  - intros s Hs. rewrite bool_decide_eq_false_2; [done|]. intros ->. done.
  - case_bool_decide as E; [|done]. unfold const_val. rewrite (Hx (eq_sym E)). by rewrite E.
Qed.

(* ------------------------------------------------------------------ read_denotes, soundness, blackbox-free modules *)
Lemma init_rinv rsv bbs : let kg := init_ctx rsv bbs in
  k_rsv kg.1 = rsv ∧ k_bbs kg.1 = bbs ∧ ties kg.1 ## rsv ∧
  k_t0 kg.1 ≠ k_t1 kg.1 ∧ k_t0 kg.1 ≠ k_tx kg.1 ∧ k_t1 kg.1 ≠ k_tx kg.1 ∧ ∀ NN, NN ⊆ rsv → rinv kg.1 NN [] kg.2 ∅.
Proof.
  unfold init_ctx. cbv zeta. simpl.
  set (t0 := uid_in rsv "tie_0"). set (g0 := ({[t0 := mk_node C0 false ∅]} : circuit)).
  set (t1 := uid_in (dom g0 ∪ rsv) "tie_1"). set (g1 := <[t1 := mk_node C1 false ∅]> g0).
  set (tx := uid_in (dom g1 ∪ rsv) "tie_x").
  assert (H0 : t0 ∉ rsv) by apply uid_in_fresh.
  assert (H1 : t1 ∉ dom g0 ∪ rsv) by apply uid_in_fresh.
  assert (Hx : tx ∉ dom g1 ∪ rsv) by apply uid_in_fresh.
  assert (D0 : dom g0 = {[t0]}) by (unfold g0; by rewrite dom_singleton_L).
  assert (D1 : dom g1 = {[t1]} ∪ {[t0]}) by (unfold g1; rewrite dom_insert_L, D0; done).
  assert (N01 : t0 ≠ t1) by (intros E; apply H1; rewrite D0; set_solver).
  assert (N0x : t0 ≠ tx) by (intros E; apply Hx; rewrite D1; set_solver).
  assert (N1x : t1 ≠ tx) by (intros E; apply Hx; rewrite D1; set_solver).
  assert (L0 : <[tx := mk_node CX false ∅]> g1 !! t0 = Some (mk_node C0 false ∅)).
  { rewrite lookup_insert_ne by done. unfold g1. rewrite lookup_insert_ne by done. unfold g0. by rewrite lookup_singleton. }
  assert (L1 : <[tx := mk_node CX false ∅]> g1 !! t1 = Some (mk_node C1 false ∅)).
  { rewrite lookup_insert_ne by done. unfold g1. by rewrite lookup_insert. }
  assert (Lx : <[tx := mk_node CX false ∅]> g1 !! tx = Some (mk_node CX false ∅)) by (by rewrite lookup_insert).
  assert (Lo : ∀ n i, <[tx := mk_node CX false ∅]> g1 !! n = Some i → n ∈ ({[t0; t1; tx]} : gset string) ∧ n_fi i = ∅).
  { intros n i Hn. apply lookup_insert_Some in Hn as [[<- <-]|[_ Hn]].
    { split; [|done]. rewrite !elem_of_union, !elem_of_singleton. tauto. }
    unfold g1 in Hn. apply lookup_insert_Some in Hn as [[<- <-]|[_ Hn]].
    { split; [|done]. rewrite !elem_of_union, !elem_of_singleton. tauto. }
    unfold g0 in Hn. apply lookup_singleton_Some in Hn as [<- <-]. split; [|done]. rewrite !elem_of_union, !elem_of_singleton. tauto. }
  assert (Htr : ({[t0; t1; tx]} : gset string) ## rsv).
  { intros z Hz Hr. rewrite !elem_of_union, !elem_of_singleton in Hz. destruct Hz as [[->| ->]| ->]; [done| |].
    - apply H1. apply elem_of_union_r, Hr.
    - apply Hx. apply elem_of_union_r, Hr. }
  split; [done|]. split; [done|]. split; [exact Htr|]. split; [done|]. split; [done|]. split; [done|].
  intros NN HNN. split.
  - unfold gst, ties. simpl. split; [|split; [|split]].
    + intros n i f Hn Hf. destruct (Lo n i Hn) as [_ E]. rewrite E in Hf. by apply elem_of_empty in Hf.
    + intros x Hx'. apply elem_of_dom. rewrite !elem_of_union, !elem_of_singleton in Hx'. destruct Hx' as [[->| ->]| ->]; eauto.
    + intros z _ Hz. by apply elem_of_empty in Hz.
    + intros z Hz _. by apply elem_of_empty in Hz.
  - split; eexists; eauto.
  - eexists; eauto.
  - intros n Hn _ i Hi. destruct (Lo n i Hi) as [Hin _]. exfalso. apply (Htr n); [done|by apply HNN].
  - intros n d Hin. by apply elem_of_nil in Hin.
  - constructor.
Qed.

