(* Proofs for C02, third part: per-step lemmas and the item fold for read_denotes. *)
From CG Require Import Verilog.ExprParse.
From stdpp Require Import strings gmap sets fin_sets pretty.
From CG Require Import Types Sem Fold Api Verilog.Ast Verilog.Read Verilog.Write Proofs.VerilogProofs Run.Run_C02 Proofs.VerilogReadProofs.
Open Scope string_scope.

(* ------------------------------------------------------------------ values of gates over operand lists *)
Definition xfold (v : string → bool) (l : list string) : bool := foldr xorb false (v <$> l).
Lemma xfold_split v x l : NoDup l → xfold v l = xorb (if bool_decide (x ∈ l) then v x else false) (xfold v (filter (λ y, y ≠ x) l)).
Proof.
  unfold xfold. induction 1 as [|y l Hy Hnd IH]; [done|]. rewrite fmap_cons. cbn [foldr]. destruct (decide (y = x)) as [->|Hne].
  - rewrite bool_decide_eq_true_2 by (by left). rewrite filter_cons_False by (intros ?; done).
    rewrite (filter_all (λ y, y ≠ x) l); [done|]. apply Forall_forall. intros z Hz ->. done.
  - rewrite filter_cons_True by done. rewrite fmap_cons. cbn [foldr]. rewrite IH.
    assert (bool_decide (x ∈ y :: l) = bool_decide (x ∈ l)) as ->.
    { apply bool_decide_ext. rewrite elem_of_cons. naive_solver. }
    generalize (if bool_decide (x ∈ l) then v x else false). intros a0. generalize (foldr xorb false (v <$> filter (λ y0, y0 ≠ x) l)). intros b0.
    destruct (v y), a0, b0; done.
Qed.
Lemma dedup_first_elem l x : x ∈ dedup_first l ↔ x ∈ l.
Proof.
  induction l as [|y l IH]; [done|]. simpl. rewrite !elem_of_cons, elem_of_list_filter, IH.
  destruct (decide (x = y)); naive_solver.
Qed.
Lemma dedup_first_nodup l : NoDup (dedup_first l).
Proof.
  induction l as [|y l IH]; simpl; [constructor|]. constructor; [|by apply NoDup_filter].
  rewrite elem_of_list_filter. naive_solver.
Qed.
Lemma count_cons_eq r x : count_occ_s (x :: r) x = S (count_occ_s r x).
Proof. unfold count_occ_s. by rewrite filter_cons_True. Qed.
Lemma count_cons_ne r x y : y ≠ x → count_occ_s (x :: r) y = count_occ_s r y.
Proof. intros H. unfold count_occ_s. rewrite filter_cons_False; [done|]. intros ->. done. Qed.
Lemma count_filter_ne l x y : y ≠ x → count_occ_s (filter (λ z, z ≠ x) l) y = count_occ_s l y.
Proof.
  intros H. induction l as [|z l IH]; [done|]. destruct (decide (z = x)) as [->|Hz].
  - rewrite filter_cons_False by (intros ?; done). by rewrite count_cons_ne.
  - rewrite filter_cons_True by done. destruct (decide (z = y)) as [->|Hzy].
    + by rewrite !count_cons_eq, IH.
    + by rewrite !count_cons_ne, IH.
Qed.
Lemma xfold_remove v x l :
  xfold v l = xorb (if Nat.odd (count_occ_s l x) then v x else false) (xfold v (filter (λ z, z ≠ x) l)).
Proof.
  unfold xfold. induction l as [|z l IH]; [done|]. rewrite fmap_cons. cbn [foldr]. destruct (decide (z = x)) as [->|Hz].
  - rewrite filter_cons_False by (intros ?; done). rewrite count_cons_eq, Nat.odd_succ, <- Nat.negb_odd. rewrite IH.
    generalize (foldr xorb false (v <$> filter (λ z, z ≠ x) l)). intros b0. destruct (Nat.odd _), (v x), b0; done.
  - rewrite filter_cons_True by done. rewrite fmap_cons. cbn [foldr]. rewrite count_cons_ne by done. rewrite IH.
    generalize (foldr xorb false (v <$> filter (λ z0, z0 ≠ x) l)). intros b0. destruct (Nat.odd _), (v x), (v z), b0; done.
Qed.
Lemma filter_ext_in {A} (P Q : A → Prop) `{∀ x, Decision (P x)} `{∀ x, Decision (Q x)} (l : list A) :
  (∀ x, x ∈ l → P x ↔ Q x) → filter P l = filter Q l.
Proof.
  induction l as [|x l IH]; intros Hx; [done|]. rewrite !filter_cons. rewrite IH by (intros; apply Hx; by right).
  destruct (decide (P x)) as [Hp|Hp], (decide (Q x)) as [Hq|Hq]; try done; exfalso; specialize (Hx x ltac:(by left)); tauto.
Qed.
Lemma parity_xfold_gen v d : NoDup d → ∀ l, (∀ x, x ∈ d ↔ x ∈ l) →
  xfold v (filter (λ f, Nat.odd (count_occ_s l f) = true) d) = xfold v l.
Proof.
  induction 1 as [|x d Hx Hnd IH]; intros l Hel.
  - destruct l as [|y l]; [done|]. exfalso. specialize (Hel y). rewrite elem_of_nil in Hel. apply Hel. by left.
  - rewrite (xfold_remove v x l). rewrite <- (IH (filter (λ z, z ≠ x) l)).
    + rewrite filter_cons. rewrite (filter_ext_in _ (λ f, Nat.odd (count_occ_s (filter (λ z, z ≠ x) l) f) = true) d).
      * destruct (decide (Nat.odd (count_occ_s l x) = true)) as [Ho|Ho].
        -- rewrite Ho. unfold xfold. rewrite fmap_cons. done.
        -- apply not_true_is_false in Ho. rewrite Ho.
           generalize (xfold v (filter (λ f : string, Nat.odd (count_occ_s (filter (λ z : string, z ≠ x) l) f) = true) d)).
           intros b0. by destruct b0.
      * intros y Hy. rewrite count_filter_ne; [done|]. intros ->. done.
    + intros y. rewrite elem_of_list_filter. split.
      * intros Hy. split; [intros ->; done|]. apply Hel. by right.
      * intros [Hne Hy]. apply Hel in Hy. apply elem_of_cons in Hy as [?|?]; done.
Qed.
(* equal operands of a parity gate cancel in pairs: the operands that survive have the same parity sum *)
Lemma parity_xfold v l : xfold v (parity_ops l) = xfold v l.
Proof. unfold parity_ops. apply parity_xfold_gen; [apply dedup_first_nodup|apply dedup_first_elem]. Qed.
Lemma parity_ops_nodup l : NoDup (parity_ops l).
Proof. unfold parity_ops. apply NoDup_filter, dedup_first_nodup. Qed.

Definition idem (t : gtype) : Prop := t = And ∨ t = Nand ∨ t = Or ∨ t = Nor.
Lemma g_op_idem t a : idem t → g_op t a a = a.
Proof. intros [->|[->|[->| ->]]]; by destruct a. Qed.
Lemma gfold_set_cons t v x (s : gset string) : idem t →
  gfold t (v <$> elements ({[x]} ∪ s)) = g_op t (v x) (gfold t (v <$> elements s)).
Proof.
  intros Hi. destruct (decide (x ∈ s)) as [Hin|Hout].
  - replace ({[x]} ∪ s) with s by set_solver. rewrite (gfold_split t v s x Hin). by rewrite g_op_assoc, g_op_idem.
  - rewrite (gfold_split t v ({[x]} ∪ s) x) by set_solver. replace (({[x]} ∪ s) ∖ {[x]}) with s by set_solver. done.
Qed.
Lemma gfold_list_idem t v l : idem t → gfold t (v <$> elements (list_to_set l : gset string)) = gfold t (v <$> l).
Proof.
  intros Hi. induction l as [|x l IH]; simpl; [by rewrite elements_empty|]. rewrite gfold_set_cons by done. by rewrite IH.
Qed.
Lemma gfold_list_nodup t v l : NoDup l → gfold t (v <$> elements (list_to_set l : gset string)) = gfold t (v <$> l).
Proof. intros H. apply gfold_perm, fmap_Permutation. by apply elements_list_to_set. Qed.
Lemma gfold_and l : gfold And l = forallb id l.
Proof. induction l as [|a l IH]; [done|]. unfold gfold in *. simpl in *. by rewrite IH. Qed.
Lemma gfold_or l : gfold Or l = existsb id l.
Proof. induction l as [|a l IH]; [done|]. unfold gfold in *. simpl in *. by rewrite IH. Qed.

(* the node type and operand list that module_instantiation chooses for a primitive *)
Definition prim_sel (k : rctx) (t : gtype) (rs : list string) : gtype * list string :=
  if bool_decide (t = Xor) || bool_decide (t = Xnor) then
    match parity_ops rs with
    | [] => (Buf, [if bool_decide (t = Xor) then k_t0 k else k_t1 k])
    | fi => (t, fi) end
  else (t, rs).
Lemma xorb_false_l b : xorb false b = b. Proof. by destruct b. Qed.
Lemma parity_val (iv : bool) rs v f fi : parity_ops rs = f :: fi →
  gate_val (if iv then Xnor else Xor) v (list_to_set (f :: fi)) = xorb iv (xfold v rs).
Proof.
  intros Ep. rewrite <- (parity_xfold v rs). pose proof (parity_ops_nodup rs) as Hnd. rewrite Ep in *. unfold gate_val.
  change (foldr (g_op (if iv then Xnor else Xor)) (g_unit (if iv then Xnor else Xor)) (v <$> elements (list_to_set (f :: fi))))
    with (gfold (if iv then Xnor else Xor) (v <$> elements (list_to_set (f :: fi) : gset string))).
  rewrite gfold_list_nodup by done. destruct iv; done.
Qed.
Lemma prim_sel_value k t rs v : t ∈ gate_types → rs ≠ [] → (t = Buf ∨ t = Not → length rs = 1) →
  v (k_t0 k) = false → v (k_t1 k) = true →
  (prim_sel k t rs).2 ≠ [] ∧ gate_val (prim_sel k t rs).1 v (list_to_set (prim_sel k t rs).2) = prim_sem t (v <$> rs).
Proof.
  intros Ht Hne Hlen H0 H1. unfold gate_types in Ht. rewrite !elem_of_cons, elem_of_nil in Ht. unfold prim_sel.
  destruct Ht as [->|[->|[->|[->|[->|[->|[->|[->|[]]]]]]]]];
    repeat (first [rewrite bool_decide_eq_true_2 by done | rewrite bool_decide_eq_false_2 by done]); cbn [orb fst snd].
  - (* Xor *) destruct (parity_ops rs) as [|f fi] eqn:Ep; cbn [fst snd].
    + split; [done|]. rewrite gv1, H0. unfold prim_sem. fold (xfold v rs). rewrite <- (parity_xfold v rs), Ep. done.
    + split; [done|]. rewrite (parity_val false rs v f fi Ep). apply xorb_false_l.
  - (* Xnor *) destruct (parity_ops rs) as [|f fi] eqn:Ep; cbn [fst snd].
    + split; [done|]. rewrite gv1, H1. unfold prim_sem. fold (xfold v rs). rewrite <- (parity_xfold v rs), Ep. done.
    + split; [done|]. rewrite (parity_val true rs v f fi Ep). unfold prim_sem, xfold. by destruct (foldr xorb false (v <$> rs)).
  - (* Buf *) destruct rs as [|r [|]]; try (specialize (Hlen ltac:(auto)); discriminate). split; [done|]. rewrite gv1. simpl. by destruct (v r).
  - (* Not *) destruct rs as [|r [|]]; try (specialize (Hlen ltac:(auto)); discriminate). split; [done|]. rewrite gv1. simpl. by destruct (v r).
  - (* Nor *) split; [done|]. unfold gate_val. change (foldr (g_op Nor) (g_unit Nor)) with (gfold Or). rewrite gfold_list_idem by (unfold idem; auto). by rewrite gfold_or.
  - (* Or *) split; [done|]. unfold gate_val. change (foldr (g_op Or) (g_unit Or)) with (gfold Or). rewrite gfold_list_idem by (unfold idem; auto). rewrite gfold_or. apply xorb_false_l.
  - (* And *) split; [done|]. unfold gate_val. change (foldr (g_op And) (g_unit And)) with (gfold And). rewrite gfold_list_idem by (unfold idem; auto). rewrite gfold_and. apply xorb_false_l.
  - (* Nand *) split; [done|]. unfold gate_val. change (foldr (g_op Nand) (g_unit Nand)) with (gfold And). rewrite gfold_list_idem by (unfold idem; auto). by rewrite gfold_and.
Qed.
