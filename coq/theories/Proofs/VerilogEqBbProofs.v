(* Proofs for C03: roundtrip_equiv for circuits WITH blackbox instances, both styles, any constants (all x constants share the reader's one
   unknown).  C02's success and pin theorems restated with their Prop-level guards (read_succeeds_bb_items, read_bb_pins_items: the
   boolean guard in_subset also demands a rank check no proof uses); the writer's module with blackbox statements (write_invb_bb,
   stmtsb_filter: the detached buffers of output pins emit nothing); the clean-circuit record rteb_clean and lint_clean_rteb; in
   Section eqbb the lists of the written module (XL instances, L' gate entries with a statement, XD blackbox-driven nets), every guard
   of the C02 lemmas for it (G_den, G_conv, G_pin, G_bbok, G_io, names, dots, pins_apart, outs_driven2, ports_match, NoDup of the
   drivers) - the gate statements through the shape lemmas of the blackbox-free proof applied to the module without its blackbox
   statements (m') -, read_ok, and roundtrip_equiv_bb: registry, pin attachment (bb_ok), and both directions of the equivalence
   (consistent valuations of the original <-> models of the module <-> consistent valuations of the read-back circuit; unconnected input
   pins through the no-reader field q_noread added to C02's invariant Qinv). *)
From Coq Require Import Ascii.
From CG Require Import Verilog.ExprParse.
From stdpp Require Import strings gmap sets fin_sets pretty.
From CG Require Import Types Sem Fold Api Verilog.Ast Verilog.Read Verilog.Write Proofs.VerilogProofs Run.Run_C02 Proofs.VerilogReadProofs Proofs.VerilogDenoteProofs Proofs.VerilogBbProofs Proofs.VerilogConvProofs Proofs.VerilogRtProofs Proofs.VerilogSuccProofs Proofs.VerilogPinProofs Proofs.VerilogSuccBbProofs Proofs.VerilogEqProofs Proofs.VerilogRtBbProofs.
From CG Require Proofs.ComposeProofs Proofs.BlackboxProofs Model.Compose6 Model.Lint.
Open Scope string_scope.

(* ------------------------------------------------------------------ C02's success and pin theorems with their Prop-level guards (the boolean guard in_subset also holds a rank check
   of the dependency graph that no proof uses and that a written module with a combinational loop does not pass) *)
Theorem read_succeeds_bb_items rsv bbs m : ports_match m = true → (list_to_set (module_nets m) : gset string) ⊆ rsv →
  Forall (item_den_ok2 (init_ctx rsv bbs).1 (list_to_set (module_nets m)) (list_to_set (xdrivers bbs m).*1)) (m_items m) → NoDup (xdrivers bbs m).*1 →
  Forall (item_pin_ok (list_to_set (module_nets m))) (m_items m) → NoDup ((bb_insts bbs m).*1.*1) → outs_driven2 bbs m →
  names_ok m → nodots m → bb_items_ok rsv bbs m → pins_apart (bb_insts bbs m) → ∃ C, read rsv bbs m = Ok C.
Proof.
  intros Hpm HNN Hok Hnd Hpk Hnames Hod Hnm Hnd' Hbk Hap.
  pose proof (init_nodot rsv bbs) as Hties. unfold bb_items_ok in Hbk. unfold outs_driven2 in Hod. rewrite (bb_insts_xit rsv bbs m) in Hap, Hnames, Hod.
  unfold read. pose proof (init_rinv rsv bbs) as Hk. pose proof (init_g0 rsv bbs) as Hg. cbv zeta in Hk, Hg.
  destruct (init_ctx rsv bbs) as [k g0]. simpl in Hk, Hg, Hok, Hpk, Hbk, Hties, Hap, Hnames, Hod. destruct Hk as (Er & Eb & Htr & _ & _ & _ & Hi0). destruct Hg as (_ & _ & Hg0). subst rsv. subst bbs.
  set (NN := list_to_set (module_nets m) : gset string) in *. specialize (Hi0 NN HNN).
  set (st0 := {| r_g := g0; r_bbs := ∅; r_ge := ∅; r_io := list_to_set (m_ports m); r_ins := ∅; r_outs := ∅ |}).
  assert (Hgood : ∀ s, s ∈ NN → good_name s ∧ nodot s).
  { intros s Hs'. apply elem_of_list_to_set in Hs'. split; [by apply Hnm|by apply Hnd']. }
  assert (HS0 : sinv (pinsL []) (r_g st0)).
  { assert (E1 : pinsL [] = ∅) by done. rewrite E1. split.
    - intros x j Hx Hty. destruct (Hg0 x j Hx) as (_ & Hc & _). exfalso. destruct Hty as [E|E]; rewrite E in Hc; set_solver.
    - intros x Hx. right. apply elem_of_dom in Hx as [j Hj]. destruct (Hg0 x j Hj) as (Ht & _). by apply Hties.
    - intros x Hx. by apply elem_of_empty in Hx. }
  destruct (items_succ_x k NN (list_to_set (xdrivers (k_bbs k) m).*1) (m_items m ≫= xit k) Htr HNN Hgood Hties Hap (m_items m) st0 [] [] [] Hi0 HS0) as (st & Hf & [Kin Kp]); try done.
  { split; [intros x Hx; by apply elem_of_empty in Hx|intros x Hx; by apply elem_of_nil in Hx]. }
  { intros x Hx. by apply elem_of_nil in Hx. }
  { simpl. unfold regL. rewrite <- list_fmap_compose. rewrite <- list_fmap_compose in Hnames. exact Hnames. }
  { intros x Hx. by apply elem_of_nil in Hx. }
  rewrite Hf. cbn [mbind res_mbind rbind]. simpl in Kp. fold (drivers m) in Kp.
  assert (HQ0 : Qinv k NN [] [] (r_g st0)).
  { assert (E1 : pinsL [] = ∅) by done. assert (E2 : netsL [] = ∅) by done. split; [constructor| | | | | |]; rewrite ?E1, ?E2.
    - intros x Hx. by apply elem_of_empty in Hx.
    - intros x Hx. apply elem_of_union in Hx as [Hx|Hx]; by apply elem_of_empty in Hx.
    - intros x Hx. by apply elem_of_empty in Hx.
    - intros x Hx. by apply elem_of_empty in Hx.
    - intros x Hx. by apply elem_of_empty in Hx.
    - intros y j _ x p Hx. by apply elem_of_nil in Hx. }
  destruct (items_pins k NN (list_to_set (xdrivers (k_bbs k) m).*1) Htr HNN (m_items m) st0 st [] [] Hf Hi0 HQ0 Hok Hpk Hnd ltac:(done)) as [HQ _].
  simpl in HQ. destruct HQ as [_ _ Qd _ _ _ _].
  pose proof (items_sets _ _ _ _ Hf) as (E1 & E2 & E3). simpl in E1, E2, E3.
  change (m_items m ≫= item_ins) with (decl_inputs m) in E2. change (m_items m ≫= item_outs) with (decl_outputs m) in E3.
  apply bool_decide_eq_true in Hpm.
  unfold finish. rewrite E1, E2, E3, Hpm.
  rewrite (bool_decide_eq_true_2 (∅ ∪ list_to_set (decl_inputs m) ⊆ _)) by (clear; set_solver).
  rewrite (bool_decide_eq_true_2 (∅ ∪ list_to_set (decl_outputs m) ⊆ _)) by (clear; set_solver).
  rewrite (bool_decide_eq_true_2 (_ ⊆ ∅ ∪ list_to_set (decl_inputs m) ∪ (∅ ∪ list_to_set (decl_outputs m)))) by (clear; set_solver). cbn [negb].
  destruct (set_output_ok (elements (∅ ∪ list_to_set (decl_outputs m) : gset string)) (r_g st)) as [g' Hso].
  { intros x Hx. apply elem_of_elements in Hx. assert (Hx' : x ∈ decl_outputs m) by (clear -Hx; set_solver).
    destruct (Hod x Hx') as [Hin|[Hdf|Hnt]].
    - apply Kin. rewrite E2. clear -Hin. set_solver.
    - by apply Kp.
    - apply Qd. by apply elem_of_union_r. }
  rewrite Hso. eauto.
Qed.

Theorem read_bb_pins_items rsv bbs m C : (list_to_set (module_nets m) : gset string) ⊆ rsv →
  Forall (item_den_ok2 (init_ctx rsv bbs).1 (list_to_set (module_nets m)) (list_to_set (xdrivers bbs m).*1)) (m_items m) → NoDup (xdrivers bbs m).*1 →
  Forall (item_pin_ok (list_to_set (module_nets m))) (m_items m) → read rsv bbs m = Ok C →
  c_bbs C = list_to_map ((λ x : xinst, (x.1.1, x.1.2)) <$> bb_insts bbs m) ∧ (∀ x, x ∈ bb_insts bbs m → bb_ok (c_g C) x = true) ∧
  ∀ y j, c_g C !! y = Some j → ∀ (x : xinst) p, x ∈ bb_insts bbs m → p ∈ bb_in x.1.2 → pin x.1.1 p ∉ n_fi j.
Proof.
  intros HNN Hok Hnd Hpk H.
  rewrite (bb_insts_xit rsv bbs m).
  unfold read in H. pose proof (init_rinv rsv bbs) as Hk. cbv zeta in Hk.
  destruct (init_ctx rsv bbs) as [k g0]. simpl in Hk, Hok, Hpk |- *. destruct Hk as (Er & Eb & Htr & N01 & N0x & N1x & Hi0). subst rsv. subst bbs.
  set (NN := list_to_set (module_nets m) : gset string) in *. specialize (Hi0 NN HNN).
  apply mbind_ok in H as (st & Hf & Hfin).
  set (st0 := {| r_g := g0; r_bbs := ∅; r_ge := ∅; r_io := list_to_set (m_ports m); r_ins := ∅; r_outs := ∅ |}) in *.
  assert (HQ0 : Qinv k NN [] [] (r_g st0)).
  { assert (E1 : pinsL [] = ∅) by done. assert (E2 : netsL [] = ∅) by done. split; [constructor| | | | | |]; rewrite ?E1, ?E2.
    - intros x Hx. by apply elem_of_empty in Hx.
    - intros x Hx. apply elem_of_union in Hx as [Hx|Hx]; by apply elem_of_empty in Hx.
    - intros x Hx. by apply elem_of_empty in Hx.
    - intros x Hx. by apply elem_of_empty in Hx.
    - intros x Hx. by apply elem_of_empty in Hx.
    - intros y j _ x p Hx. by apply elem_of_nil in Hx. }
  destruct (items_pins k NN _ Htr HNN (m_items m) st0 st [] [] Hf Hi0 HQ0 Hok Hpk Hnd ltac:(done)) as [HQ Hi].
  pose proof (items_reg k NN _ Htr HNN (m_items m) st0 st [] Hf Hok ltac:(done)) as Hreg. simpl in HQ, Hi, Hreg.
  fold (xdrivers (k_bbs k) m) in HQ, Hi. destruct HQ as [Qo Qt Qd Qn Qi Qs Qr].
  unfold finish in Hfin. repeat (case_bool_decide; simpl in Hfin; try discriminate).
  destruct (set_output_g (r_g st) (elements (r_outs st)) true) as [g' o] eqn:Es. destruct o; [|discriminate].
  injection Hfin as <-. simpl. split; [exact Hreg|].
  fold (drop_tie g' (k_t0 k)). fold (drop_tie (drop_tie g' (k_t0 k)) (k_t1 k)). fold (drop_tie (drop_tie (drop_tie g' (k_t0 k)) (k_t1 k)) (k_tx k)).
  destruct (set_output_same _ _ _ Es) as (St & Sf & So).
  set (L := m_items m ≫= xit k) in *.
  assert (Hnt : ∀ t, t ∈ ties k → t ∉ pinsL L ∪ netsL L).
  { intros t Ht [Hx|Hx]%elem_of_union; [by apply (Qi t)|]. apply Qs in Hx. apply elem_of_list_to_set in Hx.
    destruct Hi as [_ _ _ _ _ N]. apply elem_of_list_fmap in Hx as (nd & -> & Hin). rewrite Forall_forall in N. destruct (N nd Hin) as (_ & Hr & _). by apply (Htr nd.1). }
  assert (Hc : chg (pinsL L) (netsL L) g' (drop_tie (drop_tie (drop_tie g' (k_t0 k)) (k_t1 k)) (k_tx k))).
  { eapply (chg_trans _ _ _ (drop_tie g' (k_t0 k))); [apply drop_chg; apply Hnt; unfold ties; clear; set_solver|].
    eapply (chg_trans _ _ _ (drop_tie (drop_tie g' (k_t0 k)) (k_t1 k))); apply drop_chg; apply Hnt; unfold ties; clear; set_solver. }
  split.
  { intros x Hx. eapply bb_ok_chg; [exact Hc|by apply xpins_sub|by apply xnets_sub|]. rewrite (bb_ok_ext (r_g st) g' x St Sf So).
    rewrite Forall_forall in Qo. by apply Qo. }
  intros y j Hy x p Hx Hp Hin. destruct Hc as [_ B]. destruct (B y j Hy) as [Hold|Hdisj].
  - assert (Hfy : fanin g' y = n_fi j) by (unfold fanin; by rewrite Hold). rewrite Sf in Hfy. unfold fanin in Hfy.
    destruct (r_g st !! y) as [j0|] eqn:E0; simpl in Hfy; [|rewrite <- Hfy in Hin; by apply elem_of_empty in Hin]. rewrite <- Hfy in Hin. by eapply (Qr y j0 E0 x p).
  - apply (Hdisj _ Hin). apply (xpins_sub x L Hx). unfold xpins. apply elem_of_map. exists p. split; [done|by apply elem_of_union_l].
Qed.

(* ------------------------------------------------------------------ the writer's module, both styles, with blackbox statements *)
Lemma write_invb_bb C beh π m : write C beh π = Ok m →
  NoDup (o_ins π) ∧ list_to_set (o_ins π) = inputs (c_g C) ∧ NoDup (o_outs π) ∧ list_to_set (o_outs π) = outputs (c_g C) ∧
  NoDup (o_nodes π) ∧ list_to_set (o_nodes π) = of_type (c_g C) (λ t, bool_decide (t ∈ gate_types) || bool_decide (t ∈ const_types)) ∧
  (o_fi π).*1 = o_nodes π ∧
  Forall (λ x : string * list string, NoDup x.2 ∧ list_to_set x.2 = fanin (c_g C) x.1 ∖ of_type (c_g C) (is_ty BbOut)) (o_fi π) ∧
  NoDup (o_bbs π).*1.*1 ∧ list_to_set (o_bbs π).*1.*1 = dom (c_bbs C) ∧ Forall (bb_perm C) (o_bbs π) ∧
  m = {| m_name := c_name C; m_ports := (o_ins π ++ o_outs π)%list;
         m_items := (((λ n, IInput [n]) <$> o_ins π) ++ ((λ n, IOutput [n]) <$> o_outs π) ++
                     ((λ n, IWire [n]) <$> o_nodes π) ++ bbst C π ++ stmtsb (c_g C) beh (length (bbst C π)) (o_fi π))%list |}.
Proof.
  unfold write. intros H.
  destruct (is_perm_of (o_ins π) (inputs (c_g C)) && is_perm_of (o_outs π) (outputs (c_g C))) eqn:E1; cbn [negb] in H; [|discriminate].
  apply andb_true_iff in E1 as [E1 E1']. apply is_perm_spec in E1 as [? ?]. apply is_perm_spec in E1' as [? ?].
  destruct (is_perm_of (o_bbs π).*1.*1 (dom (c_bbs C))) eqn:E2; cbn [negb] in H; [|discriminate]. apply is_perm_spec in E2 as [? ?].
  destruct (forallb _ (o_bbs π)) eqn:E2'; cbn [negb] in H; [|discriminate].
  destruct (is_perm_of (o_nodes π) _) eqn:E3; cbn [negb] in H; [|discriminate]. apply is_perm_spec in E3 as [? ?].
  case_bool_decide as E4; cbn [negb] in H; [|discriminate].
  destruct (forallb _ (o_fi π)) eqn:E5; cbn [negb] in H; [|discriminate].
  case_bool_decide as E6; cbn [negb] in H; [|discriminate].
  injection H as <-. repeat (split; [done|]). split; [|split; [done|split; [done|split]]].
  - apply Forall_forall. intros x Hx. rewrite forallb_forall in E5. specialize (E5 x (proj1 (elem_of_list_In _ _) Hx)). by apply is_perm_spec in E5.
  - apply Forall_forall. intros x Hx. rewrite forallb_forall in E2'. specialize (E2' x (proj1 (elem_of_list_In _ _) Hx)). cbv beta in E2'.
    unfold bb_perm. destruct (c_bbs C !! x.1.1) as [d|]; [|discriminate]. exists d. split; [done|].
    apply andb_true_iff in E2' as [A B]. apply is_perm_spec in A as [? ?]. apply is_perm_spec in B as [? ?]. done.
  - f_equal. do 3 f_equal. fold (wstepb (c_g C) beh). fold (bbst C π). by rewrite foldl_stmtsb.
Qed.

(* entries of the gate loop that emit no statement (the detached buffers of blackbox output pins) can be dropped *)
Definition keepb (g : circuit) (x : string * list string) : bool :=
  match g !! x.1 with Some i => bool_decide (n_ty i ∈ const_types) || negb (bool_decide (x.2 = [])) | None => false end.
Lemma stmtsb_filter g beh l : ∀ j, stmtsb g beh j l = stmtsb g beh j (filter (λ x, keepb g x = true) l).
Proof.
  induction l as [|x l IH]; intros j; [done|]. rewrite filter_cons. destruct (decide (keepb g x = true)) as [Hk|Hk].
  - cbn [stmtsb]. destruct (g !! x.1) as [i|]; [|apply IH]. destruct (gate_stmt g beh j x.1 i x.2); [by rewrite IH|apply IH].
  - cbn [stmtsb]. unfold keepb in Hk. destruct (g !! x.1) as [i|]; [|apply IH]. apply not_true_is_false, orb_false_elim in Hk as [H1 H2].
    apply negb_false_iff, bool_decide_eq_true in H2. unfold gate_stmt. rewrite H1, H2. apply IH.
Qed.

Record rteb_clean (g : circuit) (bbs : gmap string bbdef) : Prop := mk_rteb {
  e_ty : ∀ n i, g !! n = Some i → n_ty i = Input ∨ gc_type (n_ty i) ∨ n_ty i = BbIn ∨ n_ty i = BbOut;
  e_in : ∀ n i, g !! n = Some i → n_ty i = Input → n_fi i = ∅;
  e_gate : ∀ n i, g !! n = Some i → n_ty i ∈ gate_types → n_fi i ≠ ∅;
  e_single : ∀ n i, g !! n = Some i → n_ty i = Buf ∨ n_ty i = Not → size (n_fi i) = 1;
  e_names : ∀ n, n ∈ dom g → good_name n;
  e_closed : closed g;
  e_nodot : ∀ n i, g !! n = Some i → n_ty i ≠ BbIn → n_ty i ≠ BbOut → nodot n;
  e_pin_reg : ∀ n i, g !! n = Some i → n_ty i = BbIn ∨ n_ty i = BbOut → ∃ inst d p, bbs !! inst = Some d ∧ n = pin inst p ∧ p ∈ bb_in d ∪ bb_out d;
  e_reg_in : ∀ inst d p, bbs !! inst = Some d → p ∈ bb_in d → ∃ i, g !! pin inst p = Some i ∧ n_ty i = BbIn;
  e_reg_out : ∀ inst d p, bbs !! inst = Some d → p ∈ bb_out d → ∃ i, g !! pin inst p = Some i ∧ n_ty i = BbOut;
  e_bbin_fi : ∀ n i, g !! n = Some i → n_ty i = BbIn → size (n_fi i) ≤ 1;
  e_bbout_fi : ∀ n i, g !! n = Some i → n_ty i = BbOut → n_fi i = ∅;
  e_bbout_fo : ∀ n i m j, g !! n = Some i → n_ty i = BbOut → g !! m = Some j → n ∈ n_fi j → n_ty j = Buf;
  e_bbout_fo1 : ∀ n i, g !! n = Some i → n_ty i = BbOut → size (fanout g n) ≤ 1;
  e_bbin_fo : ∀ n i m j, g !! n = Some i → n_ty i = BbIn → g !! m = Some j → n ∉ n_fi j;
  e_apart : ∀ i j d e p q, bbs !! i = Some d → bbs !! j = Some e → p ∈ bb_in d ∪ bb_out d → q ∈ bb_in e ∪ bb_out e → pin i p = pin j q → i = j;
  e_inst : ∀ inst d, bbs !! inst = Some d → starts_digit inst = false ∧ prim_of_name (bb_name d) = None;
  e_defs : ∀ i j d e, bbs !! i = Some d → bbs !! j = Some e → bb_name d = bb_name e → d = e;
  e_noout : ∀ n i, g !! n = Some i → n_ty i = BbIn ∨ n_ty i = BbOut → n_out i = false }.

Lemma lint_clean_rteb C f : Lint.lint C f = Ok () →
  (∀ n i, c_g C !! n = Some i → n_ty i ∈ gate_types → n_fi i ≠ ∅) →
  (∀ n, n ∈ dom (c_g C) → n ≠ "" ∧ starts_digit n = false) →
  (∀ i j d e, c_bbs C !! i = Some d → c_bbs C !! j = Some e → bb_name d = bb_name e → d = e) → closed (c_g C) →
  (∀ n i, c_g C !! n = Some i → n_ty i = BbIn ∨ n_ty i = BbOut → ∃ inst d p, c_bbs C !! inst = Some d ∧ n = pin inst p ∧ p ∈ bb_in d ∪ bb_out d) →
  (∀ n i, c_g C !! n = Some i → n_ty i ≠ BbIn → n_ty i ≠ BbOut → Lint.has_dot n = false) →
  (∀ n i m j, c_g C !! n = Some i → n_ty i = BbIn → c_g C !! m = Some j → n ∉ n_fi j) →
  (∀ i j d e p q, c_bbs C !! i = Some d → c_bbs C !! j = Some e → p ∈ bb_in d ∪ bb_out d → q ∈ bb_in e ∪ bb_out e → pin i p = pin j q → i = j) →
  (∀ inst d, c_bbs C !! inst = Some d → starts_digit inst = false ∧ prim_of_name (bb_name d) = None) →
  (∀ n i, c_g C !! n = Some i → n_ty i = BbIn ∨ n_ty i = BbOut → n_out i = false) →
  rteb_clean (c_g C) (c_bbs C).
Proof.
  intros Hl Hgate Hnames Hdefs Hcl Hpreg Hnodot Hbifo Hapart Hinst Hnoout.
  assert (Hty : ∀ n i, c_g C !! n = Some i → n_ty i = Input ∨ gc_type (n_ty i) ∨ n_ty i = BbIn ∨ n_ty i = BbOut).
  { intros n i Hi. destruct (lint_node_facts C f n i Hl Hi) as (Hs & _).
    clear -Hs. unfold Gen_types.supported_types, gc_type, gate_types in *. rewrite !elem_of_cons, elem_of_nil in Hs. rewrite !elem_of_cons, elem_of_nil.
    destruct (n_ty i); naive_solver. }
  split; try done.
  - intros n i Hi Ht. destruct (lint_node_facts C f n i Hl Hi) as (_ & Hz & _). apply leibniz_equiv, size_empty_iff. apply Hz. rewrite Ht. unfold Gen_lint.zero_input_types. set_solver.
  - intros n i Hi Ht. destruct (lint_node_facts C f n i Hl Hi) as (_ & _ & Hs & _).
    assert (Hle : size (n_fi i) ≤ 1) by (apply Hs; unfold Gen_lint.single_input_types; destruct Ht as [-> | ->]; set_solver).
    assert (Hne : n_fi i ≠ ∅) by (apply (Hgate n i Hi); unfold gate_types; destruct Ht as [-> | ->]; set_solver).
    assert (size (n_fi i) ≠ 0) by (intros E; apply size_empty_iff in E; apply Hne; by apply leibniz_equiv). lia.
  - intros inst d p Hd Hp. destruct (lint_bb_facts C f inst d Hl Hd) as [H1 _]. specialize (H1 p Hp). unfold ty in H1. destruct (c_g C !! pin inst p) as [i|]; [|discriminate].
    exists i. split; [done|]. by injection H1.
  - intros inst d p Hd Hp. destruct (lint_bb_facts C f inst d Hl Hd) as [_ H1]. specialize (H1 p Hp). unfold ty in H1. destruct (c_g C !! pin inst p) as [i|]; [|discriminate].
    exists i. split; [done|]. by injection H1.
  - intros n i Hi Ht. destruct (lint_node_facts C f n i Hl Hi) as (_ & _ & Hs & _). apply Hs. rewrite Ht. unfold Gen_lint.single_input_types. set_solver.
  - intros n i Hi Ht. destruct (lint_node_facts C f n i Hl Hi) as (_ & Hz & _). apply leibniz_equiv, size_empty_iff. apply Hz. rewrite Ht. unfold Gen_lint.zero_input_types. set_solver.
  - intros n i m j Hi Ht Hj Hin. destruct (lint_node_facts C f n i Hl Hi) as (_ & _ & _ & _ & Hb). specialize (Hb Ht m ltac:(apply elem_of_fanout; eauto)).
    unfold ty in Hb. rewrite Hj in Hb. by injection Hb.
  - intros n i Hi Ht. by destruct (lint_node_facts C f n i Hl Hi) as (_ & _ & _ & Hb & _); auto.
Qed.

Lemma bind_fmap {A B D} (f : A → B) (h : B → list D) (l : list A) : (f <$> l) ≫= h = l ≫= (λ a, h (f a)).
Proof. induction l as [|a l IH]; [done|]. rewrite fmap_cons. cbn. by rewrite IH. Qed.
Lemma bind_nil_all {A B} (h : A → list B) (l : list A) : (∀ a, a ∈ l → h a = []) → l ≫= h = [].
Proof. induction l as [|a l IH]; intros H; [done|]. cbn. rewrite H by (by left). rewrite IH; [done|]. intros b Hb. apply H. by right. Qed.

(* the named connections of an emitted instance *)
Definition bbps (g : circuit) (inst : string) (ins outs : list string) : list (string * option cond) :=
  (((λ p, (p, cid <$> head (elements (fanin g (pin inst p))))) <$> ins) ++ ((λ p, (p, cid <$> head (elements (fanout g (pin inst p))))) <$> outs))%list.
Definition stmt_of (t : xinst) : item := IInst (bb_name t.1.2) [(t.1.1, Named t.2)].
Lemma elem_of_bbps g inst ins outs pc : pc ∈ bbps g inst ins outs ↔
  (pc.1 ∈ ins ∧ pc.2 = cid <$> head (elements (fanin g (pin inst pc.1)))) ∨ (pc.1 ∈ outs ∧ pc.2 = cid <$> head (elements (fanout g (pin inst pc.1)))).
Proof.
  unfold bbps. rewrite elem_of_app, !elem_of_list_fmap. split.
  - intros [(p & -> & Hp)|(p & -> & Hp)]; [left|right]; done.
  - destruct pc as [p o]. simpl. intros [[Hp ->]|[Hp ->]]; [left|right]; exists p; done.
Qed.
Lemma bbps_keys g inst ins outs : (bbps g inst ins outs).*1 = (ins ++ outs)%list.
Proof. unfold bbps. rewrite fmap_app, <- !list_fmap_compose. f_equal; apply list_fmap_id. Qed.

Lemma nodup_filter_fst {A B} (P : A * B → Prop) `{∀ x, Decision (P x)} (l : list (A * B)) : NoDup l.*1 → NoDup (filter P l).*1.
Proof.
  induction l as [|a l IH]; [done|]. rewrite fmap_cons. intros [Ha Hnd]%NoDup_cons. rewrite filter_cons. destruct (decide (P a)); [|by apply IH].
  rewrite fmap_cons. apply NoDup_cons. split; [|by apply IH]. intros (b & E & Hb)%elem_of_list_fmap. apply elem_of_list_filter in Hb as [_ Hb]. apply Ha. apply elem_of_list_fmap. eauto.
Qed.
(* the nets of the statements of the gate loop *)
Lemma stmtsb_nets g beh l : ∀ j,
  (∀ x : string * list string, x ∈ l → ∃ i, g !! x.1 = Some i ∧ gc_type (n_ty i) ∧
     (n_ty i ∈ gate_types → x.2 ≠ [] ∧ NoDup x.2 ∧ list_to_set x.2 = n_fi i ∧ (n_ty i = Buf ∨ n_ty i = Not → length x.2 = 1))) →
  ∀ y, y ∈ stmtsb g beh j l ≫= item_nets → ∃ x i, x ∈ l ∧ g !! x.1 = Some i ∧ (y = x.1 ∨ (n_ty i ∈ gate_types ∧ y ∈ n_fi i)).
Proof.
  induction l as [|x l IH]; intros j Hl y Hy; [by apply elem_of_nil in Hy|].
  destruct (Hl x ltac:(by left)) as (i & Hi & Hgc & Hg). destruct (gate_stmt_spec g beh j x.1 i x.2 Hgc Hg) as (s & Hs & Hsh & (d & Hd & Hsem) & Hnets & Hin & Hout).
  cbn [stmtsb] in Hy. rewrite Hi, Hs in Hy. cbn [mbind list_bind] in Hy. apply elem_of_app in Hy as [Hy|Hy].
  - exists x, i. split; [by left|]. split; [done|]. destruct Hgc as [Hgt|Hc]; [destruct (Hnets y Hy) as [?|Hf]; [by left|right; done]|]. left.
    unfold gate_stmt in Hs. rewrite bool_decide_eq_true_2 in Hs by (unfold const_types; destruct Hc as [-> |[-> | ->]]; set_solver). injection Hs as <-.
    cbn in Hy. by apply elem_of_list_singleton in Hy.
  - destruct (IH (S j) (λ z Hz, Hl z (elem_of_list_further _ _ _ Hz)) y Hy) as (z & iz & Hz & ?). exists z, iz. split; [by right|done].
Qed.

Lemma bind_ext_in {A B} (f h : A → list B) (l : list A) : (∀ a, a ∈ l → f a = h a) → l ≫= f = l ≫= h.
Proof. induction l as [|a l IH]; intros H; [done|]. cbn. rewrite H by (by left). rewrite IH; [done|]. intros b Hb. apply H. by right. Qed.
Lemma NoDup_bind' {A B} (f : A → list B) (l : list A) :
  (∀ x1 x2 y, x1 ∈ l → x2 ∈ l → y ∈ f x1 → y ∈ f x2 → x1 = x2) → (∀ x, x ∈ l → NoDup (f x)) → NoDup l → NoDup (l ≫= f).
Proof.
  induction l as [|a l IH]; intros Hinj Hf Hnd; [constructor|]. apply NoDup_cons in Hnd as [Ha Hnd]. cbn. apply NoDup_app. split; [apply Hf; by left|]. split.
  - intros y Hy (b & Hyb & Hb)%elem_of_list_bind. apply Ha. rewrite (Hinj a b y); [done|by left|by right|done|done].
  - apply IH; [|intros; apply Hf; by right|done]. intros x1 x2 y H1 H2. apply Hinj; by right.
Qed.
Lemma nodup_fmap_inj {A B} (f : A → B) (l : list A) x y : NoDup (f <$> l) → x ∈ l → y ∈ l → f x = f y → x = y.
Proof.
  induction l as [|a l IH]; intros Hnd Hx Hy E; [by apply elem_of_nil in Hx|]. rewrite fmap_cons in Hnd. apply NoDup_cons in Hnd as [Ha Hnd].
  apply elem_of_cons in Hx as [->|Hx]; apply elem_of_cons in Hy as [->|Hy]; [done| | |by apply IH].
  - exfalso. apply Ha. rewrite E. apply elem_of_list_fmap. eauto.
  - exfalso. apply Ha. rewrite <- E. apply elem_of_list_fmap. eauto.
Qed.

Lemma gv_single t v a : gate_val t v {[a]} = xorb (g_inv t) (v a).
Proof. rewrite <- (gv1 t v a). f_equal. cbn. by rewrite union_empty_r_L. Qed.
Lemma gv_buf v a : gate_val Buf v {[a]} = v a. Proof. rewrite gv_single. simpl. by destruct (v a). Qed.
Lemma gv_bbin v a : gate_val BbIn v {[a]} = v a. Proof. rewrite gv_single. simpl. by destruct (v a). Qed.
Lemma find_key (ps : list (string * option cond)) p o : NoDup ps.*1 → (p, o) ∈ ps →
  (λ y : nat * (string * option cond), y.2.2) <$> list_find (λ pc : string * option cond, pc.1 = p) ps = Some o.
Proof.
  induction ps as [|[p' o'] ps IH]; intros Hnd Hin; [by apply elem_of_nil in Hin|]. rewrite fmap_cons in Hnd. apply NoDup_cons in Hnd as [Hk Hnd]. cbn [list_find]. case_decide as E; simpl in E.
  - subst p'. simpl. apply elem_of_cons in Hin as [[= ->]|Hin]; [done|]. exfalso. apply Hk. apply elem_of_list_fmap. exists (p, o). done.
  - apply elem_of_cons in Hin as [[= -> ->]|Hin]; [done|]. specialize (IH Hnd Hin). destruct (list_find (λ pc : string * option cond, pc.1 = p) ps) as [[j [a b]]|]; simpl in *; [done|discriminate].
Qed.
Lemma bb_ok_in g' inst d ps p o : bb_ok g' (inst, d, ps) = true → NoDup ps.*1 → p ∈ bb_in d → (p, o) ∈ ps →
  ty g' (pin inst p) = Some BbIn ∧ match o with Some e => ∀ w, e = cid w → fanin g' (pin inst p) = {[w]} | None => fanin g' (pin inst p) = ∅ end.
Proof.
  intros Hok Hnd Hp Hin. unfold bb_ok in Hok. apply andb_true_iff in Hok as [Hok _]. rewrite forallb_forall in Hok. specialize (Hok p). cbv beta in Hok.
  rewrite (find_key ps p o Hnd Hin) in Hok. specialize (Hok ltac:(by apply elem_of_list_In, elem_of_elements)). apply andb_true_iff in Hok as [H1 H2]. apply bool_decide_eq_true in H1. split; [done|].
  destruct o as [e|]; [|by apply bool_decide_eq_true in H2]. intros w ->. change (as_id (cid w)) with (Some w) in H2. by apply bool_decide_eq_true in H2.
Qed.
Lemma bb_ok_out g' inst d ps p o : bb_ok g' (inst, d, ps) = true → NoDup ps.*1 → p ∈ bb_out d → (p, o) ∈ ps →
  ty g' (pin inst p) = Some BbOut ∧
  match o with Some e => ∀ w, e = cid w → fanout g' (pin inst p) = {[w]} ∧ ty g' w = Some Buf ∧ fanin g' w = {[pin inst p]} | None => fanout g' (pin inst p) = ∅ end.
Proof.
  intros Hok Hnd Hp Hin. unfold bb_ok in Hok. apply andb_true_iff in Hok as [_ Hok]. rewrite forallb_forall in Hok. specialize (Hok p). cbv beta in Hok.
  rewrite (find_key ps p o Hnd Hin) in Hok. specialize (Hok ltac:(by apply elem_of_list_In, elem_of_elements)). apply andb_true_iff in Hok as [H1 H2]. apply andb_true_iff in H1 as [H1 _]. apply bool_decide_eq_true in H1.
  split; [done|]. destruct o as [e|]; [|by apply bool_decide_eq_true in H2]. intros w ->. change (as_id (cid w)) with (Some w) in H2. apply andb_true_iff in H2 as [H2 H3]. apply andb_true_iff in H2 as [H2 H4].
  apply bool_decide_eq_true in H2, H3, H4. done.
Qed.
Lemma buf_val c w q n : consistent c w → ty c q = Some Buf → fanin c q = {[n]} → w q = w n.
Proof.
  intros Hw Ht Hf. unfold ty, fanin in *. destruct (c !! q) as [i|] eqn:Ei; [|discriminate]. simpl in *. injection Ht as Ht. specialize (Hw q i Ei).
  unfold node_ok, is_free in Hw. rewrite Ht, Hf in Hw. rewrite bool_decide_eq_false_2 in Hw by (intros E; assert (n ∈ (∅ : gset string)) by (rewrite <- E; by apply elem_of_singleton); by apply elem_of_empty in H).
  rewrite Hw, gv_buf. done.
Qed.
Lemma pin_val c w p d : consistent c w → ty c p = Some BbIn → fanin c p = {[d]} → w p = w d.
Proof.
  intros Hw Ht Hf. unfold ty, fanin in *. destruct (c !! p) as [i|] eqn:Ei; [|discriminate]. simpl in *. injection Ht as Ht. specialize (Hw p i Ei).
  unfold node_ok, is_free in Hw. rewrite Ht, Hf in Hw. rewrite bool_decide_eq_false_2 in Hw by (intros E; assert (d ∈ (∅ : gset string)) by (rewrite <- E; by apply elem_of_singleton); by apply elem_of_empty in H).
  rewrite Hw, gv_bbin. done.
Qed.

Section eqbb.
  Context (C : Circuit) (beh : bool) (π : worder) (m : vmodule) (rsv : gset string).
  Notation g := (c_g C).
  Notation bbs := (c_bbs C).
  Notation bbl := ((map_to_list (c_bbs C)).*2).
  Hypothesis HC : rteb_clean g bbs.
  Hypothesis Hw : write C beh π = Ok m.
  Hypothesis Hids : (list_to_set (module_ids m) : gset string) ⊆ rsv.
  #[local] Set Default Proof Using "All".
  Notation k := (init_ctx rsv bbl).1.
  Notation NN := (list_to_set (module_nets m) : gset string).

  Definition XL : list xinst := omap (λ x : string * list string * list string, (λ d, (x.1.1, d, bbps g x.1.1 x.1.2 x.2)) <$> bbs !! x.1.1) (o_bbs π).
  Definition L' : list (string * list string) := filter (λ x, keepb g x = true) (o_fi π).
  Definition SS : list item := stmtsb g beh (length (bbst C π)) L'.
  Definition AA : list item := (λ n, IInput [n]) <$> o_ins π.
  Definition BB : list item := (λ n, IOutput [n]) <$> o_outs π.
  Definition WW : list item := (λ n, IWire [n]) <$> o_nodes π.

  Lemma bbst_XL : bbst C π = stmt_of <$> XL.
  Proof.
    unfold bbst, XL. induction (o_bbs π) as [|x l IH]; [done|]. cbn [omap list_omap]. destruct (bbs !! x.1.1) as [d|]; cbn [fmap option_fmap option_map]; [|done].
    rewrite fmap_cons. f_equal. exact IH.
  Qed.
  Lemma elem_of_XL t : t ∈ XL ↔ ∃ x, x ∈ o_bbs π ∧ bbs !! x.1.1 = Some t.1.2 ∧ t = (x.1.1, t.1.2, bbps g x.1.1 x.1.2 x.2).
  Proof.
    unfold XL. rewrite elem_of_list_omap. split.
    - intros (x & Hx & E). destruct (bbs !! x.1.1) as [d|] eqn:Ed; [|discriminate]. injection E as <-. exists x. done.
    - intros (x & Hx & Ed & E). exists x. split; [done|]. rewrite Ed. simpl. f_equal. symmetry. exact E.
  Qed.

  Lemma Winv :
    NoDup (o_ins π) ∧ list_to_set (o_ins π) = inputs g ∧ NoDup (o_outs π) ∧ list_to_set (o_outs π) = outputs g ∧
    NoDup (o_nodes π) ∧ list_to_set (o_nodes π) = of_type g (λ t, bool_decide (t ∈ gate_types) || bool_decide (t ∈ const_types)) ∧
    (o_fi π).*1 = o_nodes π ∧
    Forall (λ x : string * list string, NoDup x.2 ∧ list_to_set x.2 = fanin g x.1 ∖ of_type g (is_ty BbOut)) (o_fi π) ∧
    NoDup (o_bbs π).*1.*1 ∧ list_to_set (o_bbs π).*1.*1 = dom bbs ∧ Forall (bb_perm C) (o_bbs π) ∧
    m_name m = c_name C ∧ m_ports m = (o_ins π ++ o_outs π)%list ∧ m_items m = (AA ++ BB ++ WW ++ (stmt_of <$> XL) ++ SS)%list.
  Proof.
    destruct (write_invb_bb C beh π m Hw) as (H1 & H2 & H3 & H4 & H5 & H6 & H7 & H8 & H9 & H10 & H11 & Em). repeat (split; [done|]).
    rewrite Em. cbn [m_name m_ports m_items]. split; [done|]. split; [done|]. unfold SS, L'. by rewrite <- stmtsb_filter, <- bbst_XL.
  Qed.

  (* the instances *)
  Lemma XL_perm t : t ∈ XL → ∃ ins outs, t.2 = bbps g t.1.1 ins outs ∧ bbs !! t.1.1 = Some t.1.2 ∧ NoDup ins ∧ (∀ p, p ∈ ins ↔ p ∈ bb_in t.1.2) ∧ NoDup outs ∧ (∀ p, p ∈ outs ↔ p ∈ bb_out t.1.2).
  Proof.
    intros (x & Hx & Ed & E)%elem_of_XL. destruct Winv as (_ & _ & _ & _ & _ & _ & _ & _ & _ & _ & Fb & _). rewrite Forall_forall in Fb.
    destruct (Fb x Hx) as (d & Hd & N1 & E1 & N2 & E2). assert (d = t.1.2) as -> by congruence. exists x.1.2, x.2. rewrite E. simpl. repeat (split; [done|]). split.
    - intros p. rewrite <- E1. by rewrite elem_of_list_to_set.
    - split; [done|]. intros p. rewrite <- E2. by rewrite elem_of_list_to_set.
  Qed.
  Lemma XL_names : XL.*1.*1 = (o_bbs π).*1.*1.
  Proof.
    destruct Winv as (_ & _ & _ & _ & _ & _ & _ & _ & _ & _ & Fb & _). unfold XL. induction (o_bbs π) as [|x l IH]; [done|]. inversion Fb as [|? ? (d & Hd & _) Fb']; subst.
    cbn [omap list_omap]. rewrite Hd. cbn [fmap option_fmap option_map]. rewrite !fmap_cons. cbn. f_equal. by apply IH.
  Qed.
  Lemma bb_disj' inst d : bbs !! inst = Some d → bb_in d ## bb_out d.
  Proof. intros Hd p Hi Ho. destruct (e_reg_in _ _ HC inst d p Hd Hi) as (i & Hi1 & Ht1). destruct (e_reg_out _ _ HC inst d p Hd Ho) as (j & Hj1 & Ht2). congruence. Qed.
  Lemma find_def_bbl inst d : bbs !! inst = Some d → find_def bbl (bb_name d) = Some d.
  Proof. intros Hd. apply (find_def_registry bbs inst d); [|done]. apply (e_defs _ _ HC). Qed.

  (* connected pins *)
  Lemma in_conn inst d p w : bbs !! inst = Some d → p ∈ bb_in d → head (elements (fanin g (pin inst p))) = Some w →
    ∃ i j, g !! pin inst p = Some i ∧ n_ty i = BbIn ∧ n_fi i = {[w]} ∧ g !! w = Some j ∧ n_ty j ≠ BbIn ∧ n_ty j ≠ BbOut.
  Proof.
    intros Hd Hp Hh. destruct (e_reg_in _ _ HC inst d p Hd Hp) as (i & Hi & Hti). unfold fanin in Hh. rewrite Hi in Hh. simpl in Hh.
    assert (Hfi : n_fi i = {[w]}) by (destruct (head_small (n_fi i) (e_bbin_fi _ _ HC _ _ Hi Hti)) as [[_ E]|(v & Ev & E)]; congruence).
    assert (Hd2 : w ∈ dom g) by (eapply (e_closed _ _ HC); [exact Hi|rewrite Hfi; by apply elem_of_singleton]). apply elem_of_dom in Hd2 as [j Hj].
    exists i, j. repeat (split; [done|]). split; intros Htj.
    - apply (e_bbin_fo _ _ HC _ _ _ _ Hj Htj Hi). rewrite Hfi. by apply elem_of_singleton.
    - assert (n_ty i = Buf) by (eapply (e_bbout_fo _ _ HC _ _ _ _ Hj Htj Hi); rewrite Hfi; by apply elem_of_singleton). congruence.
  Qed.
  Lemma in_open inst d p : bbs !! inst = Some d → p ∈ bb_in d → head (elements (fanin g (pin inst p))) = None → fanin g (pin inst p) = ∅.
  Proof.
    intros Hd Hp Hh. destruct (e_reg_in _ _ HC inst d p Hd Hp) as (i & Hi & Hti). unfold fanin in *. rewrite Hi in *. simpl in *.
    destruct (head_small (n_fi i) (e_bbin_fi _ _ HC _ _ Hi Hti)) as [[E _]|(v & Ev & E)]; [done|congruence].
  Qed.
  Lemma out_conn inst d p w : bbs !! inst = Some d → p ∈ bb_out d → head (elements (fanout g (pin inst p))) = Some w →
    fanout g (pin inst p) = {[w]} ∧ ∃ j, g !! w = Some j ∧ n_ty j = Buf ∧ n_fi j = {[pin inst p]}.
  Proof.
    intros Hd Hp Hh. destruct (e_reg_out _ _ HC inst d p Hd Hp) as (i & Hi & Hti).
    assert (Hfo : fanout g (pin inst p) = {[w]}) by (destruct (head_small _ (e_bbout_fo1 _ _ HC _ _ Hi Hti)) as [[_ E]|(v & Ev & E)]; congruence).
    split; [done|]. assert (Hin : w ∈ fanout g (pin inst p)) by (rewrite Hfo; by apply elem_of_singleton). apply elem_of_fanout in Hin as (j & Hj & Hin).
    pose proof (e_bbout_fo _ _ HC _ _ _ _ Hi Hti Hj Hin) as Hbuf. exists j. split; [done|]. split; [done|]. apply size1_elem; [|done]. apply (e_single _ _ HC w j Hj). by left.
  Qed.
  Lemma out_open inst d p : bbs !! inst = Some d → p ∈ bb_out d → head (elements (fanout g (pin inst p))) = None → fanout g (pin inst p) = ∅.
  Proof.
    intros Hd Hp Hh. destruct (e_reg_out _ _ HC inst d p Hd Hp) as (i & Hi & Hti).
    destruct (head_small _ (e_bbout_fo1 _ _ HC _ _ Hi Hti)) as [[E _]|(v & Ev & E)]; [done|congruence].
  Qed.
  (* a node that reads a pin is the buffer of an output pin *)
  Lemma reads_pin x i q iq : g !! x = Some i → q ∈ n_fi i → g !! q = Some iq → n_ty iq = BbIn ∨ n_ty iq = BbOut → n_ty iq = BbOut ∧ n_ty i = Buf ∧ n_fi i = {[q]}.
  Proof.
    intros Hi Hq Hiq [Ht|Ht]; [exfalso; exact (e_bbin_fo _ _ HC _ _ _ _ Hiq Ht Hi Hq)|]. split; [done|].
    assert (Hb : n_ty i = Buf) by (by eapply (e_bbout_fo _ _ HC)). split; [done|]. apply size1_elem; [|done]. apply (e_single _ _ HC x i Hi). by left.
  Qed.

  (* ---- the statements of the gate loop ---- *)
  Lemma gc_nodes x : x ∈ o_nodes π ↔ ∃ i, g !! x = Some i ∧ gc_type (n_ty i).
  Proof.
    destruct Winv as (_ & _ & _ & _ & _ & En & _). rewrite <- (elem_of_list_to_set (C:=gset string)), En, elem_of_of_type. split.
    - intros (i & Hi & Ht). exists i. split; [done|]. destruct (e_ty _ _ HC x i Hi) as [E|[?|[E|E]]]; [|done| |]; rewrite E in Ht; done.
    - intros (i & Hi & [Ht|Hc]); exists i; (split; [done|]); [by rewrite bool_decide_eq_true_2|].
      rewrite (bool_decide_eq_true_2 (n_ty i ∈ const_types)); [by rewrite orb_true_r|]. unfold const_types. destruct Hc as [-> |[-> | ->]]; set_solver.
  Qed.
  Lemma gc_not_pin t : gc_type t → t ≠ BbIn ∧ t ≠ BbOut ∧ t ≠ Input.
  Proof. intros [Ht|[-> |[-> | ->]]]; [|done|done|done]. unfold gate_types in Ht. repeat split; intros ->; set_solver. Qed.
  Lemma L'_spec x : x ∈ L' → ∃ i, g !! x.1 = Some i ∧ gc_type (n_ty i) ∧
     (n_ty i ∈ gate_types → x.2 ≠ [] ∧ NoDup x.2 ∧ list_to_set x.2 = n_fi i ∧ (n_ty i = Buf ∨ n_ty i = Not → length x.2 = 1) ∧
        ∀ f j, f ∈ n_fi i → g !! f = Some j → n_ty j ≠ BbIn ∧ n_ty j ≠ BbOut).
  Proof.
    intros [Hk Hx]%elem_of_list_filter. destruct Winv as (_ & _ & _ & _ & _ & _ & Ef & Ff & _).
    assert (Hx1 : x.1 ∈ o_nodes π) by (rewrite <- Ef; apply elem_of_list_fmap; eauto). apply gc_nodes in Hx1 as (i & Hi & Hg). exists i. split; [done|]. split; [done|].
    intros Ht. rewrite Forall_forall in Ff. destruct (Ff x Hx) as [Hnd Hfs]. unfold fanin in Hfs. rewrite Hi in Hfs. simpl in Hfs.
    unfold keepb in Hk. rewrite Hi in Hk. rewrite (bool_decide_eq_false_2 (n_ty i ∈ const_types)) in Hk by (by apply gate_nc). simpl in Hk. apply negb_true_iff, bool_decide_eq_false in Hk.
    assert (Hops : ∀ f j, f ∈ n_fi i → g !! f = Some j → n_ty j ≠ BbIn ∧ n_ty j ≠ BbOut).
    { intros f j Hf Hj. destruct (decide (n_ty j = BbIn ∨ n_ty j = BbOut)) as [Hp|Hp]; [|naive_solver]. exfalso.
      destruct (reads_pin x.1 i f j Hi Hf Hj Hp) as (Ho & _ & Es).
      assert (Hqo : f ∈ of_type g (is_ty BbOut)) by (apply elem_of_of_type; exists j; split; [done|]; rewrite Ho; done).
      destruct x.2 as [|a r]; [done|]. assert (Ha : a ∈ n_fi i ∖ of_type g (is_ty BbOut)) by (rewrite <- Hfs; apply elem_of_list_to_set; by left).
      rewrite Es in Ha. apply elem_of_difference in Ha as [Ha%elem_of_singleton Hn]. by subst. }
    assert (Hfs' : list_to_set x.2 = n_fi i).
    { rewrite Hfs. apply set_eq. intros f. rewrite elem_of_difference. split; [by intros [? _]|]. intros Hf. split; [done|].
      intros (j & Hj & Htj)%elem_of_of_type. destruct (Hops f j Hf Hj) as [_ Hn]. apply Hn. unfold is_ty in Htj. by apply bool_decide_eq_true in Htj. }
    split; [done|]. split; [done|]. split; [done|]. split; [|done].
    intros Hbn. pose proof (e_single _ _ HC x.1 i Hi Hbn) as Hs. rewrite <- Hfs' in Hs. by rewrite size_list_to_set in Hs.
  Qed.
  Lemma L'_spec' x : x ∈ L' → ∃ i, g !! x.1 = Some i ∧ gc_type (n_ty i) ∧
     (n_ty i ∈ gate_types → x.2 ≠ [] ∧ NoDup x.2 ∧ list_to_set x.2 = n_fi i ∧ (n_ty i = Buf ∨ n_ty i = Not → length x.2 = 1)).
  Proof. intros Hx. destruct (L'_spec x Hx) as (i & Hi & Hg & H). exists i. split; [done|]. split; [done|]. intros Ht. destruct (H Ht) as (? & ? & ? & ? & _). done. Qed.
  Lemma L'_nodup : NoDup L'.*1.
  Proof. destruct Winv as (_ & _ & _ & _ & Nn & _ & Ef & _). unfold L'. apply nodup_filter_fst. by rewrite Ef. Qed.
  (* a gate or constant node is in L' unless it is the buffer of a blackbox output pin *)
  Lemma in_L' n i : g !! n = Some i → gc_type (n_ty i) → (∀ q iq, q ∈ n_fi i → g !! q = Some iq → n_ty iq ≠ BbOut) → n ∈ L'.*1.
  Proof.
    intros Hi Hg Hnp. destruct Winv as (_ & _ & _ & _ & _ & _ & Ef & Ff & _).
    assert (Hn : n ∈ (o_fi π).*1) by (rewrite Ef; apply gc_nodes; eauto). apply elem_of_list_fmap in Hn as (x & -> & Hx). apply elem_of_list_fmap. exists x. split; [done|].
    apply elem_of_list_filter. split; [|done]. unfold keepb. rewrite Hi. destruct Hg as [Ht|Hc].
    - rewrite (bool_decide_eq_false_2 (n_ty i ∈ const_types)) by (by apply gate_nc). simpl. apply negb_true_iff, bool_decide_eq_false. intros E.
      rewrite Forall_forall in Ff. destruct (Ff x Hx) as [_ Hfs]. rewrite E in Hfs. simpl in Hfs. unfold fanin in Hfs. rewrite Hi in Hfs. simpl in Hfs.
      destruct (set_choose_L (n_fi i) (e_gate _ _ HC _ _ Hi Ht)) as [q Hq]. assert (Hqd : q ∈ dom g) by (by eapply (e_closed _ _ HC)). apply elem_of_dom in Hqd as [iq Hiq].
      assert (Hqo : q ∈ of_type g (is_ty BbOut)). { destruct (decide (q ∈ of_type g (is_ty BbOut))) as [?|Hno]; [done|]. exfalso. assert (q ∈ n_fi i ∖ of_type g (is_ty BbOut)) by (by apply elem_of_difference). rewrite <- Hfs in H. by apply elem_of_empty in H. }
      apply elem_of_of_type in Hqo as (iq' & Hiq' & Ht'). assert (iq' = iq) as -> by congruence. unfold is_ty in Ht'. apply bool_decide_eq_true in Ht'. by apply (Hnp q iq Hq Hiq).
    - rewrite (bool_decide_eq_true_2 (n_ty i ∈ const_types)); [done|]. unfold const_types. destruct Hc as [-> |[-> | ->]]; set_solver.
  Qed.

  Definition SPEC := stmtsb_spec g beh L' (length (bbst C π)) L'_spec'.
  Lemma S_shape : Forall item_shape SS. Proof. by destruct SPEC as (F1 & _). Qed.
  Lemma S_drv_names : (SS ≫= item_drivers).*1 = L'.*1. Proof. by destruct SPEC as (_ & F2 & _). Qed.
  Lemma S_drv n d : (n, d) ∈ SS ≫= item_drivers → ∃ i, g !! n = Some i ∧ gc_type (n_ty i) ∧ ∀ v xx, sem_driver v xx d = node_val v xx i.
  Proof. destruct SPEC as (_ & _ & F3 & _). apply F3. Qed.
  Lemma S_ins : SS ≫= item_ins = []. Proof. by destruct SPEC as (_ & _ & _ & _ & F5 & _). Qed.
  Lemma S_outs : SS ≫= item_outs = []. Proof. by destruct SPEC as (_ & _ & _ & _ & _ & F6). Qed.
  Lemma S_nets y : y ∈ SS ≫= item_nets → ∃ j, g !! y = Some j ∧ n_ty j ≠ BbIn ∧ n_ty j ≠ BbOut.
  Proof.
    intros Hy. destruct (stmtsb_nets g beh L' _ L'_spec' y Hy) as (x & i & Hx & Hi & Hor). destruct (L'_spec x Hx) as (i' & Hi' & Hg & Hgate). assert (i' = i) as -> by congruence.
    destruct Hor as [->|[Ht Hf]].
    - exists i. split; [done|]. by destruct (gc_not_pin _ Hg) as (? & ? & _).
    - destruct (Hgate Ht) as (_ & _ & _ & _ & Hops). assert (Hd : y ∈ dom g) by (by eapply (e_closed _ _ HC)). apply elem_of_dom in Hd as [j Hj]. exists j. split; [done|]. by eapply Hops.
  Qed.

  (* ---- segments of the item list ---- *)
  Lemma bind_items {B0} (f : item → list B0) : m_items m ≫= f = ((AA ≫= f) ++ (BB ≫= f) ++ (WW ≫= f) ++ ((stmt_of <$> XL) ≫= f) ++ (SS ≫= f))%list.
  Proof. destruct Winv as (_ & _ & _ & _ & _ & _ & _ & _ & _ & _ & _ & _ & _ & ->). by rewrite !bind_app. Qed.
  Lemma XL_prim t : t ∈ XL → prim_of_name (bb_name t.1.2) = None ∧ find_def bbl (bb_name t.1.2) = Some t.1.2.
  Proof. intros (ins & outs & _ & Hd & _)%XL_perm. split; [by destruct (e_inst _ _ HC _ _ Hd)|by eapply find_def_bbl]. Qed.
  Lemma X_drivers : (stmt_of <$> XL) ≫= item_drivers = [].
  Proof. rewrite bind_fmap. apply bind_nil_all. intros t Ht. destruct (XL_prim t Ht) as [Hp _]. unfold stmt_of. cbn. unfold inst_drivers. rewrite Hp. done. Qed.
  Lemma E_drivers : drivers m = SS ≫= item_drivers.
  Proof. unfold drivers. rewrite bind_items. unfold AA, BB, WW. rewrite !bind_single_nil by done. by rewrite X_drivers. Qed.
  Lemma E_dins : decl_inputs m = o_ins π.
  Proof.
    unfold decl_inputs. rewrite bind_items. unfold AA, BB, WW. rewrite (bind_single_in (o_ins π)) by done. rewrite !bind_single_nil by done.
    rewrite bind_fmap. rewrite (bind_nil_all _ XL) by done. change (SS ≫= _) with (SS ≫= item_ins). rewrite S_ins. by rewrite !app_nil_r.
  Qed.
  Lemma E_douts : decl_outputs m = o_outs π.
  Proof.
    unfold decl_outputs. rewrite bind_items. unfold AA, BB, WW. rewrite (bind_single_in (o_outs π)) by done. rewrite !bind_single_nil by done.
    rewrite bind_fmap. rewrite (bind_nil_all _ XL) by done. change (SS ≫= _) with (SS ≫= item_outs). rewrite S_outs. by rewrite !app_nil_r.
  Qed.
  Lemma E_drv_names : (drivers m).*1 = L'.*1. Proof. by rewrite E_drivers, S_drv_names. Qed.

  (* nets of the blackbox statements *)
  Lemma X_net t pc w : t ∈ XL → pc ∈ t.2 → pc.2 = Some (cid w) →
    (pc.1 ∈ bb_in t.1.2 ∧ fanin g (pin t.1.1 pc.1) = {[w]} ∧ ∃ j, g !! w = Some j ∧ n_ty j ≠ BbIn ∧ n_ty j ≠ BbOut) ∨
    (pc.1 ∈ bb_out t.1.2 ∧ fanout g (pin t.1.1 pc.1) = {[w]} ∧ ∃ j, g !! w = Some j ∧ n_ty j = Buf ∧ n_fi j = {[pin t.1.1 pc.1]}).
  Proof.
    intros Ht Hpc Ew. destruct (XL_perm t Ht) as (ins & outs & Eps & Hd & N1 & Hi & N2 & Ho). rewrite Eps in Hpc. apply elem_of_bbps in Hpc as [[Hp E]|[Hp E]].
    - left. apply Hi in Hp. split; [done|]. rewrite Ew in E. destruct (head (elements (fanin g (pin t.1.1 pc.1)))) as [w'|] eqn:Eh; [|discriminate]. simpl in E. injection E as ->.
      destruct (in_conn _ _ _ _ Hd Hp Eh) as (i & j & Hi' & Hti & Hfi & Hj & H1 & H2). split; [unfold fanin; by rewrite Hi'|eauto].
    - right. apply Ho in Hp. split; [done|]. rewrite Ew in E. destruct (head (elements (fanout g (pin t.1.1 pc.1)))) as [w'|] eqn:Eh; [|discriminate]. simpl in E. injection E as ->.
      destruct (out_conn _ _ _ _ Hd Hp Eh) as (Hfo & j & Hj & Htj & Hfj). split; [done|eauto].
  Qed.
  Lemma X_pc_shape t pc : t ∈ XL → pc ∈ t.2 → pc.2 = None ∨ ∃ w, pc.2 = Some (cid w).
  Proof.
    intros Ht Hpc. destruct (XL_perm t Ht) as (ins & outs & Eps & _). rewrite Eps in Hpc. apply elem_of_bbps in Hpc as [[_ E]|[_ E]]; rewrite E.
    - destruct (head (elements (fanin g (pin t.1.1 pc.1)))); [right; eauto|by left].
    - destruct (head (elements (fanout g (pin t.1.1 pc.1)))); [right; eauto|by left].
  Qed.
  Lemma X_nets y : y ∈ (stmt_of <$> XL) ≫= item_nets → ∃ j, g !! y = Some j ∧ n_ty j ≠ BbIn ∧ n_ty j ≠ BbOut.
  Proof.
    rewrite bind_fmap. intros (t & Hy & Ht)%elem_of_list_bind. unfold stmt_of in Hy. cbn in Hy. rewrite app_nil_r in Hy. apply elem_of_list_bind in Hy as (pc & Hy & Hpc).
    destruct (X_pc_shape t pc Ht Hpc) as [E|[w E]]; rewrite E in Hy; [by apply elem_of_nil in Hy|]. cbn in Hy. apply elem_of_list_singleton in Hy as ->.
    destruct (X_net t pc w Ht Hpc E) as [(_ & _ & j & ? & ? & ?)|(_ & _ & j & Hj & Hb & _)]; exists j; [done|]. rewrite Hb. done.
  Qed.
  Lemma nets_spec y : y ∈ module_nets m ↔ ∃ j, g !! y = Some j ∧ n_ty j ≠ BbIn ∧ n_ty j ≠ BbOut.
  Proof.
    destruct Winv as (_ & Ei & _ & Eo & _ & _ & _ & _ & _ & _ & _ & _ & Ep & _).
    assert (Hin : ∀ y, y ∈ o_ins π ↔ ∃ j, g !! y = Some j ∧ n_ty j = Input) by (intros z; rewrite <- (elem_of_list_to_set (C:=gset string)), Ei; apply elem_of_inputs).
    assert (Hout : ∀ y, y ∈ o_outs π ↔ ∃ j, g !! y = Some j ∧ n_out j = true) by (intros z; rewrite <- (elem_of_list_to_set (C:=gset string)), Eo; apply elem_of_outputs).
    unfold module_nets. rewrite bind_items, Ep. unfold AA, BB, WW. rewrite (bind_single_in (o_ins π)) by done. rewrite (bind_single_in (o_outs π)) by done. rewrite (bind_single_in (o_nodes π)) by done.
    split.
    - assert (H1 : ∀ z, z ∈ o_ins π → ∃ j, g !! z = Some j ∧ n_ty j ≠ BbIn ∧ n_ty j ≠ BbOut) by (intros z (j & Hj & Ht)%Hin; exists j; rewrite Ht; done).
      assert (H2 : ∀ z, z ∈ o_outs π → ∃ j, g !! z = Some j ∧ n_ty j ≠ BbIn ∧ n_ty j ≠ BbOut).
      { intros z (j & Hj & Ho)%Hout. exists j. split; [done|]. split; intros Ht; rewrite (e_noout _ _ HC z j Hj) in Ho; auto; discriminate. }
      rewrite !elem_of_app. intros [[?|?]|[?|[?|[Hn|[Hx|Hs]]]]]; auto.
      + apply gc_nodes in Hn as (j & Hj & Hg). exists j. split; [done|]. by destruct (gc_not_pin _ Hg) as (? & ? & _).
      + by apply X_nets.
      + by apply S_nets.
    - intros (j & Hj & H1 & H2). destruct (e_ty _ _ HC y j Hj) as [E|[E|[E|E]]]; [| |done|done].
      + apply elem_of_app. left. apply elem_of_app. left. apply Hin. eauto.
      + apply elem_of_app. right. apply elem_of_app. right. apply elem_of_app. right. apply elem_of_app. left. apply gc_nodes. eauto.
  Qed.
  Lemma NN_spec y : y ∈ NN ↔ ∃ j, g !! y = Some j ∧ n_ty j ≠ BbIn ∧ n_ty j ≠ BbOut.
  Proof. rewrite elem_of_list_to_set. apply nets_spec. Qed.

  (* ---- the module without its blackbox statements: the shape lemmas of the blackbox-free proof apply to it ---- *)
  Definition m' : vmodule := {| m_name := m_name m; m_ports := m_ports m; m_items := (AA ++ BB ++ WW ++ SS)%list |}.
  Lemma items'_sub it : it ∈ m_items m' → it ∈ m_items m.
  Proof. destruct Winv as (_ & _ & _ & _ & _ & _ & _ & _ & _ & _ & _ & _ & _ & Em). rewrite Em. simpl. rewrite !elem_of_app. naive_solver. Qed.
  Lemma ids'_sub : (list_to_set (module_ids m') : gset string) ⊆ rsv.
  Proof.
    intros s Hs. apply Hids. apply elem_of_list_to_set in Hs. apply elem_of_list_to_set. unfold module_ids in *. simpl in Hs.
    apply elem_of_cons in Hs as [->|Hs]; [by left|]. right. apply elem_of_app in Hs as [?|Hs]; [apply elem_of_app; by left|]. apply elem_of_app. right.
    apply elem_of_list_bind in Hs as (it & ? & Hit). apply elem_of_list_bind. exists it. split; [done|by apply items'_sub].
  Qed.
  Lemma nets'_eq : (list_to_set (module_nets m') : gset string) = NN.
  Proof.
    apply set_eq. intros y. rewrite !elem_of_list_to_set. split.
    - unfold module_nets. simpl. intros [?|Hs]%elem_of_app; [apply elem_of_app; by left|]. apply elem_of_app. right.
      apply elem_of_list_bind in Hs as (it & ? & Hit). apply elem_of_list_bind. exists it. split; [done|by apply items'_sub].
    - intros Hy. apply nets_spec in Hy as (j & Hj & H1 & H2). destruct Winv as (_ & Ei & _ & _ & _ & _ & _ & _ & _ & _ & _ & _ & Ep & _).
      unfold module_nets. simpl. rewrite Ep. destruct (e_ty _ _ HC y j Hj) as [E|[E|[E|E]]]; [| |done|done].
      + apply elem_of_app. left. apply elem_of_app. left. rewrite <- (elem_of_list_to_set (C:=gset string)), Ei. apply elem_of_inputs. eauto.
      + apply elem_of_app. right. rewrite !bind_app. apply elem_of_app. right. apply elem_of_app. right. apply elem_of_app. left.
        unfold WW. rewrite (bind_single_in (o_nodes π)) by done. apply gc_nodes. eauto.
  Qed.
  Lemma shape' : Forall item_shape (m_items m').
  Proof. simpl. rewrite !Forall_app. unfold AA, BB, WW. split; [by apply Forall_fmap, Forall_forall|]. split; [by apply Forall_fmap, Forall_forall|]. split; [by apply Forall_fmap, Forall_forall|apply S_shape]. Qed.
  Lemma drivers' : drivers m' = SS ≫= item_drivers.
  Proof. unfold drivers. simpl. rewrite !bind_app. unfold AA, BB, WW. by rewrite !bind_single_nil by done. Qed.
  Lemma dins' : decl_inputs m' = o_ins π.
  Proof.
    unfold decl_inputs. simpl. rewrite !bind_app. unfold AA, BB, WW. rewrite (bind_single_in (o_ins π)) by done. rewrite !bind_single_nil by done.
    change (SS ≫= _) with (SS ≫= item_ins). rewrite S_ins. by rewrite !app_nil_r.
  Qed.
  Lemma L'_not_input n : n ∈ L'.*1 → n ∉ o_ins π.
  Proof.
    intros (x & -> & Hx)%elem_of_list_fmap Hin. destruct (L'_spec x Hx) as (i & Hi & Hg & _). destruct Winv as (_ & Ei & _).
    apply (elem_of_list_to_set (C:=gset string)) in Hin. rewrite Ei in Hin. apply elem_of_inputs in Hin as (i' & Hi' & Ht'). assert (i' = i) as -> by congruence.
    by destruct (gc_not_pin _ Hg) as (_ & _ & ?).
  Qed.
  Lemma Hdin' : ∀ n, n ∈ (drivers m').*1 → n ∉ decl_inputs m'.
  Proof. intros n Hn. rewrite drivers', S_drv_names in Hn. rewrite dins'. by apply L'_not_input. Qed.
  Lemma S_not_decl it : it ∈ SS → match it with IInput ns | IOutput ns => ns = [] | _ => True end.
  Proof.
    intros Hit. destruct it as [ns|ns| | |]; try done.
    - destruct ns as [|a ns]; [done|]. exfalso. assert (a ∈ SS ≫= item_ins) by (apply elem_of_list_bind; exists (IInput (a :: ns)); split; [by left|done]). rewrite S_ins in H. by apply elem_of_nil in H.
    - destruct ns as [|a ns]; [done|]. exfalso. assert (a ∈ SS ≫= item_outs) by (apply elem_of_list_bind; exists (IOutput (a :: ns)); split; [by left|done]). rewrite S_outs in H. by apply elem_of_nil in H.
  Qed.
  Lemma S_in' it : it ∈ SS → it ∈ m_items m'. Proof. intros H. simpl. rewrite !elem_of_app. auto. Qed.
  Lemma S_prim it mn insts : it ∈ SS → it = IInst mn insts → is_Some (prim_of_name mn).
  Proof. intros Hit ->. pose proof S_shape as HS. rewrite Forall_forall in HS. destruct (HS _ Hit) as (t & Et & _). eauto. Qed.

  (* ---- drivers with the blackbox-driven nets ---- *)
  Definition XD : list string := XL ≫= (λ t, bb_defs t.1.2 (t.1.1, Named t.2)).
  Lemma elem_of_XD w : w ∈ XD ↔ ∃ t pc, t ∈ XL ∧ pc ∈ t.2 ∧ pc.1 ∈ bb_out t.1.2 ∧ pc.2 = Some (cid w).
  Proof.
    unfold XD. rewrite elem_of_list_bind. split.
    - intros (t & Hw0 & Ht). unfold bb_defs in Hw0. simpl in Hw0. apply elem_of_list_bind in Hw0 as (pc & Hw0 & Hpc). case_bool_decide as Ho; [|by apply elem_of_nil in Hw0].
      destruct (X_pc_shape t pc Ht Hpc) as [E|[w' E]]; rewrite E in Hw0; [by apply elem_of_nil in Hw0|]. simpl in Hw0. apply elem_of_list_singleton in Hw0 as ->. eauto 10.
    - intros (t & pc & Ht & Hpc & Ho & E). exists t. split; [|done]. unfold bb_defs. simpl. apply elem_of_list_bind. exists pc. split; [|done]. rewrite bool_decide_eq_true_2 by done. rewrite E. simpl. by left.
  Qed.
  Lemma XD_buf w : w ∈ XD → ∃ t pc j, t ∈ XL ∧ pc ∈ t.2 ∧ pc.1 ∈ bb_out t.1.2 ∧ pc.2 = Some (cid w) ∧ g !! w = Some j ∧ n_ty j = Buf ∧ n_fi j = {[pin t.1.1 pc.1]}.
  Proof.
    intros (t & pc & Ht & Hpc & Ho & E)%elem_of_XD. destruct (XL_perm t Ht) as (ins & outs & _ & Hd & _).
    destruct (X_net t pc w Ht Hpc E) as [(Hi & _)|(_ & _ & j & Hj & Hb & Hf)]; [exfalso; by apply (bb_disj' _ _ Hd pc.1)|]. exists t, pc, j. done.
  Qed.
  Lemma E_defs : module_defs bbl m = (XD ++ L'.*1)%list.
  Proof.
    unfold module_defs. rewrite bind_items. unfold AA, BB, WW. rewrite !bind_single_nil by done. cbn [app]. f_equal.
    - rewrite bind_fmap. unfold XD. apply bind_ext_in.
      intros t Ht. destruct (XL_prim t Ht) as [Hp Hf]. unfold stmt_of. cbn [item_defs]. rewrite (insts_defs_bb bbl _ t.1.2 _ Hp Hf). cbn. by rewrite app_nil_r.
    - rewrite <- S_drv_names. rewrite bind_fst. apply bind_ext_in. intros it Hit. rewrite <- (xitem_drivers_defs bbl it). f_equal.
      destruct it as [| | |mn insts|]; try done. destruct (S_prim _ mn insts Hit eq_refl) as [t Et]. simpl. by rewrite Et.
  Qed.

  Lemma XL_nodup : NoDup XL.
  Proof. destruct Winv as (_ & _ & _ & _ & _ & _ & _ & _ & Nb & _). apply (NoDup_fmap_1 fst). apply (NoDup_fmap_1 fst). by rewrite XL_names. Qed.
  Lemma XL_inj t1 t2 : t1 ∈ XL → t2 ∈ XL → t1.1.1 = t2.1.1 → t1 = t2.
  Proof.
    intros H1 H2 E. apply (nodup_fmap_inj (λ t : xinst, t.1.1) XL); try done.
    assert (E' : (λ t : xinst, t.1.1) <$> XL = XL.*1.*1) by (by rewrite <- list_fmap_compose). rewrite E', XL_names. by destruct Winv as (_ & _ & _ & _ & _ & _ & _ & _ & Nb & _).
  Qed.
  Lemma bbdefs_elem t w : t ∈ XL → w ∈ bb_defs t.1.2 (t.1.1, Named t.2) → ∃ pc j, pc ∈ t.2 ∧ pc.1 ∈ bb_out t.1.2 ∧ pc.2 = Some (cid w) ∧ g !! w = Some j ∧ n_ty j = Buf ∧ n_fi j = {[pin t.1.1 pc.1]}.
  Proof.
    intros Ht Hw0. assert (Hx : w ∈ XD) by (unfold XD; apply elem_of_list_bind; eauto). unfold bb_defs in Hw0. simpl in Hw0. apply elem_of_list_bind in Hw0 as (pc & Hw0 & Hpc).
    case_bool_decide as Ho; [|by apply elem_of_nil in Hw0]. destruct (X_pc_shape t pc Ht Hpc) as [E|[w' E]]; rewrite E in Hw0; [by apply elem_of_nil in Hw0|]. simpl in Hw0. apply elem_of_list_singleton in Hw0 as ->.
    destruct (XL_perm t Ht) as (ins & outs & _ & Hd & _).
    destruct (X_net t pc w' Ht Hpc E) as [(Hi & _)|(_ & _ & j & Hj & Hb & Hf)]; [exfalso; by apply (bb_disj' _ _ Hd pc.1)|]. exists pc, j. done.
  Qed.
  Lemma defs_nodup : NoDup (module_defs bbl m).
  Proof.
    rewrite E_defs. apply NoDup_app. split; [|split; [|apply L'_nodup]].
    - unfold XD. apply NoDup_bind'; [| |apply XL_nodup].
      + intros t1 t2 w H1 H2 Hw1 Hw2. destruct (bbdefs_elem t1 w H1 Hw1) as (pc1 & j1 & Hp1 & Ho1 & _ & Hj1 & _ & Hf1). destruct (bbdefs_elem t2 w H2 Hw2) as (pc2 & j2 & Hp2 & Ho2 & _ & Hj2 & _ & Hf2).
        assert (j2 = j1) as -> by congruence. rewrite Hf1 in Hf2. apply singleton_inj in Hf2. apply XL_inj; [done|done|].
        destruct (XL_perm t1 H1) as (_ & _ & _ & Hd1 & _). destruct (XL_perm t2 H2) as (_ & _ & _ & Hd2 & _).
        apply (e_apart _ _ HC _ _ _ _ _ _ Hd1 Hd2 (elem_of_union_r _ _ _ Ho1) (elem_of_union_r _ _ _ Ho2) Hf2).
      + intros t Ht. unfold bb_defs. cbn [snd]. apply NoDup_bind'.
        * intros pc1 pc2 w Hp1 Hp2 Hw1 Hw2. cbv beta in Hw1, Hw2.
          destruct (decide (pc1.1 ∈ bb_out t.1.2)) as [Ho1|Ho1]; [rewrite bool_decide_eq_true_2 in Hw1 by done|rewrite bool_decide_eq_false_2 in Hw1 by done; by apply elem_of_nil in Hw1].
          destruct (decide (pc2.1 ∈ bb_out t.1.2)) as [Ho2|Ho2]; [rewrite bool_decide_eq_true_2 in Hw2 by done|rewrite bool_decide_eq_false_2 in Hw2 by done; by apply elem_of_nil in Hw2].
          destruct (X_pc_shape t pc1 Ht Hp1) as [E1|[w1 E1]]; rewrite E1 in Hw1; [by apply elem_of_nil in Hw1|]. destruct (X_pc_shape t pc2 Ht Hp2) as [E2|[w2 E2]]; rewrite E2 in Hw2; [by apply elem_of_nil in Hw2|].
          simpl in Hw1, Hw2. apply elem_of_list_singleton in Hw1. apply elem_of_list_singleton in Hw2. subst w1 w2. destruct (XL_perm t Ht) as (ins & outs & _ & Hd & _).
          destruct (X_net t pc1 w Ht Hp1 E1) as [(Hi & _)|(_ & _ & j1 & Hj1 & _ & Hf1)]; [exfalso; by apply (bb_disj' _ _ Hd pc1.1)|].
          destruct (X_net t pc2 w Ht Hp2 E2) as [(Hi & _)|(_ & _ & j2 & Hj2 & _ & Hf2)]; [exfalso; by apply (bb_disj' _ _ Hd pc2.1)|].
          assert (j2 = j1) as -> by congruence. rewrite Hf1 in Hf2. apply singleton_inj, pin_inj' in Hf2. destruct pc1 as [p1 o1], pc2 as [p2 o2]. simpl in *. congruence.
        * intros pc _. case_bool_decide; [|constructor]. destruct pc.2 as [e|]; [|constructor]. destruct (as_id e); [|constructor]. apply NoDup_singleton.
        * destruct (XL_perm t Ht) as (ins & outs & Eps & Hd & N1 & Hi & N2 & Ho). apply (NoDup_fmap_1 fst). rewrite Eps, bbps_keys. apply NoDup_app. split; [done|]. split; [|done].
          intros p Hp1 Hp2. apply (bb_disj' _ _ Hd p); [by apply Hi|by apply Ho].
    - intros w (t & pc & j & Ht & Hpc & Ho & _ & Hj & Hb & Hf)%XD_buf (x & -> & Hx)%elem_of_list_fmap. destruct (L'_spec x Hx) as (i & Hi & Hg & Hgate). assert (i = j) as -> by congruence.
      destruct Hgate as (_ & _ & _ & _ & Hops); [rewrite Hb; apply buf_gate|]. destruct (XL_perm t Ht) as (_ & _ & _ & Hd & _).
      destruct (e_reg_out _ _ HC _ _ _ Hd Ho) as (ip & Hip & Htp). destruct (Hops (pin t.1.1 pc.1) ip) as [_ Hn]; [rewrite Hf; by apply elem_of_singleton|done|done].
  Qed.
  Lemma E_insts : bb_insts bbl m = XL.
  Proof.
    unfold bb_insts. rewrite bind_items. unfold AA, BB, WW. rewrite !bind_single_nil by done. cbn [app]. rewrite (bind_nil_all _ SS).
    - rewrite app_nil_r, bind_fmap. rewrite (bind_ext_in _ (λ t, [t])).
      + induction XL as [|t l IH]; [done|]. cbn. by rewrite IH.
      + intros t Ht. destruct (XL_prim t Ht) as [Hp Hf]. unfold stmt_of. rewrite Hp, Hf. cbn. by destruct t as [[? ?] ?].
    - intros it Hit. destruct it as [| | |mn insts|]; try done. destruct (S_prim _ mn insts Hit eq_refl) as [t ->]. done.
  Qed.

  (* ---- the guards of the C02 theorems for the written module ---- *)
  Notation DD := (list_to_set (xdrivers bbl m).*1 : gset string).
  Lemma HNN : NN ⊆ rsv. Proof. by apply NN_rsv. Qed.
  Lemma DD_spec z : z ∈ DD ↔ z ∈ XD ∨ z ∈ L'.*1.
  Proof. rewrite elem_of_list_to_set, xdrivers_defs, E_defs. apply elem_of_app. Qed.
  Lemma xd_nodup : NoDup (xdrivers bbl m).*1. Proof. rewrite xdrivers_defs. apply defs_nodup. Qed.
  Lemma pin_not_net t p : t ∈ XL → p ∈ bb_in t.1.2 ∪ bb_out t.1.2 → pin t.1.1 p ∉ NN.
  Proof.
    intros Ht Hp (j & Hj & H1 & H2)%NN_spec. destruct (XL_perm t Ht) as (_ & _ & _ & Hd & _). apply elem_of_union in Hp as [Hp|Hp].
    - destruct (e_reg_in _ _ HC _ _ _ Hd Hp) as (i & Hi & Hti). congruence.
    - destruct (e_reg_out _ _ HC _ _ _ Hd Hp) as (i & Hi & Hti). congruence.
  Qed.
  Lemma G_den : Forall (item_den_ok2 k NN DD) (m_items m).
  Proof.
    destruct Winv as (_ & Ei & _ & _ & _ & _ & _ & _ & _ & _ & _ & _ & _ & Em). rewrite Em. rewrite !Forall_app. split; [|split; [|split; [|split]]].
    - unfold AA. apply Forall_fmap, Forall_forall. intros n Hn. simpl. intros n' ->%elem_of_list_singleton.
      assert (Hi : ∃ j, g !! n = Some j ∧ n_ty j = Input) by (apply elem_of_inputs; rewrite <- Ei; by apply elem_of_list_to_set). destruct Hi as (j & Hj & Htj).
      assert (HnN : n ∈ NN) by (apply NN_spec; exists j; rewrite Htj; done). split; [done|]. split; [by apply HNN|].
      intros [Hx|Hx]%DD_spec; [|by apply (L'_not_input n Hx)]. apply XD_buf in Hx as (_ & _ & j' & _ & _ & _ & _ & Hj' & Hb & _). congruence.
    - unfold BB. by apply Forall_fmap, Forall_forall.
    - unfold WW. by apply Forall_fmap, Forall_forall.
    - apply Forall_fmap, Forall_forall. intros t Ht. destruct (XL_prim t Ht) as [Hp Hf]. unfold stmt_of. cbn [compose item_den_ok2]. rewrite Hp. exists t.1.2. split; [exact Hf|].
      constructor; [|constructor]. exists t.2. split; [done|]. split; [|intros p Hp'; by apply pin_not_net].
      intros pc Hpc. destruct (XL_perm t Ht) as (ins & outs & Eps & Hd & N1 & Hi & N2 & Ho). pose proof Hpc as Hpc'. rewrite Eps in Hpc'. apply elem_of_bbps in Hpc' as [[Hp' _]|[Hp' _]].
      + left. apply Hi in Hp'. split; [done|]. intros ?. by apply (bb_disj' _ _ Hd pc.1).
      + right. apply Ho in Hp'. split; [done|]. split; [intros ?; by apply (bb_disj' _ _ Hd pc.1)|]. destruct (X_pc_shape t pc Ht Hpc) as [E|[w E]]; [by left|right]. exists w. split; [done|].
        destruct (X_net t pc w Ht Hpc E) as [(Hi' & _)|(_ & _ & j & Hj & Hb & _)]; [exfalso; by apply (bb_disj' _ _ Hd pc.1)|]. apply NN_spec. exists j. rewrite Hb. done.
    - pose proof (shape_den rsv bbl m' ids'_sub shape' Hdin') as Hden. rewrite nets'_eq in Hden. apply Forall_forall. intros it Hit. rewrite Forall_forall in Hden. specialize (Hden it (S_in' it Hit)).
      apply den_ok_2; [intros mn insts; by apply S_prim|]. pose proof (S_not_decl it Hit) as Hnd. destruct it as [ns| | | |]; try done. subst ns. intros n Hn. by apply elem_of_nil in Hn.
  Qed.

  Lemma X_pc_net t pc e : t ∈ XL → pc ∈ t.2 → pc.2 = Some e → ∃ w, e = cid w ∧ w ∈ NN.
  Proof.
    intros Ht Hpc E. destruct (X_pc_shape t pc Ht Hpc) as [E'|[w E']]; [congruence|]. exists w. split; [congruence|].
    destruct (X_net t pc w Ht Hpc E') as [(_ & _ & j & Hj & ? & ?)|(_ & _ & j & Hj & Hb & _)]; apply NN_spec; exists j; [done|]. rewrite Hb. done.
  Qed.
  Lemma G_conv : Forall (item_conv_ok k NN) (m_items m).
  Proof.
    destruct Winv as (_ & _ & _ & _ & _ & _ & _ & _ & _ & _ & _ & _ & _ & Em). rewrite Em. rewrite !Forall_app. split; [|split; [|split; [|split]]].
    - unfold AA. by apply Forall_fmap, Forall_forall.
    - unfold BB. by apply Forall_fmap, Forall_forall.
    - unfold WW. by apply Forall_fmap, Forall_forall.
    - apply Forall_fmap, Forall_forall. intros t Ht. destruct (XL_prim t Ht) as [Hp Hf]. unfold stmt_of. cbn [compose item_conv_ok]. rewrite Hp. split; [|done].
      constructor; [|constructor]. unfold cids_ok. cbn [snd conds_of]. apply Forall_forall. intros e (pc & Hpc & E)%elem_of_list_omap.
      destruct (X_pc_net t pc e Ht Hpc E) as (w & -> & HwN). intros s' Hs'. cbn in Hs'. apply elem_of_union in Hs' as [->%elem_of_singleton|Hs']; [by apply HNN|by apply elem_of_empty in Hs'].
    - pose proof (shape_conv rsv bbl m' ids'_sub shape') as Hcv. rewrite nets'_eq in Hcv. apply Forall_forall. intros it Hit. rewrite Forall_forall in Hcv. exact (Hcv it (S_in' it Hit)).
  Qed.
  Lemma G_pin : Forall (item_pin_ok NN) (m_items m).
  Proof.
    pose proof G_conv as Hcv. destruct Winv as (_ & _ & _ & _ & _ & _ & _ & _ & _ & _ & _ & _ & _ & Em). rewrite Em in Hcv |- *. rewrite !Forall_app in Hcv |- *. destruct Hcv as (_ & _ & _ & _ & Hcv).
    split; [|split; [|split; [|split]]].
    - unfold AA. by apply Forall_fmap, Forall_forall.
    - unfold BB. by apply Forall_fmap, Forall_forall.
    - unfold WW. by apply Forall_fmap, Forall_forall.
    - apply Forall_fmap, Forall_forall. intros t Ht. destruct (XL_prim t Ht) as [Hp Hf]. unfold stmt_of. cbn [compose item_pin_ok]. rewrite Hp.
      constructor; [|constructor]. exists t.2. split; [done|]. split.
      + destruct (XL_perm t Ht) as (ins & outs & Eps & Hd & N1 & Hi & N2 & Ho). rewrite Eps, bbps_keys. apply NoDup_app. split; [done|]. split; [|done].
        intros p Hp1 Hp2. apply (bb_disj' _ _ Hd p); [by apply Hi|by apply Ho].
      + intros pc Hpc e E. destruct (X_pc_net t pc e Ht Hpc E) as (w & -> & HwN). unfold ids_in. intros s' Hs'. cbn in Hs'. apply elem_of_union in Hs' as [->%elem_of_singleton|Hs']; [done|by apply elem_of_empty in Hs'].
    - apply Forall_forall. intros it Hit. rewrite Forall_forall in Hcv. specialize (Hcv it Hit). destruct it as [| | |mn insts|l]; try done.
      + destruct (S_prim _ mn insts Hit eq_refl) as [t Et]. simpl in Hcv |- *. rewrite Et in Hcv |- *. destruct Hcv as [_ Hcv].
        eapply Forall_impl; [exact Hcv|]. intros ic (n & ins & E & [_ Hd] & _). exists n, ins. split; [done|]. intros e He s' Hs''. apply Hd. simpl.
        apply elem_of_list_to_set. apply elem_of_list_to_set in Hs''. apply elem_of_list_bind. eauto.
  Qed.
  Lemma G_bbok : bb_items_ok rsv bbl m.
  Proof.
    unfold bb_items_ok. destruct Winv as (_ & _ & _ & _ & _ & _ & _ & _ & _ & _ & _ & _ & _ & Em). rewrite Em. rewrite !Forall_app. split; [|split; [|split; [|split]]].
    - unfold AA. by apply Forall_fmap, Forall_forall.
    - unfold BB. by apply Forall_fmap, Forall_forall.
    - unfold WW. by apply Forall_fmap, Forall_forall.
    - apply Forall_fmap, Forall_forall. intros t Ht. destruct (XL_prim t Ht) as [Hp Hf]. unfold stmt_of. cbn [compose item_bb_ok]. rewrite Hp. cbn [k_bbs init_ctx fst]. rewrite Hf.
      destruct (XL_perm t Ht) as (_ & _ & _ & Hd & _). split; [by eapply bb_disj'|]. constructor; [|constructor]. by destruct (e_inst _ _ HC _ _ Hd).
    - apply Forall_forall. intros it Hit. destruct it as [| | |mn insts|]; try done. destruct (S_prim _ mn insts Hit eq_refl) as [t Et]. simpl. by rewrite Et.
  Qed.
  Lemma G_io : Forall (item_ok k (list_to_set (decl_inputs m))) (m_items m).
  Proof.
    pose proof (shape_io rsv bbl m' shape' Hdin') as Hio. rewrite dins' in Hio. rewrite E_dins. destruct Winv as (_ & Ei & _ & _ & _ & _ & _ & _ & _ & _ & _ & _ & _ & Em). rewrite Em.
    change (m_items m') with (AA ++ BB ++ WW ++ SS)%list in Hio. rewrite !Forall_app in Hio. rewrite !Forall_app. destruct Hio as (H1 & H2 & H3 & H4). split; [done|]. split; [done|]. split; [done|]. split; [|done].
    apply Forall_fmap, Forall_forall. intros t Ht. destruct (XL_prim t Ht) as [Hp Hf]. unfold stmt_of. cbn [compose item_ok]. rewrite Hp. cbn [k_bbs init_ctx fst]. rewrite Hf. intros d [= <-].
    constructor; [|constructor]. exists t.2. split; [done|]. intros pc Hpc Ho. destruct (X_pc_shape t pc Ht Hpc) as [E|[w E]]; [by left|right]. exists w. split; [done|].
    destruct (XL_perm t Ht) as (_ & _ & _ & Hd & _). destruct (X_net t pc w Ht Hpc E) as [(Hi' & _)|(_ & _ & j & Hj & Hb & _)]; [exfalso; by apply (bb_disj' _ _ Hd pc.1)|].
    rewrite Ei. intros (j' & Hj' & Ht')%elem_of_inputs. congruence.
  Qed.
  Lemma G_names : names_ok m.
  Proof. intros s' (j & Hj & _)%nets_spec. apply (e_names _ _ HC). apply elem_of_dom; eauto. Qed.
  Lemma G_nodots : nodots m.
  Proof. intros s' (j & Hj & H1 & H2)%nets_spec. by eapply (e_nodot _ _ HC). Qed.
  Lemma G_apart : pins_apart (bb_insts bbl m).
  Proof.
    rewrite E_insts. intros x y p q Hx Hy Hne Hp Hq E. apply Hne. destruct (XL_perm x Hx) as (_ & _ & _ & Hd1 & _). destruct (XL_perm y Hy) as (_ & _ & _ & Hd2 & _).
    exact (e_apart _ _ HC _ _ _ _ _ _ Hd1 Hd2 Hp Hq E).
  Qed.
  Lemma G_inames : NoDup ((bb_insts bbl m).*1.*1).
  Proof. rewrite E_insts, XL_names. by destruct Winv as (_ & _ & _ & _ & _ & _ & _ & _ & Nb & _). Qed.
  Lemma XL_complete inst d : bbs !! inst = Some d → ∃ t, t ∈ XL ∧ t.1.1 = inst ∧ t.1.2 = d.
  Proof.
    intros Hd. destruct Winv as (_ & _ & _ & _ & _ & _ & _ & _ & _ & Eb & Fb & _).
    assert (Hin : inst ∈ (o_bbs π).*1.*1) by (apply (elem_of_list_to_set (C:=gset string)); rewrite Eb; apply elem_of_dom; eauto).
    apply elem_of_list_fmap in Hin as (y & -> & Hy). apply elem_of_list_fmap in Hy as (x & -> & Hx). exists (x.1.1, d, bbps g x.1.1 x.1.2 x.2). split; [|done].
    apply elem_of_XL. exists x. done.
  Qed.
  Lemma bbnet_XD s' j q iq : g !! s' = Some j → q ∈ n_fi j → g !! q = Some iq → n_ty iq = BbOut → s' ∈ XD.
  Proof.
    intros Hj Hq Hiq Hty. destruct (e_pin_reg _ _ HC q iq Hiq (or_intror Hty)) as (inst & d & p & Hd & -> & Hp). destruct (XL_complete inst d Hd) as (t & Ht & E1 & E2).
    assert (Hpo : p ∈ bb_out d). { apply elem_of_union in Hp as [Hp|Hp]; [|done]. destruct (e_reg_in _ _ HC _ _ _ Hd Hp) as (i' & Hi' & Hti'). congruence. }
    destruct (XL_perm t Ht) as (ins & outs & Eps & _ & _ & _ & _ & Ho). rewrite E1, E2 in *.
    assert (Hh : head (elements (fanout g (pin inst p))) = Some s').
    { assert (Hxf : s' ∈ fanout g (pin inst p)) by (apply elem_of_fanout; eauto).
      destruct (head_small _ (e_bbout_fo1 _ _ HC _ _ Hiq Hty)) as [[E _]|(v & Ev & E)]; [rewrite E in Hxf; by apply elem_of_empty in Hxf|]. rewrite Ev in Hxf. apply elem_of_singleton in Hxf. by subst. }
    apply elem_of_XD. exists t, (p, Some (cid s')). rewrite E2. split; [done|]. split; [|done]. rewrite Eps. apply elem_of_bbps. right. simpl. split; [by apply Ho|]. by rewrite Hh.
  Qed.
  Lemma G_outs : outs_driven2 bbl m.
  Proof.
    intros s' Hs'. rewrite E_douts in Hs'. rewrite E_dins, E_drv_names, E_insts. destruct Winv as (_ & Ei & _ & Eo & _).
    apply (elem_of_list_to_set (C:=gset string)) in Hs'. rewrite Eo in Hs'. apply elem_of_outputs in Hs' as (j & Hj & Ho).
    destruct (e_ty _ _ HC s' j Hj) as [E|[E|E]].
    - left. apply (elem_of_list_to_set (C:=gset string)). rewrite Ei. apply elem_of_inputs. eauto.
    - right. destruct (decide (n_fi j ∩ of_type g (is_ty BbOut) = ∅)) as [Hno|Hyes].
      + left. apply (in_L' s' j Hj E). intros q iq Hq Hiq Hty. assert (Hin : q ∈ n_fi j ∩ of_type g (is_ty BbOut)).
        { apply elem_of_intersection. split; [done|]. apply elem_of_of_type. exists iq. split; [done|]. rewrite Hty. done. }
        rewrite Hno in Hin. by apply elem_of_empty in Hin.
      + right. apply set_choose_L in Hyes as [q [Hq (iq & Hiq & Hty)%elem_of_of_type]%elem_of_intersection]. unfold is_ty in Hty. apply bool_decide_eq_true in Hty. symmetry in Hty.
        pose proof (bbnet_XD s' j q iq Hj Hq Hiq Hty) as Hx. unfold XD in Hx. apply elem_of_list_bind in Hx as (t & Hx & Ht). unfold netsL. apply elem_of_union_list.
        exists (xnets t). split; [apply elem_of_list_fmap; eauto|]. unfold xnets. by apply elem_of_list_to_set.
    - exfalso. rewrite (e_noout _ _ HC s' j Hj E) in Ho. discriminate.
  Qed.
  Lemma G_ports : ports_match m = true.
  Proof. unfold ports_match. apply bool_decide_eq_true. rewrite E_dins, E_douts. destruct Winv as (_ & _ & _ & _ & _ & _ & _ & _ & _ & _ & _ & _ & Ep & _). rewrite Ep. by rewrite list_to_set_app_L. Qed.

  Lemma read_ok : ∃ C', read rsv bbl m = Ok C'.
  Proof. exact (read_succeeds_bb_items rsv bbl m G_ports HNN G_den xd_nodup G_pin G_inames G_outs G_names G_nodots G_bbok G_apart). Qed.

  (* ---- the read-back circuit ---- *)
  Definition cpins : gset string := dom (filter (λ p : string * ninfo, n_ty p.2 = BbIn ∧ n_fi p.2 ≠ ∅) g).
  Lemma reg_eq : (list_to_map (regL XL) : gmap string bbdef) = bbs.
  Proof.
    assert (Hnd : NoDup (regL XL).*1). { unfold regL. rewrite <- list_fmap_compose. assert (E : (fst ∘ (λ x : xinst, (x.1.1, x.1.2))) <$> XL = XL.*1.*1) by (by rewrite <- list_fmap_compose). rewrite E, XL_names. by destruct Winv as (_ & _ & _ & _ & _ & _ & _ & _ & Nb & _). }
    apply map_eq. intros i. destruct (bbs !! i) as [d|] eqn:Ed.
    - apply elem_of_list_to_map_1; [done|]. destruct (XL_complete i d Ed) as (t & Ht & E1 & E2). apply elem_of_list_fmap. exists t. rewrite E1, E2. done.
    - apply not_elem_of_list_to_map_1. intros (id & -> & (t & -> & Ht)%elem_of_list_fmap)%elem_of_list_fmap. simpl in Ed. destruct (XL_perm t Ht) as (_ & _ & _ & Hd & _). congruence.
  Qed.
  Lemma pin_inst p i : g !! p = Some i → n_ty i = BbIn ∨ n_ty i = BbOut →
    ∃ t q ins outs, t ∈ XL ∧ p = pin t.1.1 q ∧ bbs !! t.1.1 = Some t.1.2 ∧ t.2 = bbps g t.1.1 ins outs ∧ NoDup t.2.*1 ∧ (∀ z, z ∈ ins ↔ z ∈ bb_in t.1.2) ∧ (∀ z, z ∈ outs ↔ z ∈ bb_out t.1.2) ∧
      ((n_ty i = BbIn ∧ q ∈ bb_in t.1.2) ∨ (n_ty i = BbOut ∧ q ∈ bb_out t.1.2)).
  Proof.
    intros Hi Hty. destruct (e_pin_reg _ _ HC p i Hi Hty) as (inst & d & q & Hd & -> & Hq). destruct (XL_complete inst d Hd) as (t & Ht & E1 & E2).
    destruct (XL_perm t Ht) as (ins & outs & Eps & Hd' & N1 & Hin & N2 & Hout). exists t, q, ins, outs. rewrite E1, E2 in *. repeat (split; [done|]). split.
    { rewrite Eps, bbps_keys. apply NoDup_app. split; [done|]. split; [|done]. intros z Hz1 Hz2. apply (bb_disj' _ _ Hd z); [by apply Hin|by apply Hout]. }
    split; [done|]. split; [done|]. apply elem_of_union in Hq as [Hq|Hq].
    - left. split; [|done]. destruct (e_reg_in _ _ HC _ _ _ Hd Hq) as (i' & Hi' & Hti'). congruence.
    - right. split; [|done]. destruct (e_reg_out _ _ HC _ _ _ Hd Hq) as (i' & Hi' & Hti'). congruence.
  Qed.

  Theorem roundtrip_equiv_bb : ∃ C', read rsv bbl m = Ok C' ∧ c_name C' = c_name C ∧ inputs (c_g C') = inputs g ∧ outputs (c_g C') = outputs g ∧ c_bbs C' = bbs ∧
    (∀ p, p ∈ of_type g (is_ty BbIn) → ty (c_g C') p = Some BbIn ∧ fanin (c_g C') p = fanin g p) ∧
    (∀ p, p ∈ of_type g (is_ty BbOut) → fanout (c_g C') p = fanout g p) ∧
    equiv_on_x (dom g) g (c_g C').
  Proof.
    destruct read_ok as [C' HC']. exists C'. split; [done|]. split; [rewrite (read_name _ _ _ _ HC'); by destruct Winv as (_ & _ & _ & _ & _ & _ & _ & _ & _ & _ & _ & En & _)|].
    destruct (read_io_items rsv bbl m C' G_io Hids HC') as [Hin' Hout']. rewrite E_dins in Hin'. rewrite E_douts in Hout'. destruct Winv as (_ & Ei & _ & Eo & _). rewrite Ei in Hin'. rewrite Eo in Hout'.
    split; [done|]. split; [done|].
    destruct (read_bb_pins_items rsv bbl m C' HNN G_den xd_nodup G_pin HC') as (Hreg & Hpins & Hnoread). rewrite E_insts in Hreg, Hpins, Hnoread. fold (regL XL) in Hreg. rewrite reg_eq in Hreg. split; [done|].
    assert (Hpin_in : ∀ p, p ∈ of_type g (is_ty BbIn) → ty (c_g C') p = Some BbIn ∧ fanin (c_g C') p = fanin g p).
    { intros p (i & Hi & Ht)%elem_of_of_type. unfold is_ty in Ht. apply bool_decide_eq_true in Ht. symmetry in Ht.
      destruct (pin_inst p i Hi (or_introl Ht)) as (t & q & ins & outs & Ht' & -> & Hd & Eps & Hnd & Hins & Houts & [[_ Hq]|[E _]]); [|congruence].
      set (o := cid <$> head (elements (fanin g (pin t.1.1 q)))). assert (Hpc : (q, o) ∈ t.2) by (rewrite Eps; apply elem_of_bbps; left; split; [by apply Hins|done]).
      pose proof (Hpins t Ht') as Hok. destruct t as [[inst d] ps]. simpl in *. destruct (bb_ok_in _ _ _ _ _ _ Hok Hnd Hq Hpc) as [Hty Hfi]. split; [done|].
      unfold o in Hfi. destruct (head (elements (fanin g (pin inst q)))) as [w|] eqn:Eh; simpl in Hfi.
      - rewrite (Hfi w eq_refl). destruct (in_conn _ _ _ _ Hd Hq Eh) as (i' & j & Hi' & _ & Hf' & _). unfold fanin at 1. by rewrite Hi'.
      - rewrite Hfi. symmetry. by eapply in_open. }
    split; [done|].
    assert (Hpin_out : ∀ p, p ∈ of_type g (is_ty BbOut) → ty (c_g C') p = Some BbOut ∧ fanout (c_g C') p = fanout g p ∧
               ∀ q, q ∈ fanout g p → ty (c_g C') q = Some Buf ∧ fanin (c_g C') q = {[p]}).
    { intros p (i & Hi & Ht)%elem_of_of_type. unfold is_ty in Ht. apply bool_decide_eq_true in Ht. symmetry in Ht.
      destruct (pin_inst p i Hi (or_intror Ht)) as (t & q & ins & outs & Ht' & -> & Hd & Eps & Hnd & Hins & Houts & [[E _]|[_ Hq]]); [congruence|].
      set (o := cid <$> head (elements (fanout g (pin t.1.1 q)))). assert (Hpc : (q, o) ∈ t.2) by (rewrite Eps; apply elem_of_bbps; right; split; [by apply Houts|done]).
      pose proof (Hpins t Ht') as Hok. destruct t as [[inst d] ps]. simpl in *. destruct (bb_ok_out _ _ _ _ _ _ Hok Hnd Hq Hpc) as [Hty Hfo]. split; [done|].
      unfold o in Hfo. destruct (head (elements (fanout g (pin inst q)))) as [w|] eqn:Eh; simpl in Hfo.
      - destruct (Hfo w eq_refl) as (F1 & F2 & F3). destruct (out_conn _ _ _ _ Hd Hq Eh) as (Efo & _). rewrite F1, Efo. split; [done|]. intros q' ->%elem_of_singleton. done.
      - rewrite Hfo. pose proof (out_open _ _ _ Hd Hq Eh) as Efo. rewrite Efo. split; [done|]. intros q' Hq'. by apply elem_of_empty in Hq'. }
    split; [intros p Hp; by destruct (Hpin_out p Hp) as (_ & ? & _)|].
    (* values of the connected input pins in both circuits *)
    assert (Hcp : ∀ p, p ∈ cpins → ∃ i d j, g !! p = Some i ∧ n_ty i = BbIn ∧ n_fi i = {[d]} ∧ g !! d = Some j ∧ n_ty j ≠ BbIn ∧ n_ty j ≠ BbOut ∧ ty (c_g C') p = Some BbIn ∧ fanin (c_g C') p = {[d]}).
    { intros p Hp. unfold cpins in Hp. apply elem_of_dom in Hp as [i Hi]. apply map_filter_lookup_Some in Hi as [Hi [Hti Hne]]. simpl in Hti, Hne.
      destruct (head_small (n_fi i) (e_bbin_fi _ _ HC _ _ Hi Hti)) as [[E _]|(d & Ed & _)]; [done|].
      assert (Hdd : d ∈ dom g) by (eapply (e_closed _ _ HC); [exact Hi|rewrite Ed; by apply elem_of_singleton]). apply elem_of_dom in Hdd as [j Hj].
      destruct (Hpin_in p) as [Hty Hfi]; [apply elem_of_of_type; exists i; split; [done|]; rewrite Hti; done|]. exists i, d, j. repeat (split; [done|]).
      split. { intros Htj. apply (e_bbin_fo _ _ HC _ _ _ _ Hj Htj Hi). rewrite Ed. by apply elem_of_singleton. }
      split. { intros Htj. assert (n_ty i = Buf) by (eapply (e_bbout_fo _ _ HC _ _ _ _ Hj Htj Hi); rewrite Ed; by apply elem_of_singleton). congruence. }
      split; [done|]. rewrite Hfi. unfold fanin. by rewrite Hi. }
    assert (Hdrv : ∀ n, n ∈ L'.*1 → ∃ i d, g !! n = Some i ∧ gc_type (n_ty i) ∧ (n, d) ∈ drivers m ∧ ∀ v xx, sem_driver v xx d = node_val v xx i).
    { intros n Hn. rewrite <- E_drv_names in Hn. apply elem_of_list_fmap in Hn as ([n' d] & -> & Hin). pose proof Hin as Hin2. rewrite E_drivers in Hin2. destruct (S_drv _ _ Hin2) as (i & Hi & Hg & Hsem). exists i, d. done. }
    split.
    - intros w Hcw. pose proof (read_sound_items2 rsv bbl m C' NN HNN G_den xd_nodup HC' w Hcw) as Hsat. set (X := w (k_tx k)) in *.
      set (v := (λ n, match g !! n with
                      | Some i => match n_ty i with
                                  | BbIn => match head (elements (n_fi i)) with Some d => w d | None => w n end
                                  | BbOut => match head (elements (fanout g n)) with Some q => w q | None => w n end
                                  | _ => w n end
                      | None => w n end) : val).
      assert (Hv1 : ∀ y j, g !! y = Some j → n_ty j ≠ BbIn → n_ty j ≠ BbOut → v y = w y) by (intros y j Hj H1 H2; unfold v; rewrite Hj; destruct (n_ty j); done).
      assert (Hnv : ∀ n, n ∈ L'.*1 → ∃ i, g !! n = Some i ∧ gc_type (n_ty i) ∧ w n = node_val w X i).
      { intros n Hn. destruct (Hdrv n Hn) as (i & d & Hi & Hg & Hd & Hsem). exists i. split; [done|]. split; [done|]. rewrite (Hsat n d Hd). apply Hsem. }
      exists v. split; [|split].
      + intros n i Hi. destruct (e_ty _ _ HC n i Hi) as [E|[Hg|[E|E]]].
        * unfold node_ok, is_free. by rewrite E.
        * destruct (decide (n_fi i ∩ of_type g (is_ty BbOut) = ∅)) as [Hno|Hyes].
          -- assert (HnL : n ∈ L'.*1).
             { apply (in_L' n i Hi Hg). intros q iq Hq Hiq Hty. assert (Hin : q ∈ n_fi i ∩ of_type g (is_ty BbOut)) by (apply elem_of_intersection; split; [done|]; apply elem_of_of_type; exists iq; split; [done|]; rewrite Hty; done).
               rewrite Hno in Hin. by apply elem_of_empty in Hin. }
             destruct (Hnv n HnL) as (i' & Hi' & _ & Hval). assert (i' = i) as -> by congruence.
             apply (proj2 (node_ok_val v X n i Hg (e_gate _ _ HC n i Hi))). rewrite (Hv1 n i Hi) by (by destruct (gc_not_pin _ Hg) as (? & ? & _)). rewrite Hval.
             unfold node_val. assert (Hgv : ∀ t, gate_val t v (n_fi i) = gate_val t w (n_fi i)).
             { intros t. apply gate_val_ext. intros f Hf. assert (Hfd : f ∈ dom g) by (by eapply (e_closed _ _ HC)). apply elem_of_dom in Hfd as [j Hj]. apply (Hv1 f j Hj).
               - intros Htj. exact (e_bbin_fo _ _ HC _ _ _ _ Hj Htj Hi Hf).
               - intros Htj. assert (Hin : f ∈ n_fi i ∩ of_type g (is_ty BbOut)) by (apply elem_of_intersection; split; [done|]; apply elem_of_of_type; exists j; split; [done|]; rewrite Htj; done).
                 rewrite Hno in Hin. by apply elem_of_empty in Hin. }
             destruct (n_ty i); by rewrite ?Hgv.
          -- apply set_choose_L in Hyes as [q [Hq (iq & Hiq & Hty)%elem_of_of_type]%elem_of_intersection]. unfold is_ty in Hty. apply bool_decide_eq_true in Hty. symmetry in Hty.
             destruct (reads_pin n i q iq Hi Hq Hiq (or_intror Hty)) as (_ & Hb & Es). unfold node_ok, is_free. rewrite Hb, Es.
             rewrite bool_decide_eq_false_2 by (intros E; assert (q ∈ (∅ : gset string)) by (rewrite <- E; by apply elem_of_singleton); by apply elem_of_empty in H).
             rewrite gv_buf. rewrite (Hv1 n i Hi) by (rewrite Hb; done). unfold v at 1. rewrite Hiq, Hty.
             assert (Hh : head (elements (fanout g q)) = Some n).
             { assert (Hxf : n ∈ fanout g q) by (apply elem_of_fanout; eauto).
               destruct (head_small _ (e_bbout_fo1 _ _ HC _ _ Hiq Hty)) as [[E _]|(z & Ev & E)]; [rewrite E in Hxf; by apply elem_of_empty in Hxf|]. rewrite Ev in Hxf. apply elem_of_singleton in Hxf. by subst. }
             by rewrite Hh.
        * unfold node_ok, is_free. rewrite E. case_bool_decide as Hfe; [done|]. destruct (head_small (n_fi i) (e_bbin_fi _ _ HC _ _ Hi E)) as [[E0 _]|(d & Ed & Eh)]; [done|].
          rewrite Ed, gv_bbin. unfold v at 1. rewrite Hi, E, Eh.
          assert (Hdd : d ∈ dom g) by (eapply (e_closed _ _ HC); [exact Hi|rewrite Ed; by apply elem_of_singleton]). apply elem_of_dom in Hdd as [j Hj]. symmetry. apply (Hv1 d j Hj).
          -- intros Htj. apply (e_bbin_fo _ _ HC _ _ _ _ Hj Htj Hi). rewrite Ed. by apply elem_of_singleton.
          -- intros Htj. assert (n_ty i = Buf) by (eapply (e_bbout_fo _ _ HC _ _ _ _ Hj Htj Hi); rewrite Ed; by apply elem_of_singleton). congruence.
        * unfold node_ok, is_free. by rewrite E.
      + exists X. intros n (i & Hi & Ht)%elem_of_of_type. unfold is_ty in Ht. apply bool_decide_eq_true in Ht.
        assert (Hg : gc_type (n_ty i)) by (rewrite <- Ht; unfold gc_type; auto).
        assert (HnL : n ∈ L'.*1). { apply (in_L' n i Hi Hg). intros q iq Hq Hiq Hty. destruct (reads_pin n i q iq Hi Hq Hiq (or_intror Hty)) as (_ & Hb & _). congruence. }
        destruct (Hnv n HnL) as (i' & Hi' & _ & Hval). assert (i' = i) as -> by congruence. rewrite (Hv1 n i Hi) by (rewrite <- Ht; done). rewrite Hval. unfold node_val. by rewrite <- Ht.
      + intros n [i0 Hi0]%elem_of_dom. destruct (decide (n_ty i0 = BbIn)) as [Ht0|Hnin].
        * destruct (decide (n_fi i0 = ∅)) as [E0|Hne0].
          { unfold v. rewrite Hi0, Ht0, E0, elements_empty. done. }
          assert (Hn : n ∈ cpins) by (unfold cpins; apply elem_of_dom; exists i0; by apply map_filter_lookup_Some).
          destruct (Hcp n Hn) as (i & d & j & Hi & Hti & Hfi & Hj & H1 & H2 & Hty' & Hfi'). unfold v. rewrite Hi, Hti, Hfi.
          assert (Eh : head (elements ({[d]} : gset string)) = Some d) by (by rewrite elements_singleton). rewrite Eh. symmetry. by apply (pin_val (c_g C') w n d).
        * destruct (decide (n_ty i0 = BbOut)) as [Ht0|Hnout]; [|by apply (Hv1 n i0 Hi0)].
          unfold v. rewrite Hi0, Ht0. destruct (head (elements (fanout g n))) as [q|] eqn:Eh; [|done].
          destruct (Hpin_out n) as (_ & _ & Hq); [apply elem_of_of_type; exists i0; split; [done|]; rewrite Ht0; done|].
          destruct (Hq q) as [F2 F3]; [by apply elem_of_elements, head_elem|]. by apply (buf_val (c_g C') w q n).
    - intros v Hcv [X HX].
      destruct (read_conv_items rsv bbl m C' NN HNN G_den G_conv xd_nodup HC' v X) as (w & Cw & Aw).
      { intros n d Hin. rewrite E_drivers in Hin. destruct (S_drv _ _ Hin) as (i & Hi & Hg & Hsem). rewrite Hsem.
        apply (proj1 (node_ok_val v X n i Hg (e_gate _ _ HC n i Hi))). split; [by apply Hcv|]. intros Ecx. apply HX. apply elem_of_of_type. exists i. split; [done|]. rewrite Ecx. done. }
      set (upins := dom (filter (λ p : string * ninfo, (n_ty p.2 = BbIn ∧ n_fi p.2 = ∅) ∨ (n_ty p.2 = BbOut ∧ fanout g p.1 = ∅)) g) : gset string).
      assert (Hup : ∀ p, p ∈ upins ↔ ∃ i, g !! p = Some i ∧ ((n_ty i = BbIn ∧ n_fi i = ∅) ∨ (n_ty i = BbOut ∧ fanout g p = ∅))).
      { intros p. unfold upins. rewrite elem_of_dom. split; [intros [i Hi]; apply map_filter_lookup_Some in Hi as [? ?]; eauto|intros (i & ? & ?); exists i; by apply map_filter_lookup_Some]. }
      set (w' := (λ n, if bool_decide (n ∈ upins) then v n else w n) : val).
      assert (Hw'1 : ∀ n, n ∉ upins → w' n = w n) by (intros n Hn; unfold w'; by rewrite bool_decide_eq_false_2).
      exists w'. split.
      + intros y j Hy. destruct (decide (y ∈ upins)) as [Hyu|Hyu].
        * apply Hup in Hyu as (i & Hi & [[Hti Hfi]|[Hti Hfo]]).
          -- destruct (Hpin_in y) as [Hty' Hfi']; [apply elem_of_of_type; exists i; split; [done|]; rewrite Hti; done|].
             unfold ty, fanin in Hty', Hfi'. rewrite Hy in Hty', Hfi'. simpl in Hty', Hfi'. injection Hty' as Hty'. unfold fanin in Hfi'. rewrite Hi in Hfi'. simpl in Hfi'.
             unfold node_ok, is_free. rewrite Hty', Hfi', Hfi. by rewrite bool_decide_eq_true_2.
          -- destruct (Hpin_out y) as (Hty' & _); [apply elem_of_of_type; exists i; split; [done|]; rewrite Hti; done|].
             unfold ty in Hty'. rewrite Hy in Hty'. simpl in Hty'. injection Hty' as Hty'. unfold node_ok, is_free. by rewrite Hty'.
        * apply (node_ok_ext w w' y y j); [by rewrite Hw'1| |by apply Cw]. intros f Hf. symmetry. apply Hw'1. intros (i & Hi & [[Hti Hfi]|[Hti Hfo]])%Hup.
          -- destruct (pin_inst f i Hi (or_introl Hti)) as (t & q & ins & outs & Ht' & -> & Hd & Eps & Hnd & Hins & Houts & [[_ Hq]|[E _]]); [|congruence].
             exact (Hnoread y j Hy t q Ht' Hq Hf).
          -- destruct (Hpin_out f) as (_ & Hfo' & _); [apply elem_of_of_type; exists i; split; [done|]; rewrite Hti; done|].
             assert (Hin : y ∈ fanout (c_g C') f) by (apply elem_of_fanout; eauto). rewrite Hfo', Hfo in Hin. by apply elem_of_empty in Hin.
      + intros n [i0 Hi0]%elem_of_dom. destruct (decide (n_ty i0 = BbIn)) as [Ht0|Hnin].
        * destruct (decide (n_fi i0 = ∅)) as [E0|Hne0].
          { unfold w'. rewrite bool_decide_eq_true_2; [done|]. apply Hup. eauto. }
          assert (Hn : n ∈ cpins) by (unfold cpins; apply elem_of_dom; exists i0; by apply map_filter_lookup_Some).
          rewrite Hw'1 by (intros (i' & Hi' & [[_ Hfi']|[Hti' _]])%Hup; congruence).
          destruct (Hcp n Hn) as (i & d & j & Hi & Hti & Hfi & Hj & H1 & H2 & Hty' & Hfi'). rewrite (pin_val (c_g C') w n d Cw Hty' Hfi'). rewrite Aw by (apply NN_spec; eauto).
          symmetry. apply (pin_val g v n d Hcv); [unfold ty; rewrite Hi; simpl; by rewrite Hti|unfold fanin; rewrite Hi; simpl; exact Hfi].
        * destruct (decide (n_ty i0 = BbOut)) as [Ht0|Hnout].
          -- destruct (decide (fanout g n = ∅)) as [E0|Hne0].
             { unfold w'. rewrite bool_decide_eq_true_2; [done|]. apply Hup. eauto. }
             rewrite Hw'1 by (intros (i' & Hi' & [[Hti' _]|[_ Hfo']])%Hup; congruence).
             apply set_choose_L in Hne0 as [q Hq]. destruct (Hpin_out n) as (_ & _ & HqC); [apply elem_of_of_type; exists i0; split; [done|]; rewrite Ht0; done|].
             destruct (HqC q Hq) as [F2 F3]. rewrite <- (buf_val (c_g C') w q n Cw F2 F3). apply elem_of_fanout in Hq as (jq & Hjq & Hinq).
             destruct (reads_pin q jq n i0 Hjq Hinq Hi0 (or_intror Ht0)) as (_ & Hbq & Efq). rewrite Aw by (apply NN_spec; exists jq; rewrite Hbq; done).
             apply (buf_val g v q n Hcv); [unfold ty; rewrite Hjq; simpl; by rewrite Hbq|unfold fanin; rewrite Hjq; simpl; exact Efq].
          -- rewrite Hw'1 by (intros (i' & Hi' & [[Hti' _]|[Hti' _]])%Hup; congruence). apply Aw. apply NN_spec. eauto.
  Qed.
End eqbb.

Corollary roundtrip_equiv_bb_ends C beh π m rsv : rteb_clean (c_g C) (c_bbs C) → write C beh π = Ok m → (list_to_set (module_ids m) : gset string) ⊆ rsv →
  ∃ C', read rsv (map_to_list (c_bbs C)).*2 m = Ok C' ∧ c_name C' = c_name C ∧ inputs (c_g C') = inputs (c_g C) ∧ outputs (c_g C') = outputs (c_g C) ∧ c_bbs C' = c_bbs C ∧
    (∀ p, p ∈ of_type (c_g C) (is_ty BbIn) → ty (c_g C') p = Some BbIn ∧ fanin (c_g C') p = fanin (c_g C) p) ∧
    (∀ p, p ∈ of_type (c_g C) (is_ty BbOut) → fanout (c_g C') p = fanout (c_g C) p) ∧
    equiv_on_x (outputs (c_g C) ∪ of_type (c_g C) (is_ty BbIn)) (c_g C) (c_g C').
Proof.
  intros HC Hw Hids. destruct (roundtrip_equiv_bb C beh π m rsv HC Hw Hids) as (C' & H1 & H2 & H3 & H4 & H5 & H6 & H7 & H8).
  exists C'. repeat (split; [done|]). eapply equiv_on_x_mono; [|exact H8].
  intros n [(i & Hi & _)%elem_of_outputs|(i & Hi & _)%elem_of_of_type]%elem_of_union; apply elem_of_dom; eauto.
Qed.

