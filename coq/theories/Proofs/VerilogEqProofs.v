(* Proofs for C03: roundtrip_equiv for blackbox-free circuits, both styles, constants 0/1.  The writer's module in both styles
   (write_invb, stmtsb), what every emitted statement says (gate_stmt_spec: its driver denotes the value the node must have:
   beh_expr_gate_val, prim_sem_gate_val, const_expr_sem), the guards of the C02 theorems from the shape of the module
   (shape_den, shape_conv, shape_io), success (read_succeeds_items), and both directions of C02's read_denotes on the written
   module: sat_module m v x <-> consistent C v (node_ok_val), hence equiv_on the outputs (roundtrip_equiv_bbfree). *)
From CG Require Import Verilog.ExprParse.
From stdpp Require Import strings gmap sets fin_sets pretty.
From CG Require Import Types Sem Fold Api Verilog.Ast Verilog.Read Verilog.Write Proofs.VerilogProofs Run.Run_C02 Proofs.VerilogReadProofs Proofs.VerilogDenoteProofs Proofs.VerilogBbProofs Proofs.VerilogConvProofs Proofs.VerilogRtProofs Proofs.VerilogSuccProofs.
From CG Require Proofs.ComposeProofs Model.Lint.
Open Scope string_scope.


(* ------------------------------------------------------------------ the writer's module, both styles, no blackboxes *)
Definition wstepb (g : circuit) (beh : bool) (acc : list item) (x : string * list string) : list item :=
  match g !! x.1 with
  | Some i => match gate_stmt g beh (length acc) x.1 i x.2 with Some s => (acc ++ [s])%list | None => acc end
  | None => acc end.
Fixpoint stmtsb (g : circuit) (beh : bool) (j : nat) (l : list (string * list string)) : list item :=
  match l with
  | [] => []
  | x :: l => match g !! x.1 with
              | Some i => match gate_stmt g beh j x.1 i x.2 with Some s => s :: stmtsb g beh (S j) l | None => stmtsb g beh j l end
              | None => stmtsb g beh j l end
  end.
Lemma foldl_stmtsb g beh l : ∀ acc, foldl (wstepb g beh) acc l = (acc ++ stmtsb g beh (length acc) l)%list.
Proof.
  induction l as [|x l IH]; intros acc; simpl; [by rewrite app_nil_r|]. unfold wstepb at 2. destruct (g !! x.1) as [i|]; [|apply IH].
  destruct (gate_stmt g beh (length acc) x.1 i x.2) as [s|]; [|apply IH].
  rewrite IH. rewrite app_length. simpl. rewrite Nat.add_1_r. by rewrite <- app_assoc.
Qed.
Lemma write_invb C beh π m : write C beh π = Ok m → c_bbs C = ∅ →
  NoDup (o_ins π) ∧ list_to_set (o_ins π) = inputs (c_g C) ∧ NoDup (o_outs π) ∧ list_to_set (o_outs π) = outputs (c_g C) ∧
  NoDup (o_nodes π) ∧ list_to_set (o_nodes π) = of_type (c_g C) (λ t, bool_decide (t ∈ gate_types) || bool_decide (t ∈ const_types)) ∧
  (o_fi π).*1 = o_nodes π ∧
  Forall (λ x : string * list string, NoDup x.2 ∧ list_to_set x.2 = fanin (c_g C) x.1 ∖ of_type (c_g C) (is_ty BbOut)) (o_fi π) ∧
  m = {| m_name := c_name C; m_ports := (o_ins π ++ o_outs π)%list;
         m_items := (((λ n, IInput [n]) <$> o_ins π) ++ ((λ n, IOutput [n]) <$> o_outs π) ++
                     ((λ n, IWire [n]) <$> o_nodes π) ++ stmtsb (c_g C) beh 0 (o_fi π))%list |}.
Proof.
  unfold write. intros H Hb.
  destruct (is_perm_of (o_ins π) (inputs (c_g C)) && is_perm_of (o_outs π) (outputs (c_g C))) eqn:E1; cbn [negb] in H; [|discriminate].
  apply andb_true_iff in E1 as [E1 E1']. apply is_perm_spec in E1 as [? ?]. apply is_perm_spec in E1' as [? ?].
  destruct (is_perm_of (o_bbs π).*1.*1 (dom (c_bbs C))) eqn:E2; cbn [negb] in H; [|discriminate].
  assert (Hob : o_bbs π = []).
  { apply is_perm_spec in E2 as [_ E2]. rewrite Hb, dom_empty_L in E2. destruct (o_bbs π) as [|a l]; [done|]. rewrite !fmap_cons in E2. set_solver. }
  rewrite Hob in H. cbn [forallb negb omap] in H.
  destruct (is_perm_of (o_nodes π) _) eqn:E3; cbn [negb] in H; [|discriminate]. apply is_perm_spec in E3 as [? ?].
  case_bool_decide as E4; cbn [negb] in H; [|discriminate].
  destruct (forallb _ (o_fi π)) eqn:E5; cbn [negb] in H; [|discriminate].
  case_bool_decide as E6; cbn [negb] in H; [|discriminate].
  injection H as <-. repeat (split; [done|]). split.
  - apply Forall_forall. intros x Hx. rewrite forallb_forall in E5. specialize (E5 x (proj1 (elem_of_list_In _ _) Hx)). by apply is_perm_spec in E5.
  - f_equal. do 3 f_equal. fold (wstepb (c_g C) beh). by rewrite foldl_stmtsb.
Qed.

(* declarations and drivers of the four segments *)
Lemma bind_decls {B0} (f : item → list B0) (A B W S : list item) :
  (A ++ B ++ W ++ S)%list ≫= f = ((A ≫= f) ++ (B ≫= f) ++ (W ≫= f) ++ (S ≫= f))%list.
Proof. by rewrite !bind_app. Qed.
Lemma bind_single_in (l : list string) (f : item → list string) (c : string → item) : (∀ n, f (c n) = [n]) → (c <$> l) ≫= f = l.
Proof. intros H. induction l as [|a l IH]; [done|]. rewrite fmap_cons. cbn. by rewrite IH, H. Qed.
Lemma bind_single_nil {B} (l : list string) (f : item → list B) (c : string → item) : (∀ n, f (c n) = []) → (c <$> l) ≫= f = [].
Proof. intros H. induction l as [|a l IH]; [done|]. rewrite fmap_cons. cbn. by rewrite IH, H. Qed.

(* the Verilog primitive on distinct operands is the gate function on the operand set *)
Lemma prim_sem_gate_val t v rs : t ∈ gate_types → NoDup rs → rs ≠ [] → (t = Buf ∨ t = Not → length rs = 1) →
  prim_sem t (v <$> rs) = gate_val t v (list_to_set rs).
Proof.
  intros Ht Hnd Hne Hlen. unfold gate_types in Ht. rewrite !elem_of_cons, elem_of_nil in Ht.
  destruct rs as [|f fi]; [done|]. pose proof (parity_nodup (f :: fi) Hnd) as Ep.
  destruct Ht as [->|[->|[->|[->|[->|[->|[->|[->|[]]]]]]]]].
  - rewrite (parity_val false (f :: fi) v f fi Ep). unfold prim_sem, xfold. by rewrite xorb_false_l.
  - rewrite (parity_val true (f :: fi) v f fi Ep). unfold prim_sem, xfold. by destruct (foldr xorb false (v <$> f :: fi)).
  - destruct fi; [|specialize (Hlen ltac:(auto)); discriminate]. rewrite gv1. simpl. by destruct (v f).
  - destruct fi; [|specialize (Hlen ltac:(auto)); discriminate]. rewrite gv1. simpl. by destruct (v f).
  - unfold gate_val. change (foldr (g_op Nor) (g_unit Nor)) with (gfold Or). rewrite gfold_list_idem by (unfold idem; auto). by rewrite gfold_or.
  - unfold gate_val. change (foldr (g_op Or) (g_unit Or)) with (gfold Or). rewrite gfold_list_idem by (unfold idem; auto). rewrite gfold_or. by rewrite xorb_false_l.
  - unfold gate_val. change (foldr (g_op And) (g_unit And)) with (gfold And). rewrite gfold_list_idem by (unfold idem; auto). rewrite gfold_and. by rewrite xorb_false_l.
  - unfold gate_val. change (foldr (g_op Nand) (g_unit Nand)) with (gfold And). rewrite gfold_list_idem by (unfold idem; auto). by rewrite gfold_and.
Qed.
Lemma fmap_cid_sem v x (l : list string) : sem_cond v x <$> (cid <$> l) = v <$> l.
Proof. induction l as [|a l IH]; [done|]. rewrite !fmap_cons. by rewrite IH. Qed.


(* ------------------------------------------------------------------ the guards of the C02 theorems from the shape of a blackbox-free module *)
Definition inst_shape (t : gtype) (ic : string * conns) : Prop :=
  ∃ n ins, ic.2 = Positional (cid n :: ins) ∧ ins ≠ [] ∧ (t = Buf ∨ t = Not → length ins = 1).
Definition item_shape (it : item) : Prop :=
  match it with
  | IInst mn insts => ∃ t, prim_of_name mn = Some t ∧ t ∈ gate_types ∧ Forall (inst_shape t) insts
  | _ => True end.

Section shape.
  Context (rsv : gset string) (bbs : list bbdef) (m : vmodule).
  Hypothesis Hids : (list_to_set (module_ids m) : gset string) ⊆ rsv.
  Hypothesis Hshape : Forall item_shape (m_items m).
  Hypothesis Hdin : ∀ n, n ∈ (drivers m).*1 → n ∉ decl_inputs m.
  Notation k := (init_ctx rsv bbs).1.
  Notation NN := (list_to_set (module_nets m) : gset string).
  Notation DD := (list_to_set (drivers m).*1 : gset string).

  Lemma krsv : k_rsv k = rsv. Proof. done. Qed.
  Lemma Hitem it s : it ∈ m_items m → s ∈ item_ids it → s ∈ rsv.
  Proof. intros Hit Hs. apply Hids. rewrite elem_of_list_to_set. unfold module_ids. right. apply elem_of_app. right. apply elem_of_list_bind. eauto. Qed.
  Lemma Hnet it s : it ∈ m_items m → s ∈ item_nets it → s ∈ NN.
  Proof. intros Hit Hs. rewrite elem_of_list_to_set. unfold module_nets. apply elem_of_app. right. apply elem_of_list_bind. eauto. Qed.
  Lemma NN_rsv : NN ⊆ rsv.
  Proof. intros s Hs. apply Hids. apply elem_of_list_to_set. apply module_nets_ids. by apply elem_of_list_to_set in Hs. Qed.
  Lemma drv_in it nd : it ∈ m_items m → nd ∈ item_drivers it → nd.1 ∈ (drivers m).*1.
  Proof. intros Hit Hnd. apply elem_of_list_fmap. exists nd. split; [done|]. unfold drivers. apply elem_of_list_bind. eauto. Qed.

  Lemma shape_den : Forall (item_den_ok k NN DD) (m_items m).
  Proof.
    apply Forall_forall. intros it Hit. rewrite Forall_forall in Hshape. specialize (Hshape it Hit).
    destruct it as [ns|ns|ns|mn insts|l]; simpl; try done.
    - intros n Hn. split; [by apply (Hnet (IInput ns))|]. split; [by apply (Hitem (IInput ns))|].
      intros Hd. apply elem_of_list_to_set in Hd. apply (Hdin n Hd). unfold decl_inputs. apply elem_of_list_bind. exists (IInput ns). done.
    - destruct Hshape as (t & Et & Ht & HF). exists t. split; [done|]. split; [done|]. apply Forall_forall. intros ic Hic.
      rewrite Forall_forall in HF. destruct (HF ic Hic) as (n & ins & E & Hne & Har). exists n, ins. split; [done|]. split; [|done].
      assert (Hsub : ∀ s, s ∈ (cid n :: ins) ≫= ids_cond → s ∈ rsv).
      { intros s Hs. apply (Hitem (IInst mn insts) s Hit). simpl. right. apply elem_of_list_bind. exists ic. split; [|done]. right. rewrite E. done. }
      split; [|split]; simpl.
      + apply (Hnet (IInst mn insts) n Hit). simpl. apply elem_of_list_bind. exists ic. split; [|done]. rewrite E. cbn. by left.
      + apply Hsub. cbn. by left.
      + intros s Hs. apply elem_of_list_to_set in Hs. apply Hsub. cbn. by right.
    - apply Forall_forall. intros [lv e] Hin. split; [|split]; simpl.
      + apply (Hnet (IAssign l) lv Hit). simpl. apply elem_of_list_bind. exists (lv, e). split; [by left|done].
      + apply (Hitem (IAssign l) lv Hit). simpl. apply elem_of_list_bind. exists (lv, e). split; [by left|done].
      + intros s Hs. apply elem_of_list_to_set in Hs. apply (Hitem (IAssign l) s Hit). simpl. apply elem_of_list_bind. exists (lv, e). split; [by right|done].
  Qed.
  Lemma shape_conv : Forall (item_conv_ok k NN) (m_items m).
  Proof.
    apply Forall_forall. intros it Hit. rewrite Forall_forall in Hshape. specialize (Hshape it Hit).
    destruct it as [ns|ns|ns|mn insts|l]; simpl; try done.
    - destruct Hshape as (t & Et & Ht & HF). rewrite Et. split.
      + apply Forall_forall. intros ic Hic. unfold cids_ok. apply Forall_forall. intros e He s Hs. apply elem_of_list_to_set in Hs.
        apply (Hitem (IInst mn insts) s Hit). simpl. right. apply elem_of_list_bind. exists ic. split; [|done]. right.
        destruct ic as [iname [ps|ps]]; simpl in *.
        * apply elem_of_list_bind. eauto.
        * apply elem_of_list_omap in He as (p & Hp & Hp2). apply elem_of_list_bind. exists p. split; [|done]. right. by rewrite Hp2.
      + apply Forall_forall. intros ic Hic. rewrite Forall_forall in HF. destruct (HF ic Hic) as (n & ins & E & Hne & Har).
        exists n, ins. split; [done|]. split; [|done].
        assert (Hsub : ∀ s, s ∈ (cid n :: ins) ≫= ids_cond → s ∈ NN).
        { intros s Hs. apply (Hnet (IInst mn insts) s Hit). simpl. apply elem_of_list_bind. exists ic. split; [|done]. rewrite E. done. }
        split; simpl.
        * apply Hsub. cbn. by left.
        * intros s Hs. apply elem_of_list_to_set in Hs. apply Hsub. cbn. by right.
    - apply Forall_forall. intros [lv e] Hin. split; simpl.
      + apply (Hnet (IAssign l) lv Hit). simpl. apply elem_of_list_bind. exists (lv, e). split; [by left|done].
      + intros s Hs. apply elem_of_list_to_set in Hs. apply (Hnet (IAssign l) s Hit). simpl. apply elem_of_list_bind. exists (lv, e). split; [by right|done].
  Qed.
  Lemma shape_io : Forall (item_ok k (list_to_set (decl_inputs m))) (m_items m).
  Proof.
    apply Forall_forall. intros it Hit. rewrite Forall_forall in Hshape. specialize (Hshape it Hit).
    destruct it as [ns|ns|ns|mn insts|l]; simpl; try done.
    - intros n Hn. rewrite elem_of_list_to_set. unfold decl_inputs. apply elem_of_list_bind. exists (IInput ns). done.
    - destruct Hshape as (t & Et & Ht & HF). rewrite Et. apply Forall_forall. intros ic Hic.
      rewrite Forall_forall in HF. destruct (HF ic Hic) as (n & ins & E & _). exists n, ins. split; [done|].
      rewrite elem_of_list_to_set. apply Hdin. apply (drv_in (IInst mn insts) (n, DPrim t ins) Hit). simpl. apply elem_of_list_bind. exists ic. split; [|done].
      unfold inst_drivers. rewrite Et, E. simpl. by left.
    - intros lv Hlv. rewrite elem_of_list_to_set. apply Hdin. apply elem_of_list_fmap in Hlv as ([lv' e] & -> & Hin).
      apply (drv_in (IAssign l) (lv', DAssign e) Hit). simpl. apply elem_of_list_fmap. exists (lv', e). done.
  Qed.
  Lemma shape_names : (∀ s, s ∈ NN → good_name s) → Forall item_names (m_items m).
  Proof. intros Hg. apply Forall_forall. intros it Hit s Hs. apply Hg. by eapply Hnet. Qed.
End shape.


Lemma gnc t : t ∈ gate_types → t ∈ const_types → False.
Proof. unfold gate_types, const_types. rewrite !elem_of_cons, !elem_of_nil. intros [->|[->|[->|[->|[->|[->|[->|[->|[]]]]]]]]]; naive_solver. Qed.
(* identifiers of the emitted right-hand sides *)
Lemma ids_chain_and r : ∀ a, ids_and (foldl (λ acc x, AAnd acc (pid x)) a r) = (ids_and a ++ r)%list.
Proof. induction r as [|x r IH]; intros a; simpl; [by rewrite app_nil_r|]. rewrite IH. simpl. by rewrite <- app_assoc. Qed.
Lemma ids_chain_xor r : ∀ a, ids_xor (foldl (λ acc x, XXor acc (AUn (pid x))) a r) = (ids_xor a ++ r)%list.
Proof. induction r as [|x r IH]; intros a; simpl; [by rewrite app_nil_r|]. rewrite IH. simpl. by rewrite <- app_assoc. Qed.
Lemma ids_chain_or r : ∀ a, ids_or (foldl (λ acc x, OOr acc (XAnd (AUn (pid x)))) a r) = (ids_or a ++ r)%list.
Proof. induction r as [|x r IH]; intros a; simpl; [by rewrite app_nil_r|]. rewrite IH. simpl. by rewrite <- app_assoc. Qed.
Lemma ids_beh_expr t f r : t ∈ gate_types → (t = Buf ∨ t = Not → r = []) → ids_cond (beh_expr t f r) = f :: r.
Proof.
  intros Ht Hr. unfold gate_types in Ht. rewrite !elem_of_cons, elem_of_nil in Ht.
  destruct Ht as [->|[->|[->|[->|[->|[->|[->|[->|[]]]]]]]]]; simpl; unfold chain_and, chain_xor, chain_or;
    rewrite ?ids_chain_and, ?ids_chain_xor, ?ids_chain_or; simpl; try done; by rewrite Hr by auto.
Qed.

(* the value a non-free node must have *)
(* xx: the value shared by all x constants *)
Definition node_val (v : val) (xx : bool) (i : ninfo) : bool := match n_ty i with C0 => false | C1 => true | CX => xx | t => gate_val t v (n_fi i) end.
Definition gc_type (t : gtype) : Prop := t ∈ gate_types ∨ t = C0 ∨ t = C1 ∨ t = CX.
Definition stmt_spec (n : string) (i : ninfo) (s : item) : Prop :=
  item_shape s ∧ (∃ d, item_drivers s = [(n, d)] ∧ ∀ v xx, sem_driver v xx d = node_val v xx i) ∧
  (∀ y, y ∈ item_nets s → y = n ∨ y ∈ n_fi i) ∧ item_ins s = [] ∧ item_outs s = [].

Lemma gate_stmt_spec g beh j n i fi : gc_type (n_ty i) →
  (n_ty i ∈ gate_types → fi ≠ [] ∧ NoDup fi ∧ list_to_set fi = n_fi i ∧ (n_ty i = Buf ∨ n_ty i = Not → length fi = 1)) →
  ∃ s, gate_stmt g beh j n i fi = Some s ∧ stmt_spec n i s.
Proof.
  intros Hgc Hg. unfold gate_stmt. destruct Hgc as [Ht|Hc].
  - rewrite bool_decide_eq_false_2 by (intros Hc; exact (gnc _ Ht Hc)). destruct (Hg Ht) as (Hne & Hnd & Hfs & Hlen).
    destruct fi as [|f r]; [done|]. destruct beh.
    + eexists. split; [done|]. split; [done|]. split; [|split; [|done]].
      * eexists. split; [done|]. intros v xx. simpl.
        rewrite (beh_expr_gate_val (n_ty i) f r v xx Ht); [| |done].
        -- unfold node_val. rewrite Hfs. unfold gate_types in Ht. destruct (n_ty i); try done; set_solver.
        -- intros Hb. specialize (Hlen Hb). destruct r; [done|discriminate].
      * intros y Hy. simpl in Hy. rewrite app_nil_r in Hy. rewrite ids_beh_expr in Hy; [| done |].
        -- apply elem_of_cons in Hy as [->|Hy]; [by left|right]. rewrite <- Hfs. by apply elem_of_list_to_set.
        -- intros Hb. specialize (Hlen Hb). destruct r; [done|discriminate].
    + eexists. split; [done|]. split; [|split; [|split; [|done]]].
      * simpl. exists (n_ty i). split; [by apply prim_of_prim_name|]. split; [done|]. constructor; [|constructor].
        exists n, (cid <$> f :: r). split; [done|]. split; [done|]. rewrite fmap_length. done.
      * exists (DPrim (n_ty i) (cid <$> f :: r)). split.
        { cbn [item_drivers mbind list_bind]. unfold inst_drivers. rewrite (prim_of_prim_name _ Ht). cbn [snd as_id cid]. by rewrite app_nil_r. }
        intros v xx. cbn [sem_driver]. rewrite (fmap_cid_sem v xx (f :: r)). rewrite prim_sem_gate_val by done.
        unfold node_val. rewrite Hfs. unfold gate_types in Ht. destruct (n_ty i); try done; set_solver.
      * intros y Hy. simpl in Hy. rewrite app_nil_r in Hy. apply elem_of_cons in Hy as [->|Hy]; [by left|right].
        rewrite <- Hfs. apply elem_of_list_to_set. apply elem_of_cons in Hy as [->|Hy]; [by left|right].
        change (y ∈ (cid <$> r) ≫= ids_cond) in Hy.
        apply elem_of_list_bind in Hy as (e & Hy & He). apply elem_of_list_fmap in He as (z & -> & Hz). simpl in Hy. by apply elem_of_list_singleton in Hy as ->.
  - assert (Hct : n_ty i ∈ const_types) by (unfold const_types; destruct Hc as [-> |[-> | ->]]; set_solver).
    rewrite bool_decide_eq_true_2 by done. eexists. split; [done|]. split; [done|]. split; [|split; [|done]].
    + exists (DAssign (const_expr (n_ty i))). split; [done|]. intros v xx. cbn [sem_driver]. rewrite (const_expr_sem _ v xx Hct). unfold node_val. by destruct Hc as [-> |[-> | ->]].
    + intros y Hy. simpl in Hy. rewrite ?app_nil_r in Hy. apply elem_of_cons in Hy as [->|Hy]; [by left|]. by apply elem_of_nil in Hy.
Qed.

(* all statements of the gate loop *)
Lemma stmtsb_spec g beh l : ∀ j,
  (∀ x : string * list string, x ∈ l → ∃ i, g !! x.1 = Some i ∧ gc_type (n_ty i) ∧
     (n_ty i ∈ gate_types → x.2 ≠ [] ∧ NoDup x.2 ∧ list_to_set x.2 = n_fi i ∧ (n_ty i = Buf ∨ n_ty i = Not → length x.2 = 1))) →
  let S := stmtsb g beh j l in
  Forall item_shape S ∧ (S ≫= item_drivers).*1 = l.*1 ∧
  (∀ n d, (n, d) ∈ S ≫= item_drivers → ∃ i, g !! n = Some i ∧ gc_type (n_ty i) ∧ ∀ v xx, sem_driver v xx d = node_val v xx i) ∧
  (∀ y, y ∈ S ≫= item_nets → ∃ n i, g !! n = Some i ∧ (y = n ∨ y ∈ n_fi i)) ∧ S ≫= item_ins = [] ∧ S ≫= item_outs = [].
Proof.
  induction l as [|x l IH]; intros j Hl; cbn zeta.
  - simpl. split; [constructor|]. split; [done|]. split; [intros n d Hin; by apply elem_of_nil in Hin|]. split; [intros y Hy; by apply elem_of_nil in Hy|done].
  - destruct (Hl x ltac:(by left)) as (i & Hi & Hgc & Hg). destruct (gate_stmt_spec g beh j x.1 i x.2 Hgc Hg) as (s & Hs & Hsh & (d & Hd & Hsem) & Hnets & Hin & Hout).
    cbn [stmtsb]. rewrite Hi, Hs. destruct (IH (S j)) as (F1 & F2 & F3 & F4 & F5 & F6); [intros y Hy; apply Hl; by right|].
    cbn [mbind list_bind]. fold (mbind (M:=list) item_drivers). fold (mbind (M:=list) item_nets). fold (mbind (M:=list) item_ins). fold (mbind (M:=list) item_outs).
    split; [by constructor|]. split; [rewrite Hd; cbn; by rewrite F2|]. split; [|split; [|split]].
    + intros n d' Hin'. rewrite Hd in Hin'. apply elem_of_cons in Hin' as [[= -> ->]|Hin']; [eauto|by apply F3].
    + intros y [Hy|Hy]%elem_of_app; [|by apply F4]. exists x.1, i. split; [done|by apply Hnets].
    + by rewrite Hin, F5.
    + by rewrite Hout, F6.
Qed.


Record rte_clean (g : circuit) : Prop := mk_rte {
  re_ty : ∀ n i, g !! n = Some i → n_ty i = Input ∨ gc_type (n_ty i);
  re_zero : ∀ n i, g !! n = Some i → n_ty i = Input → n_fi i = ∅;
  re_gate : ∀ n i, g !! n = Some i → n_ty i ∈ gate_types → n_fi i ≠ ∅;
  re_single : ∀ n i, g !! n = Some i → n_ty i = Buf ∨ n_ty i = Not → size (n_fi i) = 1;
  re_names : ∀ n, n ∈ dom g → good_name n;
  re_closed : closed g }.

Lemma node_ok_val v xx n i : gc_type (n_ty i) → (n_ty i ∈ gate_types → n_fi i ≠ ∅) → (node_ok v n i ∧ (n_ty i = CX → v n = xx) ↔ v n = node_val v xx i).
Proof.
  intros Hgc Hne. unfold node_ok, is_free, node_val. destruct Hgc as [Ht|[E|[E|E]]]; [|rewrite E; simpl; naive_solver|rewrite E; simpl; naive_solver|rewrite E; simpl; naive_solver].
  specialize (Hne Ht). unfold gate_types in Ht. rewrite !elem_of_cons, elem_of_nil in Ht.
  destruct Ht as [E|[E|[E|[E|[E|[E|[E|[E|[]]]]]]]]]; rewrite E; simpl; rewrite ?bool_decide_eq_false_2 by done; naive_solver.
Qed.
Lemma den_ok_2 k NN DD it : (∀ mn insts, it = IInst mn insts → is_Some (prim_of_name mn)) → item_den_ok k NN DD it → item_den_ok2 k NN DD it.
Proof. destruct it as [| | |mn insts|]; try done. intros Hb H. destruct (Hb mn insts eq_refl) as [t Et]. unfold item_den_ok2. rewrite Et. exact H. Qed.

(* with several x constants: the reader shares one unknown (tie_x), so the read-back circuit is equivalent to the original under the
   valuations that give all x constants of the original the same value *)
Definition x_uniform (c : circuit) (v : val) : Prop := ∃ x : bool, ∀ n, n ∈ of_type c (is_ty CX) → v n = x.
Definition equiv_on_x (S : gset string) (c c' : circuit) : Prop :=
  (∀ v', consistent c' v' → ∃ v, consistent c v ∧ x_uniform c v ∧ agrees S v v') ∧
  (∀ v, consistent c v → x_uniform c v → ∃ w, consistent c' w ∧ agrees S w v).
Lemma equiv_on_x_nox S c c' : no_x c → equiv_on_x S c c' → equiv_on S c c'.
Proof.
  intros Hx [H1 H2]. split.
  - intros v' Hv'. destruct (H1 v' Hv') as (v & ? & _ & ?). eauto.
  - intros v Hv. apply H2; [done|]. exists false. intros n Hn. unfold no_x in Hx. rewrite Hx in Hn. by apply elem_of_empty in Hn.
Qed.
Theorem roundtrip_equiv_bbfree_x C beh π m rsv bbs : rte_clean (c_g C) → c_bbs C = ∅ → write C beh π = Ok m →
  (list_to_set (module_ids m) : gset string) ⊆ rsv →
  ∃ C', read rsv bbs m = Ok C' ∧ c_name C' = c_name C ∧ inputs (c_g C') = inputs (c_g C) ∧ outputs (c_g C') = outputs (c_g C) ∧
        c_bbs C' = ∅ ∧ equiv_on_x (dom (c_g C)) (c_g C) (c_g C').
Proof.
  intros [Hty Hzero Hgate Hsingle Hnames Hcl] Hb Hw Hids.
  destruct (write_invb C beh π m Hw Hb) as (Ni & Ei & No & Eo & Nn & En & Ef & Ff & Em).
  set (g := c_g C) in *. set (S := stmtsb g beh 0 (o_fi π)) in *.
  assert (Hbo : of_type g (is_ty BbOut) = ∅).
  { apply set_eq. intros x. split; [|set_solver]. intros (i & Hi & Ht)%elem_of_of_type. unfold is_ty in Ht. apply bool_decide_eq_true in Ht.
    destruct (Hty x i Hi) as [E|[E|[E|[E|E]]]]; rewrite <- Ht in E; try done. unfold gate_types in E. set_solver. }
  assert (Hgc : ∀ x, x ∈ o_nodes π ↔ ∃ i, g !! x = Some i ∧ gc_type (n_ty i)).
  { intros x. rewrite <- (elem_of_list_to_set (C:=gset string)), En, elem_of_of_type. split.
    - intros (i & Hi & Ht). exists i. split; [done|]. destruct (Hty x i Hi) as [E|?]; [|done]. rewrite E in Ht. done.
    - intros (i & Hi & [Ht|Hc]); exists i; (split; [done|]); [by rewrite bool_decide_eq_true_2|].
      rewrite (bool_decide_eq_true_2 (n_ty i ∈ const_types)); [by rewrite orb_true_r|]. unfold const_types. destruct Hc as [-> |[-> | ->]]; set_solver. }
  assert (Hl : ∀ x : string * list string, x ∈ o_fi π → ∃ i, g !! x.1 = Some i ∧ gc_type (n_ty i) ∧
     (n_ty i ∈ gate_types → x.2 ≠ [] ∧ NoDup x.2 ∧ list_to_set x.2 = n_fi i ∧ (n_ty i = Buf ∨ n_ty i = Not → length x.2 = 1))).
  { intros x Hx. assert (Hx1 : x.1 ∈ o_nodes π) by (rewrite <- Ef; apply elem_of_list_fmap; eauto).
    apply Hgc in Hx1 as (i & Hi & Hg). exists i. split; [done|]. split; [done|]. intros Ht.
    rewrite Forall_forall in Ff. destruct (Ff x Hx) as [Hnd Hfs].
    assert (Hfs' : list_to_set x.2 = n_fi i). { rewrite Hfs, Hbo. unfold fanin. rewrite Hi. simpl. set_solver. }
    split; [|split; [done|split; [done|]]].
    - intros E. rewrite E in Hfs'. simpl in Hfs'. by apply (Hgate x.1 i Hi Ht).
    - intros Hbn. specialize (Hsingle x.1 i Hi Hbn). rewrite <- Hfs' in Hsingle. by rewrite size_list_to_set in Hsingle. }
  destruct (stmtsb_spec g beh (o_fi π) 0 Hl) as (F1 & F2 & F3 & F4 & F5 & F6). fold S in F1, F2, F3, F4, F5, F6.
  (* declarations, drivers and nets of the module *)
  assert (Eitems : m_items m = (((λ n, IInput [n]) <$> o_ins π) ++ ((λ n, IOutput [n]) <$> o_outs π) ++ ((λ n, IWire [n]) <$> o_nodes π) ++ S)%list) by (by rewrite Em).
  assert (Edi : decl_inputs m = o_ins π).
  { unfold decl_inputs. rewrite Eitems, bind_decls. rewrite (bind_single_in (o_ins π)) by done. rewrite !bind_single_nil by done.
    change (S ≫= _) with (S ≫= item_ins). rewrite F5. by rewrite !app_nil_r. }
  assert (Edo : decl_outputs m = o_outs π).
  { unfold decl_outputs. rewrite Eitems, bind_decls. rewrite (bind_single_in (o_outs π)) by done. rewrite !bind_single_nil by done.
    change (S ≫= _) with (S ≫= item_outs). rewrite F6. by rewrite !app_nil_r. }
  assert (Edr : drivers m = S ≫= item_drivers).
  { unfold drivers. rewrite Eitems, bind_decls. by rewrite !bind_single_nil by done. }
  assert (Edn : (drivers m).*1 = o_nodes π) by (by rewrite Edr, F2, Ef).
  assert (Hnets : ∀ y, y ∈ module_nets m → y ∈ dom g).
  { intros y. unfold module_nets. rewrite Eitems, bind_decls. rewrite Em at 1. cbn [m_ports].
    rewrite (bind_single_in (o_ins π)) by done. rewrite (bind_single_in (o_outs π)) by done. rewrite (bind_single_in (o_nodes π)) by done.
    assert (Hi' : ∀ y, y ∈ o_ins π → y ∈ dom g).
    { intros z Hz. apply (elem_of_list_to_set (C:=gset string)) in Hz. rewrite Ei in Hz. apply elem_of_inputs in Hz as (i & Hi & _). apply elem_of_dom; eauto. }
    assert (Ho' : ∀ y, y ∈ o_outs π → y ∈ dom g).
    { intros z Hz. apply (elem_of_list_to_set (C:=gset string)) in Hz. rewrite Eo in Hz. apply elem_of_outputs in Hz as (i & Hi & _). apply elem_of_dom; eauto. }
    rewrite !elem_of_app. intros [[?|?]|[?|[?|[Hn|Hs]]]]; auto.
    - apply Hgc in Hn as (i & Hi & _). apply elem_of_dom; eauto.
    - destruct (F4 y Hs) as (n & i & Hi & [->|Hf]); [apply elem_of_dom; eauto|by eapply Hcl]. }
  assert (Hshape : Forall item_shape (m_items m)).
  { rewrite Eitems. rewrite !Forall_app. split; [by apply Forall_fmap, Forall_forall|]. split; [by apply Forall_fmap, Forall_forall|]. split; [by apply Forall_fmap, Forall_forall|done]. }
  assert (Hdin : ∀ n, n ∈ (drivers m).*1 → n ∉ decl_inputs m).
  { intros n Hn Hin. rewrite Edn in Hn. rewrite Edi in Hin. apply Hgc in Hn as (i & Hi & Hg).
    apply (elem_of_list_to_set (C:=gset string)) in Hin. rewrite Ei in Hin. apply elem_of_inputs in Hin as (i' & Hi' & Ht'). assert (i' = i) as -> by congruence.
    rewrite Ht' in Hg. destruct Hg as [Hg|[?|[?|?]]]; [|done|done|done]. unfold gate_types in Hg. set_solver. }
  assert (Hbf : ∀ mn insts, IInst mn insts ∈ m_items m → is_Some (prim_of_name mn)).
  { intros mn insts Hin. rewrite Forall_forall in Hshape. destruct (Hshape _ Hin) as (t & Et & _). eauto. }
  pose proof (NN_rsv rsv m Hids) as HNN.
  assert (Hgood : ∀ s, s ∈ (list_to_set (module_nets m) : gset string) → good_name s).
  { intros s Hs. apply Hnames, Hnets. by apply elem_of_list_to_set in Hs. }
  pose proof (shape_den rsv bbs m Hids Hshape Hdin) as Hden.
  pose proof (shape_conv rsv bbs m Hids Hshape) as Hconv.
  pose proof (shape_io rsv bbs m Hshape Hdin) as Hio.
  assert (Hndd : NoDup (drivers m).*1) by (by rewrite Edn).
  assert (Hpm : ports_match m = true).
  { unfold ports_match. apply bool_decide_eq_true. rewrite Edi, Edo. rewrite Em. cbn [m_ports]. by rewrite list_to_set_app_L. }
  destruct (read_succeeds_items rsv bbs m _ HNN Hgood Hden (shape_names m Hgood) Hndd Hpm) as [C' HC'].
  { intros s Hs. rewrite Edo in Hs. rewrite Edi, Edn. apply (elem_of_list_to_set (C:=gset string)) in Hs. rewrite Eo in Hs.
    apply elem_of_outputs in Hs as (i & Hi & _). destruct (Hty s i Hi) as [E|Hg].
    - left. apply (elem_of_list_to_set (C:=gset string)). rewrite Ei. apply elem_of_inputs. eauto.
    - right. apply Hgc. eauto. }
  exists C'. split; [done|]. split; [rewrite (read_name _ _ _ _ HC'); by rewrite Em|].
  destruct (read_io_items rsv bbs m C' Hio Hids HC') as [Hin' Hout']. rewrite Edi, Ei in Hin'. rewrite Edo, Eo in Hout'.
  split; [done|]. split; [done|]. split; [by eapply (read_bbs_bbfree rsv bbs m C')|].
  (* both directions of the denotation on the written module *)
  assert (Exd : xdrivers bbs m = drivers m) by (by apply xdrivers_bbfree).
  assert (Hden2 : Forall (item_den_ok2 (init_ctx rsv bbs).1 (list_to_set (module_nets m)) (list_to_set (xdrivers bbs m).*1)) (m_items m)).
  { rewrite Exd. apply Forall_forall. intros it Hit. apply den_ok_2; [intros mn insts ->; by eapply Hbf|]. rewrite Forall_forall in Hden. by apply Hden. }
  assert (Hdrv : ∀ n i, g !! n = Some i → gc_type (n_ty i) → ∃ d, (n, d) ∈ drivers m ∧ ∀ v xx, sem_driver v xx d = node_val v xx i).
  { intros n i Hi Hg. assert (Hn : n ∈ (drivers m).*1) by (rewrite Edn; apply Hgc; eauto).
    apply elem_of_list_fmap in Hn as ([n' d] & -> & Hin). exists d. split; [done|]. rewrite Edr in Hin. destruct (F3 _ _ Hin) as (i' & Hi' & _ & Hsem).
    simpl in *. assert (i' = i) as -> by congruence. done. }
  split.
  - intros v' Hv'. assert (Hnd2 : NoDup (xdrivers bbs m).*1) by (by rewrite Exd). pose proof (read_sound_items2 rsv bbs m C' _ HNN Hden2 Hnd2 HC' v' Hv') as Hsat.
    set (X := v' (k_tx (init_ctx rsv bbs).1)) in *.
    assert (Hnv : ∀ n i, g !! n = Some i → gc_type (n_ty i) → v' n = node_val v' X i).
    { intros n i Hi Hg. destruct (Hdrv n i Hi Hg) as (d & Hd & Hsem). rewrite (Hsat n d Hd). apply Hsem. }
    exists v'. split; [|split; [|done]].
    + intros n i Hi. destruct (Hty n i Hi) as [E|Hg]; [unfold node_ok, is_free; by rewrite E|].
      apply (proj2 (node_ok_val v' X n i Hg (Hgate n i Hi))). by apply Hnv.
    + exists X. intros n (i & Hi & Ht)%elem_of_of_type. unfold is_ty in Ht. apply bool_decide_eq_true in Ht.
      assert (Hg : gc_type (n_ty i)) by (rewrite <- Ht; unfold gc_type; auto). rewrite (Hnv n i Hi Hg). unfold node_val. by rewrite <- Ht.
  - intros v Hv [X HX].
    assert (Hnd2 : NoDup (xdrivers bbs m).*1) by (by rewrite Exd). destruct (read_conv_items rsv bbs m C' _ HNN Hden2 Hconv Hnd2 HC' v X) as (w & Cw & Aw).
    { intros n d Hin. rewrite Edr in Hin. destruct (F3 _ _ Hin) as (i & Hi & Hg & Hsem). rewrite Hsem.
      apply (proj1 (node_ok_val v X n i Hg (Hgate n i Hi))). split; [by apply Hv|]. intros Ecx. apply HX. apply elem_of_of_type. exists i. split; [done|]. rewrite Ecx. done. }
    exists w. split; [done|]. intros n Hn. apply Aw. apply elem_of_list_to_set.
    apply elem_of_dom in Hn as [i Hi]. unfold module_nets. destruct (Hty n i Hi) as [E|Hg].
    + apply elem_of_app. left. rewrite Em. cbn [m_ports]. apply elem_of_app. left.
      apply (elem_of_list_to_set (C:=gset string)). rewrite Ei. apply elem_of_inputs. eauto.
    + apply elem_of_app. right. rewrite Eitems. apply elem_of_list_bind. exists (IWire [n]). split; [simpl; by left|].
      apply elem_of_app. right. apply elem_of_app. right. apply elem_of_app. left. apply elem_of_list_fmap. exists n. split; [done|]. apply Hgc. eauto.
Qed.
Lemma equiv_on_x_mono (S S' : gset string) c c' : S' ⊆ S → equiv_on_x S c c' → equiv_on_x S' c c'.
Proof.
  intros Hs [H1 H2]. split.
  - intros v Hv. destruct (H1 v Hv) as (w & Cw & Xw & Aw). exists w. split; [done|]. split; [done|]. intros n Hn. apply Aw. by apply Hs.
  - intros v Hv Xv. destruct (H2 v Hv Xv) as (w & Cw & Aw). exists w. split; [done|]. intros n Hn. apply Aw. by apply Hs.
Qed.
Corollary roundtrip_equiv_bbfree_x_outputs C beh π m rsv bbs : rte_clean (c_g C) → c_bbs C = ∅ → write C beh π = Ok m →
  (list_to_set (module_ids m) : gset string) ⊆ rsv →
  ∃ C', read rsv bbs m = Ok C' ∧ c_name C' = c_name C ∧ inputs (c_g C') = inputs (c_g C) ∧ outputs (c_g C') = outputs (c_g C) ∧
        c_bbs C' = ∅ ∧ equiv_on_x (outputs (c_g C)) (c_g C) (c_g C').
Proof.
  intros Hc Hb Hw Hids. destruct (roundtrip_equiv_bbfree_x C beh π m rsv bbs Hc Hb Hw Hids) as (C' & H1 & H2 & H3 & H4 & H5 & H6).
  exists C'. repeat (split; [done|]). eapply equiv_on_x_mono; [|exact H6]. intros n (i & Hi & _)%elem_of_outputs. apply elem_of_dom; eauto.
Qed.
(* without x constants: plain equivalence *)
Theorem roundtrip_equiv_bbfree C beh π m rsv bbs : rte_clean (c_g C) → no_x (c_g C) → c_bbs C = ∅ → write C beh π = Ok m →
  (list_to_set (module_ids m) : gset string) ⊆ rsv →
  ∃ C', read rsv bbs m = Ok C' ∧ c_name C' = c_name C ∧ inputs (c_g C') = inputs (c_g C) ∧ outputs (c_g C') = outputs (c_g C) ∧
        c_bbs C' = ∅ ∧ equiv_on (dom (c_g C)) (c_g C) (c_g C').
Proof.
  intros Hc Hx Hb Hw Hids. destruct (roundtrip_equiv_bbfree_x C beh π m rsv bbs Hc Hb Hw Hids) as (C' & H1 & H2 & H3 & H4 & H5 & H6).
  exists C'. repeat (split; [done|]). by apply equiv_on_x_nox.
Qed.

Lemma equiv_on_mono (S S' : gset string) c c' : S' ⊆ S → equiv_on S c c' → equiv_on S' c c'.
Proof.
  intros Hs [H1 H2]. split; intros v Hv; [destruct (H1 v Hv) as (w & Cw & Aw)|destruct (H2 v Hv) as (w & Cw & Aw)]; exists w; (split; [done|]); intros n Hn; apply Aw; by apply Hs.
Qed.
Corollary roundtrip_equiv_bbfree_outputs C beh π m rsv bbs : rte_clean (c_g C) → no_x (c_g C) → c_bbs C = ∅ → write C beh π = Ok m →
  (list_to_set (module_ids m) : gset string) ⊆ rsv →
  ∃ C', read rsv bbs m = Ok C' ∧ c_name C' = c_name C ∧ inputs (c_g C') = inputs (c_g C) ∧ outputs (c_g C') = outputs (c_g C) ∧
        c_bbs C' = ∅ ∧ equiv_on (outputs (c_g C)) (c_g C) (c_g C').
Proof.
  intros Hc Hx Hb Hw Hids. destruct (roundtrip_equiv_bbfree C beh π m rsv bbs Hc Hx Hb Hw Hids) as (C' & H1 & H2 & H3 & H4 & H5 & H6).
  exists C'. repeat (split; [done|]). eapply equiv_on_mono; [|exact H6]. intros n (i & Hi & _)%elem_of_outputs. apply elem_of_dom; eauto.
Qed.


Lemma lint_clean_rte C f : Lint.lint C f = Ok () →
  (∀ n i, c_g C !! n = Some i → n_ty i ∈ gate_types → n_fi i ≠ ∅) →
  (∀ n, n ∈ dom (c_g C) → n ≠ "" ∧ starts_digit n = false) → closed (c_g C) →
  of_type (c_g C) (λ t, is_ty BbIn t || is_ty BbOut t) = ∅ →
  rte_clean (c_g C).
Proof.
  intros Hl Hgate Hnames Hcl Hnp.
  assert (Hnb : ∀ n i, c_g C !! n = Some i → Lint.node_bad Lint.gen_tables C f n i = false).
  { unfold Lint.lint, Lint.lint_with in Hl. destruct (existsb _ (map_to_list (c_g C)) || _) eqn:E; [discriminate|].
    apply orb_false_elim in E as [E _]. intros n i Hi. apply (ComposeProofs.existsb_false _ _ E (n, i)). by apply elem_of_map_to_list. }
  assert (Hr : ∀ n i, c_g C !! n = Some i →
            n_ty i ∈ Gen_types.supported_types ∧
            (n_ty i ∈ Gen_lint.zero_input_types → size (n_fi i) = 0) ∧ (n_ty i ∈ Gen_lint.single_input_types → size (n_fi i) ≤ 1)).
  { intros n i Hi. specialize (Hnb n i Hi). unfold Lint.node_bad, Lint.node_rules in Hnb. cbn [existsb id] in Hnb.
    repeat (apply orb_false_elim in Hnb as [? Hnb]).
    repeat match goal with H : _ && _ = false |- _ => apply andb_false_iff in H end.
    unfold Lint.inl in *. cbn [Lint.supported_types Lint.zero_input_types Lint.single_input_types Lint.gen_tables] in *.
    split; [|split].
    - match goal with Hx : negb (bool_decide (n_ty i ∈ Gen_types.supported_types)) = false ∨ _ |- _ => destruct Hx as [Hy|Hy] end.
      + by apply negb_false_iff, bool_decide_eq_true in Hy.
      + exfalso. destruct (bool_decide (n_ty i = NoTy)); simpl in *; discriminate.
    - intros Hz. match goal with Hx : bool_decide (n_ty i ∈ Gen_lint.zero_input_types) = false ∨ _ |- _ => destruct Hx as [Hy|Hy] end.
      + by apply bool_decide_eq_false in Hy.
      + apply Nat.ltb_ge in Hy. lia.
    - intros Hz. match goal with Hx : bool_decide (n_ty i ∈ Gen_lint.single_input_types) = false ∨ _ |- _ => destruct Hx as [Hy|Hy] end.
      + by apply bool_decide_eq_false in Hy.
      + apply Nat.ltb_ge in Hy. lia. }
  assert (Hty : ∀ n i, c_g C !! n = Some i → n_ty i = Input ∨ gc_type (n_ty i)).
  { intros n i Hi. destruct (Hr n i Hi) as (Hs & _).
    assert (H2 : n_ty i ≠ BbIn ∧ n_ty i ≠ BbOut).
    { split; intros Hc; (assert (n ∈ of_type (c_g C) (λ t, is_ty BbIn t || is_ty BbOut t)) as H by (apply elem_of_of_type; exists i; rewrite Hc; done));
        rewrite Hnp in H; by apply elem_of_empty in H. }
    destruct H2 as [H2 H3]. unfold gc_type, gate_types. unfold Gen_types.supported_types in Hs. clear -Hs H2 H3.
    destruct (n_ty i); try done; try (by left); try (right; left; repeat (first [apply elem_of_list_here | apply elem_of_list_further]); fail);
      try (right; right; left; done); try (right; right; right; left; done); try (right; right; right; right; done); exfalso; rewrite !elem_of_cons, elem_of_nil in Hs; naive_solver. }
  split; try done.
  - intros n i Hi Ht. destruct (Hr n i Hi) as (_ & Hz & _). apply leibniz_equiv, size_empty_iff. apply Hz. rewrite Ht. unfold Gen_lint.zero_input_types. set_solver.
  - intros n i Hi Ht. destruct (Hr n i Hi) as (_ & _ & Hs).
    assert (Hle : size (n_fi i) ≤ 1) by (apply Hs; unfold Gen_lint.single_input_types; destruct Ht as [-> | ->]; set_solver).
    assert (Hne : n_fi i ≠ ∅) by (apply (Hgate n i Hi); unfold gate_types; destruct Ht as [-> | ->]; set_solver).
    assert (size (n_fi i) ≠ 0) by (intros E; apply size_empty_iff in E; apply Hne; by apply leibniz_equiv). lia.
Qed.
