(* Proofs for C02, seventh part: the registry and the pin attachment of blackbox instances for every successful read.
   Exact edges of add_blackbox's connection fold (bconn_fold_exact), the graph after one instance node by node (bbshape,
   bb_instance_shape), the new instance is attached as the statement says (bbshape_ok, conns_rel: compiled dictionary vs named
   connections), later statements leave the pins and output nets of earlier instances alone (chg: every reader step keeps their
   records and adds no reader of a pin - connect() refuses pin-typed operands on non-buffers (add_g_operands), results of
   expressions are nets, constants or fresh nodes (orig_cond, vorig)), invariant Qinv over the item fold, module(). *)
From CG Require Import Verilog.ExprParse.
From stdpp Require Import strings gmap sets fin_sets pretty.
From CG Require Import Types Sem Fold Api Verilog.Ast Verilog.Read Verilog.Write Proofs.VerilogProofs Run.Run_C02 Proofs.VerilogReadProofs Proofs.VerilogDenoteProofs Proofs.VerilogBbProofs Proofs.VerilogConvProofs Proofs.VerilogRtProofs Proofs.VerilogSuccProofs.
From CG Require Proofs.ComposeProofs Proofs.BlackboxProofs Model.Compose6.
Open Scope string_scope.


(* ------------------------------------------------------------------ exact edges of the connection fold of add_blackbox *)
Definition bedge (d : bbdef) (inst : string) (conns : list (string * list string)) (f x : string) : Prop :=
  ∃ kv, kv ∈ conns ∧ ((kv.1 ∈ bb_in d ∧ x = pin inst kv.1 ∧ f ∈ kv.2) ∨ (kv.1 ∉ bb_in d ∧ f = pin inst kv.1 ∧ x ∈ kv.2)).
Lemma connect_g_exact c us vs c' : connect_g c us vs = (c', Done) → ∀ x i', c' !! x = Some i' →
  ∃ i, c !! x = Some i ∧ n_ty i' = n_ty i ∧ n_out i' = n_out i ∧ ∀ f, f ∈ n_fi i' ↔ f ∈ n_fi i ∨ (f ∈ us ∧ x ∈ vs).
Proof.
  intros H x i' Hx. destruct (connect_g_rel _ _ _ _ H x i' Hx) as (i & Hi & Et & Eo & Hf). exists i. split; [done|]. split; [done|]. split; [done|].
  intros f. rewrite Hf. split; [intros [?|(? & ? & _)]; auto|]. intros [?|[Hu Hv]]; [by left|]. right. split; [done|]. split; [done|].
  unfold connect_g in H. destruct (bool_decide (us = []) || bool_decide (vs = [])) eqn:E.
  - apply orb_true_iff in E as [E|E]; apply bool_decide_eq_true in E; subst; by apply elem_of_nil in Hu || by apply elem_of_nil in Hv.
  - destruct (forallb _ (us ++ vs)) eqn:Ef; simpl in H; [|discriminate]. rewrite forallb_forall in Ef.
    specialize (Ef f). rewrite bool_decide_eq_true in Ef. apply Ef. apply elem_of_list_In. set_solver.
Qed.
Lemma bconn_fold_exact d inst conns : ∀ g g', foldl (BlackboxProofs.bconn_step d inst) (g, Done) conns = (g', Done) →
  (∀ x i', g' !! x = Some i' → ∃ i, g !! x = Some i ∧ n_ty i' = n_ty i ∧ n_out i' = n_out i ∧
     ∀ f, f ∈ n_fi i' ↔ f ∈ n_fi i ∨ bedge d inst conns f x) ∧ dom g' = dom g.
Proof.
  induction conns as [|kv conns IH]; intros g g' H.
  - simpl in H. injection H as <-. split; [|done]. intros x i' Hx. exists i'. split; [done|]. split; [done|]. split; [done|]. intros f. split; [auto|].
    intros [?|(kv & Hin & _)]; [done|by apply elem_of_nil in Hin].
  - change (foldl (BlackboxProofs.bconn_step d inst) (BlackboxProofs.bconn_step d inst (g, Done) kv) conns = (g', Done)) in H.
    destruct (BlackboxProofs.bconn_step d inst (g, Done) kv) as [g1 o1] eqn:Hs. destruct o1 as [|e]; [|by rewrite BlackboxProofs.bconn_fold_fail in H].
    destruct (IH _ _ H) as [IH1 IHd].
    assert (Hdom : dom g1 = dom g).
    { pose proof (BlackboxProofs.bconn_step_shape d inst (g, Done) kv) as Hsh. rewrite Hs in Hsh. simpl in Hsh. by apply ComposeProofs.same_shape_dom. }
    split; [|by rewrite IHd].
    intros x i' Hx. destruct (IH1 x i' Hx) as (i1 & H1 & Et & Eo & Hf).
    unfold BlackboxProofs.bconn_step in Hs. case_bool_decide as Hin.
    + destruct (connect_g_exact _ _ _ _ Hs x i1 H1) as (i & Hi & Et' & Eo' & Hf'). exists i. split; [done|]. split; [congruence|]. split; [congruence|].
      intros f. rewrite Hf, Hf'. split.
      * intros [[?|[Hu Hv]]|(kv' & Hk & Hor)]; [by left| |].
        -- right. exists kv. split; [by left|]. left. apply elem_of_list_singleton in Hv. done.
        -- right. exists kv'. split; [by right|done].
      * intros [?|(kv' & [->|Hk]%elem_of_cons & Hor)]; [by left; left| |].
        -- destruct Hor as [(_ & -> & Hfk)|(Hni & _)]; [|done]. left. right. split; [done|]. by apply elem_of_list_singleton.
        -- right. exists kv'. done.
    + case_bool_decide as Hout; [|discriminate].
      destruct (connect_g_exact _ _ _ _ Hs x i1 H1) as (i & Hi & Et' & Eo' & Hf'). exists i. split; [done|]. split; [congruence|]. split; [congruence|].
      intros f. rewrite Hf, Hf'. split.
      * intros [[?|[Hu Hv]]|(kv' & Hk & Hor)]; [by left| |].
        -- right. exists kv. split; [by left|]. right. apply elem_of_list_singleton in Hu. done.
        -- right. exists kv'. split; [by right|done].
      * intros [?|(kv' & [->|Hk]%elem_of_cons & Hor)]; [by left; left| |].
        -- destruct Hor as [(Hi' & _)|(_ & -> & Hxk)]; [done|]. left. right. split; [by apply elem_of_list_singleton|done].
        -- right. exists kv'. done.
Qed.

(* the registry is the list of instances in textual order *)
Lemma list_to_map_snoc' (l : list (string * bbdef)) i x : i ∉ dom (list_to_map l : gmap string bbdef) →
  (list_to_map (l ++ [(i, x)]) : gmap string bbdef) = <[i := x]> (list_to_map l).
Proof. intros H. apply list_to_map_snoc. by rewrite dom_list_to_map_L, elem_of_list_to_set in H. Qed.


(* ------------------------------------------------------------------ later statements leave the pins of earlier instances alone *)
(* XP: pin nodes of the instances read so far, XN: the nets on their output pins *)
Definition pinty (g : circuit) (XP : gset string) : Prop := ∀ x, x ∈ XP → ∃ i, g !! x = Some i ∧ (n_ty i = BbIn ∨ n_ty i = BbOut).
Definition chg (XP XN : gset string) (g g' : circuit) : Prop :=
  (∀ x, x ∈ XP ∪ XN → g' !! x = g !! x) ∧ (∀ y j, g' !! y = Some j → g !! y = Some j ∨ n_fi j ## XP).
Lemma chg_refl XP XN g : chg XP XN g g.
Proof. split; [done|]. intros y j Hy. by left. Qed.
Lemma chg_trans XP XN a b c : chg XP XN a b → chg XP XN b c → chg XP XN a c.
Proof.
  intros [A1 A2] [B1 B2]. split; [intros x Hx; by rewrite B1, A1|]. intros y j Hy. destruct (B2 y j Hy) as [Hb|?]; [by apply A2|by right].
Qed.
Lemma chg_sub XP XN (g g' : circuit) : g ⊆ g' → XP ∪ XN ⊆ dom g → (∀ y j, g' !! y = Some j → g !! y = None → n_fi j ## XP) → chg XP XN g g'.
Proof.
  intros Hs Hd Hn. split.
  - intros x Hx. apply Hd in Hx. apply elem_of_dom in Hx as [i Hi]. rewrite Hi. by eapply lookup_weaken.
  - intros y j Hy. destruct (g !! y) as [i|] eqn:E; [left|right; by eapply Hn]. pose proof (lookup_weaken _ _ _ _ E Hs). congruence.
Qed.
Lemma pinty_chg XP XN g g' : chg XP XN g g' → pinty g XP → pinty g' XP.
Proof. intros [A _] Hp x Hx. destruct (Hp x Hx) as (i & Hi & Ht). exists i. split; [|done]. rewrite A; [done|]. by apply elem_of_union_l. Qed.

(* a successful add onto a node that is no buffer has no pin-typed operand: connect() refuses them *)
Lemma add_g_operands c n t fi fl g' nm : add_g c n t fi [] fl = (g', Done, nm) → af_uid fl = false → t ∈ gate_types5 →
  ∀ f i, f ∈ fi → f ≠ n → c !! f = Some i → n_ty i ≠ BbIn ∧ n_ty i ≠ BbOut.
Proof.
  intros H Hu Ht f i Hf Hfn Hi. unfold add_g in H. rewrite Hu in H. simpl in H.
  repeat (match type of H with (if ?b then _ else _) = _ => destruct b eqn:?; [discriminate|] end).
  rewrite app_nil_r in H. set (c1 := <[n:=mk_node t (af_out fl) (fanin c n)]> c) in *. fold ph_step in H.
  destruct (if af_conn fl then foldl ph_step (c1, Done) fi else (c1, Done)) as [c1' o1] eqn:Hph. destruct o1 as [|e]; [|discriminate]. simpl in H.
  destruct (connect_g c1' fi [n]) as [c3 o3] eqn:Hc. destruct o3 as [|e]; [|destruct e; discriminate].
  assert (Hs : c1 ⊆ c1'). { destruct (af_conn fl); [by apply ph_ok in Hph as (? & _)|by injection Hph as <-]. }
  assert (H1n : c1' !! n = Some (mk_node t (af_out fl) (fanin c n))) by (eapply lookup_weaken; [|exact Hs]; unfold c1; by rewrite lookup_insert).
  assert (H1f : c1' !! f = Some i) by (eapply lookup_weaken; [|exact Hs]; unfold c1; by rewrite lookup_insert_ne).
  unfold connect_g in Hc. rewrite (bool_decide_eq_false_2 (fi = [])) in Hc by (intros ->; by apply elem_of_nil in Hf).
  rewrite (bool_decide_eq_false_2 ([n] = [])) in Hc by done. cbn [orb] in Hc.
  destruct (negb (forallb _ _)); [discriminate|]. destruct (connect_check c1' fi [n]) eqn:Hck; cbn [negb] in Hc; [|discriminate].
  unfold connect_check in Hck. apply andb_true_iff in Hck as [_ Hck]. apply negb_true_iff in Hck.
  pose proof (ComposeProofs.existsb_false _ _ Hck f Hf) as Hfalse. cbn beta in Hfalse. cbn [existsb] in Hfalse. unfold ty in Hfalse. rewrite H1f, H1n in Hfalse.
  cbn [fmap option_fmap option_map is_in existsb n_ty mk_node] in Hfalse.
  assert (Hnb : bool_decide (t ∈ [Buf]) = false). { apply bool_decide_eq_false. unfold gate_types5 in Ht. intros ?. set_solver. }
  rewrite Hnb in Hfalse. cbn [negb orb] in Hfalse. rewrite andb_true_r in Hfalse. apply orb_false_elim in Hfalse as [F1 F2].
  apply bool_decide_eq_false in F1, F2. unfold conn_no_fanout in F1. unfold conn_bbout in F2. split; intros E; rewrite E in *; set_solver.
Qed.

Section pins.
  Context (k : rctx) (XP XN : gset string).

  Definition pfr (st st' : cstate) : Prop := st.1 ⊆ st'.1 ∧ (pinty st.1 XP → XP ∪ XN ⊆ dom st.1 → chg XP XN st.1 st'.1).
  Lemma pfr_refl st : pfr st st. Proof. split; [done|]. intros _ _. apply chg_refl. Qed.
  Lemma pfr_trans a b c : pfr a b → pfr b c → pfr a c.
  Proof.
    intros [S1 A] [S2 B]. split; [by etrans|]. intros Hp Hd. specialize (A Hp Hd). eapply chg_trans; [exact A|]. apply B.
    - by eapply pinty_chg.
    - intros x Hx. apply (subseteq_dom _ _ S1). by apply Hd.
  Qed.
  Lemma pfr_gate s prefix t items fi rem s' r' : t ∈ [Not; And; Or; Xor; Xnor] → fi ≠ [] →
    gate k s prefix t items fi rem = Ok (s', r') → pfr s s'.
  Proof.
    intros Ht Hfi H. pose proof H as H0. apply gate_spec in H as (Hs & Hl & Hnd & Hnr & Hnew & Hge); [|done]. split; [done|].
    intros Hp Hd. apply chg_sub; [done|done|]. intros y j Hy Hn. assert (Hdy : y ∈ dom s'.1) by (apply elem_of_dom; eauto).
    destruct (Hnew y Hdy) as [Hd'|[->|[_ Hb]]].
    - apply elem_of_dom in Hd' as [? ?]. congruence.
    - rewrite Hl in Hy. injection Hy as <-. simpl. intros f Hf Hx. apply elem_of_list_to_set in Hf. destruct (Hp f Hx) as (i & Hi & Hty).
      unfold gate, add_node in H0. apply rbind_ok in H0 as ([g' nm] & H1 & H2). simpl in H2. injection H2 as _ E.
      destruct (add_g s.1 _ t fi [] rd_flags) as [[g2 o] nm2] eqn:Ha. destruct o; simpl in H1; [|discriminate]. injection H1 as _ E2.
      pose proof Ha as Ha'. apply add_g_gen in Ha' as (En & _); [|done].
      destruct (add_g_operands _ _ _ _ _ _ _ Ha eq_refl Ht f i Hf) as [N1 N2]; [|done|destruct Hty; done].
      intros Ef. apply Hnd. rewrite <- E, <- E2, En, <- Ef. apply elem_of_dom; eauto.
    - rewrite Hb in Hy. injection Hy as <-. simpl. set_solver.
  Qed.
  Lemma pfr_cond e st st' r : c_cond k st e = Ok (st', r) → pfr st st'.
  Proof. apply (frame_cond k pfr pfr_refl pfr_trans pfr_gate). Qed.

  (* where the result of an expression comes from *)
  Definition oq {T} (cf : rctx → cstate → T → res (cstate * string)) (idf : T → list string) (e : T) : Prop :=
    ∀ st st' r, cf k st e = Ok (st', r) → r ∈ idf e ∨ r ∈ ties k ∨ r ∈ st'.2.
  Lemma gate_rem su prefix t items fi st' r : gate k su prefix t items fi true = Ok (st', r) → r ∈ st'.2.
  Proof. unfold gate. intros H. apply rbind_ok in H as ([g' nm] & H1 & H2). simpl in H2. injection H2 as <- <-. simpl. set_solver. Qed.
  Lemma konst_tie c : konst_node k c ∈ ties k. Proof. destruct c; unfold ties; simpl; set_solver. Qed.
  Lemma orig_all : (∀ p, oq c_prim ids_prim p) ∧ (∀ u, oq c_unary ids_unary u) ∧ (∀ a, oq c_and ids_and a) ∧
                   (∀ x, oq c_xor ids_xor x) ∧ (∀ o, oq c_or ids_or o).
  Proof.
    apply expr_mutind; unfold oq.
    - intros s st st' r H. simpl in H. injection H as <- <-. left. simpl. by left.
    - intros c st st' r H. simpl in H. injection H as <- <-. right. left. apply konst_tie.
    - intros o IH st st' r H. simpl in H. by eapply IH.
    - intros p IH st st' r H. simpl in H. by eapply IH.
    - intros p IH st st' r H. simpl in H. apply rbind_ok in H as ([st1 r1] & H1 & H2). right. right. by eapply gate_rem.
    - intros u IH st st' r H. simpl in H. by eapply IH.
    - intros a IHa u IHu st st' r H. simpl in H. apply rbind_ok in H as ([st1 r1] & H1 & H). simpl in H. apply rbind_ok in H as ([st2 r2] & H2 & H).
      right. right. by eapply gate_rem.
    - intros a IH st st' r H. simpl in H. by eapply IH.
    - intros x IHx a IHa st st' r H. simpl in H. apply rbind_ok in H as ([st1 r1] & H1 & H). simpl in H. apply rbind_ok in H as ([st2 r2] & H2 & H). simpl in H.
      case_bool_decide; [injection H as <- <-; right; left; unfold ties; set_solver|]. right. right. by eapply gate_rem.
    - intros x IHx a IHa st st' r H. simpl in H. apply rbind_ok in H as ([st1 r1] & H1 & H). simpl in H. apply rbind_ok in H as ([st2 r2] & H2 & H). simpl in H.
      case_bool_decide; [injection H as <- <-; right; left; unfold ties; set_solver|]. right. right. by eapply gate_rem.
    - intros x IH st st' r H. simpl in H. by eapply IH.
    - intros o IHo x IHx st st' r H. simpl in H. apply rbind_ok in H as ([st1 r1] & H1 & H). simpl in H. apply rbind_ok in H as ([st2 r2] & H2 & H).
      right. right. by eapply gate_rem.
  Qed.
  Lemma orig_cond e st st' r : c_cond k st e = Ok (st', r) → r ∈ ids_cond e ∨ r ∈ ties k ∨ r ∈ st'.2.
  Proof.
    destruct orig_all as (_ & _ & _ & _ & Oo). destruct e as [o|s a b]; intros H; [by eapply Oo|].
    unfold c_cond in H. apply mbind_ok in H as ([st1 r1] & H1 & H). apply mbind_ok in H as ([st2 r2] & H2 & H).
    apply mbind_ok in H as ([st3 r3] & H3 & H). cbn [fst snd] in H.
    apply mbind_ok in H as ([gn n] & Hn & H). apply mbind_ok in H as ([ga0 a0] & Ha0 & H). apply mbind_ok in H as ([ga1 a1] & Ha1 & H).
    right. right. by eapply gate_rem.
  Qed.
  (* ... hence it is no old pin node *)
  Lemma result_not_pin e st st' r : c_cond k st e = Ok (st', r) → gst k st → (list_to_set (ids_cond e) : gset string) ⊆ k_rsv k →
    XP ⊆ dom st.1 → XP ## list_to_set (ids_cond e) → XP ## ties k → r ∉ XP.
  Proof.
    intros H G Hid Hd Hi Ht Hr. destruct (orig_cond e st st' r H) as [Ho|[Ho|Ho]].
    - apply (Hi r Hr). by apply elem_of_list_to_set.
    - by apply (Ht r Hr).
    - destruct (result_cond _ _ _ _ _ H G Hid) as [_ HB]. destruct (HB Ho) as [Hn _]. apply Hd in Hr. apply elem_of_dom in Hr as [? ?]. congruence.
  Qed.
End pins.


Section pinsteps.
  Context (k : rctx) (NN XP XN : gset string).
  Hypothesis Htr : ties k ## k_rsv k.
  Hypothesis HNN : NN ⊆ k_rsv k.
  Hypothesis HXN : XP ## NN.
  Hypothesis HXT : XP ## ties k.

  Lemma add_node_chg g n t fi g' nm : add_node (k_rsv k) g n t fi false = Ok (g', nm) → undef_ok g n → n ∉ XP ∪ XN → XP ∪ XN ⊆ dom g →
    (∀ f, f ∈ fi → f ∉ XP) → chg XP XN g g'.
  Proof.
    intros H Hu Hn Hd Hfi. pose proof (add_node_shape k g n t fi g' nm H) as (Hl & Hx & _).
    assert (Hf0 : fanin g n = ∅). { unfold fanin. destruct (g !! n) as [j|] eqn:Ej; [|done]. simpl. by destruct (Hu j Ej). }
    split.
    - intros x Hxx. assert (x ≠ n) by (intros ->; done). destruct (Hx x) as [E|(E & _)]; [done|done|].
      apply Hd in Hxx. apply elem_of_dom in Hxx as [? ?]. congruence.
    - intros y j Hy. destruct (decide (y = n)) as [->|Hyn].
      + right. rewrite Hl, Hf0 in Hy. injection Hy as <-. simpl. intros f Hf Hp. apply elem_of_union in Hf as [Hf|Hf]; [by apply elem_of_empty in Hf|].
        apply elem_of_list_to_set in Hf. by apply (Hfi f).
      + destruct (Hx y Hyn) as [E|(_ & _ & E)]; [left; by rewrite <- E|right]. rewrite E in Hy. injection Hy as <-. simpl. set_solver.
  Qed.

  (* one assignment *)
  Lemma assign_chg st lv e st' P : c_assign k st (lv, e) = Ok st' → rinv k NN P st.1 st.2 → drv_ok k NN (lv, DAssign e) → lv ∉ P.*1 →
    (list_to_set (ids_cond e) : gset string) ⊆ NN → XN ⊆ list_to_set P.*1 → pinty st.1 XP → XP ∪ XN ⊆ dom st.1 → chg XP XN st.1 st'.1.
  Proof.
    intros H Hi (HlvN & Hlv & Hide) Hnp HidN HXP Hp Hd. pose proof Hi as [G T X U E N]. assert (Gst : gst k st) by (by destruct st).
    assert (Hlvt : lv ∉ [k_t0 k; k_t1 k; k_tx k]). { intros Hin. apply (Htr lv); [|done]. unfold ties. set_solver. }
    assert (HlvX : lv ∉ XP ∪ XN).
    { intros [Hx|Hx]%elem_of_union; [by apply (HXN lv)|]. apply HXP in Hx. by apply elem_of_list_to_set in Hx. }
    unfold c_assign in H; simpl in H; apply mbind_ok in H as ([st1 r] & H1 & H2); simpl in H2.
    destruct (frg_cond _ _ _ _ _ H1) as [Hs G1]; specialize (G1 Gst); pose proof (fr2_cond _ _ _ _ _ H1) as F2.
    pose proof (fr2_undef _ _ _ lv F2 Hlv (U lv HlvN Hnp)) as Hu1.
    destruct (pfr_cond k XP XN e st st1 r H1) as [_ Hc]. specialize (Hc Hp Hd).
    assert (Hd1 : XP ∪ XN ⊆ dom st1.1) by (intros x Hx; apply (subseteq_dom _ _ Hs); by apply Hd).
    assert (Hrp : r ∉ XP).
    { eapply (result_not_pin k XP e st st1 r H1 Gst Hide); [intros x Hx; apply Hd; by apply elem_of_union_l| |done].
      intros x Hx Hi'. apply (HXN x Hx). by apply HidN. }
    eapply chg_trans; [exact Hc|].
    unfold assignment in H2; rewrite bool_decide_eq_false_2 in H2 by done. case_bool_decide as Hrg.
    - injection H2 as <-; simpl.
      destruct (result_cond _ _ _ _ _ H1 Gst Hide) as [_ HB]; destruct (HB Hrg) as (Hrn & t & fi & Hl & Htt & Hfi & Hrfi & Hnofo).
      assert (Hrr : r ∉ k_rsv k) by (destruct G1 as (_ & _ & _ & Hdd); intros ?; by apply (Hdd r)).
      assert (Hne : r ≠ lv) by (intros ->; done).
      assert (Hfl : fanin st1.1 lv = ∅) by (unfold fanin; destruct (st1.1 !! lv) as [i|] eqn:Ei; [simpl; by destruct (Hu1 i Ei)|done]).
      destruct (relabel_shape st1.1 r lv t fi Hl Hne Hrfi Hnofo Hfl) as (Slv & Sr & Sx).
      assert (HrX : r ∉ XP ∪ XN). { intros Hx. apply Hd in Hx. apply elem_of_dom in Hx as [? ?]. congruence. }
      split.
      + intros x Hx. apply Sx; intros ->; done.
      + intros y j Hy. destruct (decide (y = lv)) as [->|Hyl].
        * right. rewrite Slv in Hy. injection Hy as <-. destruct Hc as [_ Hc2]. destruct (Hc2 r _ Hl) as [Ho|Hdis]; [congruence|done].
        * destruct (decide (y = r)) as [->|Hyr]; [congruence|]. left. by rewrite <- Sx.
    - apply mbind_ok in H2 as ([g' nm] & Ha & E'); injection E' as <-; simpl.
      eapply add_node_chg; [exact Ha|done|done|done|]. intros f ->%elem_of_list_singleton. done.
  Qed.

  (* results of a list of expressions are no old pins *)
  Lemma list_not_pin l : ∀ st st' rs, rmapS (c_cond k) st l = Ok (st', rs) → gst k st →
    (∀ e, e ∈ l → (list_to_set (ids_cond e) : gset string) ⊆ NN) → XP ⊆ dom st.1 → Forall (λ r, r ∉ XP) rs.
  Proof.
    induction l as [|e l IH]; intros st st' rs H G Hid Hd; simpl in H; [injection H as _ <-; constructor|].
    apply rbind_ok in H as ([st1 r1] & H1 & H). apply rbind_ok in H as ([st2 rs2] & H2 & H). simpl in *. injection H as _ <-.
    destruct (frg_cond _ _ _ _ _ H1) as [S1 G1]. specialize (G1 G). constructor.
    - eapply (result_not_pin k XP e st st1 r1 H1 G); [etrans; [apply Hid; by left|done]|done| |done].
      intros x Hx Hi'. apply (HXN x Hx). apply (Hid e); [by left|done].
    - eapply (IH st1); [exact H2|done|intros e' He'; apply Hid; by right|]. intros x Hx. apply (subseteq_dom _ _ S1). by apply Hd.
  Qed.
End pinsteps.


(* pins and output nets of one instance *)
Definition xpins (x : string * bbdef * list (string * option cond)) : gset string := set_map (pin x.1.1) (bb_in x.1.2 ∪ bb_out x.1.2).
Definition xnets (x : string * bbdef * list (string * option cond)) : gset string := list_to_set (bb_defs x.1.2 (x.1.1, Named x.2)).

Lemma forallb_ext_in {A} (f f' : A → bool) l : (∀ a, a ∈ l → f a = f' a) → forallb f l = forallb f' l.
Proof. induction l as [|a l IH]; intros H; simpl; [done|]. rewrite H by (by left). rewrite IH; [done|]. intros; apply H; by right. Qed.

Lemma chg_same XP XN g g' x : chg XP XN g g' → x ∈ XP ∪ XN → ty g' x = ty g x ∧ fanin g' x = fanin g x.
Proof. intros [A _] Hx. unfold ty, fanin. by rewrite (A x Hx). Qed.
Lemma chg_fanout XP XN g g' P (s : gset string) : chg XP XN g g' → P ∈ XP → s ⊆ XN → fanout g P = s → fanout g' P = s.
Proof.
  intros [A B] HP Hs Hf. apply set_eq. intros y. rewrite <- Hf. rewrite !elem_of_fanout. split.
  - intros (j & Hj & Hin). exists j. split; [|done]. destruct (B y j Hj) as [?|Hd]; [done|]. exfalso. by apply (Hd P).
  - intros (j & Hj & Hin). exists j. split; [|done]. rewrite A; [done|]. apply elem_of_union_r, Hs. rewrite <- Hf. apply elem_of_fanout. eauto.
Qed.

(* an instance that is attached as specified stays so under every change that leaves its pins and output nets alone *)
Lemma bb_ok_chg XP XN g g' x : chg XP XN g g' → xpins x ⊆ XP → xnets x ⊆ XN → bb_ok g x = true → bb_ok g' x = true.
Proof.
  intros Hc Hp Hn. destruct x as [[inst d] ps]. unfold xpins, xnets in *. simpl in *. unfold bb_ok. rewrite !andb_true_iff. intros [H1 H2]. split.
  - rewrite <- H1. apply forallb_ext_in. intros p Hpi. apply elem_of_elements in Hpi.
    assert (HP : pin inst p ∈ XP ∪ XN). { apply elem_of_union_l, Hp. apply elem_of_map. exists p. split; [done|]. by apply elem_of_union_l. }
    destruct (chg_same _ _ _ _ _ Hc HP) as [-> ->]. done.
  - rewrite forallb_forall in H2. apply forallb_forall. intros p Hpi. specialize (H2 p Hpi). apply elem_of_list_In, elem_of_elements in Hpi.
    assert (HP : pin inst p ∈ XP). { apply Hp. apply elem_of_map. exists p. split; [done|]. by apply elem_of_union_r. }
    destruct (chg_same _ _ _ _ _ Hc (elem_of_union_l _ _ _ HP)) as [-> ->].
    apply andb_true_iff in H2 as [H2a H2b]. rewrite H2a. cbn [andb].
    destruct (list_find (λ pc : string * option cond, pc.1 = p) ps) as [[j [p' [e|]]]|] eqn:Ef; cbn [fmap option_fmap option_map snd] in *.
    + destruct (as_id e) as [w|] eqn:Ew; [|done]. rewrite !andb_true_iff in H2b. destruct H2b as [[Hfo Htw] Hfw].
      apply bool_decide_eq_true in Hfo.
      assert (Hw : w ∈ XN).
      { apply Hn. apply elem_of_list_to_set. unfold bb_defs. simpl. apply list_find_Some in Ef as (Hl & Hk & _). simpl in Hk. subst p'.
        apply elem_of_list_bind. exists (p, Some e). split; [|by eapply elem_of_list_lookup_2]. simpl. rewrite bool_decide_eq_true_2 by done. rewrite Ew. by left. }
      destruct (chg_same _ _ _ _ _ Hc (elem_of_union_r _ _ _ Hw)) as [-> ->].
      rewrite (chg_fanout _ _ _ _ _ {[w]} Hc HP) by (done || set_solver). rewrite Htw, Hfw. by rewrite bool_decide_eq_true_2.
    + apply bool_decide_eq_true in H2b. rewrite (chg_fanout _ _ _ _ _ ∅ Hc HP) by (done || set_solver). by rewrite bool_decide_eq_true_2.
    + apply bool_decide_eq_true in H2b. rewrite (chg_fanout _ _ _ _ _ ∅ Hc HP) by (done || set_solver). by rewrite bool_decide_eq_true_2.
Qed.


Lemma ninfo_ext (i j : ninfo) : n_ty i = n_ty j → n_out i = n_out j → (∀ f, f ∈ n_fi i ↔ f ∈ n_fi j) → i = j.
Proof. destruct i, j. simpl. intros -> -> H. f_equal. by apply set_eq. Qed.
Lemma pin_inj' inst p q : pin inst p = pin inst q → p = q.
Proof. unfold pin. intros H. apply (inj (String.append inst)) in H. by apply (inj (String.append ".")) in H. Qed.

Section bbpins.
  Context (k : rctx).
  Hypothesis Htr : ties k ## k_rsv k.

  (* the graph after one blackbox instance, node by node *)
  Definition in_fi (conns : list (string * string)) (p : string) : gset string :=
    match dict_get conns p with Some v => {[v]} | None => ∅ end.
  Record bbshape (d : bbdef) (inst : string) (conns : list (string * string)) (g g' : circuit) : Prop := mk_bbshape {
    bs_in : ∀ p, p ∈ bb_in d → g' !! pin inst p = Some (mk_node BbIn false (in_fi conns p));
    bs_out : ∀ p, p ∈ bb_out d → g' !! pin inst p = Some (mk_node BbOut false ∅);
    bs_net : ∀ kv, kv ∈ conns → kv.1 ∉ bb_in d → g' !! kv.2 = Some (mk_node Buf false {[pin inst kv.1]});
    bs_old : ∀ x, x ∈ dom g → (∀ kv, kv ∈ conns → kv.1 ∉ bb_in d → x ≠ kv.2) → g' !! x = g !! x;
    bs_new : ∀ y j, g' !! y = Some j → g !! y = Some j ∨ j = mk_node Buf false ∅ ∨ (∃ p, p ∈ bb_in d ∪ bb_out d ∧ y = pin inst p) ∨
                                      (∃ kv, kv ∈ conns ∧ kv.1 ∉ bb_in d ∧ y = kv.2);
    bs_fresh : ∀ p, p ∈ bb_in d ∪ bb_out d → pin inst p ∉ dom g;
    bs_disj : bb_in d ## bb_out d;
    bs_vals : ∀ kv, kv ∈ conns → kv.2 ∈ dom g' ∧ ∀ p, p ∈ bb_in d ∪ bb_out d → kv.2 ≠ pin inst p;
    bs_keys : ∀ kv, kv ∈ conns → kv.1 ∈ bb_in d ∪ bb_out d }.

  Lemma outs_fold_keep conns l : ∀ g g1,
    rfold (λ g (o : string), match dict_get conns o with
                              | Some net => r ← add_node (k_rsv k) g net Buf [] false; Ok r.1
                              | None => Ok g end) g l = Ok g1 →
    ∀ x, x ∈ dom g → (∀ o net, o ∈ l → dict_get conns o = Some net → x ≠ net) → g1 !! x = g !! x.
  Proof.
    induction l as [|o l IH]; intros g g1 H x Hx Hn; simpl in H; [by injection H as <-|].
    apply rbind_ok in H as (g' & Ha & Hb). destruct (dict_get conns o) as [net|] eqn:Eg.
    - apply mbind_ok in Ha as ([g'' nm] & Ha & E). injection E as <-. simpl in *.
      assert (Hne : x ≠ net) by (apply (Hn o net); [by left|done]).
      assert (Hk : g'' !! x = g !! x) by (eapply add_node_keeps; [exact Ha|done|done]).
      rewrite <- Hk. apply (IH g'' g1 Hb).
      + apply elem_of_dom in Hx as [j Hj]. apply elem_of_dom. exists j. by rewrite Hk.
      + intros o' net' Ho' Hg'. apply (Hn o' net'); [by right|done].
    - injection Ha as <-. apply (IH g g1 Hb x Hx). intros o' net' Ho' Hg'. apply (Hn o' net'); [by right|done].
  Qed.

  Lemma bb_instance_shape d gb ic gb' ge conns :
    bb_instance k d gb ic = Ok gb' → ic.2 = CNamed conns → NoDup conns.*1 → gst k (gb.1, ge) →
    (∀ kv, kv ∈ conns → kv.1 ∈ bb_out d → kv.1 ∉ bb_in d ∧ kv.2 ∈ k_rsv k ∧ undef_ok gb.1 kv.2) →
    (∀ kv kv' : string * string, kv ∈ conns → kv' ∈ conns → kv.1 ∉ bb_in d → kv'.1 ∉ bb_in d → kv.2 = kv'.2 → kv = kv') →
    bbshape d ic.1 conns gb.1 gb'.1.
  Proof.
    unfold bb_instance. intros H E Hnd G Hout Huniq. rewrite E in H.
    apply mbind_ok in H as (g1 & H1 & H). apply mbind_ok in H as (g2 & H2 & H).
    destruct (add_blackbox _ _ _ _ _ _) as [C' o] eqn:Eb. destruct o; [|discriminate]. injection H as <-. simpl.
    destruct (outs_fold k Htr conns _ _ _ ge H1) as (G1 & _ & _ & _ & B1 & O1); [|done|].
    { intros o net Ho Hg. apply dict_get_elem in Hg. apply elem_of_elements in Ho. destruct (Hout (o, net) Hg Ho) as (_ & ? & ?). done. }
    destruct (ph2_fold _ _ _ H2) as [S2 N2]. pose proof (ph2_dom k Htr _ _ _ H2) as D2.
    destruct G1 as (Hcl1 & Hti1 & Htg & Hgr).
    assert (Hcl2 : closed g2).
    { intros x i f Hx Hf. destruct (g1 !! x) as [j|] eqn:Ej.
      - pose proof (lookup_weaken _ _ _ _ Ej S2). assert (j = i) as -> by congruence. eapply (subseteq_dom g1 g2 S2). by eapply Hcl1.
      - rewrite (N2 x i Hx Ej) in Hf. simpl in Hf. by apply elem_of_empty in Hf. }
    pose proof Eb as Eb0. apply BlackboxProofs.add_blackbox_inv in Eb0 as (_ & _ & _ & g1p & io & Hp & Hc). simpl in Hp.
    destruct (BlackboxProofs.mkpins_done _ _ _ _ _ _ Hp) as (Hndp & Hfresh & Hl).
    destruct (bconn_fold_exact _ _ _ _ _ Hc) as [Hrel Hdom].
    destruct (BlackboxProofs.add_blackbox_wf _ _ _ _ _ _ _ Eb) as (_ & _ & Hkeys).
    set (conns' := (λ kv : string * string, (kv.1, [kv.2])) <$> conns) in *.
    assert (Hdisj : bb_in d ## bb_out d).
    { intros p Hi Ho. apply NoDup_app in Hndp as (_ & Hx & _). apply (Hx p); by apply elem_of_elements. }
    assert (Hfr : ∀ p, p ∈ bb_in d ∪ bb_out d → pin ic.1 p ∉ dom g2).
    { intros p Hp'. apply Hfresh. apply elem_of_union in Hp' as [?|?]; apply elem_of_app; [left|right]; by apply elem_of_elements. }
    assert (Hkp : ∀ kv : string * string, kv ∈ conns → kv.1 ∈ bb_in d ∨ kv.1 ∈ bb_out d).
    { intros kv Hkv. apply (Hkeys (kv.1, [kv.2])). apply elem_of_list_fmap. exists kv. done. }
    (* edges *)
    assert (Hedge : ∀ f x, bedge d ic.1 conns' f x ↔ ∃ kv, kv ∈ conns ∧ ((kv.1 ∈ bb_in d ∧ x = pin ic.1 kv.1 ∧ f = kv.2) ∨ (kv.1 ∉ bb_in d ∧ f = pin ic.1 kv.1 ∧ x = kv.2))).
    { intros f x. unfold bedge, conns'. split.
      - intros (kv' & Hin & Hor). apply elem_of_list_fmap in Hin as (kv & -> & Hkv). exists kv. split; [done|]. simpl in Hor.
        destruct Hor as [(? & ? & ->%elem_of_list_singleton)|(? & ? & ->%elem_of_list_singleton)]; auto.
      - intros (kv & Hkv & Hor). exists (kv.1, [kv.2]). split; [apply elem_of_list_fmap; eauto|]. simpl.
        destruct Hor as [(? & ? & ->)|(? & ? & ->)]; [left|right]; (split; [done|]); (split; [done|]); by apply elem_of_list_singleton. }
    assert (Hdg : ∀ x, x ∈ dom gb.1 → x ∈ dom g2).
    { intros x Hx. apply (subseteq_dom _ _ S2). clear -H1 Hx. revert H1 Hx. generalize (gb.1). generalize (elements (bb_out d)). intros l.
      induction l as [|o l IH]; intros g H Hs; simpl in H; [by injection H as <-|].
      apply rbind_ok in H as (g' & Ha & Hb). eapply IH; [exact Hb|]. destruct (dict_get conns o) as [net|]; [|by injection Ha as <-].
      apply mbind_ok in Ha as ([g'' nm] & Ha & E). injection E as <-. simpl.
      pose proof (add_node_shape k g net Buf [] g'' nm Ha) as (Hl & Hx & _). destruct (decide (x = net)) as [->|Hne]; [apply elem_of_dom; eauto|].
      apply elem_of_dom in Hs as [j Hj]. destruct (Hx x Hne) as [E|(E & _)]; [|congruence]. apply elem_of_dom. exists j. by rewrite E. }
    (* lookups of the final graph *)
    assert (Hlook : ∀ x i, g1p !! x = Some i → ∃ i', c_g C' !! x = Some i' ∧ n_ty i' = n_ty i ∧ n_out i' = n_out i ∧
                      ∀ f, f ∈ n_fi i' ↔ f ∈ n_fi i ∨ bedge d ic.1 conns' f x).
    { intros x i Hi. assert (Hd : x ∈ dom (c_g C')) by (rewrite Hdom; apply elem_of_dom; eauto). apply elem_of_dom in Hd as [i' Hi'].
      destruct (Hrel x i' Hi') as (i0 & Hi0 & ? & ? & ?). assert (i0 = i) as -> by congruence. eauto. }
    assert (Hnet2 : ∀ kv, kv ∈ conns → kv.1 ∉ bb_in d → g2 !! kv.2 = Some (mk_node Buf false ∅)).
    { intros kv Hkv Hni. destruct (Hkp kv Hkv) as [?|Hko]; [done|]. eapply lookup_weaken; [|exact S2].
      eapply (O1 kv.1); [by apply elem_of_elements|]. apply dict_get_nodup; [done|]. by destruct kv. }
    split.
    - intros p Hpi. destruct (Hlook (pin ic.1 p) (mk_node BbIn false ∅)) as (i' & Hi' & Et & Eo & Hf).
      { apply Hl. right. left. exists p. split; [by apply elem_of_elements|done]. }
      rewrite Hi'. f_equal. apply ninfo_ext; [done|done|]. intros f. rewrite Hf, Hedge. simpl. unfold in_fi. split.
      + intros [Hf0|(kv & Hkv & [(Hki & Hpe & ->)|(Hki & _ & Hpe)])]; [by apply elem_of_empty in Hf0| |].
        * apply pin_inj' in Hpe as ->. rewrite (dict_get_nodup conns kv.1 kv.2 Hnd) by (by destruct kv). by apply elem_of_singleton.
        * exfalso. apply (Hfr p); [by apply elem_of_union_l|]. rewrite Hpe. apply elem_of_dom. rewrite (Hnet2 kv Hkv Hki). eauto.
      + destruct (dict_get conns p) as [v|] eqn:Eg; [|intros Hf0; by apply elem_of_empty in Hf0]. intros ->%elem_of_singleton. right.
        exists (p, v). split; [by apply dict_get_elem|]. left. done.
    - intros p Hpo. destruct (Hlook (pin ic.1 p) (mk_node BbOut false ∅)) as (i' & Hi' & Et & Eo & Hf).
      { apply Hl. right. right. exists p. split; [by apply elem_of_elements|done]. }
      rewrite Hi'. f_equal. apply ninfo_ext; [done|done|]. intros f. rewrite Hf, Hedge. simpl. split; [|intros Hf0; by apply elem_of_empty in Hf0].
      intros [Hf0|(kv & Hkv & [(Hki & Hpe & ->)|(Hki & _ & Hpe)])]; [done| |].
      + apply pin_inj' in Hpe as ->. exfalso. by apply (Hdisj kv.1).
      + exfalso. apply (Hfr p); [by apply elem_of_union_r|]. rewrite Hpe. apply elem_of_dom. rewrite (Hnet2 kv Hkv Hki). eauto.
    - intros kv Hkv Hni. destruct (Hlook kv.2 (mk_node Buf false ∅)) as (i' & Hi' & Et & Eo & Hf).
      { apply Hl. left. by apply Hnet2. }
      rewrite Hi'. f_equal. apply ninfo_ext; [done|done|]. intros f. rewrite Hf, Hedge. simpl. rewrite elem_of_singleton. split.
      + intros [Hf0|(kv' & Hkv' & [(Hki & Hpe & ->)|(Hki & -> & Hpe)])]; [by apply elem_of_empty in Hf0| |].
        * exfalso. apply (Hfr kv'.1); [by apply elem_of_union_l|]. rewrite <- Hpe. apply elem_of_dom. rewrite (Hnet2 kv Hkv Hni). eauto.
        * by rewrite (Huniq kv kv' Hkv Hkv' Hni Hki Hpe).
      + intros ->. right. exists kv. split; [done|]. right. done.
    - intros x Hx Hnn.
      assert (H1x : g1 !! x = gb.1 !! x).
      { eapply outs_fold_keep; [exact H1|done|]. intros o net Ho Hg ->. apply dict_get_elem in Hg. apply elem_of_elements in Ho.
        destruct (Hout (o, net) Hg Ho) as (Hni & _). by apply (Hnn (o, net) Hg Hni). }
      apply elem_of_dom in Hx as [i Hi]. rewrite Hi in H1x |- *. pose proof (lookup_weaken _ _ _ _ H1x S2) as H2x.
      destruct (Hlook x i) as (i' & Hi' & Et & Eo & Hf); [apply Hl; by left|]. rewrite Hi'. f_equal.
      apply ninfo_ext; [done|done|]. intros f. rewrite Hf, Hedge. split; [|by left]. intros [?|(kv & Hkv & [(Hki & Hpe & _)|(Hki & _ & Hpe)])]; [done| |].
      + exfalso. apply (Hfr kv.1); [by apply elem_of_union_l|]. rewrite <- Hpe. apply elem_of_dom; eauto.
      + exfalso. by apply (Hnn kv Hkv Hki).
    - intros y j Hy. destruct (Hrel y j Hy) as (i & Hi & Et & Eo & Hf).
      apply Hl in Hi as [Hi|[(p & Hp' & -> & _)|(p & Hp' & -> & _)]].
      + (* y is a node of g2 *)
        destruct (decide (Exists (λ kv : string * string, kv.1 ∉ bb_in d ∧ y = kv.2) conns)) as [Hex|Hnex0]; [right; right; right; by apply Exists_exists in Hex|].
        assert (Hnex : ¬ ∃ kv : string * string, kv ∈ conns ∧ kv.1 ∉ bb_in d ∧ y = kv.2) by (intros Hex; apply Hnex0; by apply Exists_exists).
        assert (j = i) as ->.
        { apply ninfo_ext; [done|done|]. intros f. rewrite Hf, Hedge. split; [|by left]. intros [?|(kv & Hkv & [(Hki & Hpe & _)|(Hki & _ & Hpe)])]; [done| |].
          - exfalso. apply (Hfr kv.1); [by apply elem_of_union_l|]. rewrite <- Hpe. apply elem_of_dom; eauto.
          - exfalso. apply Hnex. eauto. }
        destruct (g1 !! y) as [i1|] eqn:E1.
        * pose proof (lookup_weaken _ _ _ _ E1 S2). assert (i1 = i) as -> by congruence.
          destruct (decide (y ∈ dom gb.1)) as [Hyd|Hyd].
          -- left. rewrite <- E1. symmetry. eapply outs_fold_keep; [exact H1|done|]. intros o net Ho Hg ->. apply Hnex. apply dict_get_elem in Hg. apply elem_of_elements in Ho.
             destruct (Hout (o, net) Hg Ho) as (Hni & _). exists (o, net). done.
          -- (* a node created by the first loop is an output net *)
             exfalso. clear -H1 E1 Hyd Hnex Hout. assert (Hel : ∀ o, o ∈ elements (bb_out d) → o ∈ bb_out d) by (intros; by apply elem_of_elements).
             revert H1 Hyd Hel. generalize (gb.1). generalize (elements (bb_out d)). intros l. induction l as [|o l IH]; intros g H Hyd Hel; simpl in H.
             { injection H as <-. apply Hyd. apply elem_of_dom; eauto. }
             apply rbind_ok in H as (g' & Ha & Hb). destruct (dict_get conns o) as [net|] eqn:Eg; [|injection Ha as <-; eapply IH; eauto; intros; apply Hel; by right].
             apply mbind_ok in Ha as ([g'' nm] & Ha & E). injection E as <-. simpl in *. eapply (IH g''); [exact Hb| |intros; apply Hel; by right].
             intros Hd. apply Hyd. pose proof (add_node_shape k g net Buf [] g'' nm Ha) as (_ & Hx & _).
             destruct (decide (y = net)) as [->|Hne].
             { exfalso. apply Hnex. apply dict_get_elem in Eg. destruct (Hout (o, net) Eg (Hel o ltac:(by left))) as (Hni & _). exists (o, net). done. }
             apply elem_of_dom in Hd as [j' Hj']. destruct (Hx y Hne) as [E'|(_ & Hf' & _)]; [|by apply elem_of_nil in Hf']. apply elem_of_dom. exists j'. by rewrite <- E'.
        * right. left. by apply (N2 y i Hi E1).
      + right. right. left. exists p. split; [apply elem_of_union_l; by apply elem_of_elements|done].
      + right. right. left. exists p. split; [apply elem_of_union_r; by apply elem_of_elements|done].
    - intros p Hp' Hd. apply (Hfr p Hp'). by apply Hdg.
    - done.
    - intros kv Hkv. assert (Hd2 : kv.2 ∈ dom g2) by (by apply D2). split.
      + rewrite Hdom. apply elem_of_dom in Hd2 as [i Hi]. apply elem_of_dom. exists i. apply Hl. by left.
      + intros p Hp' Heq. apply (Hfr p Hp'). by rewrite <- Heq.
    - intros kv Hkv. apply elem_of_union. by apply Hkp.
  Qed.
End bbpins.


Lemma in_fi_elem conns p f : f ∈ in_fi conns p → (p, f) ∈ conns.
Proof. unfold in_fi. destruct (dict_get conns p) as [v|] eqn:E; [|intros H; by apply elem_of_empty in H]. intros ->%elem_of_singleton. by apply dict_get_elem. Qed.

(* the new instance leaves the pins and output nets of the earlier ones alone *)
Lemma bbshape_chg XP XN d inst conns g g' : bbshape d inst conns g g' → XP ∪ XN ⊆ dom g →
  (∀ kv : string * string, kv ∈ conns → kv.1 ∉ bb_in d → kv.2 ∉ XP ∪ XN) → (∀ kv : string * string, kv ∈ conns → kv.1 ∈ bb_in d → kv.2 ∉ XP) → chg XP XN g g'.
Proof.
  intros [Bi Bo Bn Bold Bnew Bf Bd Bv Bk] Hd Hon Hin. split.
  - intros x Hx. apply Bold; [by apply Hd|]. intros kv Hkv Hni ->. by apply (Hon kv Hkv Hni).
  - intros y j Hy. destruct (Bnew y j Hy) as [?|[->|[(p & Hp & ->)|(kv & Hkv & Hni & ->)]]]; [by left|right; simpl; set_solver| |].
    + right. apply elem_of_union in Hp as [Hp|Hp].
      * rewrite (Bi p Hp) in Hy. injection Hy as <-. simpl. intros f Hf Hx. apply in_fi_elem in Hf. by apply (Hin (p, f) Hf Hp).
      * rewrite (Bo p Hp) in Hy. injection Hy as <-. simpl. set_solver.
    + right. rewrite (Bn kv Hkv Hni) in Hy. injection Hy as <-. simpl. intros f ->%elem_of_singleton Hx.
      apply (Bf kv.1 (Bk kv Hkv)). apply Hd. by apply elem_of_union_l.
Qed.

(* the compiled connections agree with the named connections of the statement *)
Definition conns_rel (ps : list (string * option cond)) (conns : list (string * string)) : Prop :=
  ∀ p, match (λ y : nat * (string * option cond), y.2.2) <$> list_find (λ pc : string * option cond, pc.1 = p) ps with
       | Some (Some e) => ∃ v, dict_get conns p = Some v ∧ ∀ w, as_id e = Some w → v = w
       | _ => dict_get conns p = None end.

(* ... and the new instance is attached as the statement says *)
Lemma bbshape_ok d inst ps conns g g' : bbshape d inst conns g g' → closed g → NoDup conns.*1 → conns_rel ps conns →
  (∀ pc : string * option cond, pc ∈ ps → pc.1 ∈ bb_out d → pc.2 = None ∨ ∃ w, pc.2 = Some (cid w)) →
  bb_ok g' (inst, d, ps) = true.
Proof.
  intros [Bi Bo Bn Bold Bnew Bf Bd Bv Bk] Hcl Hnd HR Hg. unfold bb_ok. apply andb_true_iff. split; apply forallb_forall; intros p Hp; apply elem_of_list_In, elem_of_elements in Hp.
  - unfold ty, fanin. rewrite (Bi p Hp). simpl. specialize (HR p).
    destruct ((λ y : nat * (string * option cond), y.2.2) <$> list_find (λ pc : string * option cond, pc.1 = p) ps) as [[e|]|].
    + destruct HR as (v & Hv & Hw). unfold in_fi. rewrite Hv. destruct (as_id e) as [w|] eqn:Ew; [rewrite (Hw w eq_refl); by apply bool_decide_eq_true|].
      apply bool_decide_eq_true. by rewrite size_singleton.
    + unfold in_fi. rewrite HR. by apply bool_decide_eq_true.
    + unfold in_fi. rewrite HR. by apply bool_decide_eq_true.
  - assert (Hpi : p ∉ bb_in d) by (intros ?; by apply (Bd p)).
    assert (Hfo : ∀ y, y ∈ fanout g' (pin inst p) ↔ (p, y) ∈ conns).
    { intros y. rewrite elem_of_fanout. split.
      - intros (j & Hj & Hin). destruct (Bnew y j Hj) as [Hold|[->|[(q & Hq & ->)|(kv & Hkv & Hni & ->)]]].
        + exfalso. apply (Bf p); [by apply elem_of_union_r|]. by eapply Hcl.
        + by apply elem_of_empty in Hin.
        + apply elem_of_union in Hq as [Hq|Hq].
          * rewrite (Bi q Hq) in Hj. injection Hj as <-. simpl in Hin. apply in_fi_elem in Hin. destruct (Bv _ Hin) as [_ Hne]. exfalso. apply (Hne p); [by apply elem_of_union_r|done].
          * rewrite (Bo q Hq) in Hj. injection Hj as <-. by apply elem_of_empty in Hin.
        + rewrite (Bn kv Hkv Hni) in Hj. injection Hj as <-. simpl in Hin. apply elem_of_singleton in Hin. apply pin_inj' in Hin as ->. by destruct kv.
      - intros Hin. exists (mk_node Buf false {[pin inst p]}). split; [by apply (Bn (p, y))|]. simpl. by apply elem_of_singleton. }
    assert (Et : ty g' (pin inst p) = Some BbOut) by (unfold ty; by rewrite (Bo p Hp)).
    assert (Efi : fanin g' (pin inst p) = ∅) by (unfold fanin; by rewrite (Bo p Hp)).
    rewrite Et, Efi. rewrite !bool_decide_eq_true_2 by done. cbn [andb]. specialize (HR p).
    destruct ((λ y : nat * (string * option cond), y.2.2) <$> list_find (λ pc : string * option cond, pc.1 = p) ps) as [[e|]|] eqn:Ef.
    + destruct HR as (v & Hv & Hw).
      assert (Hex : ∃ w, e = cid w).
      { destruct (list_find (λ pc : string * option cond, pc.1 = p) ps) as [[j [p' c]]|] eqn:El; [|discriminate]. simpl in Ef. injection Ef as ->.
        apply list_find_Some in El as (Hl & Hk & _). simpl in Hk. subst p'. apply elem_of_list_lookup_2 in Hl.
        destruct (Hg _ Hl Hp) as [?|(w & Ew)]; [done|]. simpl in Ew. injection Ew as ->. eauto. }
      destruct Hex as [w ->]. change (as_id (cid w)) with (Some w). specialize (Hw w eq_refl). subst v. apply dict_get_elem in Hv.
      rewrite !andb_true_iff. split; [split|]; apply bool_decide_eq_true.
      * apply set_eq. intros y. rewrite Hfo, elem_of_singleton. split; [|by intros ->]. intros Hy.
        pose proof (dict_get_nodup conns p y Hnd Hy) as E1. pose proof (dict_get_nodup conns p w Hnd Hv) as E2. congruence.
      * pose proof (Bn (p, w) Hv Hpi) as Hw. simpl in Hw. unfold ty. by rewrite Hw.
      * pose proof (Bn (p, w) Hv Hpi) as Hw. simpl in Hw. unfold fanin. by rewrite Hw.
    + rewrite bool_decide_eq_true. apply set_eq. intros y. rewrite Hfo. split; [|set_solver]. intros Hy. exfalso.
      pose proof (dict_get_nodup conns p y Hnd Hy) as E1. congruence.
    + rewrite bool_decide_eq_true. apply set_eq. intros y. rewrite Hfo. split; [|set_solver]. intros Hy. exfalso.
      pose proof (dict_get_nodup conns p y Hnd Hy) as E1. congruence.
Qed.


(* ------------------------------------------------------------------ compiled named connections *)
Fixpoint dget (d : list (string * string)) (p : string) : option string :=
  match d with [] => None | kv :: r => if bool_decide (kv.1 = p) then Some kv.2 else dget r p end.
Lemma dict_get_dget d p : dict_get d p = dget d p.
Proof.
  unfold dict_get. induction d as [|[k' v'] d IH]; [done|]. cbn [list_find dget fst snd]. case_decide as E; simpl in E.
  - by rewrite bool_decide_eq_true_2.
  - rewrite bool_decide_eq_false_2 by done. rewrite <- IH. by destruct (list_find _ d) as [[? [? ?]]|].
Qed.
Lemma dict_get_set d key v p : dict_get (dict_set d key v) p = if bool_decide (p = key) then Some v else dict_get d p.
Proof.
  rewrite !dict_get_dget. induction d as [|[k' v'] d IH]; cbn [dict_set dget fst snd].
  - case_bool_decide as E; [subst; by rewrite bool_decide_eq_true_2|rewrite bool_decide_eq_false_2; [done|congruence]].
  - destruct (decide (k' = key)) as [->|Hne].
    + rewrite bool_decide_eq_true_2 by done. cbn [dget fst snd]. destruct (decide (key = p)) as [->|Hp].
      * by rewrite !bool_decide_eq_true_2.
      * rewrite (bool_decide_eq_false_2 (key = p)) by done. rewrite (bool_decide_eq_false_2 (p = key)) by congruence. done.
    + rewrite (bool_decide_eq_false_2 (k' = key)) by done. cbn [dget fst snd]. destruct (decide (k' = p)) as [->|Hp].
      * rewrite bool_decide_eq_true_2 by done. rewrite (bool_decide_eq_false_2 (p = key)) by done. done.
      * rewrite (bool_decide_eq_false_2 (k' = p)) by done. exact IH.
Qed.
Definition dstep (dd : list (string * string)) (o : option (string * string)) := match o with Some kv => dict_set dd kv.1 kv.2 | None => dd end.
Definition nrel (pc : string * option cond) (o : option (string * string)) : Prop :=
  match pc.2 with None => o = None | Some e => ∃ r, o = Some (pc.1, r) ∧ ∀ w, as_id e = Some w → r = w end.
Lemma named_nrel k ps : ∀ st st' os, rmapS (named_step k) st ps = Ok (st', os) → Forall2 nrel ps os.
Proof.
  induction ps as [|p ps IH]; intros st st' os H; simpl in H; [injection H as _ <-; constructor|].
  apply rbind_ok in H as ([st1 o1] & H1 & H). apply rbind_ok in H as ([st2 o2] & H2 & H). simpl in *. injection H as _ <-.
  constructor; [|by eapply IH]. unfold named_step in H1. unfold nrel. destruct p as [pn [e|]]; simpl in *; [|by injection H1 as _ <-].
  apply mbind_ok in H1 as ([st3 r] & H3 & H4). injection H4 as _ <-. exists r. split; [done|]. intros w Ew.
  apply as_id_cid in Ew as ->. change (c_cond k st (cid w)) with (Ok (st, w) : res (cstate * string)) in H3. by injection H3 as _ <-.
Qed.
Lemma dfold_other ps : ∀ os d p, Forall2 nrel ps os → p ∉ ps.*1 → dict_get (foldl dstep d os) p = dict_get d p.
Proof.
  induction ps as [|pc ps IH]; intros os d p HF Hp; inversion HF as [|? o ? os' Hr HF']; subst; [done|]. simpl.
  rewrite fmap_cons in Hp. rewrite (IH os' _ p HF') by (intros ?; apply Hp; by right).
  unfold nrel in Hr. destruct (pc.2) as [e|]; [|rewrite Hr; done]. destruct Hr as (r & -> & _). cbn [dstep fst snd]. rewrite dict_get_set.
  rewrite bool_decide_eq_false_2; [done|]. intros ->. apply Hp. by left.
Qed.
Lemma dfold_rel ps : ∀ os d, Forall2 nrel ps os → NoDup ps.*1 → ∀ p,
  match (λ y : nat * (string * option cond), y.2.2) <$> list_find (λ pc : string * option cond, pc.1 = p) ps with
  | Some (Some e) => ∃ v, dict_get (foldl dstep d os) p = Some v ∧ ∀ w, as_id e = Some w → v = w
  | _ => dict_get (foldl dstep d os) p = dict_get d p end.
Proof.
  induction ps as [|pc ps IH]; intros os d HF Hnd p; inversion HF as [|? o ? os' Hr HF']; subst; [done|].
  rewrite fmap_cons in Hnd. apply NoDup_cons in Hnd as [Hpc Hnd]. cbn [list_find foldl]. case_decide as E; simpl in E.
  - subst p. cbn [fmap option_fmap option_map snd]. rewrite (dfold_other ps os' _ pc.1 HF' Hpc). unfold nrel in Hr. destruct (pc.2) as [e|] eqn:E2.
    + destruct Hr as (r & -> & Hw). cbn [dstep fst snd]. rewrite dict_get_set, bool_decide_eq_true_2 by done. eauto.
    + by rewrite Hr.
  - specialize (IH os' (dstep d o) HF' Hnd p).
    assert (Hd' : dict_get (dstep d o) p = dict_get d p).
    { unfold nrel in Hr. destruct (pc.2) as [e|]; [|by rewrite Hr]. destruct Hr as (r & -> & _). cbn [dstep fst snd]. rewrite dict_get_set.
      by rewrite bool_decide_eq_false_2 by (intros ->; done). }
    rewrite Hd' in IH. destruct (list_find (λ pc0 : string * option cond, pc0.1 = p) ps) as [[j [a b]]|] eqn:Ef; cbn [fmap option_fmap option_map snd prod_map] in *; exact IH.
Qed.
Lemma named_conns_rel k ps st st' os : rmapS (named_step k) st ps = Ok (st', os) → NoDup ps.*1 → conns_rel ps (foldl dstep [] os).
Proof. intros H Hnd p. pose proof (dfold_rel ps os [] (named_nrel k ps _ _ _ H) Hnd p) as Hp. destruct (_ <$> list_find _ ps) as [[e|]|]; done. Qed.


Section ccomp.
  Context (k : rctx) (NN : gset string) (g0 : circuit).
  Hypothesis HNN : NN ⊆ k_rsv k.

  (* where a compiled connection value comes from: a net, a constant node, or a node created by this statement *)
  Definition vorig (g : circuit) (r : string) : Prop := r ∈ NN ∨ r ∈ ties k ∨ (g0 !! r = None ∧ r ∈ dom g).
  Lemma vorig_mono (g g' : circuit) r : g ⊆ g' → vorig g r → vorig g' r.
  Proof. intros Hs [?|[?|[? Hd]]]; [by left|by right; left|right; right]. split; [done|]. by apply (subseteq_dom _ _ Hs). Qed.
  Lemma cond_vorig e st st' r : c_cond k st e = Ok (st', r) → gst k st → (list_to_set (ids_cond e) : gset string) ⊆ NN → g0 ⊆ st.1 → vorig st'.1 r.
  Proof.
    intros H G Hid Hs. destruct (orig_cond k e st st' r H) as [Ho|[Ho|Ho]].
    - left. apply Hid. by apply elem_of_list_to_set.
    - by right; left.
    - right; right. destruct (result_cond _ _ _ _ _ H G ltac:(by etrans)) as [Hd HB]. destruct (HB Ho) as [Hn (t & fi & Hl & _)]. split.
      + destruct (g0 !! r) as [j|] eqn:E; [|done]. pose proof (lookup_weaken _ _ _ _ E Hs). congruence.
      + apply elem_of_dom. eauto.
  Qed.
  Lemma named_vorig ps : ∀ st st' os, rmapS (named_step k) st ps = Ok (st', os) → gst k st → g0 ⊆ st.1 →
    (∀ pc : string * option cond, pc ∈ ps → ∀ e, pc.2 = Some e → (list_to_set (ids_cond e) : gset string) ⊆ NN) →
    st.1 ⊆ st'.1 ∧ (gst k st') ∧ Forall (λ o : option (string * string), ∀ kv, o = Some kv → vorig st'.1 kv.2) os.
  Proof.
    induction ps as [|p ps IH]; intros st st' os H G Hs Hid; simpl in H; [injection H as <- <-; split; [done|split; [done|constructor]]|].
    apply rbind_ok in H as ([st1 o1] & H1 & H). apply rbind_ok in H as ([st2 o2] & H2 & H). simpl in *. injection H as <- <-.
    unfold named_step in H1. destruct p as [pn [e|]]; simpl in H1.
    - apply mbind_ok in H1 as ([st3 r] & H3 & H4). injection H4 as <- <-. destruct (frg_cond _ _ _ _ _ H3) as [S3 G3]. specialize (G3 G).
      destruct (IH _ _ _ H2 G3) as (S2 & G2 & F2); [by etrans|intros; eapply Hid; [by right|done]|].
      split; [by etrans|]. split; [done|]. constructor; [|done]. intros kv [= <-]. simpl. eapply vorig_mono; [exact S2|].
      eapply cond_vorig; [exact H3|done| |done]. eapply (Hid (pn, Some e)); [by left|done].
    - injection H1 as <- <-. destruct (IH _ _ _ H2 G Hs) as (S2 & G2 & F2); [intros; eapply Hid; [by right|done]|].
      split; [done|]. split; [done|]. constructor; [|done]. intros kv [=].
  Qed.

  (* one compiled instance of a blackbox statement *)
  Definition crel (g : circuit) (ic : string * conns) (cc : string * cconns) : Prop :=
    ∃ ps conns, ic.2 = Named ps ∧ cc.2 = CNamed conns ∧ conns_rel ps conns ∧ ∀ kv : string * string, kv ∈ conns → vorig g kv.2.
  Lemma crel_mono (g g' : circuit) l cl : g ⊆ g' → Forall2 (crel g) l cl → Forall2 (crel g') l cl.
  Proof.
    intros Hs H. eapply Forall2_impl; [exact H|]. intros ic cc (ps & conns & E1 & E2 & R & V). exists ps, conns. split; [done|]. split; [done|]. split; [done|].
    intros kv Hkv. eapply vorig_mono; [exact Hs|by apply V].
  Qed.
  Lemma insts_crel insts : ∀ st st' cl, rmapS (inst_step k) st insts = Ok (st', cl) → gst k st → g0 ⊆ st.1 →
    Forall (λ ic : string * conns, ∃ ps, ic.2 = Named ps ∧ NoDup ps.*1 ∧
              ∀ pc : string * option cond, pc ∈ ps → ∀ e, pc.2 = Some e → (list_to_set (ids_cond e) : gset string) ⊆ NN) insts →
    st.1 ⊆ st'.1 ∧ Forall2 (crel st'.1) insts cl.
  Proof.
    induction insts as [|ic insts IH]; intros st st' cl H G Hs HF; simpl in H; [injection H as <- <-; split; [done|constructor]|].
    inversion HF as [|? ? (ps & E & Hnd & Hid) HF']; subst.
    apply rbind_ok in H as ([st1 c1] & H1 & H). apply rbind_ok in H as ([st2 c2] & H2 & H). simpl in *. injection H as <- <-.
    unfold inst_step in H1. apply mbind_ok in H1 as ([sa cc] & H1 & E1). injection E1 as E1a E1b. subst st1 c1.
    rewrite E in H1. unfold c_conns in H1. fold (named_step k) in H1. apply mbind_ok in H1 as ([sb os] & H1 & E1). injection E1 as E1a E1b. subst sa cc.
    destruct (named_vorig ps _ _ _ H1 G Hs Hid) as (S1 & G1 & F1). simpl in *.
    destruct (IH _ _ _ H2 G1) as (S2 & F2); [by etrans|done|]. split; [by etrans|]. constructor; [|done].
    exists ps, (foldl dstep [] os). split; [done|]. split; [done|]. split; [by eapply named_conns_rel|].
    destruct (dict_fold_Q (λ kv, vorig sb.1 kv.2) os []) as [_ HQ]; [constructor|intros kv Hin; by apply elem_of_nil in Hin|done|].
    intros kv Hkv. eapply vorig_mono; [exact S2|]. by apply HQ.
  Qed.
End ccomp.


Notation xinst := (string * bbdef * list (string * option cond))%type.
Definition pinsL (L : list xinst) : gset string := ⋃ (xpins <$> L).
Definition netsL (L : list xinst) : gset string := ⋃ (xnets <$> L).
Lemma pinsL_app L L' : pinsL (L ++ L') = pinsL L ∪ pinsL L'. Proof. unfold pinsL. by rewrite fmap_app, union_list_app_L. Qed.
Lemma netsL_app L L' : netsL (L ++ L') = netsL L ∪ netsL L'. Proof. unfold netsL. by rewrite fmap_app, union_list_app_L. Qed.
Lemma pinsL_single x : pinsL [x] = xpins x. Proof. unfold pinsL. rewrite fmap_cons, fmap_nil. apply union_list_singleton_L. Qed.
Lemma netsL_single x : netsL [x] = xnets x. Proof. unfold netsL. rewrite fmap_cons, fmap_nil. apply union_list_singleton_L. Qed.
Lemma xpins_sub x L : x ∈ L → xpins x ⊆ pinsL L.
Proof. intros Hx y Hy. unfold pinsL. apply elem_of_union_list. exists (xpins x). split; [apply elem_of_list_fmap; eauto|done]. Qed.
Lemma xnets_sub x L : x ∈ L → xnets x ⊆ netsL L.
Proof. intros Hx y Hy. unfold netsL. apply elem_of_union_list. exists (xnets x). split; [apply elem_of_list_fmap; eauto|done]. Qed.

(* the instances read so far are attached as specified; their pins are pin-typed nodes that are no nets and no constants *)
Record Qinv (k : rctx) (NN : gset string) (L : list xinst) (P : list (string * driver)) (g : circuit) : Prop := mk_Qinv {
  q_ok : Forall (λ x, bb_ok g x = true) L;
  q_ty : pinty g (pinsL L);
  q_dom : pinsL L ∪ netsL L ⊆ dom g;
  q_nn : pinsL L ## NN;
  q_tie : pinsL L ## ties k;
  q_nets : netsL L ⊆ list_to_set P.*1;
  (* no node reads an input pin of an instance read so far *)
  q_noread : ∀ y j, g !! y = Some j → ∀ (x : xinst) p, x ∈ L → p ∈ bb_in x.1.2 → pin x.1.1 p ∉ n_fi j }.
Lemma Qinv_chg k NN L P P' g g' : Qinv k NN L P g → chg (pinsL L) (netsL L) g g' → (∀ x, x ∈ P.*1 → x ∈ P'.*1) → Qinv k NN L P' g'.
Proof.
  intros [Qo Qt Qd Qn Qi Qs Qr] Hc HP. split; try done.
  - apply Forall_forall. intros x Hx. rewrite Forall_forall in Qo. eapply bb_ok_chg; [exact Hc|by apply xpins_sub|by apply xnets_sub|by apply Qo].
  - by eapply pinty_chg.
  - intros x Hx. destruct Hc as [A _]. specialize (Qd x Hx). apply elem_of_dom in Qd as [i Hi]. apply elem_of_dom. exists i. by rewrite A.
  - intros x Hx. apply Qs in Hx. apply elem_of_list_to_set in Hx. apply elem_of_list_to_set. by apply HP.
  - intros y j Hy x p Hx Hp Hin. destruct Hc as [_ B]. destruct (B y j Hy) as [Hold|Hdisj]; [by eapply (Qr y j Hold x p)|]. apply (Hdisj _ Hin).
    apply (xpins_sub x L Hx). unfold xpins. apply elem_of_map. exists p. split; [done|]. by apply elem_of_union_l.
Qed.

Lemma bind_nodup_inj {A} (f : A → list string) (l : list A) x y z : NoDup (l ≫= f) → x ∈ l → y ∈ l → z ∈ f x → z ∈ f y → x = y.
Proof.
  induction l as [|a l IH]; intros Hnd Hx Hy Hzx Hzy; [by apply elem_of_nil in Hx|]. cbn in Hnd. apply NoDup_app in Hnd as (N1 & N2 & N3).
  apply elem_of_cons in Hx as [->|Hx]; apply elem_of_cons in Hy as [->|Hy]; [done| | |by apply IH].
  - exfalso. apply (N2 z Hzx). apply elem_of_list_bind. eauto.
  - exfalso. apply (N2 z Hzy). apply elem_of_list_bind. eauto.
Qed.

Section bbq.
  Context (k : rctx) (NN : gset string) (g0 gc : circuit).
  Hypothesis Htr : ties k ## k_rsv k.
  Hypothesis HNN : NN ⊆ k_rsv k.

  Definition xof (d : bbdef) (ic : string * conns) : list xinst := match ic.2 with Named ps => [(ic.1, d, ps)] | _ => [] end.

  Lemma bbs_pins d cl : ∀ insts gb gb' ge P L, rfold (bb_instance k d) gb cl = Ok gb' → rinv k NN P gb.1 ge → Qinv k NN L P gb.1 →
    (∀ x, x ∈ pinsL L → ¬ vorig k NN g0 gc x) → (∀ x, x ∈ dom gc → x ∈ dom gb.1) →
    Forall2 (cbb_good NN d) insts cl → Forall2 (crel k NN g0 gc) insts cl → Forall (bb_guard NN d) insts →
    Forall (λ ic : string * conns, ∃ ps, ic.2 = Named ps ∧ NoDup ps.*1) insts →
    NoDup (P.*1 ++ (insts ≫= bb_defs d)) →
    Qinv k NN (L ++ (insts ≫= xof d)) (P ++ (dummy <$> (insts ≫= bb_defs d))) gb'.1.
  Proof.
    induction cl as [|cc cl IH]; intros insts gb gb' ge P L H Hi HQ Hnv Hgc HF HC HG HN Hnd; simpl in H.
    - injection H as <-. inversion HF; subst. simpl. by rewrite !app_nil_r.
    - inversion HF as [|ic ? insts' ? Hgood HF']; subst. pose proof Hgood as (Enm & conns & Ec & Hcn & Hkv).
      destruct cc as [cn cc2]. cbn [fst snd] in Enm, Ec. subst cn cc2.
      inversion HC as [|? ? ? ? (ps & conns2 & Eps & Ec2 & Hrel & Hvo) HC']; subst. cbn [snd] in Ec2. injection Ec2 as <-.
      inversion HG as [|? ? Hg HG']; subst. inversion HN as [|? ? (ps2 & Eps2 & Hndps) HN']; subst. rewrite Eps in Eps2. injection Eps2 as <-.
      apply rbind_ok in H as (gb1 & H1 & H2).
      cbn [mbind list_bind] in Hnd |- *. fold (mbind (M:=list) (bb_defs d)) in Hnd |- *. fold (mbind (M:=list) (xof d)).
      pose proof Hi as [G T X U Eq N]. pose proof HQ as [Qo Qt Qd Qn Qi Qs Qr].
      pose proof Hg as (ps3 & Eps3 & Hgp & Hpin). rewrite Eps in Eps3. injection Eps3 as <-.
      assert (Hnp : ∀ w, w ∈ bb_defs d ic → w ∉ P.*1).
      { intros w Hw Hp. apply NoDup_app in Hnd as (_ & Hd & _). apply (Hd _ Hp). apply elem_of_app. by left. }
      assert (Hxo : xof d ic = [(ic.1, d, ps)]) by (unfold xof; by rewrite Eps).
      assert (Hbd : bb_defs d (ic.1, Named ps) = bb_defs d ic) by (unfold bb_defs; simpl; by rewrite Eps).
      (* connections on output pins come from the statement *)
      assert (Hpc : ∀ kv : string * string, kv ∈ conns → kv.1 ∉ bb_in d → (kv.1, Some (cid kv.2)) ∈ ps ∧ kv.1 ∈ bb_out d).
      { intros kv Hkvin Hko. pose proof (dict_get_nodup conns kv.1 kv.2 Hcn ltac:(by destruct kv)) as Hdg. specialize (Hrel kv.1).
        destruct (list_find (λ pc : string * option cond, pc.1 = kv.1) ps) as [[j [p' c]]|] eqn:El; simpl in Hrel; [|congruence].
        apply list_find_Some in El as (Hl & Hk & _). simpl in Hk. subst p'. apply elem_of_list_lookup_2 in Hl.
        destruct c as [e|]; [|congruence]. destruct Hrel as (v & Hv & Hw). assert (v = kv.2) as -> by congruence.
        destruct (Hgp _ Hl) as [[? _]|(Ho & _ & [?|(w & Ew & _)])]; [done|done|]. simpl in Ew. injection Ew as ->. by rewrite (Hw w eq_refl). }
      assert (Hndd : NoDup (bb_defs d ic)). { apply NoDup_app in Hnd as (_ & _ & Hnd). by apply NoDup_app in Hnd as (? & _). }
      destruct (bb_instance_shape k Htr d gb (ic.1, CNamed conns) gb1 ge conns H1 eq_refl Hcn G) as [Bi Bo Bn Bold Bnew Bf Bd Bv Bk].
      { intros kv Hin Hout. destruct (Hkv kv Hin Hout) as (Hni & Hnn & Hdf). split; [done|]. split; [by apply HNN|]. apply U; [done|by apply Hnp]. }
      { intros kv kv' Hk1 Hk2 Hn1 Hn2 Heq. destruct (Hpc kv Hk1 Hn1) as [Hp1 Ho1]. destruct (Hpc kv' Hk2 Hn2) as [Hp2 Ho2]. rewrite <- Heq in Hp2.
        unfold bb_defs in Hndd. rewrite Eps in Hndd.
        assert (E' : (kv.1, Some (cid kv.2)) = (kv'.1, Some (cid kv.2))).
        { eapply (bind_nodup_inj _ ps _ _ kv.2 Hndd Hp1 Hp2); simpl; rewrite bool_decide_eq_true_2 by done; by left. }
        injection E' as E'. destruct kv, kv'; simpl in *; congruence. }
      cbn [fst snd] in Bi, Bo, Bn, Bold, Bnew, Bf, Bv, Bk.
      set (x := (ic.1, d, ps) : xinst).
      assert (Hshape : bbshape d ic.1 conns gb.1 gb1.1) by (by constructor).
      (* the earlier instances are left alone *)
      assert (Hc : chg (pinsL L) (netsL L) gb.1 gb1.1).
      { eapply bbshape_chg; [exact Hshape|done| |].
        - intros kv Hin Hni. destruct (Hpc kv Hin Hni) as [_ Ho]. destruct (Hkv kv Hin Ho) as (_ & Hnn & Hdf). intros [Hx|Hx]%elem_of_union.
          + by apply (Qn kv.2).
          + apply Qs in Hx. apply elem_of_list_to_set in Hx. by apply (Hnp kv.2).
        - intros kv Hin _ Hx. apply (Hnv _ Hx). by apply Hvo. }
      assert (Hdm : ∀ y, y ∈ dom gb.1 → y ∈ dom gb1.1).
      { intros y Hy. destruct (decide (Exists (λ kv : string * string, kv.1 ∉ bb_in d ∧ y = kv.2) conns)) as [Hex|Hnex].
        - apply Exists_exists in Hex as (kv & Hin & Hni & ->). apply elem_of_dom. rewrite (Bn kv Hin Hni). eauto.
        - apply elem_of_dom in Hy as [j Hj]. apply elem_of_dom. exists j. rewrite <- Hj. apply Bold; [apply elem_of_dom; eauto|].
          intros kv Hin Hni ->. apply Hnex. apply Exists_exists. eauto. }
      assert (HQ1 : Qinv k NN (L ++ [x]) (P ++ (dummy <$> bb_defs d ic)) gb1.1).
      { assert (HQc : Qinv k NN L (P ++ (dummy <$> bb_defs d ic)) gb1.1).
        { eapply Qinv_chg; [exact HQ|exact Hc|]. intros y Hy. rewrite fmap_app. apply elem_of_app. by left. }
        destruct HQc as [Qo' Qt' Qd' Qn' Qi' Qs' Qr'].
        assert (Hxp : ∀ y, y ∈ xpins x → ∃ p, p ∈ bb_in d ∪ bb_out d ∧ y = pin ic.1 p).
        { intros y Hy. unfold xpins, x in Hy. simpl in Hy. apply elem_of_map in Hy as (p & -> & Hp). eauto. }
        split.
        - apply Forall_app. split; [done|]. constructor; [|constructor]. unfold x.
          eapply (bbshape_ok d ic.1 ps conns gb.1 gb1.1); [exact Hshape|by destruct G|done|done|].
          intros pc Hpcin Hout. destruct (Hgp pc Hpcin) as [[_ ?]|(_ & _ & [?|(w & Ew & _)])]; [done|by left|right; eauto].
        - rewrite pinsL_app, pinsL_single. intros y [Hy|Hy]%elem_of_union; [by apply Qt'|]. destruct (Hxp y Hy) as (p & Hp & ->).
          apply elem_of_union in Hp as [Hp|Hp]; [rewrite (Bi p Hp)|rewrite (Bo p Hp)]; eexists; split; eauto.
        - rewrite pinsL_app, netsL_app, pinsL_single, netsL_single. intros y Hy.
          assert (Hy' : y ∈ pinsL L ∪ netsL L ∨ y ∈ xpins x ∨ y ∈ xnets x) by (clear -Hy; set_solver). destruct Hy' as [Hy'|[Hy'|Hy']]; [by apply Qd'| |].
          + destruct (Hxp y Hy') as (p & Hp & ->). apply elem_of_union in Hp as [Hp|Hp]; apply elem_of_dom; [rewrite (Bi p Hp)|rewrite (Bo p Hp)]; eauto.
          + unfold xnets, x in Hy'. simpl in Hy'. rewrite Hbd in Hy'. apply elem_of_list_to_set in Hy'.
            (* a net on an output pin is a connection value *)
            unfold bb_defs in Hy'. rewrite Eps in Hy'. apply elem_of_list_bind in Hy' as (pc & Hy' & Hpcin). case_bool_decide as Ho; [|by apply elem_of_nil in Hy'].
            destruct (pc.2) as [e|] eqn:E2; [|by apply elem_of_nil in Hy']. destruct (as_id e) as [w|] eqn:Ew; [|by apply elem_of_nil in Hy']. apply elem_of_list_singleton in Hy' as ->.
            specialize (Hrel pc.1).
            assert (Hfind : (λ y : nat * (string * option cond), y.2.2) <$> list_find (λ pc0 : string * option cond, pc0.1 = pc.1) ps = Some (Some e)).
            { destruct (list_find (λ pc0 : string * option cond, pc0.1 = pc.1) ps) as [[j pc']|] eqn:El.
              - apply list_find_Some in El as (Hl & Hk & _). apply elem_of_list_lookup_2 in Hl. simpl.
                assert (pc' = pc) as ->; [|by rewrite E2].
                apply elem_of_list_lookup in Hl as [a Ha]. apply elem_of_list_lookup in Hpcin as [b Hb].
                assert (a = b); [|congruence]. eapply (NoDup_lookup _ a b pc.1 Hndps); rewrite list_lookup_fmap; [by rewrite Ha; simpl; rewrite Hk|by rewrite Hb].
              - apply list_find_None in El. rewrite Forall_forall in El. by destruct (El pc Hpcin). }
            rewrite Hfind in Hrel. destruct Hrel as (v & Hv & Hw). rewrite (Hw w Ew) in Hv. apply dict_get_elem in Hv. by destruct (Bv _ Hv) as [? _].
        - rewrite pinsL_app, pinsL_single. intros y [Hy|Hy]%elem_of_union; [by apply Qn'|]. destruct (Hxp y Hy) as (p & Hp & ->). by apply Hpin.
        - rewrite pinsL_app, pinsL_single. intros y [Hy|Hy]%elem_of_union; [by apply Qi'|]. destruct (Hxp y Hy) as (p & Hp & ->). intros Ht.
          apply (Bf p Hp). destruct G as (_ & Hti & _). by apply Hti.
        - rewrite netsL_app, netsL_single. intros y [Hy|Hy]%elem_of_union; [by apply Qs'|]. unfold xnets, x in Hy. simpl in Hy. rewrite Hbd in Hy.
          apply elem_of_list_to_set in Hy. apply elem_of_list_to_set. rewrite fmap_app, dummy_fst. apply elem_of_app. by right.
        - intros y j Hy x' p Hx' Hp Hin. apply elem_of_app in Hx' as [Hx'|Hx']; [by eapply (Qr' y j Hy x' p)|]. apply elem_of_list_singleton in Hx' as ->. unfold x in Hp, Hin. simpl in Hp, Hin.
          destruct (Bnew y j Hy) as [Hold|[->|[(q & Hq & ->)|(kv0 & Hkv0 & Hni0 & ->)]]].
          + apply (Bf p (elem_of_union_l _ _ _ Hp)). destruct G as (Hcl & _). by eapply Hcl.
          + by apply elem_of_empty in Hin.
          + apply elem_of_union in Hq as [Hq|Hq].
            * rewrite (Bi q Hq) in Hy. injection Hy as <-. simpl in Hin. apply in_fi_elem in Hin. destruct (Bv _ Hin) as [_ Hne]. apply (Hne p); [by apply elem_of_union_l|done].
            * rewrite (Bo q Hq) in Hy. injection Hy as <-. by apply elem_of_empty in Hin.
          + rewrite (Bn kv0 Hkv0 Hni0) in Hy. injection Hy as <-. simpl in Hin. apply elem_of_singleton in Hin. apply pin_inj' in Hin as ->. done. }
      assert (Hi1 : rinv k NN (P ++ (dummy <$> bb_defs d ic)) gb1.1 ge).
      { pose proof (bbs_rinv k NN Htr HNN d [(ic.1, CNamed conns)] [ic] gb gb1 ge P) as Hp. simpl in Hp. rewrite app_nil_r in Hp.
        apply Hp; [by rewrite H1|done|by constructor|by constructor|].
        rewrite app_assoc in Hnd. by apply NoDup_app in Hnd as (? & _ & _). }
      specialize (IH insts' gb1 gb' ge _ (L ++ [x])%list H2 Hi1 HQ1).
      rewrite Hxo. rewrite fmap_app, !app_assoc. apply IH; try done.
      + rewrite pinsL_app, pinsL_single. intros y [Hy|Hy]%elem_of_union; [by apply Hnv|]. unfold xpins, x in Hy. simpl in Hy. apply elem_of_map in Hy as (p & -> & Hp).
        intros [Hv|[Hv|[_ Hv]]].
        * by apply (Hpin p Hp).
        * apply (Bf p Hp). destruct G as (_ & Hti & _). by apply Hti.
        * apply (Bf p Hp). by apply Hgc.
      + intros y Hy. by apply Hdm, Hgc.
      + rewrite fmap_app, dummy_fst, <- app_assoc. done.
  Qed.
End bbq.


Section itemchg.
  Context (k : rctx) (NN XP XN : gset string).
  Hypothesis Htr : ties k ## k_rsv k.
  Hypothesis HNN : NN ⊆ k_rsv k.
  Hypothesis HXN : XP ## NN.
  Hypothesis HXT : XP ## ties k.

  Lemma chg_dom g g' : chg XP XN g g' → XP ∪ XN ⊆ dom g → XP ∪ XN ⊆ dom g'.
  Proof. intros [A _] Hd x Hx. specialize (Hd x Hx). apply elem_of_dom in Hd as [i Hi]. apply elem_of_dom. exists i. by rewrite A. Qed.

  Lemma inputs_chg ns : ∀ g g' ge P, rfold (λ g n, r ← add_node (k_rsv k) g n Input [] false; Ok r.1) g ns = Ok g' →
    rinv k NN P g ge → (∀ n, n ∈ ns → n ∈ NN ∧ n ∈ k_rsv k ∧ n ∉ P.*1) → XN ⊆ list_to_set P.*1 → XP ∪ XN ⊆ dom g → chg XP XN g g'.
  Proof.
    induction ns as [|n ns IH]; intros g g' ge P H Hi Hns HXP Hd; simpl in H; [injection H as <-; apply chg_refl|].
    apply rbind_ok in H as (g1 & H1 & H2). pose proof H1 as H1'. apply mbind_ok in H1 as ([g1' nm] & H1 & E). injection E as <-. simpl in *.
    destruct (Hns n) as (HnN & Hn & Hnp); [by left|]. pose proof Hi as [G T X U Eq N].
    assert (Hc1 : chg XP XN g g1').
    { eapply (add_node_chg k NN XP XN Htr HNN HXN HXT); [exact H1|by apply U| |done|intros f Hf; by apply elem_of_nil in Hf].
      intros [Hx|Hx]%elem_of_union; [by apply (HXN n)|]. apply HXP in Hx. by apply elem_of_list_to_set in Hx. }
    eapply chg_trans; [exact Hc1|]. eapply (IH g1' g' ge P H2); [|intros; apply Hns; by right|done|by eapply chg_dom].
    apply (inputs_rinv k NN Htr HNN [n] g g1' ge P); [simpl; by rewrite H1'|done|]. intros n' ->%elem_of_list_singleton. done.
  Qed.

  Lemma assigns_chg l : ∀ st st' P, rfold (c_assign k) st l = Ok st' → rinv k NN P st.1 st.2 →
    Forall (λ a : string * cond, drv_ok2 NN (a.1, DAssign a.2)) l → NoDup (P.*1 ++ l.*1) →
    XN ⊆ list_to_set P.*1 → pinty st.1 XP → XP ∪ XN ⊆ dom st.1 → chg XP XN st.1 st'.1.
  Proof.
    induction l as [|[lv e] l IH]; intros st st' P H Hi Hok Hnd HXP Hp Hd; simpl in H; [injection H as <-; apply chg_refl|].
    apply rbind_ok in H as (st1 & H1 & H2). inversion Hok as [|? ? Hd2 Hok']; subst. simpl in *.
    pose proof (drv_ok2_ok k NN HNN _ Hd2) as Hdo. destruct Hd2 as [_ HidN]. simpl in HidN.
    assert (Hnp : lv ∉ P.*1). { apply NoDup_app in Hnd as (_ & Hdd & _). intros Hin. apply (Hdd lv Hin). by left. }
    assert (Hc1 : chg XP XN st.1 st1.1) by (by eapply (assign_chg k NN XP XN Htr HNN HXN HXT st lv e st1 P)).
    assert (Hnd1 : NoDup (P.*1 ++ [lv])).
    { apply NoDup_app in Hnd as (N1 & N2 & N3). apply NoDup_app. split; [done|]. split; [|apply NoDup_singleton]. intros y Hy ->%elem_of_list_singleton. done. }
    assert (Hi1 : rinv k NN (P ++ [(lv, DAssign e)]) st1.1 st1.2).
    { apply (assigns_rinv k NN Htr HNN [(lv, e)] st st1 P); [simpl; by rewrite H1|done|by constructor|done]. }
    eapply chg_trans; [exact Hc1|]. eapply (IH st1 st' _ H2 Hi1 Hok').
    - rewrite fmap_app. simpl. rewrite <- app_assoc. simpl.
      apply NoDup_app in Hnd as (N1 & N2 & N3). apply NoDup_cons in N3 as [N3 N4]. apply NoDup_app. split; [done|]. split; [|by constructor].
      intros y Hy [->|Hin]%elem_of_cons; [done|]. apply (N2 y Hy). by right.
    - intros x Hx. apply HXP in Hx. apply elem_of_list_to_set in Hx. apply elem_of_list_to_set. rewrite fmap_app. apply elem_of_app. by left.
    - by eapply pinty_chg.
    - by eapply chg_dom.
  Qed.

  (* compile phase with positional connections: operand results are no old pins *)
  Definition cnp (ic : string * conns) (cc : string * cconns) : Prop :=
    ∃ n ins rs, ic.2 = Positional (cid n :: ins) ∧ cc.2 = CPos (n :: rs) ∧ Forall (λ r, r ∉ XP) rs.
  Lemma insts_cnp insts : ∀ st st' cl, rmapS (inst_step k) st insts = Ok (st', cl) → gst k st → XP ⊆ dom st.1 →
    Forall (λ ic : string * conns, ∃ n ins, ic.2 = Positional (cid n :: ins) ∧ ∀ e, e ∈ ins → (list_to_set (ids_cond e) : gset string) ⊆ NN) insts →
    Forall2 cnp insts cl.
  Proof.
    induction insts as [|ic insts IH]; intros st st' cl H G Hd HF; simpl in H; [injection H as _ <-; constructor|].
    inversion HF as [|? ? (n & ins & E & Hid) HF']; subst.
    apply rbind_ok in H as ([st1 c1] & H1 & H). apply rbind_ok in H as ([st2 c2] & H2 & H). simpl in *. injection H as _ <-.
    unfold inst_step in H1. apply mbind_ok in H1 as ([sa cc] & H1 & E1). injection E1 as E1a E1b. subst st1 c1.
    rewrite E in H1. unfold c_conns in H1. apply mbind_ok in H1 as ([sb rs] & H1 & E1). injection E1 as E1a E1b. subst sa cc.
    change (rmapS (c_cond k) st (cid n :: ins)) with
      (rbind (c_cond k st (cid n)) (λ x, rbind (rmapS (c_cond k) x.1 ins) (λ y, Ok (y.1, x.2 :: y.2)))) in H1.
    change (c_cond k st (cid n)) with (Ok (st, n) : res (cstate * string)) in H1. simpl in H1.
    apply rbind_ok in H1 as ([st3 rs3] & H3 & H4). injection H4 as <- <-.
    destruct (frg_list _ _ _ _ _ H3) as [S3 G3]. specialize (G3 G). simpl in *.
    constructor.
    - exists n, ins, rs3. split; [done|]. split; [done|]. by eapply (list_not_pin k NN XP HNN HXN HXT ins st st3 rs3).
    - eapply (IH st3); [exact H2|done| |done]. intros x Hx. apply (subseteq_dom _ _ S3). by apply Hd.
  Qed.
  Lemma cnp_keep l cl : Forall2 cnp l cl → Forall2 cnp l cl. Proof. done. Qed.

  Lemma prims_chg t cl : ∀ insts g g' ge P, rfold (prim_instance k t) g cl = Ok g' → rinv k NN P g ge →
    Forall2 (cgood k g) insts cl → Forall2 cnp insts cl → t ∈ gate_types → Forall (prim_guard k NN t) insts →
    NoDup (P.*1 ++ (insts ≫= prim_drv t).*1) → XN ⊆ list_to_set P.*1 → XP ∪ XN ⊆ dom g → chg XP XN g g'.
  Proof.
    induction cl as [|cc cl IH]; intros insts g g' ge P H Hi HF HO Ht HG Hnd HXP Hd; simpl in H; [injection H as <-; apply chg_refl|].
    inversion HF as [|ic ? insts' ? Hcg HF']; subst. pose proof Hcg as (n & ins & rs & E1 & E2 & Fo).
    inversion HO as [|? ? ? ? (n2 & ins2 & rs2 & E1b & E2b & Ors) HO']; subst.
    rewrite E1 in E1b. injection E1b as <- <-. rewrite E2 in E2b. injection E2b as <-.
    inversion HG as [|? ? Hg2 HG']; subst. pose proof Hg2 as (n' & ins' & E1' & Hdrv & Hne & Har).
    rewrite E1 in E1'. injection E1' as <- <-. destruct cc as [nm cc2]. simpl in E2. subst cc2.
    apply rbind_ok in H as (g1 & H1 & H2).
    assert (Hdr : prim_drv t ic = [(n, DPrim t ins)]). { unfold prim_drv. by rewrite E1. }
    cbn [mbind list_bind] in Hnd. fold (mbind (M:=list) (prim_drv t)) in Hnd. rewrite Hdr in Hnd.
    pose proof Hi as [G T X U Eq N]. destruct Hdrv as (HnN & Hn & Hids). simpl in *.
    assert (Hnp' : n ∉ P.*1). { apply NoDup_app in Hnd as (_ & Hdd & _). intros Hin. apply (Hdd n Hin). simpl. by left. }
    assert (Hc1 : chg XP XN g g1).
    { pose proof H1 as H1'. rewrite prim_instance_sel in H1'. apply mbind_ok in H1' as ([g1x nm'] & Ha & E). injection E as E. simpl in E. subst g1x.
      eapply (add_node_chg k NN XP XN Htr HNN HXN HXT); [exact Ha|by apply U| |done|].
      - intros [Hx|Hx]%elem_of_union; [by apply (HXN n)|]. apply HXP in Hx. by apply elem_of_list_to_set in Hx.
      - intros f Hf Hx. apply prim_sel_sub in Hf as [Hf|Hf]; [|by apply (HXT f)]. rewrite Forall_forall in Ors. by apply (Ors f). }
    assert (Hcons : ∀ v, consistent g1 v → consistent g v).
    { intros v. pose proof H1 as H1'. rewrite prim_instance_sel in H1'. apply mbind_ok in H1' as ([g1x nm'] & Ha & E). injection E as E. simpl in E. subst g1x.
      eapply add_node_consistent; [exact Ha|by apply U]. }
    assert (Hnd1 : NoDup (P.*1 ++ [n])).
    { apply NoDup_app in Hnd as (M1 & M2 & M3). apply NoDup_app. split; [done|]. split; [|apply NoDup_singleton]. intros y Hy ->%elem_of_list_singleton. done. }
    assert (Hi1 : rinv k NN (P ++ [(n, DPrim t ins)]) g1 ge).
    { pose proof (prims_rinv k NN Htr HNN t [(nm, CPos (n :: rs))] [ic] g g1 ge P) as Hp. simpl in Hp. rewrite Hdr in Hp.
      apply Hp; [by rewrite H1|done|by constructor|done|by constructor|done]. }
    eapply chg_trans; [exact Hc1|]. eapply (IH insts' g1 g' ge _ H2 Hi1 (cgood_mono _ _ _ _ _ Hcons HF') HO' Ht HG').
    - rewrite fmap_app. rewrite <- app_assoc. done.
    - intros x Hx. apply HXP in Hx. apply elem_of_list_to_set in Hx. apply elem_of_list_to_set. rewrite fmap_app. apply elem_of_app. by left.
    - by eapply chg_dom.
  Qed.
End itemchg.


Section itempins.
  Context (k : rctx) (NN DD : gset string).
  Hypothesis Htr : ties k ## k_rsv k.
  Hypothesis HNN : NN ⊆ k_rsv k.

  Definition xit (it : item) : list xinst :=
    match it with
    | IInst mn insts => match prim_of_name mn, find_def (k_bbs k) mn with None, Some d => insts ≫= xof d | _, _ => [] end
    | _ => [] end.
  Definition ids_in (e : cond) : Prop := (list_to_set (ids_cond e) : gset string) ⊆ NN.
  Definition item_pin_ok (it : item) : Prop :=
    match it with
    | IAssign l => Forall (λ a : string * cond, drv_ok2 NN (a.1, DAssign a.2)) l
    | IInst mn insts =>
        match prim_of_name mn with
        | Some _ => Forall (λ ic : string * conns, ∃ n ins, ic.2 = Positional (cid n :: ins) ∧ ∀ e, e ∈ ins → ids_in e) insts
        | None => Forall (λ ic : string * conns, ∃ ps, ic.2 = Named ps ∧ NoDup ps.*1 ∧
                            ∀ pc : string * option cond, pc ∈ ps → ∀ e, pc.2 = Some e → ids_in e) insts end
    | _ => True end.

  Lemma sub_app (P Q : list (string * driver)) : ∀ x, x ∈ P.*1 → x ∈ (P ++ Q)%list.*1.
  Proof. intros x Hx. rewrite fmap_app. apply elem_of_app. by left. Qed.

  Lemma c_item_pins st it st' P L : c_item k st it = Ok st' → rinv k NN P (r_g st) (r_ge st) → Qinv k NN L P (r_g st) →
    item_den_ok2 k NN DD it → item_pin_ok it → NoDup (P.*1 ++ (xitem_drivers (k_bbs k) it).*1) → (list_to_set P.*1 : gset string) ⊆ DD →
    Qinv k NN (L ++ xit it) (P ++ xitem_drivers (k_bbs k) it) (r_g st').
  Proof.
    intros H Hi HQ Hok Hpk Hnd HDD. pose proof Hi as [G T X U Eq N]. pose proof HQ as [Qo Qt Qd Qn Qi Qs Qr].
    destruct it as [ns|ns|ns|mn insts|l]; simpl in H, Hok, Hpk; cbn [xit].
    - apply mbind_ok in H as (g & H1 & H). injection H as <-. simpl. rewrite !app_nil_r. eapply Qinv_chg; [exact HQ| |done].
      eapply (inputs_chg k NN _ _ Htr HNN Qn Qi ns (r_g st) g (r_ge st) P H1 Hi); [|done|done].
      intros n Hn. destruct (Hok n Hn) as (? & ? & Hd). split; [done|]. split; [done|]. intros Hin. apply Hd, HDD. by apply elem_of_list_to_set.
    - injection H as <-. simpl. by rewrite !app_nil_r.
    - injection H as <-. simpl. by rewrite !app_nil_r.
    - fold (inst_step k) in H. apply mbind_ok in H as ([stc cl] & H1 & H). cbn [fst snd] in H.
      destruct (insts_frame k (frg k) (frg_refl k) (frg_trans k) (frg_cond k) _ _ _ _ H1) as [Ss Gc]. specialize (Gc G). simpl in Ss.
      pose proof (insts_frame k (fr2 k) (fr2_refl k) (fr2_trans k) (fr2_cond k) _ _ _ _ H1) as F2.
      destruct (insts_frame k (pfr (pinsL L) (netsL L)) (pfr_refl _ _) (pfr_trans _ _) (pfr_cond k _ _) _ _ _ _ H1) as [_ Hcc]. specialize (Hcc Qt Qd). simpl in Hcc.
      assert (Hic : rinv k NN P stc.1 stc.2).
      { eapply rinv_refine; [exact Hi|by apply refines_sub|by destruct stc|by eapply ties_mono| |].
        { destruct X as (i & Hx & Hc'). exists i. split; [|done]. by eapply lookup_weaken. }
        intros n Hn Hp Hu. eapply (fr2_undef k (r_g st, r_ge st) stc); [done|by apply HNN|done]. }
      assert (HQc : Qinv k NN L P stc.1) by (eapply Qinv_chg; [exact HQ|exact Hcc|done]).
      cbn [xitem_drivers] in Hnd |- *.
      destruct (prim_of_name mn) as [t|] eqn:Ep.
      + apply mbind_ok in H as (g & H2 & H). injection H as <-. cbn [r_g st_g st_ge item_drivers] in Hnd |- *. rewrite app_nil_r.
        destruct Hok as (t' & Et & Ht & HG). injection Et as <-.
        assert (Hpos : Forall (λ ic : string * conns, ∃ n ins, ic.2 = Positional (cid n :: ins)) insts).
        { eapply Forall_impl; [exact HG|]. intros ic (n & ins & E & _). eauto. }
        destruct (insts_compile_prim k insts _ _ _ H1 T Hpos) as [_ Fc]. simpl in *.
        assert (Hd : insts ≫= inst_drivers mn = insts ≫= prim_drv t).
        { clear -Ep. induction insts as [|ic insts IH]; [done|]. cbn. rewrite IH. by rewrite (prim_drv_eq mn t ic Ep). }
        rewrite Hd in Hnd |- *. eapply Qinv_chg; [exact HQc| |apply sub_app].
        destruct HQc as [_ Qt' Qd' _ _ Qs'].
        eapply (prims_chg k NN _ _ Htr HNN Qn Qi t cl insts stc.1 g stc.2 P H2 Hic Fc); try done.
        eapply (insts_cnp k NN _ HNN Qn Qi insts (r_g st, r_ge st) stc cl H1 G); [|exact Hpk]. intros x Hx. apply Qd. by apply elem_of_union_l.
      + destruct Hok as (d & Ed & HG). unfold find_bb in H. rewrite Ed in H.
        apply mbind_ok in H as (x & H2 & H). injection H as <-. cbn [r_g]. rewrite dummy_fst in Hnd.
        rewrite (insts_defs_bb (k_bbs k) mn d insts Ep Ed) in Hnd |- *. rewrite Ed.
        eapply (bbs_pins k NN (r_g st) stc.1 Htr HNN d cl insts (stc.1, r_bbs st) x stc.2 P L H2 Hic HQc); try done.
        * intros y Hy [Hv|[Hv|[Hv _]]]; [by apply (Qn y)|by apply (Qi y)|]. assert (Hyd : y ∈ dom (r_g st)) by (apply Qd; by apply elem_of_union_l).
          apply elem_of_dom in Hyd as [? ?]. congruence.
        * by eapply insts_bbgood.
        * destruct (insts_crel k NN (r_g st) HNN insts (r_g st, r_ge st) stc cl H1 G) as [_ HC]; [done| |done].
          eapply Forall_impl; [exact Hpk|]. intros ic (ps & E & Hn & Hid). exists ps. split; [done|]. split; [done|]. exact Hid.
        * eapply Forall_impl; [exact Hpk|]. intros ic (ps & E & Hn & _). eauto.
    - apply mbind_ok in H as (r & H1 & H). injection H as <-. cbn [r_g st_g st_ge]. rewrite app_nil_r.
      assert (Hl1 : ((λ p : string * cond, (p.1, DAssign p.2)) <$> l).*1 = l.*1).
      { clear. induction l as [|a l IH]; [done|]. rewrite !fmap_cons. f_equal. exact IH. }
      cbn [xitem_drivers item_drivers] in Hnd |- *. rewrite Hl1 in Hnd. eapply Qinv_chg; [exact HQ| |apply sub_app].
      eapply (assigns_chg k NN _ _ Htr HNN Qn Qi l (r_g st, r_ge st) r P H1 Hi Hpk Hnd); done.
  Qed.

  Lemma items_pins items : ∀ st st' P L, rfold (c_item k) st items = Ok st' → rinv k NN P (r_g st) (r_ge st) → Qinv k NN L P (r_g st) →
    Forall (item_den_ok2 k NN DD) items → Forall item_pin_ok items → NoDup (P.*1 ++ (items ≫= xitem_drivers (k_bbs k)).*1) →
    (list_to_set (P.*1 ++ (items ≫= xitem_drivers (k_bbs k)).*1) : gset string) ⊆ DD →
    Qinv k NN (L ++ (items ≫= xit)) (P ++ (items ≫= xitem_drivers (k_bbs k))) (r_g st') ∧
    rinv k NN (P ++ (items ≫= xitem_drivers (k_bbs k))) (r_g st') (r_ge st').
  Proof.
    induction items as [|it items IH]; intros st st' P L H Hi HQ HF HV Hnd HDD; simpl in H.
    - injection H as <-. simpl. by rewrite !app_nil_r.
    - inversion HF as [|? ? Hok HF']; subst. inversion HV as [|? ? Hpk HV']; subst. apply rbind_ok in H as (st1 & H1 & H2).
      cbn [mbind list_bind] in Hnd, HDD |- *. fold (mbind (M:=list) (xitem_drivers (k_bbs k))) in Hnd, HDD |- *. fold (mbind (M:=list) xit).
      rewrite fmap_app in Hnd, HDD. rewrite app_assoc in Hnd.
      assert (Hnd1 : NoDup (P.*1 ++ (xitem_drivers (k_bbs k) it).*1)) by (by apply NoDup_app in Hnd as (? & _ & _)).
      assert (HDD1 : (list_to_set P.*1 : gset string) ⊆ DD) by (clear -HDD; set_solver).
      assert (Hi1 : rinv k NN (P ++ xitem_drivers (k_bbs k) it) (r_g st1) (r_ge st1)) by (by eapply c_item_rinv2).
      assert (HQ1 : Qinv k NN (L ++ xit it) (P ++ xitem_drivers (k_bbs k) it) (r_g st1)) by (by eapply c_item_pins).
      destruct (IH st1 st' _ _ H2 Hi1 HQ1 HF' HV') as [HQ2 Hi2].
      + by rewrite fmap_app.
      + rewrite fmap_app. clear -HDD. set_solver.
      + rewrite !app_assoc. done.
  Qed.
End itempins.


(* bb_ok only looks at types, fan-ins and fan-outs *)
Lemma bb_ok_ext g g' x : (∀ y, ty g' y = ty g y) → (∀ y, fanin g' y = fanin g y) → (∀ y, fanout g' y = fanout g y) → bb_ok g' x = bb_ok g x.
Proof.
  intros Ht Hf Ho. destruct x as [[inst d] ps]. unfold bb_ok. f_equal; apply forallb_ext_in; intros p _; rewrite !Ht, !Hf; [done|].
  rewrite !Ho. destruct (_ <$> list_find _ ps) as [[e|]|]; try done. destruct (as_id e) as [w|]; [|done]. by rewrite Ht, Hf.
Qed.
Lemma set_output_same g l g' : set_output_g g l true = (g', Done) →
  (∀ y, ty g' y = ty g y) ∧ (∀ y, fanin g' y = fanin g y) ∧ (∀ y, fanout g' y = fanout g y).
Proof.
  intros H. apply set_output_spec in H as [_ Hl]. split; [|split].
  - intros y. unfold ty. rewrite Hl. destruct (g !! y) as [i|]; simpl; [|done]. by case_bool_decide.
  - intros y. unfold fanin. rewrite Hl. destruct (g !! y) as [i|]; simpl; [|done]. by case_bool_decide.
  - intros y. apply set_eq. intros z. rewrite !elem_of_fanout. rewrite Hl. split.
    + intros (j & Hj & Hin). destruct (g !! z) as [i|]; simpl in Hj; [|discriminate]. injection Hj as <-. exists i. split; [done|]. by case_bool_decide.
    + intros (i & Hi & Hin). rewrite Hi. simpl. eexists. split; [done|]. by case_bool_decide.
Qed.
Lemma drop_chg XP XN g t : t ∉ XP ∪ XN → chg XP XN g (drop_tie g t).
Proof.
  intros Ht. destruct (decide (fanout g t = ∅)) as [Hfo|Hfo]; [|unfold drop_tie; rewrite bool_decide_eq_false_2 by done; apply chg_refl].
  rewrite (drop_tie_delete g t). 2: { intros x i Hi Hin. assert (x ∈ fanout g t) by (apply elem_of_fanout; eauto). set_solver. }
  split.
  - intros x Hx. rewrite lookup_delete_ne; [done|]. intros <-. done.
  - intros y j [_ Hy]%lookup_delete_Some. by left.
Qed.

(* the registry *)
Definition regL (L : list xinst) : list (string * bbdef) := (λ x : xinst, (x.1.1, x.1.2)) <$> L.
Lemma bbs_reg k NN d cl : ∀ insts gb gb' L, rfold (bb_instance k d) gb cl = Ok gb' → Forall2 (cbb_good NN d) insts cl →
  Forall (λ ic : string * conns, ∃ ps, ic.2 = Named ps) insts →
  gb.2 = list_to_map (regL L) → gb'.2 = list_to_map (regL (L ++ (insts ≫= xof d))).
Proof.
  induction cl as [|cc cl IH]; intros insts gb gb' L H HF HN Hb; simpl in H.
  - injection H as <-. inversion HF; subst. simpl. by rewrite app_nil_r.
  - inversion HF as [|ic ? insts' ? (Enm & conns & Ec & _) HF']; subst. inversion HN as [|? ? (ps & Eps) HN']; subst.
    apply rbind_ok in H as (gb1 & H1 & H2). cbn [mbind list_bind]. fold (mbind (M:=list) (xof d)).
    assert (Hxo : xof d ic = [(ic.1, d, ps)]) by (unfold xof; by rewrite Eps). rewrite Hxo, app_assoc.
    eapply (IH insts' gb1 gb' _ H2 HF' HN').
    unfold bb_instance in H1. rewrite Ec in H1. apply mbind_ok in H1 as (g1 & _ & H1). apply mbind_ok in H1 as (g2 & _ & H1).
    destruct (add_blackbox _ _ _ _ _ _) as [C' o] eqn:Eb. destruct o; [|discriminate]. injection H1 as <-. simpl.
    apply fa_add_blackbox in Eb as (_ & Hbb & Hnone). simpl in Hbb, Hnone. rewrite Hbb, Enm, Hb.
    rewrite Hb, Enm in Hnone. unfold regL in *. rewrite fmap_app. simpl. symmetry. apply list_to_map_snoc'. by apply not_elem_of_dom.
Qed.


Lemma items_reg k NN DD (Htr : ties k ## k_rsv k) (HNN : NN ⊆ k_rsv k) items : ∀ st st' L, rfold (c_item k) st items = Ok st' → Forall (item_den_ok2 k NN DD) items →
  r_bbs st = list_to_map (regL L) → r_bbs st' = list_to_map (regL (L ++ (items ≫= xit k))).
Proof.
  induction items as [|it items IH]; intros st st' L H HF Hb; simpl in H; [injection H as <-; simpl; by rewrite app_nil_r|].
  inversion HF as [|? ? Hok HF']; subst. apply rbind_ok in H as (st1 & H1 & H2).
  cbn [mbind list_bind]. fold (mbind (M:=list) (xit k)). rewrite app_assoc. eapply (IH st1 st' _ H2 HF').
  destruct it as [ns|ns|ns|mn insts|l]; cbn [xit].
  - rewrite app_nil_r, <- Hb. eapply c_item_bbs; [exact H1|]. intros ? ? [=].
  - rewrite app_nil_r, <- Hb. eapply c_item_bbs; [exact H1|]. intros ? ? [=].
  - rewrite app_nil_r, <- Hb. eapply c_item_bbs; [exact H1|]. intros ? ? [=].
  - simpl in Hok. destruct (prim_of_name mn) as [t|] eqn:Ep.
    + rewrite app_nil_r, <- Hb. eapply c_item_bbs; [exact H1|]. intros ? ? [= <- <-]. rewrite Ep. by eexists.
    + destruct Hok as (d & Ed & HG). rewrite Ed. simpl in H1. rewrite Ep in H1. unfold find_bb in H1. rewrite Ed in H1. fold (inst_step k) in H1.
      apply mbind_ok in H1 as ([stc cl] & Hc & H1). cbn [fst snd] in H1. apply mbind_ok in H1 as (x & Hx & H1). injection H1 as <-. simpl.
      eapply (bbs_reg k NN d cl insts (stc.1, r_bbs st) x L Hx); [exact (insts_bbgood k NN Htr HNN d insts _ _ cl Hc HG)| |done].
      eapply Forall_impl; [exact HG|]. intros ic (ps & E & _). eauto.
  - rewrite app_nil_r, <- Hb. eapply c_item_bbs; [exact H1|]. intros ? ? [=].
Qed.

Lemma bb_insts_xit rsv bbs m : bb_insts bbs m = m_items m ≫= xit ((init_ctx rsv bbs).1).
Proof. reflexivity. Qed.

Lemma in_subset_pin rsv bbs m : in_subset bbs m = true → (list_to_set (module_ids m) : gset string) ⊆ rsv →
  Forall (item_pin_ok (list_to_set (module_nets m))) (m_items m).
Proof.
  intros Hs Hids. pose proof (in_subset_conv rsv bbs m Hs Hids) as Hcv.
  unfold in_subset in Hs. rewrite !andb_true_iff in Hs. destruct Hs as ((((((Hsh & _) & _) & _) & _) & _) & _). rewrite forallb_forall in Hsh.
  assert (Hnet : ∀ it s, it ∈ m_items m → s ∈ item_nets it → s ∈ (list_to_set (module_nets m) : gset string)).
  { intros it s Hit Hs'. rewrite elem_of_list_to_set. unfold module_nets. apply elem_of_app. right. apply elem_of_list_bind. eauto. }
  apply Forall_forall. intros it Hit. rewrite Forall_forall in Hcv. specialize (Hcv it Hit). pose proof (Hsh it (proj1 (elem_of_list_In _ _) Hit)) as Hs'.
  destruct it as [ns|ns|ns|mn insts|l]; simpl; try done. destruct Hcv as [_ Hcv]. destruct (prim_of_name mn) as [t|] eqn:Et.
  - eapply Forall_impl; [exact Hcv|]. intros ic (n & ins & E & [_ Hd] & _). exists n, ins. split; [done|]. intros e He s Hs''. apply Hd. simpl.
    apply elem_of_list_to_set. apply elem_of_list_to_set in Hs''. apply elem_of_list_bind. eauto.
  - apply andb_true_iff in Hs' as [Hs' _]. rewrite forallb_forall in Hs'. apply Forall_forall. intros ic Hic.
    specialize (Hs' ic (proj1 (elem_of_list_In _ _) Hic)). unfold inst_ok in Hs'. rewrite Et in Hs'.
    destruct (find_def bbs mn) as [d|]; [|discriminate]. destruct ic as [iname [pp|ps]]; simpl in Hs'; try discriminate.
    apply andb_true_iff in Hs' as [Hs1 _]. apply andb_true_iff in Hs1 as [Hs1 _]. apply bool_decide_eq_true in Hs1.
    exists ps. split; [done|]. split; [done|]. intros pc Hpc e He s Hs''. apply elem_of_list_to_set in Hs''.
    apply (Hnet (IInst mn insts) s Hit). simpl. apply elem_of_list_bind. exists (iname, Named ps). split; [|done]. simpl.
    apply elem_of_list_bind. exists pc. split; [by rewrite He|done].
Qed.

(* the registry is the list of instances of the text and every pin is attached as the statement says *)
Theorem read_bb_pins rsv bbs m C : in_subset bbs m = true → (list_to_set (module_ids m) : gset string) ⊆ rsv → read rsv bbs m = Ok C →
  c_bbs C = list_to_map ((λ x : xinst, (x.1.1, x.1.2)) <$> bb_insts bbs m) ∧ ∀ x, x ∈ bb_insts bbs m → bb_ok (c_g C) x = true.
Proof.
  intros Hs Hids H. destruct (in_subset_den2 rsv bbs m Hs Hids) as (HNN & Hok & Hnd). pose proof (in_subset_pin rsv bbs m Hs Hids) as Hpk.
  rewrite (bb_insts_xit rsv bbs m).
  unfold read in H. pose proof (init_rinv rsv bbs) as Hk. cbv zeta in Hk.
  destruct (init_ctx rsv bbs) as [k g0]. simpl in Hk, Hok, Hpk |- *. destruct Hk as (Er & Eb & Htr & N01 & N0x & N1x & Hi0). subst rsv. subst bbs.
  set (NN := list_to_set (module_nets m) : gset string) in *. specialize (Hi0 NN HNN).
  apply mbind_ok in H as (st & Hf & Hfin).
  set (st0 := {| r_g := g0; r_bbs := ∅; r_ge := ∅; r_io := list_to_set (m_ports m); r_ins := ∅; r_outs := ∅ |}) in *.
  assert (HQ0 : Qinv k NN [] [] (r_g st0)).
  { assert (E1 : pinsL [] = ∅) by done. assert (E2 : netsL [] = ∅) by done. split; [constructor| | | | | |]; rewrite ?E1, ?E2.
    - intros x Hx. by apply elem_of_empty in Hx.
    - intros x Hx. apply elem_of_union in Hx as [Hx|Hx]; by apply elem_of_empty in Hx.
    - intros x Hx. by apply elem_of_empty in Hx.
    - intros x Hx. by apply elem_of_empty in Hx.
    - intros x Hx. by apply elem_of_empty in Hx.
    - intros y j _ x p Hx. by apply elem_of_nil in Hx. }
  destruct (items_pins k NN _ Htr HNN (m_items m) st0 st [] [] Hf Hi0 HQ0 Hok Hpk Hnd ltac:(done)) as [HQ Hi].
  pose proof (items_reg k NN _ Htr HNN (m_items m) st0 st [] Hf Hok ltac:(done)) as Hreg. simpl in HQ, Hi, Hreg.
  fold (xdrivers (k_bbs k) m) in HQ, Hi. destruct HQ as [Qo Qt Qd Qn Qi Qs Qr].
  unfold finish in Hfin. repeat (case_bool_decide; simpl in Hfin; try discriminate).
  destruct (set_output_g (r_g st) (elements (r_outs st)) true) as [g' o] eqn:Es. destruct o; [|discriminate].
  injection Hfin as <-. simpl. split; [exact Hreg|].
  fold (drop_tie g' (k_t0 k)). fold (drop_tie (drop_tie g' (k_t0 k)) (k_t1 k)). fold (drop_tie (drop_tie (drop_tie g' (k_t0 k)) (k_t1 k)) (k_tx k)).
  destruct (set_output_same _ _ _ Es) as (St & Sf & So).
  set (L := m_items m ≫= xit k) in *.
  assert (Hnt : ∀ t, t ∈ ties k → t ∉ pinsL L ∪ netsL L).
  { intros t Ht [Hx|Hx]%elem_of_union; [by apply (Qi t)|]. apply Qs in Hx. apply elem_of_list_to_set in Hx.
    destruct Hi as [_ _ _ _ _ N]. apply elem_of_list_fmap in Hx as (nd & -> & Hin). rewrite Forall_forall in N. destruct (N nd Hin) as (_ & Hr & _). by apply (Htr nd.1). }
  assert (Hc : chg (pinsL L) (netsL L) g' (drop_tie (drop_tie (drop_tie g' (k_t0 k)) (k_t1 k)) (k_tx k))).
  { eapply (chg_trans _ _ _ (drop_tie g' (k_t0 k))); [apply drop_chg; apply Hnt; unfold ties; clear; set_solver|].
    eapply (chg_trans _ _ _ (drop_tie (drop_tie g' (k_t0 k)) (k_t1 k))); apply drop_chg; apply Hnt; unfold ties; clear; set_solver. }
  intros x Hx. eapply bb_ok_chg; [exact Hc|by apply xpins_sub|by apply xnets_sub|]. rewrite (bb_ok_ext (r_g st) g' x St Sf So).
  rewrite Forall_forall in Qo. by apply Qo.
Qed.


(* everything C02_read_denotes_full claims about the returned circuit, for every successful read *)
Theorem read_denotes_of_success rsv bbs m C : in_subset bbs m = true → (list_to_set (module_ids m) : gset string) ⊆ rsv → read rsv bbs m = Ok C →
  c_name C = m_name m ∧
  c_bbs C = list_to_map ((λ x : string * bbdef * list (string * option cond), (x.1.1, x.1.2)) <$> bb_insts bbs m) ∧
  (∀ x, x ∈ bb_insts bbs m → bb_ok (c_g C) x = true) ∧
  (∀ w, consistent (c_g C) w → ∃ x, sat_module m w x) ∧
  (∀ v x, sat_module m v x → ∃ w, consistent (c_g C) w ∧ ∀ n, n ∈ used_nets m → w n = v n).
Proof.
  intros Hs Hids H. destruct (read_denotes rsv bbs m C Hs Hids H) as (Hn & _ & _ & Hsd & Hcv). destruct (read_bb_pins rsv bbs m C Hs Hids H) as [Hb Hp]. done.
Qed.
