(* Proofs for C02/C03: grammar table, transformer invariant, interface of a successful read. *)
From CG Require Import Verilog.ExprParse.
From stdpp Require Import strings gmap sets fin_sets pretty.
From CG Require Import Types Sem Fold Api Gen.Gen_grammar Verilog.Ast Verilog.Read Verilog.Write.
Open Scope string_scope.

(* ------------------------------------------------------------------ the grammar table *)
(* The rule table that the stratified tree type of ExprParse.v implements: one rule per level, one alternative per
   constructor (prim: PId PConst PParen; unary: UPrim UNot; andE: AUn AAnd; xorE: XAnd XXor XXnor; orE: OXor OOr;
   cond: COr CTern), both spellings of not / xnor / each constant folded into one token. *)
Definition expected_rules : list (string * bool * list (list gsym)) := [
  ("expression", false, [[GN "condition"]]);
  ("constant_value", true, [[GN "constant_zero"]; [GN "constant_one"]; [GN "constant_x"]]);
  ("constant_zero", false, [[GT "1'b0"]; [GT "1'h0"]]);
  ("constant_one", false, [[GT "1'b1"]; [GT "1'h1"]]);
  ("constant_x", false, [[GT "1'bx"]; [GT "1'hx"]]);
  ("condition", true, [[GN "or"]; [GN "ternary"]]);
  ("ternary", true, [[GN "or"; GT "?"; GN "or"; GT ":"; GN "or"]]);
  ("or", true, [[GN "xor"]; [GN "or_gate"]]);
  ("or_gate", true, [[GN "or"; GT "|"; GN "xor"]]);
  ("xor", true, [[GN "and"]; [GN "xor_gate"]; [GN "xnor_gate"]]);
  ("xor_gate", true, [[GN "xor"; GT "^"; GN "and"]]);
  ("xnor_gate", true, [[GN "xor"; GT "~^"; GN "and"]; [GN "xor"; GT "^~"; GN "and"]]);
  ("and", true, [[GN "unary"]; [GN "and_gate"]]);
  ("and_gate", true, [[GN "and"; GT "&"; GN "unary"]]);
  ("unary", true, [[GN "primary"]; [GN "not_gate"]]);
  ("not_gate", false, [[GAlt ["!"; "~"]; GN "primary"]]);
  ("primary", true, [[GN "IDENTIFIER"]; [GN "constant_value"]; [GT "("; GN "or"; GT ")"]]);
  ("named_port_connection", false, [[GT "."; GN "IDENTIFIER"; GT "("; GOpt "expression"; GT ")"]]);
  ("module_port_connection", false, [[GN "expression"]]);
  ("assignment", false, [[GN "lvalue"; GT "="; GN "expression"]]);
  ("lvalue", true, [[GN "identifier"]]);
  ("identifier", true, [[GN "IDENTIFIER"]])
].
Global Instance gsym_eq_dec : EqDecision gsym.
Proof. solve_decision. Defined.
Definition grammar_table_okb : bool :=
  bool_decide (grammar_rules = expected_rules) && bool_decide (identifier_terminals = ["CNAME"; "ESCAPED_IDENTIFIER"]).

(* ------------------------------------------------------------------ same function *)
Definition refines (S : gset string) (c c' : circuit) : Prop :=
  ∀ v', consistent c' v' → ∃ v, consistent c v ∧ agrees S v v'.
Definition equiv_on (S : gset string) (c c' : circuit) : Prop := refines S c c' ∧ refines S c' c.

(* ------------------------------------------------------------------ the transformer's gates carry the expression's value *)
(* placeholders *)
Definition ph_step (st : circuit * outcome) (f : string) : circuit * outcome :=
  match st with
  | (g, Done) => if bool_decide (f ∈ dom g) then (g, Done) else add_plain_buf g f
  | _ => st end.
Lemma ph_fail l g e : foldl ph_step (g, Fail e) l = (g, Fail e).
Proof. induction l; simpl; auto. Qed.
Lemma ph_ok l : ∀ c1 c2, foldl ph_step (c1, Done) l = (c2, Done) →
  c1 ⊆ c2 ∧ (∀ x, x ∈ dom c2 → x ∈ dom c1 ∨ (x ∈ l ∧ c2 !! x = Some (mk_node Buf false ∅))) ∧ (∀ x, x ∈ l → x ∈ dom c2).
Proof.
  induction l as [|f l IH]; intros c1 c2 H; simpl in H.
  - injection H as <-. split; [done|]. split; [auto|]. intros x Hx. by apply elem_of_nil in Hx.
  - case_bool_decide as Hf.
    + destruct (IH _ _ H) as (Hs & Hn & Hd). split; [done|]. split.
      * intros x Hx. destruct (Hn x Hx) as [?|[? ?]]; [by left|right]. split; [by right|done].
      * intros x [->|Hx]%elem_of_cons; [|by apply Hd]. apply elem_of_dom. apply elem_of_dom in Hf as [i Hi].
        exists i. by eapply lookup_weaken.
    + unfold add_plain_buf in H. repeat case_bool_decide; try (rewrite ph_fail in H; discriminate).
      destruct (starts_digit f); [rewrite ph_fail in H; discriminate|].
      destruct (IH _ _ H) as (Hs & Hn & Hd).
      assert (Hfresh : c1 !! f = None) by (by apply not_elem_of_dom).
      split; [etrans; [|done]; by apply insert_subseteq|]. split.
      * intros x Hx. destruct (Hn x Hx) as [Hx1|[? ?]].
        -- rewrite dom_insert in Hx1. apply elem_of_union in Hx1 as [->%elem_of_singleton|?]; [|by left].
           right. split; [by left|]. eapply lookup_weaken; [|done]. by rewrite lookup_insert.
        -- right. split; [by right|done].
      * intros x [->|Hx]%elem_of_cons; [|by apply Hd]. apply elem_of_dom. exists (mk_node Buf false ∅).
        eapply lookup_weaken; [|done]. by rewrite lookup_insert.
Qed.

Lemma pairs_one us n : pairs us [n] = (λ u, (u, n)) <$> us.
Proof. unfold pairs. induction us as [|u us IH]; [done|]. cbn. cbn in IH. by rewrite IH. Qed.
Definition add_edges (c : circuit) (l : list (string * string)) := foldl (λ c' (p : string * string), add_edge c' p.1 p.2) c l.
Lemma add_edges_cons c p l : add_edges c (p :: l) = add_edges (add_edge c p.1 p.2) l.
Proof. done. Qed.
Lemma add_edges_lookup us : ∀ (c : circuit) n,
  (∀ x, x ≠ n → add_edges c ((λ u, (u, n)) <$> us) !! x = c !! x) ∧
  add_edges c ((λ u, (u, n)) <$> us) !! n = upd_fi (λ s, list_to_set us ∪ s) <$> c !! n.
Proof.
  induction us as [|u us IH]; intros c n.
  - split; [done|]. cbn. destruct (c !! n) as [[]|]; simpl; [|done]. unfold upd_fi. simpl. do 2 f_equal. set_solver.
  - rewrite fmap_cons, add_edges_cons. cbn [fst snd]. destruct (IH (add_edge c u n) n) as [H1 H2]. split.
    + intros x Hx. rewrite H1 by done. unfold add_edge. by rewrite lookup_alter_ne.
    + rewrite H2. unfold add_edge. rewrite lookup_alter. destruct (c !! n) as [[]|]; simpl; [|done].
      unfold upd_fi. simpl. do 2 f_equal. set_solver.
Qed.
Lemma connect_one c us n c' : connect_g c us [n] = (c', Done) →
  (∀ x, x ≠ n → c' !! x = c !! x) ∧ (us ≠ [] → c' !! n = upd_fi (λ s, list_to_set us ∪ s) <$> c !! n).
Proof.
  unfold connect_g. intros H.
  destruct (bool_decide (us = []) || bool_decide ([n] = [])) eqn:E.
  - injection H as <-. split; [done|]. intros Hne. apply orb_true_iff in E as [E|E]; apply bool_decide_eq_true in E; done.
  - destruct (negb (forallb _ _)); [discriminate|]. destruct (negb (connect_check _ _ _)); [discriminate|].
    injection H as <-. rewrite pairs_one. destruct (add_edges_lookup us c n) as [H1 H2]. fold (add_edges c ((λ u, (u, n)) <$> us)). split; [exact H1|]. intros _. exact H2.
Qed.

Lemma add_g_rd c n t fi g' nm : add_g c n t fi [] rd_flags = (g', Done, nm) → n ∉ dom c → fi ≠ [] →
  nm = n ∧ c ⊆ g' ∧ g' !! n = Some (mk_node t false (list_to_set fi)) ∧
  (∀ x, x ∈ dom g' → x ∈ dom c ∨ x = n ∨ (x ∈ fi ∧ g' !! x = Some (mk_node Buf false ∅))).
Proof.
  intros H Hn Hfi. unfold add_g in H. simpl in H.
  rewrite andb_false_r in H. simpl in H.
  repeat (match type of H with (if ?b then _ else _) = _ => destruct b eqn:?; [discriminate|] end).
  rewrite app_nil_r in H.
  fold ph_step in H.
  destruct (foldl ph_step _ fi) as [c1' o1] eqn:Hf.
  destruct o1 as [|e]; [|discriminate].
  simpl in H.
  destruct (connect_g c1' fi [n]) as [c3 o3] eqn:Hc.
  destruct o3 as [|e]; [|destruct e; discriminate].
  injection H as <- <-. split; [done|].
  apply ph_ok in Hf as (Hs & Hnew & Hd).
  apply connect_one in Hc as [Hc1 Hc2]. specialize (Hc2 Hfi).
  assert (Hcn : c !! n = None) by (by apply not_elem_of_dom).
  assert (H1n : c1' !! n = Some (mk_node t false ∅)).
  { eapply lookup_weaken; [|exact Hs]. rewrite lookup_insert. unfold fanin. by rewrite Hcn. }
  split; [|split].
  - apply map_subseteq_spec. intros x i Hx. assert (x ≠ n) by (intros ->; congruence).
    rewrite Hc1 by done. eapply lookup_weaken; [|exact Hs]. by rewrite lookup_insert_ne.
  - rewrite Hc2, H1n. simpl. unfold upd_fi, mk_node. simpl. do 2 f_equal. set_solver.
  - intros x Hx. destruct (decide (x = n)) as [->|Hne]; [by right; left|].
    assert (Hx' : x ∈ dom c1'). { apply elem_of_dom. rewrite <- Hc1 by done. by apply elem_of_dom. }
    destruct (Hnew x Hx') as [Hd1|[Hl Hb]].
    + left. rewrite dom_insert in Hd1. set_solver.
    + right; right. split; [done|]. by rewrite Hc1.
Qed.

(* ---- uid freshness (same argument as Proofs/LimitProofs.v, repeated here to keep the files independent) ---- *)
Definition uid_next (i : N) : N := if (i <? 10)%N then (i + 1)%N else (i * 7)%N.
Lemma uid_next_gt i : (i < uid_next i)%N.
Proof. unfold uid_next. destruct (N.ltb_spec i 10); lia. Qed.
Definition uid_cand (n : string) (i : N) : string := n ++ "_" ++ pretty i.
Lemma uid_cand_inj n i j : uid_cand n i = uid_cand n j → i = j.
Proof. unfold uid_cand. intros H. apply (inj (String.append n)) in H. apply (inj (String.append "_")) in H. by apply (inj pretty) in H. Qed.
Lemma uid_loop_pigeon (used : gset string) n : ∀ fuel i (seen : gset string),
  seen ⊆ used → (∀ x, x ∈ seen → ∃ j, (j < i)%N ∧ x = uid_cand n j) →
  uid_loop fuel used n i ∈ used → size seen + fuel + 1 ≤ size used.
Proof.
  induction fuel as [|fuel IH]; intros i seen Hsub Hseen Hin; simpl in Hin; fold (uid_cand n i) in Hin.
  - assert (uid_cand n i ∉ seen). { intros (j & Hj & He)%Hseen. apply uid_cand_inj in He. lia. }
    assert (size ({[uid_cand n i]} ∪ seen) ≤ size used) by (apply subseteq_size; set_solver).
    rewrite size_union, size_singleton in * by set_solver. lia.
  - case_bool_decide as Hc; [|done].
    assert (uid_cand n i ∉ seen). { intros (j & Hj & He)%Hseen. apply uid_cand_inj in He. lia. }
    fold (uid_next i) in Hin.
    specialize (IH (uid_next i) ({[uid_cand n i]} ∪ seen)).
    rewrite size_union, size_singleton in IH by set_solver.
    assert (1 + size seen + fuel + 1 ≤ size used); [|lia]. apply IH; [set_solver| |done].
    intros x [->%elem_of_singleton|Hx]%elem_of_union.
    + exists i. split; [apply uid_next_gt|done].
    + destruct (Hseen x Hx) as (j & Hj & ->). exists j. split; [|done]. pose proof (uid_next_gt i). lia.
Qed.
Lemma uid_in_fresh (used : gset string) n : uid_in used n ∉ used.
Proof.
  unfold uid_in. case_bool_decide; [|done]. intros Hin.
  pose proof (uid_loop_pigeon used n (S (size used)) 0%N ∅) as Hp. rewrite size_empty in Hp.
  assert (0 + S (size used) + 1 ≤ size used); [|lia]. apply Hp; [set_solver|set_solver|done].
Qed.

Lemma rbind_ok {A B} (x : res A) (f : A → res B) y : rbind x f = Ok y → ∃ a, x = Ok a ∧ f a = Ok y.
Proof. destruct x; simpl; try discriminate. eauto. Qed.

(* a gate callback creates exactly one fresh node with the given type and operands (plus placeholder buffers for
   operands that are not nodes yet) and leaves every existing node alone *)
Lemma gate_spec k st prefix t items fi rem st' r : gate k st prefix t items fi rem = Ok (st', r) → fi ≠ [] →
  st.1 ⊆ st'.1 ∧ st'.1 !! r = Some (mk_node t false (list_to_set fi)) ∧ r ∉ dom st.1 ∧ r ∉ k_rsv k ∧
  (∀ x, x ∈ dom st'.1 → x ∈ dom st.1 ∨ x = r ∨ (x ∈ fi ∧ st'.1 !! x = Some (mk_node Buf false ∅))) ∧
  st'.2 ⊆ {[r]} ∪ st.2.
Proof.
  unfold gate, add_node. intros H Hfi. apply rbind_ok in H as ([g' nm] & H1 & H2). simpl in H2. injection H2 as <- <-.
  set (n := uid_in (dom st.1 ∪ k_rsv k) (prefix ++ "_" ++ join_ items)) in *.
  assert (Hn : n ∉ dom st.1 ∪ k_rsv k) by apply uid_in_fresh.
  destruct (add_g st.1 n t fi [] rd_flags) as [[g2 o] nm2] eqn:Ha. destruct o; simpl in H1; [|discriminate].
  injection H1 as <- <-.
  apply add_g_rd in Ha as (-> & Hs & Hl & Hnew); [|set_solver|done].
  simpl. repeat split; try done; try set_solver. destruct rem; set_solver.
Qed.

(* ---- values of one- and two-operand gates ---- *)
Lemma consistent_mono (c c' : circuit) v : c ⊆ c' → consistent c' v → consistent c v.
Proof. intros Hs H n i Hn. apply H. by eapply lookup_weaken. Qed.
Lemma gv1 t v a : gate_val t v (list_to_set [a]) = xorb (g_inv t) (v a).
Proof.
  unfold gate_val. f_equal. change (gfold t (v <$> elements (list_to_set [a] : gset string)) = v a).
  rewrite (gfold_split t v _ a) by set_solver.
  replace (list_to_set [a] ∖ {[a]} : gset string) with (∅ : gset string) by set_solver.
  rewrite elements_empty. simpl. apply g_op_unit.
Qed.
Lemma gv2 t v a b : a ≠ b → gate_val t v (list_to_set [a; b]) = xorb (g_inv t) (g_op t (v a) (v b)).
Proof.
  intros Hne. unfold gate_val. f_equal. change (gfold t (v <$> elements (list_to_set [a; b] : gset string)) = g_op t (v a) (v b)).
  rewrite (gfold_split t v _ a) by set_solver. f_equal.
  replace (list_to_set [a; b] ∖ {[a]} : gset string) with (list_to_set [b] : gset string) by set_solver.
  rewrite (gfold_split t v _ b) by set_solver.
  replace (list_to_set [b] ∖ {[b]} : gset string) with (∅ : gset string) by set_solver.
  rewrite elements_empty. simpl. apply g_op_unit.
Qed.
Lemma gv2_and v a b : gate_val And v (list_to_set [a; b]) = v a && v b.
Proof.
  destruct (decide (a = b)) as [->|Hne]; [|rewrite gv2 by done; simpl; by destruct (v a), (v b)].
  replace (list_to_set [b; b] : gset string) with (list_to_set [b] : gset string) by set_solver.
  rewrite gv1. simpl. by destruct (v b).
Qed.
Lemma gv2_or v a b : gate_val Or v (list_to_set [a; b]) = v a || v b.
Proof.
  destruct (decide (a = b)) as [->|Hne]; [|rewrite gv2 by done; simpl; by destruct (v a), (v b)].
  replace (list_to_set [b; b] : gset string) with (list_to_set [b] : gset string) by set_solver.
  rewrite gv1. simpl. by destruct (v b).
Qed.
Lemma node_val (c : circuit) v n t (s : gset string) : consistent c v → c !! n = Some (mk_node t false s) → s ≠ ∅ →
  t ∈ [Not; And; Or; Xor; Xnor] → v n = gate_val t v s.
Proof.
  intros Hc Hn Hs Ht. specialize (Hc n _ Hn). unfold node_ok, is_free in Hc. simpl in Hc.
  rewrite !elem_of_cons, elem_of_nil in Ht. destruct Ht as [->|[->|[->|[->|[->|[]]]]]]; simpl in Hc; try done.
  by rewrite bool_decide_eq_false_2 in Hc.
Qed.

Definition ties_ok (k : rctx) (g : circuit) : Prop :=
  (∃ i, g !! k_t0 k = Some i ∧ n_ty i = C0) ∧ (∃ i, g !! k_t1 k = Some i ∧ n_ty i = C1).
Lemma ties_mono k (g g' : circuit) : g ⊆ g' → ties_ok k g → ties_ok k g'.
Proof. intros Hs [(i & H0 & ?) (j & H1 & ?)]. split; [exists i|exists j]; split; try done; by eapply lookup_weaken. Qed.
Lemma tie0_val k g v : ties_ok k g → consistent g v → v (k_t0 k) = false.
Proof. intros [(i & H0 & Ht) _] Hc. specialize (Hc _ _ H0). unfold node_ok, is_free in Hc. by rewrite Ht in Hc. Qed.
Lemma tie1_val k g v : ties_ok k g → consistent g v → v (k_t1 k) = true.
Proof. intros [_ (i & H0 & Ht)] Hc. specialize (Hc _ _ H0). unfold node_ok, is_free in Hc. by rewrite Ht in Hc. Qed.

(* the invariant of one compilation function *)
Definition cstate := (circuit * gset string)%type.
Definition c_ok {T} (cf : rctx → cstate → T → res (cstate * string)) (sf : (string → bool) → bool → T → bool) (e : T) : Prop :=
  ∀ k st st' r, cf k st e = Ok (st', r) →
    st.1 ⊆ st'.1 ∧ ∀ v, ties_ok k st.1 → consistent st'.1 v → v r = sf v (v (k_tx k)) e.

Lemma set1_ne (a : string) : (list_to_set [a] : gset string) ≠ ∅. Proof. set_solver. Qed.
Lemma set2_ne (a b : string) : (list_to_set [a; b] : gset string) ≠ ∅. Proof. set_solver. Qed.

Theorem compile_all :
  (∀ p, c_ok c_prim sem_prim p) ∧ (∀ u, c_ok c_unary sem_unary u) ∧ (∀ a, c_ok c_and sem_and a) ∧
  (∀ x, c_ok c_xor sem_xor x) ∧ (∀ o, c_ok c_or sem_or o).
Proof.
  apply expr_mutind; unfold c_ok.
  - (* PId *) intros s k st st' r H. simpl in H. injection H as <- <-. split; [done|]. done.
  - (* PConst *) intros c k st st' r H. simpl in H. injection H as <- <-. split; [done|]. intros v Ht Hc.
    destruct c; simpl; [by eapply tie0_val|by eapply tie1_val|done].
  - (* PParen *) intros o IH k st st' r H. simpl in H. by apply IH.
  - (* UPrim *) intros p IH k st st' r H. simpl in H. by apply IH.
  - (* UNot *) intros p IH k st st' r H. simpl in H. apply rbind_ok in H as ([st1 r1] & H1 & H2). simpl in H2.
    destruct (IH _ _ _ _ H1) as [Hs1 Hv1].
    apply gate_spec in H2 as (Hs2 & Hl & _); [|done]. cbn [fst snd] in *.
    split; [by etrans|]. intros v Ht Hc.
    rewrite (node_val _ v r Not _ Hc Hl (set1_ne _)) by set_solver. rewrite gv1. simpl.
    rewrite (Hv1 v Ht) by (by eapply consistent_mono). done.
  - (* AUn *) intros u IH k st st' r H. simpl in H. by apply IH.
  - (* AAnd *) intros a IHa u IHu k st st' r H. simpl in H.
    apply rbind_ok in H as ([st1 r1] & H1 & H). simpl in H. apply rbind_ok in H as ([st2 r2] & H2 & H). simpl in H.
    destruct (IHa _ _ _ _ H1) as [Hs1 Hv1]. destruct (IHu _ _ _ _ H2) as [Hs2 Hv2]. cbn [fst snd] in *.
    apply gate_spec in H as (Hs3 & Hl & _); [|done]. cbn [fst snd] in *.
    split; [by do 2 (etrans; [done|])|]. intros v Ht Hc.
    rewrite (node_val _ v r And _ Hc Hl (set2_ne _ _)) by set_solver. rewrite gv2_and.
    rewrite (Hv1 v Ht) by (eapply consistent_mono; [|done]; by etrans).
    rewrite (Hv2 v (ties_mono _ _ _ Hs1 Ht)) by (by eapply consistent_mono). done.
  - (* XAnd *) intros a IH k st st' r H. simpl in H. by apply IH.
  - (* XXor *) intros x IHx a IHa k st st' r H. simpl in H.
    apply rbind_ok in H as ([st1 r1] & H1 & H). simpl in H. apply rbind_ok in H as ([st2 r2] & H2 & H). simpl in H.
    destruct (IHx _ _ _ _ H1) as [Hs1 Hv1]. destruct (IHa _ _ _ _ H2) as [Hs2 Hv2]. cbn [fst snd] in *.
    case_bool_decide as Heq.
    + injection H as <- <-. split; [by etrans|]. intros v Ht Hc.
      assert (Ht2 : ties_ok k st2.1) by (eapply ties_mono; [|done]; by etrans). rewrite (tie0_val k st2.1 v Ht2 Hc).
      simpl. rewrite <- (Hv1 v Ht) by (by eapply consistent_mono). rewrite <- (Hv2 v (ties_mono _ _ _ Hs1 Ht) Hc).
      subst r2. by destruct (v r1).
    + apply gate_spec in H as (Hs3 & Hl & _); [|done]. cbn [fst snd] in *.
      split; [by do 2 (etrans; [done|])|]. intros v Ht Hc.
      rewrite (node_val _ v r Xor _ Hc Hl (set2_ne _ _)) by set_solver. rewrite gv2 by done. simpl.
      rewrite (Hv1 v Ht) by (eapply consistent_mono; [|done]; by etrans).
      rewrite (Hv2 v (ties_mono _ _ _ Hs1 Ht)) by (by eapply consistent_mono).
      by destruct (sem_xor _ _ _), (sem_and _ _ _).
  - (* XXnor *) intros x IHx a IHa k st st' r H. simpl in H.
    apply rbind_ok in H as ([st1 r1] & H1 & H). simpl in H. apply rbind_ok in H as ([st2 r2] & H2 & H). simpl in H.
    destruct (IHx _ _ _ _ H1) as [Hs1 Hv1]. destruct (IHa _ _ _ _ H2) as [Hs2 Hv2]. cbn [fst snd] in *.
    case_bool_decide as Heq.
    + injection H as <- <-. split; [by etrans|]. intros v Ht Hc.
      assert (Ht2 : ties_ok k st2.1) by (eapply ties_mono; [|done]; by etrans). rewrite (tie1_val k st2.1 v Ht2 Hc).
      simpl. rewrite <- (Hv1 v Ht) by (by eapply consistent_mono). rewrite <- (Hv2 v (ties_mono _ _ _ Hs1 Ht) Hc).
      subst r2. by destruct (v r1).
    + apply gate_spec in H as (Hs3 & Hl & _); [|done]. cbn [fst snd] in *.
      split; [by do 2 (etrans; [done|])|]. intros v Ht Hc.
      rewrite (node_val _ v r Xnor _ Hc Hl (set2_ne _ _)) by set_solver. rewrite gv2 by done. simpl.
      rewrite (Hv1 v Ht) by (eapply consistent_mono; [|done]; by etrans).
      rewrite (Hv2 v (ties_mono _ _ _ Hs1 Ht)) by (by eapply consistent_mono). done.
  - (* OXor *) intros x IH k st st' r H. simpl in H. by apply IH.
  - (* OOr *) intros o IHo x IHx k st st' r H. simpl in H.
    apply rbind_ok in H as ([st1 r1] & H1 & H). simpl in H. apply rbind_ok in H as ([st2 r2] & H2 & H). simpl in H.
    destruct (IHo _ _ _ _ H1) as [Hs1 Hv1]. destruct (IHx _ _ _ _ H2) as [Hs2 Hv2]. cbn [fst snd] in *.
    apply gate_spec in H as (Hs3 & Hl & _); [|done]. cbn [fst snd] in *.
    split; [by do 2 (etrans; [done|])|]. intros v Ht Hc.
    rewrite (node_val _ v r Or _ Hc Hl (set2_ne _ _)) by set_solver. rewrite gv2_or.
    rewrite (Hv1 v Ht) by (eapply consistent_mono; [|done]; by etrans).
    rewrite (Hv2 v (ties_mono _ _ _ Hs1 Ht)) by (by eapply consistent_mono). done.
Qed.

Lemma mbind_ok {A B} (x : res A) (f : A → res B) y : (x ≫= f) = Ok y → ∃ a, x = Ok a ∧ f a = Ok y.
Proof. apply rbind_ok. Qed.

Theorem compile_cond_ok e : c_ok c_cond sem_cond e.
Proof.
  destruct compile_all as (_ & _ & _ & _ & Hor).
  destruct e as [o|s a b]; unfold c_ok; intros k st st' r H.
  - simpl in H. by apply Hor.
  - unfold c_cond in H.
    apply mbind_ok in H as ([st1 r1] & H1 & H). apply mbind_ok in H as ([st2 r2] & H2 & H).
    apply mbind_ok in H as ([st3 r3] & H3 & H). cbn [fst snd] in H.
    apply mbind_ok in H as ([gn n] & Hn & H). apply mbind_ok in H as ([ga0 a0] & Ha0 & H).
    apply mbind_ok in H as ([ga1 a1] & Ha1 & H). cbn [fst snd] in *.
    destruct (Hor s _ _ _ _ H1) as [Hs1 Hv1]. destruct (Hor a _ _ _ _ H2) as [Hs2 Hv2]. destruct (Hor b _ _ _ _ H3) as [Hs3 Hv3].
    cbn [fst snd] in *.
    apply gate_spec in Hn as (Hsn & Hln & _); [|done].
    apply gate_spec in Ha0 as (Hsa0 & Hla0 & _); [|done].
    apply gate_spec in Ha1 as (Hsa1 & Hla1 & _); [|done].
    apply gate_spec in H as (Hso & Hlo & _); [|done]. cbn [fst snd] in *.
    assert (S3 : st3.1 ⊆ st'.1) by (etrans; [exact Hsn|]; etrans; [exact Hsa0|]; etrans; [exact Hsa1|exact Hso]).
    assert (S2 : st2.1 ⊆ st'.1) by (by etrans).
    assert (S1 : st1.1 ⊆ st'.1) by (by etrans).
    split; [by etrans|]. intros v Ht Hc.
    assert (Hn' : st'.1 !! n = Some (mk_node Not false (list_to_set [r1]))).
    { eapply lookup_weaken; [exact Hln|]. etrans; [exact Hsa0|]. etrans; [exact Hsa1|exact Hso]. }
    assert (Ha0' : st'.1 !! a0 = Some (mk_node And false (list_to_set [n; r3]))).
    { eapply lookup_weaken; [exact Hla0|]. etrans; [exact Hsa1|exact Hso]. }
    assert (Ha1' : st'.1 !! a1 = Some (mk_node And false (list_to_set [r1; r2]))).
    { eapply lookup_weaken; [exact Hla1|exact Hso]. }
    rewrite (node_val _ v r Or _ Hc Hlo (set2_ne _ _)) by set_solver. rewrite gv2_or.
    rewrite (node_val _ v a0 And _ Hc Ha0' (set2_ne _ _)) by set_solver. rewrite gv2_and.
    rewrite (node_val _ v a1 And _ Hc Ha1' (set2_ne _ _)) by set_solver. rewrite gv2_and.
    rewrite (node_val _ v n Not _ Hc Hn' (set1_ne _)) by set_solver. rewrite gv1.
    rewrite (Hv1 v Ht) by (by eapply consistent_mono).
    rewrite (Hv2 v (ties_mono _ _ _ Hs1 Ht)) by (by eapply consistent_mono).
    rewrite (Hv3 v (ties_mono _ _ _ Hs2 (ties_mono _ _ _ Hs1 Ht))) by (by eapply consistent_mono).
    simpl. by destruct (sem_or v _ s), (sem_or v _ a), (sem_or v _ b).
Qed.

(* ------------------------------------------------------------------ port list versus declarations *)
Lemma rfold_app {A B} (f : A → B → res A) l1 : ∀ a l2, rfold f a (l1 ++ l2) = rbind (rfold f a l1) (λ a', rfold f a' l2).
Proof. induction l1 as [|b l1 IH]; intros a l2; simpl; [done|]. destruct (f a b); simpl; auto. Qed.
Definition item_ins (it : item) : list string := match it with IInput l => l | _ => [] end.
Definition item_outs (it : item) : list string := match it with IOutput l => l | _ => [] end.
Lemma c_item_sets k st it st' : c_item k st it = Ok st' →
  r_io st' = r_io st ∧ r_ins st' = r_ins st ∪ list_to_set (item_ins it) ∧ r_outs st' = r_outs st ∪ list_to_set (item_outs it).
Proof.
  destruct it as [ns|ns|ns|mn insts|l]; simpl; intros H.
  - apply mbind_ok in H as (g & _ & H). injection H as <-. simpl. set_solver.
  - injection H as <-. simpl. set_solver.
  - injection H as <-. set_solver.
  - apply mbind_ok in H as (r & _ & H). destruct (prim_of_name mn).
    + apply mbind_ok in H as (g' & _ & H). injection H as <-. simpl. set_solver.
    + destruct (find_bb k mn); [|discriminate]. apply mbind_ok in H as (x & _ & H). injection H as <-. simpl. set_solver.
  - apply mbind_ok in H as (r & _ & H). injection H as <-. simpl. set_solver.
Qed.
Lemma items_sets k items : ∀ st st', rfold (c_item k) st items = Ok st' →
  r_io st' = r_io st ∧ r_ins st' = r_ins st ∪ list_to_set (items ≫= item_ins) ∧ r_outs st' = r_outs st ∪ list_to_set (items ≫= item_outs).
Proof.
  induction items as [|it items IH]; intros st st' H; simpl in H.
  - injection H as <-. simpl. set_solver.
  - apply rbind_ok in H as (st1 & H1 & H2). apply c_item_sets in H1 as (E1 & E2 & E3). apply IH in H2 as (F1 & F2 & F3).
    rewrite F1, F2, F3, E1, E2, E3. simpl. rewrite !list_to_set_app_L. set_solver.
Qed.
(* a port list that disagrees with the declarations is never accepted *)
Theorem read_rejects_port_mismatch rsv bbs m C : read rsv bbs m = Ok C → ports_match m = true.
Proof.
  unfold read. destruct (init_ctx rsv bbs) as [k g0]. intros H. apply mbind_ok in H as (st & H1 & H2).
  apply items_sets in H1 as (E1 & E2 & E3). simpl in E1, E2, E3.
  unfold finish in H2. repeat case_bool_decide; simpl in H2; try discriminate.
  unfold ports_match. apply bool_decide_eq_true.
  change (decl_inputs m) with (m_items m ≫= item_ins). change (decl_outputs m) with (m_items m ≫= item_outs).
  rewrite E1, E2, E3 in *. set_solver.
Qed.

(* ------------------------------------------------------------------ the tree type implements the rule table *)
(* derivations of a rule table over the token type of ExprParse.v: a terminal string stands for its token (both spellings
   of not / xnor / each constant give the same token), the terminal IDENTIFIER for any TId *)
Global Instance tok_eq_dec : EqDecision tok. Proof. solve_decision. Defined.
Definition term_table : list (string * tok) :=
  [("1'b0", TConst K0); ("1'h0", TConst K0); ("1'b1", TConst K1); ("1'h1", TConst K1); ("1'bx", TConst KX); ("1'hx", TConst KX);
   ("?", TQ); (":", TColon); ("|", TOr); ("^", TXor); ("~^", TXnor); ("^~", TXnor); ("&", TAnd); ("!", TNot); ("~", TNot);
   ("(", TLp); (")", TRp)].
Inductive der (G : list (string * bool * list (list gsym))) : string → list tok → Prop :=
| der_ident s : der G "IDENTIFIER" [TId s]
| der_rule nt inl alts alt ts : (nt, inl, alts) ∈ G → alt ∈ alts → ders G alt ts → der G nt ts
with ders (G : list (string * bool * list (list gsym))) : list gsym → list tok → Prop :=
| ders_nil : ders G [] []
| ders_T s t r ts : (s, t) ∈ term_table → ders G r ts → ders G (GT s :: r) (t :: ts)
| ders_A l s t r ts : s ∈ l → (s, t) ∈ term_table → ders G r ts → ders G (GAlt l :: r) (t :: ts)
| ders_N nt r ts1 ts2 : der G nt ts1 → ders G r ts2 → ders G (GN nt :: r) (ts1 ++ ts2).
Lemma ders_N1 G nt ts : der G nt ts → ders G [GN nt] ts.
Proof. intros H. rewrite <- (app_nil_r ts). apply ders_N; [done|constructor]. Qed.
Ltac mem := repeat first [apply elem_of_list_here | apply elem_of_list_further].
(* a unit rule nt -> nt' *)
Lemma der_unit nt nt' inl alts ts : (nt, inl, alts) ∈ expected_rules → [GN nt'] ∈ alts → der expected_rules nt' ts → der expected_rules nt ts.
Proof. intros H1 H2 H. eapply der_rule; [exact H1|exact H2|by apply ders_N1]. Qed.

Theorem print_derivable_all :
  (∀ p, der expected_rules "primary" (pr_prim p)) ∧ (∀ u, der expected_rules "unary" (pr_unary u)) ∧
  (∀ a, der expected_rules "and" (pr_and a)) ∧ (∀ x, der expected_rules "xor" (pr_xor x)) ∧ (∀ o, der expected_rules "or" (pr_or o)).
Proof.
  apply expr_mutind.
  - intros s. eapply der_unit; [mem|mem|constructor].
  - intros c. eapply (der_unit _ "constant_value"); [mem|mem|]. destruct c; simpl.
    + eapply (der_unit _ "constant_zero"); [mem|mem|]. eapply (der_rule _ _ _ _ [GT "1'b0"]); [mem|mem|]. apply ders_T; [mem|constructor].
    + eapply (der_unit _ "constant_one"); [mem|mem|]. eapply (der_rule _ _ _ _ [GT "1'b1"]); [mem|mem|]. apply ders_T; [mem|constructor].
    + eapply (der_unit _ "constant_x"); [mem|mem|]. eapply (der_rule _ _ _ _ [GT "1'bx"]); [mem|mem|]. apply ders_T; [mem|constructor].
  - intros o IH. simpl. eapply (der_rule _ _ _ _ [GT "("; GN "or"; GT ")"]); [mem|mem|].
    apply ders_T; [mem|]. apply ders_N; [exact IH|]. apply ders_T; [mem|constructor].
  - intros p IH. simpl. eapply der_unit; [mem|mem|exact IH].
  - intros p IH. simpl. eapply (der_unit _ "not_gate"); [mem|mem|].
    eapply (der_rule _ _ _ _ [GAlt ["!"; "~"]; GN "primary"]); [mem|mem|]. eapply (ders_A _ _ "~"); [mem|mem|]. by apply ders_N1.
  - intros u IH. simpl. eapply der_unit; [mem|mem|exact IH].
  - intros a IHa u IHu. simpl. eapply (der_unit _ "and_gate"); [mem|mem|].
    eapply (der_rule _ _ _ _ [GN "and"; GT "&"; GN "unary"]); [mem|mem|]. apply ders_N; [exact IHa|]. apply ders_T; [mem|]. by apply ders_N1.
  - intros a IH. simpl. eapply der_unit; [mem|mem|exact IH].
  - intros x IHx a IHa. simpl. eapply (der_unit _ "xor_gate"); [mem|mem|].
    eapply (der_rule _ _ _ _ [GN "xor"; GT "^"; GN "and"]); [mem|mem|]. apply ders_N; [exact IHx|]. apply ders_T; [mem|]. by apply ders_N1.
  - intros x IHx a IHa. simpl. eapply (der_unit _ "xnor_gate"); [mem|mem|].
    eapply (der_rule _ _ _ _ [GN "xor"; GT "~^"; GN "and"]); [mem|mem|]. apply ders_N; [exact IHx|]. apply ders_T; [mem|]. by apply ders_N1.
  - intros x IH. simpl. eapply der_unit; [mem|mem|exact IH].
  - intros o IHo x IHx. simpl. eapply (der_unit _ "or_gate"); [mem|mem|].
    eapply (der_rule _ _ _ _ [GN "or"; GT "|"; GN "xor"]); [mem|mem|]. apply ders_N; [exact IHo|]. apply ders_T; [mem|]. by apply ders_N1.
Qed.
Theorem print_derivable : grammar_table_okb = true → ∀ c, der grammar_rules "condition" (pr_cond c).
Proof.
  intros Hok c. apply andb_true_iff in Hok as [Hok _]. apply bool_decide_eq_true in Hok. rewrite Hok.
  destruct print_derivable_all as (_ & _ & _ & _ & Hor). destruct c as [o|s a b]; simpl.
  - eapply der_unit; [mem|mem|apply Hor].
  - eapply (der_unit _ "ternary"); [mem|mem|].
    eapply (der_rule _ _ _ _ [GN "or"; GT "?"; GN "or"; GT ":"; GN "or"]); [mem|mem|].
    apply ders_N; [apply Hor|]. apply ders_T; [mem|]. apply ders_N; [apply Hor|]. apply ders_T; [mem|]. apply ders_N1, Hor.
Qed.

(* ------------------------------------------------------------------ the writer's expressions (C03) *)
Lemma chain_and_sem v x r : ∀ acc, sem_and v x (foldl (λ acc y, AAnd acc (pid y)) acc r) = foldl andb (sem_and v x acc) (v <$> r).
Proof. induction r as [|y r IH]; intros acc; simpl; [done|]. by rewrite IH. Qed.
Lemma chain_xor_sem v x r : ∀ acc, sem_xor v x (foldl (λ acc y, XXor acc (AUn (pid y))) acc r) = foldl xorb (sem_xor v x acc) (v <$> r).
Proof. induction r as [|y r IH]; intros acc; simpl; [done|]. by rewrite IH. Qed.
Lemma chain_or_sem v x r : ∀ acc, sem_or v x (foldl (λ acc y, OOr acc (XAnd (AUn (pid y)))) acc r) = foldl orb (sem_or v x acc) (v <$> r).
Proof. induction r as [|y r IH]; intros acc; simpl; [done|]. by rewrite IH. Qed.

Lemma foldl_gfold t l : ∀ a, foldl (g_op t) a l = gfold t (a :: l).
Proof.
  unfold gfold. induction l as [|b l IH]; intros a; simpl.
  - by rewrite g_op_unit.
  - rewrite IH. simpl. by rewrite g_op_assoc.
Qed.

(* the right-hand side the writer emits for a gate denotes the gate's function of its operands, for every gate type,
   every number of operands and every operand order *)
Theorem beh_expr_sem t f r v x : t ∈ gate_types → (t = Buf ∨ t = Not → r = []) →
  sem_cond v x (beh_expr t f r) = xorb (g_inv t) (gfold t (v <$> f :: r)).
Proof.
  intros Ht Hr. rewrite fmap_cons, <- foldl_gfold.
  unfold gate_types in Ht. rewrite !elem_of_cons, elem_of_nil in Ht.
  destruct Ht as [->|[->|[->|[->|[->|[->|[->|[->|[]]]]]]]]]; simpl;
    try (rewrite Hr by auto; simpl);
    unfold chain_and, chain_xor, chain_or;
    rewrite ?chain_and_sem, ?chain_xor_sem, ?chain_or_sem; simpl;
    try done; try (by destruct (foldl _ _ _)); by destruct (v f).
Qed.
Corollary beh_expr_gate_val t f r v x : t ∈ gate_types → (t = Buf ∨ t = Not → r = []) → NoDup (f :: r) →
  sem_cond v x (beh_expr t f r) = gate_val t v (list_to_set (f :: r)).
Proof.
  intros Ht Hr Hnd. rewrite beh_expr_sem by done. unfold gate_val. f_equal.
  apply gfold_perm. apply fmap_Permutation. symmetry. by apply elements_list_to_set.
Qed.
Lemma const_expr_sem t v x : t ∈ const_types → sem_cond v x (const_expr t) = match t with C0 => false | C1 => true | _ => x end.
Proof. unfold const_types. rewrite !elem_of_cons, elem_of_nil. intros [->|[->|[->|[]]]]; done. Qed.

(* writer and reader composed, one gate: the node the reader returns for the emitted right-hand side carries the gate's
   function of its operands *)
Theorem roundtrip_gate_expr k st t f r st' n : t ∈ gate_types → (t = Buf ∨ t = Not → r = []) → NoDup (f :: r) →
  c_cond k st (beh_expr t f r) = Ok (st', n) →
  st.1 ⊆ st'.1 ∧ ∀ v, ties_ok k st.1 → consistent st'.1 v → v n = gate_val t v (list_to_set (f :: r)).
Proof.
  intros Ht Hr Hnd H. destruct (compile_cond_ok _ _ _ _ _ H) as [Hs Hv]. split; [done|]. intros v Hk Hc.
  rewrite (Hv v Hk Hc). by apply beh_expr_gate_val.
Qed.
