(* Proofs for C02/C03: grammar table, transformer invariant, interface of a successful read. *)
From CG Require Import Verilog.ExprParse.
From stdpp Require Import strings gmap sets.
From CG Require Import Types Sem Api Gen.Gen_grammar Verilog.Ast Verilog.Read.
Open Scope string_scope.

(* ------------------------------------------------------------------ the grammar table *)
(* The rule table that the stratified tree type of ExprParse.v implements: one rule per level, one alternative per
   constructor (prim: PId PConst PParen; unary: UPrim UNot; andE: AUn AAnd; xorE: XAnd XXor XXnor; orE: OXor OOr;
   cond: COr CTern), both spellings of not / xnor / each constant folded into one token. *)
Definition expected_rules : list (string * bool * list (list gsym)) := [
  ("expression", false, [[GN "condition"]]);
  ("constant_value", true, [[GN "constant_zero"]; [GN "constant_one"]; [GN "constant_x"]]);
  ("constant_zero", false, [[GT "1'b0"]; [GT "1'h0"]]);
  ("constant_one", false, [[GT "1'b1"]; [GT "1'h1"]]);
  ("constant_x", false, [[GT "1'bx"]; [GT "1'hx"]]);
  ("condition", true, [[GN "or"]; [GN "ternary"]]);
  ("ternary", true, [[GN "or"; GT "?"; GN "or"; GT ":"; GN "or"]]);
  ("or", true, [[GN "xor"]; [GN "or_gate"]]);
  ("or_gate", true, [[GN "or"; GT "|"; GN "xor"]]);
  ("xor", true, [[GN "and"]; [GN "xor_gate"]; [GN "xnor_gate"]]);
  ("xor_gate", true, [[GN "xor"; GT "^"; GN "and"]]);
  ("xnor_gate", true, [[GN "xor"; GT "~^"; GN "and"]; [GN "xor"; GT "^~"; GN "and"]]);
  ("and", true, [[GN "unary"]; [GN "and_gate"]]);
  ("and_gate", true, [[GN "and"; GT "&"; GN "unary"]]);
  ("unary", true, [[GN "primary"]; [GN "not_gate"]]);
  ("not_gate", false, [[GAlt ["!"; "~"]; GN "primary"]]);
  ("primary", true, [[GN "IDENTIFIER"]; [GN "constant_value"]; [GT "("; GN "or"; GT ")"]]);
  ("named_port_connection", false, [[GT "."; GN "IDENTIFIER"; GT "("; GOpt "expression"; GT ")"]]);
  ("module_port_connection", false, [[GN "expression"]]);
  ("assignment", false, [[GN "lvalue"; GT "="; GN "expression"]]);
  ("lvalue", true, [[GN "identifier"]]);
  ("identifier", true, [[GN "IDENTIFIER"]])
].
Global Instance gsym_eq_dec : EqDecision gsym.
Proof. solve_decision. Defined.
Definition grammar_table_okb : bool :=
  bool_decide (grammar_rules = expected_rules) && bool_decide (identifier_terminals = ["CNAME"; "ESCAPED_IDENTIFIER"]).

(* ------------------------------------------------------------------ same function *)
Definition refines (S : gset string) (c c' : circuit) : Prop :=
  ∀ v', consistent c' v' → ∃ v, consistent c v ∧ agrees S v v'.
Definition equiv_on (S : gset string) (c c' : circuit) : Prop := refines S c c' ∧ refines S c' c.
