(* Proofs for C02, second part: interface of a successful read (invariant over the item fold). *)
From CG Require Import Verilog.ExprParse.
From stdpp Require Import strings gmap sets fin_sets pretty.
From CG Require Import Types Sem Fold Api Verilog.Ast Verilog.Read Proofs.VerilogProofs Run.Run_C02.
Open Scope string_scope.

(* add_g without fan-out and without uid: what a successful call does, for a new or an existing name *)
Lemma add_g_gen c n t fi fl g' nm : add_g c n t fi [] fl = (g', Done, nm) → af_uid fl = false →
  nm = n ∧ g' !! n = Some (mk_node t (af_out fl) (fanin c n ∪ list_to_set fi)) ∧
  (∀ x, x ≠ n → g' !! x = c !! x ∨ (c !! x = None ∧ x ∈ fi ∧ af_conn fl = true ∧ g' !! x = Some (mk_node Buf false ∅))).
Proof.
  intros H Hu. unfold add_g in H. rewrite Hu in H. simpl in H.
  repeat (match type of H with (if ?b then _ else _) = _ => destruct b eqn:?; [discriminate|] end).
  rewrite app_nil_r in H.
  set (c1 := <[n:=mk_node t (af_out fl) (fanin c n)]> c) in *.
  assert (Hph : ∃ c1', (if af_conn fl then foldl ph_step (c1, Done) fi else (c1, Done)) = (c1', Done) ∧
                       connect_g c1' fi [n] = (g', Done)).
  { fold ph_step in H. destruct (if af_conn fl then foldl ph_step (c1, Done) fi else (c1, Done)) as [c1' o1] eqn:Hf.
    destruct o1 as [|e]; [|discriminate]. simpl in H.
    destruct (connect_g c1' fi [n]) as [c3 o3] eqn:Hc. destruct o3 as [|e]; [|destruct e; discriminate].
    injection H as <- <-. eauto. }
  destruct Hph as (c1' & Hf & Hc).
  assert (Hnm : nm = n).
  { fold ph_step in H. destruct (if af_conn fl then foldl ph_step (c1, Done) fi else (c1, Done)) as [c1'' o1].
    destruct o1 as [|e]; [|discriminate]. simpl in H. destruct (connect_g c1'' fi [n]) as [c3 o3]. destruct o3 as [|[]]; by injection H. }
  split; [done|].
  assert (Hfr : c1 ⊆ c1' ∧ ∀ x, x ∈ dom c1' → x ∈ dom c1 ∨ (x ∈ fi ∧ af_conn fl = true ∧ c1' !! x = Some (mk_node Buf false ∅))).
  { destruct (af_conn fl).
    - apply ph_ok in Hf as (Hs & Hn & _). split; [done|]. intros x Hx. destruct (Hn x Hx) as [?|[? ?]]; auto.
    - injection Hf as <-. split; [done|]. auto. }
  destruct Hfr as [Hs Hnew].
  pose proof Hc as Hc0. apply connect_one in Hc as [Hc1 Hc2].
  assert (H1n : c1' !! n = Some (mk_node t (af_out fl) (fanin c n))).
  { eapply lookup_weaken; [|exact Hs]. unfold c1. by rewrite lookup_insert. }
  split.
  - destruct (decide (fi = [])) as [->|Hne].
    + (* nothing to connect *)
      unfold connect_g in Hc0. simpl in Hc0. injection Hc0 as <-.
      rewrite H1n. do 2 f_equal. set_solver.
    + rewrite (Hc2 Hne), H1n. simpl. unfold upd_fi, mk_node. simpl. do 2 f_equal. set_solver.
  - intros x Hx. rewrite Hc1 by done. destruct (c1' !! x) as [i|] eqn:Ex.
    + assert (Hd : x ∈ dom c1') by (apply elem_of_dom; eauto). destruct (Hnew x Hd) as [Hd1|(Hfi & Hcf & Hb)].
      * left. apply elem_of_dom in Hd1 as [j Hj]. rewrite <- Ex. symmetry.
        pose proof (lookup_weaken _ _ _ _ Hj Hs) as Hw. rewrite Hw. unfold c1 in Hj. by rewrite lookup_insert_ne in Hj.
      * destruct (c !! x) as [j|] eqn:Ecx.
        -- left. assert (c1 !! x = Some j) by (unfold c1; by rewrite lookup_insert_ne). pose proof (lookup_weaken _ _ _ _ H0 Hs). congruence.
        -- right. rewrite <- Ex. auto.
    + left. symmetry. destruct (c !! x) as [j|] eqn:Ecx; [|done].
      assert (c1 !! x = Some j) by (unfold c1; by rewrite lookup_insert_ne). pose proof (lookup_weaken _ _ _ _ H0 Hs). congruence.
Qed.

(* ------------------------------------------------------------------ a frame principle for the expression callbacks *)
Section frame.
  Context (k : rctx) (P : cstate → cstate → Prop).
  Hypothesis P_refl : ∀ st, P st st.
  Hypothesis P_trans : ∀ a b c, P a b → P b c → P a c.
  Hypothesis P_gate : ∀ st prefix t items fi rem st' r, t ∈ [Not; And; Or; Xor; Xnor] → fi ≠ [] →
    gate k st prefix t items fi rem = Ok (st', r) → P st st'.
  Definition fp {T} (cf : rctx → cstate → T → res (cstate * string)) (e : T) : Prop :=
    ∀ st st' r, cf k st e = Ok (st', r) → P st st'.
  Lemma frame_all : (∀ p, fp c_prim p) ∧ (∀ u, fp c_unary u) ∧ (∀ a, fp c_and a) ∧ (∀ x, fp c_xor x) ∧ (∀ o, fp c_or o).
  Proof.
    apply expr_mutind; unfold fp.
    - intros s st st' r H. simpl in H. injection H as <- <-. apply P_refl.
    - intros c st st' r H. simpl in H. injection H as <- <-. apply P_refl.
    - intros o IH st st' r H. simpl in H. by eapply IH.
    - intros p IH st st' r H. simpl in H. by eapply IH.
    - intros p IH st st' r H. simpl in H. apply rbind_ok in H as ([st1 r1] & H1 & H2). simpl in H2.
      eapply P_trans; [by eapply IH|]. eapply P_gate; [| |exact H2]; [set_solver|done].
    - intros u IH st st' r H. simpl in H. by eapply IH.
    - intros a IHa u IHu st st' r H. simpl in H.
      apply rbind_ok in H as ([st1 r1] & H1 & H). simpl in H. apply rbind_ok in H as ([st2 r2] & H2 & H). simpl in H.
      eapply P_trans; [by eapply IHa|]. eapply P_trans; [by eapply IHu|]. eapply P_gate; [| |exact H]; [set_solver|done].
    - intros a IH st st' r H. simpl in H. by eapply IH.
    - intros x IHx a IHa st st' r H. simpl in H.
      apply rbind_ok in H as ([st1 r1] & H1 & H). simpl in H. apply rbind_ok in H as ([st2 r2] & H2 & H). simpl in H.
      eapply P_trans; [by eapply IHx|]. case_bool_decide.
      + injection H as <- <-. by eapply IHa.
      + eapply P_trans; [by eapply IHa|]. eapply P_gate; [| |exact H]; [set_solver|done].
    - intros x IHx a IHa st st' r H. simpl in H.
      apply rbind_ok in H as ([st1 r1] & H1 & H). simpl in H. apply rbind_ok in H as ([st2 r2] & H2 & H). simpl in H.
      eapply P_trans; [by eapply IHx|]. case_bool_decide.
      + injection H as <- <-. by eapply IHa.
      + eapply P_trans; [by eapply IHa|]. eapply P_gate; [| |exact H]; [set_solver|done].
    - intros x IH st st' r H. simpl in H. by eapply IH.
    - intros o IHo x IHx st st' r H. simpl in H.
      apply rbind_ok in H as ([st1 r1] & H1 & H). simpl in H. apply rbind_ok in H as ([st2 r2] & H2 & H). simpl in H.
      eapply P_trans; [by eapply IHo|]. eapply P_trans; [by eapply IHx|]. eapply P_gate; [| |exact H]; [set_solver|done].
  Qed.
  Theorem frame_cond e st st' r : c_cond k st e = Ok (st', r) → P st st'.
  Proof.
    destruct frame_all as (_ & _ & _ & _ & Hor). destruct e as [o|s a b]; intros H.
    - simpl in H. by eapply Hor.
    - unfold c_cond in H.
      apply mbind_ok in H as ([st1 r1] & H1 & H). apply mbind_ok in H as ([st2 r2] & H2 & H).
      apply mbind_ok in H as ([st3 r3] & H3 & H). cbn [fst snd] in H.
      apply mbind_ok in H as ([gn n] & Hn & H). apply mbind_ok in H as ([ga0 a0] & Ha0 & H).
      apply mbind_ok in H as ([ga1 a1] & Ha1 & H). cbn [fst snd] in *.
      eapply P_trans; [by eapply Hor|]. eapply P_trans; [by eapply Hor|]. eapply P_trans; [by eapply Hor|].
      eapply P_trans; [eapply P_gate; [| |exact Hn]; [set_solver|done]|].
      eapply P_trans; [eapply P_gate; [| |exact Ha0]; [set_solver|done]|].
      eapply P_trans; [eapply P_gate; [| |exact Ha1]; [set_solver|done]|].
      eapply P_gate; [| |exact H]; [set_solver|done].
  Qed.
  Lemma frame_list l : ∀ st st' rs, rmapS (c_cond k) st l = Ok (st', rs) → P st st'.
  Proof.
    induction l as [|e l IH]; intros st st' rs H; simpl in H.
    - injection H as <- <-. apply P_refl.
    - apply rbind_ok in H as ([st1 r1] & H1 & H). apply rbind_ok in H as ([st2 r2] & H2 & H). simpl in *. injection H as <- <-.
      eapply P_trans; [by eapply frame_cond|by eapply IH].
  Qed.
End frame.

(* ------------------------------------------------------------------ attributes frame: which nodes keep type and output mark *)
(* fa N g g': nodes outside N keep type and mark; nodes that are new or in N are unmarked and not inputs *)
Definition fa (N : gset string) (g g' : circuit) : Prop :=
  (∀ x i, g !! x = Some i → x ∉ N → ∃ i', g' !! x = Some i' ∧ n_ty i' = n_ty i ∧ n_out i' = n_out i) ∧
  (∀ x i', g' !! x = Some i' → g !! x = None ∨ x ∈ N → n_out i' = false ∧ n_ty i' ≠ Input).
Lemma fa_refl N g : (∀ x i, g !! x = Some i → x ∈ N → n_out i = false ∧ n_ty i ≠ Input) → fa N g g.
Proof. intros HN. split; [eauto|]. intros x i' Hx [Hn|Hin]; [congruence|eauto]. Qed.
Lemma fa_refl0 g : fa ∅ g g.
Proof. apply fa_refl. set_solver. Qed.
Lemma fa_trans N1 N2 a b c : fa N1 a b → fa N2 b c → fa (N1 ∪ N2) a c.
Proof.
  intros [A1 A2] [B1 B2]. split.
  - intros x i Hx Hn. destruct (A1 x i Hx) as (j & Hj & E1 & E2); [set_solver|].
    destruct (B1 x j Hj) as (l & Hl & F1 & F2); [set_solver|]. exists l. split; [done|]. split; congruence.
  - intros x i' Hx Hor. destruct (b !! x) as [j|] eqn:Eb.
    + destruct (decide (x ∈ N2)) as [Hin|Hout]; [by eapply B2; eauto|].
      destruct (B1 x j Eb Hout) as (l & Hl & F1 & F2). assert (l = i') as -> by congruence.
      rewrite F1, F2. eapply A2; [exact Eb|]. destruct Hor as [?|Hin]; [by left|]. right. set_solver.
    + eapply B2; eauto.
Qed.
Lemma fa_sub (g g' : circuit) : g ⊆ g' → (∀ x i, g' !! x = Some i → g !! x = None → n_out i = false ∧ n_ty i ≠ Input) → fa ∅ g g'.
Proof.
  intros Hs Hn. split.
  - intros x i Hx _. exists i. split; [by eapply lookup_weaken|done].
  - intros x i' Hx [Hnone|Hin]; [eauto|set_solver].
Qed.
Lemma fa_add_g c n t fi fl g' nm : add_g c n t fi [] fl = (g', Done, nm) → af_uid fl = false → af_out fl = false → t ≠ Input →
  fa {[n]} c g'.
Proof.
  intros H Hu Ho Ht. apply add_g_gen in H as (_ & Hn & Hx); [|done]. split.
  - intros x i Hi Hne. assert (x ≠ n) by set_solver. destruct (Hx x) as [E|(E & _)]; [done| |congruence]. exists i. by rewrite E.
  - intros x i' Hi' Hor. destruct (decide (x = n)) as [->|Hne].
    + rewrite Hn in Hi'. injection Hi' as <-. simpl. by rewrite Ho.
    + destruct (Hx x Hne) as [E|(E & _ & _ & Eb)].
      * destruct Hor as [Hnone|Hin]; [congruence|set_solver].
      * rewrite Eb in Hi'. injection Hi' as <-. done.
Qed.
(* a plain add (no redefinition) creates a node *)
Lemma add_g_new c n t fi fl g' nm : add_g c n t fi [] fl = (g', Done, nm) → af_uid fl = false → af_redef fl = false → c !! n = None.
Proof.
  intros H Hu Hr. unfold add_g in H. rewrite Hu, Hr in H. simpl in H. rewrite andb_true_r in H.
  case_bool_decide as Hd; [discriminate|]. by apply not_elem_of_dom.
Qed.
Lemma fa_add_g_new c n t fi fl g' nm : add_g c n t fi [] fl = (g', Done, nm) → af_uid fl = false → af_redef fl = false →
  af_out fl = false → t ≠ Input → fa ∅ c g'.
Proof.
  intros H Hu Hr Ho Ht. pose proof (add_g_new _ _ _ _ _ _ _ H Hu Hr) as Hnew. destruct (fa_add_g _ _ _ _ _ _ _ H Hu Ho Ht) as [A1 A2]. split.
  - intros x i Hi _. apply A1; [done|]. intros ->%elem_of_singleton. congruence.
  - intros x i' Hi' [Hnone|Hin]; [|set_solver]. eapply A2; eauto.
Qed.
Lemma fa_connect c us vs c' : connect_g c us vs = (c', Done) → fa ∅ c c'.
Proof.
  unfold connect_g. intros H.
  destruct (bool_decide (us = []) || bool_decide (vs = [])); [injection H as <-; apply fa_refl0|].
  destruct (negb (forallb _ _)); [discriminate|]. destruct (negb (connect_check _ _ _)); [discriminate|]. injection H as <-.
  generalize (pairs us vs). intros l. revert c. induction l as [|p l IH]; intros c; simpl; [apply fa_refl0|].
  replace (∅ : gset string) with (∅ ∪ ∅ : gset string) by set_solver. eapply fa_trans; [|apply IH].
  split.
  - intros x i Hi _. unfold add_edge. destruct (decide (x = p.2)) as [->|Hne].
    + rewrite lookup_alter, Hi. simpl. eauto.
    + rewrite lookup_alter_ne by done. eauto.
  - intros x i' Hi' [Hnone|Hin]; [|set_solver]. unfold add_edge in Hi'. destruct (decide (x = p.2)) as [->|Hne].
    + rewrite lookup_alter, Hnone in Hi'. discriminate.
    + rewrite lookup_alter_ne in Hi' by done. congruence.
Qed.

(* add_blackbox: existing nodes keep type and mark, pins are new nodes that are no inputs *)
Definition pin_step (inst : string) (st : circuit * list string * outcome) (pt : string * gtype) : circuit * list string * outcome :=
  match st with
  | (g, io, Done) => let '(g', o, nm) := add_g g (pin inst pt.1) pt.2 [] [] af_default in
                     (g', match o with Done => nm :: io | _ => io end, o)
  | _ => st end.
Lemma pin_step_fail inst l g io e : foldl (pin_step inst) (g, io, Fail e) l = (g, io, Fail e).
Proof. induction l; simpl; auto. Qed.
Lemma pins_fa inst l : ∀ g io g' io', Forall (λ pt : string * gtype, pt.2 ≠ Input) l →
  foldl (pin_step inst) (g, io, Done) l = (g', io', Done) → fa ∅ g g'.
Proof.
  induction l as [|pt l IH]; intros g io g' io' HF H; simpl in H.
  - injection H as <- _. apply fa_refl0.
  - inversion HF as [|? ? Hpt HF']; subst.
    destruct (add_g g (pin inst pt.1) pt.2 [] [] af_default) as [[g1 o] nm] eqn:Ha. destruct o as [|e].
    + replace (∅ : gset string) with (∅ ∪ ∅ : gset string) by set_solver. eapply fa_trans; [|by eapply IH].
      by eapply fa_add_g_new.
    + rewrite pin_step_fail in H. discriminate.
Qed.
Definition conn_step (d : bbdef) (inst : string) (st : circuit * outcome) (kv : string * list string) : circuit * outcome :=
  match st with
  | (g, Done) => if bool_decide (kv.1 ∈ bb_in d) then connect_g g kv.2 [pin inst kv.1]
                 else if bool_decide (kv.1 ∈ bb_out d) then connect_g g [pin inst kv.1] kv.2 else (g, Fail ValueError)
  | _ => st end.
Lemma conn_step_fail d inst l g e : foldl (conn_step d inst) (g, Fail e) l = (g, Fail e).
Proof. induction l; simpl; auto. Qed.
Lemma conns_fa d inst l : ∀ g g', foldl (conn_step d inst) (g, Done) l = (g', Done) → fa ∅ g g'.
Proof.
  induction l as [|kv l IH]; intros g g' H; simpl in H.
  - injection H as <-. apply fa_refl0.
  - replace (∅ : gset string) with (∅ ∪ ∅ : gset string) by set_solver.
    repeat case_bool_decide.
    + destruct (connect_g g kv.2 [pin inst kv.1]) as [g1 [|e]] eqn:Hc; [|rewrite conn_step_fail in H; discriminate].
      eapply fa_trans; [by eapply fa_connect|by eapply IH].
    + destruct (connect_g g [pin inst kv.1] kv.2) as [g1 [|e]] eqn:Hc; [|rewrite conn_step_fail in H; discriminate].
      eapply fa_trans; [by eapply fa_connect|by eapply IH].
    + rewrite conn_step_fail in H. discriminate.
Qed.
Lemma fa_add_blackbox C d inst ins outs conns C' : add_blackbox C d inst ins outs conns = (C', Done) →
  fa ∅ (c_g C) (c_g C') ∧ c_bbs C' = <[inst := d]> (c_bbs C) ∧ c_bbs C !! inst = None.
Proof.
  unfold add_blackbox. case_bool_decide as Hin; [discriminate|]. cbv zeta.
  fold (pin_step inst). fold (conn_step d inst).
  destruct (foldl (pin_step inst) _ _) as [[g io] o] eqn:Hp. intros H.
  destruct o as [|e]; simpl in H.
  - destruct (foldl (conn_step d inst) (g, Done) conns) as [g2 o2] eqn:Hc. simpl in H. destruct o2 as [|[]]; try discriminate.
    injection H as <-. simpl. split; [|split; [done|by apply not_elem_of_dom]].
    replace (∅ : gset string) with (∅ ∪ ∅ : gset string) by set_solver. eapply fa_trans; [|by eapply conns_fa].
    eapply pins_fa; [|exact Hp]. apply Forall_app. split; apply Forall_fmap, Forall_forall; intros; simpl; done.
  - destruct e; discriminate.
Qed.

Lemma fa_relabel (c : circuit) old new :
  (∀ io, c !! old = Some io → n_out io = false ∧ n_ty io ≠ Input) →
  ∃ N : gset string, N ⊆ {[old; new]} ∧ fa N c (relabel_g c old new).
Proof.
  intros Hio. unfold relabel_g. destruct (c !! old) as [io|] eqn:Eo; [|exists ∅; split; [set_solver|apply fa_refl0]].
  case_bool_decide as Heq; [exists ∅; split; [set_solver|apply fa_refl0]|].
  destruct (Hio io eq_refl) as [Ho Ht]. exists {[old; new]}. split; [done|]. split.
  - intros x i Hi Hn. assert (x ≠ old ∧ x ≠ new) as [H1 H2] by set_solver.
    rewrite lookup_insert_ne by done. rewrite lookup_fmap, lookup_delete_ne by done. rewrite Hi. simpl. eauto.
  - intros x i' Hi' Hor. destruct (decide (x = new)) as [->|Hne].
    + rewrite lookup_insert in Hi'. injection Hi' as <-. done.
    + rewrite lookup_insert_ne in Hi' by done. rewrite lookup_fmap in Hi'.
      destruct (decide (x = old)) as [->|Hne2]; [by rewrite lookup_delete in Hi'|].
      rewrite lookup_delete_ne in Hi' by done. destruct (c !! x) eqn:E; [|discriminate]. destruct Hor as [?|?]; [congruence|set_solver].
Qed.

Section io.
  Context (k : rctx) (D : gset string).
  Hypothesis HD : D ⊆ k_rsv k.

  Record ioinv (g : circuit) (ge ins : gset string) : Prop := mk_ioinv {
    io_out : ∀ n i, g !! n = Some i → n_out i = false;
    io_in1 : ∀ n i, g !! n = Some i → n_ty i = Input → n ∈ ins;
    io_in3 : ∀ n, n ∈ ins → ∃ i, g !! n = Some i ∧ n_ty i = Input;
    io_ge : ge ## k_rsv k;
    io_ins : ins ⊆ D }.

  Lemma fa_inv N g g' ge ins : fa N g g' → N ## D → ioinv g ge ins → ioinv g' ge ins.
  Proof.
    intros [A1 A2] HN [I0 I1 I3 Ig Ii]. split; [| | |done|done].
    - intros n i' Hn. destruct (g !! n) as [i|] eqn:E.
      + destruct (decide (n ∈ N)) as [Hin|Hout]; [by eapply A2; eauto|].
        destruct (A1 n i E Hout) as (j & Hj & _ & Eo). assert (j = i') as -> by congruence. rewrite Eo. eauto.
      + eapply A2; eauto.
    - intros n i' Hn Hty. destruct (g !! n) as [i|] eqn:E.
      + destruct (decide (n ∈ N)) as [Hin|Hout]; [by destruct (A2 n i' Hn (or_intror Hin))|].
        destruct (A1 n i E Hout) as (j & Hj & Et & _). assert (j = i') as -> by congruence. eapply I1; [done|congruence].
      + by destruct (A2 n i' Hn (or_introl E)).
    - intros n Hn. destruct (I3 n Hn) as (i & Hi & Ht). destruct (A1 n i Hi) as (j & Hj & Et & _); [set_solver|].
      exists j. split; [done|congruence].
  Qed.
  Lemma ge_inv g ge ge' ins : ge' ## k_rsv k → ioinv g ge ins → ioinv g ge' ins.
  Proof. intros H [? ? ? ? ?]. by split. Qed.

  Definition fr (st st' : cstate) : Prop := fa ∅ st.1 st'.1 ∧ (st.2 ## k_rsv k → st'.2 ## k_rsv k).
  Lemma fr_refl st : fr st st.
  Proof. split; [apply fa_refl0|done]. Qed.
  Lemma fr_trans a b c : fr a b → fr b c → fr a c.
  Proof. intros [A1 A2] [B1 B2]. split; [|auto]. replace (∅ : gset string) with (∅ ∪ ∅ : gset string) by set_solver. by eapply fa_trans. Qed.
  Lemma fr_gate s prefix t items fi rem s' r' : t ∈ [Not; And; Or; Xor; Xnor] → fi ≠ [] →
    gate k s prefix t items fi rem = Ok (s', r') → fr s s'.
  Proof.
    intros Ht Hfi H. apply gate_spec in H as (Hs & Hl & Hnd & Hnr & Hnew & Hge); [|done]. split.
    - apply fa_sub; [done|]. intros x i Hx Hnone. assert (Hd : x ∈ dom s'.1) by (apply elem_of_dom; eauto).
      destruct (Hnew x Hd) as [Hd'|[->|[_ Hb]]].
      + apply elem_of_dom in Hd' as [? ?]. congruence.
      + rewrite Hl in Hx. injection Hx as <-. simpl. split; [done|]. intros ->. set_solver.
      + rewrite Hb in Hx. injection Hx as <-. done.
    - intros Hd. set_solver.
  Qed.
  Lemma fr_cond e st st' r : c_cond k st e = Ok (st', r) → fr st st'.
  Proof. apply (frame_cond k fr fr_refl fr_trans fr_gate). Qed.
  Lemma fr_list l st st' rs : rmapS (c_cond k) st l = Ok (st', rs) → fr st st'.
  Proof. apply (frame_list k fr fr_refl fr_trans fr_gate). Qed.
  Lemma fr_inv st st' ins : fr st st' → ioinv st.1 st.2 ins → ioinv st'.1 st'.2 ins.
  Proof. intros [Hf Hg] Hi. eapply ge_inv; [apply Hg, Hi|]. eapply fa_inv; [exact Hf|set_solver|done]. Qed.

  Lemma add_node_inv g ge ins n t fi g' nm : add_node (k_rsv k) g n t fi false = Ok (g', nm) → t ≠ Input → n ∉ D →
    ioinv g ge ins → ioinv g' ge ins.
  Proof.
    unfold add_node, lift. intros H Ht Hn Hi. destruct (add_g g n t fi [] rd_flags) as [[g2 o] nm2] eqn:Ha.
    destruct o; [|discriminate]. injection H as <- <-.
    eapply fa_inv; [by eapply fa_add_g|set_solver|done].
  Qed.
  Lemma add_input_inv g ge ins n g' nm : add_node (k_rsv k) g n Input [] false = Ok (g', nm) → n ∈ D →
    ioinv g ge ins → ioinv g' ge ({[n]} ∪ ins).
  Proof.
    unfold add_node, lift. intros H Hn [I0 I1 I3 Ig Ii]. destruct (add_g g n Input [] [] rd_flags) as [[g2 o] nm2] eqn:Ha.
    destruct o; [|discriminate]. injection H as <- <-.
    apply add_g_gen in Ha as (_ & Hl & Hx); [|done]. split; [| | |done|set_solver].
    - intros x i Hi. destruct (decide (x = n)) as [->|Hne]; [rewrite Hl in Hi; by injection Hi as <-|].
      destruct (Hx x Hne) as [E|(_ & Hf & _)]; [rewrite E in Hi; eauto|by apply elem_of_nil in Hf].
    - intros x i Hi Hty. destruct (decide (x = n)) as [->|Hne]; [set_solver|].
      destruct (Hx x Hne) as [E|(_ & Hf & _)]; [|by apply elem_of_nil in Hf]. rewrite E in Hi. apply elem_of_union_r. eauto.
    - intros x [->%elem_of_singleton|Hin]%elem_of_union; [eauto|].
      destruct (decide (x = n)) as [->|Hne]; [eauto|]. destruct (I3 x Hin) as (i & Hi & Ht).
      destruct (Hx x Hne) as [E|(E & _)]; [|congruence]. exists i. by rewrite E.
  Qed.
  Lemma inputs_inv ns : ∀ g ge ins g', rfold (λ g n, r ← add_node (k_rsv k) g n Input [] false; Ok r.1) g ns = Ok g' →
    (∀ n, n ∈ ns → n ∈ D) → ioinv g ge ins → ioinv g' ge (ins ∪ list_to_set ns).
  Proof.
    induction ns as [|n ns IH]; intros g ge ins g' H HDn Hi; simpl in H.
    - injection H as <-. replace (ins ∪ list_to_set []) with ins by set_solver. done.
    - apply rbind_ok in H as (g1 & H1 & H2). apply mbind_ok in H1 as ([g1' nm] & H1 & E). injection E as <-. simpl in *.
      eapply add_input_inv in H1; [|set_solver|exact Hi]. eapply IH in H2; [|set_solver|exact H1].
      match goal with |- ioinv _ _ ?S => replace S with ({[n]} ∪ ins ∪ list_to_set ns) by set_solver end. done.
  Qed.

  Lemma assignment_inv st lv e st' ins : assignment k st lv e = Ok st' → lv ∉ D → ioinv st.1 st.2 ins → ioinv st'.1 st'.2 ins.
  Proof.
    unfold assignment. intros H Hlv Hi. case_bool_decide; [by injection H as <-|]. case_bool_decide as Hge.
    - injection H as <-. simpl. destruct Hi as [I0 I1 I3 Ig Ii].
      assert (He : e ∉ k_rsv k) by set_solver.
      destruct (fa_relabel st.1 e lv) as (N & HN & Hfa).
      { intros io Hio. split; [eauto|]. intros Hty. apply He, HD, Ii. eauto. }
      eapply ge_inv; [set_solver|]. eapply fa_inv; [exact Hfa| |by split]. set_solver.
    - apply mbind_ok in H as ([g' nm] & H1 & E). injection E as <-. simpl. eapply add_node_inv; eauto.
  Qed.
  Lemma c_assign_inv st a st' ins : c_assign k st a = Ok st' → a.1 ∉ D → ioinv st.1 st.2 ins → ioinv st'.1 st'.2 ins.
  Proof.
    unfold c_assign. intros H Hlv Hi. apply mbind_ok in H as ([st1 r] & H1 & H2). simpl in H2.
    eapply assignment_inv; [exact H2|done|]. eapply fr_inv; [by eapply fr_cond|done].
  Qed.
  Lemma assigns_inv l : ∀ st st' ins, rfold (c_assign k) st l = Ok st' → (∀ lv, lv ∈ l.*1 → lv ∉ D) →
    ioinv st.1 st.2 ins → ioinv st'.1 st'.2 ins.
  Proof.
    induction l as [|a l IH]; intros st st' ins H Hl Hi; simpl in H; [by injection H as <-|].
    apply rbind_ok in H as (st1 & H1 & H2). eapply IH; [exact H2|intros; apply Hl; set_solver|].
    eapply c_assign_inv; [exact H1|apply Hl; set_solver|done].
  Qed.

  (* ---- instances ---- *)
  Lemma prim_not_input mn t : prim_of_name mn = Some t → t ≠ Input.
  Proof. unfold prim_of_name. repeat case_bool_decide; intros Hq; inversion Hq; done. Qed.
  Definition good_prim (ic : string * conns) : Prop := ∃ n rest, ic.2 = Positional (cid n :: rest) ∧ n ∉ D.
  Definition good_cprim (cc : string * cconns) : Prop := ∃ n rs, cc.2 = CPos (n :: rs) ∧ n ∉ D.
  Definition inst_step (s : cstate) (ic : string * conns) : res (cstate * (string * cconns)) :=
    x ← c_conns k s ic.2; Ok (x.1, (ic.1, x.2)).
  Lemma inst_step_prim st ic st' cc : inst_step st ic = Ok (st', cc) → good_prim ic → fr st st' ∧ good_cprim cc.
  Proof.
    unfold inst_step. intros H (n & rest & E & Hn). apply mbind_ok in H as ([st1 c1] & H1 & H2). injection H2 as <- <-.
    rewrite E in H1. unfold c_conns in H1. apply mbind_ok in H1 as ([st2 rs] & H1 & H2). injection H2 as <- <-. simpl.
    split; [by eapply fr_list|]. change (rmapS (c_cond k) st (cid n :: rest)) with
      (rbind (c_cond k st (cid n)) (λ x, rbind (rmapS (c_cond k) x.1 rest) (λ y, Ok (y.1, x.2 :: y.2)))) in H1.
    change (c_cond k st (cid n)) with (Ok (st, n) : res (cstate * string)) in H1. simpl in H1.
    apply rbind_ok in H1 as ([st3 rs3] & H3 & H4). injection H4 as <- <-. exists n, rs3. done.
  Qed.
  Lemma insts_compile (Q : string * conns → Prop) (R : string * cconns → Prop) :
    (∀ st ic st' cc, inst_step st ic = Ok (st', cc) → Q ic → fr st st' ∧ R cc) →
    ∀ insts st st' cl, rmapS inst_step st insts = Ok (st', cl) → Forall Q insts → fr st st' ∧ Forall R cl.
  Proof.
    intros Hstep. induction insts as [|ic insts IH]; intros st st' cl H HQ; simpl in H.
    - injection H as <- <-. split; [apply fr_refl|constructor].
    - inversion HQ as [|? ? Hq HQ']; subst. apply rbind_ok in H as ([st1 c1] & H1 & H). apply rbind_ok in H as ([st2 c2] & H2' & H). simpl in *.
      injection H as <- <-. destruct (Hstep _ _ _ _ H1) as [F1 R1]; [done|]. destruct (IH _ _ _ H2') as [F2 R2]; [done|].
      split; [by eapply fr_trans|by constructor].
  Qed.
  Lemma prim_instance_inv t g ic g' ge ins : prim_instance k t g ic = Ok g' → good_cprim ic → t ≠ Input →
    ioinv g ge ins → ioinv g' ge ins.
  Proof.
    unfold prim_instance. intros H (n & rs & E & Hn) Ht Hi. rewrite E in H.
    destruct (if bool_decide (t = Xor) || bool_decide (t = Xnor) then _ else _) as [t' fi] eqn:Et.
    apply mbind_ok in H as ([g1 nm] & H1 & H2). injection H2 as <-. simpl.
    eapply add_node_inv; [exact H1| |done|done].
    destruct (bool_decide (t = Xor) || bool_decide (t = Xnor)); [destruct (parity_ops rs)|]; injection Et as <- <-; done.
  Qed.
  Lemma prims_inv t cl : ∀ g g' ge ins, rfold (prim_instance k t) g cl = Ok g' → Forall good_cprim cl → t ≠ Input →
    ioinv g ge ins → ioinv g' ge ins.
  Proof.
    induction cl as [|c cl IH]; intros g g' ge ins H HF Ht Hi; simpl in H; [by injection H as <-|].
    inversion HF as [|? ? Hc HF']; subst. apply rbind_ok in H as (g1 & H1 & H2). eapply IH; [exact H2|done|done|]. by eapply prim_instance_inv.
  Qed.

  (* ---- blackbox instances ---- *)
  Lemma elem_of_dict_set d key v kv : kv ∈ dict_set d key v → kv ∈ d ∨ kv = (key, v).
  Proof.
    induction d as [|[k' v'] d IH]; simpl.
    - intros ->%elem_of_list_singleton. by right.
    - case_bool_decide.
      + intros [->|?]%elem_of_cons; [by right|left; by right].
      + intros [->|Hin]%elem_of_cons; [left; by left|]. destruct (IH Hin) as [?|?]; [left; by right|by right].
  Qed.
  Lemma dict_get_elem d key v : dict_get d key = Some v → (key, v) ∈ d.
  Proof.
    unfold dict_get. destruct (list_find _ d) as [[i [k' v']]|] eqn:E; [|discriminate]. simpl. intros [= <-].
    apply list_find_Some in E as (Hl & Hk & _). simpl in Hk. subst k'. by eapply elem_of_list_lookup_2.
  Qed.
  Definition good_bb (d : bbdef) (ic : string * conns) : Prop :=
    ∃ ps, ic.2 = Named ps ∧ ∀ pc : string * option cond, pc ∈ ps → pc.1 ∈ bb_out d → pc.2 = None ∨ ∃ w, pc.2 = Some (cid w) ∧ w ∉ D.
  Definition good_dict (d : bbdef) (conns : list (string * string)) : Prop := ∀ kv : string * string, kv ∈ conns → kv.1 ∈ bb_out d → kv.2 ∉ D.
  Definition good_cbb (d : bbdef) (cc : string * cconns) : Prop := ∃ conns, cc.2 = CNamed conns ∧ good_dict d conns.
  Definition named_step (s : cstate) (p : string * option cond) : res (cstate * option (string * string)) :=
    match p.2 with None => Ok (s, None) | Some e => x ← c_cond k s e; Ok (x.1, Some (p.1, x.2)) end.
  Lemma named_compile d ps : ∀ st st' os, rmapS named_step st ps = Ok (st', os) →
    (∀ pc : string * option cond, pc ∈ ps → pc.1 ∈ bb_out d → pc.2 = None ∨ ∃ w, pc.2 = Some (cid w) ∧ w ∉ D) →
    fr st st' ∧ Forall (λ o : option (string * string), ∀ kv, o = Some kv → kv.1 ∈ bb_out d → kv.2 ∉ D) os.
  Proof.
    induction ps as [|p ps IH]; intros st st' os H Hg; simpl in H.
    - injection H as <- <-. split; [apply fr_refl|constructor].
    - apply rbind_ok in H as ([st1 o1] & H1 & H). apply rbind_ok in H as ([st2 o2] & H2 & H). simpl in *. injection H as <- <-.
      destruct (IH _ _ _ H2) as [F2 R2]; [intros; apply Hg; [by right|done]|].
      unfold named_step in H1. destruct p as [pn [e|]]; simpl in H1.
      + apply mbind_ok in H1 as ([st3 r] & H3 & H4). injection H4 as <- <-. split; [eapply fr_trans; [by eapply fr_cond|done]|].
        constructor; [|done]. intros kv [= <-] Hout. simpl in *.
        destruct (Hg (pn, Some e)) as [?|(w & Ew & Hw)]; [by left|done|done|]. simpl in Ew. injection Ew as ->.
        change (c_cond k st (cid w)) with (Ok (st, w) : res (cstate * string)) in H3. by injection H3 as <- <-.
      + injection H1 as <- <-. split; [done|]. constructor; [|done]. intros kv [=].
  Qed.
  Lemma dict_fold_good d os : ∀ d0, good_dict d d0 →
    Forall (λ o : option (string * string), ∀ kv, o = Some kv → kv.1 ∈ bb_out d → kv.2 ∉ D) os →
    good_dict d (foldl (λ dd o, match o with Some kv => dict_set dd kv.1 kv.2 | None => dd end) d0 os).
  Proof.
    induction os as [|o os IH]; intros d0 H0 HF; simpl; [done|]. inversion HF as [|? ? Ho HF']; subst. apply IH; [|done].
    destruct o as [[key v]|]; [|done]. intros kv [Hin| ->]%elem_of_dict_set; [by apply H0|]. by apply (Ho (key, v)).
  Qed.
  Lemma inst_step_bb d st ic st' cc : inst_step st ic = Ok (st', cc) → good_bb d ic → fr st st' ∧ good_cbb d cc.
  Proof.
    unfold inst_step. intros H (ps & E & Hg). apply mbind_ok in H as ([st1 c1] & H1 & H2). injection H2 as <- <-.
    rewrite E in H1. unfold c_conns in H1. fold named_step in H1. apply mbind_ok in H1 as ([st2 os] & H1 & H2). injection H2 as <- <-.
    destruct (named_compile d _ _ _ _ H1 Hg) as [F R]. split; [done|]. eexists. split; [done|]. simpl.
    apply dict_fold_good; [|done]. intros kv Hin. by apply elem_of_nil in Hin.
  Qed.
  Lemma bb_instance_inv d gb ic gb' ge ins : bb_instance k d gb ic = Ok gb' → good_cbb d ic →
    ioinv gb.1 ge ins → ioinv gb'.1 ge ins.
  Proof.
    unfold bb_instance. intros H (conns & E & Hgd) Hi. rewrite E in H.
    apply mbind_ok in H as (g1 & H1 & H). apply mbind_ok in H as (g2 & H2 & H).
    assert (Hi1 : ioinv g1 ge ins).
    { clear H H2. revert H1 Hi. generalize gb.1. assert (Hel : ∀ o, o ∈ elements (bb_out d) → o ∈ bb_out d) by (intros; by apply elem_of_elements).
      revert Hel. generalize (elements (bb_out d)). intros l. induction l as [|o l IH]; intros Hel g H1 Hi; simpl in H1; [by injection H1 as <-|].
      apply rbind_ok in H1 as (g' & Ha & Hb). eapply IH; [intros; apply Hel; by right|exact Hb|].
      destruct (dict_get conns o) as [net|] eqn:Eg; [|by injection Ha as <-].
      apply mbind_ok in Ha as ([g'' nm] & Ha & E'). injection E' as <-. simpl. eapply add_node_inv; [exact Ha|done| |done].
      apply dict_get_elem in Eg. apply (Hgd (o, net) Eg). apply Hel. by left. }
    assert (Hi2 : ioinv g2 ge ins).
    { clear H H1. revert g1 H2 Hi1. generalize conns at 1. intros l. induction l as [|kv l IH]; intros g H2 Hi1; simpl in H2; [by injection H2 as <-|].
      apply rbind_ok in H2 as (g' & Ha & Hb). eapply IH; [exact Hb|]. case_bool_decide; [by injection Ha as <-|].
      destruct (add_g g kv.2 Buf [] [] af_default) as [[g'' o] nm] eqn:Eg. destruct o; [|discriminate]. injection Ha as <-.
      eapply fa_inv; [by eapply fa_add_g_new|set_solver|done]. }
    destruct (add_blackbox _ _ _ _ _ _) as [C' o] eqn:Eb. destruct o; [|discriminate]. injection H as <-. simpl.
    apply fa_add_blackbox in Eb as (Hfa & _). simpl in Hfa. eapply fa_inv; [exact Hfa|set_solver|done].
  Qed.
  Lemma bbs_inv d cl : ∀ gb gb' ge ins, rfold (bb_instance k d) gb cl = Ok gb' → Forall (good_cbb d) cl →
    ioinv gb.1 ge ins → ioinv gb'.1 ge ins.
  Proof.
    induction cl as [|c cl IH]; intros gb gb' ge ins H HF Hi; simpl in H; [by injection H as <-|].
    inversion HF as [|? ? Hc HF']; subst. apply rbind_ok in H as (g1 & H1 & H2). eapply IH; [exact H2|done|]. by eapply bb_instance_inv.
  Qed.

  (* ---- one module item ---- *)
  Definition item_ok (it : item) : Prop :=
    match it with
    | IInput ns => ∀ n, n ∈ ns → n ∈ D
    | IAssign l => ∀ lv, lv ∈ l.*1 → lv ∉ D
    | IInst mn insts =>
        match prim_of_name mn with
        | Some _ => Forall good_prim insts
        | None => ∀ d, find_def (k_bbs k) mn = Some d → Forall (good_bb d) insts
        end
    | _ => True end.
  Lemma c_item_inv st it st' : c_item k st it = Ok st' → item_ok it →
    ioinv (r_g st) (r_ge st) (r_ins st) → ioinv (r_g st') (r_ge st') (r_ins st').
  Proof.
    destruct it as [ns|ns|ns|mn insts|l]; simpl; intros H Hok Hi.
    - apply mbind_ok in H as (g & H1 & H). injection H as <-. simpl. by eapply inputs_inv.
    - by injection H as <-.
    - by injection H as <-.
    - fold inst_step in H. apply mbind_ok in H as ([st1 cl] & H1 & H). cbn [fst snd] in H.
      destruct (prim_of_name mn) as [t|] eqn:Ep.
      + apply mbind_ok in H as (g & H2 & H). injection H as <-. simpl.
        destruct (insts_compile good_prim good_cprim inst_step_prim _ _ _ _ H1 Hok) as [F R].
        eapply prims_inv; [exact H2|done|by eapply prim_not_input|]. simpl. by eapply (fr_inv (r_g st, r_ge st) st1).
      + unfold find_bb in H. destruct (find_def (k_bbs k) mn) as [d|] eqn:Ed; [|discriminate].
        apply mbind_ok in H as (x & H2 & H). injection H as <-. simpl.
        destruct (insts_compile (good_bb d) (good_cbb d) (inst_step_bb d) _ _ _ _ H1 (Hok d eq_refl)) as [F R].
        eapply (bbs_inv d cl (st1.1, r_bbs st) x); [exact H2|done|]. simpl. by eapply (fr_inv (r_g st, r_ge st) st1).
    - apply mbind_ok in H as (r & H1 & H). injection H as <-. simpl. by eapply (assigns_inv l (r_g st, r_ge st) r).
  Qed.
  Lemma items_inv items : ∀ st st', rfold (c_item k) st items = Ok st' → Forall item_ok items →
    ioinv (r_g st) (r_ge st) (r_ins st) → ioinv (r_g st') (r_ge st') (r_ins st').
  Proof.
    induction items as [|it items IH]; intros st st' H HF Hi; simpl in H; [by injection H as <-|].
    inversion HF as [|? ? Hc HF']; subst. apply rbind_ok in H as (st1 & H1 & H2). eapply IH; [exact H2|done|]. by eapply c_item_inv.
  Qed.
End io.

(* ------------------------------------------------------------------ module(): output marking and removal of unused constants *)
Definition out_step (b : bool) (st : circuit * outcome) (n : string) : circuit * outcome :=
  match st with
  | (c', Done) => match c' !! n with Some i => (<[n := set_out b i]> c', Done) | None => (c', Fail KeyError) end
  | _ => st end.
Lemma out_step_fail b l g e : foldl (out_step b) (g, Fail e) l = (g, Fail e).
Proof. induction l; simpl; auto. Qed.
Lemma set_output_spec l : ∀ g g', set_output_g g l true = (g', Done) →
  (∀ x, x ∈ l → x ∈ dom g) ∧
  ∀ x, g' !! x = (λ i, if bool_decide (x ∈ l) then set_out true i else i) <$> g !! x.
Proof.
  unfold set_output_g. fold (out_step true). induction l as [|n l IH]; intros g g' H; simpl in H.
  - injection H as <-. split; [intros x Hx; by apply elem_of_nil in Hx|]. intros x. destruct (g !! x); simpl; done.
  - destruct (g !! n) as [i|] eqn:En; [|rewrite out_step_fail in H; discriminate].
    destruct (IH _ _ H) as [Hd Hl]. split.
    + intros x [->|Hx]%elem_of_cons; [apply elem_of_dom; eauto|]. specialize (Hd x Hx). rewrite dom_insert in Hd.
      apply elem_of_union in Hd as [->%elem_of_singleton|?]; [apply elem_of_dom; eauto|done].
    + intros x. rewrite Hl. destruct (decide (x = n)) as [->|Hne].
      * rewrite lookup_insert, En. simpl. rewrite (bool_decide_eq_true_2 (n ∈ n :: l)) by (by left).
        case_bool_decide; by destruct i.
      * rewrite lookup_insert_ne by done. destruct (g !! x); simpl; [|done].
        destruct (decide (x ∈ l)); [rewrite !bool_decide_eq_true_2; [done|by right|done]|].
        rewrite !bool_decide_eq_false_2; [done| |done]. intros [?|?]%elem_of_cons; done.
Qed.
Definition attr (o : option ninfo) : option (gtype * bool) := (λ i, (n_ty i, n_out i)) <$> o.
Lemma remove_attr (g : circuit) t x : attr (remove_g g [t] !! x) = if bool_decide (x = t) then None else attr (g !! x).
Proof.
  unfold remove_g, attr. rewrite lookup_fmap. case_bool_decide as Hx.
  - subst. rewrite map_filter_lookup_None_2; [done|]. right. intros i _. simpl. set_solver.
  - destruct (g !! x) as [i|] eqn:E.
    + rewrite (map_filter_lookup_Some_2 _ _ _ i); [done|done|]. simpl. set_solver.
    + rewrite map_filter_lookup_None_2; [done|by left].
Qed.
Definition drop_tie (g : circuit) (t : string) : circuit := if bool_decide (fanout g t = ∅) then remove_g g [t] else g.
Lemma drop_attr g t x : x ≠ t → attr (drop_tie g t !! x) = attr (g !! x).
Proof. intros Hx. unfold drop_tie. case_bool_decide; [|done]. rewrite remove_attr. by rewrite bool_decide_eq_false_2. Qed.
Lemma drop_attr_t g t x : attr (drop_tie g t !! x) = None ∨ attr (drop_tie g t !! x) = attr (g !! x).
Proof. unfold drop_tie. case_bool_decide; [|by right]. rewrite remove_attr. case_bool_decide; auto. Qed.

Lemma finish_io k D name st C : finish k name st = Ok C → D ⊆ k_rsv k →
  ioinv k D (r_g st) (r_ge st) (r_ins st) → r_outs st ⊆ k_rsv k →
  k_t0 k ∉ k_rsv k → k_t1 k ∉ k_rsv k → k_tx k ∉ k_rsv k →
  inputs (c_g C) = r_ins st ∧ outputs (c_g C) = r_outs st.
Proof.
  unfold finish. intros H HD [I0 I1 I3 Ig Ii] Ho H0 H1 Hx. repeat (case_bool_decide; simpl in H; try discriminate).
  destruct (set_output_g (r_g st) (elements (r_outs st)) true) as [g' o] eqn:Es. destruct o; [|discriminate].
  injection H as <-. simpl. fold (drop_tie g' (k_t0 k)). fold (drop_tie (drop_tie g' (k_t0 k)) (k_t1 k)).
  fold (drop_tie (drop_tie (drop_tie g' (k_t0 k)) (k_t1 k)) (k_tx k)).
  set (gf := drop_tie (drop_tie (drop_tie g' (k_t0 k)) (k_t1 k)) (k_tx k)).
  apply set_output_spec in Es as [Hd Hl].
  assert (Ha : ∀ x, x ∈ k_rsv k → attr (gf !! x) = attr (g' !! x)).
  { intros x Hr. unfold gf. rewrite !drop_attr; [done| | |]; intros ->; done. }
  assert (Hb : ∀ x, attr (gf !! x) = None ∨ attr (gf !! x) = attr (g' !! x)).
  { intros x. unfold gf. destruct (drop_attr_t (drop_tie (drop_tie g' (k_t0 k)) (k_t1 k)) (k_tx k) x) as [?|E]; [by left|]. rewrite E.
    destruct (drop_attr_t (drop_tie g' (k_t0 k)) (k_t1 k) x) as [?|E2]; [by left|]. rewrite E2. apply drop_attr_t. }
  assert (Hg' : ∀ x, attr (g' !! x) = (λ i, (n_ty i, bool_decide (x ∈ r_outs st))) <$> r_g st !! x).
  { intros x. rewrite Hl. unfold attr. destruct (r_g st !! x) as [i|] eqn:E; simpl; [|done].
    destruct (decide (x ∈ r_outs st)) as [Hin|Hout].
    - rewrite (bool_decide_eq_true_2 (x ∈ elements _)) by (by apply elem_of_elements). rewrite bool_decide_eq_true_2 by done. done.
    - rewrite (bool_decide_eq_false_2 (x ∈ elements _)) by (by rewrite elem_of_elements). rewrite bool_decide_eq_false_2 by done.
      by rewrite (I0 _ _ E). }
  split; apply set_eq; intros x.
  - rewrite elem_of_inputs. split.
    + intros (i & Hi & Ht). destruct (Hb x) as [E|E]; unfold attr in E at 1; rewrite Hi in E; simpl in E; [discriminate|].
      rewrite Hg' in E. destruct (r_g st !! x) as [j|] eqn:Ej; simpl in E; [|discriminate]. injection E as E1 E2.
      eapply I1; [done|congruence].
    + intros Hin. destruct (I3 x Hin) as (j & Hj & Ht). specialize (Ha x (HD _ (Ii _ Hin))). rewrite Hg', Hj in Ha. simpl in Ha.
      unfold attr in Ha. destruct (gf !! x) as [i|]; simpl in Ha; [|discriminate]. injection Ha as E1 E2. exists i. split; [done|congruence].
  - rewrite elem_of_outputs. split.
    + intros (i & Hi & Ht). destruct (Hb x) as [E|E]; unfold attr in E at 1; rewrite Hi in E; simpl in E; [discriminate|].
      rewrite Hg' in E. destruct (r_g st !! x) as [j|] eqn:Ej; simpl in E; [|discriminate]. injection E as E1 E2.
      rewrite Ht in E2. symmetry in E2. by apply bool_decide_eq_true in E2.
    + intros Hin. assert (Hdx : x ∈ dom (r_g st)) by (apply Hd; by apply elem_of_elements).
      apply elem_of_dom in Hdx as [j Hj]. specialize (Ha x (Ho _ Hin)). rewrite Hg', Hj in Ha. simpl in Ha.
      unfold attr in Ha. destruct (gf !! x) as [i|]; simpl in Ha; [|discriminate]. injection Ha as E1 E2. exists i. split; [done|].
      rewrite E2. by apply bool_decide_eq_true.
Qed.

(* ------------------------------------------------------------------ read_io *)
Lemma init_ctx_spec rsv bbs : let kg := init_ctx rsv bbs in
  k_rsv kg.1 = rsv ∧ k_bbs kg.1 = bbs ∧ k_t0 kg.1 ∉ rsv ∧ k_t1 kg.1 ∉ rsv ∧ k_tx kg.1 ∉ rsv ∧
  ∀ n i, kg.2 !! n = Some i → n_out i = false ∧ n_ty i ≠ Input.
Proof.
  unfold init_ctx. cbv zeta. simpl. split; [done|]. split; [done|].
  split; [apply uid_in_fresh|]. split; [pose proof (uid_in_fresh (dom ({[uid_in rsv "tie_0" := mk_node C0 false ∅]} : circuit) ∪ rsv) "tie_1"); set_solver|].
  split.
  { match goal with |- uid_in ?U _ ∉ _ => pose proof (uid_in_fresh U "tie_x") end. set_solver. }
  intros n i Hn. repeat (apply lookup_insert_Some in Hn as [[_ <-]|[_ Hn]]; [done|]).
  apply lookup_singleton_Some in Hn as [_ <-]. done.
Qed.

Theorem read_io_items rsv bbs m C :
  Forall (item_ok (init_ctx rsv bbs).1 (list_to_set (decl_inputs m))) (m_items m) →
  (list_to_set (module_ids m) : gset string) ⊆ rsv → read rsv bbs m = Ok C →
  inputs (c_g C) = list_to_set (decl_inputs m) ∧ outputs (c_g C) = list_to_set (decl_outputs m).
Proof.
  intros Hok Hids H. unfold read in H. pose proof (init_ctx_spec rsv bbs) as Hk. cbv zeta in Hk.
  destruct (init_ctx rsv bbs) as [k g0]. simpl in Hk, Hok. destruct Hk as (Er & Eb & H0 & H1 & Hx & Hg0). subst rsv.
  apply mbind_ok in H as (st & Hf & Hfin).
  set (D := list_to_set (decl_inputs m) : gset string) in *.
  assert (HDr : D ⊆ k_rsv k).
  { intros x Hx'. apply Hids. unfold D in Hx'. rewrite elem_of_list_to_set in Hx'. unfold decl_inputs in Hx'.
    apply elem_of_list_bind in Hx' as (it & Hin & Hit). rewrite elem_of_list_to_set. unfold module_ids. right. apply elem_of_app. right.
    apply elem_of_list_bind. exists it. split; [|done]. destruct it; try (by apply elem_of_nil in Hin); done. }
  assert (HOr : (list_to_set (decl_outputs m) : gset string) ⊆ k_rsv k).
  { intros x Hx'. apply Hids. rewrite elem_of_list_to_set in Hx'. unfold decl_outputs in Hx'.
    apply elem_of_list_bind in Hx' as (it & Hin & Hit). rewrite elem_of_list_to_set. unfold module_ids. right. apply elem_of_app. right.
    apply elem_of_list_bind. exists it. split; [|done]. destruct it; try (by apply elem_of_nil in Hin); done. }
  pose proof (items_sets _ _ _ _ Hf) as (E1 & E2 & E3). simpl in E1, E2, E3.
  eapply (items_inv k D HDr) in Hf; [|done|].
  - eapply finish_io in Hfin; [| exact HDr | exact Hf | | done | done | done].
    + destruct Hfin as [-> ->]. rewrite E2, E3. split; set_solver.
    + rewrite E3. set_solver.
  - simpl. split; [intros n i Hn; by destruct (Hg0 n i Hn)| |set_solver|set_solver|set_solver].
    intros n i Hn Ht. by destruct (Hg0 n i Hn).
Qed.

(* ------------------------------------------------------------------ from the boolean guard of the oracle *)
Lemma as_id_cid c n : as_id c = Some n → c = cid n.
Proof.
  unfold as_id, cid. intros H. repeat (match type of H with match ?x with _ => _ end = _ => destruct x; try discriminate end).
  by injection H as ->.
Qed.

Lemma in_subset_items rsv bbs m : in_subset bbs m = true →
  Forall (item_ok (init_ctx rsv bbs).1 (list_to_set (decl_inputs m))) (m_items m).
Proof.
  unfold in_subset. rewrite !andb_true_iff. intros ((((((Hsh & _) & _) & Hdef) & _) & _) & _).
  rewrite forallb_forall in Hsh. rewrite forallb_forall in Hdef.
  assert (Hnd : ∀ it n, it ∈ m_items m → n ∈ item_defs bbs it → n ∉ (list_to_set (decl_inputs m) : gset string)).
  { intros it n Hit Hn. assert (Hin : n ∈ module_defs bbs m) by (apply elem_of_list_bind; eauto).
    apply elem_of_list_In in Hin. specialize (Hdef _ Hin). by apply bool_decide_eq_true in Hdef. }
  apply Forall_forall. intros it Hit. pose proof (Hsh it (proj1 (elem_of_list_In _ _) Hit)) as Hs.
  destruct it as [ns|ns|ns|mn insts|l]; simpl; try done.
  - intros n Hn. rewrite elem_of_list_to_set. unfold decl_inputs. apply elem_of_list_bind. exists (IInput ns). done.
  - apply andb_true_iff in Hs as [Hs _]. rewrite forallb_forall in Hs.
    destruct (prim_of_name mn) as [t|] eqn:Ep.
    + apply Forall_forall. intros ic Hic. specialize (Hs ic (proj1 (elem_of_list_In _ _) Hic)). unfold inst_ok in Hs. rewrite Ep in Hs.
      destruct ic as [iname [[|o rest]|ps]]; simpl in Hs; try discriminate. apply andb_true_iff in Hs as [Ho _].
      apply bool_decide_eq_true in Ho as [n En]. exists n, rest. simpl. split; [by rewrite (as_id_cid _ _ En)|].
      apply (Hnd (IInst mn insts) n Hit). simpl. apply elem_of_list_bind. exists (iname, Positional (o :: rest)). split; [|done].
      unfold inst_defs. rewrite Ep. simpl. rewrite En. by left.
    + intros d Hd. apply Forall_forall. intros ic Hic. specialize (Hs ic (proj1 (elem_of_list_In _ _) Hic)). unfold inst_ok in Hs. rewrite Ep, Hd in Hs.
      destruct ic as [iname [pp|ps]]; simpl in Hs; try discriminate. apply andb_true_iff in Hs as [_ Hps]. rewrite forallb_forall in Hps.
      exists ps. split; [done|]. intros pc Hpc Hout. specialize (Hps pc (proj1 (elem_of_list_In _ _) Hpc)).
      apply orb_true_iff in Hps as [Hb|Hb].
      * apply andb_true_iff in Hb as [_ Hb]. apply negb_true_iff, bool_decide_eq_false in Hb. done.
      * apply andb_true_iff in Hb as [_ Hb]. destruct pc as [pn [e|]]; [|by left]. right. simpl in *.
        apply bool_decide_eq_true in Hb as [w Ew]. exists w. split; [by rewrite (as_id_cid _ _ Ew)|].
        apply (Hnd (IInst mn insts) w Hit). simpl. apply elem_of_list_bind. exists (iname, Named ps). split; [|done].
        unfold inst_defs. rewrite Ep, Hd. simpl. apply elem_of_list_bind. exists (pn, Some e). split; [|done]. simpl.
        rewrite bool_decide_eq_true_2 by done. rewrite Ew. by left.
  - intros lv Hlv. by apply (Hnd (IAssign l) lv Hit).
Qed.

Theorem read_io rsv bbs m C : in_subset bbs m = true → (list_to_set (module_ids m) : gset string) ⊆ rsv → read rsv bbs m = Ok C →
  inputs (c_g C) = list_to_set (decl_inputs m) ∧ outputs (c_g C) = list_to_set (decl_outputs m).
Proof. intros Hs. apply read_io_items. by apply in_subset_items. Qed.

(* ------------------------------------------------------------------ one primitive instance over identifiers, exactly *)
Lemma filter_all {A} (P : A → Prop) `{∀ x, Decision (P x)} (l : list A) : Forall P l → filter P l = l.
Proof. induction 1 as [|x l Hx _ IH]; [done|]. rewrite filter_cons_True by done. by rewrite IH. Qed.
Lemma filter_none {A} (P : A → Prop) `{∀ x, Decision (P x)} (l : list A) : Forall (λ x, ¬ P x) l → filter P l = [].
Proof. induction 1 as [|x l Hx _ IH]; [done|]. by rewrite filter_cons_False. Qed.
Lemma dedup_nodup l : NoDup l → dedup_first l = l.
Proof.
  induction 1 as [|x l Hx Hnd IH]; [done|]. simpl. rewrite IH. f_equal. apply filter_all. apply Forall_forall. intros y Hy ->. done.
Qed.
Lemma count_nodup l f : NoDup l → f ∈ l → count_occ_s l f = 1.
Proof.
  unfold count_occ_s. induction 1 as [|x l Hx Hnd IH]; [intros H; by apply elem_of_nil in H|].
  intros [->|Hin]%elem_of_cons.
  - rewrite filter_cons_True by done. simpl. rewrite filter_none; [done|]. apply Forall_forall. intros y Hy ->. done.
  - rewrite filter_cons_False; [by apply IH|]. intros ->. done.
Qed.
Lemma parity_nodup l : NoDup l → parity_ops l = l.
Proof.
  intros Hnd. unfold parity_ops. rewrite dedup_nodup by done. apply filter_all, Forall_forall. intros f Hf.
  by rewrite count_nodup.
Qed.
(* reading `<type> g(n, f1, .., fk)` with distinct operands: n becomes a node of that type over exactly these operands (plus
   whatever fan-in it had: none for a new node or a placeholder), operands that are no nodes yet become placeholder
   buffers, every other node is untouched *)
Theorem prim_instance_exact k t g nm n fi g' : prim_instance k t g (nm, CPos (n :: fi)) = Ok g' → NoDup fi → fi ≠ [] →
  g' !! n = Some (mk_node t false (fanin g n ∪ list_to_set fi)) ∧
  ∀ x, x ≠ n → g' !! x = g !! x ∨ (g !! x = None ∧ x ∈ fi ∧ g' !! x = Some (mk_node Buf false ∅)).
Proof.
  unfold prim_instance. simpl. intros H Hnd Hne. rewrite parity_nodup in H by done.
  assert (Hx0 : ∃ t' fi', (t', fi') = (t, fi) ∧ (r ← add_node (k_rsv k) g n t' fi' false; Ok r.1) = Ok g').
  { destruct fi as [|f fi']; [done|]. destruct (bool_decide (t = Xor) || bool_decide (t = Xnor)); simpl in H; eauto. }
  destruct Hx0 as (t' & fi' & [= -> ->] & H0). clear H. rename H0 into H.
  apply mbind_ok in H as ([g1 nm1] & H1 & H2). injection H2 as <-. simpl.
  unfold add_node, lift in H1. destruct (add_g g n t fi [] rd_flags) as [[g2 o] nm2] eqn:Ha. destruct o; [|discriminate].
  injection H1 as <- <-. apply add_g_gen in Ha as (_ & Hl & Hx); [|done]. split; [done|].
  intros x Hxn. destruct (Hx x Hxn) as [?|(? & ? & _ & ?)]; auto.
Qed.

(* ------------------------------------------------------------------ one continuous assignment, buffer case *)
(* the expression callbacks add fresh gates outside the reserved identifiers and undriven placeholder buffers *)
Definition fr2 (k : rctx) (st st' : cstate) : Prop :=
  st.1 ⊆ st'.1 ∧ ∀ x i, st'.1 !! x = Some i → st.1 !! x = None → x ∉ k_rsv k ∨ i = mk_node Buf false ∅.
Lemma fr2_cond k e st st' r : c_cond k st e = Ok (st', r) → fr2 k st st'.
Proof.
  apply (frame_cond k (fr2 k)).
  - intros s. split; [done|]. intros x i Hx Hn. congruence.
  - intros a b c [A1 A2] [B1 B2]. split; [by etrans|]. intros x i Hx Hn. destruct (b.1 !! x) as [j|] eqn:Eb.
    + pose proof (lookup_weaken _ _ _ _ Eb B1). assert (j = i) as -> by congruence. eauto.
    + eauto.
  - intros s prefix t items fi rem s' r' Ht Hfi H. apply gate_spec in H as (Hs & Hl & Hnd & Hnr & Hnew & Hge); [|done]. split; [done|].
    intros x i Hx Hn. assert (Hd : x ∈ dom s'.1) by (apply elem_of_dom; eauto). destruct (Hnew x Hd) as [Hd'|[->|[_ Hb]]].
    + apply elem_of_dom in Hd' as [? ?]. congruence.
    + by left.
    + right. congruence.
Qed.
(* `assign lv = e` where the result of e is not one of the reader's own gate nodes (e is an identifier, a constant, a
   parenthesised one, or a cancelled parity pair): lv becomes a buffer of that node and carries the value of e *)
Theorem assign_buffer_correct k st lv e st1 r st' :
  c_cond k st e = Ok (st1, r) → r ∉ st1.2 → assignment k st1 lv r = Ok st' →
  ties_ok k st.1 → lv ∉ [k_t0 k; k_t1 k; k_tx k] → lv ∈ k_rsv k →
  (∀ i, st.1 !! lv = Some i → n_fi i = ∅ ∧ is_free i = true) →
  ∀ v, consistent st'.1 v → v lv = sem_cond v (v (k_tx k)) e.
Proof.
  intros Hc Hr Ha Ht Hlv Hrsv Hfree v Hv.
  destruct (compile_cond_ok e k st st1 r Hc) as [Hs Hval]. destruct (fr2_cond _ _ _ _ _ Hc) as [_ Hnew].
  unfold assignment in Ha. rewrite bool_decide_eq_false_2 in Ha by done. rewrite bool_decide_eq_false_2 in Ha by done.
  apply mbind_ok in Ha as ([g' nm] & H1 & E). injection E as <-. simpl in *.
  unfold add_node, lift in H1. destruct (add_g st1.1 lv Buf [r] [] rd_flags) as [[g2 o] nm2] eqn:Eg. destruct o; [|discriminate].
  injection H1 as <- <-. apply add_g_gen in Eg as (_ & Hl & Hx); [|done].
  (* lv was absent or a free node without fan-in *)
  assert (Hlv1 : ∀ i, st1.1 !! lv = Some i → n_fi i = ∅ ∧ is_free i = true).
  { intros i Hi. destruct (st.1 !! lv) as [j|] eqn:Ej.
    - pose proof (lookup_weaken _ _ _ _ Ej Hs). assert (j = i) as -> by congruence. eauto.
    - destruct (Hnew lv i Hi Ej) as [?| ->]; [done|]. done. }
  assert (Hfi : fanin st1.1 lv = ∅).
  { unfold fanin. destruct (st1.1 !! lv) as [i|] eqn:Ei; [|done]. simpl. by destruct (Hlv1 i eq_refl). }
  rewrite Hfi in Hl.
  assert (Hc1 : consistent st1.1 v).
  { intros x i Hi. destruct (decide (x = lv)) as [->|Hne].
    - unfold node_ok. destruct (Hlv1 i Hi) as [_ ->]. done.
    - destruct (Hx x Hne) as [E|(E & _)]; [|congruence]. apply Hv. by rewrite E. }
  rewrite <- (Hval v Ht Hc1).
  pose proof (Hv lv _ Hl) as Hn. unfold node_ok, is_free in Hn. simpl in Hn.
  rewrite bool_decide_eq_false_2 in Hn by set_solver. rewrite Hn.
  match goal with |- gate_val Buf v ?S = _ => replace S with (list_to_set [r] : gset string) by set_solver end. rewrite gv1. simpl. by destruct (v r).
Qed.

(* ------------------------------------------------------------------ the node returned for an expression *)
(* the valuation of an expression only looks at its identifiers *)
Lemma sem_ext_all v v' x :
  (∀ p, (∀ s, s ∈ ids_prim p → v s = v' s) → sem_prim v x p = sem_prim v' x p) ∧
  (∀ u, (∀ s, s ∈ ids_unary u → v s = v' s) → sem_unary v x u = sem_unary v' x u) ∧
  (∀ a, (∀ s, s ∈ ids_and a → v s = v' s) → sem_and v x a = sem_and v' x a) ∧
  (∀ e, (∀ s, s ∈ ids_xor e → v s = v' s) → sem_xor v x e = sem_xor v' x e) ∧
  (∀ o, (∀ s, s ∈ ids_or o → v s = v' s) → sem_or v x o = sem_or v' x o).
Proof.
  apply expr_mutind; simpl.
  - intros s H. apply H. by left.
  - done.
  - auto.
  - auto.
  - intros p IH H. by rewrite IH.
  - auto.
  - intros a IHa u IHu H. rewrite IHa, IHu; [done| |]; intros s Hs; apply H; set_solver.
  - auto.
  - intros e IHe a IHa H. rewrite IHe, IHa; [done| |]; intros s Hs; apply H; set_solver.
  - intros e IHe a IHa H. rewrite IHe, IHa; [done| |]; intros s Hs; apply H; set_solver.
  - auto.
  - intros o IHo e IHe H. rewrite IHo, IHe; [done| |]; intros s Hs; apply H; set_solver.
Qed.
Lemma sem_cond_ext v v' x e : (∀ s, s ∈ ids_cond e → v s = v' s) → sem_cond v x e = sem_cond v' x e.
Proof.
  destruct (sem_ext_all v v' x) as (_ & _ & _ & _ & Hor). destruct e as [o|s a b]; simpl; intros H.
  - by apply Hor.
  - rewrite (Hor s), (Hor a), (Hor b); [done| | |]; intros y Hy; apply H; set_solver.
Qed.

(* operands of a successful add are nodes afterwards *)
Lemma connect_dom c us vs c' : connect_g c us vs = (c', Done) → us ≠ [] → vs ≠ [] → ∀ x, x ∈ us → x ∈ dom c.
Proof.
  unfold connect_g. intros H Hu Hv x Hx. rewrite !bool_decide_eq_false_2 in H by done. simpl in H.
  destruct (forallb _ (us ++ vs)) eqn:Ef; simpl in H; [|discriminate].
  rewrite forallb_forall in Ef. specialize (Ef x). rewrite bool_decide_eq_true in Ef. apply Ef. apply elem_of_list_In. set_solver.
Qed.
Lemma add_g_fi_dom c n t fi fl g' nm : add_g c n t fi [] fl = (g', Done, nm) → af_uid fl = false → ∀ x, x ∈ fi → x ∈ dom g'.
Proof.
  intros H Hu x Hx. pose proof H as H0. apply add_g_gen in H0 as (_ & Hn & Hoth); [|done].
  destruct (decide (x = n)) as [->|Hne]; [apply elem_of_dom; eauto|].
  unfold add_g in H. rewrite Hu in H. simpl in H.
  repeat (match type of H with (if ?b then _ else _) = _ => destruct b eqn:?; [discriminate|] end).
  rewrite app_nil_r in H. fold ph_step in H.
  destruct (if af_conn fl then _ else _) as [c1' o1] eqn:Hf. destruct o1 as [|e]; [|discriminate]. simpl in H.
  destruct (connect_g c1' fi [n]) as [c3 o3] eqn:Hc. destruct o3 as [|e]; [|destruct e; discriminate]. injection H as <- _.
  assert (Hfi : fi ≠ []) by (intros ->; by apply elem_of_nil in Hx).
  pose proof (connect_dom _ _ _ _ Hc Hfi ltac:(done) x Hx) as Hd. apply connect_one in Hc as [Hc1 _].
  apply elem_of_dom in Hd as [i Hi]. apply elem_of_dom. exists i. by rewrite Hc1.
Qed.
Lemma gate_fi_dom k st prefix t items fi rem st' r : gate k st prefix t items fi rem = Ok (st', r) → ∀ x, x ∈ fi → x ∈ dom st'.1.
Proof.
  unfold gate, add_node. intros H x Hx. apply rbind_ok in H as ([g' nm] & H1 & H2). simpl in H2. injection H2 as <- <-. simpl.
  destruct (add_g _ _ _ _ _ _) as [[g2 o] nm2] eqn:Ha. destruct o; simpl in H1; [|discriminate]. injection H1 as <- <-.
  by eapply add_g_fi_dom.
Qed.

Definition ties (k : rctx) : gset string := {[k_t0 k; k_t1 k; k_tx k]}.
(* a well-formed reader state: edges end at nodes, the constants are nodes and none of the reader's gates, the gates are
   outside the reserved identifiers *)
Definition gst (k : rctx) (st : cstate) : Prop :=
  closed st.1 ∧ ties k ⊆ dom st.1 ∧ ties k ## st.2 ∧ st.2 ## k_rsv k.
Definition frg (k : rctx) (st st' : cstate) : Prop := st.1 ⊆ st'.1 ∧ (gst k st → gst k st').
Lemma frg_refl k st : frg k st st. Proof. by split. Qed.
Lemma frg_trans k a b c : frg k a b → frg k b c → frg k a c.
Proof. intros [A1 A2] [B1 B2]. split; [by etrans|auto]. Qed.
Lemma frg_gate k s prefix t items fi rem s' r' : t ∈ [Not; And; Or; Xor; Xnor] → fi ≠ [] →
  gate k s prefix t items fi rem = Ok (s', r') → frg k s s'.
Proof.
  intros Ht Hfi H. pose proof (gate_fi_dom _ _ _ _ _ _ _ _ _ H) as Hfd.
  apply gate_spec in H as (Hs & Hl & Hnd & Hnr & Hnew & Hge); [|done]. split; [done|].
  intros (Hcl & Hti & Htg & Hgr). split; [|split; [|split]].
  - intros x i f Hx Hf. assert (Hd : x ∈ dom s'.1) by (apply elem_of_dom; eauto). destruct (Hnew x Hd) as [Hd'|[->|[_ Hb]]].
    + apply elem_of_dom in Hd' as [j Hj]. pose proof (lookup_weaken _ _ _ _ Hj Hs). assert (j = i) as -> by congruence.
      specialize (Hcl x i f Hj Hf). apply elem_of_dom in Hcl as [l Hl']. apply elem_of_dom. exists l. by eapply lookup_weaken.
    + rewrite Hl in Hx. injection Hx as <-. simpl in Hf. apply Hfd. by apply elem_of_list_to_set in Hf.
    + rewrite Hb in Hx. injection Hx as <-. simpl in Hf. set_solver.
  - intros x Hx. specialize (Hti x Hx). apply elem_of_dom in Hti as [j Hj]. apply elem_of_dom. exists j. by eapply lookup_weaken.
  - intros x Hx Hx2. apply Hge in Hx2. apply elem_of_union in Hx2 as [->%elem_of_singleton|?]; [|set_solver]. apply Hnd. by apply Hti.
  - intros x Hx Hx2. apply Hge in Hx. apply elem_of_union in Hx as [->%elem_of_singleton|?]; [done|set_solver].
Qed.
Lemma frg_cond k e st st' r : c_cond k st e = Ok (st', r) → frg k st st'.
Proof. apply (frame_cond k (frg k) (frg_refl k) (frg_trans k) (frg_gate k)). Qed.

Definition gate_types5 : list gtype := [Not; And; Or; Xor; Xnor].
(* r is a gate over operands other than itself that nothing reads *)
Definition topgate (g : circuit) (r : string) : Prop :=
  ∃ t fi, g !! r = Some (mk_node t false (list_to_set fi)) ∧ t ∈ gate_types5 ∧ fi ≠ [] ∧ r ∉ fi ∧ ∀ x i, g !! x = Some i → r ∉ n_fi i.
Definition resq (k : rctx) (st st' : cstate) (r : string) : Prop :=
  (r ∈ k_rsv k ∨ r ∈ dom st'.1) ∧ (r ∈ st'.2 → st.1 !! r = None ∧ topgate st'.1 r).
Lemma gate_resq k st su prefix t items fi rem st' r : st.1 ⊆ su.1 → gst k su → gate k su prefix t items fi rem = Ok (st', r) →
  t ∈ gate_types5 → fi ≠ [] → (∀ o, o ∈ fi → o ∈ k_rsv k ∨ o ∈ dom su.1) → resq k st st' r.
Proof.
  intros Hss (Hcl & Hti & Htg & Hgr) H Ht Hfi Hops. apply gate_spec in H as (Hs & Hl & Hnd & Hnr & Hnew & Hge); [|done].
  assert (Hrfi : r ∉ fi). { intros Hin. destruct (Hops r Hin); done. }
  split; [right; apply elem_of_dom; eauto|]. intros _. split.
  - apply not_elem_of_dom. intros Hd. apply Hnd. apply elem_of_dom in Hd as [j Hj]. apply elem_of_dom. exists j. by eapply lookup_weaken.
  - exists t, fi. split; [done|]. split; [done|]. split; [done|]. split; [done|].
    intros x i Hx Hin. assert (Hd : x ∈ dom st'.1) by (apply elem_of_dom; eauto). destruct (Hnew x Hd) as [Hd'|[->|[_ Hb]]].
    + apply elem_of_dom in Hd' as [j Hj]. pose proof (lookup_weaken _ _ _ _ Hj Hs). assert (j = i) as -> by congruence.
      apply Hnd. by eapply Hcl.
    + rewrite Hl in Hx. injection Hx as <-. simpl in Hin. by apply elem_of_list_to_set in Hin.
    + rewrite Hb in Hx. injection Hx as <-. simpl in Hin. set_solver.
Qed.
Lemma resq_weaken k st st1 st' r : st.1 ⊆ st1.1 → resq k st1 st' r → resq k st st' r.
Proof.
  intros Hs [A B]. split; [done|]. intros Hr. destruct (B Hr) as [Hn Ht]. split; [|done].
  destruct (st.1 !! r) as [j|] eqn:E; [|done]. pose proof (lookup_weaken _ _ _ _ E Hs). congruence.
Qed.
Lemma resq_dom k st st' (s'' : cstate) r : st'.1 ⊆ s''.1 → resq k st st' r → r ∈ k_rsv k ∨ r ∈ dom s''.1.
Proof. intros Hs [[?|Hd] _]; [by left|right]. apply elem_of_dom in Hd as [j Hj]. apply elem_of_dom. exists j. by eapply lookup_weaken. Qed.

Section result.
  Context (k : rctx).
  Definition rq {T} (cf : rctx → cstate → T → res (cstate * string)) (idf : T → list string) (e : T) : Prop :=
    ∀ st st' r, cf k st e = Ok (st', r) → gst k st → (list_to_set (idf e) : gset string) ⊆ k_rsv k → resq k st st' r.
  Lemma frg_levels : (∀ p, fp k (frg k) c_prim p) ∧ (∀ u, fp k (frg k) c_unary u) ∧ (∀ a, fp k (frg k) c_and a) ∧
                     (∀ x, fp k (frg k) c_xor x) ∧ (∀ o, fp k (frg k) c_or o).
  Proof. apply (frame_all k (frg k) (frg_refl k) (frg_trans k) (frg_gate k)). Qed.
  Lemma tie_resq st c : gst k st → resq k st st (konst_node k c).
  Proof.
    intros (Hcl & Hti & Htg & Hgr). assert (Hin : konst_node k c ∈ ties k) by (destruct c; unfold ties; set_solver).
    split; [right; by apply Hti|]. intros Hge. exfalso. by apply (Htg _ Hin).
  Qed.
  Lemma result_all : (∀ p, rq c_prim ids_prim p) ∧ (∀ u, rq c_unary ids_unary u) ∧ (∀ a, rq c_and ids_and a) ∧
                     (∀ x, rq c_xor ids_xor x) ∧ (∀ o, rq c_or ids_or o).
  Proof.
    destruct frg_levels as (Fp & Fu & Fa & Fx & Fo).
    apply expr_mutind; unfold rq.
    - intros s st st' r H G Hid. simpl in H, Hid. injection H as <- <-. assert (s ∈ k_rsv k) by set_solver. split; [by left|].
      intros Hge. exfalso. destruct G as (_ & _ & _ & Hgr). by apply (Hgr s Hge).
    - intros c st st' r H G Hid. simpl in H. injection H as <- <-. by apply tie_resq.
    - intros o IH st st' r H G Hid. simpl in H. by eapply IH.
    - intros p IH st st' r H G Hid. simpl in H. by eapply IH.
    - intros p IH st st' r H G Hid. simpl in H. apply rbind_ok in H as ([st1 r1] & H1 & H2). simpl in H2.
      destruct (Fp p _ _ _ H1) as [S1 G1]. eapply gate_resq; [exact S1|by apply G1|exact H2|set_solver|done|].
      intros o ->%elem_of_list_singleton. eapply (resq_dom k st st1 st1); [done|]. eapply IH; [exact H1|exact G|exact Hid].
    - intros u IH st st' r H G Hid. simpl in H. by eapply IH.
    - intros a IHa u IHu st st' r H G Hid. simpl in H, Hid.
      apply rbind_ok in H as ([st1 r1] & H1 & H). simpl in H. apply rbind_ok in H as ([st2 r2] & H2 & H). simpl in H.
      destruct (Fa a _ _ _ H1) as [S1 G1]. destruct (Fu u _ _ _ H2) as [S2 G2]. cbn [fst snd] in *.
      eapply gate_resq; [by etrans|by apply G2, G1|exact H|set_solver|done|].
      intros o [->|[->|[]%elem_of_nil]%elem_of_cons]%elem_of_cons.
      + eapply (resq_dom k st st1 st2); [exact S2|]. eapply IHa; [exact H1|exact G|set_solver].
      + eapply (resq_dom k st1 st2 st2); [done|]. eapply IHu; [exact H2|by apply G1|set_solver].
    - intros a IH st st' r H G Hid. simpl in H. by eapply IH.
    - intros x IHx a IHa st st' r H G Hid. simpl in H, Hid.
      apply rbind_ok in H as ([st1 r1] & H1 & H). simpl in H. apply rbind_ok in H as ([st2 r2] & H2 & H). simpl in H.
      destruct (Fx x _ _ _ H1) as [S1 G1]. destruct (Fa a _ _ _ H2) as [S2 G2]. cbn [fst snd] in *.
      case_bool_decide.
      + injection H as <- <-. eapply (resq_weaken k st st2); [by etrans|]. apply (tie_resq st2 K0). by apply G2, G1.
      + eapply gate_resq; [by etrans|by apply G2, G1|exact H|set_solver|done|].
        intros o [->|[->|[]%elem_of_nil]%elem_of_cons]%elem_of_cons.
        * eapply (resq_dom k st st1 st2); [exact S2|]. eapply IHx; [exact H1|exact G|set_solver].
        * eapply (resq_dom k st1 st2 st2); [done|]. eapply IHa; [exact H2|by apply G1|set_solver].
    - intros x IHx a IHa st st' r H G Hid. simpl in H, Hid.
      apply rbind_ok in H as ([st1 r1] & H1 & H). simpl in H. apply rbind_ok in H as ([st2 r2] & H2 & H). simpl in H.
      destruct (Fx x _ _ _ H1) as [S1 G1]. destruct (Fa a _ _ _ H2) as [S2 G2]. cbn [fst snd] in *.
      case_bool_decide.
      + injection H as <- <-. eapply (resq_weaken k st st2); [by etrans|]. apply (tie_resq st2 K1). by apply G2, G1.
      + eapply gate_resq; [by etrans|by apply G2, G1|exact H|set_solver|done|].
        intros o [->|[->|[]%elem_of_nil]%elem_of_cons]%elem_of_cons.
        * eapply (resq_dom k st st1 st2); [exact S2|]. eapply IHx; [exact H1|exact G|set_solver].
        * eapply (resq_dom k st1 st2 st2); [done|]. eapply IHa; [exact H2|by apply G1|set_solver].
    - intros x IH st st' r H G Hid. simpl in H. by eapply IH.
    - intros o IHo x IHx st st' r H G Hid. simpl in H, Hid.
      apply rbind_ok in H as ([st1 r1] & H1 & H). simpl in H. apply rbind_ok in H as ([st2 r2] & H2 & H). simpl in H.
      destruct (Fo o _ _ _ H1) as [S1 G1]. destruct (Fx x _ _ _ H2) as [S2 G2]. cbn [fst snd] in *.
      eapply gate_resq; [by etrans|by apply G2, G1|exact H|set_solver|done|].
      intros o' [->|[->|[]%elem_of_nil]%elem_of_cons]%elem_of_cons.
      + eapply (resq_dom k st st1 st2); [exact S2|]. eapply IHo; [exact H1|exact G|set_solver].
      + eapply (resq_dom k st1 st2 st2); [done|]. eapply IHx; [exact H2|by apply G1|set_solver].
  Qed.
End result.

Lemma gate_res_dom k su prefix t items fi rem st' r : gate k su prefix t items fi rem = Ok (st', r) → fi ≠ [] → r ∈ dom st'.1.
Proof. intros H Hfi. apply gate_spec in H as (_ & Hl & _); [|done]. apply elem_of_dom. eauto. Qed.
Theorem result_cond k e st st' r : c_cond k st e = Ok (st', r) → gst k st → (list_to_set (ids_cond e) : gset string) ⊆ k_rsv k →
  resq k st st' r.
Proof.
  destruct (result_all k) as (_ & _ & _ & _ & Ro). destruct (frg_levels k) as (_ & _ & _ & _ & Fo).
  destruct e as [o|s a b]; intros H G Hid.
  - simpl in H. by eapply Ro.
  - unfold c_cond in H.
    apply mbind_ok in H as ([st1 r1] & H1 & H). apply mbind_ok in H as ([st2 r2] & H2 & H).
    apply mbind_ok in H as ([st3 r3] & H3 & H). cbn [fst snd] in H.
    apply mbind_ok in H as ([gn n] & Hn & H). apply mbind_ok in H as ([ga0 a0] & Ha0 & H).
    apply mbind_ok in H as ([ga1 a1] & Ha1 & H). cbn [fst snd] in *.
    destruct (Fo s _ _ _ H1) as [S1 G1]. destruct (Fo a _ _ _ H2) as [S2 G2]. destruct (Fo b _ _ _ H3) as [S3 G3].
    edestruct (frg_gate k) as [Sn Gn]; [| |exact Hn|]; [set_solver|done|].
    edestruct (frg_gate k) as [Sa0 Ga0]; [| |exact Ha0|]; [set_solver|done|].
    edestruct (frg_gate k) as [Sa1 Ga1]; [| |exact Ha1|]; [set_solver|done|]. cbn [fst snd] in *.
    eapply gate_resq; [|by apply Ga1, Ga0, Gn, G3, G2, G1|exact H|set_solver|done|].
    + do 5 (etrans; [eassumption|]). done.
    + intros o [->|[->|[]%elem_of_nil]%elem_of_cons]%elem_of_cons; right.
      * pose proof (gate_res_dom _ _ _ _ _ _ _ _ _ Ha0 ltac:(done)) as Hd. apply elem_of_dom in Hd as [j Hj]. apply elem_of_dom. exists j. by eapply lookup_weaken.
      * by eapply gate_res_dom.
Qed.

(* ------------------------------------------------------------------ one continuous assignment, relabel case *)
Lemma upd_fi_id (f : gset string → gset string) i : f (n_fi i) = n_fi i → upd_fi f i = i.
Proof. destruct i. unfold upd_fi. simpl. by intros ->. Qed.
Lemma node_ok_ext v v' n n' i : v n = v' n' → (∀ f, f ∈ n_fi i → v f = v' f) → node_ok v n i → node_ok v' n' i.
Proof.
  intros Hn Hf. unfold node_ok. destruct (is_free i); [done|].
  assert (Hg : ∀ t, gate_val t v (n_fi i) = gate_val t v' (n_fi i)) by (intros t; by apply gate_val_ext).
  destruct (n_ty i); rewrite <- ?Hn, <- ?Hg; done.
Qed.
Theorem assign_relabel_correct k st lv e st1 r st' :
  c_cond k st e = Ok (st1, r) → r ∈ st1.2 → assignment k st1 lv r = Ok st' →
  gst k st → ties_ok k st.1 → (list_to_set (ids_cond e) : gset string) ⊆ k_rsv k →
  lv ∉ [k_t0 k; k_t1 k; k_tx k] → lv ∈ k_rsv k →
  (∀ i, st.1 !! lv = Some i → n_fi i = ∅ ∧ is_free i = true) →
  ∀ v, consistent st'.1 v → v lv = sem_cond v (v (k_tx k)) e.
Proof.
  intros Hc Hr Ha G Ht Hid Hlv Hrsv Hfree v Hv.
  destruct (compile_cond_ok e k st st1 r Hc) as [Hs Hval]. destruct (fr2_cond _ _ _ _ _ Hc) as [_ Hnew].
  destruct (frg_cond _ _ _ _ _ Hc) as [_ G1]. specialize (G1 G).
  destruct (result_cond _ _ _ _ _ Hc G Hid) as [_ HB]. destruct (HB Hr) as (Hrn & t & fi & Hl & Htt & Hfi & Hrfi & Hnofo).
  unfold assignment in Ha. rewrite bool_decide_eq_false_2 in Ha by done. rewrite bool_decide_eq_true_2 in Ha by done.
  injection Ha as <-. simpl in *.
  assert (Hrr : r ∉ k_rsv k). { destruct G1 as (_ & _ & _ & Hd). intros ?. by apply (Hd r). }
  assert (Hne : r ≠ lv) by (intros ->; done).
  assert (Hlv1 : ∀ i, st1.1 !! lv = Some i → n_fi i = ∅ ∧ is_free i = true).
  { intros i Hi. destruct (st.1 !! lv) as [j|] eqn:Ej.
    - pose proof (lookup_weaken _ _ _ _ Ej Hs). assert (j = i) as -> by congruence. eauto.
    - destruct (Hnew lv i Hi Ej) as [?| ->]; [done|]. done. }
  (* the graph after the relabel, node by node *)
  assert (Hsub : ∀ i, r ∉ n_fi i → upd_fi (λ s : gset string, if bool_decide (r ∈ s) then {[lv]} ∪ s ∖ {[r]} else s) i = i).
  { intros i Hi. apply upd_fi_id. by rewrite bool_decide_eq_false_2. }
  assert (Hg' : ∀ x, x ≠ lv → x ≠ r → relabel_g st1.1 r lv !! x = st1.1 !! x).
  { intros x H1 H2. unfold relabel_g. rewrite Hl. rewrite bool_decide_eq_false_2 by done.
    rewrite lookup_insert_ne by done. rewrite lookup_fmap, lookup_delete_ne by done.
    destruct (st1.1 !! x) as [i|] eqn:E; [|done]. simpl. f_equal. apply Hsub. by eapply Hnofo. }
  assert (Hglv : relabel_g st1.1 r lv !! lv = Some (mk_node t false (list_to_set fi))).
  { unfold relabel_g. rewrite Hl. rewrite bool_decide_eq_false_2 by done. rewrite lookup_insert. f_equal. unfold mk_node. simpl. f_equal.
    rewrite bool_decide_eq_false_2 by (by rewrite elem_of_list_to_set).
    assert (fanin (upd_fi (λ s : gset string, if bool_decide (r ∈ s) then {[lv]} ∪ s ∖ {[r]} else s) <$> delete r st1.1) lv = ∅) as ->; [|set_solver].
    unfold fanin. rewrite lookup_fmap, lookup_delete_ne by done. destruct (st1.1 !! lv) as [i|] eqn:E; [|done]. simpl.
    destruct (Hlv1 i eq_refl) as [E0 _]. rewrite E0. by rewrite bool_decide_eq_false_2 by set_solver. }
  set (v' := λ x, if bool_decide (x = r) then v lv else v x).
  assert (Hv'x : ∀ x, x ≠ r → v' x = v x) by (intros x Hx; unfold v'; by rewrite bool_decide_eq_false_2).
  assert (Hc1 : consistent st1.1 v').
  { intros x i Hi. destruct (decide (x = r)) as [->|Hxr].
    - rewrite Hl in Hi. injection Hi as <-. pose proof (Hv lv _ Hglv) as Hn.
      eapply (node_ok_ext v v' lv r); [unfold v'; by rewrite bool_decide_eq_true_2| |exact Hn].
      simpl. intros f Hf. rewrite Hv'x; [done|]. intros ->. by apply elem_of_list_to_set in Hf.
    - destruct (decide (x = lv)) as [->|Hxl].
      + unfold node_ok. destruct (Hlv1 i Hi) as [_ ->]. done.
      + eapply (node_ok_ext v v' x x); [by rewrite Hv'x| |apply Hv; by rewrite Hg'].
        intros f Hf. rewrite Hv'x; [done|]. intros ->. by eapply Hnofo. }
  assert (Htx : k_tx k ≠ r). { intros <-. destruct G as (_ & Hti & _). assert (k_tx k ∈ dom st.1) by (apply Hti; unfold ties; set_solver).
    apply elem_of_dom in H as [? ?]. congruence. }
  pose proof (Hval v' Ht Hc1) as Hres. unfold v' at 1 in Hres. rewrite bool_decide_eq_true_2 in Hres by done.
  rewrite Hres. rewrite (Hv'x (k_tx k) Htx). symmetry. apply sem_cond_ext. intros s Hs'. symmetry. apply Hv'x. intros ->. apply Hrr. apply Hid. by apply elem_of_list_to_set.
Qed.

(* one continuous assignment, both cases: after `assign lv = e` the net lv carries the value of e *)
Theorem assign_correct k st lv e st' :
  c_assign k st (lv, e) = Ok st' →
  gst k st → ties_ok k st.1 → (list_to_set (ids_cond e) : gset string) ⊆ k_rsv k →
  lv ∉ [k_t0 k; k_t1 k; k_tx k] → lv ∈ k_rsv k →
  (∀ i, st.1 !! lv = Some i → n_fi i = ∅ ∧ is_free i = true) →
  ∀ v, consistent st'.1 v → v lv = sem_cond v (v (k_tx k)) e.
Proof.
  unfold c_assign. simpl. intros H G Ht Hid Hlv Hrsv Hfree v Hv. apply mbind_ok in H as ([st1 r] & H1 & H2). simpl in H2.
  destruct (decide (r ∈ st1.2)).
  - by eapply assign_relabel_correct.
  - by eapply assign_buffer_correct.
Qed.

(* ------------------------------------------------------------------ assignment steps refine on reserved names *)
Lemma assign_buffer_refines k st lv e st1 r st' :
  c_cond k st e = Ok (st1, r) → r ∉ st1.2 → assignment k st1 lv r = Ok st' →
  lv ∉ [k_t0 k; k_t1 k; k_tx k] → lv ∈ k_rsv k →
  (∀ i, st.1 !! lv = Some i → n_fi i = ∅ ∧ is_free i = true) →
  ∀ v, consistent st'.1 v → consistent st.1 v.
Proof.
  intros Hc Hr Ha Hlv Hrsv Hfree v Hv.
  destruct (compile_cond_ok e k st st1 r Hc) as [Hs _]. destruct (fr2_cond _ _ _ _ _ Hc) as [_ Hnew].
  unfold assignment in Ha. rewrite bool_decide_eq_false_2 in Ha by done. rewrite bool_decide_eq_false_2 in Ha by done.
  apply mbind_ok in Ha as ([g' nm] & H1 & E). injection E as <-. simpl in *.
  unfold add_node, lift in H1. destruct (add_g st1.1 lv Buf [r] [] rd_flags) as [[g2 o] nm2] eqn:Eg. destruct o; [|discriminate].
  injection H1 as <- <-. apply add_g_gen in Eg as (_ & Hl & Hx); [|done].
  (* lv was absent or a free node without fan-in *)
  assert (Hlv1 : ∀ i, st1.1 !! lv = Some i → n_fi i = ∅ ∧ is_free i = true).
  { intros i Hi. destruct (st.1 !! lv) as [j|] eqn:Ej.
    - pose proof (lookup_weaken _ _ _ _ Ej Hs). assert (j = i) as -> by congruence. eauto.
    - destruct (Hnew lv i Hi Ej) as [?| ->]; [done|]. done. }
  assert (Hfi : fanin st1.1 lv = ∅).
  { unfold fanin. destruct (st1.1 !! lv) as [i|] eqn:Ei; [|done]. simpl. by destruct (Hlv1 i eq_refl). }
  rewrite Hfi in Hl.
  assert (Hc1 : consistent st1.1 v).
  { intros x i Hi. destruct (decide (x = lv)) as [->|Hne].
    - unfold node_ok. destruct (Hlv1 i Hi) as [_ ->]. done.
    - destruct (Hx x Hne) as [E|(E & _)]; [|congruence]. apply Hv. by rewrite E. }
  by eapply consistent_mono.
Qed.

Lemma assign_relabel_refines k st lv e st1 r st' :
  c_cond k st e = Ok (st1, r) → r ∈ st1.2 → assignment k st1 lv r = Ok st' →
  gst k st → (list_to_set (ids_cond e) : gset string) ⊆ k_rsv k →
  lv ∉ [k_t0 k; k_t1 k; k_tx k] → lv ∈ k_rsv k →
  (∀ i, st.1 !! lv = Some i → n_fi i = ∅ ∧ is_free i = true) →
  ∀ v, consistent st'.1 v → ∃ v1, consistent st.1 v1 ∧ (∀ s, s ∈ k_rsv k → v1 s = v s) ∧ v1 (k_tx k) = v (k_tx k).
Proof.
  intros Hc Hr Ha G Hid Hlv Hrsv Hfree v Hv.
  destruct (compile_cond_ok e k st st1 r Hc) as [Hs _]. destruct (fr2_cond _ _ _ _ _ Hc) as [_ Hnew].
  destruct (frg_cond _ _ _ _ _ Hc) as [_ G1]. specialize (G1 G).
  destruct (result_cond _ _ _ _ _ Hc G Hid) as [_ HB]. destruct (HB Hr) as (Hrn & t & fi & Hl & Htt & Hfi & Hrfi & Hnofo).
  unfold assignment in Ha. rewrite bool_decide_eq_false_2 in Ha by done. rewrite bool_decide_eq_true_2 in Ha by done.
  injection Ha as <-. simpl in *.
  assert (Hrr : r ∉ k_rsv k). { destruct G1 as (_ & _ & _ & Hd). intros ?. by apply (Hd r). }
  assert (Hne : r ≠ lv) by (intros ->; done).
  assert (Hlv1 : ∀ i, st1.1 !! lv = Some i → n_fi i = ∅ ∧ is_free i = true).
  { intros i Hi. destruct (st.1 !! lv) as [j|] eqn:Ej.
    - pose proof (lookup_weaken _ _ _ _ Ej Hs). assert (j = i) as -> by congruence. eauto.
    - destruct (Hnew lv i Hi Ej) as [?| ->]; [done|]. done. }
  (* the graph after the relabel, node by node *)
  assert (Hsub : ∀ i, r ∉ n_fi i → upd_fi (λ s : gset string, if bool_decide (r ∈ s) then {[lv]} ∪ s ∖ {[r]} else s) i = i).
  { intros i Hi. apply upd_fi_id. by rewrite bool_decide_eq_false_2. }
  assert (Hg' : ∀ x, x ≠ lv → x ≠ r → relabel_g st1.1 r lv !! x = st1.1 !! x).
  { intros x H1 H2. unfold relabel_g. rewrite Hl. rewrite bool_decide_eq_false_2 by done.
    rewrite lookup_insert_ne by done. rewrite lookup_fmap, lookup_delete_ne by done.
    destruct (st1.1 !! x) as [i|] eqn:E; [|done]. simpl. f_equal. apply Hsub. by eapply Hnofo. }
  assert (Hglv : relabel_g st1.1 r lv !! lv = Some (mk_node t false (list_to_set fi))).
  { unfold relabel_g. rewrite Hl. rewrite bool_decide_eq_false_2 by done. rewrite lookup_insert. f_equal. unfold mk_node. simpl. f_equal.
    rewrite bool_decide_eq_false_2 by (by rewrite elem_of_list_to_set).
    assert (fanin (upd_fi (λ s : gset string, if bool_decide (r ∈ s) then {[lv]} ∪ s ∖ {[r]} else s) <$> delete r st1.1) lv = ∅) as ->; [|set_solver].
    unfold fanin. rewrite lookup_fmap, lookup_delete_ne by done. destruct (st1.1 !! lv) as [i|] eqn:E; [|done]. simpl.
    destruct (Hlv1 i eq_refl) as [E0 _]. rewrite E0. by rewrite bool_decide_eq_false_2 by set_solver. }
  set (v' := λ x, if bool_decide (x = r) then v lv else v x).
  assert (Hv'x : ∀ x, x ≠ r → v' x = v x) by (intros x Hx; unfold v'; by rewrite bool_decide_eq_false_2).
  assert (Hc1 : consistent st1.1 v').
  { intros x i Hi. destruct (decide (x = r)) as [->|Hxr].
    - rewrite Hl in Hi. injection Hi as <-. pose proof (Hv lv _ Hglv) as Hn.
      eapply (node_ok_ext v v' lv r); [unfold v'; by rewrite bool_decide_eq_true_2| |exact Hn].
      simpl. intros f Hf. rewrite Hv'x; [done|]. intros ->. by apply elem_of_list_to_set in Hf.
    - destruct (decide (x = lv)) as [->|Hxl].
      + unfold node_ok. destruct (Hlv1 i Hi) as [_ ->]. done.
      + eapply (node_ok_ext v v' x x); [by rewrite Hv'x| |apply Hv; by rewrite Hg'].
        intros f Hf. rewrite Hv'x; [done|]. intros ->. by eapply Hnofo. }
  assert (Htx : k_tx k ≠ r). { intros <-. destruct G as (_ & Hti & _). assert (k_tx k ∈ dom st.1) by (apply Hti; unfold ties; set_solver).
    apply elem_of_dom in H as [? ?]. congruence. }
  exists v'. split; [by eapply consistent_mono|]. split; [|by apply Hv'x].
  intros s Hs'. apply Hv'x. intros ->. done.
Qed.
(* every assignment step refines on the reserved names: a consistent valuation of the new graph yields one of the old graph
   with the same values on all identifiers of the text and on tie_x *)
Theorem assign_refines k st lv e st' :
  c_assign k st (lv, e) = Ok st' →
  gst k st → (list_to_set (ids_cond e) : gset string) ⊆ k_rsv k →
  lv ∉ [k_t0 k; k_t1 k; k_tx k] → lv ∈ k_rsv k →
  (∀ i, st.1 !! lv = Some i → n_fi i = ∅ ∧ is_free i = true) →
  ∀ v, consistent st'.1 v → ∃ v1, consistent st.1 v1 ∧ (∀ s, s ∈ k_rsv k → v1 s = v s) ∧ v1 (k_tx k) = v (k_tx k).
Proof.
  unfold c_assign. simpl. intros H G Hid Hlv Hrsv Hfree v Hv. apply mbind_ok in H as ([st1 r] & H1 & H2). simpl in H2.
  destruct (decide (r ∈ st1.2)).
  - by eapply assign_relabel_refines.
  - exists v. split; [by eapply assign_buffer_refines|done].
Qed.
